import InfluxQL.Lemmas.PMonad
import InfluxQL.Lemmas.ParserTok
import InfluxQL.Lemmas.Total
import InfluxQL.Lemmas.Neutral
import InfluxQL.Lemmas.Quote
import InfluxQL.Lemmas.ScanNumber
import InfluxQL.Lemmas.Prec
import InfluxQL.Lemmas.IntLit
import InfluxQL.Lemmas.Digits
import InfluxQL.Lemmas.QuoteSpell
import InfluxQL.Lemmas.RegexRoundTrip
/-
Print → parse for expressions (C03, re-parsing half on the real parser and printer).

Part 1: the token plumbing seen from the text: a parser state "stands at" a cursor, possibly
with the token scanned from there pushed back (`Look`); `Scan` / `ScanIgnoreWhitespace` from such
a state deliver what the scanner delivers from that cursor.
-/
namespace InfluxQL.RT
open InfluxQL Gen

/-- Parameters and lower-casing table are the same in both states. -/
def Same (s s' : PState) : Prop := s'.params = s.params ∧ s'.lowerTbl = s.lowerTbl

theorem Same.refl (s : PState) : Same s s := ⟨rfl, rfl⟩
theorem Same.trans {a b c : PState} (h1 : Same a b) (h2 : Same b c) : Same a c :=
  ⟨h2.1.trans h1.1, h2.2.trans h1.2⟩

/-- `s` stands at cursor `r0`: nothing is pushed back and the reader is `r0`, or the one token
scanned from `r0` is pushed back. -/
def Look (s : PState) (r0 : Cursor) : Prop :=
  (s.n = 0 ∧ s.r = r0) ∨ (s.n = 1 ∧ s.buf[0]? = some (scan r0).1 ∧ s.r = (scan r0).2)

/-- `s` has just received `lx`, nothing is pushed back, the reader is `r`. -/
def Just (s : PState) (lx : Lexeme) (r : Cursor) : Prop :=
  s.n = 0 ∧ s.buf[0]? = some lx ∧ s.r = r

theorem substTok_id {params : List (Str × BoundValue)} {lx : Lexeme} (h : lx.tok ≠ .BOUNDPARAM) :
    substTok params lx = lx := by
  unfold substTok; rw [if_neg h]

theorem rawNext_look (s : PState) (r0 : Cursor) (h : Look s r0) :
    (rawNext false s).1 = (scan r0).1 ∧ Just (rawNext false s).2 (scan r0).1 (scan r0).2 ∧
      Same s (rawNext false s).2 := by
  rcases h with ⟨hn, hr⟩ | ⟨hn, hb, hr⟩
  · subst hr
    obtain ⟨f1, f2, f3⟩ := rawNext_fresh false s hn
    have f3' : (rawNext false s).1 = (scan s.r).1 := f3
    have f2' : (rawNext false s).2.r = (scan s.r).2 := f2
    refine ⟨f3', ⟨by rw [rawNext_n, hn], ?_, f2'⟩, (rawNext_params false s).1, (rawNext_params false s).2⟩
    rw [f1, f3']; simp
  · obtain ⟨f1, f2, f3⟩ := rawNext_buffered false s (by omega)
    have hg : s.buf.getD (s.n - 1) zeroLexeme = (scan r0).1 := by
      rw [hn, List.getD_eq_getElem?_getD, hb]; rfl
    refine ⟨by rw [f3, hg], ⟨by rw [rawNext_n, hn], by rw [f1]; exact hb, by rw [f2]; exact hr⟩,
      (rawNext_params false s).1, (rawNext_params false s).2⟩

/-- `Scan()` from a state standing at `r0`. -/
theorem pscan_look (s : PState) (r0 : Cursor) (h : Look s r0) (ht : (scan r0).1.tok ≠ .BOUNDPARAM) :
    ∃ s1, pscan.run s = .ok ((scan r0).1, s1) ∧ Just s1 (scan r0).1 (scan r0).2 ∧ Same s s1 := by
  obtain ⟨h1, h2, h3⟩ := rawNext_look s r0 h
  refine ⟨(rawNext false s).2, ?_, h2, h3⟩
  rw [pscan_run, h1, substTok_id ht]

/-- `ScanIgnoreWhitespace()` from a state standing at `r0` when the token there is significant. -/
theorem scanIW_look (s : PState) (r0 : Cursor) (h : Look s r0) (ht : (scan r0).1.tok ≠ .BOUNDPARAM)
    (hw : (scan r0).1.tok ≠ .WS) (hc : (scan r0).1.tok ≠ .COMMENT) :
    ∃ s1, scanIW.run s = .ok ((scan r0).1, s1) ∧ Just s1 (scan r0).1 (scan r0).2 ∧ Same s s1 := by
  obtain ⟨h1, h2, h3⟩ := rawNext_look s r0 h
  refine ⟨(rawNext false s).2, ?_, h2, h3⟩
  have e : substTok s.params (rawNext false s).1 = (scan r0).1 := by rw [h1, substTok_id ht]
  rw [scanIW_run_sig s (by rw [e]; exact hw) (by rw [e]; exact hc), pscan_run, e]

/-- `ScanIgnoreWhitespace()` from a state standing at `r0` when the token there is whitespace and
the next one is significant. -/
theorem scanIW_look_ws (s : PState) (r0 : Cursor) (h : Look s r0) (hws : (scan r0).1.tok = .WS)
    (ht : (scan (scan r0).2).1.tok ≠ .BOUNDPARAM)
    (hw : (scan (scan r0).2).1.tok ≠ .WS) (hc : (scan (scan r0).2).1.tok ≠ .COMMENT) :
    ∃ s1, scanIW.run s = .ok ((scan (scan r0).2).1, s1) ∧
      Just s1 (scan (scan r0).2).1 (scan (scan r0).2).2 ∧ Same s s1 := by
  obtain ⟨h1, h2, h3⟩ := rawNext_look s r0 h
  have hl2 : Look (rawNext false s).2 (scan r0).2 := Or.inl ⟨h2.1, h2.2.2⟩
  obtain ⟨k1, k2, k3⟩ := rawNext_look _ _ hl2
  refine ⟨(rawNext false (rawNext false s).2).2, ?_, k2, h3.trans k3⟩
  have e : substTok s.params (rawNext false s).1 = (scan r0).1 := by
    rw [h1, substTok_id (by rw [hws]; decide)]
  have e2 : substTok (rawNext false s).2.params (rawNext false (rawNext false s).2).1 =
      (scan (scan r0).2).1 := by rw [k1, substTok_id ht]
  unfold scanIW
  rw [P.runBind, P.run_get]
  simp only []
  rw [show s.n + s.r.rest.length + 2 = ((s.n + s.r.rest.length) + 1) + 1 from rfl,
    scanIWLoop_run_skip _ s (by rw [e]; exact Or.inl hws),
    scanIWLoop_run_sig _ _ (by rw [e2]; exact hw) (by rw [e2]; exact hc), pscan_run, e2]

/-- After `Unscan()` the state stands where the last token came from. -/
theorem look_unsc (s : PState) (r0 : Cursor) (h : Just s (scan r0).1 (scan r0).2) : Look (unsc s) r0 :=
  Or.inr ⟨by simp [unsc, h.1], h.2.1, h.2.2⟩

theorem unsc_same (s : PState) : Same s (unsc s) := ⟨rfl, rfl⟩

/-- Pushing the last token back and asking again re-delivers it and restores the state. -/
theorem scanIW_redeliver (s : PState) (lx : Lexeme) (r : Cursor) (h : Just s lx r)
    (ht : lx.tok ≠ .BOUNDPARAM) (hw : lx.tok ≠ .WS) (hc : lx.tok ≠ .COMMENT) :
    scanIW.run (unsc s) = .ok (lx, s) := by
  have := scanIW_buffered (unsc s) 0 lx (by simp [unsc, h.1]) h.2.1 ht hw hc
  rw [this]
  obtain ⟨hn, _, _⟩ := h
  cases s
  simp only at hn
  subst hn
  rfl

theorem pscan_redeliver (s : PState) (lx : Lexeme) (r : Cursor) (h : Just s lx r)
    (ht : lx.tok ≠ .BOUNDPARAM) : pscan.run (unsc s) = .ok (lx, s) := by
  have := pscan_buffered (unsc s) 0 lx (by simp [unsc, h.1]) h.2.1 ht
  rw [this]
  obtain ⟨hn, _, _⟩ := h
  cases s
  simp only at hn
  subst hn
  rfl


/-! ## Part 2: what the scanner returns on printed fragments -/

/-- The reader has `k` ahead — or `k` is the end-of-input sentinel and a loop that breaks on it
has already swallowed it (the next `Scan` returns EOF in both cases). -/
def Rem (r : Cursor) (k : List Char) : Prop := r.chars = k ∨ (k = [eofRune] ∧ r.chars = [])

/-- What may follow an expression: the end of the input, `)` or `,`. -/
def SepC (k : List Char) : Prop := k = [eofRune] ∨ ∃ t, k = ')' :: t ∨ k = ',' :: t

/-- What may follow an operand: the above, or one blank and a further token. -/
def SepU (k : List Char) : Prop :=
  SepC k ∨ ∃ c t, k = ' ' :: c :: t ∧ isWhitespace c = false ∧ c ≠ eofRune

theorem Rem.of_dropEof {r : Cursor} {k : List Char} (hk : SepU k) (h : r.chars = dropEof k) : Rem r k := by
  rcases hk with (rfl | ⟨t, rfl | rfl⟩) | ⟨c, t, rfl, _, _⟩
  · right; exact ⟨rfl, by simpa [dropEof] using h⟩
  · left; rw [h]; rfl
  · left; rw [h]; rfl
  · left; rw [h]; rfl

theorem Rem.chars_of_cons {r : Cursor} {c : Char} {t : List Char} (h : Rem r (c :: t)) (hc : c ≠ eofRune) :
    r.chars = c :: t := by
  rcases h with h | ⟨h, _⟩
  · exact h
  · simp only [List.cons.injEq] at h; exact absurd h.1 hc

/-- The head of a separator is no identifier rune, no `"`, no `.`, `:`, `(`. -/
theorem SepU.head {k : List Char} (hk : SepU k) :
    k = [eofRune] ∨ ∃ x t, k = x :: t ∧ (x = ' ' ∨ x = ')' ∨ x = ',') := by
  rcases hk with (rfl | ⟨t, rfl | rfl⟩) | ⟨c, t, rfl, _, _⟩
  · exact Or.inl rfl
  · exact Or.inr ⟨_, _, rfl, Or.inr (Or.inl rfl)⟩
  · exact Or.inr ⟨_, _, rfl, Or.inr (Or.inr rfl)⟩
  · exact Or.inr ⟨_, _, rfl, Or.inl rfl⟩

/-- A word (identifier runes, starting with a letter or `_`) followed by the end of input or by
a rune that cannot continue it: one token, the keyword it spells or else an identifier. -/
theorem scan_word (r : Cursor) (c : Char) (tl k : List Char) (hc : isIdentFirstChar c = true)
    (htl : ∀ y ∈ tl, isIdentChar y = true)
    (hk : k = [eofRune] ∨ ∃ x t, k = x :: t ∧ isIdentChar x = false ∧ x ≠ '"' ∧ x ≠ eofRune)
    (h : r.chars = c :: tl ++ k) :
    (scan r).1.tok = lookup (c :: tl) ∧
      (scan r).1.lit = (if lookup (c :: tl) = .IDENT then c :: tl else []) ∧ Rem (scan r).2 k := by
  obtain ⟨hws, hlu, hic, hcq, hce⟩ := isIdentFirstChar_facts hc
  have hall : ∀ y ∈ c :: tl, isIdentChar y = true := by
    intro y hy; simp at hy; rcases hy with rfl | hy
    · exact hic
    · exact htl y hy
  have hpk := Cursor.peek_of_map (r := r) (c := c) (t := tl ++ k) (by simpa [Cursor.chars] using h)
  have hscan : scan r = scanIdent true r := by
    unfold scan; rw [hpk.2]; unfold scanFrom; simp [hws, hlu]
  have hkstop : ∀ x t, k = x :: t → (isIdentChar x && x != eofRune) = false := by
    intro x t hxt
    rcases hk with rfl | ⟨x', t', rfl, hx, _, _⟩
    · simp only [List.cons.injEq] at hxt; rw [← hxt.1]; decide
    · simp only [List.cons.injEq] at hxt; rw [← hxt.1, hx]; rfl
  obtain ⟨hb1, hb2⟩ := readWhile_chars isIdentChar r (c :: tl) k h
    (fun y hy => ⟨hall y hy, isIdentChar_ne_eof (hall y hy)⟩) hkstop
  have hsb1 : (scanBareIdent r).1 = c :: tl := hb1
  have hsb2 : (scanBareIdent r).2.chars = dropEof k := by
    show ((r.readWhile isIdentChar).2.eatEof).chars = dropEof k
    rw [Cursor.chars_eatEof, hb2]
  have hloop : ∃ r', scanIdentLoop (r.read.1).2 (r.rest.length + 2) r [] = ((none, c :: tl), r') ∧ Rem r' k := by
    rw [show r.rest.length + 2 = (r.rest.length + 1) + 1 from rfl, scanIdentLoop]
    simp only [hpk.1, hce, hcq, hic, if_false, if_true]
    rw [scanIdentLoop]
    rcases hk with rfl | ⟨x, t, rfl, hx, hxq, hxe⟩
    · have hnil : (scanBareIdent r).2.chars = [] := by rw [hsb2]; simp [dropEof]
      obtain ⟨p1, p2⟩ := Cursor.chars_nil hnil
      simp only [p1, if_true, hsb1, List.nil_append]
      exact ⟨_, rfl, Or.inr ⟨rfl, p2⟩⟩
    · have hcons : (scanBareIdent r).2.chars = x :: t := by rw [hsb2]; simp [dropEof, hxe]
      obtain ⟨_, _, p3⟩ := Cursor.chars_cons hcons
      simp only [p3, hxe, hxq, hx, if_false, hsb1, List.nil_append]
      exact ⟨_, by simp, Or.inl hcons⟩
  obtain ⟨r', hl, hrem⟩ := hloop
  rw [hscan]
  unfold scanIdent
  dsimp only
  rw [hl]
  by_cases hlk : lookup (c :: tl) = .IDENT
  · simp [hlk, hrem]
  · simp [hlk, hrem]


/-- A run of digits followed by a rune that is no digit, no `.` and no unit letter: one INTEGER. -/
theorem scan_digits (r : Cursor) (ds : List Char) (x : Char) (t : List Char) (hne : ds ≠ [])
    (hds : ∀ d ∈ ds, isDigit d = true) (hx : isDigit x = false) (hxdot : x ≠ '.') (hxdur : isDurChar x = false)
    (h : r.chars = ds ++ x :: t) :
    (scan r).1.tok = .INTEGER ∧ (scan r).1.lit = ds ∧ (scan r).2.chars = x :: t := by
  cases ds with
  | nil => exact absurd rfl hne
  | cons d0 dtl =>
  have hd0 := hds d0 (by simp)
  obtain ⟨hws, hlu⟩ := isDigit_facts hd0
  have hpk := Cursor.peek_of_map (r := r) (c := d0) (t := dtl ++ x :: t) (by simpa [Cursor.chars] using h)
  have hscan : scan r = scanNumber r r.read.1.2 := by
    unfold scan; rw [hpk.2]; unfold scanFrom; simp [hws, hlu, hd0]
  obtain ⟨e1, e2, _⟩ := r.readWhile_exact isDigit (d0 :: dtl) x t h
    (fun y hy => ⟨hds y hy, isDigit_ne_eof (hds y hy)⟩) hx
  have hpk1 : (r.readWhile isDigit).2.peek = x := (Cursor.peek_of_map e2).1
  have hprefix : scanNumberPrefix r = (d0 :: dtl, false, (r.readWhile isDigit).2) := by
    unfold scanNumberPrefix scanDigits
    dsimp only
    rw [hpk1]
    simp [hxdot, e1]
  rw [hscan]
  unfold scanNumber
  rw [hprefix]
  dsimp only
  rw [hpk1]
  simp only [Bool.not_false, if_true, hxdur, Bool.false_eq_true, if_false]
  exact ⟨trivial, trivial, e2⟩

theorem sepU_head_facts {k : List Char} (hk : SepU k) :
    ∃ x t, k = x :: t ∧ isDigit x = false ∧ x ≠ '.' ∧ isDurChar x = false ∧ isIdentChar x = false ∧
      x ≠ '"' ∧ isDurTailChar x = false := by
  rcases hk.head with rfl | ⟨x, t, rfl, rfl | rfl | rfl⟩
  · exact ⟨_, _, rfl, by decide, by decide, by decide, by decide, by decide, by decide⟩
  · exact ⟨_, _, rfl, by decide, by decide, by decide, by decide, by decide, by decide⟩
  · exact ⟨_, _, rfl, by decide, by decide, by decide, by decide, by decide, by decide⟩
  · exact ⟨_, _, rfl, by decide, by decide, by decide, by decide, by decide, by decide⟩

/-- The closing separators as tokens. -/
theorem scan_close (r : Cursor) (k : List Char) (h : Rem r k) (hk : SepC k) :
    (k = [eofRune] ∧ (scan r).1.tok = .EOF) ∨
    (∃ t, k = ')' :: t ∧ (scan r).1.tok = .RPAREN ∧ (scan r).2.chars = t) ∨
    (∃ t, k = ',' :: t ∧ (scan r).1.tok = .COMMA ∧ (scan r).2.chars = t) := by
  rcases hk with rfl | ⟨t, rfl | rfl⟩
  · left
    refine ⟨rfl, ?_⟩
    rcases h with h | ⟨_, h⟩
    · obtain ⟨h1, _, _⟩ := Cursor.chars_cons h
      unfold scan scanFrom
      rw [h1]
      simp only [show isWhitespace eofRune = false from by decide, show isLetter eofRune = false from by decide,
        show isDigit eofRune = false from by decide, show (eofRune == '_') = false from by decide]
      simp
    · exact scan_at_end r (by simpa [Cursor.chars] using h)
  · right; left
    have hc := h.chars_of_cons (by decide)
    obtain ⟨h1, h2, _⟩ := Cursor.chars_cons hc
    refine ⟨t, rfl, ?_, ?_⟩
    · unfold scan; rw [h1]; rfl
    · unfold scan; rw [h1]; exact h2
  · right; right
    have hc := h.chars_of_cons (by decide)
    obtain ⟨h1, h2, _⟩ := Cursor.chars_cons hc
    refine ⟨t, rfl, ?_, ?_⟩
    · unfold scan; rw [h1]; rfl
    · unfold scan; rw [h1]; exact h2

theorem scan_lparen (r : Cursor) (t : List Char) (h : r.chars = '(' :: t) :
    (scan r).1.tok = .LPAREN ∧ (scan r).2.chars = t := by
  obtain ⟨h1, h2, _⟩ := Cursor.chars_cons h
  constructor
  · unfold scan; rw [h1]; rfl
  · unfold scan; rw [h1]; exact h2

/-- One blank before a rune that is neither whitespace nor the sentinel. -/
theorem scan_space (r : Cursor) (c : Char) (t : List Char) (hc : isWhitespace c = false) (hce : c ≠ eofRune)
    (h : r.chars = ' ' :: c :: t) : (scan r).1.tok = .WS ∧ (scan r).2.chars = c :: t := by
  have := scan_wsRun r [' '] (c :: t) h ⟨by simp, by intro x hx; simp at hx; subst hx; decide⟩
    (by intro x y hxy; simp only [List.cons.injEq] at hxy; rw [← hxy.1]; exact hc)
  refine ⟨this.1, ?_⟩
  rw [this.2]; simp [dropEof, hce]


/-- The eighteen binary operators. -/
def binOps : List Token :=
  [.ADD, .SUB, .MUL, .DIV, .MOD, .BITWISE_AND, .BITWISE_OR, .BITWISE_XOR, .AND, .OR, .EQ, .NEQ, .EQREGEX,
   .NEQREGEX, .LT, .LTE, .GT, .GTE]

theorem isOperator_mem {t : Token} (h : t.isOperator = true) : t ∈ binOps := by
  cases t <;> first | decide | (exfalso; revert h; decide)

theorem binOps_concrete : ∀ op ∈ binOps,
    (scan (Cursor.ofRunes (op.str ++ [' ']))).1.sig = (op, []) ∧
    (scan (Cursor.ofRunes (op.str ++ [' ']))).2.chars = [' ', eofRune] ∧
    (Cursor.ofRunes (op.str ++ [' '])).chars = op.str ++ [' ', eofRune] := by decide

/-- The printed spelling of a binary operator followed by a blank scans as that operator and
stops before the blank. -/
theorem scan_op (op : Token) (hop : op.isOperator = true) (r : Cursor) (t : List Char)
    (h : r.chars = op.str ++ ' ' :: t) :
    (scan r).1.tok = op ∧ (scan r).1.lit = [] ∧ (scan r).2.chars = ' ' :: t := by
  obtain ⟨c1, c2, c3⟩ := binOps_concrete op (isOperator_mem hop)
  have hloc : Loc [' ', eofRune] (' ' :: t) (Cursor.ofRunes (op.str ++ [' '])) r := ⟨op.str, c3, h⟩
  have htail : TailOK [' ', eofRune] (' ' :: t) := Or.inr ⟨_, _, _, _, rfl, rfl, by decide, by decide⟩
  have hlen : [' ', eofRune].length ≤ (scan (Cursor.ofRunes (op.str ++ [' ']))).2.rest.length := by
    have := congrArg List.length c2
    simp only [Cursor.chars, List.length_map] at this
    rw [this]; exact Nat.le_refl _
  obtain ⟨hsig, a, ha1, ha2⟩ := scan_loc hloc htail hlen
  have ha : a = [] := by
    have e : [' ', eofRune] = a ++ [' ', eofRune] := by rw [← ha1]; exact c2.symm
    have := congrArg List.length e
    simp only [List.length_append, List.length_cons, List.length_nil] at this
    exact List.length_eq_zero_iff.mp (by omega)
  subst ha
  rw [c1] at hsig
  have h1 : (scan r).1.tok = op := (congrArg Prod.fst hsig).symm
  have h2 : (scan r).1.lit = [] := (congrArg Prod.snd hsig).symm
  exact ⟨h1, h2, by simpa [Cursor.chars] using ha2⟩


/-- The text starts with a rune that is neither whitespace nor the sentinel. -/
def HeadOK (txt : List Char) : Prop := ∃ c t, txt = c :: t ∧ isWhitespace c = false ∧ c ≠ eofRune

theorem HeadOK.append {a : List Char} (h : HeadOK a) (b : List Char) : HeadOK (a ++ b) := by
  obtain ⟨c, t, rfl, h1, h2⟩ := h
  exact ⟨c, t ++ b, rfl, h1, h2⟩

theorem esc_eq_escF {q : Char} {s : List Char} (hs : Expressible s) : s.flatMap (esc q) = s.flatMap (escF q) := by
  induction s with
  | nil => rfl
  | cons c s ih =>
    have hc := hs c (by simp)
    simp only [List.flatMap_cons, escF, hc.2, if_false]
    rw [ih (fun x hx => hs x (by simp [hx]))]

/-- `QuoteString(v)` scans back as the string `v` and stops right after the closing quote. -/
theorem scan_string_text (r : Cursor) (v k : List Char) (hv : Expressible v) (h : r.chars = quoteString v ++ k) :
    (scan r).1.tok = .STRING ∧ (scan r).1.lit = v ∧ (scan r).2.chars = k := by
  rw [C06.quoteString_eq, esc_eq_escF hv] at h
  rcases scan_quotedString r v k (by simpa [Cursor.chars] using h) with ⟨_, h1, h2, h3⟩ | ⟨hne, _⟩
  · exact ⟨h1, h2, h3⟩
  · exact absurd hv hne

theorem headOK_quoteString (v : List Char) : HeadOK (quoteString v) :=
  ⟨'\'', _, rfl, by decide, by decide⟩

/-- What may follow an identifier without continuing it. -/
def IdEnd (k : List Char) : Prop :=
  k = [eofRune] ∨ ∃ x t, k = x :: t ∧ isIdentChar x = false ∧ x ≠ '"' ∧ x ≠ eofRune

theorem SepU.idEnd {k : List Char} (hk : SepU k) : IdEnd k := by
  rcases hk.head with rfl | ⟨x, t, rfl, rfl | rfl | rfl⟩
  · exact Or.inl rfl
  · exact Or.inr ⟨_, _, rfl, by decide, by decide, by decide⟩
  · exact Or.inr ⟨_, _, rfl, by decide, by decide, by decide⟩
  · exact Or.inr ⟨_, _, rfl, by decide, by decide, by decide⟩

/-- `QuoteIdent(v)` scans back as the identifier `v`. -/
theorem scan_ident_text (r : Cursor) (v k : List Char) (hv : Expressible v) (hk : IdEnd k)
    (h : r.chars = quoteIdent [v] ++ k) :
    (scan r).1.tok = .IDENT ∧ (scan r).1.lit = v ∧ Rem (scan r).2 k := by
  rw [C06.quoteIdent_single] at h
  by_cases hq : (identNeedsQuotes v || v == []) = true
  · rw [if_pos hq, esc_eq_escF hv] at h
    rcases scan_quotedIdent r v k (by simpa [Cursor.chars] using h) with ⟨_, h1, h2, h3⟩ | ⟨hne, _⟩
    · exact ⟨h1, h2, Or.inl h3⟩
    · exact absurd hv hne
  · rw [if_neg hq] at h
    simp only [Bool.or_eq_true, not_or, Bool.not_eq_true, beq_eq_false_iff_ne, ne_eq] at hq
    obtain ⟨hn, hne⟩ := hq
    obtain ⟨hlk, c, tl, rfl, hc, htl⟩ := (identNeedsQuotes_false_iff v hne).mp hn
    have hall : ∀ y ∈ c :: tl, isIdentChar y = true := by
      intro y hy; simp at hy; rcases hy with rfl | hy
      · exact (isIdentFirstChar_facts hc).2.2.1
      · exact htl y hy
    rw [C06.esc_identChars _ hall] at h
    have := scan_word r c tl k hc htl hk h
    rw [hlk] at this
    simpa using this

theorem headOK_quoteIdent (v : List Char) : HeadOK (quoteIdent [v]) := by
  rw [C06.quoteIdent_single]
  by_cases hq : (identNeedsQuotes v || v == []) = true
  · rw [if_pos hq]; exact ⟨'"', _, rfl, by decide, by decide⟩
  · rw [if_neg hq]
    simp only [Bool.or_eq_true, not_or, Bool.not_eq_true, beq_eq_false_iff_ne, ne_eq] at hq
    obtain ⟨hn, hne⟩ := hq
    obtain ⟨hlk, c, tl, rfl, hc, htl⟩ := (identNeedsQuotes_false_iff v hne).mp hn
    have hall : ∀ y ∈ c :: tl, isIdentChar y = true := by
      intro y hy; simp at hy; rcases hy with rfl | hy
      · exact (isIdentFirstChar_facts hc).2.2.1
      · exact htl y hy
    rw [C06.esc_identChars _ hall]
    exact ⟨c, tl, rfl, (isIdentFirstChar_facts hc).1, (isIdentFirstChar_facts hc).2.2.2.2⟩

theorem scanFrom_minus (pos : Pos) (r r1 : Cursor) : scanFrom '-' pos r r1 = scanFrom2 '-' pos r1 := by
  unfold scanFrom
  simp only [show isWhitespace '-' = false from by decide, show isLetter '-' = false from by decide,
    show isDigit '-' = false from by decide, show ('-' == '_') = false from by decide]
  simp only [show ('-' : Char) ≠ eofRune from by decide, show ('-' : Char) ≠ '"' from by decide,
    show ('-' : Char) ≠ '\'' from by decide, show ('-' : Char) ≠ '.' from by decide, show ('-' : Char) ≠ '$' from by decide,
    Bool.or_self, Bool.false_eq_true, if_false]

/-- A minus sign before a digit is the SUB token. -/
theorem scan_minus (r : Cursor) (d : Char) (t : List Char) (hd : isDigit d = true) (h : r.chars = '-' :: d :: t) :
    (scan r).1.tok = .SUB ∧ (scan r).1.lit = [] ∧ (scan r).2.chars = d :: t := by
  obtain ⟨h1, h2, _⟩ := Cursor.chars_cons h
  obtain ⟨_, _, p3⟩ := Cursor.chars_cons h2
  have hne : d ≠ '-' := by intro e; subst e; revert hd; decide
  unfold scan
  rw [h1, scanFrom_minus]
  unfold scanFrom2
  simp only [show ('-' : Char) ≠ '+' from by decide, if_false, if_true, p3, hne]
  exact ⟨trivial, trivial, h2⟩

theorem scan_true_false (r : Cursor) (b : Bool) (k : List Char) (hk : SepU k)
    (h : r.chars = (if b then "true".toList else "false".toList) ++ k) :
    (scan r).1.tok = (if b then .TRUE else .FALSE) ∧ Rem (scan r).2 k := by
  cases b with
  | true =>
    have := scan_word r 't' ['r', 'u', 'e'] k (by decide) (by decide) hk.idEnd h
    exact ⟨this.1.trans (by decide), this.2.2⟩
  | false =>
    have := scan_word r 'f' ['a', 'l', 's', 'e'] k (by decide) (by decide) hk.idEnd h
    exact ⟨this.1.trans (by decide), this.2.2⟩

/-! ## Part 3: parser states and texts -/

/-- The parser stands before `txt`, possibly after one blank. -/
def AtW (s : PState) (txt : List Char) : Prop :=
  ∃ r0, Look s r0 ∧ (r0.chars = txt ∨ r0.chars = ' ' :: txt)

/-- The parser stands before the separator `k`. -/
def At (s : PState) (k : List Char) : Prop := ∃ r0, Look s r0 ∧ Rem r0 k

theorem Just.at {s : PState} {lx : Lexeme} {r : Cursor} (h : Just s lx r) {k : List Char} (hr : Rem r k) : At s k :=
  ⟨r, Or.inl ⟨h.1, h.2.2⟩, hr⟩

theorem At.atW {s : PState} {txt : List Char} (h : At s (' ' :: txt)) : AtW s txt := by
  obtain ⟨r0, hl, hr⟩ := h
  exact ⟨r0, hl, Or.inr (hr.chars_of_cons (by decide))⟩

def Sig (t : Token) : Prop := t ≠ .BOUNDPARAM ∧ t ≠ .WS ∧ t ≠ .COMMENT

/-- The first significant token of a text, as `ScanIgnoreWhitespace` delivers it; pushing it back
leaves the parser before the text. -/
theorem scanIW_first' (s : PState) (txt : List Char) (h : AtW s txt) (hh : HeadOK txt) (tok : Token)
    (lit : List Char) (Q : Cursor → Prop)
    (hs : ∀ r : Cursor, r.chars = txt → (scan r).1.tok = tok ∧ (scan r).1.lit = lit ∧ Q (scan r).2)
    (hsig : Sig tok) :
    ∃ lx s1 r1, scanIW.run s = .ok (lx, s1) ∧ lx.tok = tok ∧ lx.lit = lit ∧ Just s1 lx r1 ∧ Q r1 ∧ Same s s1 ∧
      AtW (unsc s1) txt := by
  obtain ⟨r0, hl, hr | hr⟩ := h
  · obtain ⟨h1, h2, h3⟩ := hs r0 hr
    obtain ⟨s1, k1, k2, k3⟩ := scanIW_look s r0 hl (by rw [h1]; exact hsig.1) (by rw [h1]; exact hsig.2.1)
      (by rw [h1]; exact hsig.2.2)
    exact ⟨_, s1, _, k1, h1, h2, k2, h3, k3, ⟨r0, look_unsc s1 r0 k2, Or.inl hr⟩⟩
  · obtain ⟨c, t, rfl, hc1, hc2⟩ := hh
    obtain ⟨w1, w2⟩ := scan_space r0 c t hc1 hc2 hr
    obtain ⟨h1, h2, h3⟩ := hs (scan r0).2 w2
    obtain ⟨s1, k1, k2, k3⟩ := scanIW_look_ws s r0 hl w1 (by rw [h1]; exact hsig.1) (by rw [h1]; exact hsig.2.1)
      (by rw [h1]; exact hsig.2.2)
    exact ⟨_, s1, _, k1, h1, h2, k2, h3, k3, ⟨(scan r0).2, look_unsc s1 _ k2, Or.inl w2⟩⟩

theorem scanIW_first (s : PState) (txt : List Char) (h : AtW s txt) (hh : HeadOK txt) (tok : Token)
    (lit : List Char) (Q : Cursor → Prop)
    (hs : ∀ r : Cursor, r.chars = txt → (scan r).1.tok = tok ∧ (scan r).1.lit = lit ∧ Q (scan r).2)
    (hsig : Sig tok) :
    ∃ lx s1 r1, scanIW.run s = .ok (lx, s1) ∧ lx.tok = tok ∧ lx.lit = lit ∧ Just s1 lx r1 ∧ Q r1 ∧ Same s s1 := by
  obtain ⟨lx, s1, r1, h1, h2, h3, h4, h5, h6, _⟩ := scanIW_first' s txt h hh tok lit Q hs hsig
  exact ⟨lx, s1, r1, h1, h2, h3, h4, h5, h6⟩

/-- `Scan()` on the first token of a text (no blank skipped). -/
theorem pscan_first (s : PState) (r0 : Cursor) (h : Look s r0) (tok : Token) (ht : tok ≠ .BOUNDPARAM)
    (h1 : (scan r0).1.tok = tok) :
    ∃ lx s1, pscan.run s = .ok (lx, s1) ∧ lx = (scan r0).1 ∧ Just s1 lx (scan r0).2 ∧ Same s s1 := by
  obtain ⟨s1, k1, k2, k3⟩ := pscan_look s r0 h (by rw [h1]; exact ht)
  exact ⟨_, s1, k1, rfl, k2, k3⟩


/-- `ScanIgnoreWhitespace()` at the separator that closes an expression: `)`, `,` or EOF. -/
theorem scanIW_close (s : PState) (k : List Char) (h : At s k) (hk : SepC k) :
    ∃ lx s1 r1, scanIW.run s = .ok (lx, s1) ∧ Same s s1 ∧ Just s1 lx r1 ∧ At (unsc s1) k ∧
      ((k = [eofRune] ∧ lx.tok = .EOF) ∨ (∃ t, k = ')' :: t ∧ lx.tok = .RPAREN ∧ r1.chars = t) ∨
        (∃ t, k = ',' :: t ∧ lx.tok = .COMMA ∧ r1.chars = t)) := by
  obtain ⟨r0, hl, hr⟩ := h
  have hc := scan_close r0 k hr hk
  have hsig : Sig (scan r0).1.tok := by
    rcases hc with ⟨_, h⟩ | ⟨_, _, h, _⟩ | ⟨_, _, h, _⟩ <;> rw [h] <;> exact ⟨by decide, by decide, by decide⟩
  obtain ⟨s1, k1, k2, k3⟩ := scanIW_look s r0 hl hsig.1 hsig.2.1 hsig.2.2
  exact ⟨_, s1, _, k1, k3, k2, ⟨r0, look_unsc s1 r0 k2, hr⟩, hc⟩

/-! ## Part 4: the functions of the parser on single operands -/

theorem unscan_run' (s : PState) : unscan.run s = .ok (⟨⟩, unsc s) := rfl

theorem parseIdent_buffered (s : PState) (k : Nat) (lx : Lexeme) (hn : s.n = k + 1) (hb : s.buf[k]? = some lx)
    (ht : lx.tok = .IDENT) : parseIdent.run s = .ok (lx.lit, { s with n := k }) := by
  unfold parseIdent
  rw [P.run_bind _ _ _ _ _ (scanIW_buffered s k lx hn hb (by rw [ht]; decide) (by rw [ht]; decide) (by rw [ht]; decide))]
  simp [ht]
  rfl

theorem segLoop_stop (fuel : Nat) (idents : List Str) (s : PState) (k : Nat) (t1 : Lexeme) (hn : s.n = k + 1)
    (hb : s.buf[k]? = some t1) (ht : t1.tok ≠ .BOUNDPARAM) (hd : t1.tok ≠ .DOT) :
    (segLoop (fuel + 1) idents).run s = .ok (idents, s) := by
  rw [segLoop, P.run_bind _ _ _ _ _ (pscan_buffered s k t1 hn hb ht)]
  rw [P.run_ite, if_pos hd, P.run_bind _ _ _ _ _ (unscan_run' _)]
  rw [P.run_pure]
  cases s
  simp only at hn
  subst hn
  rfl

theorem parseSegmentedIdents_single (s : PState) (lx t1 : Lexeme) (hn : s.n = 2) (h1 : s.buf[1]? = some lx)
    (h0 : s.buf[0]? = some t1) (hlx : lx.tok = .IDENT) (ht : t1.tok ≠ .BOUNDPARAM) (hd : t1.tok ≠ .DOT) :
    parseSegmentedIdents.run s = .ok ([lx.lit], { s with n := 1 }) := by
  unfold parseSegmentedIdents
  rw [P.run_bind _ _ _ _ _ (parseIdent_buffered s 1 lx hn h1 hlx)]
  rw [P.run_bind _ _ _ _ _ (P.run_get _)]
  rw [show ({ s with n := 1 } : PState).n + ({ s with n := 1 } : PState).r.rest.length + 2 =
    (1 + s.r.rest.length + 1) + 1 from rfl]
  rw [P.run_bind _ _ _ _ _ (segLoop_stop _ [lx.lit] { s with n := 1 } 0 t1 rfl h0 ht hd)]
  simp
  rfl

/-- `ParseVarRef` on a single identifier that is not followed by `.` or `::`. -/
theorem parseVarRef_plain (s : PState) (lx t1 : Lexeme) (hn : s.n = 2) (h1 : s.buf[1]? = some lx)
    (h0 : s.buf[0]? = some t1) (hlx : lx.tok = .IDENT) (ht : t1.tok ≠ .BOUNDPARAM) (hd : t1.tok ≠ .DOT)
    (hcc : t1.tok ≠ .DOUBLECOLON) :
    parseVarRef.run s = .ok (.varRef lx.lit .Unknown, { s with n := 1 }) := by
  unfold parseVarRef
  rw [P.run_bind _ _ _ _ _ (parseSegmentedIdents_single s lx t1 hn h1 h0 hlx ht hd)]
  rw [P.run_bind _ _ _ _ _ (pscan_buffered { s with n := 1 } 0 t1 rfl h0 ht)]
  simp only [hcc, if_false]
  rfl

theorem unary_string (F : Nat) (s s1 : PState) (lx : Lexeme) (r1 : Cursor)
    (h1 : scanIW.run s = .ok (lx, s1)) (hj : Just s1 lx r1) (htok : lx.tok = .STRING) :
    (parseUnaryExpr (F + 1)).run s = .ok (.string lx.lit, s1) := by
  have hsig : lx.tok ≠ .BOUNDPARAM ∧ lx.tok ≠ .WS ∧ lx.tok ≠ .COMMENT := by rw [htok]; decide
  have hnp : ¬ lx.tok = .LPAREN := by rw [htok]; decide
  rw [parseUnaryExpr, P.run_bind _ _ _ _ _ h1, P.run_ite, if_neg hnp, P.run_bind _ _ _ _ _ (unscan_run' s1),
    P.run_bind _ _ _ _ _ (scanIW_redeliver s1 lx r1 hj hsig.1 hsig.2.1 hsig.2.2)]
  obtain ⟨tok, pos, lit⟩ := lx
  simp only at htok
  subst htok
  rfl

theorem parseIntegerLit_natDigits (n : Nat) (h : (n : Int) ≤ maxInt64) (pos : Pos) (s : PState) :
    (parseIntegerLit (natDigits n) pos).run s = .ok (.integer n, s) := by
  unfold parseIntegerLit
  rw [splitSign_natDigits]
  have h0 : minInt64 ≤ (n : Int) := by unfold minInt64; omega
  simp [allDigits_natDigits, digitsVal_natDigits, h, h0, StateT.run, pure, StateT.pure, Except.pure]

theorem unary_integer (F : Nat) (s s1 : PState) (lx : Lexeme) (r1 : Cursor) (n : Nat)
    (h1 : scanIW.run s = .ok (lx, s1)) (hj : Just s1 lx r1) (htok : lx.tok = .INTEGER)
    (hlit : lx.lit = natDigits n) (hn : (n : Int) ≤ maxInt64) :
    (parseUnaryExpr (F + 1)).run s = .ok (.integer n, s1) := by
  have hsig : lx.tok ≠ .BOUNDPARAM ∧ lx.tok ≠ .WS ∧ lx.tok ≠ .COMMENT := by rw [htok]; decide
  have hnp : ¬ lx.tok = .LPAREN := by rw [htok]; decide
  rw [parseUnaryExpr, P.run_bind _ _ _ _ _ h1, P.run_ite, if_neg hnp, P.run_bind _ _ _ _ _ (unscan_run' s1),
    P.run_bind _ _ _ _ _ (scanIW_redeliver s1 lx r1 hj hsig.1 hsig.2.1 hsig.2.2)]
  obtain ⟨tok, pos, lit⟩ := lx
  simp only at htok hlit
  subst htok hlit
  exact parseIntegerLit_natDigits n hn pos s1

theorem parseIntegerLit_unsigned (n : Nat) (h1 : maxInt64 < (n : Int)) (h2 : (n : Int) ≤ maxUInt64) (pos : Pos)
    (s : PState) : (parseIntegerLit (natDigits n) pos).run s = .ok (.unsigned n, s) := by
  unfold parseIntegerLit
  rw [splitSign_natDigits]
  have hd := natDigits_all_digits n
  have hne := natDigits_ne_nil n
  have hh : (natDigits n).head? ≠ some '-' ∧ (natDigits n).head? ≠ some '+' := by
    match hx : natDigits n with
    | [] => exact absurd hx hne
    | c :: rest =>
      have hc : isDigit c = true := hd c (by rw [hx]; exact List.mem_cons_self)
      constructor
      · intro h; simp at h; rw [h] at hc; exact absurd hc (by decide)
      · intro h; simp at h; rw [h] at hc; exact absurd hc (by decide)
  have hnot : ¬ (minInt64 ≤ (n : Int) ∧ (n : Int) ≤ maxInt64) := by omega
  simp [allDigits_natDigits, digitsVal_natDigits, hnot, hh.1, hh.2, h2, StateT.run, pure, StateT.pure, Except.pure]

theorem unary_unsigned (F : Nat) (s s1 : PState) (lx : Lexeme) (r1 : Cursor) (n : Nat)
    (h1 : scanIW.run s = .ok (lx, s1)) (hj : Just s1 lx r1) (htok : lx.tok = .INTEGER)
    (hlit : lx.lit = natDigits n) (hn1 : maxInt64 < (n : Int)) (hn2 : (n : Int) ≤ maxUInt64) :
    (parseUnaryExpr (F + 1)).run s = .ok (.unsigned n, s1) := by
  have hsig : lx.tok ≠ .BOUNDPARAM ∧ lx.tok ≠ .WS ∧ lx.tok ≠ .COMMENT := by rw [htok]; decide
  have hnp : ¬ lx.tok = .LPAREN := by rw [htok]; decide
  rw [parseUnaryExpr, P.run_bind _ _ _ _ _ h1, P.run_ite, if_neg hnp, P.run_bind _ _ _ _ _ (unscan_run' s1),
    P.run_bind _ _ _ _ _ (scanIW_redeliver s1 lx r1 hj hsig.1 hsig.2.1 hsig.2.2)]
  obtain ⟨tok, pos, lit⟩ := lx
  simp only at htok hlit
  subst htok hlit
  exact parseIntegerLit_unsigned n hn1 hn2 pos s1

theorem unary_bool (F : Nat) (s s1 : PState) (lx : Lexeme) (r1 : Cursor) (b : Bool)
    (h1 : scanIW.run s = .ok (lx, s1)) (hj : Just s1 lx r1) (htok : lx.tok = (if b then .TRUE else .FALSE)) :
    (parseUnaryExpr (F + 1)).run s = .ok (.boolean b, s1) := by
  have hsig : lx.tok ≠ .BOUNDPARAM ∧ lx.tok ≠ .WS ∧ lx.tok ≠ .COMMENT := by cases b <;> (rw [htok]; decide)
  have hnp : ¬ lx.tok = .LPAREN := by cases b <;> (rw [htok]; decide)
  rw [parseUnaryExpr, P.run_bind _ _ _ _ _ h1, P.run_ite, if_neg hnp, P.run_bind _ _ _ _ _ (unscan_run' s1),
    P.run_bind _ _ _ _ _ (scanIW_redeliver s1 lx r1 hj hsig.1 hsig.2.1 hsig.2.2)]
  obtain ⟨tok, pos, lit⟩ := lx
  cases b <;> (simp only at htok; subst htok; rfl)

/-- An identifier that is followed by neither `(`, `.` nor `::` is a plain variable reference; the
token after it stays pushed back. -/
theorem unary_ident_plain (F : Nat) (s s1 : PState) (lx : Lexeme) (r1 : Cursor)
    (h1 : scanIW.run s = .ok (lx, s1)) (hj : Just s1 lx r1) (htok : lx.tok = .IDENT)
    (hb : (scan r1).1.tok ≠ .BOUNDPARAM) (hlp : (scan r1).1.tok ≠ .LPAREN) (hd : (scan r1).1.tok ≠ .DOT)
    (hcc : (scan r1).1.tok ≠ .DOUBLECOLON) :
    ∃ s', (parseUnaryExpr (F + 1)).run s = .ok (.varRef lx.lit .Unknown, s') ∧ Look s' r1 ∧ Same s1 s' := by
  have hsig : lx.tok ≠ .BOUNDPARAM ∧ lx.tok ≠ .WS ∧ lx.tok ≠ .COMMENT := by rw [htok]; decide
  have hnp : ¬ lx.tok = .LPAREN := by rw [htok]; decide
  obtain ⟨hn0, hb0, hr0⟩ := hj
  subst hr0
  have hps := pscan_fresh s1 hn0 hb
  refine ⟨{ unsc (unsc { s1 with r := (scan s1.r).2, buf := ((scan s1.r).1 :: s1.buf).take 3 }) with n := 1 }, ?_,
    Or.inr ⟨rfl, by simp [unsc], rfl⟩, ⟨rfl, rfl⟩⟩
  rw [parseUnaryExpr, P.run_bind _ _ _ _ _ h1, P.run_ite, if_neg hnp, P.run_bind _ _ _ _ _ (unscan_run' s1),
    P.run_bind _ _ _ _ _ (scanIW_redeliver s1 lx s1.r ⟨hn0, hb0, rfl⟩ hsig.1 hsig.2.1 hsig.2.2)]
  have hvr := parseVarRef_plain
    (unsc (unsc { s1 with r := (scan s1.r).2, buf := ((scan s1.r).1 :: s1.buf).take 3 })) lx (scan s1.r).1
    (by simp [unsc, hn0]) (by simp [unsc, hb0]) (by simp [unsc]) htok hb hd hcc
  obtain ⟨tok, pos, lit⟩ := lx
  simp only at htok
  subst htok
  show (pscan >>= _).run s1 = _
  rw [P.run_bind _ _ _ _ _ hps, P.run_ite, if_neg hlp, P.run_bind _ _ _ _ _ (unscan_run' _),
    P.run_bind _ _ _ _ _ (unscan_run' _)]
  exact hvr


/-! ### `parseRegex` -/

theorem scanRegex_chars (r : Cursor) (src k : List Char) (hok : RegexRunes src) (hend : endsBS src = false)
    (h : r.chars = '/' :: (escapeSlashes src ++ '/' :: k)) :
    (scanRegex r).1.tok = .REGEX ∧ (scanRegex r).1.lit = src ∧ (scanRegex r).2.chars = k := by
  unfold Cursor.chars at h
  obtain ⟨b1, l1, hrest, hb1, hl1⟩ := List.map_eq_cons_iff.mp h
  obtain ⟨l2, l3, rfl, hl2, hl3⟩ := List.map_eq_append_iff.mp hl1
  obtain ⟨b2, l4, rfl, hb2, hl4⟩ := List.map_eq_cons_iff.mp hl3
  obtain ⟨c1, q1⟩ := b1
  obtain ⟨c2, q2⟩ := b2
  simp only at hb1 hb2
  subst hb1 hb2
  obtain ⟨e1, e2⟩ := scanRegex_print r q1 q2 l2 l4 src hrest hl2 hok hend
  rw [e1]
  exact ⟨rfl, rfl, by unfold Cursor.chars; rw [e2]; exact hl4⟩

/-- A regex source that `RegexLiteral.String()` writes back readably: no newline, NUL or CR, not
ending in a backslash, not starting with `*` (`/*` would open a comment; no such regex compiles). -/
def regexB (src : List Char) : Bool :=
  src.all (fun c => c != '\n' && c != eofRune && c != '\r') && !endsBS src && (src.head? != some '*')

theorem regexB_facts {src : List Char} (h : regexB src = true) :
    RegexRunes src ∧ endsBS src = false ∧ src.head? ≠ some '*' ∧ ∀ c ∈ src, c ≠ '\r' := by
  unfold regexB at h
  simp only [Bool.and_eq_true, List.all_eq_true, bne_iff_ne, ne_eq, Bool.not_eq_true'] at h
  obtain ⟨⟨h1, h2⟩, h3⟩ := h
  exact ⟨fun c hc => ⟨(h1 c hc).1.1, (h1 c hc).1.2⟩, h2, h3, fun c hc => (h1 c hc).2⟩

theorem escapeSlashes_head (src k : List Char) (h : src.head? ≠ some '*') :
    ∃ y t, escapeSlashes src ++ '/' :: k = y :: t ∧ y ≠ '*' := by
  cases src with
  | nil => exact ⟨'/', k, rfl, by decide⟩
  | cons c rest =>
    by_cases hc : c = '/'
    · subst hc
      exact ⟨'\\', '/' :: (escapeSlashes rest ++ '/' :: k), by simp [escapeSlashes], by decide⟩
    · refine ⟨c, escapeSlashes rest ++ '/' :: k, by simp [escapeSlashes, hc], ?_⟩
      intro e; subst e; exact h rfl

theorem peek2_chars {r : Cursor} {x y : Char} {t : List Char} (h : r.chars = x :: y :: t) : r.peek2 = (x, y) := by
  unfold Cursor.chars at h
  unfold Cursor.peek2
  match hr : r.rest with
  | [] => rw [hr] at h; simp at h
  | [a] => rw [hr] at h; simp at h
  | a :: b :: rest => rw [hr] at h; simp at h; simp [h.1, h.2.1]

/-- `parseRegex` after the optional blank, standing before a printed regex literal. -/
theorem parseRegexSkip_text (s : PState) (src k : List Char) (hn : s.n = 0) (hsrc : regexB src = true)
    (h : s.r.chars = '/' :: (escapeSlashes src ++ '/' :: k)) :
    ∃ lx s', parseRegexSkip.run s = .ok (some (.regex src), s') ∧ Just s' lx s'.r ∧ s'.r.chars = k ∧ Same s s' := by
  obtain ⟨hok, hend, hhead, _⟩ := regexB_facts hsrc
  obtain ⟨y, t, hyt, hy⟩ := escapeSlashes_head src k hhead
  have hp2 : s.r.peek2 = ('/', y) := peek2_chars (by rw [h, hyt])
  have hpk : s.r.peek = '/' := (Cursor.chars_cons h).2.2
  obtain ⟨g1, g2, g3⟩ := scanRegex_chars s.r src k hok hend h
  obtain ⟨f1, f2, f3⟩ := rawNext_fresh true s hn
  have f2' : (rawNext true s).2.r = (scanRegex s.r).2 := f2
  have f3' : (rawNext true s).1 = (scanRegex s.r).1 := f3
  refine ⟨(scanRegex s.r).1, (rawNext true s).2, ?_, ⟨by rw [rawNext_n, hn], by rw [f1, f3']; simp, rfl⟩,
    by rw [f2']; exact g3, (rawNext_params true s).1, (rawNext_params true s).2⟩
  unfold parseRegexSkip
  rw [P.run_bind _ _ _ _ _ (P.run_get s)]
  rw [show s.n + s.r.rest.length + 1 = (s.n + s.r.rest.length) + 1 from rfl, skipCommentsLoop_succ]
  have hoc : opensComment s.r.peek2.1 s.r.peek2.2 = false := by
    rw [hp2]; simp [opensComment, hy]
  simp only [bind_assoc]
  rw [P.run_bind _ _ _ _ _ (peekComment_run s), hoc]
  simp only [Bool.false_eq_true, if_false, pure_bind, Bool.not_true]
  unfold parseRegexTail
  rw [P.run_bind _ _ _ _ _ (peekRune_run s), hpk]
  simp only [show ('/' : Char) ≠ eofRune from by decide, show ('/' : Char) ≠ '$' from by decide, if_false,
    ne_eq, not_true_eq_false]
  rw [P.run_bind _ _ _ _ _ (pscanRegex_run s), f3', substTok_id (by rw [g1]; decide)]
  simp [g1, g2]
  rfl

theorem consumeWhitespace_space (s : PState) (hn : s.n = 0) (c : Char) (t : List Char)
    (hc : isWhitespace c = false) (hce : c ≠ eofRune) (h : s.r.chars = ' ' :: c :: t) :
    ∃ s2, consumeWhitespace.run s = .ok (⟨⟩, s2) ∧ s2.n = 0 ∧ s2.r.chars = c :: t ∧ Same s s2 := by
  obtain ⟨w1, w2⟩ := scan_space s.r c t hc hce h
  refine ⟨{ s with r := (scan s.r).2, buf := ((scan s.r).1 :: s.buf).take 3 }, ?_, hn, w2, rfl, rfl⟩
  unfold consumeWhitespace
  rw [P.run_bind _ _ _ _ _ (pscan_fresh s hn (by rw [w1]; decide))]
  simp [w1]
  rfl

/-- `parseRegex` first skips one blank, if there is one. -/
theorem parseRegex_pre (s : PState) (hn : s.n = 0) (c : Char) (t : List Char)
    (hc : isWhitespace c = false) (hce : c ≠ eofRune) (h : s.r.chars = c :: t ∨ s.r.chars = ' ' :: c :: t) :
    ∃ s2, s2.n = 0 ∧ s2.r.chars = c :: t ∧ Same s s2 ∧ parseRegex.run s = parseRegexSkip.run s2 := by
  rw [parseRegex_eq, P.run_bind _ _ _ _ _ (P.run_get s)]
  have hn' : ¬ s.n > 0 := by omega
  rw [P.run_ite, if_neg hn', P.run_bind _ _ _ _ _ (peekRune_run s)]
  rcases h with h | h
  · have hpk : s.r.peek = c := (Cursor.chars_cons h).2.2
    refine ⟨s, hn, h, Same.refl s, ?_⟩
    simp [hpk, hce, hc]
  · have hpk : s.r.peek = ' ' := (Cursor.chars_cons h).2.2
    obtain ⟨s2, hcw, hn2, hch2, hsame⟩ := consumeWhitespace_space s hn c t hc hce h
    refine ⟨s2, hn2, hch2, hsame, ?_⟩
    rw [hpk]
    simp only [show (' ' : Char) ≠ eofRune from by decide, if_false, show isWhitespace ' ' = true from by decide,
      if_true]
    rw [P.run_bind _ _ _ _ _ hcw]

/-- `parseRegex` before a printed regex literal, possibly after one blank. -/
theorem parseRegex_text (s : PState) (src k : List Char) (hn : s.n = 0) (hsrc : regexB src = true)
    (h : s.r.chars = '/' :: (escapeSlashes src ++ '/' :: k) ∨
      s.r.chars = ' ' :: '/' :: (escapeSlashes src ++ '/' :: k)) :
    ∃ lx s', parseRegex.run s = .ok (some (.regex src), s') ∧ Just s' lx s'.r ∧ s'.r.chars = k ∧ Same s s' := by
  obtain ⟨s2, hn2, hch2, hsame2, hrun⟩ := parseRegex_pre s hn '/' _ (by decide) (by decide) h
  obtain ⟨lx, s', h1, h2, h3, h4⟩ := parseRegexSkip_text s2 src k hn2 hsrc hch2
  exact ⟨lx, s', by rw [hrun]; exact h1, h2, h3, hsame2.trans h4⟩

/-- The start of a printed operand: no `/`, no `$`, no comment opener. -/
def NoRegexStart (txt : List Char) : Prop :=
  ∃ c t, txt = c :: t ∧ c ≠ '/' ∧ c ≠ '$' ∧ c ≠ eofRune ∧ isWhitespace c = false ∧
    (c = '-' → ∃ d t', t = d :: t' ∧ d ≠ '-')

/-- `parseRegex` before anything that is no regex literal: nothing but the blank is consumed. -/
theorem parseRegex_none (s : PState) (txt : List Char) (hn : s.n = 0) (ht : NoRegexStart txt)
    (h : s.r.chars = txt ∨ s.r.chars = ' ' :: txt) :
    ∃ s2, parseRegex.run s = .ok (none, s2) ∧ s2.n = 0 ∧ s2.r.chars = txt ∧ Same s s2 := by
  obtain ⟨c, t, rfl, h1, h2, h3, h4, h5⟩ := ht
  obtain ⟨s2, hn2, hch2, hsame2, hrun⟩ := parseRegex_pre s hn c t h4 h3 h
  refine ⟨s2, ?_, hn2, hch2, hsame2⟩
  rw [hrun]
  have hpk : s2.r.peek = c := (Cursor.chars_cons hch2).2.2
  have hoc : opensComment s2.r.peek2.1 s2.r.peek2.2 = false := by
    cases t with
    | nil =>
      have : s2.r.peek2 = (c, eofRune) := by
        unfold Cursor.chars at hch2
        unfold Cursor.peek2
        match hr : s2.r.rest with
        | [] => rw [hr] at hch2; simp at hch2
        | [a] => rw [hr] at hch2; simp at hch2; simp [hch2]
        | a :: b :: rest => rw [hr] at hch2; simp at hch2
      rw [this]
      simp [opensComment, h1]
      intro _; decide
    | cons d t' =>
      rw [peek2_chars hch2]
      simp only [opensComment, Bool.or_eq_false_iff, Bool.and_eq_false_iff, beq_eq_false_iff_ne, ne_eq]
      refine ⟨?_, Or.inl h1⟩
      by_cases hm : c = '-'
      · obtain ⟨d', t'', e, hd⟩ := h5 hm
        simp only [List.cons.injEq] at e
        right; rw [e.1]; exact hd
      · exact Or.inl hm
  unfold parseRegexSkip
  rw [P.run_bind _ _ _ _ _ (P.run_get s2)]
  rw [show s2.n + s2.r.rest.length + 1 = (s2.n + s2.r.rest.length) + 1 from rfl, skipCommentsLoop_succ]
  simp only [bind_assoc]
  rw [P.run_bind _ _ _ _ _ (peekComment_run s2), hoc]
  simp only [Bool.false_eq_true, if_false, pure_bind, Bool.not_true]
  unfold parseRegexTail
  rw [P.run_bind _ _ _ _ _ (peekRune_run s2), hpk]
  simp [h1, h2, h3]
  rfl

/-! ## Part 5: an expression as the chain it prints as -/

open Prec

/-- The leftmost operand of the chain. -/
def firstA : Expr → Expr
  | .binary _ l _ => firstA l
  | e => e

/-- The operators of the chain with the operand that follows each, in reading order. -/
def opsOf : Expr → List (Token × Expr)
  | .binary op l r => opsOf l ++ (op, firstA r) :: opsOf r
  | _ => []

/-- What `Expr.print` writes for the operators and following operands of a chain. -/
def printOps : List (Token × Expr) → List Char
  | [] => []
  | p :: rest => ' ' :: (p.1.str ++ ' ' :: (p.2.print ++ printOps rest))

theorem printOps_append (a b : List (Token × Expr)) : printOps (a ++ b) = printOps a ++ printOps b := by
  induction a with
  | nil => rfl
  | cons p a ih => simp [printOps, ih]

theorem print_binary (op : Token) (l r : Expr) :
    (Expr.binary op l r).print = l.print ++ [' '] ++ op.str ++ [' '] ++ r.print := rfl
theorem print_paren (e : Expr) : (Expr.paren e).print = ['('] ++ e.print ++ [')'] := rfl
theorem print_string (v : Str) : (Expr.string v).print = quoteString v := rfl
theorem print_integer (v : Int) : (Expr.integer v).print = intDigits v := rfl
theorem print_unsigned (v : Nat) : (Expr.unsigned v).print = natDigits v := rfl
theorem print_boolean (b : Bool) : (Expr.boolean b).print = (if b then "true".toList else "false".toList) := rfl
theorem print_integer_nat (m : Nat) : (Expr.integer (m : Int)).print = natDigits m := by
  rw [print_integer]; unfold intDigits; simp
theorem print_integer_neg (n : Int) (h : n < 0) : (Expr.integer n).print = '-' :: natDigits n.natAbs := by
  rw [print_integer]; unfold intDigits; simp [h]
theorem print_varRef (v : Str) (t : DataType) :
    (Expr.varRef v t).print = quoteIdent [v] ++ (if t = .Unknown then [] else [':', ':'] ++ t.str) := rfl
theorem print_call (n : Str) (a : List Expr) :
    (Expr.call n a).print = n ++ ['('] ++ joinWith [',', ' '] (printArgs a) ++ [')'] := rfl

/-- A binary tree prints as its flat chain: nothing in the text tells the grouping. -/
theorem print_chain (e : Expr) : e.print = (firstA e).print ++ printOps (opsOf e) := by
  fun_induction opsOf e with
  | case1 op l r ihl ihr =>
    rw [print_binary, firstA, printOps_append, printOps]
    conv => lhs; rw [ihl, ihr]
    simp [List.append_assoc]
  | case2 e h =>
    cases e <;> first | exact absurd rfl (h _ _ _) | (simp only [firstA, printOps, List.append_nil])

/-- Not a binary node. -/
def NB (e : Expr) : Prop := ∀ op l r, e ≠ .binary op l r

theorem firstA_nb (e : Expr) : NB (firstA e) := by
  fun_induction firstA e with
  | case1 op l r ih => exact ih
  | case2 e h => intro op l r he; exact h op l r he

theorem firstA_of_nb {e : Expr} (h : NB e) : firstA e = e := by
  cases e <;> first | exact absurd rfl (h _ _ _) | rfl

/-- The tree of binary nodes of an expression; everything else is an atom. -/
def toT : Expr → T Expr
  | .binary op l r => .node op (toT l) (toT r)
  | e => .atom e

def embT : T Expr → Expr
  | .atom e => e
  | .node op l r => .binary op (embT l) (embT r)

theorem embT_toT (e : Expr) : embT (toT e) = e := by
  fun_induction toT e with
  | case1 op l r ihl ihr => simp [embT, ihl, ihr]
  | case2 e h => rfl

theorem firstAtom_toT (e : Expr) : firstAtom (toT e) = firstA e := by
  fun_induction toT e with
  | case1 op l r ihl ihr => simp [firstAtom, firstA, ihl]
  | case2 e h => exact (firstA_of_nb (fun op l r he => h op l r he)).symm

theorem yieldOps_toT (e : Expr) : yieldOps (toT e) = opsOf e := by
  fun_induction toT e with
  | case1 op l r ihl ihr => simp [yieldOps, opsOf, ihl, ihr, firstAtom_toT]
  | case2 e h => cases e <;> first | exact absurd rfl (h _ _ _) | rfl

/-- All atoms of the tree are non-binary expressions. -/
def AtomsNB : T Expr → Prop
  | .atom e => NB e
  | .node _ l r => AtomsNB l ∧ AtomsNB r

theorem atomsNB_toT (e : Expr) : AtomsNB (toT e) := by
  fun_induction toT e with
  | case1 op l r ihl ihr => exact ⟨ihl, ihr⟩
  | case2 e h => exact fun op l r he => h op l r he

theorem embT_insertT (t : T Expr) (op : Token) (a : Expr) (h : AtomsNB t) :
    embT (insertT t op a) = insertOp (embT t) op a := by
  induction t with
  | atom x =>
    simp only [insertT, embT]
    cases x <;> first | exact absurd rfl (h _ _ _) | rfl
  | node o l r _ ihr =>
    simp only [insertT, embT, insertOp]
    split
    · rfl
    · simp [embT, ihr h.2]

theorem atomsNB_insertT (t : T Expr) (op : Token) (a : Expr) (h : AtomsNB t) (ha : NB a) :
    AtomsNB (insertT t op a) := by
  induction t with
  | atom x => exact ⟨h, ha⟩
  | node o l r _ ihr =>
    simp only [insertT]
    split
    · exact ⟨h, ha⟩
    · exact ⟨h.1, ihr h.2⟩

theorem embT_foldl (rest : List (Token × Expr)) (t : T Expr) (h : AtomsNB t) (hr : ∀ p ∈ rest, NB p.2) :
    embT (rest.foldl (fun t p => insertT t p.1 p.2) t) = rest.foldl (fun t p => insertOp t p.1 p.2) (embT t) := by
  induction rest generalizing t with
  | nil => rfl
  | cons p rest ih =>
    simp only [List.foldl_cons]
    rw [ih _ (atomsNB_insertT t p.1 p.2 h (hr p (by simp))) (fun q hq => hr q (by simp [hq])),
      embT_insertT t p.1 p.2 h]

theorem opsOf_nb (e : Expr) : ∀ p ∈ opsOf e, NB p.2 := by
  fun_induction opsOf e with
  | case1 op l r ihl ihr =>
    intro p hp
    simp only [List.mem_append, List.mem_cons] at hp
    rcases hp with hp | rfl | hp
    · exact ihl p hp
    · exact firstA_nb r
    · exact ihr p hp
  | case2 e h => intro p hp; cases hp

/-- **Re-parsing on `Expr`.** Feeding the insertion loop of `ParseExpr` with the operators and
operands of a well-grouped expression, in reading order, rebuilds that expression. -/
theorem insertOp_chain (e : Expr) (h : WellGrouped (toT e)) :
    (opsOf e).foldl (fun t p => insertOp t p.1 p.2) (firstA e) = e := by
  have h1 := reparse (toT e) h
  unfold parseChain at h1
  have h2 := embT_foldl (yieldOps (toT e)) (.atom (firstAtom (toT e)))
    (by rw [firstAtom_toT]; exact firstA_nb e) (by rw [yieldOps_toT]; exact opsOf_nb e)
  rw [h1, embT_toT, yieldOps_toT, firstAtom_toT] at h2
  exact h2.symm


/-! ### call names and argument lists -/

/-- The lower-casing table shipped with the input only has entries for non-ASCII runes. -/
def AsciiFix (tbl : List (Char × Char)) : Prop := ∀ p ∈ tbl, 128 ≤ p.1.toNat

/-- ASCII and no capital letter: `strings.ToLower` leaves the rune alone. -/
def lowB (name : List Char) : Bool :=
  name.all (fun c => decide (c.toNat < 128) && !(decide (65 ≤ c.toNat) && decide (c.toNat ≤ 90)))

theorem lowerStr_fix (tbl : List (Char × Char)) (h : AsciiFix tbl) (name : List Char) (hn : lowB name = true) :
    lowerStr tbl name = name := by
  unfold lowerStr
  induction name with
  | nil => rfl
  | cons c t ih =>
    unfold lowB at hn ih
    simp only [List.all_cons, Bool.and_eq_true, decide_eq_true_eq, Bool.not_eq_true', Bool.and_eq_false_iff,
      decide_eq_false_iff_not] at hn
    obtain ⟨⟨h1, h2⟩, h3⟩ := hn
    have hc : lowerRune tbl c = c := by
      unfold lowerRune
      rw [if_neg (by omega), if_neg (by omega), if_neg (by omega)]
      have : tbl.find? (fun p => decide (p.1 = c)) = none := by
        apply List.find?_eq_none.mpr
        intro p hp
        have := h p hp
        simp only [decide_eq_true_eq]
        intro e; rw [e] at this; omega
      rw [this]
    simp only [List.map_cons, hc, List.cons.injEq, true_and]
    exact ih (by simpa using h3)

/-- A function name that is printed bare and read back as itself: a non-keyword identifier
without capital letters. -/
def callNameB (name : List Char) : Bool := !identNeedsQuotes name && name != [] && lowB name

theorem callNameB_facts {name : List Char} (h : callNameB name = true) :
    lowB name = true ∧ lookup name = .IDENT ∧
      ∃ c tl, name = c :: tl ∧ isIdentFirstChar c = true ∧ ∀ y ∈ tl, isIdentChar y = true := by
  unfold callNameB at h
  simp only [Bool.and_eq_true, Bool.not_eq_true', bne_iff_ne, ne_eq] at h
  obtain ⟨⟨h1, h2⟩, h3⟩ := h
  obtain ⟨hl, c, tl, e, hc, htl⟩ := (identNeedsQuotes_false_iff name h2).mp h1
  exact ⟨h3, hl, c, tl, e, hc, htl⟩

/-- What is printed after the first argument: `, ` and the next argument, and so on. -/
def printMore : List Expr → List Char
  | [] => []
  | a :: rest => ',' :: ' ' :: (a.print ++ printMore rest)

theorem printArgs_cons (a : Expr) (rest : List Expr) : printArgs (a :: rest) = a.print :: printArgs rest := rfl

theorem joinArgs_cons (a : Expr) (rest : List Expr) :
    joinWith [',', ' '] (printArgs (a :: rest)) = a.print ++ printMore rest := by
  induction rest generalizing a with
  | nil => simp [printArgs_cons, printArgs, joinWith, printMore]
  | cons b rest ih =>
    have e : joinWith [',', ' '] (printArgs (a :: b :: rest)) =
        a.print ++ [',', ' '] ++ joinWith [',', ' '] (printArgs (b :: rest)) := rfl
    rw [e, ih b]
    simp [printMore]

theorem nrs_identFirst {c : Char} (t : List Char) (h : isIdentFirstChar c = true) : NoRegexStart (c :: t) := by
  obtain ⟨hws, _, _, _, hce⟩ := isIdentFirstChar_facts h
  refine ⟨c, t, rfl, ?_, ?_, hce, hws, ?_⟩
  · intro e; subst e; revert h; decide
  · intro e; subst e; revert h; decide
  · intro e; subst e; exact absurd h (by decide)

theorem nrs_of (c : Char) (t : List Char)
    (h : (c != '/' && c != '$' && c != eofRune && !isWhitespace c && c != '-') = true) : NoRegexStart (c :: t) := by
  simp only [Bool.and_eq_true, bne_iff_ne, ne_eq, Bool.not_eq_true'] at h
  obtain ⟨⟨⟨⟨h1, h2⟩, h3⟩, h4⟩, h5⟩ := h
  exact ⟨c, t, rfl, h1, h2, h3, h4, fun e => absurd e h5⟩

theorem nrs_digit {c : Char} (t : List Char) (h : isDigit c = true) : NoRegexStart (c :: t) := by
  refine ⟨c, t, rfl, ?_, ?_, isDigit_ne_eof h, (isDigit_facts h).1, ?_⟩
  · intro e; subst e; revert h; decide
  · intro e; subst e; revert h; decide
  · intro e; subst e; exact absurd h (by decide)

/-! ### type casts -/

def castB : DataType → Bool
  | .Float | .Integer | .Unsigned | .String | .Boolean | .AnyField | .Tag => true
  | _ => false
def castTok : DataType → Token
  | .AnyField => .FIELD
  | .Tag => .TAG
  | _ => .IDENT
def castLit (dt : DataType) : List Char :=
  match dt with
  | .AnyField => []
  | .Tag => []
  | d => d.str

theorem scanFrom_colon (pos : Pos) (r r1 : Cursor) : scanFrom ':' pos r r1 = scanFrom4 ':' pos r1 := by
  unfold scanFrom
  simp only [show isWhitespace ':' = false from by decide, show isLetter ':' = false from by decide,
    show isDigit ':' = false from by decide, show (':' == '_') = false from by decide,
    show (':' : Char) ≠ eofRune from by decide, show (':' : Char) ≠ '"' from by decide,
    show (':' : Char) ≠ '\'' from by decide, show (':' : Char) ≠ '.' from by decide, show (':' : Char) ≠ '$' from by decide,
    Bool.or_self, Bool.false_eq_true, if_false]
  rfl

theorem scan_dcolon (r : Cursor) (t : List Char) (h : r.chars = ':' :: ':' :: t) :
    (scan r).1.tok = .DOUBLECOLON ∧ (scan r).2.chars = t := by
  obtain ⟨h1, h2, _⟩ := Cursor.chars_cons h
  obtain ⟨_, h3, p3⟩ := Cursor.chars_cons h2
  unfold scan
  rw [h1, scanFrom_colon]
  unfold scanFrom4
  simp only [show (':' : Char) ≠ '(' from by decide, show (':' : Char) ≠ ')' from by decide,
    show (':' : Char) ≠ ',' from by decide, show (':' : Char) ≠ ';' from by decide, if_false, if_true, p3]
  exact ⟨trivial, h3⟩

def wordB : List Char → Bool
  | c :: tl => isIdentFirstChar c && tl.all isIdentChar
  | [] => false

theorem scan_wordB (r : Cursor) (w k : List Char) (hw : wordB w = true) (hk : IdEnd k) (h : r.chars = w ++ k) :
    (scan r).1.tok = lookup w ∧ (scan r).1.lit = (if lookup w = .IDENT then w else []) ∧ Rem (scan r).2 k := by
  cases w with
  | nil => cases hw
  | cons c tl =>
    simp only [wordB, Bool.and_eq_true, List.all_eq_true] at hw
    exact scan_word r c tl k hw.1 hw.2 hk h

theorem cast_words : ∀ dt : DataType, castB dt = true →
    wordB dt.str = true ∧ lookup dt.str = castTok dt ∧ (if lookup dt.str = .IDENT then dt.str else []) = castLit dt := by
  intro dt h; cases dt <;> first | (exfalso; revert h; decide) | decide

theorem scan_castword (dt : DataType) (hdt : castB dt = true) (k : List Char) (hk : SepU k) (r : Cursor)
    (h : r.chars = dt.str ++ k) :
    (scan r).1.tok = castTok dt ∧ (scan r).1.lit = castLit dt ∧ Rem (scan r).2 k := by
  obtain ⟨h1, h2, h3⟩ := cast_words dt hdt
  have := scan_wordB r dt.str k h1 hk.idEnd h
  rw [h2] at this
  exact ⟨this.1, by rw [this.2.1, ← h3, h2], this.2.2⟩

theorem castTypes_low : ∀ dt : DataType, lowB dt.str = true := by intro dt; cases dt <;> decide

theorem parseVarRef_cast (s : PState) (lx t1 : Lexeme) (hn : s.n = 2) (h1 : s.buf[1]? = some lx)
    (h0 : s.buf[0]? = some t1) (hlx : lx.tok = .IDENT) (ht1 : t1.tok = .DOUBLECOLON) (dt : DataType)
    (hdt : castB dt = true) (htbl : AsciiFix s.lowerTbl) (htok : (scan s.r).1.tok = castTok dt)
    (hlit : (scan s.r).1.lit = castLit dt) :
    parseVarRef.run s = .ok (.varRef lx.lit dt,
      { s with n := 0, r := (scan s.r).2, buf := ((scan s.r).1 :: s.buf).take 3 }) := by
  unfold parseVarRef
  rw [P.run_bind _ _ _ _ _ (parseSegmentedIdents_single s lx t1 hn h1 h0 hlx (by rw [ht1]; decide) (by rw [ht1]; decide))]
  rw [P.run_bind _ _ _ _ _ (pscan_buffered { s with n := 1 } 0 t1 rfl h0 (by rw [ht1]; decide))]
  simp only [ht1, if_true]
  have hps := pscan_fresh ({ s with n := 0 } : PState) rfl (by
    show (scan s.r).1.tok ≠ .BOUNDPARAM
    rw [htok]; cases dt <;> decide)
  rw [P.run_bind _ _ _ _ _ hps, P.run_bind _ _ _ _ _ (P.run_get _)]
  have hlow : lowerStr s.lowerTbl dt.str = dt.str := lowerStr_fix _ htbl _ (castTypes_low dt)
  cases dt <;> first
    | (exfalso; revert hdt; decide)
    | (simp only [castTok, castLit] at htok hlit
       simp only [htok, hlit, hlow]
       rfl)

/-- An identifier followed by `::type`: a typed variable reference; nothing stays pushed back. -/
theorem unary_ident_cast (F : Nat) (s s1 : PState) (lx : Lexeme) (r1 : Cursor)
    (h1 : scanIW.run s = .ok (lx, s1)) (hj : Just s1 lx r1) (htok : lx.tok = .IDENT) (dt : DataType)
    (hdt : castB dt = true) (k : List Char) (hk : SepU k) (htbl : AsciiFix s1.lowerTbl)
    (hch : r1.chars = ':' :: ':' :: (dt.str ++ k)) :
    ∃ lx' s', (parseUnaryExpr (F + 1)).run s = .ok (.varRef lx.lit dt, s') ∧ Just s' lx' s'.r ∧ Rem s'.r k ∧
      Same s1 s' := by
  have hsig : lx.tok ≠ .BOUNDPARAM ∧ lx.tok ≠ .WS ∧ lx.tok ≠ .COMMENT := by rw [htok]; decide
  have hnp : ¬ lx.tok = .LPAREN := by rw [htok]; decide
  obtain ⟨hn0, hb0, hr0⟩ := hj
  subst hr0
  obtain ⟨hdc, hch2⟩ := scan_dcolon s1.r _ hch
  have hps := pscan_fresh s1 hn0 (by rw [hdc]; decide)
  obtain ⟨c1, c2, c3⟩ := scan_castword dt hdt k hk (scan s1.r).2 hch2
  have hvr := parseVarRef_cast
    (unsc (unsc { s1 with r := (scan s1.r).2, buf := ((scan s1.r).1 :: s1.buf).take 3 })) lx (scan s1.r).1
    (by simp [unsc, hn0]) (by simp [unsc, hb0]) (by simp [unsc]) htok hdc dt hdt htbl c1 c2
  refine ⟨(scan (scan s1.r).2).1, ?st, ?run, ?j, ?rem, ?sm⟩
  case run =>
    rw [parseUnaryExpr, P.run_bind _ _ _ _ _ h1, P.run_ite, if_neg hnp, P.run_bind _ _ _ _ _ (unscan_run' s1),
      P.run_bind _ _ _ _ _ (scanIW_redeliver s1 lx s1.r ⟨hn0, hb0, rfl⟩ hsig.1 hsig.2.1 hsig.2.2)]
    obtain ⟨tok, pos, lit⟩ := lx
    simp only at htok
    subst htok
    show (pscan >>= _).run s1 = _
    rw [P.run_bind _ _ _ _ _ hps, P.run_ite, if_neg (by rw [hdc]; decide), P.run_bind _ _ _ _ _ (unscan_run' _),
      P.run_bind _ _ _ _ _ (unscan_run' _)]
    exact hvr
  case j => exact ⟨rfl, by simp [unsc], rfl⟩
  case rem => exact c3
  case sm => exact ⟨rfl, rfl⟩

theorem noCR_typeStr : ∀ dt : DataType, ∀ c ∈ dt.str, c ≠ '\r' := by
  intro dt; cases dt <;> decide

/-- What is printed after the name of a variable reference. -/
def castText (t : DataType) : List Char := if t = .Unknown then [] else [':', ':'] ++ t.str

theorem idEnd_castText (t : DataType) (k : List Char) (hk : SepU k) : IdEnd (castText t ++ k) := by
  unfold castText
  split
  · simpa using hk.idEnd
  · exact Or.inr ⟨':', _, rfl, by decide, by decide, by decide⟩

/-! ## Part 6: the class of expressions and the three specifications -/

/-- No NUL and no CR (Boolean form of `Expressible`). -/
def exprB (v : List Char) : Bool := v.all (fun c => c != eofRune && c != '\r')

theorem exprB_expressible {v : List Char} (h : exprB v = true) : Expressible v := by
  intro c hc
  have := List.all_eq_true.mp h c hc
  simpa using this

def topGeB (q : Nat) : Expr → Bool
  | .binary o _ _ => decide (q ≤ o.precedence)
  | _ => true

def headOKB : List Char → Bool
  | c :: _ => !isWhitespace c && c != eofRune
  | [] => false

theorem headOK_of_B {l : List Char} (h : headOKB l = true) : HeadOK l := by
  cases l with
  | nil => cases h
  | cons c t =>
    simp only [headOKB, Bool.and_eq_true, Bool.not_eq_true', bne_iff_ne, ne_eq] at h
    exact ⟨c, t, rfl, h.1, h.2⟩

theorem binOps_head : ∀ op ∈ binOps, headOKB op.str = true := by decide

/-- A regex literal with a readable source (the right operand of `=~` / `!~`). -/
def regexLitB : Expr → Bool
  | .regex src => regexB src
  | _ => false

theorem regexLitB_elim {e : Expr} (h : regexLitB e = true) : ∃ src, e = .regex src ∧ regexB src = true := by
  cases e <;> first | exact ⟨_, rfl, h⟩ | (simp [regexLitB] at h)

theorem print_regex (src : Str) : (Expr.regex src).print = ['/'] ++ escapeSlashes src ++ ['/'] := rfl

mutual
  /-- **The printable class.** What `ParseExpr` returns and `String()` writes back unambiguously:
  every binary node carries one of the eighteen operators (the right operand of `=~` / `!~` being a
  regex literal, as the parser demands) and its operands are grouped as the five
  levels demand (an unparenthesised left operand binds at least as tightly as its parent, a right
  one strictly tighter — this is what excludes the `a / -1 * b` finding); leaves are variable
  references, string, integer (of either sign), unsigned and boolean literals, parenthesised
  expressions and — in the extended class `x = true` — variable references with a type cast
  (`::float`, `::integer`, `::unsigned`, `::string`, `::boolean`, `::field`, `::tag`) and calls of functions whose name is a
  lower-case non-keyword identifier, with arguments of the class or regex literals. -/
  def rtOK (x : Bool) : Expr → Bool
    | .binary op l r =>
      op.isOperator && rtOK x l && (if op.isRegexOp then regexLitB r else rtOK x r) &&
        topGeB op.precedence l && topGeB (op.precedence + 1) r
    | .paren e => rtOK x e
    | .call name args => x && callNameB name && rtOKArgs x args
    | .varRef v t => exprB v && (t == .Unknown || (x && castB t))
    | .string v => exprB v
    | .integer n => decide (minInt64 ≤ n) && decide (n ≤ maxInt64)
    | .unsigned v => decide (maxInt64 < (v : Int)) && decide ((v : Int) ≤ maxUInt64)
    | .boolean _ => true
    | _ => false
  def rtOKArgs (x : Bool) : List Expr → Bool
    | [] => true
    | a :: rest => (regexLitB a || rtOK x a) && rtOKArgs x rest
end

variable {x : Bool}

theorem topGeB_toT {q : Nat} {e : Expr} (h : topGeB q e = true) : TopGe q (toT e) := by
  cases e <;> first | trivial | (simp only [topGeB, decide_eq_true_eq] at h; exact h)

theorem rtOK_binary {op : Token} {l r : Expr} (h : rtOK x (.binary op l r) = true) :
    op.isOperator = true ∧ rtOK x l = true ∧ (if op.isRegexOp then regexLitB r = true else rtOK x r = true) ∧
      topGeB op.precedence l = true ∧ topGeB (op.precedence + 1) r = true := by
  rw [rtOK] at h
  simp only [Bool.and_eq_true] at h
  obtain ⟨⟨⟨⟨h1, h3⟩, h4⟩, h5⟩, h6⟩ := h
  refine ⟨h1, h3, ?_, h5, h6⟩
  split <;> simp_all

theorem rtOK_wellGrouped (e : Expr) (h : rtOK x e = true) : WellGrouped (toT e) := by
  fun_induction toT e with
  | case1 op l r ihl ihr =>
    obtain ⟨_, h3, h4, h5, h6⟩ := rtOK_binary h
    refine ⟨topGeB_toT h5, topGeB_toT h6, ihl h3, ?_⟩
    split at h4
    · obtain ⟨src, rfl, _⟩ := regexLitB_elim h4
      trivial
    · exact ihr h4
  | case2 e hnb => trivial

/-- An operator of the chain with the operand after it. -/
def OpOK (x : Bool) (p : Token × Expr) : Prop :=
  p.1.isOperator = true ∧ NB p.2 ∧ (if p.1.isRegexOp then regexLitB p.2 = true else rtOK x p.2 = true)

theorem rtOK_chain (e : Expr) (h : rtOK x e = true) : rtOK x (firstA e) = true ∧ ∀ p ∈ opsOf e, OpOK x p := by
  fun_induction opsOf e with
  | case1 op l r ihl ihr =>
    obtain ⟨h1, h3, h4, _, _⟩ := rtOK_binary h
    refine ⟨(ihl h3).1, ?_⟩
    intro p hp
    simp only [List.mem_append, List.mem_cons] at hp
    by_cases hre : op.isRegexOp = true
    · rw [if_pos hre] at h4
      obtain ⟨src, rfl, hsrc⟩ := regexLitB_elim h4
      rcases hp with hp | rfl | hp
      · exact (ihl h3).2 p hp
      · refine ⟨h1, firstA_nb _, ?_⟩
        show (if op.isRegexOp = true then regexLitB (firstA (.regex src)) = true else _)
        rw [if_pos hre]; exact hsrc
      · simp [opsOf] at hp
    · rw [if_neg hre] at h4
      rcases hp with hp | rfl | hp
      · exact (ihl h3).2 p hp
      · refine ⟨h1, firstA_nb r, ?_⟩
        show (if op.isRegexOp = true then _ else rtOK x (firstA r) = true)
        rw [if_neg hre]; exact (ihr h4).1
      · exact (ihr h4).2 p hp
  | case2 e hnb =>
    refine ⟨?_, fun p hp => by cases hp⟩
    rw [firstA_of_nb (fun op l r he => hnb op l r he)]; exact h

theorem sepU_printOps (rest : List (Token × Expr)) (k : List Char) (hrest : ∀ p ∈ rest, p.1.isOperator = true)
    (hk : SepC k) : SepU (printOps rest ++ k) := by
  cases rest with
  | nil => exact Or.inl hk
  | cons p rest =>
    obtain ⟨c, t, hct, h1, h2⟩ := headOK_of_B (binOps_head p.1 (isOperator_mem (hrest p (by simp))))
    refine Or.inr ⟨c, t ++ ' ' :: (p.2.print ++ printOps rest) ++ k, ?_, h1, h2⟩
    simp [printOps, hct]

def IsFuel (f : Fail) : Prop := f = .fuel

/-- The table matters only for the extended class (call names, type casts). -/
def TblOK (x : Bool) (s : PState) : Prop := x = true → AsciiFix s.lowerTbl

theorem TblOK.same {x : Bool} {s s' : PState} (h : TblOK x s) (hs : Same s s') : TblOK x s' := by
  intro hx; rw [hs.2]; exact h hx

/-- `parseUnaryExpr` on the printed form of an operand of the class, followed by a separator:
it returns the operand and stands before the separator (or runs out of fuel). -/
def SpecU (x : Bool) (F : Nat) : Prop := ∀ (s : PState) (a : Expr) (k : List Char), TblOK x s → rtOK x a = true → NB a → SepU k →
  AtW s (a.print ++ k) → wp (parseUnaryExpr F) s (fun e' s' => e' = a ∧ At s' k ∧ Same s s') IsFuel

/-- The loop of `ParseExpr` on the printed operators and operands. -/
def SpecL (x : Bool) (F : Nat) : Prop := ∀ (s : PState) (root : Expr) (rest : List (Token × Expr)) (k : List Char),
  TblOK x s → (∀ p ∈ rest, OpOK x p) → SepC k → At s (printOps rest ++ k) →
  wp (exprLoop F root) s
    (fun e' s' => e' = rest.foldl (fun t p => insertOp t p.1 p.2) root ∧ At s' k ∧ Same s s') IsFuel

/-- `ParseExpr` on the printed form of an expression of the class. -/
def SpecE (x : Bool) (F : Nat) : Prop := ∀ (s : PState) (e : Expr) (k : List Char), TblOK x s → rtOK x e = true → SepC k →
  AtW s (e.print ++ k) → wp (parseExpr F) s (fun e' s' => e' = e ∧ At s' k ∧ Same s s') IsFuel

/-- `parseCall` after the opening parenthesis. -/
def SpecC (x : Bool) (F : Nat) : Prop := ∀ (s : PState) (name : Str) (args : List Expr) (k : List Char),
  TblOK x s → x = true → callNameB name = true → rtOKArgs x args = true → SepU k → s.n = 0 →
  s.r.chars = joinWith [',', ' '] (printArgs args) ++ ')' :: k →
  wp (parseCall F name) s (fun e' s' => e' = .call name args ∧ At s' k ∧ Same s s') IsFuel

/-- The argument loop of `parseCall` after some arguments. -/
def SpecA (x : Bool) (F : Nat) : Prop := ∀ (s : PState) (name : Str) (done rest : List Expr) (k : List Char),
  TblOK x s → rtOKArgs x rest = true → SepU k → At s (printMore rest ++ ')' :: k) →
  wp (callArgs F name done) s (fun e' s' => e' = .call name (done ++ rest) ∧ At s' k ∧ Same s s') IsFuel

theorem natDigits_head_digit (n : Nat) : ∃ d dt, natDigits n = d :: dt ∧ isDigit d = true := by
  have hne := natDigits_ne_nil n
  cases h : natDigits n with
  | nil => exact absurd h hne
  | cons c t' => exact ⟨c, t', rfl, natDigits_all_digits n c (by rw [h]; simp)⟩

/-- How the text of an operand of the class begins: not like a regex literal, a bound parameter or
a comment, and its first token is neither `)` nor a bound parameter. -/
theorem atom_start (a : Expr) (ha : rtOK x a = true) (hnb : NB a) (k : List Char) (hk : SepU k) :
    NoRegexStart (a.print ++ k) ∧
      ∀ r : Cursor, r.chars = a.print ++ k → (scan r).1.tok ≠ .RPAREN ∧ (scan r).1.tok ≠ .BOUNDPARAM := by
  obtain ⟨x0, t0, hk0, hx1, hx2, hx3, _, _, _⟩ := sepU_head_facts hk
  cases a with
  | binary op l r => exact absurd rfl (hnb op l r)
  | paren e =>
    rw [print_paren]
    refine ⟨nrs_of '(' _ (by decide), fun r hr => ?_⟩
    rw [(scan_lparen r _ hr).1]; exact ⟨by decide, by decide⟩
  | string v =>
    have hv : Expressible v := exprB_expressible (by rw [rtOK] at ha; exact ha)
    rw [print_string]
    refine ⟨nrs_of '\'' _ (by decide), fun r hr => ?_⟩
    rw [(scan_string_text r v k hv hr).1]; exact ⟨by decide, by decide⟩
  | integer n =>
    subst hk0
    by_cases hpos : 0 ≤ n
    · obtain ⟨m, rfl⟩ := Int.eq_ofNat_of_zero_le hpos
      rw [print_integer_nat]
      obtain ⟨d, dt, hd, hdd⟩ := natDigits_head_digit m
      refine ⟨by rw [hd]; exact nrs_digit _ hdd, fun r hr => ?_⟩
      rw [(scan_digits r (natDigits m) x0 t0 (natDigits_ne_nil m) (natDigits_all_digits m) hx1 hx2 hx3 hr).1]
      exact ⟨by decide, by decide⟩
    · rw [print_integer_neg n (by omega)]
      obtain ⟨d, dt, hd, hdd⟩ := natDigits_head_digit n.natAbs
      refine ⟨⟨'-', _, rfl, by decide, by decide, by decide, by decide, fun _ => ⟨d, dt ++ x0 :: t0, by rw [hd]; rfl, ?_⟩⟩,
        fun r hr => ?_⟩
      · intro e; subst e; revert hdd; decide
      · rw [(scan_minus r d (dt ++ x0 :: t0) hdd (by rw [hr, hd]; rfl)).1]; exact ⟨by decide, by decide⟩
  | unsigned v =>
    subst hk0
    rw [print_unsigned]
    obtain ⟨d, dt, hd, hdd⟩ := natDigits_head_digit v
    refine ⟨by rw [hd]; exact nrs_digit _ hdd, fun r hr => ?_⟩
    rw [(scan_digits r (natDigits v) x0 t0 (natDigits_ne_nil v) (natDigits_all_digits v) hx1 hx2 hx3 hr).1]
    exact ⟨by decide, by decide⟩
  | boolean b =>
    rw [print_boolean]
    refine ⟨by cases b <;> exact nrs_identFirst _ (by decide), fun r hr => ?_⟩
    rw [(scan_true_false r b k hk hr).1]
    cases b <;> exact ⟨by decide, by decide⟩
  | varRef v t =>
    rw [rtOK] at ha
    simp only [Bool.and_eq_true, beq_iff_eq] at ha
    obtain ⟨hv, _⟩ := ha
    rw [print_varRef, List.append_assoc]
    refine ⟨?_, fun r hr => ?_⟩
    · have hnr : NoRegexStart (quoteIdent [v]) := by
        rw [C06.quoteIdent_single]
        by_cases hq : (identNeedsQuotes v || v == []) = true
        · rw [if_pos hq]; exact nrs_of '"' _ (by decide)
        · rw [if_neg hq]
          simp only [Bool.or_eq_true, not_or, Bool.not_eq_true, beq_eq_false_iff_ne, ne_eq] at hq
          obtain ⟨hlk, c, tl, rfl, hc, htl⟩ := (identNeedsQuotes_false_iff v hq.2).mp hq.1
          have hall : ∀ y ∈ c :: tl, isIdentChar y = true := by
            intro y hy; simp at hy; rcases hy with rfl | hy
            · exact (isIdentFirstChar_facts hc).2.2.1
            · exact htl y hy
          rw [C06.esc_identChars _ hall]
          exact nrs_identFirst _ hc
      obtain ⟨c, t', e, h1, h2, h3, h4, h5⟩ := hnr
      rw [e]
      exact ⟨c, t' ++ _, rfl, h1, h2, h3, h4, fun hm => by
        obtain ⟨d, t'', e', hd⟩ := h5 hm
        exact ⟨d, t'' ++ _, by rw [e']; rfl, hd⟩⟩
    · rw [(scan_ident_text r v _ (exprB_expressible hv) (idEnd_castText t k hk) hr).1]; exact ⟨by decide, by decide⟩
  | call name args =>
    rw [rtOK] at ha
    simp only [Bool.and_eq_true] at ha
    obtain ⟨_, hlk, c, tl, rfl, hc, htl⟩ := callNameB_facts ha.1.2
    rw [print_call]
    refine ⟨by simpa using nrs_identFirst _ hc, fun r hr => ?_⟩
    have := scan_word r c tl ('(' :: (joinWith [',', ' '] (printArgs args) ++ [')'] ++ k)) hc htl
      (Or.inr ⟨'(', _, rfl, by decide, by decide, by decide⟩) (by rw [hr]; simp)
    rw [this.1, hlk]; exact ⟨by decide, by decide⟩
  | _ => simp [rtOK] at ha

theorem expr_start (e : Expr) (he : rtOK x e = true) (k : List Char) (hk : SepC k) :
    NoRegexStart (e.print ++ k) ∧
      ∀ r : Cursor, r.chars = e.print ++ k → (scan r).1.tok ≠ .RPAREN ∧ (scan r).1.tok ≠ .BOUNDPARAM := by
  obtain ⟨hfirst, hops⟩ := rtOK_chain e he
  rw [print_chain e, List.append_assoc]
  exact atom_start (firstA e) hfirst (firstA_nb e) _ (sepU_printOps _ k (fun p hp => (hops p hp).1) hk)

theorem sepC_printMore (rest : List Expr) (k : List Char) : SepC (printMore rest ++ ')' :: k) := by
  cases rest with
  | nil => exact Or.inr ⟨k, Or.inl rfl⟩
  | cons a rest => exact Or.inr ⟨_, Or.inr rfl⟩

theorem rtOKArgs_cons {a : Expr} {rest : List Expr} (h : rtOKArgs x (a :: rest) = true) :
    (regexLitB a = true ∨ rtOK x a = true) ∧ rtOKArgs x rest = true := by
  rw [rtOKArgs] at h
  simpa using h

theorem specA_step (F : Nat) (ihE : SpecE x F) (ihA : SpecA x F) : SpecA x (F + 1) := by
  intro s name done rest k htb hrest hk hat
  rw [callArgs, wp_bind]
  cases rest with
  | nil =>
    obtain ⟨lx, s1, r1, hrun, hsame, hj, _, htok⟩ := scanIW_close s (')' :: k) hat (Or.inr ⟨k, Or.inl rfl⟩)
    rcases htok with ⟨h, _⟩ | ⟨t, ht, htk, hch⟩ | ⟨t, ht, _, _⟩
    · cases h
    · simp only [List.cons.injEq, true_and] at ht
      subst ht
      rw [wp_of_run_ok hrun, wp_ite, if_pos (by rw [htk]; decide), wp_bind, unscan_wp, wp_bind,
        wp_of_run_ok (pscan_redeliver s1 lx r1 hj (by rw [htk]; decide))]
      dsimp only
      rw [wp_ite, if_neg (by rw [htk]; simp), wp_pure]
      exact ⟨by simp, hj.at (Or.inl hch), hsame⟩
    · cases ht
  | cons a rest' =>
    obtain ⟨ha, hrest'⟩ := rtOKArgs_cons hrest
    obtain ⟨lx, s1, r1, hrun, hsame, hj, _, htok⟩ := scanIW_close s _ hat (Or.inr ⟨_, Or.inr rfl⟩)
    rcases htok with ⟨h, _⟩ | ⟨t, ht, _, _⟩ | ⟨t, ht, htk, hch⟩
    · cases h
    · cases ht
    · have ht' : t = ' ' :: (a.print ++ (printMore rest' ++ ')' :: k)) := by
        simp only [printMore, List.cons_append, List.cons.injEq, true_and, List.append_assoc] at ht
        exact ht.symm
      subst ht'
      rw [wp_of_run_ok hrun, wp_ite, if_neg (by rw [htk]; simp), wp_bind]
      have hs1r : s1.r.chars = ' ' :: (a.print ++ (printMore rest' ++ ')' :: k)) := by rw [hj.2.2]; exact hch
      rcases ha with ha | ha
      · obtain ⟨src, rfl, hsrc⟩ := regexLitB_elim ha
        obtain ⟨lx2, s2, hrun2, hj2, hch2, hsame2⟩ := parseRegex_text s1 src (printMore rest' ++ ')' :: k) hj.1 hsrc
          (Or.inr (by rw [hs1r, print_regex]; simp))
        rw [wp_of_run_ok hrun2]
        dsimp only
        refine wp_mono (ihA s2 name _ rest' k (htb.same (hsame.trans hsame2)) hrest' hk (hj2.at (Or.inl hch2))) ?_
          (fun _ h => h)
        intro e' s3 ⟨he', hat3, hsame3⟩
        exact ⟨by rw [he']; simp, hat3, (hsame.trans hsame2).trans hsame3⟩
      · obtain ⟨hnrs, _⟩ := expr_start a ha _ (sepC_printMore rest' k)
        obtain ⟨s2, hrun2, hn2, hch2, hsame2⟩ := parseRegex_none s1 _ hj.1 hnrs (Or.inr hs1r)
        rw [wp_of_run_ok hrun2]
        dsimp only
        rw [wp_bind]
        refine wp_mono (ihE s2 a _ (htb.same (hsame.trans hsame2)) ha (sepC_printMore rest' k)
          ⟨s2.r, Or.inl ⟨hn2, rfl⟩, Or.inl hch2⟩) ?_ (fun _ h => h)
        intro e' s3 ⟨he', hat3, hsame3⟩
        subst he'
        refine wp_mono (ihA s3 name _ rest' k (htb.same ((hsame.trans hsame2).trans hsame3)) hrest' hk hat3) ?_
          (fun _ h => h)
        intro e'' s4 ⟨he'', hat4, hsame4⟩
        exact ⟨by rw [he'']; simp, hat4, ((hsame.trans hsame2).trans hsame3).trans hsame4⟩

theorem specC_step (F : Nat) (ihE : SpecE x F) (ihA : SpecA x F) : SpecC x (F + 1) := by
  intro s name args k htb hx hname hargs hk hn hch
  obtain ⟨hlow, _, _⟩ := callNameB_facts hname
  rw [parseCall, wp_bind, wp_get]
  dsimp only
  rw [lowerStr_fix s.lowerTbl (htb hx) name hlow, wp_bind]
  cases args with
  | nil =>
    have hch' : s.r.chars = ')' :: k := by simpa [printArgs, joinWith] using hch
    obtain ⟨s2, hrun2, hn2, hch2, hsame2⟩ := parseRegex_none s (')' :: k) hn
      (nrs_of ')' k (by decide)) (Or.inl hch')
    rw [wp_of_run_ok hrun2]
    dsimp only
    have hclose := scan_close s2.r (')' :: k) (Or.inl hch2) (Or.inr ⟨k, Or.inl rfl⟩)
    rcases hclose with ⟨h, _⟩ | ⟨t, ht, htk, hcht⟩ | ⟨t, ht, _, _⟩
    · cases h
    · simp only [List.cons.injEq, true_and] at ht
      subst ht
      obtain ⟨s3, hrun3, hj3, hsame3⟩ := pscan_look s2 s2.r (Or.inl ⟨hn2, rfl⟩) (by rw [htk]; decide)
      rw [wp_bind, wp_of_run_ok hrun3, wp_ite, if_pos htk, wp_pure]
      exact ⟨rfl, hj3.at (Or.inl hcht), hsame2.trans hsame3⟩
    · cases ht
  | cons a rest =>
    obtain ⟨ha, hrest⟩ := rtOKArgs_cons hargs
    rw [joinArgs_cons, List.append_assoc] at hch
    rcases ha with ha | ha
    · obtain ⟨src, rfl, hsrc⟩ := regexLitB_elim ha
      obtain ⟨lx2, s2, hrun2, hj2, hch2, hsame2⟩ := parseRegex_text s src (printMore rest ++ ')' :: k) hn hsrc
        (Or.inl (by rw [hch, print_regex]; simp))
      rw [wp_of_run_ok hrun2]
      dsimp only
      refine wp_mono (ihA s2 name _ rest k (htb.same hsame2) hrest hk (hj2.at (Or.inl hch2))) ?_ (fun _ h => h)
      intro e' s3 ⟨he', hat3, hsame3⟩
      exact ⟨by rw [he']; simp, hat3, hsame2.trans hsame3⟩
    · obtain ⟨hnrs, htoks⟩ := expr_start a ha _ (sepC_printMore rest k)
      obtain ⟨s2, hrun2, hn2, hch2, hsame2⟩ := parseRegex_none s _ hn hnrs (Or.inl hch)
      rw [wp_of_run_ok hrun2]
      dsimp only
      obtain ⟨htk1, htk2⟩ := htoks s2.r hch2
      obtain ⟨s3, hrun3, hj3, hsame3⟩ := pscan_look s2 s2.r (Or.inl ⟨hn2, rfl⟩) htk2
      rw [wp_bind, wp_of_run_ok hrun3, wp_ite, if_neg htk1, wp_bind, unscan_wp, wp_bind]
      have hsm : Same s (unsc s3) := (hsame2.trans hsame3).trans (unsc_same s3)
      refine wp_mono (ihE (unsc s3) a _ (htb.same hsm) ha (sepC_printMore rest k)
        ⟨s2.r, look_unsc s3 s2.r hj3, Or.inl hch2⟩) ?_ (fun _ h => h)
      intro e' s4 ⟨he', hat4, hsame4⟩
      subst he'
      refine wp_mono (ihA s4 name _ rest k (htb.same (hsm.trans hsame4)) hrest hk hat4) ?_ (fun _ h => h)
      intro e'' s5 ⟨he'', hat5, hsame5⟩
      exact ⟨by rw [he'']; simp, hat5, (hsm.trans hsame4).trans hsame5⟩

/-- What the unary minus of `parseUnaryExpr` makes of a literal. -/
def negOf : Expr → Expr
  | .number v => .number { v with neg := !v.neg }
  | .integer v => .integer (wrap64 (v * -1))
  | .unsigned _ => .integer minInt64
  | .duration v => .duration (wrap64 (v * -1))
  | e => e

def NegArg (a : Expr) : Prop :=
  (∃ v, a = .number v) ∨ (∃ v, a = .integer v) ∨ a = .unsigned 9223372036854775808 ∨ (∃ v, a = .duration v)

/-- A minus sign directly before a literal of the class: the literal is parsed by the recursive
call and negated. -/
theorem unary_neg (F : Nat) (ihU : SpecU x F) (s s1 : PState) (lx : Lexeme) (r1 : Cursor)
    (hrun : scanIW.run s = .ok (lx, s1)) (hj : Just s1 lx r1) (htok : lx.tok = .SUB) (htb : TblOK x s1)
    (a' : Expr) (k : List Char) (ha' : rtOK x a' = true) (hnb : NB a') (hk : SepU k)
    (hch : r1.chars = a'.print ++ k) (hhead : HeadOK a'.print) (tok2 : Token)
    (htok2 : tok2 = .NUMBER ∨ tok2 = .INTEGER ∨ tok2 = .DURATIONVAL)
    (hs : ∀ r : Cursor, r.chars = a'.print ++ k → (scan r).1.tok = tok2) (hneg : NegArg a') :
    wp (parseUnaryExpr (F + 1)) s (fun e' s' => e' = negOf a' ∧ At s' k ∧ Same s1 s') IsFuel := by
  have hsig : lx.tok ≠ .BOUNDPARAM ∧ lx.tok ≠ .WS ∧ lx.tok ≠ .COMMENT := by rw [htok]; decide
  have hnp : ¬ lx.tok = .LPAREN := by rw [htok]; decide
  rw [parseUnaryExpr, wp_bind, wp_of_run_ok hrun, wp_ite, if_neg hnp, wp_bind, unscan_wp, wp_bind,
    wp_of_run_ok (scanIW_redeliver s1 lx r1 hj hsig.1 hsig.2.1 hsig.2.2)]
  obtain ⟨hn1, hb1, hr1⟩ := hj
  obtain ⟨tok, pos, lit⟩ := lx
  simp only at htok
  subst htok
  dsimp only
  obtain ⟨lx2, s2, r2, hrun2, htk2, _, hj2, _, hsame2, hatw2⟩ := scanIW_first' s1 (a'.print ++ k)
    ⟨r1, Or.inl ⟨hn1, hr1⟩, Or.inl hch⟩ (hhead.append k) tok2 (scan r1).1.lit (fun _ => True)
    (fun r hr => ⟨hs r hr, by
      have e : (scan r).1.sig = (scan r1).1.sig :=
        (scan_loc (t1 := []) (t2 := []) (r1 := r) (r2 := r1)
          ⟨r.chars, by simp [Cursor.chars], by rw [hr, ← hch]; simp [Cursor.chars]⟩ TailOK.nil (Nat.zero_le _)).1
      exact congrArg Prod.snd e, trivial⟩)
    (by rcases htok2 with h | h | h <;> subst h <;> exact ⟨by decide, by decide, by decide⟩)
  rw [wp_bind, wp_of_run_ok hrun2, wp_ite,
    if_pos (by rw [htk2]; rcases htok2 with h | h | h <;> subst h <;> simp), wp_bind, unscan_wp, wp_bind]
  refine wp_mono (ihU (unsc s2) a' k (htb.same (hsame2.trans (unsc_same s2))) ha' hnb hk hatw2) ?_ (fun _ h => h)
  intro lit2 s3 ⟨hl, hat3, hsame3⟩
  subst hl
  have hsm : Same s1 s3 := (hsame2.trans (unsc_same s2)).trans hsame3
  rcases hneg with ⟨v, rfl⟩ | ⟨v, rfl⟩ | rfl | ⟨v, rfl⟩
  · dsimp only; rw [wp_pure]; exact ⟨by simp [negOf], hat3, hsm⟩
  · dsimp only; rw [wp_pure]; exact ⟨by simp [negOf], hat3, hsm⟩
  · dsimp only; simp only [if_true]; rw [wp_pure]; exact ⟨by simp [negOf], hat3, hsm⟩
  · dsimp only; rw [wp_pure]; exact ⟨by simp [negOf], hat3, hsm⟩

theorem specE_step (F : Nat) (ihU : SpecU x F) (ihL : SpecL x F) : SpecE x (F + 1) := by
  intro s e k htb he hk hat
  obtain ⟨hfirst, hops⟩ := rtOK_chain e he
  rw [parseExpr, wp_bind]
  rw [print_chain e, List.append_assoc] at hat
  refine wp_mono (ihU s (firstA e) (printOps (opsOf e) ++ k) htb hfirst (firstA_nb e)
    (sepU_printOps _ k (fun p hp => (hops p hp).1) hk) hat) ?_ (fun _ h => h)
  intro a s1 ⟨ha, hat1, hsame1⟩
  subst ha
  refine wp_mono (ihL s1 (firstA e) (opsOf e) k (htb.same hsame1) hops hk hat1) ?_ (fun _ h => h)
  intro e' s2 ⟨he', hat2, hsame2⟩
  exact ⟨by rw [he', insertOp_chain e (rtOK_wellGrouped e he)], hat2, hsame1.trans hsame2⟩

theorem specL_step (F : Nat) (ihU : SpecU x F) (ihL : SpecL x F) : SpecL x (F + 1) := by
  intro s root rest k htb hrest hk hat
  rw [exprLoop, wp_bind]
  cases rest with
  | nil =>
    obtain ⟨lx, s1, r1, hrun, hsame, hj, hat1, htok⟩ := scanIW_close s k hat hk
    rw [wp_of_run_ok hrun]
    have hnop : (!lx.tok.isOperator) = true := by
      rcases htok with ⟨_, h⟩ | ⟨_, _, h, _⟩ | ⟨_, _, h, _⟩ <;> rw [h] <;> rfl
    rw [wp_ite, if_pos hnop, wp_bind, unscan_wp, wp_pure]
    exact ⟨rfl, hat1, hsame.trans (unsc_same s1)⟩
  | cons p rest' =>
    obtain ⟨hop, hnb, hok⟩ := hrest p (by simp)
    have hat' : AtW s (p.1.str ++ ' ' :: (p.2.print ++ (printOps rest' ++ k))) := by
      apply At.atW
      simpa [printOps] using hat
    obtain ⟨lx, s1, r1, hrun, htok, hlit, hj, hq, hsame⟩ := scanIW_first s _ hat'
      ((headOK_of_B (binOps_head p.1 (isOperator_mem hop))).append _) p.1 []
      (fun r => r.chars = ' ' :: (p.2.print ++ (printOps rest' ++ k)))
      (fun r hr => scan_op p.1 hop r _ hr)
      (by have := isOperator_mem hop; revert this; generalize p.1 = t; intro ht
          simp only [binOps, List.mem_cons, List.not_mem_nil, or_false] at ht
          rcases ht with h | h | h | h | h | h | h | h | h | h | h | h | h | h | h | h | h | h <;> subst h <;>
            exact ⟨by decide, by decide, by decide⟩)
    rw [wp_of_run_ok hrun]
    have hnop : ¬ (!lx.tok.isOperator) = true := by rw [htok, hop]; simp
    rw [wp_ite, if_neg hnop]
    dsimp only
    have hrest' : ∀ q ∈ rest', OpOK x q := fun q hq => hrest q (by simp [hq])
    by_cases hre : p.1.isRegexOp = true
    · rw [if_pos hre] at hok
      obtain ⟨src, hp2, hsrc⟩ := regexLitB_elim hok
      rw [hp2, print_regex] at hq
      obtain ⟨lx2, s2, hrun2, hj2, hch2, hsame2⟩ := parseRegex_text s1 src (printOps rest' ++ k) hj.1 hsrc
        (Or.inr (by rw [hj.2.2]; simpa using hq))
      rw [wp_ite, if_pos (by rw [htok]; exact hre), wp_bind, wp_of_run_ok hrun2]
      dsimp only
      rw [wp_bind, wp_pure]
      refine wp_mono (ihL s2 _ rest' k (htb.same (hsame.trans hsame2)) hrest' hk (hj2.at (Or.inl hch2))) ?_ (fun _ h => h)
      intro e' s3 ⟨he', hat3, hsame3⟩
      exact ⟨by rw [he', htok, List.foldl_cons, hp2], hat3, (hsame.trans hsame2).trans hsame3⟩
    · rw [if_neg hre] at hok
      have hnre' : ¬ lx.tok.isRegexOp = true := by rw [htok]; exact hre
      rw [wp_ite, if_neg hnre', wp_bind]
      refine wp_mono (ihU s1 p.2 (printOps rest' ++ k) (htb.same hsame) hok hnb
        (sepU_printOps _ k (fun q hq => (hrest' q hq).1) hk) ⟨r1, Or.inl ⟨hj.1, hj.2.2⟩, Or.inr hq⟩) ?_ (fun _ h => h)
      intro a s2 ⟨ha, hat2, hsame2⟩
      subst ha
      refine wp_mono (ihL s2 _ rest' k (htb.same (hsame.trans hsame2)) hrest' hk hat2) ?_ (fun _ h => h)
      intro e' s3 ⟨he', hat3, hsame3⟩
      exact ⟨by rw [he', htok]; rfl, hat3, (hsame.trans hsame2).trans hsame3⟩

/-- The token at a separator is none of those that would continue an operand. -/
theorem scan_sep_tok (r : Cursor) (k : List Char) (h : Rem r k) (hk : SepU k) :
    (scan r).1.tok = .EOF ∨ (scan r).1.tok = .RPAREN ∨ (scan r).1.tok = .COMMA ∨ (scan r).1.tok = .WS := by
  rcases hk with hk | ⟨c, t, rfl, hc1, hc2⟩
  · rcases scan_close r k h hk with ⟨_, h⟩ | ⟨_, _, h, _⟩ | ⟨_, _, h, _⟩
    · exact Or.inl h
    · exact Or.inr (Or.inl h)
    · exact Or.inr (Or.inr (Or.inl h))
  · exact Or.inr (Or.inr (Or.inr (scan_space r c t hc1 hc2 (h.chars_of_cons (by decide))).1))

theorem natDigits_head (n : Nat) : HeadOK (natDigits n) := by
  have hne := natDigits_ne_nil n
  have hd := natDigits_all_digits n
  cases h : natDigits n with
  | nil => exact absurd h hne
  | cons c t =>
    have hc : isDigit c = true := hd c (by rw [h]; simp)
    exact ⟨c, t, rfl, (isDigit_facts hc).1, isDigit_ne_eof hc⟩

theorem specU_step (F : Nat) (ihE : SpecE x F) (_ihU : SpecU x F) (ihC : SpecC x F) : SpecU x (F + 1) := by
  intro s a k htb ha hnb hk hat
  cases a with
  | binary op l r => exact absurd rfl (hnb op l r)
  | paren e =>
    have he : rtOK x e = true := by rw [rtOK] at ha; exact ha
    have hat' : AtW s ('(' :: (e.print ++ ')' :: k)) := by simpa [print_paren] using hat
    obtain ⟨lx, s1, r1, hrun, htok, _, hj, hq, hsame⟩ := scanIW_first s _ hat'
      ⟨'(', _, rfl, by decide, by decide⟩ .LPAREN [] (fun r => r.chars = e.print ++ ')' :: k)
      (fun r hr => by
        obtain ⟨h1, h2⟩ := scan_lparen r _ hr
        have hl : (scan r).1.lit = [] := by
          obtain ⟨c1, _, _⟩ := Cursor.chars_cons hr
          unfold scan; rw [c1]; rfl
        exact ⟨h1, hl, h2⟩)
      ⟨by decide, by decide, by decide⟩
    rw [parseUnaryExpr, wp_bind, wp_of_run_ok hrun, wp_ite, if_pos htok, wp_bind]
    refine wp_mono (ihE s1 e (')' :: k) (htb.same hsame) he (Or.inr ⟨k, Or.inl rfl⟩) ⟨r1, Or.inl ⟨hj.1, hj.2.2⟩, Or.inl hq⟩) ?_
      (fun _ h => h)
    intro e' s2 ⟨he', hat2, hsame2⟩
    subst he'
    obtain ⟨lx2, s3, r3, hrun3, hsame3, hj3, _, htok3⟩ := scanIW_close s2 (')' :: k) hat2 (Or.inr ⟨k, Or.inl rfl⟩)
    rw [wp_bind, wp_of_run_ok hrun3]
    rcases htok3 with ⟨h, _⟩ | ⟨t, ht, htk, hch⟩ | ⟨t, ht, _, _⟩
    · cases h
    · simp only [List.cons.injEq, true_and] at ht
      subst ht
      dsimp only
      rw [wp_ite, if_neg (by rw [htk]; simp), wp_pure]
      exact ⟨rfl, hj3.at (Or.inl hch), (hsame.trans hsame2).trans hsame3⟩
    · cases ht
  | string v =>
    have hv : Expressible v := exprB_expressible (by rw [rtOK] at ha; exact ha)
    have hat' : AtW s (quoteString v ++ k) := by simpa [print_string] using hat
    obtain ⟨lx, s1, r1, hrun, htok, hlit, hj, hq, hsame⟩ := scanIW_first s _ hat'
      ((headOK_quoteString v).append k) .STRING v (fun r => r.chars = k)
      (fun r hr => scan_string_text r v k hv hr) ⟨by decide, by decide, by decide⟩
    rw [wp_of_run_ok (unary_string F s s1 lx r1 hrun hj htok)]
    exact ⟨by rw [hlit], hj.at (Or.inl hq), hsame⟩
  | integer n =>
    rw [rtOK] at ha
    simp only [Bool.and_eq_true, decide_eq_true_eq] at ha
    obtain ⟨x, t, rfl, hx1, hx2, hx3, _, _, _⟩ := sepU_head_facts hk
    by_cases hpos : 0 ≤ n
    · obtain ⟨m, rfl⟩ := Int.eq_ofNat_of_zero_le hpos
      rw [print_integer_nat] at hat
      obtain ⟨lx, s1, r1, hrun, htok, hlit, hj, hq, hsame⟩ := scanIW_first s _ hat
        ((natDigits_head m).append _) .INTEGER (natDigits m) (fun r => r.chars = x :: t)
        (fun r hr => scan_digits r (natDigits m) x t (natDigits_ne_nil m) (natDigits_all_digits m) hx1 hx2 hx3 hr)
        ⟨by decide, by decide, by decide⟩
      rw [wp_of_run_ok (unary_integer F s s1 lx r1 m hrun hj htok hlit ha.2)]
      exact ⟨rfl, hj.at (Or.inl hq), hsame⟩
    · have hneg : n < 0 := by omega
      rw [print_integer_neg n hneg] at hat
      obtain ⟨d, dt, hdt, hd⟩ : ∃ d dt, natDigits n.natAbs = d :: dt ∧ isDigit d = true := by
        have hne := natDigits_ne_nil n.natAbs
        cases h : natDigits n.natAbs with
        | nil => exact absurd h hne
        | cons c t' => exact ⟨c, t', rfl, natDigits_all_digits n.natAbs c (by rw [h]; simp)⟩
      obtain ⟨lx, s1, r1, hrun, htok, _, hj, hq, hsame⟩ := scanIW_first s _ hat
        ⟨'-', _, rfl, by decide, by decide⟩ .SUB [] (fun r => r.chars = natDigits n.natAbs ++ x :: t)
        (fun r hr => by
          have := scan_minus r d (dt ++ x :: t) hd (by rw [hr, hdt]; rfl)
          rw [hdt]; exact this)
        ⟨by decide, by decide, by decide⟩
      have hscan : ∀ r : Cursor, r.chars = natDigits n.natAbs ++ x :: t → (scan r).1.tok = .INTEGER := fun r hr =>
        (scan_digits r (natDigits n.natAbs) x t (natDigits_ne_nil _) (natDigits_all_digits _) hx1 hx2 hx3 hr).1
      have hmin : minInt64 ≤ n := ha.1
      by_cases hm : (n.natAbs : Int) ≤ maxInt64
      · have h := unary_neg F _ihU s s1 lx r1 hrun hj htok (htb.same hsame) (.integer (n.natAbs : Int)) (x :: t)
          (by rw [rtOK]; simp only [Bool.and_eq_true, decide_eq_true_eq]; exact ⟨by unfold minInt64; omega, hm⟩)
          (fun _ _ _ he => by cases he) hk (by rw [print_integer_nat]; exact hq)
          (by rw [print_integer_nat]; exact natDigits_head _) .INTEGER (Or.inr (Or.inl rfl))
          (by rw [print_integer_nat]; exact hscan) (Or.inr (Or.inl ⟨_, rfl⟩))
        refine wp_mono h ?_ (fun _ h => h)
        intro e' s' ⟨he', hat', hsame'⟩
        refine ⟨?_, hat', hsame.trans hsame'⟩
        rw [he', negOf]
        have : (n.natAbs : Int) * -1 = n := by omega
        rw [this, wrap64_id ha.1 ha.2]
      · have hn : n = minInt64 := by unfold minInt64 maxInt64 at *; omega
        have hna : n.natAbs = 9223372036854775808 := by rw [hn]; rfl
        have h := unary_neg F _ihU s s1 lx r1 hrun hj htok (htb.same hsame) (.unsigned n.natAbs) (x :: t)
          (by rw [rtOK, hna]; decide)
          (fun _ _ _ he => by cases he) hk (by rw [print_unsigned]; exact hq)
          (by rw [print_unsigned]; exact natDigits_head _) .INTEGER (Or.inr (Or.inl rfl))
          (by rw [print_unsigned]; exact hscan) (Or.inr (Or.inr (Or.inl (by rw [hna]))))
        refine wp_mono h ?_ (fun _ h => h)
        intro e' s' ⟨he', hat', hsame'⟩
        exact ⟨by rw [he', negOf, hn], hat', hsame.trans hsame'⟩
  | unsigned v =>
    rw [rtOK] at ha
    simp only [Bool.and_eq_true, decide_eq_true_eq] at ha
    obtain ⟨x, t, rfl, hx1, hx2, hx3, _, _, _⟩ := sepU_head_facts hk
    rw [print_unsigned] at hat
    obtain ⟨lx, s1, r1, hrun, htok, hlit, hj, hq, hsame⟩ := scanIW_first s _ hat
      ((natDigits_head v).append _) .INTEGER (natDigits v) (fun r => r.chars = x :: t)
      (fun r hr => scan_digits r (natDigits v) x t (natDigits_ne_nil v) (natDigits_all_digits v) hx1 hx2 hx3 hr)
      ⟨by decide, by decide, by decide⟩
    rw [wp_of_run_ok (unary_unsigned F s s1 lx r1 v hrun hj htok hlit ha.1 ha.2)]
    exact ⟨rfl, hj.at (Or.inl hq), hsame⟩
  | boolean b =>
    rw [print_boolean] at hat
    obtain ⟨lx, s1, r1, hrun, htok, _, hj, hq, hsame⟩ := scanIW_first s _ hat
      (by cases b <;> exact ⟨_, _, rfl, by decide, by decide⟩) (if b then .TRUE else .FALSE) [] (fun r => Rem r k)
      (fun r hr => by
        have := scan_true_false r b k hk hr
        refine ⟨this.1, ?_, this.2⟩
        cases b with
        | true => exact (scan_word r 't' ['r', 'u', 'e'] k (by decide) (by decide) hk.idEnd hr).2.1.trans (by decide)
        | false =>
          exact (scan_word r 'f' ['a', 'l', 's', 'e'] k (by decide) (by decide) hk.idEnd hr).2.1.trans (by decide))
      (by cases b <;> exact ⟨by decide, by decide, by decide⟩)
    rw [wp_of_run_ok (unary_bool F s s1 lx r1 b hrun hj htok)]
    exact ⟨rfl, hj.at hq, hsame⟩
  | varRef v t =>
    rw [rtOK] at ha
    simp only [Bool.and_eq_true, beq_iff_eq] at ha
    obtain ⟨hv, ht⟩ := ha
    have hv' : Expressible v := exprB_expressible hv
    by_cases htu : t = .Unknown
    · subst htu
      have hat' : AtW s (quoteIdent [v] ++ k) := by simpa [print_varRef] using hat
      obtain ⟨lx, s1, r1, hrun, htok, hlit, hj, hq, hsame⟩ := scanIW_first s _ hat'
        ((headOK_quoteIdent v).append k) .IDENT v (fun r => Rem r k)
        (fun r hr => scan_ident_text r v k hv' hk.idEnd hr) ⟨by decide, by decide, by decide⟩
      have hsep := scan_sep_tok r1 k hq hk
      obtain ⟨s', hrun', hlook, hsame'⟩ := unary_ident_plain F s s1 lx r1 hrun hj htok
        (by rcases hsep with h | h | h | h <;> rw [h] <;> decide)
        (by rcases hsep with h | h | h | h <;> rw [h] <;> decide)
        (by rcases hsep with h | h | h | h <;> rw [h] <;> decide)
        (by rcases hsep with h | h | h | h <;> rw [h] <;> decide)
      rw [wp_of_run_ok hrun']
      exact ⟨by rw [hlit], ⟨r1, hlook, hq⟩, hsame.trans hsame'⟩
    · have hxc : x = true ∧ castB t = true := by
        have : (t == DataType.Unknown) = false := by simpa using htu
        simpa [this] using ht
      have hat' : AtW s (quoteIdent [v] ++ (':' :: ':' :: (t.str ++ k))) := by
        simpa [print_varRef, htu] using hat
      obtain ⟨lx, s1, r1, hrun, htok, hlit, hj, hq, hsame⟩ := scanIW_first s _ hat'
        ((headOK_quoteIdent v).append _) .IDENT v (fun r => r.chars = ':' :: ':' :: (t.str ++ k))
        (fun r hr => by
          have := scan_ident_text r v _ hv' (Or.inr ⟨':', _, rfl, by decide, by decide, by decide⟩) hr
          exact ⟨this.1, this.2.1, this.2.2.chars_of_cons (by decide)⟩)
        ⟨by decide, by decide, by decide⟩
      obtain ⟨lx', s', hrun', hj', hrem', hsame'⟩ := unary_ident_cast F s s1 lx r1 hrun hj htok t hxc.2 k hk
        ((htb.same hsame) hxc.1) hq
      rw [wp_of_run_ok hrun']
      exact ⟨by rw [hlit], hj'.at hrem', hsame.trans hsame'⟩
  | call name args =>
    rw [rtOK] at ha
    simp only [Bool.and_eq_true] at ha
    obtain ⟨⟨hx, hname⟩, hargs⟩ := ha
    obtain ⟨_, hlk, c, tl, hnm, hc, htl⟩ := callNameB_facts hname
    have hat' : AtW s (name ++ '(' :: (joinWith [',', ' '] (printArgs args) ++ ')' :: k)) := by
      simpa [print_call] using hat
    obtain ⟨lx, s1, r1, hrun, htok, hlit, hj, hq, hsame⟩ := scanIW_first s _ hat'
      (by rw [hnm]; exact ⟨c, _, rfl, (isIdentFirstChar_facts hc).1, (isIdentFirstChar_facts hc).2.2.2.2⟩)
      .IDENT name (fun r => r.chars = '(' :: (joinWith [',', ' '] (printArgs args) ++ ')' :: k))
      (fun r hr => by
        have := scan_word r c tl ('(' :: (joinWith [',', ' '] (printArgs args) ++ ')' :: k)) hc htl
          (Or.inr ⟨'(', _, rfl, by decide, by decide, by decide⟩) (by rw [hr, hnm])
        rw [← hnm, hlk] at this
        exact ⟨this.1, by simpa using this.2.1, this.2.2.chars_of_cons (by decide)⟩)
      ⟨by decide, by decide, by decide⟩
    have hsig : lx.tok ≠ .BOUNDPARAM ∧ lx.tok ≠ .WS ∧ lx.tok ≠ .COMMENT := by rw [htok]; decide
    have hnp : ¬ lx.tok = .LPAREN := by rw [htok]; decide
    rw [parseUnaryExpr, wp_bind, wp_of_run_ok hrun, wp_ite, if_neg hnp, wp_bind, unscan_wp, wp_bind,
      wp_of_run_ok (scanIW_redeliver s1 lx r1 hj hsig.1 hsig.2.1 hsig.2.2)]
    obtain ⟨hlp, hchp⟩ := scan_lparen r1 _ hq
    obtain ⟨s2, hrun2, hj2, hsame2⟩ := pscan_look s1 r1 (Or.inl ⟨hj.1, hj.2.2⟩) (by rw [hlp]; decide)
    obtain ⟨tok, pos, lit⟩ := lx
    simp only at htok hlit
    subst htok hlit
    dsimp only
    rw [wp_bind, wp_of_run_ok hrun2, wp_ite, if_pos hlp]
    refine wp_mono (ihC s2 lit args k (htb.same (hsame.trans hsame2)) hx hname hargs hk hj2.1
      (by rw [hj2.2.2]; exact hchp)) ?_ (fun _ h => h)
    intro e' s3 ⟨he', hat3, hsame3⟩
    exact ⟨he', hat3, (hsame.trans hsame2).trans hsame3⟩
  | _ => simp [rtOK] at ha

/-- The specifications hold for every amount of fuel. -/
theorem rt_specs (x : Bool) (F : Nat) : SpecE x F ∧ SpecL x F ∧ SpecU x F ∧ SpecC x F ∧ SpecA x F := by
  induction F with
  | zero =>
    refine ⟨?_, ?_, ?_, ?_, ?_⟩
    · intro s e k _ _ _ _; rw [parseExpr, wp_throw]; rfl
    · intro s root rest k _ _ _ _; rw [exprLoop, wp_throw]; rfl
    · intro s a k _ _ _ _ _; rw [parseUnaryExpr, wp_throw]; rfl
    · intro s name args k _ _ _ _ _ _ _; rw [parseCall, wp_throw]; rfl
    · intro s name done rest k _ _ _ _; rw [callArgs, wp_throw]; rfl
  | succ F ih =>
    obtain ⟨ihE, ihL, ihU, ihC, ihA⟩ := ih
    exact ⟨specE_step F ihU ihL, specL_step F ihU ihL, specU_step F ihE ihU ihC, specC_step F ihE ihA,
      specA_step F ihE ihA⟩

/-! ## Part 7: the whole text -/

def NoCR (l : List Char) : Prop := ∀ c ∈ l, c ≠ '\r'

theorem NoCR.append {a b : List Char} (ha : NoCR a) (hb : NoCR b) : NoCR (a ++ b) := by
  intro c hc
  rcases List.mem_append.mp hc with h | h
  · exact ha c h
  · exact hb c h

theorem noCR_flatMap_esc (q : Char) (hq : q ≠ '\r') (v : List Char) (hv : Expressible v) :
    NoCR (v.flatMap (esc q)) := by
  intro c hc
  obtain ⟨x, hx, hcx⟩ := List.mem_flatMap.mp hc
  exact esc_no_cr q x hq (hv x hx).2 c hcx

theorem noCR_quoteString (v : List Char) (hv : Expressible v) : NoCR (quoteString v) := by
  rw [C06.quoteString_eq]
  intro c hc
  simp only [List.mem_cons, List.mem_append, List.not_mem_nil, or_false] at hc
  rcases hc with rfl | hc | rfl
  · decide
  · exact noCR_flatMap_esc '\'' (by decide) v hv c hc
  · decide

theorem noCR_quoteIdent (v : List Char) (hv : Expressible v) : NoCR (quoteIdent [v]) := by
  rw [C06.quoteIdent_single]
  split
  · intro c hc
    simp only [List.mem_cons, List.mem_append, List.not_mem_nil, or_false] at hc
    rcases hc with rfl | hc | rfl
    · decide
    · exact noCR_flatMap_esc '"' (by decide) v hv c hc
    · decide
  · exact noCR_flatMap_esc '"' (by decide) v hv

theorem noCR_natDigits (n : Nat) : NoCR (natDigits n) := by
  intro c hc
  have := natDigits_all_digits n c hc
  intro he; subst he; revert this; decide

theorem binOps_noCR : ∀ op ∈ binOps, op.str.all (fun c => c != '\r') = true := by decide

/-- The printed form of an expression of the class contains no carriage return, so the reader
delivers it unchanged. -/
theorem noCR_regex (src : List Char) (hsrc : regexB src = true) : NoCR (Expr.regex src).print := by
  rw [print_regex]
  have hsl : NoCR ['/'] := by intro c hc; simp at hc; subst hc; decide
  refine (hsl.append ?_).append hsl
  intro c hc
  obtain ⟨y, hy, hcy⟩ := List.mem_flatMap.mp hc
  split at hcy
  · simp at hcy; rcases hcy with rfl | rfl <;> decide
  · simp at hcy; subst hcy; exact (regexB_facts hsrc).2.2.2 c hy

mutual
theorem print_noCR : ∀ e : Expr, rtOK x e = true → NoCR e.print
  | .binary op l r, h => by
    obtain ⟨h1, h3, h4, _, _⟩ := rtOK_binary h
    rw [print_binary]
    have hop : NoCR op.str := by
      intro c hc
      have := List.all_eq_true.mp (binOps_noCR op (isOperator_mem h1)) c hc
      simpa using this
    have hsp : NoCR [' '] := by intro c hc; simp at hc; subst hc; decide
    have hr : NoCR r.print := by
      split at h4
      · obtain ⟨src, rfl, hsrc⟩ := regexLitB_elim h4
        rw [print_regex]
        have hsl : NoCR ['/'] := by intro c hc; simp at hc; subst hc; decide
        refine (hsl.append ?_).append hsl
        intro c hc
        obtain ⟨x, hx, hcx⟩ := List.mem_flatMap.mp hc
        split at hcx
        · simp at hcx; rcases hcx with rfl | rfl <;> decide
        · simp at hcx; subst hcx; exact (regexB_facts hsrc).2.2.2 c hx
      · exact print_noCR r h4
    exact ((((print_noCR l h3).append hsp).append hop).append hsp).append hr
  | .paren e, h => by
    have he : rtOK x e = true := by rw [rtOK] at h; exact h
    rw [print_paren]
    have h1 : NoCR ['('] := by intro c hc; simp at hc; subst hc; decide
    have h2 : NoCR [')'] := by intro c hc; simp at hc; subst hc; decide
    exact (h1.append (print_noCR e he)).append h2
  | .string v, h => by
    rw [print_string]
    exact noCR_quoteString v (exprB_expressible (by rw [rtOK] at h; exact h))
  | .integer n, h => by
    by_cases hpos : 0 ≤ n
    · obtain ⟨m, rfl⟩ := Int.eq_ofNat_of_zero_le hpos
      rw [print_integer_nat]; exact noCR_natDigits m
    · rw [print_integer_neg n (by omega)]
      have h1 : NoCR ['-'] := by intro c hc; simp at hc; subst hc; decide
      exact h1.append (noCR_natDigits _)
  | .unsigned v, h => by rw [print_unsigned]; exact noCR_natDigits v
  | .boolean b, h => by
    rw [print_boolean]
    cases b <;> (intro c hc; simp at hc; rcases hc with rfl | rfl | rfl | rfl | rfl <;> decide)
  | .varRef v t, h => by
    rw [rtOK] at h
    simp only [Bool.and_eq_true, beq_iff_eq] at h
    obtain ⟨hv, _⟩ := h
    rw [print_varRef]
    refine (noCR_quoteIdent v (exprB_expressible hv)).append ?_
    split
    · intro c hc; cases hc
    · have h1 : NoCR [':', ':'] := by intro c hc; simp at hc; subst hc; decide
      exact h1.append (noCR_typeStr t)
  | .call name args, h => by
    rw [rtOK] at h
    simp only [Bool.and_eq_true] at h
    obtain ⟨_, _, c, tl, hnm, hc, htl⟩ := callNameB_facts h.1.2
    rw [print_call]
    have hname : NoCR name := by
      intro y hy
      have hi : isIdentChar y = true := by
        rw [hnm] at hy; simp at hy; rcases hy with rfl | hy
        · exact (isIdentFirstChar_facts hc).2.2.1
        · exact htl y hy
      intro e; subst e; revert hi; decide
    have h1 : NoCR ['('] := by intro c hc; simp at hc; subst hc; decide
    have h2 : NoCR [')'] := by intro c hc; simp at hc; subst hc; decide
    exact ((hname.append h1).append (args_noCR args h.2)).append h2
  | .distinct _, h => by simp [rtOK] at h
  | .wildcard _, h => by simp [rtOK] at h
  | .regex _, h => by simp [rtOK] at h
  | .number _, h => by simp [rtOK] at h
  | .duration _, h => by simp [rtOK] at h
  | .time _, h => by simp [rtOK] at h
  | .nil, h => by simp [rtOK] at h
  | .list _, h => by simp [rtOK] at h
  | .boundParam _, h => by simp [rtOK] at h
theorem args_noCR : ∀ args : List Expr, rtOKArgs x args = true → NoCR (joinWith [',', ' '] (printArgs args))
  | [], _ => by intro c hc; simp [printArgs, joinWith] at hc
  | [a], h => by
    obtain ⟨ha, _⟩ := rtOKArgs_cons h
    show NoCR a.print
    rcases ha with ha | ha
    · obtain ⟨src, rfl, hsrc⟩ := regexLitB_elim ha
      exact noCR_regex src hsrc
    · exact print_noCR a ha
  | a :: b :: rest, h => by
    obtain ⟨ha, hr⟩ := rtOKArgs_cons h
    show NoCR (a.print ++ [',', ' '] ++ joinWith [',', ' '] (printArgs (b :: rest)))
    have hsep : NoCR [',', ' '] := by intro c hc; simp at hc; rcases hc with rfl | rfl <;> decide
    refine (NoCR.append ?_ hsep).append (args_noCR (b :: rest) hr)
    rcases ha with ha | ha
    · obtain ⟨src, rfl, hsrc⟩ := regexLitB_elim ha
      exact noCR_regex src hsrc
    · exact print_noCR a ha
end

/-- **Print → parse.** For every expression `e` of the class, `ParseExpr` on the text `e.String()`
returns `e` — whatever the bound parameters and the lower-casing table. -/
theorem parseExprText_print (e : Expr) (h : rtOK x e = true) (params : List (Str × BoundValue))
    (tbl : List (Char × Char)) (htbl : x = true → AsciiFix tbl) : parseExprText e.print params tbl = .ok e := by
  have hch : (PState.init e.print params tbl).r.chars = e.print ++ [eofRune] := by
    show (Cursor.ofRunes e.print).chars = _
    rw [chars_ofRunes]
    have := foldCR_append_of_no_cr e.print [] (print_noCR e h)
    rw [List.append_nil] at this
    rw [this]; simp [foldCR]
  have hat : AtW (PState.init e.print params tbl) (e.print ++ [eofRune]) :=
    ⟨_, Or.inl ⟨rfl, rfl⟩, Or.inl hch⟩
  have hwp := (rt_specs x (fuelFor e.print)).1 (PState.init e.print params tbl) e [eofRune] htbl h (Or.inl rfl) hat
  have htot := parseExprText_total e.print params tbl
  unfold parseExprText at htot ⊢
  unfold wp at hwp
  show (Prod.fst <$> (parseExpr (fuelFor e.print)).run (PState.init e.print params tbl)) = .ok e
  change match (Prod.fst <$> (parseExpr (fuelFor e.print)).run (PState.init e.print params tbl)) with
    | .ok _ => True
    | .error f => f.isErr at htot
  cases hr : (parseExpr (fuelFor e.print)).run (PState.init e.print params tbl) with
  | error f =>
    rw [hr] at hwp htot
    have hf : f = .fuel := hwp
    subst hf
    exact absurd htot (by intro h; exact h)
  | ok p =>
    rw [hr] at hwp
    obtain ⟨he, _, _⟩ := hwp
    show Except.ok p.1 = Except.ok e
    rw [he]

end InfluxQL.RT

import InfluxQL.Lemmas.PMonad
import InfluxQL.Lemmas.ParserTok
import InfluxQL.Lemmas.Total
import InfluxQL.Lemmas.Neutral
import InfluxQL.Lemmas.Quote
import InfluxQL.Lemmas.ScanNumber
import InfluxQL.Lemmas.Prec
import InfluxQL.Lemmas.IntLit
import InfluxQL.Lemmas.Digits
import InfluxQL.Props.C06
/-
Print → parse for expressions (C03, re-parsing half on the real parser and printer).

Part 1: the token plumbing seen from the text: a parser state "stands at" a cursor, possibly
with the token scanned from there pushed back (`Look`); `Scan` / `ScanIgnoreWhitespace` from such
a state deliver what the scanner delivers from that cursor.
-/
namespace InfluxQL.RT
open InfluxQL Gen

/-- Parameters and lower-casing table are the same in both states. -/
def Same (s s' : PState) : Prop := s'.params = s.params ∧ s'.lowerTbl = s.lowerTbl

theorem Same.refl (s : PState) : Same s s := ⟨rfl, rfl⟩
theorem Same.trans {a b c : PState} (h1 : Same a b) (h2 : Same b c) : Same a c :=
  ⟨h2.1.trans h1.1, h2.2.trans h1.2⟩

/-- `s` stands at cursor `r0`: nothing is pushed back and the reader is `r0`, or the one token
scanned from `r0` is pushed back. -/
def Look (s : PState) (r0 : Cursor) : Prop :=
  (s.n = 0 ∧ s.r = r0) ∨ (s.n = 1 ∧ s.buf[0]? = some (scan r0).1 ∧ s.r = (scan r0).2)

/-- `s` has just received `lx`, nothing is pushed back, the reader is `r`. -/
def Just (s : PState) (lx : Lexeme) (r : Cursor) : Prop :=
  s.n = 0 ∧ s.buf[0]? = some lx ∧ s.r = r

theorem substTok_id {params : List (Str × BoundValue)} {lx : Lexeme} (h : lx.tok ≠ .BOUNDPARAM) :
    substTok params lx = lx := by
  unfold substTok; rw [if_neg h]

theorem rawNext_look (s : PState) (r0 : Cursor) (h : Look s r0) :
    (rawNext false s).1 = (scan r0).1 ∧ Just (rawNext false s).2 (scan r0).1 (scan r0).2 ∧
      Same s (rawNext false s).2 := by
  rcases h with ⟨hn, hr⟩ | ⟨hn, hb, hr⟩
  · subst hr
    obtain ⟨f1, f2, f3⟩ := rawNext_fresh false s hn
    have f3' : (rawNext false s).1 = (scan s.r).1 := f3
    have f2' : (rawNext false s).2.r = (scan s.r).2 := f2
    refine ⟨f3', ⟨by rw [rawNext_n, hn], ?_, f2'⟩, (rawNext_params false s).1, (rawNext_params false s).2⟩
    rw [f1, f3']; simp
  · obtain ⟨f1, f2, f3⟩ := rawNext_buffered false s (by omega)
    have hg : s.buf.getD (s.n - 1) zeroLexeme = (scan r0).1 := by
      rw [hn, List.getD_eq_getElem?_getD, hb]; rfl
    refine ⟨by rw [f3, hg], ⟨by rw [rawNext_n, hn], by rw [f1]; exact hb, by rw [f2]; exact hr⟩,
      (rawNext_params false s).1, (rawNext_params false s).2⟩

/-- `Scan()` from a state standing at `r0`. -/
theorem pscan_look (s : PState) (r0 : Cursor) (h : Look s r0) (ht : (scan r0).1.tok ≠ .BOUNDPARAM) :
    ∃ s1, pscan.run s = .ok ((scan r0).1, s1) ∧ Just s1 (scan r0).1 (scan r0).2 ∧ Same s s1 := by
  obtain ⟨h1, h2, h3⟩ := rawNext_look s r0 h
  refine ⟨(rawNext false s).2, ?_, h2, h3⟩
  rw [pscan_run, h1, substTok_id ht]

/-- `ScanIgnoreWhitespace()` from a state standing at `r0` when the token there is significant. -/
theorem scanIW_look (s : PState) (r0 : Cursor) (h : Look s r0) (ht : (scan r0).1.tok ≠ .BOUNDPARAM)
    (hw : (scan r0).1.tok ≠ .WS) (hc : (scan r0).1.tok ≠ .COMMENT) :
    ∃ s1, scanIW.run s = .ok ((scan r0).1, s1) ∧ Just s1 (scan r0).1 (scan r0).2 ∧ Same s s1 := by
  obtain ⟨h1, h2, h3⟩ := rawNext_look s r0 h
  refine ⟨(rawNext false s).2, ?_, h2, h3⟩
  have e : substTok s.params (rawNext false s).1 = (scan r0).1 := by rw [h1, substTok_id ht]
  rw [scanIW_run_sig s (by rw [e]; exact hw) (by rw [e]; exact hc), pscan_run, e]

/-- `ScanIgnoreWhitespace()` from a state standing at `r0` when the token there is whitespace and
the next one is significant. -/
theorem scanIW_look_ws (s : PState) (r0 : Cursor) (h : Look s r0) (hws : (scan r0).1.tok = .WS)
    (ht : (scan (scan r0).2).1.tok ≠ .BOUNDPARAM)
    (hw : (scan (scan r0).2).1.tok ≠ .WS) (hc : (scan (scan r0).2).1.tok ≠ .COMMENT) :
    ∃ s1, scanIW.run s = .ok ((scan (scan r0).2).1, s1) ∧
      Just s1 (scan (scan r0).2).1 (scan (scan r0).2).2 ∧ Same s s1 := by
  obtain ⟨h1, h2, h3⟩ := rawNext_look s r0 h
  have hl2 : Look (rawNext false s).2 (scan r0).2 := Or.inl ⟨h2.1, h2.2.2⟩
  obtain ⟨k1, k2, k3⟩ := rawNext_look _ _ hl2
  refine ⟨(rawNext false (rawNext false s).2).2, ?_, k2, h3.trans k3⟩
  have e : substTok s.params (rawNext false s).1 = (scan r0).1 := by
    rw [h1, substTok_id (by rw [hws]; decide)]
  have e2 : substTok (rawNext false s).2.params (rawNext false (rawNext false s).2).1 =
      (scan (scan r0).2).1 := by rw [k1, substTok_id ht]
  unfold scanIW
  rw [P.runBind, P.run_get]
  simp only []
  rw [show s.n + s.r.rest.length + 2 = ((s.n + s.r.rest.length) + 1) + 1 from rfl,
    scanIWLoop_run_skip _ s (by rw [e]; exact Or.inl hws),
    scanIWLoop_run_sig _ _ (by rw [e2]; exact hw) (by rw [e2]; exact hc), pscan_run, e2]

/-- After `Unscan()` the state stands where the last token came from. -/
theorem look_unsc (s : PState) (r0 : Cursor) (h : Just s (scan r0).1 (scan r0).2) : Look (unsc s) r0 :=
  Or.inr ⟨by simp [unsc, h.1], h.2.1, h.2.2⟩

theorem unsc_same (s : PState) : Same s (unsc s) := ⟨rfl, rfl⟩

/-- Pushing the last token back and asking again re-delivers it and restores the state. -/
theorem scanIW_redeliver (s : PState) (lx : Lexeme) (r : Cursor) (h : Just s lx r)
    (ht : lx.tok ≠ .BOUNDPARAM) (hw : lx.tok ≠ .WS) (hc : lx.tok ≠ .COMMENT) :
    scanIW.run (unsc s) = .ok (lx, s) := by
  have := scanIW_buffered (unsc s) 0 lx (by simp [unsc, h.1]) h.2.1 ht hw hc
  rw [this]
  obtain ⟨hn, _, _⟩ := h
  cases s
  simp only at hn
  subst hn
  rfl

theorem pscan_redeliver (s : PState) (lx : Lexeme) (r : Cursor) (h : Just s lx r)
    (ht : lx.tok ≠ .BOUNDPARAM) : pscan.run (unsc s) = .ok (lx, s) := by
  have := pscan_buffered (unsc s) 0 lx (by simp [unsc, h.1]) h.2.1 ht
  rw [this]
  obtain ⟨hn, _, _⟩ := h
  cases s
  simp only at hn
  subst hn
  rfl


/-! ## Part 2: what the scanner returns on printed fragments -/

/-- The reader has `k` ahead — or `k` is the end-of-input sentinel and a loop that breaks on it
has already swallowed it (the next `Scan` returns EOF in both cases). -/
def Rem (r : Cursor) (k : List Char) : Prop := r.chars = k ∨ (k = [eofRune] ∧ r.chars = [])

/-- What may follow an expression: the end of the input, `)` or `,`. -/
def SepC (k : List Char) : Prop := k = [eofRune] ∨ ∃ t, k = ')' :: t ∨ k = ',' :: t

/-- What may follow an operand: the above, or one blank and a further token. -/
def SepU (k : List Char) : Prop :=
  SepC k ∨ ∃ c t, k = ' ' :: c :: t ∧ isWhitespace c = false ∧ c ≠ eofRune

theorem Rem.of_dropEof {r : Cursor} {k : List Char} (hk : SepU k) (h : r.chars = dropEof k) : Rem r k := by
  rcases hk with (rfl | ⟨t, rfl | rfl⟩) | ⟨c, t, rfl, _, _⟩
  · right; exact ⟨rfl, by simpa [dropEof] using h⟩
  · left; rw [h]; rfl
  · left; rw [h]; rfl
  · left; rw [h]; rfl

theorem Rem.chars_of_cons {r : Cursor} {c : Char} {t : List Char} (h : Rem r (c :: t)) (hc : c ≠ eofRune) :
    r.chars = c :: t := by
  rcases h with h | ⟨h, _⟩
  · exact h
  · simp only [List.cons.injEq] at h; exact absurd h.1 hc

/-- The head of a separator is no identifier rune, no `"`, no `.`, `:`, `(`. -/
theorem SepU.head {k : List Char} (hk : SepU k) :
    k = [eofRune] ∨ ∃ x t, k = x :: t ∧ (x = ' ' ∨ x = ')' ∨ x = ',') := by
  rcases hk with (rfl | ⟨t, rfl | rfl⟩) | ⟨c, t, rfl, _, _⟩
  · exact Or.inl rfl
  · exact Or.inr ⟨_, _, rfl, Or.inr (Or.inl rfl)⟩
  · exact Or.inr ⟨_, _, rfl, Or.inr (Or.inr rfl)⟩
  · exact Or.inr ⟨_, _, rfl, Or.inl rfl⟩

/-- A word (identifier runes, starting with a letter or `_`) followed by the end of input or by
a rune that cannot continue it: one token, the keyword it spells or else an identifier. -/
theorem scan_word (r : Cursor) (c : Char) (tl k : List Char) (hc : isIdentFirstChar c = true)
    (htl : ∀ y ∈ tl, isIdentChar y = true)
    (hk : k = [eofRune] ∨ ∃ x t, k = x :: t ∧ isIdentChar x = false ∧ x ≠ '"' ∧ x ≠ eofRune)
    (h : r.chars = c :: tl ++ k) :
    (scan r).1.tok = lookup (c :: tl) ∧
      (scan r).1.lit = (if lookup (c :: tl) = .IDENT then c :: tl else []) ∧ Rem (scan r).2 k := by
  obtain ⟨hws, hlu, hic, hcq, hce⟩ := isIdentFirstChar_facts hc
  have hall : ∀ y ∈ c :: tl, isIdentChar y = true := by
    intro y hy; simp at hy; rcases hy with rfl | hy
    · exact hic
    · exact htl y hy
  have hpk := Cursor.peek_of_map (r := r) (c := c) (t := tl ++ k) (by simpa [Cursor.chars] using h)
  have hscan : scan r = scanIdent true r := by
    unfold scan; rw [hpk.2]; unfold scanFrom; simp [hws, hlu]
  have hkstop : ∀ x t, k = x :: t → (isIdentChar x && x != eofRune) = false := by
    intro x t hxt
    rcases hk with rfl | ⟨x', t', rfl, hx, _, _⟩
    · simp only [List.cons.injEq] at hxt; rw [← hxt.1]; decide
    · simp only [List.cons.injEq] at hxt; rw [← hxt.1, hx]; rfl
  obtain ⟨hb1, hb2⟩ := readWhile_chars isIdentChar r (c :: tl) k h
    (fun y hy => ⟨hall y hy, isIdentChar_ne_eof (hall y hy)⟩) hkstop
  have hsb1 : (scanBareIdent r).1 = c :: tl := hb1
  have hsb2 : (scanBareIdent r).2.chars = dropEof k := by
    show ((r.readWhile isIdentChar).2.eatEof).chars = dropEof k
    rw [Cursor.chars_eatEof, hb2]
  have hloop : ∃ r', scanIdentLoop (r.read.1).2 (r.rest.length + 2) r [] = ((none, c :: tl), r') ∧ Rem r' k := by
    rw [show r.rest.length + 2 = (r.rest.length + 1) + 1 from rfl, scanIdentLoop]
    simp only [hpk.1, hce, hcq, hic, if_false, if_true]
    rw [scanIdentLoop]
    rcases hk with rfl | ⟨x, t, rfl, hx, hxq, hxe⟩
    · have hnil : (scanBareIdent r).2.chars = [] := by rw [hsb2]; simp [dropEof]
      obtain ⟨p1, p2⟩ := Cursor.chars_nil hnil
      simp only [p1, if_true, hsb1, List.nil_append]
      exact ⟨_, rfl, Or.inr ⟨rfl, p2⟩⟩
    · have hcons : (scanBareIdent r).2.chars = x :: t := by rw [hsb2]; simp [dropEof, hxe]
      obtain ⟨_, _, p3⟩ := Cursor.chars_cons hcons
      simp only [p3, hxe, hxq, hx, if_false, hsb1, List.nil_append]
      exact ⟨_, by simp, Or.inl hcons⟩
  obtain ⟨r', hl, hrem⟩ := hloop
  rw [hscan]
  unfold scanIdent
  dsimp only
  rw [hl]
  by_cases hlk : lookup (c :: tl) = .IDENT
  · simp [hlk, hrem]
  · simp [hlk, hrem]


/-- A run of digits followed by a rune that is no digit, no `.` and no unit letter: one INTEGER. -/
theorem scan_digits (r : Cursor) (ds : List Char) (x : Char) (t : List Char) (hne : ds ≠ [])
    (hds : ∀ d ∈ ds, isDigit d = true) (hx : isDigit x = false) (hxdot : x ≠ '.') (hxdur : isDurChar x = false)
    (h : r.chars = ds ++ x :: t) :
    (scan r).1.tok = .INTEGER ∧ (scan r).1.lit = ds ∧ (scan r).2.chars = x :: t := by
  cases ds with
  | nil => exact absurd rfl hne
  | cons d0 dtl =>
  have hd0 := hds d0 (by simp)
  obtain ⟨hws, hlu⟩ := isDigit_facts hd0
  have hpk := Cursor.peek_of_map (r := r) (c := d0) (t := dtl ++ x :: t) (by simpa [Cursor.chars] using h)
  have hscan : scan r = scanNumber r r.read.1.2 := by
    unfold scan; rw [hpk.2]; unfold scanFrom; simp [hws, hlu, hd0]
  obtain ⟨e1, e2, _⟩ := r.readWhile_exact isDigit (d0 :: dtl) x t h
    (fun y hy => ⟨hds y hy, isDigit_ne_eof (hds y hy)⟩) hx
  have hpk1 : (r.readWhile isDigit).2.peek = x := (Cursor.peek_of_map e2).1
  have hprefix : scanNumberPrefix r = (d0 :: dtl, false, (r.readWhile isDigit).2) := by
    unfold scanNumberPrefix scanDigits
    dsimp only
    rw [hpk1]
    simp [hxdot, e1]
  rw [hscan]
  unfold scanNumber
  rw [hprefix]
  dsimp only
  rw [hpk1]
  simp only [Bool.not_false, if_true, hxdur, Bool.false_eq_true, if_false]
  exact ⟨trivial, trivial, e2⟩

theorem sepU_head_facts {k : List Char} (hk : SepU k) :
    ∃ x t, k = x :: t ∧ isDigit x = false ∧ x ≠ '.' ∧ isDurChar x = false ∧ isIdentChar x = false ∧
      x ≠ '"' ∧ isDurTailChar x = false := by
  rcases hk.head with rfl | ⟨x, t, rfl, rfl | rfl | rfl⟩
  · exact ⟨_, _, rfl, by decide, by decide, by decide, by decide, by decide, by decide⟩
  · exact ⟨_, _, rfl, by decide, by decide, by decide, by decide, by decide, by decide⟩
  · exact ⟨_, _, rfl, by decide, by decide, by decide, by decide, by decide, by decide⟩
  · exact ⟨_, _, rfl, by decide, by decide, by decide, by decide, by decide, by decide⟩

/-- The closing separators as tokens. -/
theorem scan_close (r : Cursor) (k : List Char) (h : Rem r k) (hk : SepC k) :
    (k = [eofRune] ∧ (scan r).1.tok = .EOF) ∨
    (∃ t, k = ')' :: t ∧ (scan r).1.tok = .RPAREN ∧ (scan r).2.chars = t) ∨
    (∃ t, k = ',' :: t ∧ (scan r).1.tok = .COMMA ∧ (scan r).2.chars = t) := by
  rcases hk with rfl | ⟨t, rfl | rfl⟩
  · left
    refine ⟨rfl, ?_⟩
    rcases h with h | ⟨_, h⟩
    · obtain ⟨h1, _, _⟩ := Cursor.chars_cons h
      unfold scan scanFrom
      rw [h1]
      simp only [show isWhitespace eofRune = false from by decide, show isLetter eofRune = false from by decide,
        show isDigit eofRune = false from by decide, show (eofRune == '_') = false from by decide]
      simp
    · exact scan_at_end r (by simpa [Cursor.chars] using h)
  · right; left
    have hc := h.chars_of_cons (by decide)
    obtain ⟨h1, h2, _⟩ := Cursor.chars_cons hc
    refine ⟨t, rfl, ?_, ?_⟩
    · unfold scan; rw [h1]; rfl
    · unfold scan; rw [h1]; exact h2
  · right; right
    have hc := h.chars_of_cons (by decide)
    obtain ⟨h1, h2, _⟩ := Cursor.chars_cons hc
    refine ⟨t, rfl, ?_, ?_⟩
    · unfold scan; rw [h1]; rfl
    · unfold scan; rw [h1]; exact h2

theorem scan_lparen (r : Cursor) (t : List Char) (h : r.chars = '(' :: t) :
    (scan r).1.tok = .LPAREN ∧ (scan r).2.chars = t := by
  obtain ⟨h1, h2, _⟩ := Cursor.chars_cons h
  constructor
  · unfold scan; rw [h1]; rfl
  · unfold scan; rw [h1]; exact h2

/-- One blank before a rune that is neither whitespace nor the sentinel. -/
theorem scan_space (r : Cursor) (c : Char) (t : List Char) (hc : isWhitespace c = false) (hce : c ≠ eofRune)
    (h : r.chars = ' ' :: c :: t) : (scan r).1.tok = .WS ∧ (scan r).2.chars = c :: t := by
  have := scan_wsRun r [' '] (c :: t) h ⟨by simp, by intro x hx; simp at hx; subst hx; decide⟩
    (by intro x y hxy; simp only [List.cons.injEq] at hxy; rw [← hxy.1]; exact hc)
  refine ⟨this.1, ?_⟩
  rw [this.2]; simp [dropEof, hce]


/-- The eighteen binary operators. -/
def binOps : List Token :=
  [.ADD, .SUB, .MUL, .DIV, .MOD, .BITWISE_AND, .BITWISE_OR, .BITWISE_XOR, .AND, .OR, .EQ, .NEQ, .EQREGEX,
   .NEQREGEX, .LT, .LTE, .GT, .GTE]

theorem isOperator_mem {t : Token} (h : t.isOperator = true) : t ∈ binOps := by
  cases t <;> first | decide | (exfalso; revert h; decide)

theorem binOps_concrete : ∀ op ∈ binOps,
    (scan (Cursor.ofRunes (op.str ++ [' ']))).1.sig = (op, []) ∧
    (scan (Cursor.ofRunes (op.str ++ [' ']))).2.chars = [' ', eofRune] ∧
    (Cursor.ofRunes (op.str ++ [' '])).chars = op.str ++ [' ', eofRune] := by decide

/-- The printed spelling of a binary operator followed by a blank scans as that operator and
stops before the blank. -/
theorem scan_op (op : Token) (hop : op.isOperator = true) (r : Cursor) (t : List Char)
    (h : r.chars = op.str ++ ' ' :: t) :
    (scan r).1.tok = op ∧ (scan r).1.lit = [] ∧ (scan r).2.chars = ' ' :: t := by
  obtain ⟨c1, c2, c3⟩ := binOps_concrete op (isOperator_mem hop)
  have hloc : Loc [' ', eofRune] (' ' :: t) (Cursor.ofRunes (op.str ++ [' '])) r := ⟨op.str, c3, h⟩
  have htail : TailOK [' ', eofRune] (' ' :: t) := Or.inr ⟨_, _, _, _, rfl, rfl, by decide, by decide⟩
  have hlen : [' ', eofRune].length ≤ (scan (Cursor.ofRunes (op.str ++ [' ']))).2.rest.length := by
    have := congrArg List.length c2
    simp only [Cursor.chars, List.length_map] at this
    rw [this]; exact Nat.le_refl _
  obtain ⟨hsig, a, ha1, ha2⟩ := scan_loc hloc htail hlen
  have ha : a = [] := by
    have e : [' ', eofRune] = a ++ [' ', eofRune] := by rw [← ha1]; exact c2.symm
    have := congrArg List.length e
    simp only [List.length_append, List.length_cons, List.length_nil] at this
    exact List.length_eq_zero_iff.mp (by omega)
  subst ha
  rw [c1] at hsig
  have h1 : (scan r).1.tok = op := (congrArg Prod.fst hsig).symm
  have h2 : (scan r).1.lit = [] := (congrArg Prod.snd hsig).symm
  exact ⟨h1, h2, by simpa [Cursor.chars] using ha2⟩


/-- The text starts with a rune that is neither whitespace nor the sentinel. -/
def HeadOK (txt : List Char) : Prop := ∃ c t, txt = c :: t ∧ isWhitespace c = false ∧ c ≠ eofRune

theorem HeadOK.append {a : List Char} (h : HeadOK a) (b : List Char) : HeadOK (a ++ b) := by
  obtain ⟨c, t, rfl, h1, h2⟩ := h
  exact ⟨c, t ++ b, rfl, h1, h2⟩

theorem esc_eq_escF {q : Char} {s : List Char} (hs : Expressible s) : s.flatMap (esc q) = s.flatMap (escF q) := by
  induction s with
  | nil => rfl
  | cons c s ih =>
    have hc := hs c (by simp)
    simp only [List.flatMap_cons, escF, hc.2, if_false]
    rw [ih (fun x hx => hs x (by simp [hx]))]

/-- `QuoteString(v)` scans back as the string `v` and stops right after the closing quote. -/
theorem scan_string_text (r : Cursor) (v k : List Char) (hv : Expressible v) (h : r.chars = quoteString v ++ k) :
    (scan r).1.tok = .STRING ∧ (scan r).1.lit = v ∧ (scan r).2.chars = k := by
  rw [C06.quoteString_eq, esc_eq_escF hv] at h
  rcases scan_quotedString r v k (by simpa [Cursor.chars] using h) with ⟨_, h1, h2, h3⟩ | ⟨hne, _⟩
  · exact ⟨h1, h2, h3⟩
  · exact absurd hv hne

theorem headOK_quoteString (v : List Char) : HeadOK (quoteString v) :=
  ⟨'\'', _, rfl, by decide, by decide⟩

/-- What may follow an identifier without continuing it. -/
def IdEnd (k : List Char) : Prop :=
  k = [eofRune] ∨ ∃ x t, k = x :: t ∧ isIdentChar x = false ∧ x ≠ '"' ∧ x ≠ eofRune

theorem SepU.idEnd {k : List Char} (hk : SepU k) : IdEnd k := by
  rcases hk.head with rfl | ⟨x, t, rfl, rfl | rfl | rfl⟩
  · exact Or.inl rfl
  · exact Or.inr ⟨_, _, rfl, by decide, by decide, by decide⟩
  · exact Or.inr ⟨_, _, rfl, by decide, by decide, by decide⟩
  · exact Or.inr ⟨_, _, rfl, by decide, by decide, by decide⟩

/-- `QuoteIdent(v)` scans back as the identifier `v`. -/
theorem scan_ident_text (r : Cursor) (v k : List Char) (hv : Expressible v) (hk : IdEnd k)
    (h : r.chars = quoteIdent [v] ++ k) :
    (scan r).1.tok = .IDENT ∧ (scan r).1.lit = v ∧ Rem (scan r).2 k := by
  rw [C06.quoteIdent_single] at h
  by_cases hq : (identNeedsQuotes v || v == []) = true
  · rw [if_pos hq, esc_eq_escF hv] at h
    rcases scan_quotedIdent r v k (by simpa [Cursor.chars] using h) with ⟨_, h1, h2, h3⟩ | ⟨hne, _⟩
    · exact ⟨h1, h2, Or.inl h3⟩
    · exact absurd hv hne
  · rw [if_neg hq] at h
    simp only [Bool.or_eq_true, not_or, Bool.not_eq_true, beq_eq_false_iff_ne, ne_eq] at hq
    obtain ⟨hn, hne⟩ := hq
    obtain ⟨hlk, c, tl, rfl, hc, htl⟩ := (identNeedsQuotes_false_iff v hne).mp hn
    have hall : ∀ y ∈ c :: tl, isIdentChar y = true := by
      intro y hy; simp at hy; rcases hy with rfl | hy
      · exact (isIdentFirstChar_facts hc).2.2.1
      · exact htl y hy
    rw [C06.esc_identChars _ hall] at h
    have := scan_word r c tl k hc htl hk h
    rw [hlk] at this
    simpa using this

theorem headOK_quoteIdent (v : List Char) : HeadOK (quoteIdent [v]) := by
  rw [C06.quoteIdent_single]
  by_cases hq : (identNeedsQuotes v || v == []) = true
  · rw [if_pos hq]; exact ⟨'"', _, rfl, by decide, by decide⟩
  · rw [if_neg hq]
    simp only [Bool.or_eq_true, not_or, Bool.not_eq_true, beq_eq_false_iff_ne, ne_eq] at hq
    obtain ⟨hn, hne⟩ := hq
    obtain ⟨hlk, c, tl, rfl, hc, htl⟩ := (identNeedsQuotes_false_iff v hne).mp hn
    have hall : ∀ y ∈ c :: tl, isIdentChar y = true := by
      intro y hy; simp at hy; rcases hy with rfl | hy
      · exact (isIdentFirstChar_facts hc).2.2.1
      · exact htl y hy
    rw [C06.esc_identChars _ hall]
    exact ⟨c, tl, rfl, (isIdentFirstChar_facts hc).1, (isIdentFirstChar_facts hc).2.2.2.2⟩

/-! ## Part 3: parser states and texts -/

/-- The parser stands before `txt`, possibly after one blank. -/
def AtW (s : PState) (txt : List Char) : Prop :=
  ∃ r0, Look s r0 ∧ (r0.chars = txt ∨ r0.chars = ' ' :: txt)

/-- The parser stands before the separator `k`. -/
def At (s : PState) (k : List Char) : Prop := ∃ r0, Look s r0 ∧ Rem r0 k

theorem Just.at {s : PState} {lx : Lexeme} {r : Cursor} (h : Just s lx r) {k : List Char} (hr : Rem r k) : At s k :=
  ⟨r, Or.inl ⟨h.1, h.2.2⟩, hr⟩

theorem At.atW {s : PState} {txt : List Char} (h : At s (' ' :: txt)) : AtW s txt := by
  obtain ⟨r0, hl, hr⟩ := h
  exact ⟨r0, hl, Or.inr (hr.chars_of_cons (by decide))⟩

def Sig (t : Token) : Prop := t ≠ .BOUNDPARAM ∧ t ≠ .WS ∧ t ≠ .COMMENT

/-- The first significant token of a text, as `ScanIgnoreWhitespace` delivers it. -/
theorem scanIW_first (s : PState) (txt : List Char) (h : AtW s txt) (hh : HeadOK txt) (tok : Token)
    (lit : List Char) (Q : Cursor → Prop)
    (hs : ∀ r : Cursor, r.chars = txt → (scan r).1.tok = tok ∧ (scan r).1.lit = lit ∧ Q (scan r).2)
    (hsig : Sig tok) :
    ∃ lx s1 r1, scanIW.run s = .ok (lx, s1) ∧ lx.tok = tok ∧ lx.lit = lit ∧ Just s1 lx r1 ∧ Q r1 ∧ Same s s1 := by
  obtain ⟨r0, hl, hr | hr⟩ := h
  · obtain ⟨h1, h2, h3⟩ := hs r0 hr
    obtain ⟨s1, k1, k2, k3⟩ := scanIW_look s r0 hl (by rw [h1]; exact hsig.1) (by rw [h1]; exact hsig.2.1)
      (by rw [h1]; exact hsig.2.2)
    exact ⟨_, s1, _, k1, h1, h2, k2, h3, k3⟩
  · obtain ⟨c, t, rfl, hc1, hc2⟩ := hh
    obtain ⟨w1, w2⟩ := scan_space r0 c t hc1 hc2 hr
    obtain ⟨h1, h2, h3⟩ := hs (scan r0).2 w2
    obtain ⟨s1, k1, k2, k3⟩ := scanIW_look_ws s r0 hl w1 (by rw [h1]; exact hsig.1) (by rw [h1]; exact hsig.2.1)
      (by rw [h1]; exact hsig.2.2)
    exact ⟨_, s1, _, k1, h1, h2, k2, h3, k3⟩

/-- `Scan()` on the first token of a text (no blank skipped). -/
theorem pscan_first (s : PState) (r0 : Cursor) (h : Look s r0) (tok : Token) (ht : tok ≠ .BOUNDPARAM)
    (h1 : (scan r0).1.tok = tok) :
    ∃ lx s1, pscan.run s = .ok (lx, s1) ∧ lx = (scan r0).1 ∧ Just s1 lx (scan r0).2 ∧ Same s s1 := by
  obtain ⟨s1, k1, k2, k3⟩ := pscan_look s r0 h (by rw [h1]; exact ht)
  exact ⟨_, s1, k1, rfl, k2, k3⟩


/-- `ScanIgnoreWhitespace()` at the separator that closes an expression: `)`, `,` or EOF. -/
theorem scanIW_close (s : PState) (k : List Char) (h : At s k) (hk : SepC k) :
    ∃ lx s1 r1, scanIW.run s = .ok (lx, s1) ∧ Same s s1 ∧ Just s1 lx r1 ∧ At (unsc s1) k ∧
      ((k = [eofRune] ∧ lx.tok = .EOF) ∨ (∃ t, k = ')' :: t ∧ lx.tok = .RPAREN ∧ r1.chars = t) ∨
        (∃ t, k = ',' :: t ∧ lx.tok = .COMMA ∧ r1.chars = t)) := by
  obtain ⟨r0, hl, hr⟩ := h
  have hc := scan_close r0 k hr hk
  have hsig : Sig (scan r0).1.tok := by
    rcases hc with ⟨_, h⟩ | ⟨_, _, h, _⟩ | ⟨_, _, h, _⟩ <;> rw [h] <;> exact ⟨by decide, by decide, by decide⟩
  obtain ⟨s1, k1, k2, k3⟩ := scanIW_look s r0 hl hsig.1 hsig.2.1 hsig.2.2
  exact ⟨_, s1, _, k1, k3, k2, ⟨r0, look_unsc s1 r0 k2, hr⟩, hc⟩

/-! ## Part 4: the functions of the parser on single operands -/

theorem unscan_run' (s : PState) : unscan.run s = .ok (⟨⟩, unsc s) := rfl

theorem parseIdent_buffered (s : PState) (k : Nat) (lx : Lexeme) (hn : s.n = k + 1) (hb : s.buf[k]? = some lx)
    (ht : lx.tok = .IDENT) : parseIdent.run s = .ok (lx.lit, { s with n := k }) := by
  unfold parseIdent
  rw [P.run_bind _ _ _ _ _ (scanIW_buffered s k lx hn hb (by rw [ht]; decide) (by rw [ht]; decide) (by rw [ht]; decide))]
  simp [ht]
  rfl

theorem segLoop_stop (fuel : Nat) (idents : List Str) (s : PState) (k : Nat) (t1 : Lexeme) (hn : s.n = k + 1)
    (hb : s.buf[k]? = some t1) (ht : t1.tok ≠ .BOUNDPARAM) (hd : t1.tok ≠ .DOT) :
    (segLoop (fuel + 1) idents).run s = .ok (idents, s) := by
  rw [segLoop, P.run_bind _ _ _ _ _ (pscan_buffered s k t1 hn hb ht)]
  rw [P.run_ite, if_pos hd, P.run_bind _ _ _ _ _ (unscan_run' _)]
  rw [P.run_pure]
  cases s
  simp only at hn
  subst hn
  rfl

theorem parseSegmentedIdents_single (s : PState) (lx t1 : Lexeme) (hn : s.n = 2) (h1 : s.buf[1]? = some lx)
    (h0 : s.buf[0]? = some t1) (hlx : lx.tok = .IDENT) (ht : t1.tok ≠ .BOUNDPARAM) (hd : t1.tok ≠ .DOT) :
    parseSegmentedIdents.run s = .ok ([lx.lit], { s with n := 1 }) := by
  unfold parseSegmentedIdents
  rw [P.run_bind _ _ _ _ _ (parseIdent_buffered s 1 lx hn h1 hlx)]
  rw [P.run_bind _ _ _ _ _ (P.run_get _)]
  rw [show ({ s with n := 1 } : PState).n + ({ s with n := 1 } : PState).r.rest.length + 2 =
    (1 + s.r.rest.length + 1) + 1 from rfl]
  rw [P.run_bind _ _ _ _ _ (segLoop_stop _ [lx.lit] { s with n := 1 } 0 t1 rfl h0 ht hd)]
  simp
  rfl

/-- `ParseVarRef` on a single identifier that is not followed by `.` or `::`. -/
theorem parseVarRef_plain (s : PState) (lx t1 : Lexeme) (hn : s.n = 2) (h1 : s.buf[1]? = some lx)
    (h0 : s.buf[0]? = some t1) (hlx : lx.tok = .IDENT) (ht : t1.tok ≠ .BOUNDPARAM) (hd : t1.tok ≠ .DOT)
    (hcc : t1.tok ≠ .DOUBLECOLON) :
    parseVarRef.run s = .ok (.varRef lx.lit .Unknown, { s with n := 1 }) := by
  unfold parseVarRef
  rw [P.run_bind _ _ _ _ _ (parseSegmentedIdents_single s lx t1 hn h1 h0 hlx ht hd)]
  rw [P.run_bind _ _ _ _ _ (pscan_buffered { s with n := 1 } 0 t1 rfl h0 ht)]
  simp only [hcc, if_false]
  rfl

theorem unary_string (F : Nat) (s s1 : PState) (lx : Lexeme) (r1 : Cursor)
    (h1 : scanIW.run s = .ok (lx, s1)) (hj : Just s1 lx r1) (htok : lx.tok = .STRING) :
    (parseUnaryExpr (F + 1)).run s = .ok (.string lx.lit, s1) := by
  have hsig : lx.tok ≠ .BOUNDPARAM ∧ lx.tok ≠ .WS ∧ lx.tok ≠ .COMMENT := by rw [htok]; decide
  have hnp : ¬ lx.tok = .LPAREN := by rw [htok]; decide
  rw [parseUnaryExpr, P.run_bind _ _ _ _ _ h1, P.run_ite, if_neg hnp, P.run_bind _ _ _ _ _ (unscan_run' s1),
    P.run_bind _ _ _ _ _ (scanIW_redeliver s1 lx r1 hj hsig.1 hsig.2.1 hsig.2.2)]
  obtain ⟨tok, pos, lit⟩ := lx
  simp only at htok
  subst htok
  rfl

theorem parseIntegerLit_natDigits (n : Nat) (h : (n : Int) ≤ maxInt64) (pos : Pos) (s : PState) :
    (parseIntegerLit (natDigits n) pos).run s = .ok (.integer n, s) := by
  unfold parseIntegerLit
  rw [splitSign_natDigits]
  have h0 : minInt64 ≤ (n : Int) := by unfold minInt64; omega
  simp [allDigits_natDigits, digitsVal_natDigits, h, h0, StateT.run, pure, StateT.pure, Except.pure]

theorem unary_integer (F : Nat) (s s1 : PState) (lx : Lexeme) (r1 : Cursor) (n : Nat)
    (h1 : scanIW.run s = .ok (lx, s1)) (hj : Just s1 lx r1) (htok : lx.tok = .INTEGER)
    (hlit : lx.lit = natDigits n) (hn : (n : Int) ≤ maxInt64) :
    (parseUnaryExpr (F + 1)).run s = .ok (.integer n, s1) := by
  have hsig : lx.tok ≠ .BOUNDPARAM ∧ lx.tok ≠ .WS ∧ lx.tok ≠ .COMMENT := by rw [htok]; decide
  have hnp : ¬ lx.tok = .LPAREN := by rw [htok]; decide
  rw [parseUnaryExpr, P.run_bind _ _ _ _ _ h1, P.run_ite, if_neg hnp, P.run_bind _ _ _ _ _ (unscan_run' s1),
    P.run_bind _ _ _ _ _ (scanIW_redeliver s1 lx r1 hj hsig.1 hsig.2.1 hsig.2.2)]
  obtain ⟨tok, pos, lit⟩ := lx
  simp only at htok hlit
  subst htok hlit
  exact parseIntegerLit_natDigits n hn pos s1

/-- An identifier that is followed by neither `(`, `.` nor `::` is a plain variable reference; the
token after it stays pushed back. -/
theorem unary_ident_plain (F : Nat) (s s1 : PState) (lx : Lexeme) (r1 : Cursor)
    (h1 : scanIW.run s = .ok (lx, s1)) (hj : Just s1 lx r1) (htok : lx.tok = .IDENT)
    (hb : (scan r1).1.tok ≠ .BOUNDPARAM) (hlp : (scan r1).1.tok ≠ .LPAREN) (hd : (scan r1).1.tok ≠ .DOT)
    (hcc : (scan r1).1.tok ≠ .DOUBLECOLON) :
    ∃ s', (parseUnaryExpr (F + 1)).run s = .ok (.varRef lx.lit .Unknown, s') ∧ Look s' r1 ∧ Same s1 s' := by
  have hsig : lx.tok ≠ .BOUNDPARAM ∧ lx.tok ≠ .WS ∧ lx.tok ≠ .COMMENT := by rw [htok]; decide
  have hnp : ¬ lx.tok = .LPAREN := by rw [htok]; decide
  obtain ⟨hn0, hb0, hr0⟩ := hj
  subst hr0
  have hps := pscan_fresh s1 hn0 hb
  refine ⟨{ unsc (unsc { s1 with r := (scan s1.r).2, buf := ((scan s1.r).1 :: s1.buf).take 3 }) with n := 1 }, ?_,
    Or.inr ⟨rfl, by simp [unsc], rfl⟩, ⟨rfl, rfl⟩⟩
  rw [parseUnaryExpr, P.run_bind _ _ _ _ _ h1, P.run_ite, if_neg hnp, P.run_bind _ _ _ _ _ (unscan_run' s1),
    P.run_bind _ _ _ _ _ (scanIW_redeliver s1 lx s1.r ⟨hn0, hb0, rfl⟩ hsig.1 hsig.2.1 hsig.2.2)]
  have hvr := parseVarRef_plain
    (unsc (unsc { s1 with r := (scan s1.r).2, buf := ((scan s1.r).1 :: s1.buf).take 3 })) lx (scan s1.r).1
    (by simp [unsc, hn0]) (by simp [unsc, hb0]) (by simp [unsc]) htok hb hd hcc
  obtain ⟨tok, pos, lit⟩ := lx
  simp only at htok
  subst htok
  show (pscan >>= _).run s1 = _
  rw [P.run_bind _ _ _ _ _ hps, P.run_ite, if_neg hlp, P.run_bind _ _ _ _ _ (unscan_run' _),
    P.run_bind _ _ _ _ _ (unscan_run' _)]
  exact hvr


/-! ## Part 5: an expression as the chain it prints as -/

open Prec

/-- The leftmost operand of the chain. -/
def firstA : Expr → Expr
  | .binary _ l _ => firstA l
  | e => e

/-- The operators of the chain with the operand that follows each, in reading order. -/
def opsOf : Expr → List (Token × Expr)
  | .binary op l r => opsOf l ++ (op, firstA r) :: opsOf r
  | _ => []

/-- What `Expr.print` writes for the operators and following operands of a chain. -/
def printOps : List (Token × Expr) → List Char
  | [] => []
  | p :: rest => ' ' :: (p.1.str ++ ' ' :: (p.2.print ++ printOps rest))

theorem printOps_append (a b : List (Token × Expr)) : printOps (a ++ b) = printOps a ++ printOps b := by
  induction a with
  | nil => rfl
  | cons p a ih => simp [printOps, ih]

theorem print_binary (op : Token) (l r : Expr) :
    (Expr.binary op l r).print = l.print ++ [' '] ++ op.str ++ [' '] ++ r.print := rfl
theorem print_paren (e : Expr) : (Expr.paren e).print = ['('] ++ e.print ++ [')'] := rfl
theorem print_string (v : Str) : (Expr.string v).print = quoteString v := rfl
theorem print_integer (v : Int) : (Expr.integer v).print = intDigits v := rfl
theorem print_varRef (v : Str) (t : DataType) :
    (Expr.varRef v t).print = quoteIdent [v] ++ (if t = .Unknown then [] else [':', ':'] ++ t.str) := rfl
theorem print_call (n : Str) (a : List Expr) :
    (Expr.call n a).print = n ++ ['('] ++ joinWith [',', ' '] (printArgs a) ++ [')'] := rfl

/-- A binary tree prints as its flat chain: nothing in the text tells the grouping. -/
theorem print_chain (e : Expr) : e.print = (firstA e).print ++ printOps (opsOf e) := by
  fun_induction opsOf e with
  | case1 op l r ihl ihr =>
    rw [print_binary, firstA, printOps_append, printOps]
    conv => lhs; rw [ihl, ihr]
    simp [List.append_assoc]
  | case2 e h =>
    cases e <;> first | exact absurd rfl (h _ _ _) | (simp only [firstA, printOps, List.append_nil])

/-- Not a binary node. -/
def NB (e : Expr) : Prop := ∀ op l r, e ≠ .binary op l r

theorem firstA_nb (e : Expr) : NB (firstA e) := by
  fun_induction firstA e with
  | case1 op l r ih => exact ih
  | case2 e h => intro op l r he; exact h op l r he

theorem firstA_of_nb {e : Expr} (h : NB e) : firstA e = e := by
  cases e <;> first | exact absurd rfl (h _ _ _) | rfl

/-- The tree of binary nodes of an expression; everything else is an atom. -/
def toT : Expr → T Expr
  | .binary op l r => .node op (toT l) (toT r)
  | e => .atom e

def embT : T Expr → Expr
  | .atom e => e
  | .node op l r => .binary op (embT l) (embT r)

theorem embT_toT (e : Expr) : embT (toT e) = e := by
  fun_induction toT e with
  | case1 op l r ihl ihr => simp [embT, ihl, ihr]
  | case2 e h => rfl

theorem firstAtom_toT (e : Expr) : firstAtom (toT e) = firstA e := by
  fun_induction toT e with
  | case1 op l r ihl ihr => simp [firstAtom, firstA, ihl]
  | case2 e h => exact (firstA_of_nb (fun op l r he => h op l r he)).symm

theorem yieldOps_toT (e : Expr) : yieldOps (toT e) = opsOf e := by
  fun_induction toT e with
  | case1 op l r ihl ihr => simp [yieldOps, opsOf, ihl, ihr, firstAtom_toT]
  | case2 e h => cases e <;> first | exact absurd rfl (h _ _ _) | rfl

/-- All atoms of the tree are non-binary expressions. -/
def AtomsNB : T Expr → Prop
  | .atom e => NB e
  | .node _ l r => AtomsNB l ∧ AtomsNB r

theorem atomsNB_toT (e : Expr) : AtomsNB (toT e) := by
  fun_induction toT e with
  | case1 op l r ihl ihr => exact ⟨ihl, ihr⟩
  | case2 e h => exact fun op l r he => h op l r he

theorem embT_insertT (t : T Expr) (op : Token) (a : Expr) (h : AtomsNB t) :
    embT (insertT t op a) = insertOp (embT t) op a := by
  induction t with
  | atom x =>
    simp only [insertT, embT]
    cases x <;> first | exact absurd rfl (h _ _ _) | rfl
  | node o l r _ ihr =>
    simp only [insertT, embT, insertOp]
    split
    · rfl
    · simp [embT, ihr h.2]

theorem atomsNB_insertT (t : T Expr) (op : Token) (a : Expr) (h : AtomsNB t) (ha : NB a) :
    AtomsNB (insertT t op a) := by
  induction t with
  | atom x => exact ⟨h, ha⟩
  | node o l r _ ihr =>
    simp only [insertT]
    split
    · exact ⟨h, ha⟩
    · exact ⟨h.1, ihr h.2⟩

theorem embT_foldl (rest : List (Token × Expr)) (t : T Expr) (h : AtomsNB t) (hr : ∀ p ∈ rest, NB p.2) :
    embT (rest.foldl (fun t p => insertT t p.1 p.2) t) = rest.foldl (fun t p => insertOp t p.1 p.2) (embT t) := by
  induction rest generalizing t with
  | nil => rfl
  | cons p rest ih =>
    simp only [List.foldl_cons]
    rw [ih _ (atomsNB_insertT t p.1 p.2 h (hr p (by simp))) (fun q hq => hr q (by simp [hq])),
      embT_insertT t p.1 p.2 h]

theorem opsOf_nb (e : Expr) : ∀ p ∈ opsOf e, NB p.2 := by
  fun_induction opsOf e with
  | case1 op l r ihl ihr =>
    intro p hp
    simp only [List.mem_append, List.mem_cons] at hp
    rcases hp with hp | rfl | hp
    · exact ihl p hp
    · exact firstA_nb r
    · exact ihr p hp
  | case2 e h => intro p hp; cases hp

/-- **Re-parsing on `Expr`.** Feeding the insertion loop of `ParseExpr` with the operators and
operands of a well-grouped expression, in reading order, rebuilds that expression. -/
theorem insertOp_chain (e : Expr) (h : WellGrouped (toT e)) :
    (opsOf e).foldl (fun t p => insertOp t p.1 p.2) (firstA e) = e := by
  have h1 := reparse (toT e) h
  unfold parseChain at h1
  have h2 := embT_foldl (yieldOps (toT e)) (.atom (firstAtom (toT e)))
    (by rw [firstAtom_toT]; exact firstA_nb e) (by rw [yieldOps_toT]; exact opsOf_nb e)
  rw [h1, embT_toT, yieldOps_toT, firstAtom_toT] at h2
  exact h2.symm

end InfluxQL.RT

import InfluxQL.Model.Scanner
/-
Structural facts about the scanner model: every scanning function leaves a
cursor whose remaining stream is a suffix of the one it started from
(nothing is skipped, re-ordered or read twice), keeps `fin`, and `Scan`
makes progress.
-/
namespace InfluxQL
open Gen

/-- `r'` is reachable from `r` by consuming runes: same stream end, remaining stream a suffix. -/
def Cursor.Adv (r r' : Cursor) : Prop := r'.fin = r.fin ∧ r'.rest <:+ r.rest ∧ r.off ≤ r'.off

theorem Cursor.Adv.refl (r : Cursor) : r.Adv r := ⟨rfl, List.suffix_refl _, Nat.le_refl _⟩

theorem Cursor.Adv.trans {a b c : Cursor} (h1 : a.Adv b) (h2 : b.Adv c) : a.Adv c :=
  ⟨h2.1.trans h1.1, h2.2.1.trans h1.2.1, Nat.le_trans h1.2.2 h2.2.2⟩

theorem Cursor.read_adv (r : Cursor) : r.Adv r.read.2 := by
  unfold Cursor.read
  split
  · rename_i h; exact ⟨rfl, by simp [h], by simp⟩
  · rename_i x t h; exact ⟨rfl, by simp [h], by simp⟩

/-- A `read` shortens a non-empty stream by exactly one. -/
theorem Cursor.read_length (r : Cursor) : r.read.2.rest.length = r.rest.length - 1 := by
  unfold Cursor.read
  split <;> rename_i h <;> simp [h]

theorem Cursor.read_off (r : Cursor) : r.read.2.off = r.off + 1 := by
  unfold Cursor.read
  split <;> simp

theorem spanStamped_suffix (p : Char → Bool) (l : List (Char × Pos)) (pv : Char × Pos) (n : Nat) :
    (spanStamped p l pv n).2.1 <:+ l ∧ n ≤ (spanStamped p l pv n).2.2.2 := by
  induction l generalizing pv n with
  | nil => simp [spanStamped]
  | cons x t ih =>
    obtain ⟨c, q⟩ := x
    simp only [spanStamped]
    split
    · have := ih (c, q) (n + 1)
      exact ⟨this.1.trans (List.suffix_cons _ _), Nat.le_trans (Nat.le_succ n) this.2⟩
    · exact ⟨List.suffix_refl _, Nat.le_refl _⟩

theorem Cursor.readWhile_adv (p : Char → Bool) (r : Cursor) : r.Adv (r.readWhile p).2 := by
  have := spanStamped_suffix p r.rest r.prev r.off
  exact ⟨rfl, this.1, this.2⟩

theorem Cursor.eatEof_adv (r : Cursor) : r.Adv r.eatEof := by
  unfold Cursor.eatEof
  split
  · exact r.read_adv
  · exact Cursor.Adv.refl r

theorem scanStringLoop_suffix (ending : Char) (fin : Pos) (l : List (Char × Pos)) (acc : List Char)
    (pv : Char × Pos) (n : Nat) :
    (scanStringLoop ending fin l acc pv n).2.2.1 <:+ l ∧ n < (scanStringLoop ending fin l acc pv n).2.2.2.2 := by
  fun_induction scanStringLoop ending fin l acc pv n
  all_goals (refine ⟨?_, ?_⟩ <;> try dsimp only)
  all_goals first
    | omega
    | exact List.suffix_refl _
    | exact List.nil_suffix
    | exact List.suffix_cons _ _
    | exact (List.suffix_cons _ _).trans (List.suffix_cons _ _)
    | (rename_i ih; first
        | exact ih.1.trans (List.suffix_cons _ _)
        | exact ih.1.trans ((List.suffix_cons _ _).trans (List.suffix_cons _ _)))


theorem skipCommentLoop_suffix (fin : Pos) (l : List (Char × Pos)) (star : Bool) (pv : Char × Pos) (n : Nat) :
    (skipCommentLoop fin l star pv n).2.1 <:+ l ∧ n < (skipCommentLoop fin l star pv n).2.2.2 := by
  fun_induction skipCommentLoop fin l star pv n
  all_goals (refine ⟨?_, ?_⟩ <;> try dsimp only)
  all_goals first
    | omega
    | exact List.suffix_refl _
    | exact List.nil_suffix
    | exact List.suffix_cons _ _
    | (rename_i ih; exact ih.1.trans (List.suffix_cons _ _))

theorem scanRegexLoop_suffix (fin : Pos) (l : List (Char × Pos)) (acc : List Char) (esc : Bool)
    (pv : Char × Pos) (n : Nat) :
    (scanRegexLoop fin l acc esc pv n).2.1 <:+ l ∧ n < (scanRegexLoop fin l acc esc pv n).2.2.2 := by
  fun_induction scanRegexLoop fin l acc esc pv n
  all_goals (refine ⟨?_, ?_⟩ <;> try dsimp only)
  all_goals first
    | omega
    | exact List.suffix_refl _
    | exact List.nil_suffix
    | exact List.suffix_cons _ _
    | (rename_i ih; exact ih.1.trans (List.suffix_cons _ _))

theorem scanStringRaw_adv (r : Cursor) : r.Adv (scanStringRaw r).2.2 := by
  unfold scanStringRaw
  dsimp only
  split
  · exact r.read_adv
  · have h := scanStringLoop_suffix r.read.1.1 r.read.2.fin r.read.2.rest [] r.read.2.prev r.read.2.off
    have hr := r.read_adv
    exact ⟨hr.1, h.1.trans hr.2.1, Nat.le_trans hr.2.2 (Nat.le_of_lt h.2)⟩

theorem scanString_adv (r : Cursor) : r.Adv (scanString r).2 := by
  have h := scanStringRaw_adv r
  unfold scanString
  dsimp only
  split <;> simp_all

theorem scanBareIdent_adv (r : Cursor) : r.Adv (scanBareIdent r).2 :=
  (r.readWhile_adv isIdentChar).trans (Cursor.eatEof_adv _)

theorem scanIdentLoop_adv (pos : Pos) (fuel : Nat) (r : Cursor) (buf : List Char) :
    r.Adv (scanIdentLoop pos fuel r buf).2 := by
  induction fuel generalizing r buf with
  | zero => exact Cursor.Adv.refl r
  | succ fuel ih =>
    simp only [scanIdentLoop]
    split
    · exact r.read_adv
    · split
      · split <;> exact scanString_adv r
      · split
        · exact (scanBareIdent_adv r).trans (ih _ _)
        · exact Cursor.Adv.refl r

theorem scanIdent_adv (lk : Bool) (r : Cursor) : r.Adv (scanIdent lk r).2 := by
  have h := scanIdentLoop_adv (r.read.1).2 (r.rest.length + 2) r []
  unfold scanIdent
  dsimp only
  split
  · simp_all
  · split <;> simp_all

theorem scanNumberPrefix_adv (r : Cursor) : r.Adv (scanNumberPrefix r).2.2 := by
  unfold scanNumberPrefix scanDigits
  have h1 := r.readWhile_adv isDigit
  dsimp only
  split
  · split
    · exact ((h1.trans (Cursor.read_adv _)).trans (Cursor.read_adv _)).trans (Cursor.readWhile_adv _ _)
    · exact h1.trans (Cursor.read_adv _)
  · exact h1

theorem scanNumber_adv (r : Cursor) (pos : Pos) : r.Adv (scanNumber r pos).2 := by
  unfold scanNumber
  have h1 := scanNumberPrefix_adv r
  dsimp only
  split
  · split
    · exact ((h1.trans (Cursor.read_adv _)).trans (Cursor.readWhile_adv _ _)).trans (Cursor.readWhile_adv _ _)
    · exact h1
  · exact h1

theorem skipUntilNewline_adv (r : Cursor) : r.Adv (skipUntilNewline r) :=
  (r.readWhile_adv _).trans (Cursor.read_adv _)

theorem skipUntilEndComment_adv (r : Cursor) : r.Adv (skipUntilEndComment r).2 := by
  have h := skipCommentLoop_suffix r.fin r.rest false r.prev r.off
  exact ⟨rfl, h.1, Nat.le_of_lt h.2⟩

theorem scanWhitespace_adv (c : Char) (pos : Pos) (r : Cursor) : r.Adv (scanWhitespace c pos r).2 :=
  (r.readWhile_adv _).trans (Cursor.eatEof_adv _)

theorem scanRegex_adv (r : Cursor) : r.Adv (scanRegex r).2 := by
  unfold scanRegex
  have hr := r.read_adv
  dsimp only
  split
  · exact hr
  · have h := scanRegexLoop_suffix r.read.2.fin r.read.2.rest [] false r.read.2.prev r.read.2.off
    have : r.Adv { r.read.2 with
        rest := (scanRegexLoop r.read.2.fin r.read.2.rest [] false r.read.2.prev r.read.2.off).2.1,
        prev := (scanRegexLoop r.read.2.fin r.read.2.rest [] false r.read.2.prev r.read.2.off).2.2.1,
        off := (scanRegexLoop r.read.2.fin r.read.2.rest [] false r.read.2.prev r.read.2.off).2.2.2 } :=
      ⟨hr.1, h.1.trans hr.2.1, Nat.le_trans hr.2.2 (Nat.le_of_lt h.2)⟩
    split <;> exact this

theorem scanFrom4_adv (ch0 : Char) (pos : Pos) (r1 : Cursor) : r1.Adv (scanFrom4 ch0 pos r1).2 := by
  unfold scanFrom4
  repeat' split
  all_goals first
    | exact Cursor.Adv.refl _
    | exact Cursor.read_adv _

theorem scanFrom3_adv (ch0 : Char) (pos : Pos) (r1 : Cursor) : r1.Adv (scanFrom3 ch0 pos r1).2 := by
  unfold scanFrom3
  repeat' split
  all_goals first
    | exact Cursor.Adv.refl _
    | exact Cursor.read_adv _
    | exact scanFrom4_adv _ _ _

theorem scanFrom2_adv (ch0 : Char) (pos : Pos) (r1 : Cursor) : r1.Adv (scanFrom2 ch0 pos r1).2 := by
  unfold scanFrom2
  repeat' split
  all_goals first
    | exact Cursor.Adv.refl _
    | exact Cursor.read_adv _
    | exact scanFrom3_adv _ _ _
    | exact (Cursor.read_adv _).trans (skipUntilNewline_adv _)
    | exact (Cursor.read_adv _).trans (skipUntilEndComment_adv _)

theorem scanFrom_adv (ch0 : Char) (pos : Pos) (r r1 : Cursor) (hr : r.Adv r1) :
    r.Adv (scanFrom ch0 pos r r1).2 := by
  unfold scanFrom
  repeat' split
  all_goals first
    | exact hr
    | exact hr.trans (scanWhitespace_adv _ _ _)
    | exact scanIdent_adv _ _
    | exact scanNumber_adv _ _
    | exact scanString_adv _
    | exact hr.trans (scanIdent_adv _ _)
    | exact hr.trans (scanFrom2_adv _ _ _)

theorem scan_adv (r : Cursor) : r.Adv (scan r).2 :=
  scanFrom_adv _ _ r _ r.read_adv

/-! ### Progress -/

theorem Cursor.Adv.length_le {r r' : Cursor} (h : r.Adv r') : r'.rest.length ≤ r.rest.length :=
  h.2.1.length_le

theorem Cursor.read_lt (r : Cursor) (h : r.rest ≠ []) : r.read.2.rest.length < r.rest.length := by
  rw [r.read_length]
  cases hr : r.rest with
  | nil => exact absurd hr h
  | cons _ _ => simp

theorem Cursor.peek_eq_of_nil {r : Cursor} (h : r.rest = []) : r.peek = eofRune := by
  simp [Cursor.peek, h]

theorem isDigit_ne_eof {c : Char} (h : isDigit c = true) : c ≠ eofRune := by
  intro hc; subst hc; revert h; decide

theorem isLetter_ne_eof {c : Char} (h : isLetter c = true) : c ≠ eofRune := by
  intro hc; subst hc; revert h; decide

theorem isIdentChar_ne_eof {c : Char} (h : isIdentChar c = true) : c ≠ eofRune := by
  intro hc; subst hc; revert h; decide

theorem spanStamped_progress (p : Char → Bool) (c : Char) (q : Pos) (t : List (Char × Pos))
    (pv : Char × Pos) (n : Nat) (hp : p c = true) (hc : c ≠ eofRune) :
    (spanStamped p ((c, q) :: t) pv n).2.1 <:+ t := by
  simp only [spanStamped, hp, Bool.true_and, bne_iff_ne, ne_eq, hc, not_false_eq_true, if_true]
  exact (spanStamped_suffix p t (c, q) (n + 1)).1

theorem Cursor.readWhile_progress (p : Char → Bool) (r : Cursor) (hp : p r.peek = true)
    (hc : r.peek ≠ eofRune) : (r.readWhile p).2.rest.length < r.rest.length := by
  cases hr : r.rest with
  | nil => exact absurd (Cursor.peek_eq_of_nil hr) hc
  | cons x t =>
    obtain ⟨c, q⟩ := x
    have hpk : r.peek = c := by simp [Cursor.peek, hr]
    rw [hpk] at hp hc
    have hsuf := (spanStamped_progress p c q t r.prev r.off hp hc).length_le
    have heq : (r.readWhile p).2.rest = (spanStamped p r.rest r.prev r.off).2.1 := rfl
    rw [heq, hr]
    exact Nat.lt_of_le_of_lt hsuf (by simp)

theorem scanString_progress (r : Cursor) (h : r.rest ≠ []) :
    (scanString r).2.rest.length < r.rest.length := by
  have hlt := r.read_lt h
  have : (scanStringRaw r).2.2.rest.length ≤ r.read.2.rest.length := by
    unfold scanStringRaw
    dsimp only
    split
    · exact Nat.le_refl _
    · exact (scanStringLoop_suffix r.read.1.1 r.read.2.fin r.read.2.rest [] r.read.2.prev r.read.2.off).1.length_le
  have h2 : (scanString r).2 = (scanStringRaw r).2.2 := by
    unfold scanString
    dsimp only
    split <;> simp_all
  rw [h2]; omega

theorem scanIdentLoop_progress (pos : Pos) (fuel : Nat) (r : Cursor) (buf : List Char) (h : r.rest ≠ [])
    (hc : isIdentChar r.peek = true ∨ r.peek = '"' ∨ r.peek = eofRune) :
    (scanIdentLoop pos (fuel + 1) r buf).2.rest.length < r.rest.length := by
  simp only [scanIdentLoop]
  split
  · exact r.read_lt h
  · rename_i hne
    split
    · split <;> exact scanString_progress r h
    · rename_i hnq
      split
      · rename_i hid
        have h1 : (scanBareIdent r).2.rest.length < r.rest.length := by
          have := r.readWhile_progress isIdentChar hid hne
          have h2 := (Cursor.eatEof_adv (r.readWhile isIdentChar).2).length_le
          exact Nat.lt_of_le_of_lt h2 this
        exact Nat.lt_of_le_of_lt (scanIdentLoop_adv _ _ _ _).length_le h1
      · rename_i hnid
        rcases hc with hc | hc | hc
        · exact absurd hc hnid
        · exact absurd hc hnq
        · exact absurd hc hne

theorem scanIdent_progress (lk : Bool) (r : Cursor) (h : r.rest ≠ [])
    (hc : isIdentChar r.peek = true ∨ r.peek = '"' ∨ r.peek = eofRune) :
    (scanIdent lk r).2.rest.length < r.rest.length := by
  have key := scanIdentLoop_progress (r.read.1).2 (r.rest.length + 1) r [] h hc
  unfold scanIdent
  dsimp only
  split
  · simp_all
  · split <;> simp_all

theorem scanNumber_progress (r : Cursor) (pos : Pos) (hc : isDigit r.peek = true ∨ r.peek = '.') :
    (scanNumber r pos).2.rest.length < r.rest.length := by
  have hpre : (scanNumberPrefix r).2.2.rest.length < r.rest.length := by
    unfold scanNumberPrefix scanDigits
    dsimp only
    rcases hc with hc | hc
    · have h1 := r.readWhile_progress isDigit hc (isDigit_ne_eof hc)
      split
      · split
        · exact Nat.lt_of_le_of_lt (((Cursor.read_adv _).trans (Cursor.read_adv _)).trans
            (Cursor.readWhile_adv _ _)).length_le h1
        · exact Nat.lt_of_le_of_lt (Cursor.read_adv _).length_le h1
      · exact h1
    · have hne : r.rest ≠ [] := by
        intro hnil
        rw [Cursor.peek_eq_of_nil hnil] at hc
        revert hc; decide
      have hnd : isDigit r.peek = false := by rw [hc]; decide
      have hrw : (r.readWhile isDigit).2 = r := by
        cases hr : r.rest with
        | nil => exact absurd hr hne
        | cons x t =>
          obtain ⟨c, q⟩ := x
          have hpk : r.peek = c := by simp [Cursor.peek, hr]
          rw [hpk] at hnd
          simp [Cursor.readWhile, hr, spanStamped, hnd]
          cases r; simp_all
      rw [hrw]
      simp only [hc, if_true]
      split
      · exact Nat.lt_of_le_of_lt (((Cursor.read_adv _)).trans (Cursor.readWhile_adv _ _)).length_le (r.read_lt hne)
      · exact r.read_lt hne
  have hadv : (scanNumber r pos).2.rest.length ≤ (scanNumberPrefix r).2.2.rest.length := by
    unfold scanNumber
    dsimp only
    split
    · split
      · exact (((Cursor.read_adv _).trans (Cursor.readWhile_adv _ _)).trans (Cursor.readWhile_adv _ _)).length_le
      · exact Nat.le_refl _
    · exact Nat.le_refl _
  omega

theorem Cursor.read_fst_eq_peek (r : Cursor) : r.read.1.1 = r.peek := by
  unfold Cursor.read Cursor.peek
  split <;> rename_i h <;> simp [h]

theorem isIdentChar_of_letter_or_underscore {c : Char} (h : (isLetter c || c == '_') = true) :
    isIdentChar c = true := by
  simp only [Bool.or_eq_true, beq_iff_eq] at h
  unfold isIdentChar
  rcases h with h | h
  · simp [h]
  · subst h; decide

theorem scanFrom_progress (ch0 : Char) (pos : Pos) (r r1 : Cursor) (hch : ch0 = r.peek)
    (hne : r.rest ≠ []) (hr1 : r1.rest.length < r.rest.length) :
    (scanFrom ch0 pos r r1).2.rest.length < r.rest.length := by
  unfold scanFrom
  by_cases h1 : isWhitespace ch0 = true
  · rw [if_pos h1]; exact Nat.lt_of_le_of_lt (scanWhitespace_adv _ _ _).length_le hr1
  rw [if_neg h1]
  by_cases h2 : (isLetter ch0 || ch0 == '_') = true
  · rw [if_pos h2]
    have := isIdentChar_of_letter_or_underscore h2
    rw [hch] at this
    exact scanIdent_progress true r hne (Or.inl this)
  rw [if_neg h2]
  by_cases h3 : isDigit ch0 = true
  · rw [if_pos h3]; rw [hch] at h3; exact scanNumber_progress r pos (Or.inl h3)
  rw [if_neg h3]
  by_cases h4 : ch0 = eofRune
  · rw [if_pos h4]; exact hr1
  rw [if_neg h4]
  by_cases h5 : ch0 = '"'
  · rw [if_pos h5]; rw [hch] at h5; exact scanIdent_progress true r hne (Or.inr (Or.inl h5))
  rw [if_neg h5]
  by_cases h6 : ch0 = '\''
  · rw [if_pos h6]; exact scanString_progress r hne
  rw [if_neg h6]
  by_cases h7 : ch0 = '.'
  · rw [if_pos h7]
    split
    · rw [hch] at h7; exact scanNumber_progress r pos (Or.inr h7)
    · exact hr1
  rw [if_neg h7]
  by_cases h8 : ch0 = '$'
  · rw [if_pos h8]
    split <;> exact Nat.lt_of_le_of_lt (scanIdent_adv _ _).length_le hr1
  rw [if_neg h8]
  exact Nat.lt_of_le_of_lt (scanFrom2_adv _ _ _).length_le hr1

theorem scan_progress (r : Cursor) (hne : r.rest ≠ []) : (scan r).2.rest.length < r.rest.length :=
  scanFrom_progress _ _ r _ r.read_fst_eq_peek hne (r.read_lt hne)

/-- At the end of the stream `Scan` returns EOF. -/
theorem scan_at_end (r : Cursor) (h : r.rest = []) : (scan r).1.tok = .EOF := by
  have h1 : r.read.1.1 = eofRune := by rw [r.read_fst_eq_peek]; exact Cursor.peek_eq_of_nil h
  unfold scan scanFrom
  rw [h1]
  have : isWhitespace eofRune = false := by decide
  have : (isLetter eofRune || eofRune == '_') = false := by decide
  have : isDigit eofRune = false := by decide
  simp [*]

end InfluxQL

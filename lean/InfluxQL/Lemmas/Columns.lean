import InfluxQL.Model.Columns
import InfluxQL.Lemmas.Digits
/-! Lemmas about the `ColumnNames` model (C20): the name map, the suffix loop (termination by
pigeonhole over the injective candidates `name_k`), and the invariant of the naming loop. -/
namespace InfluxQL

namespace NameMap

theorem keys_nil : keys [] = [] := rfl
theorem keys_cons (p : Str × Nat) (m : NameMap) : keys (p :: m) = p.1 :: keys m := rfl
theorem keys_length (m : NameMap) : m.keys.length = m.length := by simp [keys]

theorem get?_isSome_iff (m : NameMap) (k : Str) : (m.get? k).isSome = true ↔ k ∈ m.keys := by
  induction m with
  | nil => simp [get?, keys_nil]
  | cons p rest ih =>
    obtain ⟨k', v⟩ := p
    rw [keys_cons, List.mem_cons]
    by_cases h : k' = k
    · simp [get?, h]
    · have h' : ¬ k = k' := fun e => h e.symm
      simp only [get?, if_neg h, ih, h', false_or]

theorem has_iff (m : NameMap) (k : Str) : m.has k = true ↔ k ∈ m.keys := get?_isSome_iff m k

theorem has_false_iff (m : NameMap) (k : Str) : m.has k = false ↔ k ∉ m.keys := by
  rw [← has_iff]; cases m.has k <;> simp

theorem get?_none_iff (m : NameMap) (k : Str) : m.get? k = none ↔ k ∉ m.keys := by
  rw [← get?_isSome_iff]; cases m.get? k <;> simp

theorem mem_keys_set (m : NameMap) (k : Str) (v : Nat) (x : Str) :
    x ∈ (m.set k v).keys ↔ x = k ∨ x ∈ m.keys := by
  induction m with
  | nil => simp [set, keys_cons, keys_nil]
  | cons p rest ih =>
    obtain ⟨k', v'⟩ := p
    by_cases h : k' = k
    · subst h; simp [set, keys_cons]
    · simp only [set, if_neg h, keys_cons, List.mem_cons, ih]
      constructor
      · rintro (h1 | h1 | h1) <;> simp [h1]
      · rintro (h1 | h1 | h1) <;> simp [h1]

theorem mem_keys_incr (m : NameMap) (k x : Str) : x ∈ (m.incr k).keys ↔ x = k ∨ x ∈ m.keys :=
  mem_keys_set m k _ x

end NameMap

/-! ## The suffix loop -/

theorem natDigits_injective {a b : Nat} (h : natDigits a = natDigits b) : a = b := by
  have := congrArg digitsVal h
  rwa [digitsVal_natDigits, digitsVal_natDigits] at this

/-- Decimal printing is injective, hence so is `k ↦ name_k`. -/
theorem suffixed_injective {name : Str} {a b : Nat} (h : suffixed name a = suffixed name b) : a = b := by
  unfold suffixed at h
  have h1 := List.append_cancel_left h
  exact natDigits_injective (List.cons.inj h1).2

theorem suffixed_ne_self (name : Str) (k : Nat) : suffixed name k ≠ name := by
  intro h
  have := congrArg List.length h
  simp [suffixed] at this

theorem suffixLoop_some {names : NameMap} {name : Str} {fuel count c : Nat} {r : Str}
    (h : suffixLoop names name fuel count = some (c, r)) :
    r = suffixed name c ∧ count ≤ c ∧ r ∉ names.keys := by
  induction fuel generalizing count with
  | zero => simp [suffixLoop] at h
  | succ fuel ih =>
    unfold suffixLoop at h
    by_cases hh : names.has (suffixed name count) = true
    · rw [if_pos hh] at h
      obtain ⟨h1, h2, h3⟩ := ih h
      exact ⟨h1, Nat.le_of_succ_le h2, h3⟩
    · rw [if_neg hh] at h
      simp only [Option.some.injEq, Prod.mk.injEq] at h
      obtain ⟨rfl, rfl⟩ := h
      refine ⟨rfl, Nat.le_refl _, ?_⟩
      rw [← NameMap.has_iff]; exact hh

theorem suffixLoop_none {names : NameMap} {name : Str} {fuel count : Nat}
    (h : suffixLoop names name fuel count = none) :
    ∀ i, i < fuel → suffixed name (count + i) ∈ names.keys := by
  induction fuel generalizing count with
  | zero => intro i hi; omega
  | succ fuel ih =>
    unfold suffixLoop at h
    by_cases hh : names.has (suffixed name count) = true
    · rw [if_pos hh] at h
      intro i hi
      cases i with
      | zero => simpa using (NameMap.has_iff _ _).1 hh
      | succ j =>
        have := ih h j (by omega)
        have e : count + (j + 1) = count + 1 + j := by omega
        rw [e]; exact this
    · rw [if_neg hh] at h; simp at h

/-- **Termination of the suffix loop.** With fuel `len(names) + 1` the loop always finds a free
candidate: the candidates `name_count, name_{count+1}, …` are pairwise different (decimal printing
is injective), so `len(names) + 1` of them cannot all be keys of a map with `len(names)` keys. -/
theorem suffixLoop_terminates (names : NameMap) (name : Str) (count : Nat) :
    ∃ c, suffixLoop names name (suffixFuel names) count = some (c, suffixed name c) := by
  cases h : suffixLoop names name (suffixFuel names) count with
  | some p =>
    obtain ⟨c, r⟩ := p
    obtain ⟨rfl, _, _⟩ := suffixLoop_some h
    exact ⟨c, rfl⟩
  | none =>
    exfalso
    have hall := suffixLoop_none h
    let xs := (List.range (suffixFuel names)).map (fun i => suffixed name (count + i))
    have hnd : xs.Nodup := by
      show List.Pairwise (· ≠ ·) _
      rw [List.pairwise_map]
      refine List.Pairwise.imp ?_ (List.nodup_range (n := suffixFuel names))
      intro a b hab e
      exact hab (by have := suffixed_injective e; omega)
    have hsub : xs ⊆ names.keys := by
      intro x hx
      obtain ⟨i, hi, rfl⟩ := List.mem_map.1 hx
      exact hall i (List.mem_range.1 hi)
    have := hnd.length_le_of_subset hsub
    simp [xs, suffixFuel, NameMap.keys_length] at this
    omega

/-! ## `resolveName` -/

theorem resolveName_total (names : NameMap) (name : Str) : ∃ r, resolveName names name = some r := by
  unfold resolveName
  cases names.get? name with
  | none => exact ⟨_, rfl⟩
  | some count =>
    obtain ⟨c, hc⟩ := suffixLoop_terminates names name count
    simp only [hc]
    exact ⟨_, rfl⟩

/-- What one step of the naming loop guarantees: the chosen name was not a key before, is a key
afterwards, no key is lost, and the name is the base name or the base name with a numeric suffix
(only when the base name was taken). -/
theorem resolveName_spec {names names' : NameMap} {name n : Str}
    (h : resolveName names name = some (names', n)) :
    n ∉ names.keys ∧ n ∈ names'.keys ∧ (∀ k, k ∈ names.keys → k ∈ names'.keys) ∧
      ((n = name ∧ name ∉ names.keys) ∨ (∃ k, n = suffixed name k) ∧ name ∈ names.keys) := by
  unfold resolveName at h
  cases hg : names.get? name with
  | none =>
    rw [hg] at h
    simp only [Option.some.injEq, Prod.mk.injEq] at h
    obtain ⟨rfl, rfl⟩ := h
    have hn := (NameMap.get?_none_iff _ _).1 hg
    refine ⟨hn, ?_, ?_, Or.inl ⟨rfl, hn⟩⟩
    · rw [NameMap.mem_keys_incr]; exact Or.inl rfl
    · intro k hk; rw [NameMap.mem_keys_incr]; exact Or.inr hk
  | some count =>
    rw [hg] at h
    dsimp only at h
    have hin : name ∈ names.keys := by
      rw [← NameMap.get?_isSome_iff, hg]; rfl
    cases hs : suffixLoop names name (suffixFuel names) count with
    | none => rw [hs] at h; simp at h
    | some p =>
      obtain ⟨c, r⟩ := p
      rw [hs] at h
      simp only [Option.some.injEq, Prod.mk.injEq] at h
      obtain ⟨rfl, rfl⟩ := h
      obtain ⟨hr, _, hfree⟩ := suffixLoop_some hs
      refine ⟨hfree, ?_, ?_, Or.inr ⟨⟨c, hr⟩, hin⟩⟩
      · rw [NameMap.mem_keys_incr]; exact Or.inl rfl
      · intro k hk
        rw [NameMap.mem_keys_incr, NameMap.mem_keys_set]; exact Or.inr (Or.inr hk)

/-! ## The alias pass -/

/-- The explicit (non-empty) aliases of a column list, in order. -/
def aliasesOf (cols : List Field) : List Str := (cols.map (·.alias)).filter (fun a => decide (a ≠ []))

theorem aliasesOf_nil : aliasesOf [] = [] := rfl

theorem aliasesOf_cons_pos {c : Field} (cs : List Field) (h : c.alias ≠ []) :
    aliasesOf (c :: cs) = c.alias :: aliasesOf cs := by
  simp [aliasesOf, h]

theorem aliasesOf_cons_neg {c : Field} (cs : List Field) (h : ¬ c.alias ≠ []) :
    aliasesOf (c :: cs) = aliasesOf cs := by
  have : c.alias = [] := Classical.not_not.1 h
  simp [aliasesOf, this]

theorem aliasPass_keys (m : NameMap) (cols : List Field) :
    (∀ k, k ∈ m.keys → k ∈ (aliasPass m cols).keys) ∧
    (∀ a, a ∈ aliasesOf cols → a ∈ (aliasPass m cols).keys) := by
  induction cols generalizing m with
  | nil => exact ⟨fun _ h => h, fun a h => by simp [aliasesOf_nil] at h⟩
  | cons c cs ih =>
    unfold aliasPass
    by_cases h : c.alias ≠ []
    · rw [if_pos h, aliasesOf_cons_pos cs h]
      obtain ⟨ih1, ih2⟩ := ih (m.set c.alias 1)
      refine ⟨fun k hk => ih1 k ((NameMap.mem_keys_set ..).2 (Or.inr hk)), ?_⟩
      intro a ha
      rcases List.mem_cons.1 ha with rfl | ha
      · exact ih1 _ ((NameMap.mem_keys_set ..).2 (Or.inl rfl))
      · exact ih2 a ha
    · rw [if_neg h, aliasesOf_cons_neg cs h]
      exact ih m

/-! ## The naming loop -/

/-- The name a column may receive: its alias verbatim, or (no alias) its base name, possibly with a
numeric suffix. -/
def NamedFor (c : Field) (n : Str) : Prop :=
  if c.alias ≠ [] then n = c.alias else (n = c.name ∨ ∃ k, n = suffixed c.name k)

theorem nameLoop_total (cols : List Field) : ∀ names, ∃ out, nameLoop names cols = some out := by
  induction cols with
  | nil => intro _; exact ⟨[], rfl⟩
  | cons c cs ih =>
    intro names
    unfold nameLoop
    by_cases h : c.alias ≠ []
    · rw [if_pos h]
      obtain ⟨out, ho⟩ := ih names
      exact ⟨c.alias :: out, by simp [ho]⟩
    · rw [if_neg h]
      obtain ⟨⟨names', n⟩, hr⟩ := resolveName_total names c.name
      obtain ⟨out, ho⟩ := ih names'
      exact ⟨n :: out, by simp [hr, ho]⟩

/-- One name per column, in order, each of the permitted form. -/
theorem nameLoop_shape (cols : List Field) : ∀ names out, nameLoop names cols = some out →
    out.length = cols.length ∧ ∀ p, p ∈ cols.zip out → NamedFor p.1 p.2 := by
  induction cols with
  | nil =>
    intro names out h
    simp only [nameLoop, Option.some.injEq] at h
    subst h; simp
  | cons c cs ih =>
    intro names out h
    unfold nameLoop at h
    by_cases ha : c.alias ≠ []
    · rw [if_pos ha] at h
      cases ho : nameLoop names cs with
      | none => rw [ho] at h; simp at h
      | some out' =>
        rw [ho] at h
        simp only [Option.map_some, Option.some.injEq] at h
        subst h
        obtain ⟨h1, h2⟩ := ih names out' ho
        refine ⟨by simp [h1], ?_⟩
        intro p hp
        rw [List.zip_cons_cons, List.mem_cons] at hp
        rcases hp with rfl | hp
        · simp [NamedFor, ha]
        · exact h2 p hp
    · rw [if_neg ha] at h
      cases hr : resolveName names c.name with
      | none => rw [hr] at h; simp at h
      | some q =>
        obtain ⟨names', n⟩ := q
        rw [hr] at h
        simp only at h
        cases ho : nameLoop names' cs with
        | none => rw [ho] at h; simp at h
        | some out' =>
          rw [ho] at h
          simp only [Option.map_some, Option.some.injEq] at h
          subst h
          obtain ⟨h1, h2⟩ := ih names' out' ho
          refine ⟨by simp [h1], ?_⟩
          intro p hp
          rw [List.zip_cons_cons, List.mem_cons] at hp
          rcases hp with rfl | hp
          · obtain ⟨_, _, _, h4⟩ := resolveName_spec hr
            simp only [NamedFor, if_neg ha]
            rcases h4 with ⟨h4, _⟩ | ⟨h4, _⟩
            · exact Or.inl h4
            · exact Or.inr h4
          · exact h2 p hp

/-- Invariant of the naming loop (DESIGN A8): if every explicit alias is already a key and the
aliases are pairwise distinct, the produced names are pairwise distinct, and each of them is an
alias of the remaining columns or was not a key when the loop started. -/
theorem nameLoop_distinct (cols : List Field) : ∀ names out, nameLoop names cols = some out →
    (∀ a, a ∈ aliasesOf cols → a ∈ names.keys) → (aliasesOf cols).Pairwise (· ≠ ·) →
    out.Pairwise (· ≠ ·) ∧ ∀ x, x ∈ out → x ∈ aliasesOf cols ∨ x ∉ names.keys := by
  induction cols with
  | nil =>
    intro names out h _ _
    simp only [nameLoop, Option.some.injEq] at h
    subst h; simp
  | cons c cs ih =>
    intro names out h hk hp
    unfold nameLoop at h
    by_cases ha : c.alias ≠ []
    · rw [if_pos ha] at h
      rw [aliasesOf_cons_pos cs ha] at hk hp
      cases ho : nameLoop names cs with
      | none => rw [ho] at h; simp at h
      | some out' =>
        rw [ho] at h
        simp only [Option.map_some, Option.some.injEq] at h
        subst h
        rw [List.pairwise_cons] at hp
        obtain ⟨ih1, ih2⟩ := ih names out' ho (fun a h => hk a (List.mem_cons_of_mem _ h)) hp.2
        refine ⟨List.pairwise_cons.2 ⟨?_, ih1⟩, ?_⟩
        · intro x hx
          rcases ih2 x hx with h' | h'
          · exact hp.1 x h'
          · intro e; subst e; exact h' (hk _ (List.mem_cons_self))
        · intro x hx
          rw [aliasesOf_cons_pos cs ha]
          rcases List.mem_cons.1 hx with rfl | hx
          · exact Or.inl (List.mem_cons_self)
          · rcases ih2 x hx with h' | h'
            · exact Or.inl (List.mem_cons_of_mem _ h')
            · exact Or.inr h'
    · rw [if_neg ha] at h
      rw [aliasesOf_cons_neg cs ha] at hk hp
      cases hr : resolveName names c.name with
      | none => rw [hr] at h; simp at h
      | some q =>
        obtain ⟨names', n⟩ := q
        rw [hr] at h
        simp only at h
        cases ho : nameLoop names' cs with
        | none => rw [ho] at h; simp at h
        | some out' =>
          rw [ho] at h
          simp only [Option.map_some, Option.some.injEq] at h
          subst h
          obtain ⟨hfree, hin, hmono, _⟩ := resolveName_spec hr
          obtain ⟨ih1, ih2⟩ := ih names' out' ho (fun a h => hmono a (hk a h)) hp
          refine ⟨List.pairwise_cons.2 ⟨?_, ih1⟩, ?_⟩
          · intro x hx e
            subst e
            rcases ih2 _ hx with h' | h'
            · exact hfree (hk _ h')
            · exact h' hin
          · intro x hx
            rw [aliasesOf_cons_neg cs ha]
            rcases List.mem_cons.1 hx with rfl | hx
            · exact Or.inr hfree
            · rcases ih2 x hx with h' | h'
              · exact Or.inl h'
              · exact Or.inr (fun hx' => h' (hmono x hx'))

/-! ## The column list -/

theorem zip_index {α β : Type} (xs : List α) (ys : List β) (i : Nat) (h1 : i < xs.length)
    (h2 : i < ys.length) : (xs[i], ys[i]) ∈ xs.zip ys := by
  refine List.mem_iff_getElem.2 ⟨i, by simp [List.length_zip]; omega, ?_⟩
  simp [List.getElem_zip]


theorem extraColumns_alias (t : Bool) (f c : Field) (h : c ∈ extraColumns t f) : c.alias = [] := by
  unfold extraColumns at h
  split at h
  · split at h
    · unfold tagColumns at h
      obtain ⟨a, _, ha⟩ := List.mem_filterMap.1 h
      unfold refColumn at ha
      split at ha
      · simp only [Option.some.injEq] at ha; subst ha; rfl
      · simp at ha
    · simp at h
  · simp at h

theorem aliasesOf_append (xs ys : List Field) : aliasesOf (xs ++ ys) = aliasesOf xs ++ aliasesOf ys := by
  simp [aliasesOf]

theorem aliasesOf_eq_nil (xs : List Field) (h : ∀ c, c ∈ xs → c.alias = []) : aliasesOf xs = [] := by
  induction xs with
  | nil => rfl
  | cons c cs ih =>
    rw [aliasesOf_cons_neg cs (by simp [h c List.mem_cons_self])]
    exact ih (fun c hc => h c (List.mem_cons_of_mem _ hc))

/-- The tag columns carry no alias: the explicit aliases of the column list are those of the fields. -/
theorem aliasesOf_columnFields (t : Bool) (fields : List Field) :
    aliasesOf (columnFields t fields) = aliasesOf fields := by
  induction fields with
  | nil => rfl
  | cons f fs ih =>
    have hx : aliasesOf (extraColumns t f) = [] := aliasesOf_eq_nil _ (extraColumns_alias t f)
    unfold columnFields
    by_cases ha : f.alias ≠ []
    · rw [aliasesOf_cons_pos _ ha, aliasesOf_cons_pos _ ha, aliasesOf_append, hx, ih]; rfl
    · rw [aliasesOf_cons_neg _ ha, aliasesOf_cons_neg _ ha, aliasesOf_append, hx, ih]; rfl

end InfluxQL

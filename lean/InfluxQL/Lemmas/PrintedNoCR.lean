import InfluxQL.Lemmas.PrintedFamiliesT
/-
CR-freeness of the printed text from the class predicates (C16 item 3).

`QStmtT.OK tbl` is an *interface*: for `QStmtT.expr x` / `QStmtT.wide N x` it says that the handler reads the
body back in front of any `K` — it is stated for an arbitrary `PrintedStmt` and therefore cannot, by itself,
say anything about the characters of the printed text. The decidable *class predicates* behind the
instantiated families (`DeleteLikeOK`, `ShowOK`, `C02.SimpleSelect`, `C02.IntoSelect`, `selOKB tbl n`, `CQOK`,
`Printed.WF`) can: names and strings are `Expressible` (no NUL, no CR), keywords and punctuation contain no CR,
expressions by `RT.print_noCR` / `RT.printW_noCR`, the SELECT body clause by clause, subqueries by induction
on the depth index of `selOKB`.

`QFam` is the sum of the instantiated families with their class predicates (`QFam.OK tbl`), `QFam.toT` the
`QStmtT` it stands for, `QFam.toT_ok : q.OK tbl → q.toT.OK tbl`, and **`QFam.noCR : q.OK tbl → NoCR q.stmt.print`**.
-/
namespace InfluxQL.PrintedQuery
open InfluxQL Gen Render C01 RenderQuery RenderPrinted

/-! ## small pieces -/

theorem noCR_cons {c : Char} {l : Str} (hc : c ≠ '\r') (h : NoCR l) : NoCR (c :: l) := by
  intro x hx
  rcases List.mem_cons.mp hx with rfl | h'
  · exact hc
  · exact h x h'

theorem noCR_of_rt {l : Str} (h : RT.NoCR l) : NoCR l := h

instance (l : Str) : Decidable (NoCR l) := by unfold NoCR; exact inferInstance

theorem noCR_qi' (name : Str) (h : Expressible name) : NoCR (qi name) := noCR_qi name h

theorem noCR_posText (t : Token) (v : Int) (ht : t.isKw = true) : NoCR (posText t v) := by
  unfold posText
  split
  · exact noCR_cons (by decide) ((noCR_kw t ht).append (noCR_cons (by decide) (noCR_digits _)))
  · exact noCR_nil

theorem noCR_whereText (c : Option Expr) (h : ∀ e, c = some e → NoCR e.print) : NoCR (whereText c) := by
  cases c with
  | none => exact noCR_nil
  | some e =>
    exact noCR_cons (by decide) ((noCR_kw .WHERE (by decide +kernel)).append (noCR_cons (by decide) (h e rfl)))

theorem noCR_cond {c : Option Expr} (h : CondOK c) : ∀ e, c = some e → NoCR e.print :=
  fun e he => noCR_of_rt (RT.print_noCR e (h e he))

theorem noCR_condW {tbl : List (Char × Char)} {c : Option Expr} (h : CondOKW tbl c) :
    ∀ e, c = some e → NoCR e.print :=
  fun e he => noCR_of_rt (RT.printW_noCR e (h e he))

theorem noCR_moreNames (names : List Str) (h : ∀ m ∈ names, Expressible m) : NoCR (moreNames names) := by
  induction names with
  | nil => exact noCR_nil
  | cons n rest ih =>
    exact noCR_cons (by decide) (noCR_cons (by decide) ((noCR_qi n (h n (by simp))).append
      (ih (fun m hm => h m (by simp [hm])))))

theorem noCR_fromText (names : List Str) (h : ∀ m ∈ names, Expressible m) : NoCR (fromText names) := by
  cases names with
  | nil => exact noCR_nil
  | cons n rest =>
    exact noCR_cons (by decide) ((noCR_kw .FROM (by decide +kernel)).append (noCR_cons (by decide)
      ((noCR_qi n (h n (by simp))).append (noCR_moreNames rest (fun m hm => h m (by simp [hm]))))))

theorem noCR_onDbText (db : Str) (h : Expressible db) : NoCR (onDbText db) := by
  unfold onDbText
  split
  · exact noCR_cons (by decide) ((noCR_kw .ON (by decide +kernel)).append (noCR_cons (by decide) (noCR_qi db h)))
  · exact noCR_nil

theorem noCR_deleteLikeText (names : List Str) (c : Option Expr) (h : DeleteLikeOK names c) :
    NoCR (C02.deleteLikeText names c) :=
  (noCR_fromText names (fun m hm => (h.1 m hm).1)).append (noCR_whereText c (noCR_cond h.2.1))

theorem noCR_showText (db : Str) (names : List Str) (c : Option Expr) (l o : Int) (h : ShowOK db names c l o) :
    NoCR (C02.showText db names c l o) :=
  (noCR_onDbText db h.1).append ((noCR_fromText names (fun m hm => (h.2.1 m hm).1)).append
    ((noCR_whereText c (noCR_cond h.2.2.1)).append
      ((noCR_posText .LIMIT l (by decide +kernel)).append (noCR_posText .OFFSET o (by decide +kernel)))))

/-! ## fields -/

theorem noCR_aliasText (a : Str) (h : Expressible a) : NoCR (aliasText a) := by
  unfold aliasText
  split
  · exact noCR_nil
  · exact noCR_cons (by decide) ((noCR_kw .AS (by decide +kernel)).append (noCR_cons (by decide) (noCR_qi a h)))

theorem noCR_field (f : Field) (he : NoCR f.expr.print) (ha : Expressible f.alias) : NoCR f.print := by
  rw [field_print_eq]
  exact he.append (noCR_aliasText _ ha)

theorem noCR_moreFields (fs : List Field) (h : ∀ g ∈ fs, NoCR g.print) : NoCR (moreFields fs) := by
  induction fs with
  | nil => exact noCR_nil
  | cons f rest ih =>
    exact noCR_cons (by decide) (noCR_cons (by decide) ((h f (by simp)).append
      (ih (fun g hg => h g (by simp [hg])))))

theorem noCR_fieldOK {f : Field} (h : FieldOK f) : NoCR f.print :=
  noCR_field f (noCR_of_rt (RT.print_noCR _ h.1)) h.2.2

theorem noCR_fieldOKW {tbl : List (Char × Char)} {f : Field} (h : FieldOKW tbl f) : NoCR f.print :=
  noCR_field f (noCR_of_rt (RT.printW_noCR _ h.1)) h.2.2

/-! ## measurements -/

theorem noCR_if {p : Prop} [Decidable p] {a b : Str} (ha : NoCR a) (hb : NoCR b) : NoCR (if p then a else b) := by
  split
  · exact ha
  · exact hb

theorem noCR_dot : NoCR ['.'] := noCR_cons (by decide) noCR_nil

theorem noCR_qualM (q : Str × Str × Str) (h : QualOK q) : NoCR (qualM q).print := by
  obtain ⟨h1, h2, h3, h4⟩ := h
  unfold Measurement.print
  have hname : (qualM q).name ≠ [] ∧ (qualM q).systemIterator = [] := ⟨h4, rfl⟩
  rw [if_pos hname]
  exact (((noCR_if ((noCR_qi _ h1).append noCR_dot) noCR_nil).append (noCR_if (noCR_qi _ h2) noCR_nil)).append
    (noCR_if noCR_dot noCR_nil)).append (noCR_qi _ h3)

theorem noCR_targetText (tgt : Option (Str × Str × Str)) (h : ∀ t, tgt = some t → QualOK t) :
    NoCR (targetText tgt) := by
  cases tgt with
  | none => exact noCR_nil
  | some q =>
    show NoCR (' ' :: (tx "INTO " ++ (qualM q).print ++ (if (qualM q).name = [] then tx ":MEASUREMENT" else [])))
    have e1 : NoCR (tx "INTO ") := by decide +kernel
    have e2 : NoCR (tx ":MEASUREMENT") := by decide +kernel
    exact noCR_cons (by decide) ((e1.append (noCR_qualM q (h q rfl))).append (noCR_if e2 noCR_nil))

theorem noCR_moreQuals (qs : List (Str × Str × Str)) (h : ∀ m ∈ qs, QualOK m) : NoCR (moreQuals qs) := by
  induction qs with
  | nil => exact noCR_nil
  | cons q rest ih =>
    exact noCR_cons (by decide) (noCR_cons (by decide) ((noCR_qualM q (h q (by simp))).append
      (ih (fun m hm => h m (by simp [hm])))))

theorem noCR_fromQualText (q : Str × Str × Str) (qs : List (Str × Str × Str)) (h : ∀ m ∈ q :: qs, QualOK m) :
    NoCR (fromQualText q qs) :=
  noCR_cons (by decide) ((noCR_kw .FROM (by decide +kernel)).append (noCR_cons (by decide)
    ((noCR_qualM q (h q (by simp))).append (noCR_moreQuals qs (fun m hm => h m (by simp [hm]))))))

/-! ## SELECT in the value classes -/

theorem noCR_selectText (f : Field) (fs : List Field) (n : Str) (names : List Str) (c : Option Expr) (l o sl so : Int)
    (h : C02.SimpleSelect f fs n names c l o sl so) : NoCR (C02.selectText f fs n names c l o sl so) := by
  obtain ⟨hf, hn, hc, _⟩ := h
  exact noCR_cons (by decide) ((noCR_fieldOK (hf f (by simp))).append
    ((noCR_moreFields fs (fun g hg => noCR_fieldOK (hf g (by simp [hg])))).append
    ((noCR_fromText (n :: names) (fun m hm => (hn m hm).1)).append
    ((noCR_whereText c (noCR_cond hc)).append
    ((noCR_posText .LIMIT l (by decide +kernel)).append
    ((noCR_posText .OFFSET o (by decide +kernel)).append
    ((noCR_posText .SLIMIT sl (by decide +kernel)).append (noCR_posText .SOFFSET so (by decide +kernel)))))))))

theorem noCR_selectIntoText (f : Field) (fs : List Field) (tgt : Option (Str × Str × Str)) (q : Str × Str × Str)
    (qs : List (Str × Str × Str)) (c : Option Expr) (l o sl so : Int)
    (h : C02.IntoSelect f fs tgt q qs c l o sl so) : NoCR (C02.selectIntoText f fs tgt q qs c l o sl so) := by
  obtain ⟨hf, ht, hq, hc, _⟩ := h
  exact noCR_cons (by decide) ((noCR_fieldOK (hf f (by simp))).append
    ((noCR_moreFields fs (fun g hg => noCR_fieldOK (hf g (by simp [hg])))).append
    ((noCR_targetText tgt ht).append
    ((noCR_fromQualText q qs hq).append
    ((noCR_whereText c (noCR_cond hc)).append
    ((noCR_posText .LIMIT l (by decide +kernel)).append
    ((noCR_posText .OFFSET o (by decide +kernel)).append
    ((noCR_posText .SLIMIT sl (by decide +kernel)).append (noCR_posText .SOFFSET so (by decide +kernel))))))))))

/-! ## the clauses of the wide SELECT -/

theorem noCR_moreDims (ds : List Expr) (h : ∀ x ∈ ds, NoCR x.print) : NoCR (moreDims ds) := by
  induction ds with
  | nil => exact noCR_nil
  | cons d rest ih =>
    exact noCR_cons (by decide) (noCR_cons (by decide) ((h d (by simp)).append
      (ih (fun x hx => h x (by simp [hx])))))

theorem noCR_groupText (ds : List Expr) (h : ∀ x ∈ ds, NoCR x.print) : NoCR (groupText ds) := by
  cases ds with
  | nil => exact noCR_nil
  | cons d rest =>
    exact noCR_cons (by decide) ((noCR_kw .GROUP (by decide +kernel)).append (noCR_cons (by decide)
      ((noCR_kw .BY (by decide +kernel)).append (noCR_cons (by decide)
        ((h d (by simp)).append (noCR_moreDims rest (fun x hx => h x (by simp [hx]))))))))

theorem noCR_fillText (tbl : List (Char × Char)) (fill : FillOption) (fv : FillValue)
    (h : fillOKW tbl fill fv = true) : NoCR (fillText fill fv) := by
  unfold fillText
  unfold fillOKW at h
  cases ha : fillArg fill fv with
  | none => exact noCR_nil
  | some a =>
    rw [ha] at h
    exact noCR_cons (by decide) (noCR_of_rt (RT.printW_noCR _ h))

theorem noCR_orderText (sf : List SortField) (h : sortOKB sf = true) : NoCR (orderText sf) := by
  match sf, h with
  | [], _ => exact noCR_nil
  | [f], h =>
    have hname : NoCR f.name := by
      simp only [sortOKB, Bool.or_eq_true, beq_iff_eq] at h
      rcases h with h | h
      · rw [h]; exact noCR_nil
      · rw [h]; decide +kernel
    exact noCR_cons (by decide) ((noCR_kw .ORDER (by decide +kernel)).append (noCR_cons (by decide)
      ((noCR_kw .BY (by decide +kernel)).append ((noCR_if (noCR_cons (by decide) hname) noCR_nil).append
        (noCR_cons (by decide) (noCR_if (noCR_kw .ASC (by decide +kernel)) (noCR_kw .DESC (by decide +kernel))))))))

theorem noCR_tzText (loc : Option Str) (h : locOKW loc = true) : NoCR (tzText loc) := by
  cases loc with
  | none => exact noCR_nil
  | some n =>
    have hn : NoCR n := fun c hc => ((plainName_facts (n := n) h).2.1 c hc).2
    show NoCR (' ' :: (['T', 'Z'] ++ '(' :: ('\'' :: (n ++ ['\''])) ++ [')']))
    have e1 : NoCR ['T', 'Z'] := by decide
    have e2 : NoCR ['\''] := by decide
    have e3 : NoCR [')'] := by decide
    exact noCR_cons (by decide) ((e1.append (noCR_cons (by decide) (noCR_cons (by decide) (hn.append e2)))).append e3)

/-- The body of a SELECT of the wide class, given CR-free sources. -/
theorem noCR_bodyText (tbl : List (Char × Char)) (f : Field) (fs : List Field) (tgt : Option (Str × Str × Str))
    (srcText : Str) (c : Option Expr) (ds : List Expr) (fill : FillOption) (fv : FillValue) (sf : List SortField)
    (l o sl so : Int) (loc : Option Str) (h : BodyOKW tbl f fs tgt c ds fill fv sf l o sl so loc)
    (hsrc : NoCR srcText) : NoCR (bodyText f fs tgt srcText c ds fill fv sf l o sl so loc) := by
  obtain ⟨hf, ht, hc, hds, hfill, hsf, _, _, _, _, hloc⟩ := h
  have hfrom : NoCR (fromSrcText srcText) :=
    noCR_cons (by decide) ((noCR_kw .FROM (by decide +kernel)).append (noCR_cons (by decide) hsrc))
  exact noCR_cons (by decide) ((noCR_fieldOKW (hf f (by simp))).append
    ((noCR_moreFields fs (fun g hg => noCR_fieldOKW (hf g (by simp [hg])))).append
    ((noCR_targetText tgt ht).append
    (hfrom.append
    ((noCR_whereText c (noCR_condW hc)).append
    ((noCR_groupText ds (fun x hx => noCR_of_rt (RT.printW_noCR x (hds x hx)))).append
    ((noCR_fillText tbl fill fv hfill).append
    ((noCR_orderText sf hsf).append
    ((noCR_posText .LIMIT l (by decide +kernel)).append
    ((noCR_posText .OFFSET o (by decide +kernel)).append
    ((noCR_posText .SLIMIT sl (by decide +kernel)).append
    ((noCR_posText .SOFFSET so (by decide +kernel)).append (noCR_tzText loc hloc)))))))))))))

/-! ## sources and subqueries: induction on the depth index -/

theorem noCR_moreSrcs (xs : List Source) (h : ∀ x ∈ xs, NoCR x.print) : NoCR (moreSrcs xs) := by
  induction xs with
  | nil => exact noCR_nil
  | cons x rest ih =>
    exact noCR_cons (by decide) (noCR_cons (by decide) ((h x (by simp)).append
      (ih (fun y hy => h y (by simp [hy])))))

theorem noCR_select_kw : NoCR (tx "SELECT") := by decide +kernel

/-- **A SELECT statement of the class `selOKB tbl n` prints without CR**, subqueries nested to any depth. -/
theorem noCR_selOKB (tbl : List (Char × Char)) : ∀ (n : Nat) (st : SelectStmt), selOKB tbl n st = true →
    NoCR st.print := by
  intro n
  induction n with
  | zero => intro st h; simp [selOKB] at h
  | succ n ih =>
    intro st hok
    obtain ⟨f, fs, tgt, hst, hbody, hne, hsrcs⟩ := selOKB_elim tbl n st hok
    have h2 := wideSelect_print tbl f fs tgt st.sources st.condition st.dimensions st.fill st.fillValue st.sortFields
      st.limit st.offset st.slimit st.soffset st.location hne hbody.2.2.2.2.2.1 hbody.2.2.2.2.1
    rw [← hst] at h2
    rw [h2]
    refine noCR_select_kw.append (noCR_bodyText tbl _ _ _ _ _ _ _ _ _ _ _ _ _ _ hbody ?_)
    have hx : ∀ x ∈ st.sources, NoCR x.print := by
      intro x hxm
      have hx' := hsrcs x hxm
      cases x with
      | measurement m =>
        obtain ⟨e1, e2⟩ := meas_parts m hx'
        rw [e1]
        exact noCR_qualM _ e2
      | subquery st' =>
        show NoCR (['('] ++ st'.print ++ [')'])
        have e1 : NoCR ['('] := by decide
        have e3 : NoCR [')'] := by decide
        exact (e1.append (ih st' hx')).append e3
    cases hsx : st.sources with
    | nil => exact absurd hsx hne
    | cons x xs =>
      rw [hsx] at hx
      rw [printSources_cons]
      exact (hx x (by simp)).append (noCR_moreSrcs xs (fun y hy => hx y (by simp [hy])))

theorem noCR_selectTail (tbl : List (Char × Char)) (n : Nat) (st : SelectStmt) (h : selOKB tbl n st = true) :
    NoCR (selectTail st) := by
  intro c hc
  exact noCR_selOKB tbl n st h c (List.mem_of_mem_drop hc)

/-! ## EXPLAIN, CREATE CONTINUOUS QUERY -/

theorem noCR_optKwText (t : Token) (b : Bool) (ht : t.isKw = true) : NoCR (optKwText t b) := by
  unfold optKwText
  split
  · exact noCR_cons (by decide) (noCR_kw t ht)
  · exact noCR_nil

theorem noCR_explainText (tbl : List (Char × Char)) (n : Nat) (st : SelectStmt) (analyze verbose : Bool)
    (h : selOKB tbl n st = true) : NoCR (explainText analyze verbose st) :=
  (noCR_optKwText .ANALYZE analyze (by decide +kernel)).append ((noCR_optKwText .VERBOSE verbose (by decide +kernel)).append
    (noCR_cons (by decide) ((noCR_kw .SELECT (by decide +kernel)).append (noCR_selectTail tbl n st h))))

theorem noCR_durKwText (t : Token) (v : Int) (ht : t.isKw = true) : NoCR (durKwText t v) := by
  unfold durKwText
  split
  · exact noCR_cons (by decide) ((noCR_kw t ht).append (noCR_cons (by decide) (noCR_of_rt (RT.noCR_formatDuration v))))
  · exact noCR_nil

theorem noCR_resampleText (ev fo : Int) : NoCR (resampleText ev fo) := by
  unfold resampleText
  split
  · exact noCR_cons (by decide) ((noCR_kw .RESAMPLE (by decide +kernel)).append
      ((noCR_durKwText .EVERY ev (by decide +kernel)).append (noCR_durKwText .FOR fo (by decide +kernel))))
  · exact noCR_nil

theorem noCR_cqText (tbl : List (Char × Char)) (n : Nat) (name db : Str) (ev fo : Int) (st : SelectStmt)
    (h : CQOK tbl n name db ev fo st) : NoCR (cqText name db ev fo st) := by
  obtain ⟨h1, h2, _, _, h5, _, _⟩ := h
  exact noCR_cons (by decide) ((noCR_qi name h1).append (noCR_cons (by decide)
    ((noCR_kw .ON (by decide +kernel)).append (noCR_cons (by decide) ((noCR_qi db h2).append
    ((noCR_resampleText ev fo).append (noCR_cons (by decide) ((noCR_kw .BEGIN (by decide +kernel)).append
    (noCR_cons (by decide) ((noCR_kw .SELECT (by decide +kernel)).append
    ((noCR_selectTail tbl n st h5).append (noCR_cons (by decide) (noCR_kw .END (by decide +kernel))))))))))))))

/-! ## printed statements -/

/-- Keywords + a CR-free body. -/
theorem PrintedStmt.OK.noCR {x : PrintedStmt} (hx : x.OK) (hb : NoCR x.body) : NoCR x.stmt.print := by
  rw [hx.print]
  exact (noCR_kwLine _ (gen_exprPaths _ hx.path).1).append hb

theorem PrintedStmt.OKT.noCR {tbl : List (Char × Char)} {N : Nat} {x : PrintedStmt} (hx : x.OKT tbl N)
    (hb : NoCR x.body) : NoCR x.stmt.print := by
  rw [hx.print]
  exact (noCR_kwLine _ (gen_exprPathsT _ hx.path).1).append hb

/-! ## the sum of the instantiated families with their class predicates -/

/-- A printed statement of an instantiated family, given by the data its class predicate speaks about. -/
inductive QFam where
  | plain (p : Printed)
  | delete (names : List Str) (c : Option Expr)
  | dropSeries (names : List Str) (c : Option Expr)
  | showSeries (db : Str) (names : List Str) (c : Option Expr) (l o : Int)
  | showTagKeys (db : Str) (names : List Str) (c : Option Expr) (l o : Int)
  | showFieldKeys (db : Str) (names : List Str) (l o : Int)
  | showMeasurements (c : Option Expr) (l o : Int)
  | select (f : Field) (fs : List Field) (n : Str) (names : List Str) (c : Option Expr) (l o sl so : Int)
  | selectInto (f : Field) (fs : List Field) (tgt : Option (Str × Str × Str)) (q : Str × Str × Str)
      (qs : List (Str × Str × Str)) (c : Option Expr) (l o sl so : Int)
  | selectSub (n : Nat) (st : SelectStmt)
  | explain (n : Nat) (st : SelectStmt) (analyze verbose : Bool)
  | cq (n : Nat) (name db : Str) (ev fo : Int) (st : SelectStmt)

/-- The statement as a `QStmtT` (`n` is the depth index of `selOKB`; the expression fuel needed is `n + 3`). -/
def QFam.toT : QFam → QStmtT
  | .plain p => .plain p
  | .delete names c => .expr (deletePS names c)
  | .dropSeries names c => .expr (dropSeriesPS names c)
  | .showSeries db names c l o => .expr (showSeriesPS db names c l o)
  | .showTagKeys db names c l o => .expr (showTagKeysPS db names c l o)
  | .showFieldKeys db names l o => .expr (showFieldKeysPS db names l o)
  | .showMeasurements c l o => .expr (showMeasurementsPS c l o)
  | .select f fs n names c l o sl so => .expr (selectPS f fs n names c l o sl so)
  | .selectInto f fs tgt q qs c l o sl so => .expr (selectIntoPS f fs tgt q qs c l o sl so)
  | .selectSub n st => .wide (n + 3) (selectSubPS st)
  | .explain n st a v => .wide (n + 3) (explainPS st a v)
  | .cq n name db ev fo st => .wide (n + 3) (cqPS name db ev fo st)

def QFam.stmt (q : QFam) : Statement := q.toT.stmt

/-- The class predicate of the family (decidable data conditions only). -/
def QFam.OK (tbl : List (Char × Char)) : QFam → Prop
  | .plain p => p.WF
  | .delete names c => DeleteLikeOK names c
  | .dropSeries names c => DeleteLikeOK names c
  | .showSeries db names c l o => ShowOK db names c l o
  | .showTagKeys db names c l o => ShowOK db names c l o
  | .showFieldKeys db names l o => ShowOK db names none l o
  | .showMeasurements c l o => ShowOK [] [] c l o
  | .select f fs n names c l o sl so => C02.SimpleSelect f fs n names c l o sl so
  | .selectInto f fs tgt q qs c l o sl so => C02.IntoSelect f fs tgt q qs c l o sl so
  | .selectSub n st => selOKB tbl n st = true
  | .explain n st _ _ => selOKB tbl n st = true
  | .cq n name db ev fo st => CQOK tbl n name db ev fo st

/-- The depth index (0 for the families without subqueries). -/
def QFam.depth : QFam → Nat
  | .selectSub n _ => n
  | .explain n _ _ _ => n
  | .cq n _ _ _ _ _ => n
  | _ => 0

theorem QFam.toT_minFuel_le (q : QFam) : q.toT.minFuel ≤ q.depth + 3 := by
  cases q <;> simp [QFam.toT, QStmtT.minFuel, QFam.depth]

/-- The class predicate gives the interface. -/
theorem QFam.toT_ok (tbl : List (Char × Char)) (q : QFam) (h : q.OK tbl) : q.toT.OK tbl := by
  cases q with
  | plain p => exact h
  | delete names c => exact deletePS_ok names c h
  | dropSeries names c => exact dropSeriesPS_ok names c h
  | showSeries db names c l o => exact showSeriesPS_ok db names c l o h
  | showTagKeys db names c l o => exact showTagKeysPS_ok db names c l o h
  | showFieldKeys db names l o => exact showFieldKeysPS_ok db names l o h
  | showMeasurements c l o => exact showMeasurementsPS_ok c l o h
  | select f fs n names c l o sl so => exact selectPS_ok f fs n names c l o sl so h
  | selectInto f fs tgt q qs c l o sl so => exact selectIntoPS_ok f fs tgt q qs c l o sl so h
  | selectSub n st => exact selectSubPS_ok tbl n st h
  | explain n st a v => exact explainPS_ok tbl n st a v h
  | cq n name db ev fo st => exact cqPS_ok tbl n name db ev fo st h

/-- **The class predicate gives CR-freeness of the printed statement.** -/
theorem QFam.noCR (tbl : List (Char × Char)) (q : QFam) (h : q.OK tbl) : NoCR q.stmt.print := by
  cases q with
  | plain p => exact Printed.noCR p h
  | delete names c => exact (deletePS_ok names c h).noCR (noCR_deleteLikeText names c h)
  | dropSeries names c => exact (dropSeriesPS_ok names c h).noCR (noCR_deleteLikeText names c h)
  | showSeries db names c l o => exact (showSeriesPS_ok db names c l o h).noCR (noCR_showText db names c l o h)
  | showTagKeys db names c l o => exact (showTagKeysPS_ok db names c l o h).noCR (noCR_showText db names c l o h)
  | showFieldKeys db names l o => exact (showFieldKeysPS_ok db names l o h).noCR (noCR_showText db names none l o h)
  | showMeasurements c l o => exact (showMeasurementsPS_ok c l o h).noCR (noCR_showText [] [] c l o h)
  | select f fs n names c l o sl so =>
    exact (selectPS_ok f fs n names c l o sl so h).noCR (noCR_selectText f fs n names c l o sl so h)
  | selectInto f fs tgt q qs c l o sl so =>
    exact (selectIntoPS_ok f fs tgt q qs c l o sl so h).noCR (noCR_selectIntoText f fs tgt q qs c l o sl so h)
  | selectSub n st => exact (selectSubPS_ok tbl n st h).noCR (noCR_selectTail tbl n st h)
  | explain n st a v => exact (explainPS_ok tbl n st a v h).noCR (noCR_explainText tbl n st a v h)
  | cq n name db ev fo st => exact (cqPS_ok tbl n name db ev fo st h).noCR (noCR_cqText tbl n name db ev fo st h)

/-- The printed query of statements of the instantiated families contains no CR. -/
theorem noCR_printStatements_fam (tbl : List (Char × Char)) (qs : List QFam) (hok : ∀ q ∈ qs, q.OK tbl) :
    NoCR (printStatements (qs.map QFam.stmt)) := by
  unfold printStatements
  cases qs with
  | nil => exact noCR_nil
  | cons p ps =>
    rw [List.map_cons, List.map_cons, joinWith_cons]
    refine (p.noCR tbl (hok p (by simp))).append ?_
    intro c hc
    obtain ⟨x, hx, hcx⟩ := List.mem_flatMap.mp hc
    obtain ⟨st, hst, rfl⟩ := List.mem_map.mp hx
    obtain ⟨q, hq, rfl⟩ := List.mem_map.mp hst
    rcases List.mem_append.mp hcx with h | h
    · have : ∀ c ∈ tx ";\n", c ≠ '\r' := by decide +kernel
      exact this c h
    · exact q.noCR tbl (hok q (by simp [hq])) c h

theorem QFam.map_toT_stmt (qs : List QFam) : (qs.map QFam.toT).map QStmtT.stmt = qs.map QFam.stmt := by
  simp [List.map_map, Function.comp_def, QFam.stmt]

end InfluxQL.PrintedQuery

import InfluxQL.Lemmas.SelectWide
/-
`parseSelectStatement` on the printed form of a SELECT statement over the wide class, **generic in the
sources**: the body lemma takes the specification of `parseSources` on the printed source list as a
hypothesis (`hsrc`), so that the same proof serves plain / qualified measurements (`Props/C02`:
`selectWide_print_parse_partial`) and subqueries to any depth (`Lemmas/SelectSubquery.lean`).
-/
namespace InfluxQL
open Gen

/-- The tokens that continue a SELECT statement. -/
def bodyStop : List Token :=
  [.AS, .COMMA, .INTO, .FROM, .WHERE, .GROUP, .IDENT, .ORDER, .LIMIT, .OFFSET, .SLIMIT, .SOFFSET]

/-- The statement `parseSelectStatement` builds from its clauses (`IsRawQuery`: no call among the fields). -/
def wideSelect (f : Field) (fs : List Field) (tgt : Option (Str × Str × Str)) (srcs : List Source) (c : Option Expr)
    (ds : List Expr) (fill : FillOption) (fv : FillValue) (sf : List SortField) (l o sl so : Int)
    (loc : Option Str) : SelectStmt :=
  .mk (f :: fs) (tgt.map tgtM) ds srcs c sf l o sl so (!(f :: fs).any fun g => g.expr.hasCall) fill fv loc
    [] false false [] false

/-- The target, when there is one, has three expressible parts and a name. -/
def TgtOK (tgt : Option (Str × Str × Str)) : Prop := ∀ t, tgt = some t → QualOK t

instance (tgt : Option (Str × Str × Str)) : Decidable (TgtOK tgt) :=
  match tgt with
  | none => isTrue (fun _ h => by cases h)
  | some t => if h : QualOK t then isTrue (fun t' ht => by cases ht; exact h)
    else isFalse (fun hc => h (hc t rfl))

def locOKW : Option Str → Bool
  | none => true
  | some n => plainNameB n

/-- In the parser's range. -/
def LimOK (v : Int) : Prop := 0 ≤ v ∧ v ≤ maxInt64

instance (v : Int) : Decidable (LimOK v) := by unfold LimOK; exact inferInstance

/-- **The clauses of a SELECT statement the wide round trip covers** (everything but the sources), relative to
the lower-casing table `tbl` of the input (decidable):
fields and dimensions of C03's wide class (`mean(value)`, `*`, numbers, durations; `time(5m)`, `time(5m, 1m)`, `*`,
tags), fields without the operators `parseField` rejects; the target `db.rp.m` with a name; the condition of the
wide class; `fill(none|previous|linear|<integer>|<number>)` or none; the four sort lists the parser returns;
limits in range; a location name without quote / backslash / newline that is not empty. -/
def BodyOKW (tbl : List (Char × Char)) (f : Field) (fs : List Field) (tgt : Option (Str × Str × Str)) (c : Option Expr)
    (ds : List Expr) (fill : FillOption) (fv : FillValue) (sf : List SortField) (l o sl so : Int)
    (loc : Option Str) : Prop :=
  (∀ g ∈ f :: fs, FieldOKW tbl g) ∧ TgtOK tgt ∧ CondOKW tbl c ∧ (∀ x ∈ ds, RT.wOK tbl x = true) ∧
  fillOKW tbl fill fv = true ∧ sortOKB sf = true ∧ LimOK l ∧ LimOK o ∧ LimOK sl ∧ LimOK so ∧ locOKW loc = true

instance (tbl : List (Char × Char)) (f : Field) (fs : List Field) (tgt : Option (Str × Str × Str)) (c : Option Expr)
    (ds : List Expr) (fill : FillOption) (fv : FillValue) (sf : List SortField) (l o sl so : Int) (loc : Option Str) :
    Decidable (BodyOKW tbl f fs tgt c ds fill fv sf l o sl so loc) := by
  unfold BodyOKW; exact inferInstance

/-- ` FROM <sources>`. -/
def fromSrcText (srcText : Str) : Str := ' ' :: (Token.FROM.str ++ ' ' :: srcText)

theorem kwText_fromSrc (srcText : Str) : KwText (fromSrcText srcText) .FROM := Or.inr ⟨_, rfl⟩

/-- What is printed after the keyword SELECT, given the printed source list. -/
def bodyText (f : Field) (fs : List Field) (tgt : Option (Str × Str × Str)) (srcText : Str) (c : Option Expr)
    (ds : List Expr) (fill : FillOption) (fv : FillValue) (sf : List SortField) (l o sl so : Int)
    (loc : Option Str) : Str :=
  ' ' :: (f.print ++ (moreFields fs ++ (targetText tgt ++ (fromSrcText srcText ++ (whereText c ++ (groupText ds ++
    (fillText fill fv ++ (orderText sf ++ (posText .LIMIT l ++ (posText .OFFSET o ++ (posText .SLIMIT sl ++
      (posText .SOFFSET so ++ tzText loc))))))))))))

/-- The pieces are what `SelectStatement.String()` writes. -/
theorem wideSelect_print (tbl : List (Char × Char)) (f : Field) (fs : List Field) (tgt : Option (Str × Str × Str))
    (srcs : List Source) (c : Option Expr) (ds : List Expr) (fill : FillOption) (fv : FillValue) (sf : List SortField)
    (l o sl so : Int) (loc : Option Str) (hne : srcs ≠ []) (hsf : sortOKB sf = true)
    (hfill : fillOKW tbl fill fv = true) :
    (wideSelect f fs tgt srcs c ds fill fv sf l o sl so loc).print =
      tx "SELECT" ++ bodyText f fs tgt (printSources srcs) c ds fill fv sf l o sl so loc := by
  have p1 : (wideSelect f fs tgt srcs c ds fill fv sf l o sl so loc).print =
      tx "SELECT " ++ joinWith (tx ", ") ((f :: fs).map Field.print) ++ targetText tgt ++
        (tx " FROM " ++ printSources srcs) ++ clauseWhere c ++ clauseGroupBy ds ++
        printFill fill fv ++ clauseOrderBy sf ++ clausePos "LIMIT" l ++ clausePos "OFFSET" o ++
        clausePos "SLIMIT" sl ++ clausePos "SOFFSET" so ++
        loc.elim [] (fun n => tx " TZ('" ++ n ++ tx "')") := by
    cases srcs with
    | nil => exact absurd rfl hne
    | cons x xs => cases tgt <;> cases loc <;> rfl
  have etz : loc.elim [] (fun n => tx " TZ('" ++ n ++ tx "')") = tzText loc := by
    cases loc with
    | none => rfl
    | some n => exact tz_print (some n)
  have e3 : tx "SELECT " = tx "SELECT" ++ [' '] := by decide +kernel
  have e4 : tx " FROM " = ' ' :: (Token.FROM.str ++ [' ']) := by decide +kernel
  rw [p1, joinFields, clauseWhere_eq, (clausePos_eq l).1, (clausePos_eq o).2.1,
    (clausePos_eq sl).2.2.1, (clausePos_eq so).2.2.2, clauseOrderBy_eq sf hsf, clauseGroupBy_eq, etz,
    printFill_eq tbl fill fv hfill, e3, e4]
  simp only [bodyText, fromSrcText, List.append_assoc, List.append_nil, List.nil_append, List.cons_append]

/-- `INTO <target>` when it is there, whether or not the caller requires it (`parseTarget_stand` with `required`). -/
theorem parseTarget_some (required : Bool) (s : PState) (q : Str × Str × Str) (rest : Str) (hq : QualOK q)
    (hs : RT.Stand s (targetText (some q) ++ ' ' :: (Token.FROM.str ++ ' ' :: rest))) :
    ∃ s' lx s3, (parseTarget required).run s = .ok ((some q : Option (Str × Str × Str)).map tgtM, s') ∧
      scanIW.run s' = .ok (lx, s3) ∧ lx.tok = .FROM ∧ s3.Before (' ' :: rest) := by
  have hkw := scansAs_kw .FROM (' ' :: rest) (by decide +kernel) (WordEnd.blank _)
  obtain ⟨h1, h2, h3, h4⟩ := hq
  have e1 : targetText (some q) = [' '] ++ (Token.INTO.str ++ (' ' :: (qualM q).print)) := by
    show ' ' :: (tx "INTO " ++ (qualM q).print ++ (if (qualM q).name = [] then tx ":MEASUREMENT" else [])) = _
    have h4' : ¬ (qualM q).name = [] := h4
    rw [tx_into, if_neg h4']
    simp
  rw [e1, from_str] at hs
  have hs' : RT.Stand s ([' '] ++ (Token.INTO.str ++ (' ' :: ((qualM q).print ++ ' ' :: 'F' :: (['R', 'O', 'M'] ++ ' ' :: rest))))) := by
    simpa [List.append_assoc] using hs
  obtain ⟨lx, s1, hsc, ht, _, hb1⟩ := scanIW_stand s [' '] Token.INTO.str _ .INTO [] Gap.blank hs'
    (scansAs_kw .INTO _ (by decide +kernel) (WordEnd.blank _))
  obtain ⟨s', hrun, hal⟩ := parseTarget_tail required s s1 lx (qualM q) 'F' (['R', 'O', 'M'] ++ ' ' :: rest) h4 rfl h1 h2 h3
    (by decide) (by decide) (by decide) hsc ht hb1
  obtain ⟨s0, hb0, he⟩ := hal.scanIW_eq
  have hb0' : s0.Before ([' '] ++ (Token.FROM.str ++ ' ' :: rest)) := by
    rw [from_str]; simpa using hb0
  obtain ⟨lx3, s3, h3', t3, _, b3⟩ := scanIW_piece0 s0 [' '] Token.FROM.str (' ' :: rest) .FROM [] Gap.blank hb0' hkw
  exact ⟨s', lx3, s3, hrun, he.trans h3', t3, b3⟩

/-- **`parseSelectStatement` on the printed clauses**, given what `parseSources` does on the printed sources. -/
theorem selectBody_printW (F : Nat) (sub : Option (P SelectStmt)) (hsub : SubFrame sub) (s : PState)
    (f : Field) (fs : List Field) (tgt : Option (Str × Str × Str)) (srcs : List Source) (srcText : Str)
    (c : Option Expr) (ds : List Expr) (fill : FillOption) (fv : FillValue) (sf : List SortField)
    (l o sl so : Int) (loc : Option Str) (k : Str) (tr : Bool) (htr : tr = true → tgt ≠ none)
    (hok : BodyOKW s.lowerTbl f fs tgt c ds fill fv sf l o sl so loc)
    (hsrc : ∀ (s3 : PState) (k' : Str), s3.lowerTbl = s.lowerTbl → Follow k' [.COMMA] →
      s3.Before (' ' :: (srcText ++ k')) →
      wp (parseSourcesWith sub) s3 (fun r s' => r = srcs ∧ RT.Stand s' k') (· = .fuel))
    (hk : Follow k bodyStop)
    (hs : s.Before (bodyText f fs tgt srcText c ds fill fv sf l o sl so loc ++ k)) :
    wp (parseSelectBody (F + 3) sub tr) s
      (fun st s' => st = wideSelect f fs tgt srcs c ds fill fv sf l o sl so loc ∧ RT.Stand s' k) (· = .fuel) := by
  obtain ⟨hf, ht, hc, hds, hfill, hsf, hl, ho, hsl, hso, hloc⟩ := hok
  have hloc' : ∀ n, loc = some n → plainNameB n = true := by
    intro n e; subst e; exact hloc
  have g9 : Follow (tzText loc ++ k) [.AS, .COMMA, .INTO, .FROM, .WHERE, .GROUP, .ORDER, .LIMIT, .OFFSET, .SLIMIT, .SOFFSET] :=
    follow_tz loc k _ (hk.mono (by decide)) (by decide)
  have a9 : Ahead (tzText loc ++ k) NotFill := ahead_tz loc k (hk.mono (by decide))
  have g7 : Follow (posText .SOFFSET so ++ (tzText loc ++ k)) [.AS, .COMMA, .INTO, .FROM, .WHERE, .GROUP, .ORDER, .LIMIT, .OFFSET, .SLIMIT] :=
    Follow.opt (kwText_pos _ _) (by decide +kernel) rfl (by decide) (g9.mono (by decide))
  have g6 : Follow (posText .SLIMIT sl ++ (posText .SOFFSET so ++ (tzText loc ++ k)))
      [.AS, .COMMA, .INTO, .FROM, .WHERE, .GROUP, .ORDER, .LIMIT, .OFFSET] :=
    Follow.opt (kwText_pos _ _) (by decide +kernel) rfl (by decide) (g7.mono (by decide))
  have g5 : Follow (posText .OFFSET o ++ (posText .SLIMIT sl ++ (posText .SOFFSET so ++ (tzText loc ++ k))))
      [.AS, .COMMA, .INTO, .FROM, .WHERE, .GROUP, .ORDER, .LIMIT] :=
    Follow.opt (kwText_pos _ _) (by decide +kernel) rfl (by decide) (g6.mono (by decide))
  have g4 : Follow (posText .LIMIT l ++ (posText .OFFSET o ++ (posText .SLIMIT sl ++ (posText .SOFFSET so ++ (tzText loc ++ k)))))
      [.AS, .COMMA, .INTO, .FROM, .WHERE, .GROUP, .ORDER] :=
    Follow.opt (kwText_pos _ _) (by decide +kernel) rfl (by decide) (g5.mono (by decide))
  have g4o : Follow (orderText sf ++ (posText .LIMIT l ++ (posText .OFFSET o ++ (posText .SLIMIT sl ++
      (posText .SOFFSET so ++ (tzText loc ++ k)))))) [.AS, .COMMA, .INTO, .FROM, .WHERE, .GROUP] :=
    Follow.opt (kwText_order _) (by decide +kernel) rfl (by decide) (g4.mono (by decide))
  have g4f : Follow (fillText fill fv ++ (orderText sf ++ (posText .LIMIT l ++ (posText .OFFSET o ++ (posText .SLIMIT sl ++
      (posText .SOFFSET so ++ (tzText loc ++ k))))))) [.AS, .COMMA, .INTO, .FROM, .WHERE, .GROUP] :=
    follow_fill fill fv _ _ g4o (by decide)
  have g4g : Follow (groupText ds ++ (fillText fill fv ++ (orderText sf ++ (posText .LIMIT l ++ (posText .OFFSET o ++
      (posText .SLIMIT sl ++ (posText .SOFFSET so ++ (tzText loc ++ k)))))))) [.AS, .COMMA, .INTO, .FROM, .WHERE] :=
    Follow.opt (kwText_group _) (by decide +kernel) rfl (by decide) (g4f.mono (by decide))
  have g3 : Follow (whereText c ++ (groupText ds ++ (fillText fill fv ++ (orderText sf ++ (posText .LIMIT l ++
      (posText .OFFSET o ++ (posText .SLIMIT sl ++ (posText .SOFFSET so ++ (tzText loc ++ k))))))))) [.AS, .COMMA, .INTO, .FROM] :=
    Follow.opt (kwText_where _) (by decide +kernel) rfl (by decide) (g4g.mono (by decide))
  have g2 : Follow (fromSrcText srcText ++ (whereText c ++ (groupText ds ++ (fillText fill fv ++ (orderText sf ++
      (posText .LIMIT l ++ (posText .OFFSET o ++ (posText .SLIMIT sl ++ (posText .SOFFSET so ++ (tzText loc ++ k))))))))))
      [.AS, .COMMA, .INTO] :=
    Follow.opt (kwText_fromSrc _) (by decide +kernel) rfl (by decide) (g3.mono (by decide))
  have g1 : Follow (targetText tgt ++ (fromSrcText srcText ++ (whereText c ++ (groupText ds ++ (fillText fill fv ++
      (orderText sf ++ (posText .LIMIT l ++ (posText .OFFSET o ++ (posText .SLIMIT sl ++ (posText .SOFFSET so ++
      (tzText loc ++ k))))))))))) [.AS, .COMMA] :=
    Follow.opt (kwText_target _) (by decide +kernel) rfl (by decide) (g2.mono (by decide))
  -- what follows fill(): its head is not the word `fill`
  have a4 : Ahead (orderText sf ++ (posText .LIMIT l ++ (posText .OFFSET o ++ (posText .SLIMIT sl ++
      (posText .SOFFSET so ++ (tzText loc ++ k)))))) NotFill :=
    Ahead.opt (kwText_order _) (by decide +kernel) (Or.inl (by decide))
      (Ahead.opt (kwText_pos _ _) (by decide +kernel) (Or.inl (by decide))
        (Ahead.opt (kwText_pos _ _) (by decide +kernel) (Or.inl (by decide))
          (Ahead.opt (kwText_pos _ _) (by decide +kernel) (Or.inl (by decide))
            (Ahead.opt (kwText_pos _ _) (by decide +kernel) (Or.inl (by decide)) a9))))
  have hs0 : s.Before (' ' :: (f.print ++ (moreFields fs ++ (targetText tgt ++ (fromSrcText srcText ++ (whereText c ++
      (groupText ds ++ (fillText fill fv ++ (orderText sf ++ (posText .LIMIT l ++ (posText .OFFSET o ++
      (posText .SLIMIT sl ++ (posText .SOFFSET so ++ (tzText loc ++ k)))))))))))))) := by
    simpa [bodyText, List.append_assoc] using hs
  simp only [parseSelectBody]
  rw [wp_bind]
  refine wp_mono (wp_frame (parseFields_frame _) (parseFields_printW (F + 3) s f fs _ hf g1 hs0)) ?_ (fun _ h => h)
  intro flds s1 ⟨⟨hflds, st1⟩, sm1⟩
  subst hflds
  have hT : ∃ s2 lx3 s3, (parseTarget tr).run s1 = .ok (tgt.map tgtM, s2) ∧ scanIW.run s2 = .ok (lx3, s3) ∧
      lx3.tok = .FROM ∧ s3.Before (' ' :: (srcText ++ (whereText c ++
      (groupText ds ++ (fillText fill fv ++ (orderText sf ++ (posText .LIMIT l ++ (posText .OFFSET o ++ (posText .SLIMIT sl ++
      (posText .SOFFSET so ++ (tzText loc ++ k))))))))))) := by
    cases tr with
    | false =>
      exact parseTarget_stand s1 tgt _ ht
        (by simpa [fromSrcText, List.append_assoc] using g2.mono (by decide))
        (by simpa [fromSrcText, List.append_assoc] using st1)
    | true =>
      cases tgt with
      | none => exact absurd rfl (htr rfl)
      | some q =>
        exact parseTarget_some true s1 q _ (ht q rfl) (by simpa [fromSrcText, List.append_assoc] using st1)
  obtain ⟨s2, lx3, s3, h2, h3, t3, b3⟩ := hT
  have h3' : (expectTok .FROM ["FROM"]).run s2 = .ok ((), s3) := by
    unfold expectTok
    rw [P.run_bind _ _ _ _ _ h3]
    simp [t3, StateT.run, pure, StateT.pure, Except.pure]
  have sm3 : RT.Same s s3 := (sm1.trans ((parseTarget_frame tr).run h2)).trans (scanIW_frame.run h3)
  rw [wp_bind, wp_of_run_ok h2, wp_bind, wp_of_run_ok h3', wp_bind]
  refine wp_mono (wp_frame (parseSourcesWith_frame sub hsub) (hsrc s3 _ sm3.2 (g3.mono (by decide)) b3)) ?_
    (fun _ h => h)
  intro srcs' s4 ⟨⟨hsrcs', st4⟩, sm4⟩
  subst hsrcs'
  have tb4 : s4.lowerTbl = s.lowerTbl := (sm3.trans sm4).2
  rw [wp_bind]
  refine wp_mono (parseCondition_printW (F + 3) s4 c _ (by rw [tb4]; exact hc) (g4g.mono (by decide)) st4) ?_
    (fun _ h => h)
  intro c' s5 ⟨hc', st5, sm5⟩
  subst hc'
  have tb5 : s5.lowerTbl = s.lowerTbl := sm5.2.trans tb4
  rw [wp_bind]
  refine wp_mono (wp_frame (parseDimensions_frame _) (parseDimensions_printW (F + 3) s5 ds _ (by rw [tb5]; exact hds)
    (g4f.mono (by decide)) st5)) ?_ (fun _ h => h)
  intro ds' s6 ⟨⟨hds', st6⟩, sm6⟩
  subst hds'
  have tb6 : s6.lowerTbl = s.lowerTbl := sm6.2.trans tb5
  rw [wp_bind]
  refine wp_mono (parseFill_printW (F + 3) s6 fill fv _ (by rw [tb6]; exact hfill) g4o.exprEnd a4 st6) ?_ (fun _ h => h)
  intro fl s7 ⟨hfl, st7⟩
  subst hfl
  obtain ⟨s8, h8, st8⟩ := parseOrderBy_print s7 sf _ hsf (g4.mono (by decide)) st7
  obtain ⟨s9, h9, st9⟩ := parseOptTokInt_print .LIMIT (by decide +kernel) s8 l _ hl.1 hl.2 (g5.mono (by decide)) st8
  obtain ⟨s10, h10, st10⟩ := parseOptTokInt_print .OFFSET (by decide +kernel) s9 o _ ho.1 ho.2 (g6.mono (by decide)) st9
  obtain ⟨s11, h11, st11⟩ := parseOptTokInt_print .SLIMIT (by decide +kernel) s10 sl _ hsl.1 hsl.2 (g7.mono (by decide)) st10
  obtain ⟨s12, h12, st12⟩ := parseOptTokInt_print .SOFFSET (by decide +kernel) s11 so _ hso.1 hso.2 (g9.mono (by decide)) st11
  simp only []
  rw [wp_bind, wp_of_run_ok h8, wp_bind, wp_of_run_ok h9, wp_bind, wp_of_run_ok h10, wp_bind, wp_of_run_ok h11,
    wp_bind, wp_of_run_ok h12, wp_bind]
  refine wp_mono (parseLocation_print F s12 loc k hloc' (hk.mono (by decide)) st12) ?_ (fun _ h => h)
  intro loc' s13 ⟨hl', st13⟩
  subst hl'
  rw [wp_pure]
  exact ⟨rfl, st13⟩

end InfluxQL

import InfluxQL.Lemmas.PrintedQuery
/-
The expression-bearing families of Props/C02.lean as `PrintedStmt`s (C16 (a)): one constructor and one
`…_ok` lemma per family — DELETE, DROP SERIES, SHOW SERIES / TAG KEYS / FIELD KEYS / MEASUREMENTS,
SELECT in the classes `SimpleSelect` and `IntoSelect`. The `run` field is the family theorem in its
form for continuations that may begin with `;` (Lemmas/StmtExprSemi.lean); `QStmt` is the sum of the two
kinds of printed statements with the common interface `QStmt.OK → StmtSpec`.
-/
namespace InfluxQL.PrintedQuery
open InfluxQL Gen Render C01 RenderQuery RenderPrinted

/-- The end of the input and `;` continue no statement. -/
theorem follow_qend {K : Str} (hK : QEnd K) (stop : List Token) (h1 : Token.EOF ∉ stop)
    (h2 : Token.SEMICOLON ∉ stop) : C02.Semi.Follow K stop := by
  rcases hK with rfl | ⟨t, rfl⟩
  · exact C02.Semi.Follow.eof _ h1
  · exact C02.Semi.Follow.semi t _ h2

theorem optText_of_kwText {x : Str} {T : Token} (h : KwText x T) : OptText x := by
  rcases h with rfl | ⟨y, rfl⟩
  · exact Or.inl rfl
  · exact Or.inr ⟨_, rfl⟩

theorem optText_deleteLike (names : List Str) (c : Option Expr) : OptText (C02.deleteLikeText names c) :=
  (optText_of_kwText (kwText_from names)).append (optText_of_kwText (kwText_where c))

theorem optText_show (db : Str) (names : List Str) (c : Option Expr) (l o : Int) :
    OptText (C02.showText db names c l o) :=
  (optText_of_kwText (kwText_onDb db)).append ((optText_of_kwText (kwText_from names)).append
    ((optText_of_kwText (kwText_where c)).append
      ((optText_of_kwText (kwText_pos .LIMIT l)).append (optText_of_kwText (kwText_pos .OFFSET o)))))

/-! ## DELETE, DROP SERIES -/

/-- The class of `C02.deleteLike_print_parse_partial` (decidable): plain measurement names that are
expressible and not empty (finding `empty-identifier-not-printed`), a condition of C03's class
`Printable`, at least one of the two clauses. -/
def DeleteLikeOK (names : List Str) (c : Option Expr) : Prop :=
  (∀ m ∈ names, Expressible m ∧ m ≠ []) ∧ CondOK c ∧ ¬ (c = none ∧ names = [])

instance (names : List Str) (c : Option Expr) : Decidable (DeleteLikeOK names c) := by
  unfold DeleteLikeOK; exact inferInstance

def deletePS (names : List Str) (c : Option Expr) : PrintedStmt :=
  ⟨[.DELETE], .parseDeleteStatement, C02.deleteLikeText names c, .deleteSeries (names.map nameSrc) c⟩

def dropSeriesPS (names : List Str) (c : Option Expr) : PrintedStmt :=
  ⟨[.DROP, .SERIES], .parseDropSeriesStatement, C02.deleteLikeText names c, .dropSeries (names.map nameSrc) c⟩

theorem deletePS_ok (names : List Str) (c : Option Expr) (h : DeleteLikeOK names c) : (deletePS names c).OK where
  path := by simp [deletePS, exprPaths]
  print := by
    show (Statement.deleteSeries (names.map nameSrc) c).print = kwLine [.DELETE] ++ C02.deleteLikeText names c
    rw [(C02.deleteLike_print_partial names c (fun m hm => (h.1 m hm).2)).1]
    rw [show tx "DELETE" = kwLine [.DELETE] from by decide +kernel]
  body := optText_deleteLike names c
  run := fun fuel s K hK hs =>
    (C02.Semi.deleteLike_print_parse_partial fuel s names c K (fun m hm => (h.1 m hm).1) h.2.1 h.2.2
      (follow_qend hK _ (by decide) (by decide)) hs).1

theorem dropSeriesPS_ok (names : List Str) (c : Option Expr) (h : DeleteLikeOK names c) : (dropSeriesPS names c).OK where
  path := by simp [dropSeriesPS, exprPaths]
  print := by
    show (Statement.dropSeries (names.map nameSrc) c).print = kwLine [.DROP, .SERIES] ++ C02.deleteLikeText names c
    rw [(C02.deleteLike_print_partial names c (fun m hm => (h.1 m hm).2)).2]
    rw [show tx "DROP SERIES" = kwLine [.DROP, .SERIES] from by decide +kernel]
  body := optText_deleteLike names c
  run := fun fuel s K hK hs =>
    (C02.Semi.deleteLike_print_parse_partial fuel s names c K (fun m hm => (h.1 m hm).1) h.2.1 h.2.2
      (follow_qend hK _ (by decide) (by decide)) hs).2

/-! ## SHOW SERIES / TAG KEYS / FIELD KEYS / MEASUREMENTS -/

/-- The class of the four SHOW theorems of Props/C02 (decidable): `[ON db] [FROM names] [WHERE c] [LIMIT l]
[OFFSET o]`, names expressible and not empty, condition `Printable`, limits in the parser's range. -/
def ShowOK (db : Str) (names : List Str) (c : Option Expr) (l o : Int) : Prop :=
  Expressible db ∧ (∀ m ∈ names, Expressible m ∧ m ≠ []) ∧ CondOK c ∧ (0 ≤ l ∧ l ≤ maxInt64) ∧ (0 ≤ o ∧ o ≤ maxInt64)

instance (db : Str) (names : List Str) (c : Option Expr) (l o : Int) : Decidable (ShowOK db names c l o) := by
  unfold ShowOK; exact inferInstance

def showSeriesPS (db : Str) (names : List Str) (c : Option Expr) (l o : Int) : PrintedStmt :=
  ⟨[.SHOW, .SERIES], .parseShowSeriesStatement, C02.showText db names c l o,
    .showSeries db (names.map nameSrc) c [] l o⟩

def showTagKeysPS (db : Str) (names : List Str) (c : Option Expr) (l o : Int) : PrintedStmt :=
  ⟨[.SHOW, .TAG, .KEYS], .parseShowTagKeysStatement, C02.showText db names c l o,
    .showTagKeys db (names.map nameSrc) .ILLEGAL none c [] l o 0 0⟩

def showFieldKeysPS (db : Str) (names : List Str) (l o : Int) : PrintedStmt :=
  ⟨[.SHOW, .FIELD, .KEYS], .parseShowFieldKeysStatement, C02.showText db names none l o,
    .showFieldKeys db (names.map nameSrc) [] l o⟩

def showMeasurementsPS (c : Option Expr) (l o : Int) : PrintedStmt :=
  ⟨[.SHOW, .MEASUREMENTS], .parseShowMeasurementsStatement, C02.showText [] [] c l o,
    .showMeasurements [] [] false false none c [] l o⟩

theorem showSeriesPS_ok (db : Str) (names : List Str) (c : Option Expr) (l o : Int) (h : ShowOK db names c l o) :
    (showSeriesPS db names c l o).OK where
  path := by simp [showSeriesPS, exprPaths]
  print := by
    show (Statement.showSeries db (names.map nameSrc) c [] l o).print = kwLine [.SHOW, .SERIES] ++ _
    rw [(C02.showSeries_print_partial db names c l o (fun m hm => (h.2.1 m hm).2)).1]
    rw [show tx "SHOW SERIES" = kwLine [.SHOW, .SERIES] from by decide +kernel]
    rfl
  body := optText_show db names c l o
  run := fun fuel s K hK hs =>
    C02.Semi.showSeries_print_parse_partial db names c l o K fuel s h.1 (fun m hm => (h.2.1 m hm).1) h.2.2.1 h.2.2.2.1
      h.2.2.2.2 (follow_qend hK _ (by decide) (by decide)) hs

theorem showTagKeysPS_ok (db : Str) (names : List Str) (c : Option Expr) (l o : Int) (h : ShowOK db names c l o) :
    (showTagKeysPS db names c l o).OK where
  path := by simp [showTagKeysPS, exprPaths]
  print := by
    show (Statement.showTagKeys db (names.map nameSrc) .ILLEGAL none c [] l o 0 0).print = kwLine [.SHOW, .TAG, .KEYS] ++ _
    rw [(C02.showSeries_print_partial db names c l o (fun m hm => (h.2.1 m hm).2)).2.2.1]
    rw [show tx "SHOW TAG KEYS" = kwLine [.SHOW, .TAG, .KEYS] from by decide +kernel]
    rfl
  body := optText_show db names c l o
  run := fun fuel s K hK hs =>
    C02.Semi.showTagKeys_print_parse_partial db names c l o K fuel s h.1 (fun m hm => (h.2.1 m hm).1) h.2.2.1 h.2.2.2.1
      h.2.2.2.2 (follow_qend hK _ (by decide) (by decide)) hs

theorem showFieldKeysPS_ok (db : Str) (names : List Str) (l o : Int) (h : ShowOK db names none l o) :
    (showFieldKeysPS db names l o).OK where
  path := by simp [showFieldKeysPS, exprPaths]
  print := by
    show (Statement.showFieldKeys db (names.map nameSrc) [] l o).print = kwLine [.SHOW, .FIELD, .KEYS] ++ _
    rw [(C02.showSeries_print_partial db names none l o (fun m hm => (h.2.1 m hm).2)).2.1]
    rw [show tx "SHOW FIELD KEYS" = kwLine [.SHOW, .FIELD, .KEYS] from by decide +kernel]
    rfl
  body := optText_show db names none l o
  run := fun fuel s K hK hs => by
    obtain ⟨s', hrun, hst⟩ := C02.Semi.showFieldKeys_print_parse_partial db names l o K fuel s h.1
      (fun m hm => (h.2.1 m hm).1) h.2.2.2.1 h.2.2.2.2 (follow_qend hK _ (by decide) (by decide)) hs
    exact (wp_of_run_ok hrun _ _).mpr ⟨rfl, hst⟩

theorem showMeasurementsPS_ok (c : Option Expr) (l o : Int) (h : ShowOK [] [] c l o) :
    (showMeasurementsPS c l o).OK where
  path := by simp [showMeasurementsPS, exprPaths]
  print := by
    show (Statement.showMeasurements [] [] false false none c [] l o).print = kwLine [.SHOW, .MEASUREMENTS] ++ _
    rw [(C02.showSeries_print_partial [] [] c l o (fun m hm => by cases hm)).2.2.2]
    rw [show tx "SHOW MEASUREMENTS" = kwLine [.SHOW, .MEASUREMENTS] from by decide +kernel]
    rfl
  body := optText_show [] [] c l o
  run := fun fuel s K hK hs =>
    C02.Semi.showMeasurements_print_parse_partial c l o K fuel s h.2.2.1 h.2.2.2.1 h.2.2.2.2
      (follow_qend hK _ (by decide) (by decide)) hs

/-! ## SELECT -/

theorem runHandler_select_zero (s : PState) (Q : Statement → PState → Prop) :
    wp (runHandler 0 .parseSelectStatement_targetNotRequired) s Q (· = .fuel) := by
  simp only [runHandler, parseSelect]
  rw [wp_bind, wp_throw]

def selectPS (f : Field) (fs : List Field) (n : Str) (names : List Str) (c : Option Expr) (l o sl so : Int) : PrintedStmt :=
  ⟨[.SELECT], .parseSelectStatement_targetNotRequired, C02.selectText f fs n names c l o sl so,
    .select (C02.simpleSelect f fs n names c l o sl so)⟩

def selectIntoPS (f : Field) (fs : List Field) (tgt : Option (Str × Str × Str)) (q : Str × Str × Str)
    (qs : List (Str × Str × Str)) (c : Option Expr) (l o sl so : Int) : PrintedStmt :=
  ⟨[.SELECT], .parseSelectStatement_targetNotRequired, C02.selectIntoText f fs tgt q qs c l o sl so,
    .select (C02.intoSelect f fs tgt q qs c l o sl so)⟩

theorem selectPS_ok (f : Field) (fs : List Field) (n : Str) (names : List Str) (c : Option Expr) (l o sl so : Int)
    (h : C02.SimpleSelect f fs n names c l o sl so) : (selectPS f fs n names c l o sl so).OK where
  path := by simp [selectPS, exprPaths]
  print := by
    show (Statement.select (C02.simpleSelect f fs n names c l o sl so)).print = kwLine [.SELECT] ++ _
    rw [C02.select_print_partial f fs n names c l o sl so (fun m hm => (h.2.1 m hm).2)]
    rw [show tx "SELECT" = kwLine [.SELECT] from by decide +kernel]
    rfl
  body := Or.inr ⟨_, rfl⟩
  run := fun fuel s K hK hs => by
    cases fuel with
    | zero => exact runHandler_select_zero s _
    | succ fuel =>
      exact C02.Semi.select_print_parse_partial fuel s f fs n names c l o sl so K h
        (follow_qend hK _ (by decide) (by decide)) hs

theorem selectIntoPS_ok (f : Field) (fs : List Field) (tgt : Option (Str × Str × Str)) (q : Str × Str × Str)
    (qs : List (Str × Str × Str)) (c : Option Expr) (l o sl so : Int)
    (h : C02.IntoSelect f fs tgt q qs c l o sl so) : (selectIntoPS f fs tgt q qs c l o sl so).OK where
  path := by simp [selectIntoPS, exprPaths]
  print := by
    show (Statement.select (C02.intoSelect f fs tgt q qs c l o sl so)).print = kwLine [.SELECT] ++ _
    rw [C02.selectInto_print f fs tgt q qs c l o sl so]
    rw [show tx "SELECT" = kwLine [.SELECT] from by decide +kernel]
    rfl
  body := Or.inr ⟨_, rfl⟩
  run := fun fuel s K hK hs => by
    cases fuel with
    | zero => exact runHandler_select_zero s _
    | succ fuel =>
      exact C02.Semi.selectInto_print_parse_partial fuel s f fs tgt q qs c l o sl so K h
        (follow_qend hK _ (by decide) (by decide)) hs

/-! ## statements of either kind -/

/-- A printed statement of a proved family: one of the `Spelled`-based families of
Lemmas/RenderPrinted.lean (`Printed`), or one with a weakest-precondition style theorem (`PrintedStmt`). -/
inductive QStmt where
  | plain (p : Printed)
  | expr (x : PrintedStmt)

def QStmt.stmt : QStmt → Statement
  | .plain p => p.stmt
  | .expr x => x.stmt

/-- The common interface: `Printed.WF` resp. `PrintedStmt.OK`. -/
def QStmt.OK : QStmt → Prop
  | .plain p => p.WF
  | .expr x => x.OK

theorem QStmt.spec (q : QStmt) (h : q.OK) : StmtSpec q.stmt.print q.stmt := by
  cases q with
  | plain p => exact Printed.spec p h
  | expr x =>
    have := PrintedStmt.OK.spec h
    rw [← h.print] at this
    exact this

/-- **`ParseQuery(text)` on a printed query of statements of either kind.** -/
theorem parseQueryText_printed_qstmts (hdep : dispatchDepthOK (dispatch.length + 1) 0 = true)
    (qs : List QStmt) (hok : ∀ q ∈ qs, q.OK) (text : Str) (params : List (Str × BoundValue))
    (tbl : List (Char × Char)) (hfold : foldCR text = printStatements (qs.map QStmt.stmt)) :
    parseQueryText text params tbl = .ok (qs.map QStmt.stmt) := by
  have h := parseQueryText_printed_items hdep (qs.map fun q => (q.stmt.print, q.stmt))
    (by
      intro z hz
      obtain ⟨q, hq, rfl⟩ := List.mem_map.mp hz
      exact q.spec (hok q hq))
    text params tbl (by rw [hfold]; unfold printStatements; simp [List.map_map, Function.comp_def])
  simpa [List.map_map, Function.comp_def] using h

/-- A text without carriage return is delivered unchanged. -/
theorem foldCR_of_noCR (text : Str) (h : ∀ c ∈ text, c ≠ '\r') : foldCR text = text := by
  have := foldCR_append_of_no_cr text [] h
  simpa [foldCR] using this

end InfluxQL.PrintedQuery

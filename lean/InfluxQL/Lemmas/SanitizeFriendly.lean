import InfluxQL.Lemmas.Sanitize
/-!
Texts made of password clauses in a layout the two regular expressions understand
("regex-friendly"), and the exact result of `sanitize` on them.
-/
namespace InfluxQL.Sanitize
open InfluxQL Gen

/-- The password literal as written: the text `body` between single quotes. -/
def lit (body : List Char) : List Char := '\'' :: (body ++ ['\''])

/-- One password clause inside a text: the text `before` it (since the previous clause), the
clause head up to the literal (`WITH PASSWORD ` or `PASSWORD FOR name = `), and the password as
written between the quotes. -/
structure Clause where
  create : Bool
  before : List Char
  head : List Char
  body : List Char

def headSpace : List Char → Bool
  | [] => true
  | c :: _ => isSpace c

/-- The text: clauses in order, then the rest `z`. -/
def renderText : List Clause → List Char → List Char
  | [], z => z
  | c :: cs, z => c.before ++ (c.head ++ (lit c.body ++ renderText cs z))

/-- The text after the set-password pass. -/
def midText : List Clause → List Char → List Char
  | [], z => z
  | c :: cs, z => c.before ++ (c.head ++ ((if c.create then lit c.body else redacted) ++ midText cs z))

/-- The text with every password literal replaced. -/
def expectedText : List Clause → List Char → List Char
  | [], z => z
  | c :: cs, z => c.before ++ (c.head ++ (redacted ++ expectedText cs z))

/-- No keyword chain `ch` starts at a position of `a` when `a` is followed by `k`. -/
def quietBefore (ch : List Char → Option (List Char × List Char)) : List Char → List Char → Bool
  | [], _ => true
  | c :: a, k => (ch (c :: a ++ k)).isNone && quietBefore ch a k

/-- `k` is `password\s+for[^=]*=\s+` exactly. -/
def headOKSet (k : List Char) : Bool :=
  match chainSet k with
  | some (_, r3) =>
    match r3.dropWhile notEq with
    | _ :: w2 => !w2.isEmpty && w2.all isSpace
    | [] => false
  | none => false

/-- `k` is `with\s+password\s+` exactly. -/
def headOKCreate (k : List Char) : Bool :=
  match chainCreate k with
  | some (_, w2) => !w2.isEmpty && w2.all isSpace
  | none => false

def clauseOK (c : Clause) : Bool :=
  quietBefore chainSet c.before c.head && quietBefore chainCreate c.before c.head &&
  (if c.create then headOKCreate c.head && quietBefore chainSet c.head []
   else headOKSet c.head && quietBefore chainCreate c.head [])

/-- The password as written contains no white space and no double quote. -/
def bodyOK (b : List Char) : Bool := b.all isPw

/-- Regex-friendly text: every clause head is spelled with plain white space between and after
the keywords (and after `=`), no other place of the text looks like the beginning of a clause,
the passwords as written contain neither white space nor `"`, and every literal is followed by
white space or the end of the text. -/
def friendly : List Clause → List Char → Bool
  | [], z => quietBefore chainSet z [] && quietBefore chainCreate z []
  | c :: cs, z => clauseOK c && bodyOK c.body && headSpace (renderText cs z) && friendly cs z

/-! ### Using the decidable conditions -/

theorem quietBefore_spec {ch a k} (h : quietBefore ch a k = true) {s : List Char} (hs : s ≠ []) (hsuf : s <:+ a) :
    ch (s ++ k) = none := by
  induction a with
  | nil =>
    have := List.eq_nil_of_suffix_nil hsuf
    exact absurd this hs
  | cons c a ih =>
    simp only [quietBefore, Bool.and_eq_true, Option.isNone_iff_eq_none] at h
    rcases List.suffix_cons_iff.mp hsuf with rfl | h'
    · exact h.1
    · exact ih h.2 h'

theorem bodyOK_spec {b : List Char} (h : bodyOK b = true) : ∀ c ∈ b, isPw c = true := by
  unfold bodyOK at h
  exact fun c hc => List.all_eq_true.mp h c hc

theorem isPw_not_space {c : Char} (h : isPw c = true) : isSpace c = false := by
  unfold isPw at h
  cases hs : isSpace c <;> simp [hs] at h ⊢

theorem headSpace_spec {y : List Char} (h : headSpace y = true) (p : Char → Bool)
    (hp : ∀ c, isSpace c = true → p c = false) : y = [] ∨ ∃ q y', y = q :: y' ∧ p q = false := by
  cases y with
  | nil => exact Or.inl rfl
  | cons q y' => exact Or.inr ⟨q, y', rfl, hp q h⟩

/-! ### The group and the tail of a clause head -/

theorem matchGroup_lit {b r : List Char} (hb : bodyOK b = true) (hr : headSpace r = true) :
    matchGroup (lit b ++ r) = some (lit b, r) := by
  have hall : ∀ c ∈ b ++ ['\''], isPw c = true := by
    intro c hc
    rcases List.mem_append.mp hc with h | h
    · exact bodyOK_spec hb c h
    · simp at h; subst h; decide
  have hstop := headSpace_spec hr isPw (fun c hc => by unfold isPw; simp [hc])
  have htd := takeWhile_all_stop isPw (b ++ ['\'']) hall r hstop
  have hne : ((b ++ ['\''] ++ r).takeWhile isPw).isEmpty = false := by
    rw [htd.1]; simp
  have hcq : closeQuote (b ++ ['\'']) r = (b ++ ['\''], r) := by
    unfold closeQuote
    cases r with
    | nil => rfl
    | cons q r' =>
      have hq : isSpace q = true := hr
      have : isQuote q = false := by
        unfold isQuote
        cases h1 : (q == '"') <;> cases h2 : (q == '\'') <;> simp_all <;> (revert hq; decide)
      simp [this]
  have hgb : groupBody (b ++ ['\''] ++ r) = some (b ++ ['\''], r) := by
    unfold groupBody
    rw [hne, htd.1, htd.2, hcq]
    simp
  unfold matchGroup lit
  simp only [List.cons_append]
  have hq : isQuote '\'' = true := by decide
  rw [if_pos hq, hgb]

theorem spacesGroup_lit {pre w b r : List Char} (hw : w ≠ []) (hws : ∀ c ∈ w, isSpace c = true)
    (hb : bodyOK b = true) (hr : headSpace r = true) :
    spacesGroup pre (w ++ (lit b ++ r)) = some (pre ++ w, lit b, r) := by
  have htd := takeWhile_all_stop isSpace w hws (lit b ++ r)
    (Or.inr ⟨'\'', b ++ ['\''] ++ r, by simp [lit], by decide⟩)
  have : matchSpaces (w ++ (lit b ++ r)) = some (w, lit b ++ r) := by
    unfold matchSpaces
    rw [htd.1, htd.2]
    cases w with
    | nil => exact absurd rfl hw
    | cons c w => simp
  unfold spacesGroup
  rw [this]
  simp only
  rw [matchGroup_lit hb hr]

theorem all_spec {p : Char → Bool} {w : List Char} (h : w.all p = true) : ∀ c ∈ w, p c = true :=
  fun c hc => List.all_eq_true.mp h c hc

theorem matchSet_head {k b r : List Char} (hk : headOKSet k = true) (hb : bodyOK b = true)
    (hr : headSpace r = true) : matchSetPassword (k ++ (lit b ++ r)) = some (k, lit b, r) := by
  unfold headOKSet at hk
  split at hk
  · rename_i m r3 hc
    split at hk
    · rename_i e w2 hd
      simp only [Bool.and_eq_true, Bool.not_eq_true', List.isEmpty_eq_false_iff] at hk
      have hc' : chainSet (k ++ (lit b ++ r)) = some (m, r3 ++ (lit b ++ r)) := by
        rw [chainSet_eq] at hc ⊢
        exact chain_append _ (by decide) hc
      have hdn : r3.dropWhile notEq ≠ [] := by rw [hd]; simp
      have hdt := dropWhile_append_of_ne_nil notEq r3 (lit b ++ r) hdn
      have hkeq : k = m ++ r3.takeWhile notEq ++ [e] ++ w2 := by
        have := (chain_sound (chainSet_eq ▸ hc)).1
        rw [this]
        have h2 : r3 = r3.takeWhile notEq ++ e :: w2 := by rw [← hd, List.takeWhile_append_dropWhile]
        conv => lhs; rw [h2]
        simp
      unfold matchSetPassword
      rw [hc']
      simp only
      rw [hdt.1, hd, hdt.2]
      simp only [List.cons_append]
      rw [spacesGroup_lit hk.1 (all_spec hk.2) hb hr, ← hkeq]
    · simp at hk
  · simp at hk

theorem matchCreate_head {k b r : List Char} (hk : headOKCreate k = true) (hb : bodyOK b = true)
    (hr : headSpace r = true) : matchCreatePassword (k ++ (lit b ++ r)) = some (k, lit b, r) := by
  unfold headOKCreate at hk
  split at hk
  · rename_i m w2 hc
    simp only [Bool.and_eq_true, Bool.not_eq_true', List.isEmpty_eq_false_iff] at hk
    have hc' : chainCreate (k ++ (lit b ++ r)) = some (m, w2 ++ (lit b ++ r)) := by
      rw [chainCreate_eq] at hc ⊢
      exact chain_append _ (by decide) hc
    have hkeq : k = m ++ w2 := (chain_sound (chainCreate_eq ▸ hc)).1
    unfold matchCreatePassword
    rw [hc']
    simp only
    rw [spacesGroup_lit hk.1 (all_spec hk.2) hb hr, ← hkeq]
  · simp at hk

/-! ### Places where no clause can start -/

theorem suffix_concat {s x : List Char} {q : Char} (h : s <:+ x ++ [q]) (hs : s ≠ []) :
    ∃ s', s = s' ++ [q] ∧ s' <:+ x := by
  obtain ⟨t, ht⟩ := h
  rcases List.eq_nil_or_concat s with rfl | ⟨s', a, rfl⟩
  · exact absurd rfl hs
  · rw [List.concat_eq_append, ← List.append_assoc] at ht
    have := List.append_inj' ht rfl
    simp only [List.cons.injEq, and_true] at this
    obtain ⟨h1, rfl⟩ := this
    exact ⟨s', by simp, ⟨t, h1⟩⟩

/-- No keyword chain starts inside a password literal without white space. -/
theorem chain_lit_suffix {k1 k2 : List Char} {b s r : List Char} (hb : bodyOK b = true)
    (h1 : ∀ k ∈ k1, foldMatch k '\'' = false) (h2 : ∀ k ∈ k2, foldMatch k '\'' = false)
    (hs : s ≠ []) (hsuf : s <:+ lit b) : chain k1 k2 (s ++ r) = none := by
  have hl : lit b = ('\'' :: b) ++ ['\''] := by simp [lit]
  rw [hl] at hsuf
  obtain ⟨s', rfl, hs'⟩ := suffix_concat hsuf hs
  rw [List.append_assoc, List.singleton_append, chain_stopper '\'' r s' (by decide) h1 h2]
  cases hc : chain k1 k2 s' with
  | none => rfl
  | some mr =>
    exfalso
    obtain ⟨m, r'⟩ := mr
    obtain ⟨hx, c, hcm, hcs⟩ := chain_sound hc
    have hmem : c ∈ '\'' :: b := by
      have : c ∈ s' := by rw [hx]; exact List.mem_append_left _ hcm
      exact hs'.subset this
    rcases List.mem_cons.mp hmem with rfl | hb'
    · revert hcs; decide
    · have := isPw_not_space (bodyOK_spec hb c hb')
      rw [this] at hcs
      cases hcs

def headNoW : List Char → Bool
  | [] => true
  | c :: _ => !foldMatch 'w' c

def allTails (p : List Char → Bool) : List Char → Bool
  | [] => p []
  | c :: l => p (c :: l) && allTails p l

theorem allTails_spec {p : List Char → Bool} {l s : List Char} (h : allTails p l = true) (hs : s <:+ l) : p s = true := by
  induction l with
  | nil => rw [List.eq_nil_of_suffix_nil hs]; exact h
  | cons c l ih =>
    simp only [allTails, Bool.and_eq_true] at h
    rcases List.suffix_cons_iff.mp hs with rfl | h'
    · exact h.1
    · exact ih h.2 h'

/-- No `with` starts inside the replacement text. -/
theorem chainCreate_redacted_suffix {s r : List Char} (hs : s ≠ []) (hsuf : s <:+ redacted) :
    chainCreate (s ++ r) = none := by
  have h : allTails headNoW redacted = true := by decide
  have := allTails_spec h hsuf
  cases s with
  | nil => exact absurd rfl hs
  | cons c t =>
    simp only [headNoW, Bool.not_eq_true'] at this
    simp [chainCreate, matchKw, kwWith, this]

theorem redacted_cons : ∃ t, redacted = '[' :: t := ⟨_, rfl⟩

/-! ### The two passes on a friendly text -/

theorem friendly_tail_headSpace_mid : ∀ (cs : List Clause) (z : List Char),
    headSpace (renderText cs z) = true → friendly cs z = true → headSpace (midText cs z) = true
  | [], _, h, _ => h
  | c :: cs, z, h, hf => by
    simp only [friendly, Bool.and_eq_true, clauseOK] at hf
    -- the head of the text lies in `before ++ head`, and `head` is not empty
    have hk : c.head ≠ [] := by
      intro he
      have h2 := hf.1.1.1.2
      rw [he] at h2
      split at h2
      · simp [headOKCreate, chainCreate, matchKw, kwWith] at h2
      · simp [headOKSet, chainSet, matchKw, kwPassword] at h2
    simp only [renderText, midText] at h ⊢
    cases hb : c.before with
    | nil =>
      rw [hb] at h
      cases hh : c.head with
      | nil => exact absurd hh hk
      | cons a t => rw [hh] at h; simpa [headSpace] using h
    | cons a t => rw [hb] at h; simpa [headSpace] using h

theorem redacts_set : ∀ (cs : List Clause) (z : List Char), friendly cs z = true →
    Redacts matchSetPassword (renderText cs z) (midText cs z)
  | [], z, hf => by
    simp only [friendly, Bool.and_eq_true] at hf
    have := Redacts.skip_prefix (m := matchSetPassword) z (y := []) (ys := [])
      (fun s hs hsuf => matchSet_none_of_chain (quietBefore_spec hf.1 hs hsuf)) Redacts.nil
    simpa [renderText, midText] using this
  | c :: cs, z, hf => by
    have hf' := hf
    simp only [friendly, Bool.and_eq_true, clauseOK] at hf
    obtain ⟨⟨⟨⟨⟨hq1, hq2⟩, hhead⟩, hb⟩, hsp⟩, hrest⟩ := hf
    have ih := redacts_set cs z hrest
    simp only [renderText, midText]
    cases hcr : c.create with
    | false =>
      rw [hcr] at hhead
      simp only [Bool.false_eq_true, if_false, Bool.and_eq_true] at hhead ⊢
      refine Redacts.skip_prefix _ ?_ ?_
      · intro s hs hsuf
        apply matchSet_none_of_chain
        have := quietBefore_spec hq1 hs hsuf
        have e : s ++ (c.head ++ (lit c.body ++ renderText cs z)) = (s ++ c.head) ++ '\'' :: (c.body ++ ['\''] ++ renderText cs z) := by
          simp [lit]
        rw [e, chainSet_stopper stopper_quote, this]; rfl
      · have hm := matchSet_head (r := renderText cs z) hhead.1 hb hsp
        have := Redacts.hit hm ih
        simpa using this
    | true =>
      rw [hcr] at hhead
      simp only [if_true, Bool.and_eq_true] at hhead ⊢
      refine Redacts.skip_prefix _ ?_ (Redacts.skip_prefix _ ?_ (Redacts.skip_prefix _ ?_ ih))
      · intro s hs hsuf
        apply matchSet_none_of_chain
        have := quietBefore_spec hq1 hs hsuf
        have e : s ++ (c.head ++ (lit c.body ++ renderText cs z)) = (s ++ c.head) ++ '\'' :: (c.body ++ ['\''] ++ renderText cs z) := by
          simp [lit]
        rw [e, chainSet_stopper stopper_quote, this]; rfl
      · intro s hs hsuf
        apply matchSet_none_of_chain
        have := quietBefore_spec hhead.2 hs hsuf
        rw [List.append_nil] at this
        have e : s ++ (lit c.body ++ renderText cs z) = s ++ '\'' :: (c.body ++ ['\''] ++ renderText cs z) := by
          simp [lit]
        rw [e, chainSet_stopper stopper_quote, this]; rfl
      · intro s hs hsuf
        apply matchSet_none_of_chain
        rw [chainSet_eq]
        exact chain_lit_suffix hb (by decide) (by decide) hs hsuf

theorem redacts_create : ∀ (cs : List Clause) (z : List Char), friendly cs z = true →
    Redacts matchCreatePassword (midText cs z) (expectedText cs z)
  | [], z, hf => by
    simp only [friendly, Bool.and_eq_true] at hf
    have := Redacts.skip_prefix (m := matchCreatePassword) z (y := []) (ys := [])
      (fun s hs hsuf => matchCreate_none_of_chain (quietBefore_spec hf.2 hs hsuf)) Redacts.nil
    simpa [expectedText, midText] using this
  | c :: cs, z, hf => by
    have hf' := hf
    simp only [friendly, Bool.and_eq_true, clauseOK] at hf
    obtain ⟨⟨⟨⟨⟨hq1, hq2⟩, hhead⟩, hb⟩, hsp⟩, hrest⟩ := hf
    have ih := redacts_create cs z hrest
    have hsp' := friendly_tail_headSpace_mid cs z hsp hrest
    simp only [expectedText, midText]
    cases hcr : c.create with
    | false =>
      rw [hcr] at hhead
      simp only [Bool.false_eq_true, if_false, Bool.and_eq_true] at hhead ⊢
      obtain ⟨t, ht⟩ := redacted_cons
      refine Redacts.skip_prefix _ ?_ (Redacts.skip_prefix _ ?_ (Redacts.skip_prefix _ ?_ ih))
      · intro s hs hsuf
        apply matchCreate_none_of_chain
        have := quietBefore_spec hq2 hs hsuf
        have e : s ++ (c.head ++ (redacted ++ midText cs z)) = (s ++ c.head) ++ '[' :: (t ++ midText cs z) := by
          simp [ht]
        rw [e, chainCreate_stopper stopper_bracket, this]; rfl
      · intro s hs hsuf
        apply matchCreate_none_of_chain
        have := quietBefore_spec hhead.2 hs hsuf
        rw [List.append_nil] at this
        have e : s ++ (redacted ++ midText cs z) = s ++ '[' :: (t ++ midText cs z) := by
          simp [ht]
        rw [e, chainCreate_stopper stopper_bracket, this]; rfl
      · intro s hs hsuf
        apply matchCreate_none_of_chain
        exact chainCreate_redacted_suffix hs hsuf
    | true =>
      rw [hcr] at hhead
      simp only [if_true, Bool.and_eq_true] at hhead ⊢
      refine Redacts.skip_prefix _ ?_ ?_
      · intro s hs hsuf
        apply matchCreate_none_of_chain
        have := quietBefore_spec hq2 hs hsuf
        have e : s ++ (c.head ++ (lit c.body ++ midText cs z)) = (s ++ c.head) ++ '\'' :: (c.body ++ ['\''] ++ midText cs z) := by
          simp [lit]
        rw [e, chainCreate_stopper stopper_quote, this]; rfl
      · have hm := matchCreate_head (r := midText cs z) hhead.1 hb hsp'
        have := Redacts.hit hm ih
        simpa using this

/-- The exact result of `sanitize` on a regex-friendly text: every password literal, and nothing
else, is replaced. -/
theorem sanitize_friendly_eq (cs : List Clause) (z : List Char) (hf : friendly cs z = true) :
    sanitize (renderText cs z) = expectedText cs z := by
  unfold sanitize passSet passCreate
  rw [pass_eq_of_redacts matchSetPassword_ok (redacts_set cs z hf) _ (Nat.lt_succ_self _)]
  exact pass_eq_of_redacts matchCreatePassword_ok (redacts_create cs z hf) _ (Nat.lt_succ_self _)

/-! ### Further helpers for Props/C15 -/

/-- Does the word `password` (in any case, with U+017F for `s`) occur in the text? -/
def hasPasswordWord : List Char → Bool
  | [] => false
  | c :: t => (matchKw kwPassword (c :: t)).isSome || hasPasswordWord t

theorem hasPasswordWord_spec {xs : List Char} (h : hasPasswordWord xs = false) :
    ∀ s, s <:+ xs → matchKw kwPassword s = none := by
  induction xs with
  | nil =>
    intro s hs
    rw [List.eq_nil_of_suffix_nil hs]
    rfl
  | cons c t ih =>
    simp only [hasPasswordWord, Bool.or_eq_false_iff, Option.isSome_eq_false_iff, Option.isNone_iff_eq_none] at h
    intro s hs
    rcases List.suffix_cons_iff.mp hs with rfl | h'
    · exact h.1
    · exact ih h.2 s h'

theorem closeQuote_no_space {g rest : List Char} (hg : ∀ c ∈ g, isSpace c = false) :
    ∀ c ∈ (closeQuote g rest).1, isSpace c = false := by
  unfold closeQuote
  split
  · rename_i q r
    split
    · rename_i hq
      intro c hc
      rcases List.mem_append.mp hc with h | h
      · exact hg c h
      · simp at h
        subst h
        unfold isQuote at hq
        cases h1 : (c == '"') <;> cases h2 : (c == '\'') <;> simp_all <;> decide
    · exact hg
  · exact hg

theorem groupBody_no_space {xs g r : List Char} (h : groupBody xs = some (g, r)) :
    ∀ c ∈ g, isSpace c = false := by
  unfold groupBody at h
  split at h
  · simp at h
  · simp only [Option.some.injEq] at h
    have := closeQuote_no_space (g := xs.takeWhile isPw) (rest := xs.dropWhile isPw)
      (fun c hc => isPw_not_space (mem_takeWhile_sat _ _ _ hc))
    rw [h] at this
    exact this

theorem matchGroup_no_space {xs g r : List Char} (h : matchGroup xs = some (g, r)) :
    ∀ c ∈ g, isSpace c = false := by
  unfold matchGroup at h
  split at h
  · simp at h
  · rename_i q t
    split at h
    · rename_i hq
      split at h
      · rename_i g' r' hb
        simp only [Option.some.injEq, Prod.mk.injEq] at h
        obtain ⟨rfl, rfl⟩ := h
        intro c hc
        rcases List.mem_cons.mp hc with rfl | hc
        · unfold isQuote at hq
          cases h1 : (c == '"') <;> cases h2 : (c == '\'') <;> simp_all <;> decide
        · exact groupBody_no_space hb c hc
      · exact groupBody_no_space h
    · exact groupBody_no_space h

theorem spacesGroup_shape {pre xs p g rest : List Char} (h : spacesGroup pre xs = some (p, g, rest)) :
    (∀ c ∈ g, isSpace c = false) ∧ ∃ p' w, p = p' ++ [w] ∧ isSpace w = true := by
  unfold spacesGroup at h
  split at h
  · simp at h
  · rename_i w r hw
    split at h
    · simp at h
    · rename_i g' rest' hg
      simp only [Option.some.injEq, Prod.mk.injEq] at h
      obtain ⟨rfl, rfl, rfl⟩ := h
      refine ⟨matchGroup_no_space hg, ?_⟩
      have a := matchSpaces_sound hw
      rcases List.eq_nil_or_concat w with h0 | ⟨w', c, hc⟩
      · exact absurd h0 a.2.1
      · refine ⟨pre ++ w', c, by rw [hc]; simp, a.2.2 c (by rw [hc]; simp)⟩

/-- The same clauses with other passwords. -/
def withBodies : List Clause → List (List Char) → List Clause
  | [], _ => []
  | c :: cs, [] => c :: cs
  | c :: cs, b :: bs => { c with body := b } :: withBodies cs bs

theorem expectedText_withBodies (cs : List Clause) (bs : List (List Char)) (z : List Char) :
    expectedText (withBodies cs bs) z = expectedText cs z := by
  induction cs generalizing bs with
  | nil => rfl
  | cons c cs ih =>
    cases bs with
    | nil => rfl
    | cons b bs => simp [withBodies, expectedText, ih]

end InfluxQL.Sanitize

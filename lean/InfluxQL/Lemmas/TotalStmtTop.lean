import InfluxQL.Lemmas.TotalStmtHandlers
/-
Totality of the statement parser (C04), part 4: the dispatch over the generated tree
(`ParseTree.Parse`), `ParseStatement`, the `;` loop of `ParseQuery`, and the two entry points on
texts.
-/
namespace InfluxQL
open Gen

/-! ### The dispatch tree -/

/-- `it` rounds suffice to descend from node `idx` to any leaf of the generated tree. -/
def dispatchDepthOK : Nat → Nat → Bool
  | 0, _ => false
  | it + 1, idx => (dispatch.getD idx default).subs.all (fun p => dispatchDepthOK it p.2)

theorem lookupTok_mem {α : Type} {t : Token} {l : List (Token × α)} {v : α} (h : lookupTok t l = some v) :
    (t, v) ∈ l := by
  induction l with
  | nil => cases h
  | cons p rest ih =>
    obtain ⟨k, w⟩ := p
    unfold lookupTok at h
    by_cases hk : k = t
    · rw [if_pos hk] at h
      cases h
      rw [hk]
      exact List.mem_cons_self
    · rw [if_neg hk] at h
      exact List.mem_cons_of_mem _ (ih h)

/-- What `ParseTree.Parse` does with the token it has scanned. -/
def dispatchStep (F it idx : Nat) (lx : Lexeme) : P Statement :=
  match lookupTok lx.tok (dispatch.getD idx default).subs with
  | some j => dispatchLoop F it j
  | none =>
    match lookupTok lx.tok (dispatch.getD idx default).handlers with
    | some h => runHandler F h
    | none => throw (.err (.found (tokstr lx.tok lx.lit) ((dispatch.getD idx default).keys.map Token.str) lx.pos))

theorem dispatchLoop_succ (F it idx : Nat) :
    dispatchLoop F (it + 1) idx = scanIW >>= dispatchStep F it idx := rfl

theorem dispatchStep_tot {B F : Nat} (hF : 2 * B + 3 ≤ F) (it idx : Nat) (lx : Lexeme)
    (hd : dispatchDepthOK (it + 1) idx = true)
    (ih : ∀ j, dispatchDepthOK it j = true → Tot B (dispatchLoop F it j)) :
    Tot B (dispatchStep F it idx lx) := by
  unfold dispatchStep
  split
  · rename_i j hj
    have hm := lookupTok_mem hj
    unfold dispatchDepthOK at hd
    exact ih j (List.all_eq_true.mp hd _ hm)
  · split
    · exact runHandler_tot hF _
    · exact Tot.throwErr _

/-- The descent through the dispatch tree never runs out of rounds (given the depth check on the
generated table) and every handler it may reach is total. -/
theorem dispatchLoop_tot {B F : Nat} (hF : 2 * B + 3 ≤ F) : ∀ (it idx : Nat),
    dispatchDepthOK it idx = true → Tot B (dispatchLoop F it idx) := by
  intro it
  induction it with
  | zero => intro idx h; cases h
  | succ it ih =>
    intro idx h
    rw [dispatchLoop_succ]
    exact Tot.scanIW_bind (fun lx => TotA.of_tot (dispatchStep_tot hF it idx lx h ih))

/-- `ParseStatement` when it is known which token its first `ScanIgnoreWhitespace` delivers:
progress is measured from the state after that token. -/
theorem dispatchLoop_after {B F : Nat} (hF : 2 * B + 3 ≤ F) (it idx : Nat)
    (hdep : dispatchDepthOK (it + 1) idx = true) {s0 s1 : PState} {lx : Lexeme}
    (hrun : scanIW.run s0 = .ok (lx, s1)) (hs1 : Std B s1) :
    wp (dispatchLoop F (it + 1) idx) s0 (fun _ s' => Prog s1 s' ∧ s'.n ≤ 1) Fail.isErr := by
  rw [dispatchLoop_succ, wp_bind, wp_of_run_ok hrun]
  exact dispatchStep_tot hF it idx lx hdep (fun j hj => dispatchLoop_tot hF it j hj) s1 hs1

/-! ### `ParseQuery` -/

theorem Tot.scanIW_bind' {β : Type} {B : Nat} {f : Lexeme → P β}
    (h : ∀ lx, lx.tok ≠ .WS → lx.tok ≠ .COMMENT → TotA B lx (f lx)) : Tot B (scanIW >>= f) := by
  intro s hs
  rw [wp_bind]
  refine wp_false_elim (scanIW_wp s hs.good) ?_
  intro lx s1 ⟨hd, h1, h2⟩
  exact h lx h1 h2 s s1 hs hd

theorem semicolon_ne_eof {lx : Lexeme} (h : lx.tok = .SEMICOLON) : lx.tok ≠ .EOF := by
  rw [h]; decide

/-- **The `;` loop of `ParseQuery` never runs out of rounds**: a round that continues has consumed
a `;` or a whole statement, which starts with a token other than EOF. -/
theorem queryLoop_tot {F : Nat} (hdep : dispatchDepthOK (dispatch.length + 1) 0 = true) :
    ∀ (it B : Nat) (semi : Bool) (acc : List Statement), 2 * B + 3 ≤ F → B + 1 ≤ it →
      Tot B (queryLoop F it semi acc) := by
  intro it
  induction it with
  | zero => intro B semi acc _ h; omega
  | succ it ih =>
    intro B semi acc hF hit
    unfold queryLoop
    refine Tot.scanIW_bind' (fun lx hws hcm => TotA.ite (fun _ => TotA.pure _) (fun hne => ?_))
    refine TotA.ite (fun hsc => TotA.of_tot_lt (semicolon_ne_eof hsc)
      (fun hB => ih (B - 1) _ _ (by omega) (by omega))) (fun _ => ?_)
    dsimp only
    refine TotA.ite (fun _ => by tot) (fun _ => ?_)
    intro s s1 hs hd
    rw [wp_bind, unscan_wp, wp_bind]
    have hrun := hd.rescanIW hws hcm
    have hlt := hd.lt_of_tok hne
    have hs1 : Std (B - 1) s1 :=
      ⟨hd.good, by have := hd.nle; have := hs.n1; omega, by have := hs.mu_le; omega⟩
    have hB : 1 ≤ B := by have := hs.mu_le; omega
    refine wp_mono (dispatchLoop_after (B := B - 1) (by omega) dispatch.length 0 hdep hrun hs1) ?_
      (fun _ h => h)
    intro st s2 ⟨hp2, hn2⟩
    refine wp_mono (ih (B - 1) false (acc ++ [st]) (by omega) (by omega) s2 (hs1.of_prog hp2 hn2)) ?_
      (fun _ h => h)
    intro r s3 ⟨hp3, hn3⟩
    exact ⟨(hd.prog.trans hp2).trans hp3, hn3⟩

theorem parseStatement_tot {B F : Nat} (hdep : dispatchDepthOK (dispatch.length + 1) 0 = true)
    (hF : 2 * B + 3 ≤ F) : Tot B (parseStatement F) :=
  dispatchLoop_tot hF _ _ hdep

theorem parseQuery_tot {B F : Nat} (hdep : dispatchDepthOK (dispatch.length + 1) 0 = true)
    (hF : 2 * B + 3 ≤ F) : Tot B (parseQuery F) := by
  unfold parseQuery
  exact Tot.loopFuel_bind (fun it B' hB hit => queryLoop_tot hdep it B' _ _ (by omega) (by omega))

/-! ### Entry points on texts -/

theorem init_std (text : Str) (params : List (Str × BoundValue)) (tbl : List (Char × Char)) :
    Std (text.length + 1) (PState.init text params tbl) := by
  obtain ⟨hg, hn, hmu⟩ := init_good text params tbl
  exact ⟨hg, by omega, hmu⟩

/-- A result that is a value or an ordinary parse error (neither `Fail.fuel` nor `Fail.panic`). -/
def Returns {α : Type} (r : Except Fail α) : Prop :=
  match r with
  | .ok _ => True
  | .error f => f.isErr

theorem Returns.ne_fuel {α : Type} {r : Except Fail α} (h : Returns r) : r ≠ .error .fuel := by
  intro he; rw [he] at h; exact h

theorem Returns.ne_panic {α : Type} {r : Except Fail α} (h : Returns r) (m : Str) : r ≠ .error (.panic m) := by
  intro he; rw [he] at h; exact h

theorem run'_total {α : Type} {m : P α} {s : PState} {Q : α → PState → Prop}
    (h : wp m s Q Fail.isErr) : Returns (m.run' s) := by
  unfold wp at h
  show Returns (Prod.fst <$> m.run s)
  cases hr : m.run s with
  | error e => rw [hr] at h; exact h
  | ok p => trivial

theorem parseStatementText_total (hdep : dispatchDepthOK (dispatch.length + 1) 0 = true)
    (text : Str) (params : List (Str × BoundValue)) (tbl : List (Char × Char)) :
    Returns (parseStatementText text params tbl) :=
  run'_total (parseStatement_tot (F := fuelFor text) hdep (by unfold fuelFor; omega) _
    (init_std text params tbl))

theorem parseQueryText_total (hdep : dispatchDepthOK (dispatch.length + 1) 0 = true)
    (text : Str) (params : List (Str × BoundValue)) (tbl : List (Char × Char)) :
    Returns (parseQueryText text params tbl) :=
  run'_total (parseQuery_tot (F := fuelFor text) hdep (by unfold fuelFor; omega) _
    (init_std text params tbl))

end InfluxQL

import InfluxQL.Lemmas.SelectRegexSrc
/-
SELECT with regex sources and regex GROUP BY dimensions (C02).

* `sourcesLoop_mixedR` / `parseSourcesWith_mixedR`: the source list may contain qualified measurements, subqueries and
  regex measurements `/re/`, `rp./re/`, `db../re/`, `db.rp./re/`.
* `dimLoop_printR` / `parseDimensions_printR`: a dimension is of C03's wide class or a regex literal (`GROUP BY /re/`:
  `parseDimension` reads it with `parseRegex`, then `ScanIgnoreWhitespace; Unscan`; the loop's raw `Scan` re-delivers
  the pushed-back token).
* `selectBody_printR`: `parseSelectStatement` on the printed clauses with such dimensions (generic in the sources).
* `selOKR` (decidable, on the AST, indexed by the nesting depth) and `parseSelect_subR`.
-/
namespace InfluxQL
open Gen

/-! ## the source list -/

/-- A source the round trip covers: a qualified measurement with a name, a subquery the subquery parser reads back,
or a regex measurement. -/
def SrcOKR (tbl : List (Char × Char)) (parseSub : P SelectStmt) (x : Source) : Prop :=
  SrcOK tbl parseSub x ∨ ∃ db rp src, x = .measurement (reM db rp src) ∧ ReSrcOK db rp src

/-- **One source**: a qualified measurement, `(SELECT …)` or a regex measurement. -/
theorem parseSource_mixedR (tbl : List (Char × Char)) (parseSub : P SelectStmt) (s : PState) (x : Source) (rest : Str)
    (hx : SrcOKR tbl parseSub x) (htb : s.lowerTbl = tbl) (hrest : RT.SepU rest)
    (hs : s.Before (' ' :: (x.print ++ rest))) :
    wp (parseSourceWith (some parseSub)) s
      (fun r s' => r = x ∧ ∃ s0, s0.Before rest ∧ scanIW.run s' = scanIW.run s0) (· = .fuel) := by
  rcases hx with hx | ⟨db, rp, src, rfl, hok⟩
  · exact parseSource_mixed tbl parseSub s x rest hx htb hrest hs
  · obtain ⟨s', h, hb, _⟩ := parseSource_regex (some parseSub) s db rp src rest hok hs
    rw [wp_of_run_ok h]
    exact ⟨rfl, s', hb, rfl⟩

/-- The loop of `parseSources` on a printed list of measurements, subqueries and regex measurements. -/
theorem sourcesLoop_mixedR (tbl : List (Char × Char)) (parseSub : P SelectStmt) (hF : Frame parseSub) (xs : List Source) :
    ∀ (it : Nat) (acc : List Source) (s : PState) (x : Source) (k : Str),
    xs.length < it → s.lowerTbl = tbl → (∀ y ∈ x :: xs, SrcOKR tbl parseSub y) → Follow k [.COMMA] →
    s.Before (' ' :: (x.print ++ (moreSrcs xs ++ k))) →
    wp (sourcesLoop (some parseSub) it acc) s (fun r s' => r = acc ++ x :: xs ∧ RT.Stand s' k) (· = .fuel) := by
  have hsubF : SubFrame (some parseSub) := fun p hp => by cases hp; exact hF
  induction xs with
  | nil =>
    intro it acc s x k hit htb hok hk hs
    obtain ⟨it', rfl⟩ : ∃ it', it = it' + 1 := ⟨it - 1, by simp at hit; omega⟩
    rw [sourcesLoop, wp_bind]
    refine wp_mono (parseSource_mixedR tbl parseSub s x k (hok x (by simp)) htb hk.1 (by simpa [moreSrcs] using hs)) ?_
      (fun _ h => h)
    intro r s1 ⟨hr, s0, hb0, he⟩
    subst hr
    obtain ⟨T, hT, hne⟩ := hk.starts (t := .COMMA) (by simp)
    obtain ⟨lx, s2, h2, t2, st2, _⟩ := RT.scanIW_starts s0 k T hb0.stand hT
    have : lx.tok ≠ .COMMA := by rw [t2]; exact hne
    rw [wp_bind, wp_of_run_ok (he.trans h2), wp_ite, if_pos this, wp_bind, unscan_wp, wp_pure]
    exact ⟨rfl, st2⟩
  | cons m xs ih =>
    intro it acc s x k hit htb hok hk hs
    obtain ⟨it', rfl⟩ : ∃ it', it = it' + 1 := ⟨it - 1, by simp at hit; omega⟩
    have hrest : RT.SepU (',' :: ' ' :: (m.print ++ (moreSrcs xs ++ k))) := Or.inl (Or.inr ⟨_, Or.inr rfl⟩)
    rw [sourcesLoop, wp_bind]
    refine wp_mono (wp_frame (parseSourceWith_frame _ hsubF) (parseSource_mixedR tbl parseSub s x _ (hok x (by simp)) htb
      hrest (by simpa [moreSrcs, List.append_assoc] using hs))) ?_ (fun _ h => h)
    intro r s1 ⟨⟨hr, s0, hb0, he⟩, sm1⟩
    subst hr
    obtain ⟨lx, s2, h2, t2, _, b2⟩ := scanIW_piece0 s0 [] [','] (' ' :: (m.print ++ (moreSrcs xs ++ k))) .COMMA []
      Gap.none (by simpa using hb0) (scansAs_comma _)
    have htb2 : s2.lowerTbl = tbl := ((sm1.trans (scanIW_frame.run (he.trans h2))).2).trans htb
    have : ¬ lx.tok ≠ .COMMA := by rw [t2]; simp
    rw [wp_bind, wp_of_run_ok (he.trans h2), wp_ite, if_neg this]
    refine wp_mono (ih it' (acc ++ [r]) s2 m k (by simp at hit ⊢; omega) htb2
      (fun y hy => hok y (by simp at hy ⊢; exact Or.inr hy)) hk b2) ?_ (fun _ h => h)
    intro r' s3 ⟨hr', st3⟩
    exact ⟨by rw [hr']; simp, st3⟩

/-- **`parseSources`** on a blank and the printed list of measurements, subqueries and regex measurements. -/
theorem parseSourcesWith_mixedR (tbl : List (Char × Char)) (parseSub : P SelectStmt) (hF : Frame parseSub) (s : PState)
    (x : Source) (xs : List Source) (k : Str) (htb : s.lowerTbl = tbl) (hok : ∀ y ∈ x :: xs, SrcOKR tbl parseSub y)
    (hk : Follow k [.COMMA]) (hs : s.Before (' ' :: (printSources (x :: xs) ++ k))) :
    wp (parseSourcesWith (some parseSub)) s (fun r s' => r = x :: xs ∧ RT.Stand s' k) (· = .fuel) := by
  rw [printSources_cons, List.append_assoc] at hs
  have hch : s.r.chars = ' ' :: (x.print ++ (moreSrcs xs ++ k)) := hs.2.chars_of_cons (by decide)
  have hlen : xs.length < s.n + s.r.rest.length + 2 := by
    have h1 := length_moreSrcs xs
    have h2 : s.r.rest.length = (' ' :: (x.print ++ (moreSrcs xs ++ k))).length := by
      rw [← hch]; simp [Cursor.chars]
    rw [h2]
    simp only [List.length_cons, List.length_append]
    omega
  have hf : loopFuel.run s = .ok (s.n + s.r.rest.length + 2, s) := rfl
  unfold parseSourcesWith
  rw [wp_bind, wp_of_run_ok hf]
  refine wp_mono (sourcesLoop_mixedR tbl parseSub hF xs _ [] s x k hlen htb hok hk hs) ?_ (fun _ h => h)
  intro r s' ⟨hr, st⟩
  exact ⟨by simpa using hr, st⟩

/-! ## GROUP BY with regex dimensions -/

/-- A dimension of the class: a regex literal of C03's operand class, or an expression of the wide class. -/
def dimOKR (tbl : List (Char × Char)) (d : Expr) : Bool := RT.regexLitB d || RT.wOK tbl d

/-- `parseDimension` on a printed regex dimension: the literal is read, the next significant token is looked at and
pushed back; the loop's raw `Scan` then re-delivers exactly that token. -/
theorem parseDimension_regex (F : Nat) (s : PState) (src rest : Str) (T : Token) (hn : s.n = 0)
    (hsrc : RT.regexB src = true) (hch : s.r.chars = ' ' :: ((Expr.regex src).print ++ rest))
    (hT : RT.Starts rest T) :
    ∃ lx s1 r1, (parseDimension F).run s = .ok (.regex src, unsc s1) ∧ lx.tok = T ∧ RT.Stand (unsc s1) rest ∧
      RT.Just s1 lx r1 ∧ RT.Same s s1 ∧ pscan.run (unsc s1) = .ok (lx, s1) ∧
      ∃ s0, s0.Before rest ∧ scanIW.run s0 = .ok (lx, s1) := by
  have hch' : s.r.chars = ' ' :: '/' :: (escapeSlashes src ++ '/' :: rest) := by
    rw [hch, RT.print_regex]; simp
  obtain ⟨lx0, s', hre, hj, hch2, sm⟩ := RT.parseRegex_text s src rest hn hsrc (Or.inr hch')
  have hb' : s'.Before rest := PState.Before.of_chars hj.1 hch2
  obtain ⟨lx, s1, r1, hsc, ht, hst, hj1⟩ := RT.scanIW_starts_just s' rest T hb'.stand hT
  have hnb : lx.tok ≠ .BOUNDPARAM := by rw [ht]; exact hT.1.1
  refine ⟨lx, s1, r1, ?_, ht, hst, hj1, sm.trans (scanIW_frame.run hsc), RT.pscan_redeliver s1 lx r1 hj1 hnb, s', hb', hsc⟩
  unfold parseDimension
  rw [P.run_bind _ _ _ _ _ hre]
  dsimp only
  rw [P.run_bind _ _ _ _ _ hsc, P.run_bind _ _ _ _ _ (unscan_run s1)]
  rfl

theorem starts_comma (more : Str) : RT.Starts (',' :: more) .COMMA := by
  have := starts_piece [] [','] more .COMMA [] Gap.none (scansAs_comma more)
  simpa using this

/-- The loop of `parseDimensions` on printed dimensions: regex literals and expressions of the wide class. -/
theorem dimLoop_printR (tbl : List (Char × Char)) (F : Nat) (ds : List Expr) :
    ∀ (it : Nat) (acc : List Expr) (s : PState) (d : Expr) (k : Str),
    ds.length < it → s.lowerTbl = tbl → (∀ x ∈ d :: ds, dimOKR tbl x = true) → Follow k [.COMMA] → s.n = 0 →
    s.r.chars = ' ' :: (d.print ++ (moreDims ds ++ k)) →
    wp (dimLoop F it acc) s (fun r s' => r = acc ++ d :: ds ∧ RT.Stand s' k) (· = .fuel) := by
  induction ds with
  | nil =>
    intro it acc s d k hit htb hok hk hn hch
    obtain ⟨it', rfl⟩ : ∃ it', it = it' + 1 := ⟨it - 1, by simp at hit; omega⟩
    have hd0 := hok d (by simp)
    have hch' : s.r.chars = ' ' :: (d.print ++ k) := by simpa [moreDims] using hch
    simp only [dimOKR, Bool.or_eq_true] at hd0
    rcases hd0 with hre | hd
    · obtain ⟨src, rfl, hsrc⟩ := RT.regexLitB_elim hre
      obtain ⟨T, hT, hne⟩ := hk.starts (t := .COMMA) (by simp)
      obtain ⟨lx, s1, r1, hrun, ht, hst, hj1, _, hps, _⟩ := parseDimension_regex F s src k T hn hsrc hch' hT
      have : lx.tok ≠ .COMMA := by rw [ht]; exact hne
      rw [dimLoop, wp_bind, wp_of_run_ok hrun, wp_bind, wp_of_run_ok hps, wp_ite, if_pos this, wp_bind, unscan_wp, wp_pure]
      exact ⟨rfl, hst⟩
    · obtain ⟨hnrs, _⟩ := RT.exprW_start d hd k hk.1
      obtain ⟨s2, hr2, hn2, hch2, hsm2⟩ := RT.parseRegex_none s _ hn hnrs (Or.inr hch')
      rw [dimLoop, wp_bind]
      unfold parseDimension
      rw [wp_bind, wp_of_run_ok hr2]
      dsimp only
      rw [wp_bind]
      refine wp_mono ((RT.w_specs tbl F).1 s2 d k (hsm2.2.trans htb) hd hk.exprEnd
        ⟨s2.r, Or.inl ⟨hn2, rfl⟩, Or.inl hch2⟩) ?_ (fun _ h => h)
      intro e' s3 ⟨he', st3, _⟩
      subst he'
      obtain ⟨s4, r4, h4, l4, t4, b4, hst⟩ := dim_end s3 k st3 hk
      obtain ⟨s5, h5, j5, _⟩ := RT.pscan_look s4 r4 l4 b4
      rw [wp_bind, wp_of_run_ok h4, wp_pure, wp_bind, wp_of_run_ok h5, wp_ite, if_pos t4, wp_bind, unscan_wp, wp_pure]
      exact ⟨rfl, hst s5 j5⟩
  | cons g ds ih =>
    intro it acc s d k hit htb hok hk hn hch
    obtain ⟨it', rfl⟩ : ∃ it', it = it' + 1 := ⟨it - 1, by simp at hit; omega⟩
    have hd0 := hok d (by simp)
    have hch' : s.r.chars = ' ' :: (d.print ++ (',' :: ' ' :: (g.print ++ (moreDims ds ++ k)))) := by
      simpa [moreDims, List.append_assoc] using hch
    simp only [dimOKR, Bool.or_eq_true] at hd0
    rcases hd0 with hre | hd
    · obtain ⟨src, rfl, hsrc⟩ := RT.regexLitB_elim hre
      obtain ⟨lx, s1, r1, hrun, ht, _, hj1, sm1, hps, s0, hb0, hsc0⟩ := parseDimension_regex F s src _ .COMMA hn hsrc hch'
        (starts_comma _)
      -- where the comma was read from
      obtain ⟨lx', s2, h2, _, _, b2⟩ := scanIW_piece0 s0 [] [','] (' ' :: (g.print ++ (moreDims ds ++ k))) .COMMA []
        Gap.none (by simpa using hb0) (scansAs_comma _)
      have e2 : s2 = s1 := by
        have := hsc0.symm.trans h2
        injection this with this
        injection this with _ this
        exact this.symm
      subst e2
      have htb1 : s2.lowerTbl = tbl := sm1.2.trans htb
      rw [dimLoop, wp_bind, wp_of_run_ok hrun, wp_bind, wp_of_run_ok hps, wp_ite, if_neg (by rw [ht]; simp)]
      refine wp_mono (ih it' (acc ++ [.regex src]) s2 g k (by simp at hit ⊢; omega) htb1
        (fun x hx => hok x (by simp at hx ⊢; exact Or.inr hx)) hk b2.1 (b2.2.chars_of_cons (by decide))) ?_ (fun _ h => h)
      intro r s6 ⟨hr, st⟩
      exact ⟨by rw [hr]; simp, st⟩
    · have hsep : RT.SepC (',' :: ' ' :: (g.print ++ (moreDims ds ++ k))) := Or.inr ⟨_, Or.inr rfl⟩
      obtain ⟨hnrs, _⟩ := RT.exprW_start d hd _ (Or.inl hsep)
      obtain ⟨s2, hr2, hn2, hch2, hsm2⟩ := RT.parseRegex_none s _ hn hnrs (Or.inr hch')
      rw [dimLoop, wp_bind]
      unfold parseDimension
      rw [wp_bind, wp_of_run_ok hr2]
      dsimp only
      rw [wp_bind]
      refine wp_mono ((RT.w_specs tbl F).1 s2 d _ (hsm2.2.trans htb) hd (RT.ExprEnd.of_sepC hsep)
        ⟨s2.r, Or.inl ⟨hn2, rfl⟩, Or.inl hch2⟩) ?_ (fun _ h => h)
      intro e' s3 ⟨he', st3, hsm3⟩
      subst he'
      obtain ⟨s4, r4, h4, l4, t4, c4⟩ := dim_comma s3 _ st3
      obtain ⟨s5, h5, j5, hsm5⟩ := RT.pscan_look s4 r4 l4 (by rw [t4]; decide)
      have htb5 : s5.lowerTbl = tbl :=
        ((((hsm2.trans hsm3).trans (consumeWhitespace_frame.run h4)).trans hsm5).2).trans htb
      rw [wp_bind, wp_of_run_ok h4, wp_pure, wp_bind, wp_of_run_ok h5, wp_ite, if_neg (by rw [t4]; simp)]
      refine wp_mono (ih it' (acc ++ [e']) s5 g k (by simp at hit ⊢; omega) htb5
        (fun x hx => hok x (by simp at hx ⊢; exact Or.inr hx)) hk j5.1 (by rw [j5.2.2]; exact c4)) ?_ (fun _ h => h)
      intro r s6 ⟨hr, st⟩
      exact ⟨by rw [hr]; simp, st⟩

/-- **GROUP BY** on its printed form, dimensions regex literals or of the wide class; absent, nothing is consumed. -/
theorem parseDimensions_printR (F : Nat) (s : PState) (ds : List Expr) (k : Str)
    (hok : ∀ x ∈ ds, dimOKR s.lowerTbl x = true) (hk : Follow k [.GROUP, .COMMA])
    (hs : RT.Stand s (groupText ds ++ k)) :
    wp (parseDimensions F) s (fun r s' => r = ds ∧ RT.Stand s' k) (· = .fuel) := by
  cases ds with
  | nil =>
    obtain ⟨s', h, st⟩ := parseDimensions_absent F s k (hk.mono (by decide)) (by simpa [groupText] using hs)
    rw [wp_of_run_ok h]
    exact ⟨rfl, st⟩
  | cons d ds =>
    have hs' : RT.Stand s ([' '] ++ (Token.GROUP.str ++ (' ' :: (Token.BY.str ++ ' ' :: (d.print ++ (moreDims ds ++ k)))))) := by
      simpa [groupText, List.append_assoc] using hs
    obtain ⟨lx1, s1, h1, t1, _, b1⟩ := scanIW_stand s [' '] Token.GROUP.str _ .GROUP [] Gap.blank hs'
      (scansAs_kw .GROUP _ (by decide +kernel) (WordEnd.blank _))
    obtain ⟨s2, h2, b2⟩ := expectTok_piece s1 [' '] Token.BY.str _ .BY [] ["BY"] Gap.blank b1.around
      (scansAs_kw .BY _ (by decide +kernel) (WordEnd.blank _))
    have htb2 : s2.lowerTbl = s.lowerTbl := ((scanIW_frame.run h1).trans ((expectTok_frame _ _).run h2)).2
    have hch : s2.r.chars = ' ' :: (d.print ++ (moreDims ds ++ k)) := b2.2.chars_of_cons (by decide)
    have hlen : ds.length < s2.n + s2.r.rest.length + 2 := by
      have h1 := length_moreDims ds
      have h2 : s2.r.rest.length = (' ' :: (d.print ++ (moreDims ds ++ k))).length := by
        rw [← hch]; simp [Cursor.chars]
      rw [h2]
      simp only [List.length_cons, List.length_append]
      omega
    have hf : loopFuel.run s2 = .ok (s2.n + s2.r.rest.length + 2, s2) := rfl
    unfold parseDimensions
    rw [wp_bind, wp_of_run_ok h1, wp_ite, if_neg (by rw [t1]; simp), wp_bind, wp_of_run_ok h2, wp_bind, wp_of_run_ok hf]
    refine wp_mono (dimLoop_printR s.lowerTbl F ds _ [] s2 d k hlen htb2 hok (hk.mono (by decide)) b2.1 hch) ?_
      (fun _ h => h)
    intro r s' ⟨hr, st⟩
    exact ⟨by simpa using hr, st⟩

end InfluxQL

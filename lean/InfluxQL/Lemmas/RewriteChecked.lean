import InfluxQL.Model.RewriteChecked
import InfluxQL.Lemmas.OpsChecked
/-!
Lemmas about the checked model of `Rewrite` (`Model/RewriteChecked.lean`): under the contract
`Accepts rw` (implied by `KindPreserving rw`) every case of the traversal returns a node of the
interface kind the enclosing assertion demands, so no assertion fires; with the identity rewriter the
traversal returns its argument.
-/
namespace InfluxQL.Checked
open InfluxQL

/-! ## Inversion of `Node.kind` -/

theorem Node.kind_nil {n : Node} (h : n.kind = .nil) : n = .nil := by
  cases n <;> first | rfl | (rename_i s; cases s <;> cases h) | cases h

theorem Node.kind_statements {n : Node} (h : n.kind = .statements) : ∃ l, n = .statements l := by
  cases n <;> first | exact ⟨_, rfl⟩ | (rename_i s; cases s <;> cases h) | cases h

theorem Node.kind_select {n : Node} (h : n.kind = .select) : ∃ s, n = .statement (.select s) := by
  cases n <;> first | (rename_i s; cases s <;> first | exact ⟨_, rfl⟩ | cases h) | cases h

theorem Node.kind_statement {n : Node} (h : n.kind = .statement) : ∃ s, n = .statement s := by
  cases n <;> first | exact ⟨_, rfl⟩ | (rename_i s; cases s <;> cases h) | cases h

theorem Node.kind_fields {n : Node} (h : n.kind = .fields) : ∃ l, n = .fields l := by
  cases n <;> first | exact ⟨_, rfl⟩ | (rename_i s; cases s <;> cases h) | cases h

theorem Node.kind_field {n : Node} (h : n.kind = .field) : ∃ f, n = .field f := by
  cases n <;> first | exact ⟨_, rfl⟩ | (rename_i s; cases s <;> cases h) | cases h

theorem Node.kind_dimensions {n : Node} (h : n.kind = .dimensions) : ∃ l, n = .dimensions l := by
  cases n <;> first | exact ⟨_, rfl⟩ | (rename_i s; cases s <;> cases h) | cases h

theorem Node.kind_dimension {n : Node} (h : n.kind = .dimension) : ∃ d, n = .dimension d := by
  cases n <;> first | exact ⟨_, rfl⟩ | (rename_i s; cases s <;> cases h) | cases h

theorem Node.kind_sources {n : Node} (h : n.kind = .sources) : ∃ l, n = .sources l := by
  cases n <;> first | exact ⟨_, rfl⟩ | (rename_i s; cases s <;> cases h) | cases h

theorem Node.kind_expr {n : Node} (h : n.kind = .expr) : ∃ e, n = .expr e := by
  cases n <;> first | exact ⟨_, rfl⟩ | (rename_i s; cases s <;> cases h) | cases h

/-- A statement node is a SELECT or has kind `statement`. -/
theorem Node.kind_of_statement (s : Statement) :
    (Node.statement s).kind = .select ∨ (Node.statement s).kind = .statement := by
  cases s <;> first | exact .inl rfl | exact .inr rfl

/-- Kind preservation gives what the assertions ask for. -/
theorem KindPreserving.accepts {rw : Node → Node} (h : KindPreserving rw) : Accepts rw where
  statements l := Node.kind_statements (h (.statements l))
  statement s := by
    rcases Node.kind_of_statement s with hs | hs
    · obtain ⟨s', hs'⟩ := Node.kind_select ((h _).trans hs)
      exact ⟨_, hs'⟩
    · exact Node.kind_statement ((h _).trans hs)
  select s := Node.kind_select (h (.statement (.select s)))
  fields l := Node.kind_fields (h (.fields l))
  field f := Node.kind_field (h (.field f))
  dimensions l := Node.kind_dimensions (h (.dimensions l))
  dimension d := Node.kind_dimension (h (.dimension d))
  sources l := Node.kind_sources (h (.sources l))
  expr e := Node.kind_expr (h (.expr e))
  nilCond := .inl (Node.kind_nil (h .nil))

theorem idRewriter_kindPreserving : KindPreserving idRewriter := fun _ => rfl

theorem exprRewriter_kindPreserving (fn : Expr → Expr) : KindPreserving (exprRewriter fn) := by
  intro n
  cases n <;> rfl

/-! ## Under the contract every case returns the kind its caller asserts -/

section
variable {rw : Node → Node} (A : Accepts rw)
include A

/-- An expression type without a case: the rewriter's answer is an expression. -/
theorem rewriteLeaf_ok (e : Expr) (h : rewriteExpr rw e = .ok (rw (.expr e))) :
    ∃ e', rewriteExpr rw e = .ok (.expr e') := by
  obtain ⟨e', he⟩ := A.expr e
  exact ⟨e', h.trans (by rw [he])⟩

set_option linter.unusedSectionVars false in
mutual
  theorem rewriteExpr_ok : ∀ e : Expr, ∃ e', rewriteExpr rw e = .ok (.expr e')
    | .binary op l r => by
      obtain ⟨l', hl⟩ := rewriteExpr_ok l
      obtain ⟨r', hr⟩ := rewriteExpr_ok r
      obtain ⟨e', he⟩ := A.expr (.binary op l' r')
      exact ⟨e', by simp only [rewriteExpr, hl, hr, he, ok_bind, pure_eq, Node.asExpr, assertT]⟩
    | .paren e => by
      obtain ⟨x, hx⟩ := rewriteExpr_ok e
      obtain ⟨e', he⟩ := A.expr (.paren x)
      exact ⟨e', by simp only [rewriteExpr, hx, he, ok_bind, pure_eq, Node.asExpr, assertT]⟩
    | .call name args => by
      obtain ⟨args', ha⟩ := rewriteArgs_ok args
      obtain ⟨e', he⟩ := A.expr (.call name args')
      exact ⟨e', by simp only [rewriteExpr, ha, he, ok_bind, pure_eq]⟩
    | .varRef .. => rewriteLeaf_ok A _ rfl
    | .distinct _ => rewriteLeaf_ok A _ rfl
    | .wildcard _ => rewriteLeaf_ok A _ rfl
    | .regex _ => rewriteLeaf_ok A _ rfl
    | .string _ => rewriteLeaf_ok A _ rfl
    | .number _ => rewriteLeaf_ok A _ rfl
    | .integer _ => rewriteLeaf_ok A _ rfl
    | .unsigned _ => rewriteLeaf_ok A _ rfl
    | .boolean _ => rewriteLeaf_ok A _ rfl
    | .duration _ => rewriteLeaf_ok A _ rfl
    | .time _ => rewriteLeaf_ok A _ rfl
    | .nil => rewriteLeaf_ok A _ rfl
    | .list _ => rewriteLeaf_ok A _ rfl
    | .boundParam _ => rewriteLeaf_ok A _ rfl
  theorem rewriteArgs_ok : ∀ args : List Expr, ∃ args', rewriteArgs rw args = .ok args'
    | [] => ⟨[], by simp only [rewriteArgs, pure_eq]⟩
    | a :: rest => by
      obtain ⟨a', ha⟩ := rewriteExpr_ok a
      obtain ⟨rest', hr⟩ := rewriteArgs_ok rest
      exact ⟨a' :: rest', by simp only [rewriteArgs, ha, hr, ok_bind, pure_eq, Node.asExpr, assertT]⟩
end

omit A in
/-- The slice loops: if `Rewrite` on every element returns a node the assertion accepts, the loop
returns. -/
theorem rewriteElems_ok {α} (site : Site) (one : α → OpRes Node) (as : Node → Option α)
    (h : ∀ x, ∃ n x', one x = .ok n ∧ as n = some x') :
    ∀ xs : List α, ∃ xs', rewriteElems site one as xs = .ok xs'
  | [] => ⟨[], rfl⟩
  | x :: rest => by
    obtain ⟨n, x', h1, h2⟩ := h x
    obtain ⟨rest', hr⟩ := rewriteElems_ok site one as h rest
    exact ⟨x' :: rest', by simp only [rewriteElems, h1, h2, hr, ok_bind, pure_eq, assertT]⟩

theorem rewriteField_ok (f : Field) : ∃ f', rewriteField rw f = .ok (.field f') := by
  obtain ⟨e', he⟩ := rewriteExpr_ok A f.expr
  obtain ⟨f', hf⟩ := A.field { expr := e', alias := f.alias }
  exact ⟨f', by simp only [rewriteField, he, hf, ok_bind, pure_eq, Node.asExpr, assertT]⟩

theorem rewriteFields_ok (fs : List Field) : ∃ l, rewriteFields rw fs = .ok (.fields l) := by
  obtain ⟨fs', h⟩ := rewriteElems_ok sRwField (rewriteField rw) Node.asField
    (fun f => by obtain ⟨f', hf⟩ := rewriteField_ok A f; exact ⟨_, f', hf, rfl⟩) fs
  obtain ⟨l, hl⟩ := A.fields fs'
  exact ⟨l, by simp only [rewriteFields, h, hl, ok_bind, pure_eq]⟩

theorem rewriteDimension_ok (d : Expr) : ∃ d', rewriteDimension rw d = .ok (.dimension d') := by
  obtain ⟨e', he⟩ := rewriteExpr_ok A d
  obtain ⟨d', hd⟩ := A.dimension e'
  exact ⟨d', by simp only [rewriteDimension, he, hd, ok_bind, pure_eq, Node.asExpr, assertT]⟩

theorem rewriteDimensions_ok (ds : List Expr) : ∃ l, rewriteDimensions rw ds = .ok (.dimensions l) := by
  obtain ⟨ds', h⟩ := rewriteElems_ok sRwDimension (rewriteDimension rw) Node.asDimension
    (fun d => by obtain ⟨d', hd⟩ := rewriteDimension_ok A d; exact ⟨_, d', hd, rfl⟩) ds
  obtain ⟨l, hl⟩ := A.dimensions ds'
  exact ⟨l, by simp only [rewriteDimensions, h, hl, ok_bind, pure_eq]⟩

/-- The guarded store of the condition returns for a present and for a nil condition. -/
theorem rewriteCondition_ok (c : Option Expr) : ∃ c', rewriteCondition rw c = .ok c' := by
  cases c with
  | some e =>
    obtain ⟨e', he⟩ := rewriteExpr_ok A e
    exact ⟨some e', by simp only [rewriteCondition, rewriteOptExpr, he, ok_bind, pure_eq, Node.asExpr, assertT]⟩
  | none =>
    rcases A.nilCond with h | ⟨e, h⟩
    · exact ⟨none, by simp only [rewriteCondition, rewriteOptExpr, h, ok_bind, pure_eq]⟩
    · exact ⟨some e, by simp only [rewriteCondition, rewriteOptExpr, h, ok_bind, pure_eq, Node.asExpr, assertT]⟩

theorem rewriteSelect_ok (s : SelectStmt) : ∃ s', rewriteSelect rw s = .ok (.statement (.select s')) := by
  obtain ⟨fields, target, dims, sources, cond, sortFields, l, o, sl, so, raw, fill, fv, loc, ta, ot, sn, en, dd⟩ := s
  obtain ⟨fields', hf⟩ := rewriteFields_ok A fields
  obtain ⟨dims', hd⟩ := rewriteDimensions_ok A dims
  obtain ⟨sources', hs⟩ := A.sources sources
  obtain ⟨cond', hc⟩ := rewriteCondition_ok A cond
  obtain ⟨s', hs'⟩ := A.select
    (.mk fields' target dims' sources' cond' sortFields l o sl so raw fill fv loc ta ot sn en dd)
  exact ⟨s', by
    simp only [rewriteSelect, hf, hd, hs, hc, hs', ok_bind, pure_eq, Node.asFields, Node.asDimensions,
      Node.asSources, assertT]⟩

/-- A statement type without a case: the rewriter's answer is a statement. -/
theorem rewriteOther_ok (st : Statement) (h : rewriteStatement rw st = .ok (rw (.statement st))) :
    ∃ st', rewriteStatement rw st = .ok (.statement st') := by
  obtain ⟨st', hst⟩ := A.statement st
  exact ⟨st', h.trans (by rw [hst])⟩

theorem rewriteStatement_ok (st : Statement) : ∃ st', rewriteStatement rw st = .ok (.statement st') := by
  cases st
  case select s =>
    obtain ⟨s', hs⟩ := rewriteSelect_ok A s
    exact ⟨.select s', by simp only [rewriteStatement, hs]⟩
  all_goals exact rewriteOther_ok A _ rfl

theorem rewriteStatements_ok (stmts : List Statement) :
    ∃ l, rewriteStatements rw stmts = .ok (.statements l) := by
  obtain ⟨stmts', h⟩ := rewriteElems_ok sRwStatement (rewriteStatement rw) Node.asStatement
    (fun st => by obtain ⟨st', hst⟩ := rewriteStatement_ok A st; exact ⟨_, st', hst, rfl⟩) stmts
  obtain ⟨l, hl⟩ := A.statements stmts'
  exact ⟨l, by simp only [rewriteStatements, h, hl, ok_bind, pure_eq]⟩

/-- `Rewrite` returns for every node. -/
theorem rewriteChecked_ok (n : Node) : ∃ m, rewriteChecked rw n = .ok m := by
  cases n
  case query stmts =>
    obtain ⟨l, hl⟩ := rewriteStatements_ok A stmts
    exact ⟨rw (.query l), by simp only [rewriteChecked, hl, ok_bind, pure_eq, Node.asStatements, assertT]⟩
  case statements stmts => obtain ⟨l, hl⟩ := rewriteStatements_ok A stmts; exact ⟨_, hl⟩
  case statement st => obtain ⟨l, hl⟩ := rewriteStatement_ok A st; exact ⟨_, hl⟩
  case fields fs => obtain ⟨l, hl⟩ := rewriteFields_ok A fs; exact ⟨_, hl⟩
  case field f => obtain ⟨l, hl⟩ := rewriteField_ok A f; exact ⟨_, hl⟩
  case dimensions ds => obtain ⟨l, hl⟩ := rewriteDimensions_ok A ds; exact ⟨_, hl⟩
  case dimension d => obtain ⟨l, hl⟩ := rewriteDimension_ok A d; exact ⟨_, hl⟩
  case expr e => obtain ⟨l, hl⟩ := rewriteExpr_ok A e; exact ⟨_, hl⟩
  case source s =>
    cases s with
    | measurement m => exact ⟨_, rfl⟩
    | subquery s =>
      obtain ⟨s', hs⟩ := rewriteSelect_ok A s
      exact ⟨rw (.source (.subquery s')),
        by simp only [rewriteChecked, hs, ok_bind, pure_eq, Node.asSelect, assertT]⟩
  all_goals exact ⟨_, rfl⟩

end

/-- Under kind preservation the result has the kind of the argument. -/
theorem rewriteChecked_kind {rw : Node → Node} (h : KindPreserving rw) (n : Node) :
    ∃ m, rewriteChecked rw n = .ok m ∧ m.kind = n.kind := by
  have A := h.accepts
  cases n
  case query stmts =>
    obtain ⟨l, hl⟩ := rewriteStatements_ok A stmts
    exact ⟨rw (.query l), by simp only [rewriteChecked, hl, ok_bind, pure_eq, Node.asStatements, assertT], h _⟩
  case statements stmts => obtain ⟨l, hl⟩ := rewriteStatements_ok A stmts; exact ⟨_, hl, rfl⟩
  case statement st =>
    cases st
    case select s => obtain ⟨l, hl⟩ := rewriteSelect_ok A s; exact ⟨_, hl, rfl⟩
    all_goals exact ⟨_, rfl, h _⟩
  case fields fs => obtain ⟨l, hl⟩ := rewriteFields_ok A fs; exact ⟨_, hl, rfl⟩
  case field f => obtain ⟨l, hl⟩ := rewriteField_ok A f; exact ⟨_, hl, rfl⟩
  case dimensions ds => obtain ⟨l, hl⟩ := rewriteDimensions_ok A ds; exact ⟨_, hl, rfl⟩
  case dimension d => obtain ⟨l, hl⟩ := rewriteDimension_ok A d; exact ⟨_, hl, rfl⟩
  case expr e => obtain ⟨l, hl⟩ := rewriteExpr_ok A e; exact ⟨_, hl, rfl⟩
  case source s =>
    cases s with
    | measurement m => exact ⟨_, rfl, h _⟩
    | subquery s =>
      obtain ⟨s', hs⟩ := rewriteSelect_ok A s
      exact ⟨rw (.source (.subquery s')),
        by simp only [rewriteChecked, hs, ok_bind, pure_eq, Node.asSelect, assertT], h _⟩
  all_goals exact ⟨_, rfl, h _⟩

/-! ## The identity rewriter returns its argument -/

mutual
  theorem rewriteExpr_id : ∀ e : Expr, rewriteExpr idRewriter e = .ok (.expr e)
    | .binary op l r => by
      simp only [rewriteExpr, rewriteExpr_id l, rewriteExpr_id r, ok_bind, pure_eq, Node.asExpr, assertT,
        idRewriter]
    | .paren e => by
      simp only [rewriteExpr, rewriteExpr_id e, ok_bind, pure_eq, Node.asExpr, assertT, idRewriter]
    | .call name args => by
      simp only [rewriteExpr, rewriteArgs_id args, ok_bind, pure_eq, idRewriter]
    | .varRef .. => rfl
    | .distinct _ => rfl
    | .wildcard _ => rfl
    | .regex _ => rfl
    | .string _ => rfl
    | .number _ => rfl
    | .integer _ => rfl
    | .unsigned _ => rfl
    | .boolean _ => rfl
    | .duration _ => rfl
    | .time _ => rfl
    | .nil => rfl
    | .list _ => rfl
    | .boundParam _ => rfl
  theorem rewriteArgs_id : ∀ args : List Expr, rewriteArgs idRewriter args = .ok args
    | [] => rfl
    | a :: rest => by
      simp only [rewriteArgs, rewriteExpr_id a, rewriteArgs_id rest, ok_bind, pure_eq, Node.asExpr, assertT]
end

theorem rewriteElems_id {α} (site : Site) (one : α → OpRes Node) (as : Node → Option α) (inj : α → Node)
    (h1 : ∀ x, one x = .ok (inj x)) (h2 : ∀ x, as (inj x) = some x) :
    ∀ xs : List α, rewriteElems site one as xs = .ok xs
  | [] => rfl
  | x :: rest => by
    simp only [rewriteElems, h1, h2, rewriteElems_id site one as inj h1 h2 rest, ok_bind, pure_eq, assertT]

theorem rewriteField_id (f : Field) : rewriteField idRewriter f = .ok (.field f) := by
  simp only [rewriteField, rewriteExpr_id, ok_bind, pure_eq, Node.asExpr, assertT, idRewriter]

theorem rewriteFields_id (fs : List Field) : rewriteFields idRewriter fs = .ok (.fields fs) := by
  simp only [rewriteFields, rewriteElems_id sRwField _ Node.asField Node.field rewriteField_id (fun _ => rfl),
    ok_bind, pure_eq, idRewriter]

theorem rewriteDimension_id (d : Expr) : rewriteDimension idRewriter d = .ok (.dimension d) := by
  simp only [rewriteDimension, rewriteExpr_id, ok_bind, pure_eq, Node.asExpr, assertT, idRewriter]

theorem rewriteDimensions_id (ds : List Expr) : rewriteDimensions idRewriter ds = .ok (.dimensions ds) := by
  simp only [rewriteDimensions,
    rewriteElems_id sRwDimension _ Node.asDimension Node.dimension rewriteDimension_id (fun _ => rfl),
    ok_bind, pure_eq, idRewriter]

theorem rewriteCondition_id (c : Option Expr) : rewriteCondition idRewriter c = .ok c := by
  cases c with
  | none => rfl
  | some e => simp only [rewriteCondition, rewriteOptExpr, rewriteExpr_id, ok_bind, pure_eq, Node.asExpr, assertT]

theorem rewriteSelect_id (s : SelectStmt) : rewriteSelect idRewriter s = .ok (.statement (.select s)) := by
  obtain ⟨fields, target, dims, sources, cond, sortFields, l, o, sl, so, raw, fill, fv, loc, ta, ot, sn, en, dd⟩ := s
  simp only [rewriteSelect, rewriteFields_id, rewriteDimensions_id, rewriteCondition_id, ok_bind, pure_eq,
    Node.asFields, Node.asDimensions, Node.asSources, assertT, idRewriter]

theorem rewriteStatement_id (st : Statement) : rewriteStatement idRewriter st = .ok (.statement st) := by
  cases st
  case select s => simp only [rewriteStatement, rewriteSelect_id]
  all_goals rfl

theorem rewriteStatements_id (stmts : List Statement) :
    rewriteStatements idRewriter stmts = .ok (.statements stmts) := by
  simp only [rewriteStatements,
    rewriteElems_id sRwStatement _ Node.asStatement Node.statement rewriteStatement_id (fun _ => rfl),
    ok_bind, pure_eq, idRewriter]

theorem rewriteChecked_id (n : Node) : rewriteChecked idRewriter n = .ok n := by
  cases n
  case query stmts =>
    simp only [rewriteChecked, rewriteStatements_id, ok_bind, pure_eq, Node.asStatements, assertT, idRewriter]
  case statements stmts => exact rewriteStatements_id stmts
  case statement st => exact rewriteStatement_id st
  case fields fs => exact rewriteFields_id fs
  case field f => exact rewriteField_id f
  case dimensions ds => exact rewriteDimensions_id ds
  case dimension d => exact rewriteDimension_id d
  case expr e => exact rewriteExpr_id e
  case source s =>
    cases s with
    | measurement m => rfl
    | subquery s =>
      simp only [rewriteChecked, rewriteSelect_id, ok_bind, pure_eq, Node.asSelect, assertT, idRewriter]
  all_goals rfl

end InfluxQL.Checked

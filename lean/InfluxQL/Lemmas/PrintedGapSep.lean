import InfluxQL.Lemmas.PrintedNoCR
/-
Separators with gaps (C16 item 4), first half: **any legal gap behind the `;`** (and in front of the first
statement). The printed statements of the instantiated families are separated by `;` followed by an
arbitrary `Render.Gap` — whitespace runs, `/* … */` and `-- …⏎` comments, or nothing — instead of the
printer's single line feed. The `;` itself still stands directly behind the last token of its statement
(a gap *before* the `;` needs `Follow` / `Ends` for `gapText g ++ ';' :: t` in every family theorem; not done).

`StmtSpecG` is `StmtSpecF` with the lead a `Render.Gap`; `PrintedStmt.OKT.specG` / `Printed.specG` are the
proofs of `…spec` / `…specF` with `leadGap lead` replaced by the gap (they never used more than `gapOK`);
the loop is the loop of Lemmas/PrintedQueryT.lean over `restG` instead of `restText`.
-/
namespace InfluxQL.PrintedQuery
open InfluxQL Gen Render C01 RenderQuery RenderPrinted

/-- As `StmtSpecF`, in front of the statement any legal gap. -/
def StmtSpecG (tbl : List (Char × Char)) (fuel : Nat) (text : Str) (stmt : Statement) : Prop :=
  ∀ (g : Render.Gap) (s : PState) (K : Str), s.lowerTbl = tbl → gapOK g = true → QEnd K →
    s.Before (gapText g ++ (text ++ K)) →
    ∃ lx s1, scanIW.run s = .ok (lx, s1) ∧ lx.tok ≠ .EOF ∧ lx.tok ≠ .SEMICOLON ∧
      wp (parseStatement fuel) { s1 with n := s1.n + 1 }
        (fun st s' => st = stmt ∧ Ends s' K ∧ s'.lowerTbl = tbl) (· = .fuel)

/-- A statement that satisfies the interface has a text: in front of the end of the input the first token
would be EOF. -/
theorem StmtSpecG.ne_nil {tbl : List (Char × Char)} {fuel : Nat} {text : Str} {stmt : Statement}
    (h : StmtSpecG tbl fuel text stmt) : text ≠ [] := by
  rintro rfl
  have hb : (PState.init [] [] tbl).Before [eofRune] := by
    have := PState.init_before [] [] tbl
    simpa [foldCR] using this
  obtain ⟨lx, s1, hrun, hne, _, _⟩ := h [] (PState.init [] [] tbl) [eofRune] rfl rfl (Or.inl rfl)
    (by simpa using hb)
  obtain ⟨lx', s1', hrun', he⟩ := scanIW_gap_eof (PState.init [] [] tbl) [] rfl (by simpa using hb.around)
  rw [hrun] at hrun'
  cases hrun'
  exact hne he

/-- **The wp-style families behind any legal gap** (`PrintedStmt.OKT.spec` with the gap instead of `leadGap`). -/
theorem PrintedStmt.OKT.specG {tbl : List (Char × Char)} {N : Nat} {x : PrintedStmt} (hx : x.OKT tbl N) (fuel : Nat)
    (hN : N ≤ fuel) : StmtSpecG tbl fuel x.text x.stmt := by
  intro g s K htb hg hK hs
  obtain ⟨hkw, hpath, hlen, hhead⟩ := gen_exprPathsT _ hx.path
  simp only at hkw hpath hlen hhead
  cases htoks : x.toks with
  | nil => rw [htoks] at hhead; cases hhead
  | cons t ts =>
    rw [htoks] at hkw hpath hlen hhead
    simp only [Bool.and_eq_true, bne_iff_ne, ne_eq] at hhead
    have hren : ∀ k : Str, render (kwPieces (t :: ts) (printKs g (t :: ts)) ++ []) ++ k =
        gapText g ++ (kwLine (t :: ts) ++ k) := by
      intro k
      rw [render_printKs]
      simp [render]
    have hsp : SpacedStmt (kwPieces (t :: ts) (printKs g (t :: ts)) ++ []) = true := by
      show SpacedStmt ((g, Piece.kw t t.str) :: (kwPieces ts (restKs ts) ++ [])) = true
      simp only [SpacedStmt, Bool.and_eq_true, spaced_append]
      exact ⟨⟨hg, kw_canonical_ok t (hkw t (by simp))⟩, spaced_restKs ts (fun t ht => hkw t (by simp [ht])), rfl⟩
    have hL : Legal (kwPieces (t :: ts) (printKs g (t :: ts)) ++ []) (x.body ++ K) :=
      legal_of_spacedStmt _ _ hsp (fun q => endOK_body q hx.body hK)
    have hs' : s.Before (render (kwPieces (t :: ts) (printKs g (t :: ts)) ++ []) ++ (x.body ++ K)) := by
      rw [hren]
      have := hs
      unfold PrintedStmt.text at this
      rw [htoks, List.append_assoc] at this
      exact this
    have hL' := hL
    have hb' := hs'
    have hcons : kwPieces (t :: ts) (printKs g (t :: ts)) ++ [] =
        (g, Piece.kw t t.str) :: (kwPieces ts (restKs ts) ++ []) := rfl
    rw [hcons] at hL' hb'
    obtain ⟨lx, s1, hrun, t1, _, _⟩ := step s _ _ _ _ hL' hb'.around
    have sm1 : RT.Same s s1 := scanIW_frame.run hrun
    have ha : ({ s1 with n := s1.n + 1 } : PState).Around
        (render (kwPieces (t :: ts) (printKs g (t :: ts)) ++ []) ++ (x.body ++ K)) :=
      ⟨s, hs', Or.inr ⟨lx, s1, hrun, rfl⟩⟩
    obtain ⟨h1, h2⟩ := kwPieces_toks (t :: ts) (printKs g (t :: ts)) (printKs_length _ _)
    obtain ⟨s2, hr, hb, sm2⟩ := dispatch_render_around_same fuel x.handler
      (kwPieces (t :: ts) (printKs g (t :: ts)))
      (dispatch.length + 1) 0 _ [] (x.body ++ K) (by rw [h1]; exact hpath) (by rw [h2]; exact hlen) hL ha
    refine ⟨lx, s1, hrun, by rw [t1]; exact hhead.1, by rw [t1]; exact hhead.2, ?_⟩
    have hr' : (parseStatement fuel).run { s1 with n := s1.n + 1 } = (runHandler fuel x.handler).run s2 := hr
    rw [wp_congr_run hr']
    have htb2 : s2.lowerTbl = tbl := by
      have e1 : s2.lowerTbl = ({ s1 with n := s1.n + 1 } : PState).lowerTbl := sm2.2
      have e2 : s1.lowerTbl = s.lowerTbl := sm1.2
      rw [e1]; exact e2.trans htb
    exact hx.run fuel s2 K hN htb2 hK (by simpa [render] using hb)

/-- **The `Spelled`-based printed families behind any legal gap** (`Printed.specF` with the gap). -/
theorem Printed.specG (p : Printed) (h : p.WF) (tbl : List (Char × Char)) (fuel : Nat) :
    StmtSpecG tbl fuel p.stmt.print p.stmt := by
  intro g s K htb hg hK hs
  have hx := p.ok g h
  have hL : Legal (p.spelled g).pieces K :=
    legal_of_spacedStmt _ K (p.spaced g hg h) (fun q => endOK_qend q hK)
  have hs' : s.Before (render (p.spelled g).pieces ++ K) := by
    rw [print_is_render, List.append_assoc]; exact hs
  obtain ⟨g', t, w, l, hp, h1, h2, _⟩ := hx.pieces_cons
  have hL' := hL
  rw [hp] at hL'
  have hb' := hs'
  rw [hp] at hb'
  obtain ⟨lx, s1, hrun, t1, _, _⟩ := step s g' (.kw t w) l K hL' hb'.around
  have sm1 : RT.Same s s1 := scanIW_frame.run hrun
  have ha : ({ s1 with n := s1.n + 1 } : PState).Around (render (p.spelled g).pieces ++ K) :=
    ⟨s, hs', Or.inr ⟨lx, s1, hrun, rfl⟩⟩
  have hstop : ∀ t ∈ (p.spelled g).stop, NextNot K t := fun t ht =>
    nextNot_qend hK t (clauseOpeners_ne t (hx.stopKw t ht)).1 (clauseOpeners_ne t (hx.stopKw t ht)).2
  obtain ⟨_, hpath, hlen⟩ := gen_familyPaths ((p.spelled g).toks, (p.spelled g).handler) hx.path
  obtain ⟨k1, k2⟩ := kwPieces_toks (p.spelled g).toks (p.spelled g).ks hx.len
  obtain ⟨s2, hr, hb, sm2⟩ := dispatch_render_around_same fuel (p.spelled g).handler
    (kwPieces (p.spelled g).toks (p.spelled g).ks) (dispatch.length + 1) 0 _
    (p.spelled g).body K (by rw [k1]; exact hpath) (by rw [k2]; exact hlen) hL ha
  obtain ⟨s3, hrun3, a3⟩ := hx.run fuel s2 K ((legal_append _ _ _).mp hL).2 hb hstop
  have sm3 : RT.Same s2 s3 := (Printed.handler_frame fuel g p).run hrun3
  have hps : (parseStatement fuel).run { s1 with n := s1.n + 1 } = .ok ((p.spelled g).stmt, s3) := by
    unfold InfluxQL.parseStatement; rw [hr]; exact hrun3
  refine ⟨lx, s1, hrun, by rw [t1]; exact h1, by rw [t1]; exact h2, ?_⟩
  rw [wp_of_run_ok hps]
  refine ⟨p.spelled_stmt _, Ends.of_around hK a3, ?_⟩
  have e1 : s3.lowerTbl = ({ s1 with n := s1.n + 1 } : PState).lowerTbl := (sm2.trans sm3).2
  have e2 : s1.lowerTbl = s.lowerTbl := sm1.2
  rw [e1]; exact e2.trans htb

theorem QStmtT.specG (tbl : List (Char × Char)) (fuel : Nat) (q : QStmtT) (h : q.OK tbl) (hN : q.minFuel ≤ fuel) :
    StmtSpecG tbl fuel q.stmt.print q.stmt := by
  cases q with
  | plain p => exact Printed.specG p h tbl fuel
  | expr x =>
    have h' : x.OK := h
    have := PrintedStmt.OKT.specG (h'.toT tbl) fuel (Nat.zero_le _)
    rw [← h'.print] at this
    exact this
  | wide N x =>
    have h' : x.OKT tbl N := h
    have := PrintedStmt.OKT.specG h' fuel hN
    rw [← h'.print] at this
    exact this

/-! ## the texts -/

/-- The gap in front of a statement, its text, the statement. -/
abbrev GItem := Render.Gap × Str × Statement

/-- What follows a statement: `;`, the gap, the next statement, …, the end of the input. -/
def restG : List GItem → Str
  | [] => [eofRune]
  | z :: r => ';' :: (gapText z.1 ++ (z.2.1 ++ restG r))

/-- The same without the end-of-input sentinel. -/
def tailG : List GItem → Str
  | [] => []
  | z :: r => ';' :: (gapText z.1 ++ (z.2.1 ++ tailG r))

/-- **The query text**: `gap₀ stmt₀ ; gap₁ stmt₁ ; gap₂ stmt₂ …`. -/
def gapSepText : List GItem → Str
  | [] => []
  | z :: r => gapText z.1 ++ (z.2.1 ++ tailG r)

def queryTextG : List GItem → Str
  | [] => [eofRune]
  | z :: r => gapText z.1 ++ (z.2.1 ++ restG r)

theorem tailG_eof (items : List GItem) : tailG items ++ [eofRune] = restG items := by
  induction items with
  | nil => rfl
  | cons z r ih => simp only [tailG, restG, List.cons_append, List.append_assoc, ih]

theorem gapSepText_eof (items : List GItem) : gapSepText items ++ [eofRune] = queryTextG items := by
  cases items with
  | nil => rfl
  | cons z r => simp only [gapSepText, queryTextG, List.append_assoc, tailG_eof]

theorem qend_restG (items : List GItem) : QEnd (restG items) := by
  cases items with
  | nil => exact Or.inl rfl
  | cons z r => exact Or.inr ⟨_, rfl⟩

theorem restG_length (items : List GItem) (hne : ∀ z ∈ items, z.2.1 ≠ []) :
    2 * items.length + 1 ≤ (restG items).length := by
  induction items with
  | nil => simp [restG]
  | cons z r ih =>
    have h1 := ih (fun y hy => hne y (by simp [hy]))
    have h2 : 0 < z.2.1.length := List.length_pos_iff.mpr (hne z (by simp))
    simp only [restG, List.length_cons, List.length_append]
    omega

/-! ## the loop -/

theorem queryLoop_oneG (tbl : List (Char × Char)) (fuel it : Nat) (acc : List Statement) (text : Str) (stmt : Statement)
    (hspec : StmtSpecG tbl fuel text stmt) (g : Render.Gap) (K : Str) (hg : gapOK g = true) (hK : QEnd K) (s : PState)
    (htb : s.lowerTbl = tbl) (hs : s.Before (gapText g ++ (text ++ K))) (Q : List Statement → PState → Prop)
    (hnext : ∀ s', Ends s' K → s'.lowerTbl = tbl → wp (queryLoop fuel it false (acc ++ [stmt])) s' Q (· = .fuel)) :
    wp (queryLoop fuel (it + 1) true acc) s Q (· = .fuel) := by
  obtain ⟨lx, s1, hrun, h1, h2, hwp⟩ := hspec g s K htb hg hK hs
  rw [wp_congr_run (queryLoop_step_stmt hrun h1 h2), wp_bind]
  refine wp_mono hwp ?_ (fun _ h => h)
  intro st s' ⟨hst, hends, htb'⟩
  subst hst
  exact hnext s' hends htb'

theorem queryLoop_printedG (tbl : List (Char × Char)) (fuel : Nat) :
    ∀ (items : List GItem) (it : Nat) (acc : List Statement) (s : PState),
    (∀ z ∈ items, StmtSpecG tbl fuel z.2.1 z.2.2) → (∀ z ∈ items, gapOK z.1 = true) →
    2 * items.length + 1 ≤ it → Ends s (restG items) → s.lowerTbl = tbl →
    wp (queryLoop fuel it false acc) s (fun r _ => r = acc ++ items.map (·.2.2)) (· = .fuel) := by
  intro items
  induction items with
  | nil =>
    intro it acc s _ _ hit hends _
    obtain ⟨it', rfl⟩ : ∃ it', it = it' + 1 := ⟨it - 1, by simp at hit; omega⟩
    obtain ⟨lx, s1, hrun, hcase⟩ := hends
    rcases hcase with ⟨_, ht⟩ | ⟨t, e, _⟩
    · rw [wp_of_run_ok (queryLoop_step_eof hrun ht)]
      simp
    · cases e
  | cons z rest ih =>
    intro it acc s hspec hgap hit hends htb
    obtain ⟨it', rfl⟩ : ∃ it', it = it' + 2 := ⟨it - 2, by simp at hit; omega⟩
    obtain ⟨lx, s1, hrun, hcase⟩ := hends
    rcases hcase with ⟨e, _⟩ | ⟨t, e, ht, hb⟩
    · cases e
    · simp only [restG, List.cons.injEq, true_and] at e
      subst e
      have htb1 : s1.lowerTbl = tbl := (scanIW_frame.run hrun).2.trans htb
      rw [wp_congr_run (queryLoop_step_semi hrun ht)]
      refine queryLoop_oneG tbl fuel it' acc z.2.1 z.2.2 (hspec z (by simp)) z.1 (restG rest) (hgap z (by simp))
        (qend_restG rest) s1 htb1 hb _ ?_
      intro s' hends' htb'
      have := ih it' (acc ++ [z.2.2]) s' (fun y hy => hspec y (by simp [hy])) (fun y hy => hgap y (by simp [hy]))
        (by simp at hit; omega) hends' htb'
      simpa using this

/-- **`ParseQuery` on statements separated by `;` and gaps** (state level, with the fuel alternative). -/
theorem parseQuery_gapsep_wp (tbl : List (Char × Char)) (fuel : Nat) (items : List GItem)
    (hspec : ∀ z ∈ items, StmtSpecG tbl fuel z.2.1 z.2.2) (hgap : ∀ z ∈ items, gapOK z.1 = true)
    (s : PState) (htb : s.lowerTbl = tbl) (hs : s.Before (queryTextG items)) :
    wp (parseQuery fuel) s (fun r _ => r = items.map (·.2.2)) (· = .fuel) := by
  obtain ⟨hn, hlen⟩ := before_length hs
  unfold InfluxQL.parseQuery
  rw [wp_bind, wp_of_run_ok (loopFuel_run s)]
  cases items with
  | nil =>
    obtain ⟨lx, s1, hrun, hcase⟩ := Ends.of_around (K := [eofRune]) (Or.inl rfl) hs.around
    rcases hcase with ⟨_, ht⟩ | ⟨t, e, _⟩
    · rw [show s.n + s.r.rest.length + 2 = (s.n + s.r.rest.length + 1) + 1 from rfl,
        wp_of_run_ok (queryLoop_step_eof hrun ht)]
      rfl
    · cases e
  | cons z rest =>
    have h1 := restG_length rest (fun y hy => (hspec y (by simp [hy])).ne_nil)
    simp only [queryTextG, List.length_append] at hlen
    obtain ⟨it, hit⟩ : ∃ it, s.n + s.r.rest.length + 2 = it + 1 := ⟨s.n + s.r.rest.length + 1, rfl⟩
    rw [hit]
    refine queryLoop_oneG tbl fuel it [] z.2.1 z.2.2 (hspec z (by simp)) z.1 (restG rest) (hgap z (by simp))
      (qend_restG rest) s htb (by simpa [queryTextG] using hs) _ ?_
    intro s' hends' htb'
    have := queryLoop_printedG tbl fuel rest it ([] ++ [z.2.2]) s' (fun y hy => hspec y (by simp [hy]))
      (fun y hy => hgap y (by simp [hy])) (by omega) hends' htb'
    simpa using this

/-- **`ParseQuery(text)` on statements separated by `;` and gaps.** -/
theorem parseQueryText_gapsep_items (hdep : dispatchDepthOK (dispatch.length + 1) 0 = true)
    (items : List GItem) (text : Str) (params : List (Str × BoundValue)) (tbl : List (Char × Char))
    (hspec : ∀ z ∈ items, StmtSpecG tbl (fuelFor text) z.2.1 z.2.2) (hgap : ∀ z ∈ items, gapOK z.1 = true)
    (hfold : foldCR text = gapSepText items) :
    parseQueryText text params tbl = .ok (items.map (·.2.2)) := by
  have hs := PState.init_before text params tbl
  rw [hfold, gapSepText_eof] at hs
  have hwp := parseQuery_gapsep_wp tbl (fuelFor text) items hspec hgap _ rfl hs
  have htot := parseQueryText_total hdep text params tbl
  unfold parseQueryText at htot ⊢
  unfold wp at hwp
  show (Prod.fst <$> (parseQuery (fuelFor text)).run (PState.init text params tbl)) = .ok _
  change Returns (Prod.fst <$> (parseQuery (fuelFor text)).run (PState.init text params tbl)) at htot
  cases hr : (parseQuery (fuelFor text)).run (PState.init text params tbl) with
  | error f =>
    rw [hr] at hwp htot
    have hf : f = .fuel := hwp
    subst hf
    exact absurd htot (by intro h; exact h)
  | ok p =>
    rw [hr] at hwp
    show Except.ok p.1 = Except.ok _
    rw [hwp]

/-- The items of a list of statements with the gaps in front of them. -/
def gItems (qs : List (Render.Gap × QStmtT)) : List GItem := qs.map fun z => (z.1, z.2.stmt.print, z.2.stmt)

/-- **Statements of every instantiated kind separated by `;` and gaps.** -/
theorem parseQueryText_gapsep_qstmtsT (hdep : dispatchDepthOK (dispatch.length + 1) 0 = true)
    (qs : List (Render.Gap × QStmtT)) (text : Str) (params : List (Str × BoundValue)) (tbl : List (Char × Char))
    (hok : ∀ z ∈ qs, z.2.OK tbl) (hgap : ∀ z ∈ qs, gapOK z.1 = true) (hfuel : ∀ z ∈ qs, z.2.minFuel ≤ fuelFor text)
    (hfold : foldCR text = gapSepText (gItems qs)) :
    parseQueryText text params tbl = .ok (qs.map (·.2.stmt)) := by
  have h := parseQueryText_gapsep_items hdep (gItems qs) text params tbl
    (by
      intro z hz
      obtain ⟨q, hq, rfl⟩ := List.mem_map.mp hz
      exact q.2.specG tbl _ (hok q hq) (hfuel q hq))
    (by
      intro z hz
      obtain ⟨q, hq, rfl⟩ := List.mem_map.mp hz
      exact hgap q hq)
    hfold
  simpa [gItems, List.map_map, Function.comp_def] using h

end InfluxQL.PrintedQuery

import InfluxQL.Model.Regex
/-
Lemmas for C11: list-level facts (`splits`, literals, classes, the three concatenation
strategies) and the mutual induction over the regex tree.
-/
namespace InfluxQL.Rx
open InfluxQL Gen

/-! ## `splits` -/

theorem mem_splits {l a b : Str} : (a, b) ∈ splits l ↔ l = a ++ b := by
  induction l generalizing a b with
  | nil =>
    simp only [splits, List.mem_singleton, Prod.mk.injEq]
    constructor
    · rintro ⟨rfl, rfl⟩; rfl
    · intro h
      have := List.append_eq_nil_iff.mp h.symm
      exact ⟨this.1, this.2⟩
  | cons c cs ih =>
    simp only [splits, List.mem_cons, Prod.mk.injEq, List.mem_map]
    constructor
    · rintro (⟨rfl, rfl⟩ | ⟨⟨a', b'⟩, hm, rfl, rfl⟩)
      · rfl
      · rw [ih.mp hm]; rfl
    · intro h
      cases a with
      | nil => left; exact ⟨rfl, h.symm⟩
      | cons x a' =>
        right
        simp only [List.cons_append, List.cons.injEq] at h
        exact ⟨(a', b), ih.mpr h.2, by rw [h.1], rfl⟩

theorem splits_any {l : Str} {p : Str × Str → Bool} :
    (splits l).any p = true ↔ ∃ a b, l = a ++ b ∧ p (a, b) = true := by
  rw [List.any_eq_true]
  constructor
  · rintro ⟨⟨a, b⟩, hm, hp⟩; exact ⟨a, b, mem_splits.mp hm, hp⟩
  · rintro ⟨a, b, h, hp⟩; exact ⟨(a, b), mem_splits.mpr h, hp⟩

/-! ## Literals -/

theorem toNat_ofNat_valid (n : Nat) (h : n.isValidChar) : (Char.ofNat n).toNat = n := by
  unfold Char.ofNat
  rw [dif_pos h]
  simp [Char.ofNatAux, Char.toNat]

theorem encodable_valid {r : Nat} (h : isEncodableRune r = true) : r.isValidChar := by
  simp only [isEncodableRune, Bool.and_eq_true, Bool.or_eq_true, decide_eq_true_eq] at h
  unfold Nat.isValidChar
  omega

theorem encodable_ne_fffd {r : Nat} (h : isEncodableRune r = true) : r ≠ 0xFFFD := by
  simp only [isEncodableRune, Bool.and_eq_true, bne_iff_ne, ne_eq, runeError] at h
  exact h.2

theorem goChar_toNat {r : Nat} (h : isEncodableRune r = true) : (goChar r).toNat = r := by
  unfold goChar
  rw [if_pos (encodable_valid h)]
  exact toNat_ofNat_valid r (encodable_valid h)

/-- A literal without case folding matches exactly its own rune sequence. -/
theorem litMatch_false {rs : List Nat} {s : Str} : litMatch false rs s = true ↔ s.map Char.toNat = rs := by
  induction rs generalizing s with
  | nil => cases s <;> simp [litMatch]
  | cons r rs ih =>
    cases s with
    | nil => simp [litMatch]
    | cons c cs =>
      simp only [litMatch, Bool.false_and, Bool.or_false, Bool.and_eq_true, beq_iff_eq, List.map_cons,
        List.cons.injEq, ih]

theorem map_toNat_eq_iff {rs : List Nat} {s : Str} (h : rs.all isEncodableRune = true) :
    s.map Char.toNat = rs ↔ s = runesToStr rs := by
  induction rs generalizing s with
  | nil => cases s <;> simp [runesToStr]
  | cons r rs ih =>
    simp only [List.all_cons, Bool.and_eq_true] at h
    cases s with
    | nil => simp [runesToStr]
    | cons c cs =>
      simp only [List.map_cons, List.cons.injEq, runesToStr] at *
      rw [ih h.2]
      constructor
      · rintro ⟨h1, h2⟩
        refine ⟨?_, h2⟩
        have hv := encodable_valid h.1
        rw [← h1] at hv
        rw [← h1, goChar, if_pos hv, Char.ofNat_toNat]
      · rintro ⟨h1, h2⟩
        exact ⟨by rw [h1, goChar_toNat h.1], h2⟩

/-! ## Character classes -/

theorem rangeStrs_spec {n lo : Nat} {L : List Str} (h : rangeStrs lo n = some L) :
    L.length = n ∧ (∀ x, x ∈ L ↔ ∃ k, k < n ∧ x = [goChar (lo + k)]) ∧
      ∀ k, k < n → isEncodableRune (lo + k) = true := by
  induction n generalizing lo L with
  | zero =>
    simp only [rangeStrs, Option.some.injEq] at h
    subst h
    simp
  | succ n ih =>
    simp only [rangeStrs] at h
    split at h
    · rename_i henc
      cases hr : rangeStrs (lo + 1) n with
      | none => rw [hr] at h; simp at h
      | some L' =>
        rw [hr] at h
        simp only [Option.map_some, Option.some.injEq] at h
        subst h
        obtain ⟨h1, h2, h3⟩ := ih hr
        refine ⟨by simp [h1], ?_, ?_⟩
        · intro x
          simp only [List.mem_cons, h2]
          constructor
          · rintro (rfl | ⟨k, hk, rfl⟩)
            · exact ⟨0, by omega, rfl⟩
            · exact ⟨k + 1, by omega, by rw [show lo + (k + 1) = lo + 1 + k by omega]⟩
          · rintro ⟨k, hk, rfl⟩
            cases k with
            | zero => left; rfl
            | succ k => right; exact ⟨k, by omega, by rw [show lo + (k + 1) = lo + 1 + k by omega]⟩
        · intro k hk
          cases k with
          | zero => exact henc
          | succ k => rw [show lo + (k + 1) = lo + 1 + k by omega]; exact h3 k (by omega)
    · simp at h

theorem goChar_toNat_self (c : Char) (h : isEncodableRune c.toNat = true) : goChar c.toNat = c := by
  rw [goChar, if_pos (encodable_valid h), Char.ofNat_toNat]

theorem rangeStrs_mem_char {n lo : Nat} {L : List Str} (h : rangeStrs lo n = some L) (c : Char) :
    [c] ∈ L ↔ lo ≤ c.toNat ∧ c.toNat < lo + n := by
  obtain ⟨_, h2, h3⟩ := rangeStrs_spec h
  rw [h2]
  constructor
  · rintro ⟨k, hk, he⟩
    simp only [List.cons.injEq, and_true] at he
    have := goChar_toNat (h3 k hk)
    rw [← he] at this
    omega
  · rintro ⟨h1, h4⟩
    refine ⟨c.toNat - lo, by omega, ?_⟩
    have e : lo + (c.toNat - lo) = c.toNat := by omega
    rw [e, goChar_toNat_self c (by rw [← e]; exact h3 _ (by omega))]

theorem classStrs_spec {rune : List Nat} {L : List Str} (h : classStrs rune = some L) :
    L.length = classSize rune ∧ (∀ x, x ∈ L → ∃ c, x = [c]) ∧
      (∀ c : Char, [c] ∈ L ↔ classMem c.toNat rune = true) ∧
      (∀ x, x ∈ L → ∀ c, c ∈ x → isEncodableRune c.toNat = true) := by
  induction rune using classSize.induct generalizing L with
  | case1 lo hi rest ih =>
    simp only [classStrs] at h
    cases hr : rangeStrs lo (hi + 1 - lo) with
    | none => rw [hr] at h; simp at h
    | some A =>
      rw [hr] at h
      cases hc : classStrs rest with
      | none => rw [hc] at h; simp at h
      | some B =>
        rw [hc] at h
        simp only [Option.map_some, Option.some.injEq] at h
        subst h
        obtain ⟨i1, i2, i3, i4⟩ := ih hc
        obtain ⟨r1, r2, r3⟩ := rangeStrs_spec hr
        refine ⟨by simp [classSize, r1, i1], ?_, ?_, ?_⟩
        · intro x hx
          rcases List.mem_append.mp hx with hx | hx
          · obtain ⟨k, _, rfl⟩ := (r2 x).mp hx; exact ⟨_, rfl⟩
          · exact i2 x hx
        · intro c
          simp only [List.mem_append, classMem, Bool.or_eq_true, Bool.and_eq_true, decide_eq_true_eq,
            rangeStrs_mem_char hr, i3]
          constructor
          · rintro (⟨a, b⟩ | h)
            · left; omega
            · right; exact h
          · rintro (⟨a, b⟩ | h)
            · left; omega
            · right; exact h
        · intro x hx c hc'
          rcases List.mem_append.mp hx with hx | hx
          · obtain ⟨k, hk, rfl⟩ := (r2 x).mp hx
            simp only [List.mem_singleton] at hc'
            subst hc'
            rw [goChar_toNat (r3 k hk)]; exact r3 k hk
          · exact i4 x hx c hc'
  | case2 rune hne =>
    have : classStrs rune = some [] := by
      unfold classStrs
      split
      · rename_i lo hi rest; exact absurd rfl (hne lo hi rest)
      · rfl
    rw [this] at h
    simp only [Option.some.injEq] at h
    subst h
    refine ⟨?_, by simp, ?_, by simp⟩
    · unfold classSize; split
      · rename_i lo hi rest; exact absurd rfl (hne lo hi rest)
      · rfl
    · intro c
      simp only [List.not_mem_nil, false_iff]
      unfold classMem; split
      · rename_i lo hi rest; exact absurd rfl (hne lo hi rest)
      · simp

/-! ## The three concatenation strategies -/

theorem length_product (names vals : List Str) :
    (names.flatMap fun n => vals.map fun v => n ++ v).length = names.length * vals.length := by
  induction names with
  | nil => simp
  | cons n ns ih => simp only [List.flatMap_cons, List.length_append, List.length_map, ih, List.length_cons,
      Nat.succ_mul]; omega

/-- Each strategy computes the list-level image of language concatenation. -/
theorem concatStep_mem {names vals L : List Str} (h : concatStep names vals = some L) (x : Str) :
    x ∈ L ↔ ∃ n, n ∈ names ∧ ∃ v, v ∈ vals ∧ x = n ++ v := by
  unfold concatStep at h
  split at h
  · simp only [Option.some.injEq] at h; subst h
    simp only [List.mem_map, List.mem_singleton]
    constructor
    · rintro ⟨n, hn, rfl⟩; exact ⟨n, hn, _, rfl, rfl⟩
    · rintro ⟨n, hn, v, rfl, rfl⟩; exact ⟨n, hn, rfl⟩
  · split at h
    · simp only [Option.some.injEq] at h; subst h
      simp only [List.mem_map, List.mem_singleton]
      constructor
      · rintro ⟨v, hv, rfl⟩; exact ⟨_, rfl, v, hv, rfl⟩
      · rintro ⟨n, rfl, v, hv, rfl⟩; exact ⟨v, hv, rfl⟩
    · split at h
      · simp at h
      · simp only [Option.some.injEq] at h; subst h
        simp only [List.mem_flatMap, List.mem_map]
        constructor
        · rintro ⟨n, hn, v, hv, rfl⟩; exact ⟨n, hn, v, hv, rfl⟩
        · rintro ⟨n, hn, v, hv, rfl⟩; exact ⟨n, hn, v, hv, rfl⟩

theorem concatStep_len {names vals L : List Str} (h : concatStep names vals = some L)
    (hn : names.length ≤ maxLiterals) (hv : vals.length ≤ maxLiterals) : L.length ≤ maxLiterals := by
  unfold concatStep at h
  split at h
  · simp only [Option.some.injEq] at h; subst h; simpa using hn
  · split at h
    · simp only [Option.some.injEq] at h; subst h; simpa using hv
    · split at h
      · simp at h
      · simp only [Option.some.injEq] at h; subst h
        rw [length_product]; omega

theorem concatStep_ne_nil {names vals L : List Str} (h : concatStep names vals = some L)
    (hn : names ≠ []) (hv : vals ≠ []) : L ≠ [] := by
  obtain ⟨n, ns, rfl⟩ := List.exists_cons_of_ne_nil hn
  obtain ⟨v, vs, rfl⟩ := List.exists_cons_of_ne_nil hv
  intro hL
  have := (concatStep_mem h (n ++ v)).mpr ⟨n, List.mem_cons_self, v, List.mem_cons_self, rfl⟩
  rw [hL] at this
  exact absurd this List.not_mem_nil

/-! ## The induction over the tree -/

/-- All runes of all strings are encodable (valid scalars other than U+FFFD). -/
def EncStrs (L : List Str) : Prop := ∀ l, l ∈ L → ∀ c, c ∈ l → isEncodableRune c.toNat = true

/-- `L` is exactly the language of the context-aware matcher `m`, in every context. -/
def Lang (m : Str → Str → Str → Bool) (L : List Str) : Prop :=
  ∀ pre s post, m pre s post = true ↔ s ∈ L

structure Spec (m : Str → Str → Str → Bool) (L : List Str) : Prop where
  lang : Lang m L
  len : L.length ≤ maxLiterals
  enc : EncStrs L

theorem matchB_mk (op : Op) (flags : Nat) (rune : List Nat) (sub : List Regex) (pre mid post : Str) :
    matchB (.mk op flags rune sub) pre mid post =
      match op with
      | .noMatch => false
      | .emptyMatch => mid.isEmpty
      | .literal => litMatch (hasFold flags) rune mid
      | .charClass => match mid with | [c] => classMem c.toNat rune | _ => false
      | .anyCharNotNL => match mid with | [c] => c != '\n' | _ => false
      | .anyChar => match mid with | [_] => true | _ => false
      | .beginLine => mid.isEmpty && (pre.isEmpty || pre.getLast? == some '\n')
      | .endLine => mid.isEmpty && (post.isEmpty || post.head? == some '\n')
      | .beginText => mid.isEmpty && pre.isEmpty
      | .endText => mid.isEmpty && post.isEmpty
      | .wordBoundary => mid.isEmpty && (lastIsWord pre != headIsWord post)
      | .noWordBoundary => mid.isEmpty && (lastIsWord pre == headIsWord post)
      | .capture => matchFirstB sub pre mid post
      | .star => starB (matchFirstB sub) mid.length pre mid post
      | .plus => (splits mid).any fun p =>
          matchFirstB sub pre p.1 (p.2 ++ post) && starB (matchFirstB sub) p.2.length (pre ++ p.1) p.2 post
      | .quest => mid.isEmpty || matchFirstB sub pre mid post
      | .repeat_ => false
      | .concat => matchConcatB sub pre mid post
      | .alternate => matchAltB sub pre mid post := by
  unfold matchB; rfl

theorem matchConcatB_cons (r : Regex) (rest : List Regex) (pre mid post : Str) :
    matchConcatB (r :: rest) pre mid post =
      (splits mid).any fun p => matchB r pre p.1 (p.2 ++ post) && matchConcatB rest (pre ++ p.1) p.2 post := by
  rw [matchConcatB]

theorem matchConcatB_nil (pre mid post : Str) : matchConcatB [] pre mid post = mid.isEmpty := by
  rw [matchConcatB]

theorem matchAltB_cons (r : Regex) (rest : List Regex) (pre mid post : Str) :
    matchAltB (r :: rest) pre mid post = (matchB r pre mid post || matchAltB rest pre mid post) := by
  rw [matchAltB]

theorem matchAltB_nil (pre mid post : Str) : matchAltB [] pre mid post = false := by
  rw [matchAltB]

theorem matchFirstB_cons (r : Regex) (rest : List Regex) : matchFirstB (r :: rest) = matchB r := by
  rw [matchFirstB]

/-- `matchConcatB (r :: rest)` as a statement about splits. -/
theorem matchConcatB_cons_iff {r : Regex} {rest : List Regex} {pre mid post : Str} :
    matchConcatB (r :: rest) pre mid post = true ↔
      ∃ a b, mid = a ++ b ∧ matchB r pre a (b ++ post) = true ∧ matchConcatB rest (pre ++ a) b post = true := by
  rw [matchConcatB_cons, splits_any]
  simp only [Bool.and_eq_true]

theorem literal_spec {flags : Nat} {rune : List Nat} (sub : List Regex) (hf : hasFold flags = false)
    (he : rune.all isEncodableRune = true) : Spec (matchB (.mk .literal flags rune sub)) [runesToStr rune] := by
  refine ⟨?_, by simp [maxLiterals], ?_⟩
  · intro pre s post
    rw [matchB_mk]
    simp only [hf, litMatch_false, map_toNat_eq_iff he, List.mem_singleton]
  · intro l hl c hc
    simp only [List.mem_singleton] at hl
    subst hl
    simp only [runesToStr, List.mem_map] at hc
    obtain ⟨r, hr, rfl⟩ := hc
    have := List.all_eq_true.mp he r hr
    rw [goChar_toNat this]; exact this

theorem class_spec {flags : Nat} {rune : List Nat} (sub : List Regex) {L : List Str}
    (hs : classSize rune ≤ maxLiterals) (h : classStrs rune = some L) :
    Spec (matchB (.mk .charClass flags rune sub)) L := by
  obtain ⟨h1, h2, h3, h4⟩ := classStrs_spec h
  refine ⟨?_, by omega, h4⟩
  intro pre s post
  rw [matchB_mk]
  match s with
  | [c] => simp only [h3]
  | [] =>
    simp only [Bool.false_eq_true, false_iff]
    intro hm; obtain ⟨c, hc⟩ := h2 _ hm; simp at hc
  | a :: b :: t =>
    simp only [Bool.false_eq_true, false_iff]
    intro hm; obtain ⟨c, hc⟩ := h2 _ hm; simp at hc

mutual
  theorem regex_spec : ∀ (re : Regex) (L : List Str), matchRegex re = some L → Spec (matchB re) L
    | .mk op flags rune sub, L, h => by
      cases op with
      | literal =>
        rw [matchRegex] at h
        split at h
        · simp at h
        · rename_i hf
          simp only [Bool.not_eq_true] at hf
          split at h
          · rename_i he
            simp only [Option.some.injEq] at h; subst h
            exact literal_spec sub hf he
          · simp at h
      | charClass =>
        rw [matchRegex] at h
        split at h
        · simp at h
        · split at h
          · simp at h
          · rename_i hs
            simp only [Bool.or_eq_true, decide_eq_true_eq, beq_iff_eq, not_or] at hs
            exact class_spec sub (by omega) h
      | capture =>
        rw [matchRegex] at h
        split at h
        · simp at h
        · have := first_spec sub L h
          exact ⟨fun pre s post => by rw [matchB_mk]; exact this.lang pre s post, this.len, this.enc⟩
      | concat =>
        rw [matchRegex] at h
        split at h
        · simp at h
        · have := concat_spec sub L h
          exact ⟨fun pre s post => by rw [matchB_mk]; exact this.lang pre s post, this.len, this.enc⟩
      | alternate =>
        rw [matchRegex] at h
        split at h
        · simp at h
        · cases ha : matchAlt sub with
          | none => rw [ha] at h; simp at h
          | some names =>
            rw [ha] at h
            simp only at h
            split at h
            · simp at h
            · rename_i hl
              simp only [Option.some.injEq] at h; subst h
              have := alt_spec sub names ha
              exact ⟨fun pre s post => by rw [matchB_mk]; exact this.1 pre s post, by omega, this.2⟩
      | _ => simp [matchRegex] at h
  theorem first_spec : ∀ (sub : List Regex) (L : List Str), matchFirst sub = some L → Spec (matchFirstB sub) L
    | [], L, h => by simp [matchFirst] at h
    | r :: rest, L, h => by
      rw [matchFirst] at h
      rw [matchFirstB_cons]
      exact regex_spec r L h
  theorem concat_spec : ∀ (sub : List Regex) (L : List Str), matchConcat sub = some L → Spec (matchConcatB sub) L
    | [], L, h => by simp [matchConcat] at h
    | r :: rest, L, h => by
      rw [matchConcat] at h
      cases hr : matchRegex r with
      | none => rw [hr] at h; simp at h
      | some names =>
        rw [hr] at h
        simp only at h
        have sr := regex_spec r names hr
        have sl := loop_spec rest names L h sr.len sr.enc
        refine ⟨?_, sl.2.1, sl.2.2⟩
        intro pre s post
        rw [matchConcatB_cons_iff, ← sl.1 pre s post]
        constructor
        · rintro ⟨a, b, e, h1, h2⟩; exact ⟨a, b, e, (sr.lang _ _ _).mp h1, h2⟩
        · rintro ⟨a, b, e, h1, h2⟩; exact ⟨a, b, e, (sr.lang _ _ _).mpr h1, h2⟩
  theorem loop_spec : ∀ (rest : List Regex) (names L : List Str), concatLoop names rest = some L →
      names.length ≤ maxLiterals → EncStrs names →
      (∀ pre s post, (∃ a b, s = a ++ b ∧ a ∈ names ∧ matchConcatB rest (pre ++ a) b post = true) ↔ s ∈ L) ∧
        L.length ≤ maxLiterals ∧ EncStrs L
    | [], names, L, h, hn, he => by
      rw [concatLoop] at h
      simp only [Option.some.injEq] at h; subst h
      refine ⟨?_, hn, he⟩
      intro pre s post
      simp only [matchConcatB_nil, List.isEmpty_iff]
      constructor
      · rintro ⟨a, b, rfl, ha, rfl⟩; simpa using ha
      · intro hs; exact ⟨s, [], by simp, hs, rfl⟩
    | r :: rest, names, L, h, hn, he => by
      rw [concatLoop] at h
      cases hr : matchRegex r with
      | none => rw [hr] at h; simp at h
      | some vals =>
        rw [hr] at h
        simp only at h
        cases hc : concatStep names vals with
        | none => rw [hc] at h; simp at h
        | some names' =>
          rw [hc] at h
          simp only at h
          have sr := regex_spec r vals hr
          have he' : EncStrs names' := by
            intro l hl c hcm
            obtain ⟨n, hn', v, hv, rfl⟩ := (concatStep_mem hc l).mp hl
            rcases List.mem_append.mp hcm with hcm | hcm
            · exact he n hn' c hcm
            · exact sr.enc v hv c hcm
          have sl := loop_spec rest names' L h (concatStep_len hc hn sr.len) he'
          refine ⟨?_, sl.2.1, sl.2.2⟩
          intro pre s post
          rw [← sl.1 pre s post]
          constructor
          · rintro ⟨a, b, rfl, ha, hm⟩
            obtain ⟨v, b', rfl, h1, h2⟩ := matchConcatB_cons_iff.mp hm
            refine ⟨a ++ v, b', by simp, (concatStep_mem hc _).mpr ⟨a, ha, v, (sr.lang _ _ _).mp h1, rfl⟩, ?_⟩
            rw [← List.append_assoc]; exact h2
          · rintro ⟨x, b', rfl, hx, hm⟩
            obtain ⟨a, ha, v, hv, rfl⟩ := (concatStep_mem hc x).mp hx
            refine ⟨a, v ++ b', by simp, ha, matchConcatB_cons_iff.mpr ⟨v, b', rfl, (sr.lang _ _ _).mpr hv, ?_⟩⟩
            rw [List.append_assoc]; exact hm
  theorem alt_spec : ∀ (sub : List Regex) (L : List Str), matchAlt sub = some L → Lang (matchAltB sub) L ∧ EncStrs L
    | [], L, h => by
      rw [matchAlt] at h
      simp only [Option.some.injEq] at h; subst h
      exact ⟨fun pre s post => by simp [matchAltB_nil], fun l hl => absurd hl List.not_mem_nil⟩
    | r :: rest, L, h => by
      rw [matchAlt] at h
      cases hr : matchRegex r with
      | none => rw [hr] at h; simp at h
      | some vals =>
        rw [hr] at h
        cases ha : matchAlt rest with
        | none => rw [ha] at h; simp at h
        | some more =>
          rw [ha] at h
          simp only [Option.map_some, Option.some.injEq] at h; subst h
          have sr := regex_spec r vals hr
          have sa := alt_spec rest more ha
          refine ⟨?_, ?_⟩
          · intro pre s post
            rw [matchAltB_cons, Bool.or_eq_true, sr.lang, sa.1, List.mem_append]
          · intro l hl
            rcases List.mem_append.mp hl with hl | hl
            · exact sr.enc l hl
            · exact sa.2 l hl
end

/-! ## Non-emptiness on well-formed trees -/

theorem wf_mk (op : Op) (flags : Nat) (rune : List Nat) (sub : List Regex) :
    (Regex.mk op flags rune sub).wf =
      ((match op with
        | .charClass => classWf rune && sub.isEmpty
        | .capture | .star | .plus | .quest | .repeat_ => sub.length == 1
        | .concat | .alternate => decide (sub.length ≥ 1)
        | _ => sub.isEmpty) && wfAll sub) := by
  unfold Regex.wf; rfl

theorem wfAll_cons (r : Regex) (rest : List Regex) : wfAll (r :: rest) = (r.wf && wfAll rest) := by
  rw [wfAll]

theorem wfAll_append (xs ys : List Regex) : wfAll (xs ++ ys) = (wfAll xs && wfAll ys) := by
  induction xs with
  | nil => simp [wfAll]
  | cons x xs ih => simp only [List.cons_append, wfAll_cons, ih, Bool.and_assoc]

mutual
  theorem regex_ne : ∀ (re : Regex) (L : List Str), matchRegex re = some L → re.wf = true → L ≠ []
    | .mk op flags rune sub, L, h, hw => by
      rw [wf_mk, Bool.and_eq_true] at hw
      cases op with
      | literal =>
        rw [matchRegex] at h
        split at h
        · simp at h
        · split at h
          · simp only [Option.some.injEq] at h; subst h; simp
          · simp at h
      | charClass =>
        rw [matchRegex] at h
        split at h
        · simp at h
        · split at h
          · simp at h
          · rename_i hs
            simp only [Bool.or_eq_true, decide_eq_true_eq, beq_iff_eq, not_or] at hs
            have := (classStrs_spec h).1
            intro hL; rw [hL] at this; simp at this; omega
      | capture =>
        rw [matchRegex] at h
        split at h
        · simp at h
        · exact first_ne sub L h hw.2
      | concat =>
        rw [matchRegex] at h
        split at h
        · simp at h
        · exact concat_ne sub L h hw.2
      | alternate =>
        rw [matchRegex] at h
        split at h
        · simp at h
        · cases ha : matchAlt sub with
          | none => rw [ha] at h; simp at h
          | some names =>
            rw [ha] at h
            simp only at h
            split at h
            · simp at h
            · simp only [Option.some.injEq] at h; subst h
              have h1 := hw.1
              simp only [decide_eq_true_eq] at h1
              exact alt_ne sub names ha hw.2 (by intro e; rw [e] at h1; simp at h1)
      | _ => simp [matchRegex] at h
  theorem first_ne : ∀ (sub : List Regex) (L : List Str), matchFirst sub = some L → wfAll sub = true → L ≠ []
    | [], L, h, _ => by simp [matchFirst] at h
    | r :: rest, L, h, hw => by
      rw [matchFirst] at h
      rw [wfAll_cons, Bool.and_eq_true] at hw
      exact regex_ne r L h hw.1
  theorem concat_ne : ∀ (sub : List Regex) (L : List Str), matchConcat sub = some L → wfAll sub = true → L ≠ []
    | [], L, h, _ => by simp [matchConcat] at h
    | r :: rest, L, h, hw => by
      rw [matchConcat] at h
      rw [wfAll_cons, Bool.and_eq_true] at hw
      cases hr : matchRegex r with
      | none => rw [hr] at h; simp at h
      | some names =>
        rw [hr] at h
        exact loop_ne rest names L h hw.2 (regex_ne r names hr hw.1)
  theorem loop_ne : ∀ (rest : List Regex) (names L : List Str), concatLoop names rest = some L →
      wfAll rest = true → names ≠ [] → L ≠ []
    | [], names, L, h, _, hn => by
      rw [concatLoop] at h
      simp only [Option.some.injEq] at h; subst h; exact hn
    | r :: rest, names, L, h, hw, hn => by
      rw [concatLoop] at h
      rw [wfAll_cons, Bool.and_eq_true] at hw
      cases hr : matchRegex r with
      | none => rw [hr] at h; simp at h
      | some vals =>
        rw [hr] at h
        simp only at h
        cases hc : concatStep names vals with
        | none => rw [hc] at h; simp at h
        | some names' =>
          rw [hc] at h
          exact loop_ne rest names' L h hw.2 (concatStep_ne_nil hc hn (regex_ne r vals hr hw.1))
  theorem alt_ne : ∀ (sub : List Regex) (L : List Str), matchAlt sub = some L → wfAll sub = true → sub ≠ [] → L ≠ []
    | [], _, _, _, hs => absurd rfl hs
    | r :: rest, L, h, hw, _ => by
      rw [matchAlt] at h
      rw [wfAll_cons, Bool.and_eq_true] at hw
      cases hr : matchRegex r with
      | none => rw [hr] at h; simp at h
      | some vals =>
        rw [hr] at h
        cases ha : matchAlt rest with
        | none => rw [ha] at h; simp at h
        | some more =>
          rw [ha] at h
          simp only [Option.map_some, Option.some.injEq] at h; subst h
          have := regex_ne r vals hr hw.1
          intro e
          exact this (List.append_eq_nil_iff.mp e).1
end

/-! ## The anchored top level -/

theorem matchConcatB_append {xs ys : List Regex} {pre mid post : Str} :
    matchConcatB (xs ++ ys) pre mid post = true ↔
      ∃ a b, mid = a ++ b ∧ matchConcatB xs pre a (b ++ post) = true ∧ matchConcatB ys (pre ++ a) b post = true := by
  induction xs generalizing pre mid with
  | nil =>
    simp only [List.nil_append, matchConcatB_nil, List.isEmpty_iff]
    constructor
    · intro h; exact ⟨[], mid, rfl, rfl, by simpa using h⟩
    · rintro ⟨a, b, rfl, rfl, h⟩; simpa using h
  | cons x xs ih =>
    rw [List.cons_append, matchConcatB_cons_iff]
    constructor
    · rintro ⟨a, b, rfl, h1, h2⟩
      obtain ⟨c, d, rfl, h3, h4⟩ := ih.mp h2
      refine ⟨a ++ c, d, by simp, matchConcatB_cons_iff.mpr ⟨a, c, rfl, ?_, h3⟩, ?_⟩
      · rw [← List.append_assoc]; exact h1
      · rw [← List.append_assoc]; exact h4
    · rintro ⟨ac, d, rfl, h1, h2⟩
      obtain ⟨a, c, rfl, h3, h4⟩ := matchConcatB_cons_iff.mp h1
      refine ⟨a, c ++ d, by simp, ?_, ih.mpr ⟨c, d, rfl, h4, ?_⟩⟩
      · rw [List.append_assoc]; exact h3
      · rw [List.append_assoc]; exact h2

theorem matchB_beginText {b : Regex} (hb : b.op = .beginText) (pre mid post : Str) :
    matchB b pre mid post = true ↔ mid = [] ∧ pre = [] := by
  cases b with
  | mk op f r s =>
    simp only [Regex.op] at hb; subst hb
    rw [matchB_mk]; simp [List.isEmpty_iff]

theorem matchB_endText {e : Regex} (he : e.op = .endText) (pre mid post : Str) :
    matchB e pre mid post = true ↔ mid = [] ∧ post = [] := by
  cases e with
  | mk op f r s =>
    simp only [Regex.op] at he; subst he
    rw [matchB_mk]; simp [List.isEmpty_iff]

/-- Unanchored search for `^ inner $` (text anchors) is a full match of `inner`. -/
theorem search_anchored {flags : Nat} {rune : List Nat} {b e : Regex} {inner : List Regex}
    (hb : b.op = .beginText) (he : e.op = .endText) (s : Str) :
    Search (.mk .concat flags rune (b :: (inner ++ [e]))) s ↔ matchConcatB inner [] s [] = true := by
  constructor
  · rintro ⟨pre, mid, post, hs, hm⟩
    rw [matchB_mk] at hm
    obtain ⟨a, b', rfl, h1, h2⟩ := matchConcatB_cons_iff.mp hm
    obtain ⟨rfl, rfl⟩ := (matchB_beginText hb _ _ _).mp h1
    obtain ⟨x, y, rfl, h3, h4⟩ := matchConcatB_append.mp h2
    obtain ⟨y1, y2, rfl, h5, h6⟩ := matchConcatB_cons_iff.mp h4
    obtain ⟨rfl, h7⟩ := (matchB_endText he _ _ _).mp h5
    rw [matchConcatB_nil, List.isEmpty_iff] at h6
    subst h6
    simp only [List.append_nil, List.nil_append] at h7 hs h3
    subst h7
    simp only [List.append_nil] at hs h3
    subst hs
    exact h3
  · intro h
    refine ⟨[], s, [], by simp, ?_⟩
    rw [matchB_mk]
    refine matchConcatB_cons_iff.mpr ⟨[], s, rfl, (matchB_beginText hb _ _ _).mpr ⟨rfl, rfl⟩, ?_⟩
    refine matchConcatB_append.mpr ⟨s, [], by simp, by simpa using h, ?_⟩
    exact matchConcatB_cons_iff.mpr ⟨[], [], rfl, (matchB_endText he _ _ _).mpr ⟨rfl, rfl⟩, by simp [matchConcatB_nil]⟩

/-- Shape of a list of length ≥ 2: head, middle, last. -/
theorem list_shape {α : Type} (l : List α) (h : ¬ l.length < 2) :
    ∃ b e, l.head? = some b ∧ l.getLast? = some e ∧ l = b :: ((l.drop 1).dropLast ++ [e]) := by
  match l with
  | [] => simp at h
  | [_] => simp at h
  | b :: x :: rest =>
    have hne : x :: rest ≠ [] := by simp
    refine ⟨b, (x :: rest).getLast hne, rfl, ?_, ?_⟩
    · rw [List.getLast?_cons_cons, List.getLast?_eq_some_getLast hne]
    · simp only [List.drop_succ_cons, List.drop_zero, List.cons.injEq, true_and]
      exact (List.dropLast_concat_getLast hne).symm

theorem matchExactTree_mk (op : Op) (flags : Nat) (rune : List Nat) (sub : List Regex) :
    matchExactTree (.mk op flags rune sub) =
      if op ≠ .concat then none
      else if sub.length < 2 then none
      else if (sub.head?.map Regex.op) ≠ some .beginText then none
      else if (sub.getLast?.map Regex.op) ≠ some .endText then none
      else if ((sub.drop 1).dropLast).isEmpty then some []
      else matchRegex (.mk op flags rune ((sub.drop 1).dropLast)) := by
  unfold matchExactTree; rfl

/-- What `matchExactTree` has checked when it answers. -/
theorem matchExactTree_some {re : Regex} {L : List Str} (h : matchExactTree re = some L) :
    ∃ flags rune b e inner, re = .mk .concat flags rune (b :: (inner ++ [e])) ∧
      b.op = .beginText ∧ e.op = .endText ∧
      ((inner = [] ∧ L = []) ∨ (inner ≠ [] ∧ matchRegex (.mk .concat flags rune inner) = some L)) := by
  cases re with
  | mk op flags rune sub =>
    rw [matchExactTree_mk] at h
    by_cases hop : op ≠ .concat
    · rw [if_pos hop] at h; simp at h
    · rw [if_neg hop] at h
      simp only [ne_eq, Decidable.not_not] at hop
      subst hop
      by_cases hlen : sub.length < 2
      · rw [if_pos hlen] at h; simp at h
      · rw [if_neg hlen] at h
        obtain ⟨b, e, hb, he, hshape⟩ := list_shape sub hlen
        by_cases h1 : (sub.head?.map Regex.op) ≠ some .beginText
        · rw [if_pos h1] at h; simp at h
        · rw [if_neg h1] at h
          by_cases h2 : (sub.getLast?.map Regex.op) ≠ some .endText
          · rw [if_pos h2] at h; simp at h
          · rw [if_neg h2] at h
            rw [hb] at h1; rw [he] at h2
            simp only [Option.map_some, ne_eq, Decidable.not_not, Option.some.injEq] at h1 h2
            refine ⟨flags, rune, b, e, (sub.drop 1).dropLast, by rw [← hshape], h1, h2, ?_⟩
            by_cases hem : ((sub.drop 1).dropLast).isEmpty = true
            · rw [if_pos hem] at h
              left
              exact ⟨List.isEmpty_iff.mp hem, by simpa using h.symm⟩
            · rw [if_neg hem] at h
              right
              exact ⟨fun e => hem (by rw [e]; rfl), h⟩

/-! ## Search, the literal list the rewrite substitutes -/

theorem searchB_iff (re : Regex) (s : Str) : searchB re s = true ↔ Search re s := by
  unfold searchB Search
  rw [splits_any]
  constructor
  · rintro ⟨pre, rest, rfl, h⟩
    obtain ⟨mid, post, rfl, hm⟩ := splits_any.mp h
    exact ⟨pre, mid, post, rfl, hm⟩
  · rintro ⟨pre, mid, post, rfl, hm⟩
    exact ⟨pre, mid ++ post, rfl, splits_any.mpr ⟨mid, post, rfl, hm⟩⟩

/-- The strings the rewrite tests for when `matchExactRegex` answered `vals`: an empty answer
(the `/^$/` case) becomes the empty-string literal. -/
def rewriteLits : List Str → List Str
  | [] => [[]]
  | l => l

theorem rewriteLits_of_ne {L : List Str} (h : L ≠ []) : rewriteLits L = L := by
  cases L with
  | nil => exact absurd rfl h
  | cons _ _ => rfl

theorem encStrs_rewriteLits {L : List Str} (h : EncStrs L) : EncStrs (rewriteLits L) := by
  cases L with
  | nil => intro l hl c hc; simp only [rewriteLits, List.mem_singleton] at hl; subst hl; simp at hc
  | cons _ _ => exact h

theorem wf_inner {flags : Nat} {rune : List Nat} {b e : Regex} {inner : List Regex}
    (hw : (Regex.mk .concat flags rune (b :: (inner ++ [e]))).wf = true) (hne : inner ≠ []) :
    (Regex.mk .concat flags rune inner).wf = true := by
  rw [wf_mk, Bool.and_eq_true, wfAll_cons, wfAll_append, Bool.and_eq_true, Bool.and_eq_true] at hw
  rw [wf_mk, Bool.and_eq_true]
  refine ⟨?_, hw.2.2.1⟩
  cases inner with
  | nil => exact absurd rfl hne
  | cons _ _ => simp

/-- Everything `matchExactTree` guarantees on a well-formed tree. -/
theorem matchExactTree_spec {re : Regex} {L : List Str} (h : matchExactTree re = some L)
    (hw : re.wf = true) :
    (∀ s, Search re s ↔ s ∈ rewriteLits L) ∧ (rewriteLits L).length ≤ maxLiterals ∧ EncStrs (rewriteLits L) := by
  obtain ⟨flags, rune, b, e, inner, rfl, hb, he, hcase⟩ := matchExactTree_some h
  rcases hcase with ⟨rfl, rfl⟩ | ⟨hne, hm⟩
  · refine ⟨?_, by simp [rewriteLits, maxLiterals], encStrs_rewriteLits (fun l hl => absurd hl List.not_mem_nil)⟩
    intro s
    rw [search_anchored hb he, matchConcatB_nil]
    simp [rewriteLits, List.isEmpty_iff]
  · have sp := regex_spec _ L hm
    have hL := regex_ne _ L hm (wf_inner hw hne)
    rw [rewriteLits_of_ne hL]
    refine ⟨?_, sp.len, sp.enc⟩
    intro s
    rw [search_anchored hb he, ← sp.lang [] s [], matchB_mk]

/-! ## Go strings: stray bytes -/

theorem decodeStr_ofStr (l : Str) : decodeStr (ofStr l) = l := by
  induction l with
  | nil => rfl
  | cons c cs ih => simp only [ofStr, decodeStr, List.map_cons, GoUnit.decode, List.cons.injEq, true_and] at *; exact ih

/-- A string that decodes to a rune sequence without U+FFFD is that sequence, byte for byte. -/
theorem eq_ofStr_of_decode {x : GoStr} {l : Str} (henc : ∀ c, c ∈ l → isEncodableRune c.toNat = true)
    (h : decodeStr x = l) : x = ofStr l := by
  induction x generalizing l with
  | nil => simp only [decodeStr, List.map_nil] at h; subst h; rfl
  | cons u us ih =>
    cases l with
    | nil => simp [decodeStr] at h
    | cons c cs =>
      simp only [decodeStr, List.map_cons, List.cons.injEq] at h
      have hc := henc c List.mem_cons_self
      have := ih (l := cs) (fun c' hc' => henc c' (List.mem_cons_of_mem _ hc')) h.2
      rw [this]
      cases u with
      | ch c' => simp only [GoUnit.decode] at h; rw [h.1]; rfl
      | bad b =>
        exfalso
        simp only [GoUnit.decode] at h
        rw [← h.1] at hc
        exact absurd hc (by decide)

theorem decode_mem_iff {x : GoStr} {L : List Str} (henc : EncStrs L) :
    decodeStr x ∈ L ↔ x ∈ L.map ofStr := by
  rw [List.mem_map]
  constructor
  · intro h; exact ⟨decodeStr x, h, (eq_ofStr_of_decode (henc _ h) rfl).symm⟩
  · rintro ⟨l, hl, rfl⟩; rw [decodeStr_ofStr]; exact hl

/-! ## Evaluation of the rewritten tests -/

/-- `before ≈ after`: equal, or `nil` became `false` (a regex test on a non-string gives nil,
the equality test that replaces it gives false). -/
def Rel (v w : Val) : Prop := v = w ∨ (v = .nil ∧ w = .bool false)

theorem Rel.refl (v : Val) : Rel v v := Or.inl rfl

theorem Rel.truthy {v w : Val} (h : Rel v w) : truthy v = truthy w := by
  rcases h with rfl | ⟨rfl, rfl⟩ <;> rfl

/-- `AND` / `OR` respect `≈` in both operands. -/
theorem evalLogic_rel (isOr : Bool) {a a' b b' : Val} (ha : Rel a a') (hb : Rel b b') :
    Rel (evalLogic isOr a b) (evalLogic isOr a' b') := by
  rcases ha with rfl | ⟨rfl, rfl⟩ <;> rcases hb with rfl | ⟨rfl, rfl⟩
  · exact Rel.refl _
  · cases a <;> cases isOr <;> simp [evalLogic, Rel]
  · cases b <;> cases isOr <;> simp [evalLogic, Rel]
  · cases isOr <;> simp [evalLogic, Rel]

/-- The boolean an equality test against a literal yields. -/
def strCmpB (neg : Bool) (v : Val) (lit : Str) : Bool :=
  match v with
  | .str x => if neg then x ≠ ofStr lit else x = ofStr lit
  | _ => false

theorem evalStrCmp_eq (neg : Bool) (v : Val) (lit : Str) : evalStrCmp neg v lit = .bool (strCmpB neg v lit) := by
  cases v <;> simp [evalStrCmp, strCmpB]

section
variable (matchStr : Str → GoStr → Bool) (atom : Expr → Val)

theorem eval_and (l r : Expr) :
    eval matchStr atom (.binary .AND l r) = evalLogic false (eval matchStr atom l) (eval matchStr atom r) := by
  simp [eval]

theorem eval_or (l r : Expr) :
    eval matchStr atom (.binary .OR l r) = evalLogic true (eval matchStr atom l) (eval matchStr atom r) := by
  simp [eval]

theorem eval_paren (e : Expr) : eval matchStr atom (.paren e) = eval matchStr atom e := by
  simp [eval]

theorem eval_eq_lit (l : Expr) (lit : Str) :
    eval matchStr atom (.binary .EQ l (.string lit)) = .bool (strCmpB false (eval matchStr atom l) lit) := by
  simp [eval, evalStrCmp_eq]

theorem eval_neq_lit (l : Expr) (lit : Str) :
    eval matchStr atom (.binary .NEQ l (.string lit)) = .bool (strCmpB true (eval matchStr atom l) lit) := by
  simp [eval, evalStrCmp_eq]

theorem eval_eqregex (l : Expr) (src : Str) :
    eval matchStr atom (.binary .EQREGEX l (.regex src)) = evalRegexCmp matchStr false (eval matchStr atom l) src := by
  simp [eval]

theorem eval_neqregex (l : Expr) (src : Str) :
    eval matchStr atom (.binary .NEQREGEX l (.regex src)) = evalRegexCmp matchStr true (eval matchStr atom l) src := by
  simp [eval]

theorem eval_stripParen (e : Expr) : eval matchStr atom (stripParen e) = eval matchStr atom e := by
  cases e <;> simp [stripParen, eval_paren]

theorem eval_chain_or (lhs : Expr) (vs : List Str) (acc : Expr) (b : Bool)
    (h : eval matchStr atom acc = .bool b) :
    eval matchStr atom (chain .EQ .OR lhs acc vs) =
      .bool (b || vs.any (strCmpB false (eval matchStr atom lhs))) := by
  induction vs generalizing acc b with
  | nil => simp [chain, h]
  | cons v vs ih =>
    rw [chain, ih _ (b || strCmpB false (eval matchStr atom lhs) v)]
    · simp [Bool.or_assoc]
    · rw [eval_or, h, eval_eq_lit]; simp [evalLogic]

theorem eval_chain_and (lhs : Expr) (vs : List Str) (acc : Expr) (b : Bool)
    (h : eval matchStr atom acc = .bool b) :
    eval matchStr atom (chain .NEQ .AND lhs acc vs) =
      .bool (b && vs.all (strCmpB true (eval matchStr atom lhs))) := by
  induction vs generalizing acc b with
  | nil => simp [chain, h]
  | cons v vs ih =>
    rw [chain, ih _ (b && strCmpB true (eval matchStr atom lhs) v)]
    · simp [Bool.and_assoc]
    · rw [eval_and, h, eval_neq_lit]; simp [evalLogic]

/-- The OR chain is true iff the value equals one of the substituted literals. -/
theorem eval_tests_or (lhs : Expr) (vals : List Str) :
    eval matchStr atom (literalTests .EQ .OR lhs vals) =
      .bool ((rewriteLits vals).any (strCmpB false (eval matchStr atom lhs))) := by
  match vals with
  | [] => simp [literalTests, rewriteLits, eval_eq_lit]
  | [v] => simp [literalTests, rewriteLits, eval_eq_lit]
  | v :: w :: vs =>
    have e : literalTests .EQ .OR lhs (v :: w :: vs) =
        .paren (chain .EQ .OR lhs (.binary .EQ lhs (.string v)) (w :: vs)) := rfl
    rw [e, eval_paren, eval_chain_or matchStr atom lhs (w :: vs) _ _ (eval_eq_lit matchStr atom lhs v)]
    simp [rewriteLits]

/-- The AND chain is true iff the value differs from all the substituted literals. -/
theorem eval_tests_and (lhs : Expr) (vals : List Str) :
    eval matchStr atom (literalTests .NEQ .AND lhs vals) =
      .bool ((rewriteLits vals).all (strCmpB true (eval matchStr atom lhs))) := by
  match vals with
  | [] => simp [literalTests, rewriteLits, eval_neq_lit]
  | [v] => simp [literalTests, rewriteLits, eval_neq_lit]
  | v :: w :: vs =>
    have e : literalTests .NEQ .AND lhs (v :: w :: vs) =
        .paren (chain .NEQ .AND lhs (.binary .NEQ lhs (.string v)) (w :: vs)) := rfl
    rw [e, eval_paren, eval_chain_and matchStr atom lhs (w :: vs) _ _ (eval_neq_lit matchStr atom lhs v)]
    simp [rewriteLits]

/-- `exact` (what `matchExactRegex` answers) is sound for `matchStr` (what `MatchString`
decides): the literals substituted are, byte for byte, the accepted strings. -/
def ExactSound (exact : Str → Option (List Str)) : Prop :=
  ∀ src L, exact src = some L → ∀ x : GoStr, matchStr src x = true ↔ x ∈ (rewriteLits L).map ofStr

theorem any_strCmp_str (x : GoStr) (lits : List Str) :
    lits.any (strCmpB false (.str x)) = true ↔ x ∈ lits.map ofStr := by
  simp only [List.any_eq_true, strCmpB, Bool.false_eq_true, if_false, decide_eq_true_eq, List.mem_map]
  constructor
  · rintro ⟨l, hl, rfl⟩; exact ⟨l, hl, rfl⟩
  · rintro ⟨l, hl, rfl⟩; exact ⟨l, hl, rfl⟩

theorem all_strCmp_str (x : GoStr) (lits : List Str) :
    lits.all (strCmpB true (.str x)) = !(lits.any (strCmpB false (.str x))) := by
  induction lits with
  | nil => rfl
  | cons l ls ih => simp only [List.all_cons, List.any_cons, ih, strCmpB, if_true, Bool.false_eq_true, if_false,
      Bool.not_or]; simp

theorem rewriteNode_regex (exact : Str → Option (List Str)) (op : Token) (lhs : Expr) (src : Str) :
    rewriteNode exact (.binary op lhs (.regex src)) =
      if op = .EQREGEX then
        match exact src with
        | none => .binary op lhs (.regex src)
        | some vals => literalTests .EQ .OR lhs vals
      else if op = .NEQREGEX then
        match exact src with
        | none => .binary op lhs (.regex src)
        | some vals => literalTests .NEQ .AND lhs vals
      else .binary op lhs (.regex src) := rfl

theorem rewriteLits_ne_nil (vals : List Str) : rewriteLits vals ≠ [] := by
  cases vals <;> simp [rewriteLits]

/-- One regex test and what replaces it evaluate to `≈` values, whatever the left operand is. -/
theorem rewriteNode_rel {exact : Str → Option (List Str)} (hs : ExactSound matchStr exact)
    (op : Token) (lhs : Expr) (src : Str) :
    Rel (eval matchStr atom (.binary op lhs (.regex src)))
      (eval matchStr atom (rewriteNode exact (.binary op lhs (.regex src)))) := by
  rw [rewriteNode_regex]
  by_cases h1 : op = .EQREGEX
  · subst h1
    simp only [if_true]
    cases he : exact src with
    | none => exact Rel.refl _
    | some vals =>
      simp only
      rw [eval_tests_or, eval_eqregex]
      cases hv : eval matchStr atom lhs with
      | str x =>
        left
        simp only [evalRegexCmp, Bool.false_eq_true, if_false, Val.bool.injEq]
        rw [Bool.eq_iff_iff, any_strCmp_str]
        exact hs src vals he x
      | nil => right; exact ⟨rfl, by simp [strCmpB]⟩
      | bool b => right; exact ⟨rfl, by simp [strCmpB]⟩
      | other => right; exact ⟨rfl, by simp [strCmpB]⟩
  · rw [if_neg h1]
    by_cases h2 : op = .NEQREGEX
    · subst h2
      simp only [if_true]
      cases he : exact src with
      | none => exact Rel.refl _
      | some vals =>
        simp only
        rw [eval_tests_and, eval_neqregex]
        cases hv : eval matchStr atom lhs with
        | str x =>
          left
          simp only [evalRegexCmp, if_true, Val.bool.injEq]
          rw [all_strCmp_str]
          congr 1
          rw [Bool.eq_iff_iff, any_strCmp_str]
          exact hs src vals he x
        | nil => right; refine ⟨rfl, ?_⟩; obtain ⟨l, ls, e⟩ := List.exists_cons_of_ne_nil (rewriteLits_ne_nil vals); rw [e]; simp [strCmpB]
        | bool b => right; refine ⟨rfl, ?_⟩; obtain ⟨l, ls, e⟩ := List.exists_cons_of_ne_nil (rewriteLits_ne_nil vals); rw [e]; simp [strCmpB]
        | other => right; refine ⟨rfl, ?_⟩; obtain ⟨l, ls, e⟩ := List.exists_cons_of_ne_nil (rewriteLits_ne_nil vals); rw [e]; simp [strCmpB]
    · rw [if_neg h2]; exact Rel.refl _

end

/-! ## Conditions -/

mutual
  /-- Does a regex operator occur anywhere in the expression (call arguments included)? -/
  def hasRegexOp : Expr → Bool
    | .binary op l r => op == .EQREGEX || op == .NEQREGEX || hasRegexOp l || hasRegexOp r
    | .paren e => hasRegexOp e
    | .call _ args => hasRegexOpArgs args
    | _ => false
  def hasRegexOpArgs : List Expr → Bool
    | [] => false
    | a :: rest => hasRegexOp a || hasRegexOpArgs rest
end

theorem rewriteNode_other (exact : Str → Option (List Str)) {op : Token} (l r : Expr)
    (h1 : op ≠ .EQREGEX) (h2 : op ≠ .NEQREGEX) : rewriteNode exact (.binary op l r) = .binary op l r := by
  cases r <;> first | rfl | (rw [rewriteNode_regex, if_neg h1, if_neg h2])

theorem rewriteExpr_binary (exact : Str → Option (List Str)) (op : Token) (l r : Expr) :
    rewriteExpr exact (.binary op l r) =
      rewriteNode exact (.binary op (rewriteExpr exact l) (rewriteExpr exact r)) := by
  rw [rewriteExpr]

theorem rewriteExpr_paren (exact : Str → Option (List Str)) (e : Expr) :
    rewriteExpr exact (.paren e) = .paren (rewriteExpr exact e) := by
  rw [rewriteExpr]

theorem rewriteExpr_regex (exact : Str → Option (List Str)) (src : Str) :
    rewriteExpr exact (.regex src) = .regex src := by
  unfold rewriteExpr; rfl

mutual
  /-- Without a regex operator nothing changes. -/
  theorem rewriteExpr_noop (exact : Str → Option (List Str)) :
      ∀ e : Expr, hasRegexOp e = false → rewriteExpr exact e = e
    | .binary op l r, h => by
      rw [hasRegexOp] at h
      simp only [Bool.or_eq_false_iff, beq_eq_false_iff_ne, ne_eq] at h
      rw [rewriteExpr_binary, rewriteExpr_noop exact l h.1.2, rewriteExpr_noop exact r h.2,
        rewriteNode_other exact l r h.1.1.1 h.1.1.2]
    | .paren e, h => by
      rw [hasRegexOp] at h
      rw [rewriteExpr_paren, rewriteExpr_noop exact e h]
    | .call name args, h => by
      rw [hasRegexOp] at h
      rw [rewriteExpr, rewriteArgs_noop exact args h]
    | .varRef _ _, _ => by unfold rewriteExpr; rfl
    | .distinct _, _ => by unfold rewriteExpr; rfl
    | .wildcard _, _ => by unfold rewriteExpr; rfl
    | .regex _, _ => by unfold rewriteExpr; rfl
    | .string _, _ => by unfold rewriteExpr; rfl
    | .number _, _ => by unfold rewriteExpr; rfl
    | .integer _, _ => by unfold rewriteExpr; rfl
    | .unsigned _, _ => by unfold rewriteExpr; rfl
    | .boolean _, _ => by unfold rewriteExpr; rfl
    | .duration _, _ => by unfold rewriteExpr; rfl
    | .time _, _ => by unfold rewriteExpr; rfl
    | .nil, _ => by unfold rewriteExpr; rfl
    | .list _, _ => by unfold rewriteExpr; rfl
    | .boundParam _, _ => by unfold rewriteExpr; rfl
  theorem rewriteArgs_noop (exact : Str → Option (List Str)) :
      ∀ args : List Expr, hasRegexOpArgs args = false → rewriteArgs exact args = args
    | [], _ => by rw [rewriteArgs]
    | a :: rest, h => by
      rw [hasRegexOpArgs, Bool.or_eq_false_iff] at h
      rw [rewriteArgs, rewriteExpr_noop exact a h.1, rewriteArgs_noop exact rest h.2]
end

/-- Conditions in which every regex test stands under `AND`, `OR` and parentheses only (its
truth value is what counts there), the tested operand itself being free of regex tests.
Sub-expressions without regex operators are arbitrary. -/
inductive Cond : Expr → Prop
  | atom {e : Expr} : hasRegexOp e = false → Cond e
  | test {op : Token} {lhs : Expr} {src : Str} : hasRegexOp lhs = false → Cond (.binary op lhs (.regex src))
  | and {l r : Expr} : Cond l → Cond r → Cond (.binary .AND l r)
  | or {l r : Expr} : Cond l → Cond r → Cond (.binary .OR l r)
  | paren {e : Expr} : Cond e → Cond (.paren e)

/-- Before and after the rewrite a condition of class `Cond` evaluates to `≈` values. -/
theorem rewriteExpr_rel (matchStr : Str → GoStr → Bool) (atom : Expr → Val)
    {exact : Str → Option (List Str)} (hs : ExactSound matchStr exact) {e : Expr} (hc : Cond e) :
    Rel (eval matchStr atom e) (eval matchStr atom (rewriteExpr exact e)) := by
  induction hc with
  | atom h => rw [rewriteExpr_noop exact _ h]; exact Rel.refl _
  | @test op lhs src h =>
    rw [rewriteExpr_binary, rewriteExpr_noop exact _ h, rewriteExpr_regex]
    exact rewriteNode_rel matchStr atom hs op lhs src
  | and _ _ ihl ihr =>
    rw [rewriteExpr_binary, rewriteNode_other exact _ _ (by decide) (by decide), eval_and, eval_and]
    exact evalLogic_rel false ihl ihr
  | or _ _ ihl ihr =>
    rw [rewriteExpr_binary, rewriteNode_other exact _ _ (by decide) (by decide), eval_or, eval_or]
    exact evalLogic_rel true ihl ihr
  | paren _ ih =>
    rw [rewriteExpr_paren, eval_paren, eval_paren]; exact ih

/-! ## What `matchRegex` accepts -/

mutual
  /-- The node and all its descendants. -/
  def nodes : Regex → List Regex
    | .mk op flags rune sub => .mk op flags rune sub :: nodesAll sub
  def nodesAll : List Regex → List Regex
    | [] => []
    | r :: rest => nodes r ++ nodesAll rest
end

/-- A node `matchRegex` can go through: one of the five operators of its switch, without the
fold-case flag. -/
def acceptedNode (n : Regex) : Bool :=
  !hasFold n.flags && (n.op == .literal || n.op == .capture || n.op == .concat || n.op == .charClass || n.op == .alternate)

theorem nodes_mk (op : Op) (flags : Nat) (rune : List Nat) (sub : List Regex) :
    nodes (.mk op flags rune sub) = .mk op flags rune sub :: nodesAll sub := by rw [nodes]

theorem nodesAll_cons (r : Regex) (rest : List Regex) : nodesAll (r :: rest) = nodes r ++ nodesAll rest := by
  rw [nodesAll]

theorem wf_sub_nil {op : Op} {flags : Nat} {rune : List Nat} {sub : List Regex}
    (hw : (Regex.mk op flags rune sub).wf = true) (h : op = .literal ∨ op = .charClass) : sub = [] := by
  rw [wf_mk, Bool.and_eq_true] at hw
  rcases h with rfl | rfl
  · exact List.isEmpty_iff.mp hw.1
  · simp only [Bool.and_eq_true] at hw; exact List.isEmpty_iff.mp hw.1.2

mutual
  /-- On a well-formed tree an answer of `matchRegex` means every node of the tree is accepted. -/
  theorem regex_nodes : ∀ (re : Regex) (L : List Str), matchRegex re = some L → re.wf = true →
      ∀ n, n ∈ nodes re → acceptedNode n = true
    | .mk op flags rune sub, L, h, hw, n, hn => by
      rw [nodes_mk, List.mem_cons] at hn
      have hw' := hw
      rw [wf_mk, Bool.and_eq_true] at hw'
      cases op with
      | literal =>
        rw [matchRegex] at h
        split at h
        · simp at h
        · rename_i hf
          rw [wf_sub_nil hw (Or.inl rfl)] at hn
          rcases hn with rfl | hn
          · simp only [Bool.not_eq_true] at hf; simp [acceptedNode, Regex.flags, Regex.op, hf]
          · simp [nodesAll] at hn
      | charClass =>
        rw [matchRegex] at h
        split at h
        · simp at h
        · rename_i hf
          rw [wf_sub_nil hw (Or.inr rfl)] at hn
          rcases hn with rfl | hn
          · simp only [Bool.not_eq_true] at hf; simp [acceptedNode, Regex.flags, Regex.op, hf]
          · simp [nodesAll] at hn
      | capture =>
        rw [matchRegex] at h
        split at h
        · simp at h
        · rename_i hf
          rcases hn with rfl | hn
          · simp only [Bool.not_eq_true] at hf; simp [acceptedNode, Regex.flags, Regex.op, hf]
          · have h1 := hw'.1
            simp only [beq_iff_eq] at h1
            exact first_nodes sub L h hw'.2 h1 n hn
      | concat =>
        rw [matchRegex] at h
        split at h
        · simp at h
        · rename_i hf
          rcases hn with rfl | hn
          · simp only [Bool.not_eq_true] at hf; simp [acceptedNode, Regex.flags, Regex.op, hf]
          · exact concat_nodes sub L h hw'.2 n hn
      | alternate =>
        rw [matchRegex] at h
        split at h
        · simp at h
        · rename_i hf
          rcases hn with rfl | hn
          · simp only [Bool.not_eq_true] at hf; simp [acceptedNode, Regex.flags, Regex.op, hf]
          · cases ha : matchAlt sub with
            | none => rw [ha] at h; simp at h
            | some names => exact alt_nodes sub names ha hw'.2 n hn
      | _ => simp [matchRegex] at h
  theorem first_nodes : ∀ (sub : List Regex) (L : List Str), matchFirst sub = some L → wfAll sub = true →
      sub.length = 1 → ∀ n, n ∈ nodesAll sub → acceptedNode n = true
    | [], L, h, _, _, _, _ => by simp [matchFirst] at h
    | r :: rest, L, h, hw, hl, n, hn => by
      rw [matchFirst] at h
      rw [wfAll_cons, Bool.and_eq_true] at hw
      have : rest = [] := by cases rest with | nil => rfl | cons _ _ => simp at hl
      subst this
      rw [nodesAll_cons, nodesAll, List.append_nil] at hn
      exact regex_nodes r L h hw.1 n hn
  theorem concat_nodes : ∀ (sub : List Regex) (L : List Str), matchConcat sub = some L → wfAll sub = true →
      ∀ n, n ∈ nodesAll sub → acceptedNode n = true
    | [], L, h, _, _, _ => by simp [matchConcat] at h
    | r :: rest, L, h, hw, n, hn => by
      rw [matchConcat] at h
      rw [wfAll_cons, Bool.and_eq_true] at hw
      rw [nodesAll_cons, List.mem_append] at hn
      cases hr : matchRegex r with
      | none => rw [hr] at h; simp at h
      | some names =>
        rw [hr] at h
        rcases hn with hn | hn
        · exact regex_nodes r names hr hw.1 n hn
        · exact loop_nodes rest names L h hw.2 n hn
  theorem loop_nodes : ∀ (rest : List Regex) (names L : List Str), concatLoop names rest = some L →
      wfAll rest = true → ∀ n, n ∈ nodesAll rest → acceptedNode n = true
    | [], _, _, _, _, n, hn => by simp [nodesAll] at hn
    | r :: rest, names, L, h, hw, n, hn => by
      rw [concatLoop] at h
      rw [wfAll_cons, Bool.and_eq_true] at hw
      rw [nodesAll_cons, List.mem_append] at hn
      cases hr : matchRegex r with
      | none => rw [hr] at h; simp at h
      | some vals =>
        rw [hr] at h
        simp only at h
        cases hc : concatStep names vals with
        | none => rw [hc] at h; simp at h
        | some names' =>
          rw [hc] at h
          rcases hn with hn | hn
          · exact regex_nodes r vals hr hw.1 n hn
          · exact loop_nodes rest names' L h hw.2 n hn
  theorem alt_nodes : ∀ (sub : List Regex) (L : List Str), matchAlt sub = some L → wfAll sub = true →
      ∀ n, n ∈ nodesAll sub → acceptedNode n = true
    | [], _, _, _, n, hn => by simp [nodesAll] at hn
    | r :: rest, L, h, hw, n, hn => by
      rw [matchAlt] at h
      rw [wfAll_cons, Bool.and_eq_true] at hw
      rw [nodesAll_cons, List.mem_append] at hn
      cases hr : matchRegex r with
      | none => rw [hr] at h; simp at h
      | some vals =>
        rw [hr] at h
        cases ha : matchAlt rest with
        | none => rw [ha] at h; simp at h
        | some more =>
          rcases hn with hn | hn
          · exact regex_nodes r vals hr hw.1 n hn
          · exact alt_nodes rest more ha hw.2 n hn
end

/-- Pigeonhole: a duplicate-free list inside another list is no longer than it. -/
theorem nodup_length_le {ws L : List Str} (hn : ws.Nodup) (hs : ∀ w, w ∈ ws → w ∈ L) : ws.length ≤ L.length := by
  induction ws generalizing L with
  | nil => simp
  | cons w ws ih =>
    rw [List.nodup_cons] at hn
    have hw : w ∈ L := hs w List.mem_cons_self
    have := ih (L := L.erase w) hn.2 (fun x hx => (List.mem_erase_of_ne (fun (e : x = w) => hn.1 (by rw [← e]; exact hx))).mpr (hs x (List.mem_cons_of_mem _ hx)))
    rw [List.length_erase_of_mem hw] at this
    have : 0 < L.length := List.length_pos_of_mem hw
    simp only [List.length_cons]
    omega

end InfluxQL.Rx

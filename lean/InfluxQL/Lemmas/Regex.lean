import InfluxQL.Model.Regex
/-
Lemmas for C11: list-level facts (`splits`, literals, classes, the three concatenation
strategies) and the mutual induction over the regex tree.
-/
namespace InfluxQL.Rx
open InfluxQL Gen

/-! ## `splits` -/

theorem mem_splits {l a b : Str} : (a, b) ∈ splits l ↔ l = a ++ b := by
  induction l generalizing a b with
  | nil =>
    simp only [splits, List.mem_singleton, Prod.mk.injEq]
    constructor
    · rintro ⟨rfl, rfl⟩; rfl
    · intro h
      have := List.append_eq_nil_iff.mp h.symm
      exact ⟨this.1, this.2⟩
  | cons c cs ih =>
    simp only [splits, List.mem_cons, Prod.mk.injEq, List.mem_map]
    constructor
    · rintro (⟨rfl, rfl⟩ | ⟨⟨a', b'⟩, hm, rfl, rfl⟩)
      · rfl
      · rw [ih.mp hm]; rfl
    · intro h
      cases a with
      | nil => left; exact ⟨rfl, h.symm⟩
      | cons x a' =>
        right
        simp only [List.cons_append, List.cons.injEq] at h
        exact ⟨(a', b), ih.mpr h.2, by rw [h.1], rfl⟩

theorem splits_any {l : Str} {p : Str × Str → Bool} :
    (splits l).any p = true ↔ ∃ a b, l = a ++ b ∧ p (a, b) = true := by
  rw [List.any_eq_true]
  constructor
  · rintro ⟨⟨a, b⟩, hm, hp⟩; exact ⟨a, b, mem_splits.mp hm, hp⟩
  · rintro ⟨a, b, h, hp⟩; exact ⟨(a, b), mem_splits.mpr h, hp⟩

/-! ## Literals -/

theorem toNat_ofNat_valid (n : Nat) (h : n.isValidChar) : (Char.ofNat n).toNat = n := by
  unfold Char.ofNat
  rw [dif_pos h]
  simp [Char.ofNatAux, Char.toNat]

theorem encodable_valid {r : Nat} (h : isEncodableRune r = true) : r.isValidChar := by
  simp only [isEncodableRune, Bool.and_eq_true, Bool.or_eq_true, decide_eq_true_eq] at h
  unfold Nat.isValidChar
  omega

theorem encodable_ne_fffd {r : Nat} (h : isEncodableRune r = true) : r ≠ 0xFFFD := by
  simp only [isEncodableRune, Bool.and_eq_true, bne_iff_ne, ne_eq, runeError] at h
  exact h.2

theorem goChar_toNat {r : Nat} (h : isEncodableRune r = true) : (goChar r).toNat = r := by
  unfold goChar
  rw [if_pos (encodable_valid h)]
  exact toNat_ofNat_valid r (encodable_valid h)

/-- A literal without case folding matches exactly its own rune sequence. -/
theorem litMatch_false {rs : List Nat} {s : Str} : litMatch false rs s = true ↔ s.map Char.toNat = rs := by
  induction rs generalizing s with
  | nil => cases s <;> simp [litMatch]
  | cons r rs ih =>
    cases s with
    | nil => simp [litMatch]
    | cons c cs =>
      simp only [litMatch, Bool.false_and, Bool.or_false, Bool.and_eq_true, beq_iff_eq, List.map_cons,
        List.cons.injEq, ih]

theorem map_toNat_eq_iff {rs : List Nat} {s : Str} (h : rs.all isEncodableRune = true) :
    s.map Char.toNat = rs ↔ s = runesToStr rs := by
  induction rs generalizing s with
  | nil => cases s <;> simp [runesToStr]
  | cons r rs ih =>
    simp only [List.all_cons, Bool.and_eq_true] at h
    cases s with
    | nil => simp [runesToStr]
    | cons c cs =>
      simp only [List.map_cons, List.cons.injEq, runesToStr] at *
      rw [ih h.2]
      constructor
      · rintro ⟨h1, h2⟩
        refine ⟨?_, h2⟩
        have hv := encodable_valid h.1
        rw [← h1] at hv
        rw [← h1, goChar, if_pos hv, Char.ofNat_toNat]
      · rintro ⟨h1, h2⟩
        exact ⟨by rw [h1, goChar_toNat h.1], h2⟩

/-! ## Character classes -/

theorem rangeStrs_spec {n lo : Nat} {L : List Str} (h : rangeStrs lo n = some L) :
    L.length = n ∧ (∀ x, x ∈ L ↔ ∃ k, k < n ∧ x = [goChar (lo + k)]) ∧
      ∀ k, k < n → isEncodableRune (lo + k) = true := by
  induction n generalizing lo L with
  | zero =>
    simp only [rangeStrs, Option.some.injEq] at h
    subst h
    simp
  | succ n ih =>
    simp only [rangeStrs] at h
    split at h
    · rename_i henc
      cases hr : rangeStrs (lo + 1) n with
      | none => rw [hr] at h; simp at h
      | some L' =>
        rw [hr] at h
        simp only [Option.map_some, Option.some.injEq] at h
        subst h
        obtain ⟨h1, h2, h3⟩ := ih hr
        refine ⟨by simp [h1], ?_, ?_⟩
        · intro x
          simp only [List.mem_cons, h2]
          constructor
          · rintro (rfl | ⟨k, hk, rfl⟩)
            · exact ⟨0, by omega, rfl⟩
            · exact ⟨k + 1, by omega, by rw [show lo + (k + 1) = lo + 1 + k by omega]⟩
          · rintro ⟨k, hk, rfl⟩
            cases k with
            | zero => left; rfl
            | succ k => right; exact ⟨k, by omega, by rw [show lo + (k + 1) = lo + 1 + k by omega]⟩
        · intro k hk
          cases k with
          | zero => exact henc
          | succ k => rw [show lo + (k + 1) = lo + 1 + k by omega]; exact h3 k (by omega)
    · simp at h

theorem goChar_toNat_self (c : Char) (h : isEncodableRune c.toNat = true) : goChar c.toNat = c := by
  rw [goChar, if_pos (encodable_valid h), Char.ofNat_toNat]

theorem rangeStrs_mem_char {n lo : Nat} {L : List Str} (h : rangeStrs lo n = some L) (c : Char) :
    [c] ∈ L ↔ lo ≤ c.toNat ∧ c.toNat < lo + n := by
  obtain ⟨_, h2, h3⟩ := rangeStrs_spec h
  rw [h2]
  constructor
  · rintro ⟨k, hk, he⟩
    simp only [List.cons.injEq, and_true] at he
    have := goChar_toNat (h3 k hk)
    rw [← he] at this
    omega
  · rintro ⟨h1, h4⟩
    refine ⟨c.toNat - lo, by omega, ?_⟩
    have e : lo + (c.toNat - lo) = c.toNat := by omega
    rw [e, goChar_toNat_self c (by rw [← e]; exact h3 _ (by omega))]

theorem classStrs_spec {rune : List Nat} {L : List Str} (h : classStrs rune = some L) :
    L.length = classSize rune ∧ (∀ x, x ∈ L → ∃ c, x = [c]) ∧
      (∀ c : Char, [c] ∈ L ↔ classMem c.toNat rune = true) ∧
      (∀ x, x ∈ L → ∀ c, c ∈ x → isEncodableRune c.toNat = true) := by
  induction rune using classSize.induct generalizing L with
  | case1 lo hi rest ih =>
    simp only [classStrs] at h
    cases hr : rangeStrs lo (hi + 1 - lo) with
    | none => rw [hr] at h; simp at h
    | some A =>
      rw [hr] at h
      cases hc : classStrs rest with
      | none => rw [hc] at h; simp at h
      | some B =>
        rw [hc] at h
        simp only [Option.map_some, Option.some.injEq] at h
        subst h
        obtain ⟨i1, i2, i3, i4⟩ := ih hc
        obtain ⟨r1, r2, r3⟩ := rangeStrs_spec hr
        refine ⟨by simp [classSize, r1, i1], ?_, ?_, ?_⟩
        · intro x hx
          rcases List.mem_append.mp hx with hx | hx
          · obtain ⟨k, _, rfl⟩ := (r2 x).mp hx; exact ⟨_, rfl⟩
          · exact i2 x hx
        · intro c
          simp only [List.mem_append, classMem, Bool.or_eq_true, Bool.and_eq_true, decide_eq_true_eq,
            rangeStrs_mem_char hr, i3]
          constructor
          · rintro (⟨a, b⟩ | h)
            · left; omega
            · right; exact h
          · rintro (⟨a, b⟩ | h)
            · left; omega
            · right; exact h
        · intro x hx c hc'
          rcases List.mem_append.mp hx with hx | hx
          · obtain ⟨k, hk, rfl⟩ := (r2 x).mp hx
            simp only [List.mem_singleton] at hc'
            subst hc'
            rw [goChar_toNat (r3 k hk)]; exact r3 k hk
          · exact i4 x hx c hc'
  | case2 rune hne =>
    have : classStrs rune = some [] := by
      unfold classStrs
      split
      · rename_i lo hi rest; exact absurd rfl (hne lo hi rest)
      · rfl
    rw [this] at h
    simp only [Option.some.injEq] at h
    subst h
    refine ⟨?_, by simp, ?_, by simp⟩
    · unfold classSize; split
      · rename_i lo hi rest; exact absurd rfl (hne lo hi rest)
      · rfl
    · intro c
      simp only [List.not_mem_nil, false_iff]
      unfold classMem; split
      · rename_i lo hi rest; exact absurd rfl (hne lo hi rest)
      · simp

/-! ## The three concatenation strategies -/

theorem length_product (names vals : List Str) :
    (names.flatMap fun n => vals.map fun v => n ++ v).length = names.length * vals.length := by
  induction names with
  | nil => simp
  | cons n ns ih => simp only [List.flatMap_cons, List.length_append, List.length_map, ih, List.length_cons,
      Nat.succ_mul]; omega

/-- Each strategy computes the list-level image of language concatenation. -/
theorem concatStep_mem {names vals L : List Str} (h : concatStep names vals = some L) (x : Str) :
    x ∈ L ↔ ∃ n, n ∈ names ∧ ∃ v, v ∈ vals ∧ x = n ++ v := by
  unfold concatStep at h
  split at h
  · simp only [Option.some.injEq] at h; subst h
    simp only [List.mem_map, List.mem_singleton]
    constructor
    · rintro ⟨n, hn, rfl⟩; exact ⟨n, hn, _, rfl, rfl⟩
    · rintro ⟨n, hn, v, rfl, rfl⟩; exact ⟨n, hn, rfl⟩
  · split at h
    · simp only [Option.some.injEq] at h; subst h
      simp only [List.mem_map, List.mem_singleton]
      constructor
      · rintro ⟨v, hv, rfl⟩; exact ⟨_, rfl, v, hv, rfl⟩
      · rintro ⟨n, rfl, v, hv, rfl⟩; exact ⟨v, hv, rfl⟩
    · split at h
      · simp at h
      · simp only [Option.some.injEq] at h; subst h
        simp only [List.mem_flatMap, List.mem_map]
        constructor
        · rintro ⟨n, hn, v, hv, rfl⟩; exact ⟨n, hn, v, hv, rfl⟩
        · rintro ⟨n, hn, v, hv, rfl⟩; exact ⟨n, hn, v, hv, rfl⟩

theorem concatStep_len {names vals L : List Str} (h : concatStep names vals = some L)
    (hn : names.length ≤ maxLiterals) (hv : vals.length ≤ maxLiterals) : L.length ≤ maxLiterals := by
  unfold concatStep at h
  split at h
  · simp only [Option.some.injEq] at h; subst h; simpa using hn
  · split at h
    · simp only [Option.some.injEq] at h; subst h; simpa using hv
    · split at h
      · simp at h
      · simp only [Option.some.injEq] at h; subst h
        rw [length_product]; omega

theorem concatStep_ne_nil {names vals L : List Str} (h : concatStep names vals = some L)
    (hn : names ≠ []) (hv : vals ≠ []) : L ≠ [] := by
  obtain ⟨n, ns, rfl⟩ := List.exists_cons_of_ne_nil hn
  obtain ⟨v, vs, rfl⟩ := List.exists_cons_of_ne_nil hv
  intro hL
  have := (concatStep_mem h (n ++ v)).mpr ⟨n, List.mem_cons_self, v, List.mem_cons_self, rfl⟩
  rw [hL] at this
  exact absurd this List.not_mem_nil

/-! ## The induction over the tree -/

/-- All runes of all strings are encodable (valid scalars other than U+FFFD). -/
def EncStrs (L : List Str) : Prop := ∀ l, l ∈ L → ∀ c, c ∈ l → isEncodableRune c.toNat = true

/-- `L` is exactly the language of the context-aware matcher `m`, in every context. -/
def Lang (m : Str → Str → Str → Bool) (L : List Str) : Prop :=
  ∀ pre s post, m pre s post = true ↔ s ∈ L

structure Spec (m : Str → Str → Str → Bool) (L : List Str) : Prop where
  lang : Lang m L
  len : L.length ≤ maxLiterals
  enc : EncStrs L

theorem matchB_mk (op : Op) (flags : Nat) (rune : List Nat) (sub : List Regex) (pre mid post : Str) :
    matchB (.mk op flags rune sub) pre mid post =
      match op with
      | .noMatch => false
      | .emptyMatch => mid.isEmpty
      | .literal => litMatch (hasFold flags) rune mid
      | .charClass => match mid with | [c] => classMem c.toNat rune | _ => false
      | .anyCharNotNL => match mid with | [c] => c != '\n' | _ => false
      | .anyChar => match mid with | [_] => true | _ => false
      | .beginLine => mid.isEmpty && (pre.isEmpty || pre.getLast? == some '\n')
      | .endLine => mid.isEmpty && (post.isEmpty || post.head? == some '\n')
      | .beginText => mid.isEmpty && pre.isEmpty
      | .endText => mid.isEmpty && post.isEmpty
      | .wordBoundary => mid.isEmpty && (lastIsWord pre != headIsWord post)
      | .noWordBoundary => mid.isEmpty && (lastIsWord pre == headIsWord post)
      | .capture => matchFirstB sub pre mid post
      | .star => starB (matchFirstB sub) mid.length pre mid post
      | .plus => (splits mid).any fun p =>
          matchFirstB sub pre p.1 (p.2 ++ post) && starB (matchFirstB sub) p.2.length (pre ++ p.1) p.2 post
      | .quest => mid.isEmpty || matchFirstB sub pre mid post
      | .repeat_ => false
      | .concat => matchConcatB sub pre mid post
      | .alternate => matchAltB sub pre mid post := by
  unfold matchB; rfl

theorem matchConcatB_cons (r : Regex) (rest : List Regex) (pre mid post : Str) :
    matchConcatB (r :: rest) pre mid post =
      (splits mid).any fun p => matchB r pre p.1 (p.2 ++ post) && matchConcatB rest (pre ++ p.1) p.2 post := by
  rw [matchConcatB]

theorem matchConcatB_nil (pre mid post : Str) : matchConcatB [] pre mid post = mid.isEmpty := by
  rw [matchConcatB]

theorem matchAltB_cons (r : Regex) (rest : List Regex) (pre mid post : Str) :
    matchAltB (r :: rest) pre mid post = (matchB r pre mid post || matchAltB rest pre mid post) := by
  rw [matchAltB]

theorem matchAltB_nil (pre mid post : Str) : matchAltB [] pre mid post = false := by
  rw [matchAltB]

theorem matchFirstB_cons (r : Regex) (rest : List Regex) : matchFirstB (r :: rest) = matchB r := by
  rw [matchFirstB]

/-- `matchConcatB (r :: rest)` as a statement about splits. -/
theorem matchConcatB_cons_iff {r : Regex} {rest : List Regex} {pre mid post : Str} :
    matchConcatB (r :: rest) pre mid post = true ↔
      ∃ a b, mid = a ++ b ∧ matchB r pre a (b ++ post) = true ∧ matchConcatB rest (pre ++ a) b post = true := by
  rw [matchConcatB_cons, splits_any]
  simp only [Bool.and_eq_true]

theorem literal_spec {flags : Nat} {rune : List Nat} (sub : List Regex) (hf : hasFold flags = false)
    (he : rune.all isEncodableRune = true) : Spec (matchB (.mk .literal flags rune sub)) [runesToStr rune] := by
  refine ⟨?_, by simp [maxLiterals], ?_⟩
  · intro pre s post
    rw [matchB_mk]
    simp only [hf, litMatch_false, map_toNat_eq_iff he, List.mem_singleton]
  · intro l hl c hc
    simp only [List.mem_singleton] at hl
    subst hl
    simp only [runesToStr, List.mem_map] at hc
    obtain ⟨r, hr, rfl⟩ := hc
    have := List.all_eq_true.mp he r hr
    rw [goChar_toNat this]; exact this

theorem class_spec {flags : Nat} {rune : List Nat} (sub : List Regex) {L : List Str}
    (hs : classSize rune ≤ maxLiterals) (h : classStrs rune = some L) :
    Spec (matchB (.mk .charClass flags rune sub)) L := by
  obtain ⟨h1, h2, h3, h4⟩ := classStrs_spec h
  refine ⟨?_, by omega, h4⟩
  intro pre s post
  rw [matchB_mk]
  match s with
  | [c] => simp only [h3]
  | [] =>
    simp only [Bool.false_eq_true, false_iff]
    intro hm; obtain ⟨c, hc⟩ := h2 _ hm; simp at hc
  | a :: b :: t =>
    simp only [Bool.false_eq_true, false_iff]
    intro hm; obtain ⟨c, hc⟩ := h2 _ hm; simp at hc

mutual
  theorem regex_spec : ∀ (re : Regex) (L : List Str), matchRegex re = some L → Spec (matchB re) L
    | .mk op flags rune sub, L, h => by
      cases op with
      | literal =>
        rw [matchRegex] at h
        split at h
        · simp at h
        · rename_i hf
          simp only [Bool.not_eq_true] at hf
          split at h
          · rename_i he
            simp only [Option.some.injEq] at h; subst h
            exact literal_spec sub hf he
          · simp at h
      | charClass =>
        rw [matchRegex] at h
        split at h
        · simp at h
        · split at h
          · simp at h
          · rename_i hs
            simp only [Bool.or_eq_true, decide_eq_true_eq, beq_iff_eq, not_or] at hs
            exact class_spec sub (by omega) h
      | capture =>
        rw [matchRegex] at h
        split at h
        · simp at h
        · have := first_spec sub L h
          exact ⟨fun pre s post => by rw [matchB_mk]; exact this.lang pre s post, this.len, this.enc⟩
      | concat =>
        rw [matchRegex] at h
        split at h
        · simp at h
        · have := concat_spec sub L h
          exact ⟨fun pre s post => by rw [matchB_mk]; exact this.lang pre s post, this.len, this.enc⟩
      | alternate =>
        rw [matchRegex] at h
        split at h
        · simp at h
        · cases ha : matchAlt sub with
          | none => rw [ha] at h; simp at h
          | some names =>
            rw [ha] at h
            simp only at h
            split at h
            · simp at h
            · rename_i hl
              simp only [Option.some.injEq] at h; subst h
              have := alt_spec sub names ha
              exact ⟨fun pre s post => by rw [matchB_mk]; exact this.1 pre s post, by omega, this.2⟩
      | _ => simp [matchRegex] at h
  theorem first_spec : ∀ (sub : List Regex) (L : List Str), matchFirst sub = some L → Spec (matchFirstB sub) L
    | [], L, h => by simp [matchFirst] at h
    | r :: rest, L, h => by
      rw [matchFirst] at h
      rw [matchFirstB_cons]
      exact regex_spec r L h
  theorem concat_spec : ∀ (sub : List Regex) (L : List Str), matchConcat sub = some L → Spec (matchConcatB sub) L
    | [], L, h => by simp [matchConcat] at h
    | r :: rest, L, h => by
      rw [matchConcat] at h
      cases hr : matchRegex r with
      | none => rw [hr] at h; simp at h
      | some names =>
        rw [hr] at h
        simp only at h
        have sr := regex_spec r names hr
        have sl := loop_spec rest names L h sr.len sr.enc
        refine ⟨?_, sl.2.1, sl.2.2⟩
        intro pre s post
        rw [matchConcatB_cons_iff, ← sl.1 pre s post]
        constructor
        · rintro ⟨a, b, e, h1, h2⟩; exact ⟨a, b, e, (sr.lang _ _ _).mp h1, h2⟩
        · rintro ⟨a, b, e, h1, h2⟩; exact ⟨a, b, e, (sr.lang _ _ _).mpr h1, h2⟩
  theorem loop_spec : ∀ (rest : List Regex) (names L : List Str), concatLoop names rest = some L →
      names.length ≤ maxLiterals → EncStrs names →
      (∀ pre s post, (∃ a b, s = a ++ b ∧ a ∈ names ∧ matchConcatB rest (pre ++ a) b post = true) ↔ s ∈ L) ∧
        L.length ≤ maxLiterals ∧ EncStrs L
    | [], names, L, h, hn, he => by
      rw [concatLoop] at h
      simp only [Option.some.injEq] at h; subst h
      refine ⟨?_, hn, he⟩
      intro pre s post
      simp only [matchConcatB_nil, List.isEmpty_iff]
      constructor
      · rintro ⟨a, b, rfl, ha, rfl⟩; simpa using ha
      · intro hs; exact ⟨s, [], by simp, hs, rfl⟩
    | r :: rest, names, L, h, hn, he => by
      rw [concatLoop] at h
      cases hr : matchRegex r with
      | none => rw [hr] at h; simp at h
      | some vals =>
        rw [hr] at h
        simp only at h
        cases hc : concatStep names vals with
        | none => rw [hc] at h; simp at h
        | some names' =>
          rw [hc] at h
          simp only at h
          have sr := regex_spec r vals hr
          have he' : EncStrs names' := by
            intro l hl c hcm
            obtain ⟨n, hn', v, hv, rfl⟩ := (concatStep_mem hc l).mp hl
            rcases List.mem_append.mp hcm with hcm | hcm
            · exact he n hn' c hcm
            · exact sr.enc v hv c hcm
          have sl := loop_spec rest names' L h (concatStep_len hc hn sr.len) he'
          refine ⟨?_, sl.2.1, sl.2.2⟩
          intro pre s post
          rw [← sl.1 pre s post]
          constructor
          · rintro ⟨a, b, rfl, ha, hm⟩
            obtain ⟨v, b', rfl, h1, h2⟩ := matchConcatB_cons_iff.mp hm
            refine ⟨a ++ v, b', by simp, (concatStep_mem hc _).mpr ⟨a, ha, v, (sr.lang _ _ _).mp h1, rfl⟩, ?_⟩
            rw [← List.append_assoc]; exact h2
          · rintro ⟨x, b', rfl, hx, hm⟩
            obtain ⟨a, ha, v, hv, rfl⟩ := (concatStep_mem hc x).mp hx
            refine ⟨a, v ++ b', by simp, ha, matchConcatB_cons_iff.mpr ⟨v, b', rfl, (sr.lang _ _ _).mpr hv, ?_⟩⟩
            rw [List.append_assoc]; exact hm
  theorem alt_spec : ∀ (sub : List Regex) (L : List Str), matchAlt sub = some L → Lang (matchAltB sub) L ∧ EncStrs L
    | [], L, h => by
      rw [matchAlt] at h
      simp only [Option.some.injEq] at h; subst h
      exact ⟨fun pre s post => by simp [matchAltB_nil], fun l hl => absurd hl List.not_mem_nil⟩
    | r :: rest, L, h => by
      rw [matchAlt] at h
      cases hr : matchRegex r with
      | none => rw [hr] at h; simp at h
      | some vals =>
        rw [hr] at h
        cases ha : matchAlt rest with
        | none => rw [ha] at h; simp at h
        | some more =>
          rw [ha] at h
          simp only [Option.map_some, Option.some.injEq] at h; subst h
          have sr := regex_spec r vals hr
          have sa := alt_spec rest more ha
          refine ⟨?_, ?_⟩
          · intro pre s post
            rw [matchAltB_cons, Bool.or_eq_true, sr.lang, sa.1, List.mem_append]
          · intro l hl
            rcases List.mem_append.mp hl with hl | hl
            · exact sr.enc l hl
            · exact sa.2 l hl
end

end InfluxQL.Rx

import InfluxQL.Lemmas.TotalStmt
/-
Totality of the statement parser (C04), part 2: the clause parsers — lists, conditions,
dimensions, fill, time zone, ORDER BY, fields, target, sources (with subqueries) and
`parseSelectStatement`.

Loops carry their own iteration counter `it`, started at `loopFuel = n + |rest| + 2`; every
iteration that continues has consumed a `,`, so `B + 1 ≤ it` is an invariant (`B` bounds the
measure). The expression fuel `F` is constant: `2 * B + 2 ≤ F` stays true as `B` shrinks.
-/
namespace InfluxQL
open Gen

theorem comma_ne_eof {lx : Lexeme} (h : ¬ lx.tok ≠ .COMMA) : lx.tok ≠ .EOF := by
  have : lx.tok = .COMMA := by simpa using h
  rw [this]; decide

/-! ### Lists separated by commas (separator first) -/

theorem stringListLoop_tot : ∀ (it B : Nat) (acc : List Str), B + 1 ≤ it → Tot B (stringListLoop it acc) := by
  intro it
  induction it with
  | zero => intro B acc h; omega
  | succ it ih =>
    intro B acc h
    unfold stringListLoop
    refine Tot.scanIW_bind (fun lx => TotA.ite (fun _ => by tot) (fun hc => ?_))
    exact TotA.of_tot_lt (comma_ne_eof hc) (fun hB => Tot.bind parseString_tot (fun _ => ih (B - 1) _ (by omega)))
macro_rules | `(tactic| tot_lemma) => `(tactic| exact stringListLoop_tot _ _ _ (by omega))

theorem parseStringList_tot {B : Nat} : Tot B parseStringList := by
  unfold parseStringList; tot
macro_rules | `(tactic| tot_lemma) => `(tactic| exact parseStringList_tot)

theorem identListLoop_tot : ∀ (it B : Nat) (acc : List Str), B + 1 ≤ it → Tot B (identListLoop it acc) := by
  intro it
  induction it with
  | zero => intro B acc h; omega
  | succ it ih =>
    intro B acc h
    unfold identListLoop
    refine Tot.scanIW_bind (fun lx => TotA.ite (fun _ => by tot) (fun hc => ?_))
    exact TotA.of_tot_lt (comma_ne_eof hc) (fun hB => Tot.bind parseIdent_tot (fun _ => ih (B - 1) _ (by omega)))
macro_rules | `(tactic| tot_lemma) => `(tactic| exact identListLoop_tot _ _ _ (by omega))

theorem parseIdentList_tot {B : Nat} : Tot B parseIdentList := by
  unfold parseIdentList; tot
macro_rules | `(tactic| tot_lemma) => `(tactic| exact parseIdentList_tot)

theorem parseSortField_tot {B : Nat} : Tot B parseSortField := by
  unfold parseSortField; tot
macro_rules | `(tactic| tot_lemma) => `(tactic| exact parseSortField_tot)

theorem sortFieldsLoop_tot : ∀ (it B : Nat) (acc : List SortField), B + 1 ≤ it →
    Tot B (sortFieldsLoop it acc) := by
  intro it
  induction it with
  | zero => intro B acc h; omega
  | succ it ih =>
    intro B acc h
    unfold sortFieldsLoop
    refine Tot.scanIW_bind (fun lx => TotA.ite (fun _ => by tot) (fun hc => ?_))
    exact TotA.of_tot_lt (comma_ne_eof hc) (fun hB => Tot.bind parseSortField_tot (fun _ => ih (B - 1) _ (by omega)))
macro_rules | `(tactic| tot_lemma) => `(tactic| exact sortFieldsLoop_tot _ _ _ (by omega))

theorem parseSortFields_tot {B : Nat} : Tot B parseSortFields := by
  unfold parseSortFields; tot
macro_rules | `(tactic| tot_lemma) => `(tactic| exact parseSortFields_tot)

theorem parseOrderBy_tot {B : Nat} : Tot B parseOrderBy := by
  unfold parseOrderBy; tot
macro_rules | `(tactic| tot_lemma) => `(tactic| exact parseOrderBy_tot)

theorem parseAlias_tot {B : Nat} : Tot B parseAlias := by
  unfold parseAlias; tot
macro_rules | `(tactic| tot_lemma) => `(tactic| exact parseAlias_tot)

/-! ### Clauses that contain expressions -/

theorem parseCondition_tot {B F : Nat} (hF : 2 * B + 2 ≤ F) : Tot B (parseCondition F) := by
  unfold parseCondition; tot
macro_rules | `(tactic| tot_lemma) => `(tactic| exact parseCondition_tot (by omega))

theorem parseDimension_tot {B F : Nat} (hF : 2 * B + 2 ≤ F) : Tot B (parseDimension F) := by
  unfold parseDimension; tot
macro_rules | `(tactic| tot_lemma) => `(tactic| exact parseDimension_tot (by omega))

theorem dimLoop_tot {F : Nat} : ∀ (it B : Nat) (acc : List Expr), 2 * B + 2 ≤ F → B + 1 ≤ it →
    Tot B (dimLoop F it acc) := by
  intro it
  induction it with
  | zero => intro B acc _ h; omega
  | succ it ih =>
    intro B acc hF h
    unfold dimLoop
    refine Tot.bind (parseDimension_tot hF) (fun d => Tot.pscan_bind (fun lx =>
      TotA.ite (fun _ => by tot) (fun hc => ?_)))
    exact TotA.of_tot_lt (comma_ne_eof hc) (fun hB => ih (B - 1) _ (by omega) (by omega))
macro_rules | `(tactic| tot_lemma) => `(tactic| exact dimLoop_tot _ _ _ (by omega) (by omega))

theorem parseDimensions_tot {B F : Nat} (hF : 2 * B + 2 ≤ F) : Tot B (parseDimensions F) := by
  unfold parseDimensions; tot
macro_rules | `(tactic| tot_lemma) => `(tactic| exact parseDimensions_tot (by omega))

theorem parseFill_tot {B F : Nat} (hF : 2 * B + 2 ≤ F) : Tot B (parseFill F) := by
  unfold parseFill; tot
macro_rules | `(tactic| tot_lemma) => `(tactic| exact parseFill_tot (by omega))

theorem parseLocation_tot {B F : Nat} (hF : 2 * B + 2 ≤ F) : Tot B (parseLocation F) := by
  unfold parseLocation; tot
macro_rules | `(tactic| tot_lemma) => `(tactic| exact parseLocation_tot (by omega))

theorem parseField_tot {B F : Nat} (hF : 2 * B + 2 ≤ F) : Tot B (parseField F) := by
  unfold parseField; tot
macro_rules | `(tactic| tot_lemma) => `(tactic| exact parseField_tot (by omega))

theorem fieldsLoop_tot {F : Nat} : ∀ (it B : Nat) (acc : List Field), 2 * B + 2 ≤ F → B + 1 ≤ it →
    Tot B (fieldsLoop F it acc) := by
  intro it
  induction it with
  | zero => intro B acc _ h; omega
  | succ it ih =>
    intro B acc hF h
    unfold fieldsLoop
    refine Tot.bind (parseField_tot hF) (fun d => Tot.pscan_bind (fun lx =>
      TotA.ite (fun _ => by tot) (fun hc => ?_)))
    exact TotA.of_tot_lt (comma_ne_eof hc) (fun hB => ih (B - 1) _ (by omega) (by omega))
macro_rules | `(tactic| tot_lemma) => `(tactic| exact fieldsLoop_tot _ _ _ (by omega) (by omega))

theorem parseFields_tot {B F : Nat} (hF : 2 * B + 2 ≤ F) : Tot B (parseFields F) := by
  unfold parseFields; tot
macro_rules | `(tactic| tot_lemma) => `(tactic| exact parseFields_tot (by omega))

theorem parseTarget_tot {B : Nat} (required : Bool) : Tot B (parseTarget required) := by
  unfold parseTarget; tot
macro_rules | `(tactic| tot_lemma) => `(tactic| exact parseTarget_tot _)

/-! ### Sources and subqueries -/

/-- What is known about the subquery parser handed to `parseSource`: it is called after `(` and
`SELECT` have been consumed, i.e. with a strictly smaller measure. -/
def SubOK (B : Nat) (sub : Option (P SelectStmt)) : Prop := ∀ p, sub = some p → 1 ≤ B → Tot (B - 1) p

theorem SubOK.none {B : Nat} : SubOK B none := fun _ h => by cases h

theorem SubOK.mono {B B' : Nat} {sub : Option (P SelectStmt)} (h : SubOK B sub) (hb : B' ≤ B) :
    SubOK B' sub := fun p hp h1 => (h p hp (by omega)).mono (by omega)

theorem lparen_ne_eof {lx : Lexeme} (h : lx.tok = .LPAREN) : lx.tok ≠ .EOF := by
  rw [h]; decide

theorem parseSourceWith_tot {B : Nat} (sub : Option (P SelectStmt)) (hsub : SubOK B sub) :
    Tot B (parseSourceWith sub) := by
  unfold parseSourceWith
  refine Tot.bind parseRegex_tot (fun r => ?_)
  split
  · exact Tot.pure _
  · cases sub with
    | none =>
      dsimp only
      tot
    | some p =>
      dsimp only
      refine Tot.scanIW_bind (fun lx => TotA.ite (fun hl => ?_) (fun _ => by tot))
      refine TotA.of_tot_lt (lparen_ne_eof hl) (fun hB => ?_)
      have hp : Tot (B - 1) p := hsub p rfl hB
      tot
macro_rules | `(tactic| tot_lemma) => `(tactic| exact parseSourceWith_tot _ (by assumption))
macro_rules | `(tactic| tot_lemma) => `(tactic| exact parseSourceWith_tot none SubOK.none)

theorem sourcesLoop_tot (sub : Option (P SelectStmt)) : ∀ (it B : Nat) (acc : List Source),
    SubOK B sub → B + 1 ≤ it → Tot B (sourcesLoop sub it acc) := by
  intro it
  induction it with
  | zero => intro B acc _ h; omega
  | succ it ih =>
    intro B acc hsub h
    unfold sourcesLoop
    refine Tot.bind (parseSourceWith_tot sub hsub) (fun d => Tot.scanIW_bind (fun lx =>
      TotA.ite (fun _ => by tot) (fun hc => ?_)))
    exact TotA.of_tot_lt (comma_ne_eof hc) (fun hB => ih (B - 1) _ (hsub.mono (by omega)) (by omega))

theorem parseSourcesWith_tot {B : Nat} (sub : Option (P SelectStmt)) (hsub : SubOK B sub) :
    Tot B (parseSourcesWith sub) := by
  unfold parseSourcesWith
  refine Tot.loopFuel_bind (fun it B' hB hit => sourcesLoop_tot sub it B' _ (hsub.mono hB) (by omega))
macro_rules | `(tactic| tot_lemma) => `(tactic| exact parseSourcesWith_tot _ (by assumption))

theorem parseSources_tot {B : Nat} : Tot B parseSources := parseSourcesWith_tot none SubOK.none
macro_rules | `(tactic| tot_lemma) => `(tactic| exact parseSources_tot)

theorem parseSelectBody_tot {B F : Nat} (hF : 2 * B + 2 ≤ F) (sub : Option (P SelectStmt))
    (hsub : SubOK B sub) (tr : Bool) : Tot B (parseSelectBody F sub tr) := by
  unfold parseSelectBody; tot

/-- **`parseSelectStatement` (with subqueries to any depth) is total**: by induction on the fuel;
a subquery starts after `(` has been consumed, so the bound `2 * B + 3 ≤ F` survives the descent. -/
theorem parseSelect_tot : ∀ (F B : Nat) (tr : Bool), 2 * B + 3 ≤ F → Tot B (parseSelect F tr) := by
  intro F
  induction F with
  | zero => intro B tr h; omega
  | succ F ih =>
    intro B tr hF
    unfold parseSelect
    refine parseSelectBody_tot (by omega) _ ?_ tr
    intro p hp hB
    cases hp
    exact ih (B - 1) false (by omega)
macro_rules | `(tactic| tot_lemma) => `(tactic| exact parseSelect_tot _ _ _ (by omega))

/-! ### Small shared pieces of the SHOW family -/

theorem parseOnDb_tot {B : Nat} : Tot B parseOnDb := by
  unfold parseOnDb; tot
macro_rules | `(tactic| tot_lemma) => `(tactic| exact parseOnDb_tot)

theorem parseOptFrom_tot {B : Nat} : Tot B parseOptFrom := by
  unfold parseOptFrom; tot
macro_rules | `(tactic| tot_lemma) => `(tactic| exact parseOptFrom_tot)

theorem parseTagKeyExpr_tot {B : Nat} : Tot B parseTagKeyExpr := by
  unfold parseTagKeyExpr; tot
macro_rules | `(tactic| tot_lemma) => `(tactic| exact parseTagKeyExpr_tot)

end InfluxQL

import InfluxQL.Lemmas.StmtPieces
import InfluxQL.Lemmas.Bind
/-
Inline equivalence at the token level (C07): a placeholder `$name` bound to a value `v`, and the
literal spelling of `v` written in its place, give `Parser.scan` the same stream of significant
tokens.

`Parser.scan` delivers `substTok params` of every raw token; on kind and literal this is
`substSig params`. The statement is therefore: the significant tokens (`sigTokens`,
Lemmas/Neutral.lean) of the inlined text and of the template have the same image under
`substSig params`. The proof is scanner locality (`scan_loc`): up to the white space before the
placeholder both runs see the same runes; at the placeholder one run returns BOUNDPARAM `$name`
(substituted to `(v.tok, v.text)`), the other the literal's single token `(v.tok, v.text)`; behind
it both stand before the same runes.
-/
namespace InfluxQL
open Gen

/-- The substitution step of `Parser.scan` on kind and literal. -/
def substSig (params : List (Str × BoundValue)) (t : Token × Str) : Token × Str :=
  (substTok params ⟨t.1, ⟨0, 0⟩, t.2⟩).sig

theorem substTok_sig (params : List (Str × BoundValue)) (lx : Lexeme) :
    (substTok params lx).sig = substSig params lx.sig := by
  unfold substSig substTok Lexeme.sig
  by_cases h1 : lx.tok = .BOUNDPARAM
  · rw [if_pos h1, if_pos h1]
    by_cases h2 : trimDollar lx.lit ≠ []
    · rw [if_pos h2, if_pos h2]
      cases lookupParam (trimDollar lx.lit) params <;> rfl
    · rw [if_neg h2, if_neg h2]
  · rw [if_neg h1, if_neg h1]

/-- A token of a bound placeholder is substituted. -/
theorem substSig_bound (params : List (Str × BoundValue)) (name : Str) (v : BoundValue) (hne : name ≠ [])
    (h : lookupParam name params = some v) : substSig params (.BOUNDPARAM, '$' :: name) = (v.tok, v.text) := by
  unfold substSig
  rw [substTok_bound params _ v rfl (by simpa [trimDollar] using hne) (by simpa [trimDollar] using h)]
  rfl

/-- Any other kind of token is left alone. -/
theorem substSig_other (params : List (Str × BoundValue)) (t : Token) (l : Str) (h : t ≠ .BOUNDPARAM) :
    substSig params (t, l) = (t, l) := by
  unfold substSig
  rw [substTok_unbound params _ (Or.inl h)]
  rfl

/-! ## the placeholder -/

/-- `$name` before a word end (the end of the input included) is one BOUNDPARAM token. -/
theorem scan_dollar_word (r : Cursor) (c : Char) (tl k : Str) (h : r.chars = '$' :: ((c :: tl) ++ k))
    (hall : ∀ y ∈ c :: tl, isIdentChar y = true) (hk : WordEnd k) :
    (scan r).1.tok = .BOUNDPARAM ∧ (scan r).1.lit = '$' :: c :: tl ∧ (scan r).2.Before k := by
  obtain ⟨h1, h2, _⟩ := Cursor.chars_cons h
  have hic : isIdentChar c = true := hall c (by simp)
  have hce : c ≠ eofRune := isIdentChar_ne_eof hic
  have hcq : c ≠ '"' := by intro e; subst e; revert hic; decide
  have hall' : ∀ y ∈ c :: tl, isIdentChar y = true ∧ y ≠ eofRune :=
    fun y hy => ⟨hall y hy, isIdentChar_ne_eof (hall y hy)⟩
  obtain ⟨_, _, hpk⟩ := Cursor.chars_cons (x := tl ++ k) (by simpa using h2)
  have hkstop : ∀ x t, k = x :: t → (isIdentChar x && x != eofRune) = false := by
    intro x t hxt
    rcases hk with ⟨x', t', hk', hx', _, _⟩ | hk'
    · rw [hk'] at hxt; simp only [List.cons.injEq] at hxt; rw [← hxt.1, hx']; rfl
    · rw [hk'] at hxt; simp only [List.cons.injEq] at hxt; rw [← hxt.1]; decide
  obtain ⟨hrw1, hrw2⟩ := readWhile_chars isIdentChar r.read.2 (c :: tl) k h2 hall' hkstop
  have hsb1 : (scanBareIdent r.read.2).1 = c :: tl := by unfold scanBareIdent; exact hrw1
  have hsb2 : (scanBareIdent r.read.2).2.chars = dropEof k := by
    unfold scanBareIdent; dsimp only; rw [Cursor.chars_eatEof, hrw2]
  have hloop : ∃ r', scanIdentLoop (r.read.2.read.1).2 (r.read.2.rest.length + 2) r.read.2 [] =
      ((none, c :: tl), r') ∧ r'.Before k := by
    rw [show r.read.2.rest.length + 2 = (r.read.2.rest.length + 1) + 1 from rfl, scanIdentLoop]
    simp only [hpk, hce, hcq, hic, if_false, if_true]
    rw [scanIdentLoop]
    rcases hk with ⟨x, t, hk', hx, hxq, hxe⟩ | hk'
    · have hd : dropEof k = x :: t := by rw [hk']; simp [dropEof, hxe]
      rw [hd] at hsb2
      obtain ⟨_, _, hpk'⟩ := Cursor.chars_cons hsb2
      simp only [hpk', hxe, hxq, hx, if_false, hsb1, List.nil_append]
      exact ⟨_, rfl, Or.inl (by rw [hsb2, hk'])⟩
    · have hd : dropEof k = [] := by rw [hk']; simp [dropEof]
      rw [hd] at hsb2
      obtain ⟨hpk', hrd⟩ := Cursor.chars_nil hsb2
      simp only [hpk', if_true, hsb1, List.nil_append]
      exact ⟨_, rfl, Or.inr ⟨hk', hrd⟩⟩
  obtain ⟨r', hl, hb⟩ := hloop
  have hsi : scanIdent false r.read.2 = (⟨.IDENT, (r.read.2.read.1).2, c :: tl⟩, r') := by
    unfold scanIdent
    dsimp only
    rw [hl]
    simp
  unfold scan
  rw [h1, scanFrom_dollar, hsi]
  simp only [ne_eq, not_true_eq_false, if_false]
  exact ⟨trivial, trivial, hb⟩

/-! ## the significant tokens from a position -/

theorem scan_eof_sig (r : Cursor) (h : r.chars = [] ∨ r.chars = [eofRune]) : (scan r).1.sig = (.EOF, []) := by
  have h1 : r.read.1.1 = eofRune := by
    rcases h with h | h
    · rw [r.read_fst_eq_peek]; exact (Cursor.chars_nil h).1
    · exact (Cursor.chars_cons h).1
  unfold scan scanFrom
  rw [h1]
  have : isWhitespace eofRune = false := by decide
  have : (isLetter eofRune || eofRune == '_') = false := by decide
  have : isDigit eofRune = false := by decide
  simp [*, Lexeme.sig]

/-- Standing before `k` determines the significant tokens. -/
theorem sigTokens_of_before {r g : Cursor} {k : Str} (hr : r.Before k) (hg : g.chars = k) :
    sigTokens r = sigTokens g := by
  rcases hr with hr | ⟨rfl, hr⟩
  · exact sigTokens_erase r g (by rw [hr, hg])
  · have e1 := scan_eof_sig r (Or.inl hr)
    have e2 := scan_eof_sig g (Or.inr hg)
    have t1 : (scan r).1.tok = .EOF := congrArg Prod.fst e1
    have t2 : (scan g).1.tok = .EOF := congrArg Prod.fst e2
    rw [sigTokens_step r, sigTokens_step g, if_pos t1, if_pos t2, e1, e2]

/-- `sigTokens_prefix` under a map of the tokens. -/
theorem sigTokens_prefix_map (f : Token × Str → Token × Str) {t1 t2 : Str} (ht : TailOK t1 t2) (n : Nat)
    (r1 r2 : Cursor) (h : Loc t1 t2 r1 r2) (hb : (scanN n r1).rest.length = t1.length)
    (hcont : ∀ g1 g2 : Cursor, g1.chars = t1 → g2.chars = t2 → (sigTokens g1).map f = (sigTokens g2).map f) :
    (sigTokens r1).map f = (sigTokens r2).map f := by
  induction n generalizing r1 r2 with
  | zero =>
    obtain ⟨a, h1, h2⟩ := h
    have hl : r1.rest.length = t1.length := hb
    have ha : a = [] := by
      have := congrArg List.length h1
      simp only [List.length_map, List.length_append] at this
      exact List.length_eq_zero_iff.mp (by omega)
    subst ha
    exact hcont r1 r2 (by simpa [Cursor.chars] using h1) (by simpa [Cursor.chars] using h2)
  | succ n ih =>
    have hlen : t1.length ≤ (scan r1).2.rest.length := by
      rw [← hb]; exact scanN_length_le n _
    obtain ⟨hsig, hl⟩ := scan_loc h ht hlen
    have htok : (scan r1).1.tok = (scan r2).1.tok := congrArg Prod.fst hsig
    have hrec := ih _ _ hl hb
    rw [sigTokens_step r1, sigTokens_step r2, ← htok, ← hsig]
    by_cases he : (scan r1).1.tok = .EOF
    · simp only [he, if_true]
    · simp only [he, if_false]
      by_cases hw : (scan r1).1.tok = .WS ∨ (scan r1).1.tok = .COMMENT
      · simp only [hw, if_true]; exact hrec
      · simp only [hw, if_false, List.map_cons, hrec]

/-! ## the core: from the white space before the placeholder on -/

/-- What the placeholder and the literal need: `$name` is one BOUNDPARAM token before `k`, the literal
`lit` is one token `(v.tok, v.text)` before `k`, of a kind that is neither a placeholder nor the end of
the input, and the name is bound to `v`. -/
structure Inlinable (params : List (Str × BoundValue)) (name lit k : Str) (v : BoundValue) : Prop where
  name_ok : ∃ c tl, name = c :: tl ∧ ∀ y ∈ c :: tl, isIdentChar y = true
  word_end : WordEnd k
  bound : lookupParam name params = some v
  lit_ok : ScansAs lit k v.tok v.text
  not_eof : v.tok ≠ .EOF

/-- From the placeholder / the literal on. -/
theorem inline_at (params : List (Str × BoundValue)) (name lit k : Str) (v : BoundValue)
    (hv : Inlinable params name lit k v) (g1 g2 : Cursor)
    (h1 : g1.chars = '$' :: (name ++ k)) (h2 : g2.chars = lit ++ k) :
    (sigTokens g1).map (substSig params) = (sigTokens g2).map (substSig params) := by
  obtain ⟨⟨c, tl, rfl, hall⟩, hk, hb, ⟨_, ⟨hT1, hT2, hT3⟩, hscan⟩, hne⟩ := hv
  obtain ⟨a1, a2, a3⟩ := scan_dollar_word g1 c tl k h1 hall hk
  obtain ⟨b1, b2, b3⟩ := hscan g2 h2
  have hs1 : (scan g1).1.sig = (.BOUNDPARAM, '$' :: c :: tl) := by simp [Lexeme.sig, a1, a2]
  have hs2 : (scan g2).1.sig = (v.tok, v.text) := by simp [Lexeme.sig, b1, b2]
  rw [sigTokens_step g1, sigTokens_step g2]
  simp only [a1, b1, reduceCtorEq, hne, hT2, hT3, if_false, or_self, List.map_cons, hs1, hs2]
  rw [substSig_bound params (c :: tl) v (by simp) hb, substSig_other params v.tok v.text hT1]
  obtain ⟨g, hg⟩ : ∃ g : Cursor, g.chars = k :=
    ⟨{ prev := (eofRune, ⟨0, 0⟩), rest := k.map (fun c => (c, (⟨0, 0⟩ : Pos))), fin := ⟨0, 0⟩, off := 0 }, by
      simp [Cursor.chars, Function.comp_def]⟩
  rw [sigTokens_of_before a3 hg, sigTokens_of_before b3 hg]

/-- From the white space before the placeholder / the literal on. -/
theorem inline_from_ws (params : List (Str × BoundValue)) (name lit k : Str) (v : BoundValue)
    (hv : Inlinable params name lit k v) (ws : Str) (hws : ∀ c ∈ ws, isWhitespace c = true) (g1 g2 : Cursor)
    (h1 : g1.chars = ws ++ ('$' :: (name ++ k))) (h2 : g2.chars = ws ++ (lit ++ k)) :
    (sigTokens g1).map (substSig params) = (sigTokens g2).map (substSig params) := by
  by_cases hne : ws = []
  · subst hne
    exact inline_at params name lit k v hv g1 g2 (by simpa using h1) (by simpa using h2)
  · obtain ⟨c, t, hl, hcw, hce⟩ := hv.lit_ok.1
    have n1 : NotWsHead ('$' :: (name ++ k)) := by
      intro x y hxy; simp only [List.cons.injEq] at hxy; rw [← hxy.1]; decide
    have n2 : NotWsHead (lit ++ k) := by
      intro x y hxy; rw [hl] at hxy; simp only [List.cons_append, List.cons.injEq] at hxy; rw [← hxy.1]; exact hcw
    obtain ⟨w1, w2⟩ := scan_wsRun g1 ws _ h1 ⟨hne, hws⟩ n1
    obtain ⟨x1, x2⟩ := scan_wsRun g2 ws _ h2 ⟨hne, hws⟩ n2
    have d1 : dropEof ('$' :: (name ++ k)) = '$' :: (name ++ k) := by
      simp [dropEof, show ('$' : Char) ≠ eofRune from by decide]
    have d2 : dropEof (lit ++ k) = lit ++ k := by rw [hl]; simp [dropEof, hce]
    rw [d1] at w2
    rw [d2] at x2
    rw [sigTokens_step g1, sigTokens_step g2]
    simp only [w1, x1, reduceCtorEq, if_false, true_or, if_true]
    exact inline_at params name lit k v hv _ _ w2 x2

/-- **Inline equivalence, token level.** `a` is the text before the placeholder, `ws` the white space
right before it, `k` what follows (to the end of the delivered stream). If the scanner, run on the
template, reaches the start of `ws` at a token boundary (after `n` tokens) — or the placeholder is the
first thing in the text (`a = []`) — then the template and the text with the literal written out have the
same significant tokens after the substitution step of `Parser.scan`. -/
theorem inline_tokens (params : List (Str × BoundValue)) (name lit k : Str) (v : BoundValue)
    (hv : Inlinable params name lit k v) (a ws : Str) (hws : ∀ c ∈ ws, isWhitespace c = true) (n : Nat)
    (r1 r2 : Cursor) (h1 : r1.chars = a ++ (ws ++ ('$' :: (name ++ k)))) (h2 : r2.chars = a ++ (ws ++ (lit ++ k)))
    (hb : a = [] ∨ (ws ≠ [] ∧ (scanN n r1).rest.length = (ws ++ ('$' :: (name ++ k))).length)) :
    (sigTokens r1).map (substSig params) = (sigTokens r2).map (substSig params) := by
  rcases hb with rfl | ⟨hne, hb⟩
  · exact inline_from_ws params name lit k v hv ws hws r1 r2 (by simpa using h1) (by simpa using h2)
  · have ht : TailOK (ws ++ ('$' :: (name ++ k))) (ws ++ (lit ++ k)) := by
      cases ws with
      | nil => exact absurd rfl hne
      | cons w ws' => exact Or.inr ⟨w, _, w, _, rfl, rfl, hws w (by simp), hws w (by simp)⟩
    exact sigTokens_prefix_map _ ht n r1 r2 ⟨a, h1, h2⟩ hb
      (fun g1 g2 e1 e2 => inline_from_ws params name lit k v hv ws hws g1 g2 e1 e2)

/-! ## the four kinds of literal -/

/-- `true` / `false` (as `BindValue` spells a boolean) is the keyword token with an empty literal. -/
theorem scansAs_bool (b : Bool) (k : Str) (hk : WordEnd k) :
    ScansAs (if b then "true".toList else "false".toList) k (if b then .TRUE else .FALSE) [] := by
  cases b with
  | true =>
    refine ⟨⟨'t', "rue".toList, rfl, by decide, by decide⟩, by decide, ?_⟩
    intro r hr
    obtain ⟨e1, e2⟩ := scan_word r 't' "rue".toList k hr (by decide) (by decide) hk
    have hl : lookup ('t' :: "rue".toList) = .TRUE := by decide
    rw [hl] at e1
    simp only [ne_eq, reduceCtorEq, not_false_eq_true, if_true] at e1
    rw [e1]
    exact ⟨rfl, rfl, e2⟩
  | false =>
    refine ⟨⟨'f', "alse".toList, rfl, by decide, by decide⟩, by decide, ?_⟩
    intro r hr
    obtain ⟨e1, e2⟩ := scan_word r 'f' "alse".toList k hr (by decide) (by decide) hk
    have hl : lookup ('f' :: "alse".toList) = .FALSE := by decide
    rw [hl] at e1
    simp only [ne_eq, reduceCtorEq, not_false_eq_true, if_true] at e1
    rw [e1]
    exact ⟨rfl, rfl, e2⟩

theorem intDigits_nonneg (i : Int) (h : 0 ≤ i) : intDigits i = natDigits i.natAbs := by
  unfold intDigits
  rw [if_neg (by omega)]

/-- The name of a placeholder: a non-empty run of identifier runes. -/
def ParamName (name : Str) : Prop := ∃ c tl, name = c :: tl ∧ ∀ y ∈ c :: tl, isIdentChar y = true

theorem inlinable_string (params : List (Str × BoundValue)) (name k s : Str) (hn : ParamName name) (hk : WordEnd k)
    (hex : Expressible s) (hb : lookupParam name params = some (ParamValue.string s).bound) :
    Inlinable params name (quoteString s) k (ParamValue.string s).bound :=
  ⟨hn, hk, hb, scansAs_string s k hex, by show Token.STRING ≠ .EOF; decide⟩

theorem inlinable_integer (params : List (Str × BoundValue)) (name k : Str) (i : Int) (hn : ParamName name)
    (hk : WordEnd k) (hnum : NumEnd k) (hi : 0 ≤ i) (hb : lookupParam name params = some (ParamValue.integer i).bound) :
    Inlinable params name (intDigits i) k (ParamValue.integer i).bound := by
  refine ⟨hn, hk, hb, ?_, by show Token.INTEGER ≠ .EOF; decide⟩
  show ScansAs (intDigits i) k .INTEGER (intDigits i)
  rw [intDigits_nonneg i hi]
  exact scansAs_nat _ k hnum

theorem inlinable_boolean (params : List (Str × BoundValue)) (name k : Str) (b : Bool) (hn : ParamName name)
    (hk : WordEnd k) (hb : lookupParam name params = some (ParamValue.boolean b).bound) :
    Inlinable params name (if b then "true".toList else "false".toList) k (ParamValue.boolean b).bound := by
  refine ⟨hn, hk, hb, scansAs_bool b k hk, ?_⟩
  cases b <;> decide

theorem inlinable_duration (params : List (Str × BoundValue)) (name k : Str) (d : Int) (hn : ParamName name)
    (hk : WordEnd k) (hdur : DurEnd k) (hd : 0 ≤ d)
    (hb : lookupParam name params = some (ParamValue.duration (formatDuration d)).bound) :
    Inlinable params name (formatDuration d) k (ParamValue.duration (formatDuration d)).bound :=
  ⟨hn, hk, hb, scansAs_dur d hd k hdur, by show Token.DURATIONVAL ≠ .EOF; decide⟩

/-! ## bridge: `ScanIgnoreWhitespace` delivers the substituted stream -/

/-- No bound value is of kind WS, COMMENT or EOF (`BindValue` yields IDENT, STRING, REGEX, NUMBER,
INTEGER, TRUE, FALSE, DURATIONVAL or BOUNDPARAM). -/
def KindsOK (params : List (Str × BoundValue)) : Prop :=
  ∀ k v, lookupParam k params = some v → v.tok ≠ .WS ∧ v.tok ≠ .COMMENT ∧ v.tok ≠ .EOF

theorem substTok_kind (params : List (Str × BoundValue)) (hk : KindsOK params) (lx : Lexeme) :
    ((substTok params lx).tok = .EOF ↔ lx.tok = .EOF) ∧ ((substTok params lx).tok = .WS ↔ lx.tok = .WS) ∧
    ((substTok params lx).tok = .COMMENT ↔ lx.tok = .COMMENT) := by
  unfold substTok
  by_cases h1 : lx.tok = .BOUNDPARAM
  · rw [if_pos h1]
    by_cases h2 : trimDollar lx.lit ≠ []
    · rw [if_pos h2]
      cases hl : lookupParam (trimDollar lx.lit) params with
      | none => exact ⟨Iff.rfl, Iff.rfl, Iff.rfl⟩
      | some v =>
        obtain ⟨a, b, c⟩ := hk _ v hl
        simp only [h1, reduceCtorEq, iff_false]
        exact ⟨c, a, b⟩
    · rw [if_neg h2]; exact ⟨Iff.rfl, Iff.rfl, Iff.rfl⟩
  · rw [if_neg h1]; exact ⟨Iff.rfl, Iff.rfl, Iff.rfl⟩

/-- With nothing pushed back, `ScanIgnoreWhitespace` returns the head of the substituted
significant-token stream and leaves the cursor where the rest of that stream starts. -/
theorem scanIWLoop_substituted (fuel : Nat) (s : PState) (hn : s.n = 0) (hp : KindsOK s.params)
    (hf : s.r.rest.length < fuel) :
    ∃ lx s', (scanIWLoop fuel).run s = .ok (lx, s') ∧ s'.n = 0 ∧ s'.params = s.params ∧
      (sigTokens s.r).map (substSig s.params) =
        if lx.tok = .EOF then [lx.sig] else lx.sig :: (sigTokens s'.r).map (substSig s.params) := by
  induction fuel generalizing s with
  | zero => omega
  | succ fuel ih =>
    have hraw : rawNext false s = ((scan s.r).1, { s with r := (scan s.r).2, buf := ((scan s.r).1 :: s.buf).take 3 }) := by
      unfold rawNext
      have : ¬ s.n > 0 := by omega
      simp only [this, if_false, Bool.false_eq_true]
    have hr1 : (rawNext false s).1 = (scan s.r).1 := by rw [hraw]
    obtain ⟨ke, kw, kc⟩ := substTok_kind s.params hp (scan s.r).1
    by_cases hw : (scan s.r).1.tok = .WS ∨ (scan s.r).1.tok = .COMMENT
    · rw [scanIWLoop_run_skip fuel s (by rw [hr1, kw, kc]; exact hw), hraw]
      have hne : (scan s.r).1.tok ≠ .EOF := by
        rcases hw with h | h <;> rw [h] <;> decide
      have hne' : s.r.rest ≠ [] := fun hnil => hne (scan_at_end s.r hnil)
      have hprog := scan_progress s.r hne'
      obtain ⟨lx, s', hrun, hn', hp', hsig⟩ := ih
        { s with r := (scan s.r).2, buf := ((scan s.r).1 :: s.buf).take 3 } hn hp (by simp only; omega)
      refine ⟨lx, s', hrun, hn', hp', ?_⟩
      rw [sigTokens_step s.r]
      simp only [hne, if_false, hw, if_true]
      exact hsig
    · have h1 : (scan s.r).1.tok ≠ .WS := fun e => hw (Or.inl e)
      have h2 : (scan s.r).1.tok ≠ .COMMENT := fun e => hw (Or.inr e)
      rw [scanIWLoop_run_sig fuel s (by rw [hr1]; exact fun e => h1 (kw.mp e))
        (by rw [hr1]; exact fun e => h2 (kc.mp e)), pscan_run, hraw]
      refine ⟨_, _, rfl, hn, rfl, ?_⟩
      rw [sigTokens_step s.r]
      simp only [hw, if_false, ke, substTok_sig]
      by_cases he : (scan s.r).1.tok = .EOF
      · simp only [he, if_true, List.map_cons, List.map_nil]
      · simp only [he, if_false, List.map_cons]

end InfluxQL

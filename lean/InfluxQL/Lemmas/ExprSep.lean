import InfluxQL.Lemmas.ExprRoundTrip
/-
Print → parse for expressions *inside statements* (C02 on top of C03).

`Lemmas/ExprRoundTrip.lean` proves that `ParseExpr` reads back a printed expression that is
followed by `)`, `,` or the end of the input. Inside a statement an expression (a condition, a
field, a dimension) is followed by a blank and a keyword (`… WHERE a = 1 LIMIT 3`). This file
re-proves the top-level steps (`exprLoop`, `parseExpr`) for a wider class of continuations
(`ExprEnd`): anything whose first significant token — reached after at most one blank — is no
binary operator. The operand-level specification (`SpecU`) is used as it is.

`Stand s k`: the parser state `s` stands before `k` in the sense of `Look` — possibly with the
token scanned there pushed back, possibly after the one leading blank of `k`. This is how
`ParseExpr` (and every clause parser that looks one token ahead) leaves the parser.
-/
namespace InfluxQL.RT
open InfluxQL Gen Prec

/-- `k` does not start with a blank. -/
def NoBlank (k : List Char) : Prop := ∀ t, k ≠ ' ' :: t

/-- `k` starts — after at most one blank — with the significant token `T`. -/
def Starts (k : List Char) (T : Token) : Prop :=
  Sig T ∧ ((NoBlank k ∧ ∀ r : Cursor, Rem r k → (scan r).1.tok = T) ∨
    ∃ txt, k = ' ' :: txt ∧ HeadOK txt ∧ ∀ r : Cursor, r.chars = txt → (scan r).1.tok = T)

/-- What may follow an expression inside a statement: the end of the input, `)`, `,`, or one blank
and a further token — and the first significant token is no binary operator. -/
def ExprEnd (k : List Char) : Prop := SepU k ∧ ∃ T, Starts k T ∧ T.isOperator = false

/-- The parser stands before `k`: at a cursor before `k` (nothing or the token scanned there pushed
back), or — when `k` starts with one blank — possibly already after that blank. -/
def Stand (s : PState) (k : List Char) : Prop :=
  At s k ∨ ∃ txt, k = ' ' :: txt ∧ HeadOK txt ∧ AtW s txt

theorem HeadOK.not_blank {txt : List Char} (h : HeadOK txt) : NoBlank txt := by
  intro t e
  obtain ⟨c, t', e', hc, _⟩ := h
  rw [e'] at e
  simp only [List.cons.injEq] at e
  rw [e.1] at hc
  exact absurd hc (by decide)

theorem HeadOK.ne_eof {txt : List Char} (h : HeadOK txt) : txt ≠ [eofRune] := by
  intro e
  obtain ⟨c, t', e', _, hc⟩ := h
  rw [e'] at e
  simp only [List.cons.injEq] at e
  exact hc e.1

theorem Rem.chars_of_head {r : Cursor} {txt : List Char} (h : Rem r txt) (hh : HeadOK txt) : r.chars = txt := by
  rcases h with h | ⟨h, _⟩
  · exact h
  · exact absurd h hh.ne_eof

/-- Standing before a text that starts with a token: before it, possibly after one blank. -/
theorem Stand.atW {s : PState} {txt : List Char} (h : Stand s (' ' :: txt)) (_hh : HeadOK txt) : AtW s txt := by
  rcases h with h | ⟨txt', e, _, h⟩
  · exact h.atW
  · simp only [List.cons.injEq, true_and] at e
    subst e
    exact h

theorem Stand.atW0 {s : PState} {txt : List Char} (h : Stand s txt) (hh : HeadOK txt) : AtW s txt := by
  rcases h with ⟨r0, hl, hr⟩ | ⟨txt', e, _, _⟩
  · exact ⟨r0, hl, Or.inl (hr.chars_of_head hh)⟩
  · exact absurd e (hh.not_blank txt')

theorem Stand.of_n0 {s : PState} {k : List Char} (hn : s.n = 0) (h : Rem s.r k) : Stand s k :=
  Or.inl ⟨s.r, Or.inl ⟨hn, rfl⟩, h⟩

/-- The first significant token of `k`, as `ScanIgnoreWhitespace` delivers it from a state
standing before `k`; pushed back, the parser still stands before `k`. -/
theorem scanIW_starts (s : PState) (k : List Char) (T : Token) (hs : Stand s k) (hk : Starts k T) :
    ∃ lx s1, scanIW.run s = .ok (lx, s1) ∧ lx.tok = T ∧ Stand (unsc s1) k ∧ Same s s1 := by
  obtain ⟨hsig, hk⟩ := hk
  rcases hk with ⟨hnb, hk⟩ | ⟨txt, rfl, hh, hk⟩
  · rcases hs with ⟨r0, hl, hr⟩ | ⟨txt', e, _, _⟩
    · have ht := hk r0 hr
      obtain ⟨s1, k1, k2, k3⟩ := scanIW_look s r0 hl (by rw [ht]; exact hsig.1) (by rw [ht]; exact hsig.2.1)
        (by rw [ht]; exact hsig.2.2)
      exact ⟨_, s1, k1, ht, Or.inl ⟨r0, look_unsc s1 r0 k2, hr⟩, k3⟩
    · exact absurd e (hnb txt')
  · obtain ⟨r0, hl, hr | hr⟩ := hs.atW hh
    · have ht := hk r0 hr
      obtain ⟨s1, k1, k2, k3⟩ := scanIW_look s r0 hl (by rw [ht]; exact hsig.1) (by rw [ht]; exact hsig.2.1)
        (by rw [ht]; exact hsig.2.2)
      exact ⟨_, s1, k1, ht, Or.inr ⟨txt, rfl, hh, ⟨r0, look_unsc s1 r0 k2, Or.inl hr⟩⟩, k3⟩
    · obtain ⟨c, t, rfl, hc1, hc2⟩ := hh
      obtain ⟨w1, w2⟩ := scan_space r0 c t hc1 hc2 hr
      have ht := hk (scan r0).2 w2
      obtain ⟨s1, k1, k2, k3⟩ := scanIW_look_ws s r0 hl w1 (by rw [ht]; exact hsig.1) (by rw [ht]; exact hsig.2.1)
        (by rw [ht]; exact hsig.2.2)
      exact ⟨_, s1, k1, ht, Or.inr ⟨c :: t, rfl, ⟨c, t, rfl, hc1, hc2⟩, ⟨(scan r0).2, look_unsc s1 _ k2, Or.inl w2⟩⟩, k3⟩

/-- (with the buffer fact needed to re-deliver the token to a raw `Scan`) The first significant token of `k`, as `ScanIgnoreWhitespace` delivers it from a state
standing before `k`; pushed back, the parser still stands before `k`. -/
theorem scanIW_starts_just (s : PState) (k : List Char) (T : Token) (hs : Stand s k) (hk : Starts k T) :
    ∃ lx s1 r1, scanIW.run s = .ok (lx, s1) ∧ lx.tok = T ∧ Stand (unsc s1) k ∧ Just s1 lx r1 := by
  obtain ⟨hsig, hk⟩ := hk
  rcases hk with ⟨hnb, hk⟩ | ⟨txt, rfl, hh, hk⟩
  · rcases hs with ⟨r0, hl, hr⟩ | ⟨txt', e, _, _⟩
    · have ht := hk r0 hr
      obtain ⟨s1, k1, k2, k3⟩ := scanIW_look s r0 hl (by rw [ht]; exact hsig.1) (by rw [ht]; exact hsig.2.1)
        (by rw [ht]; exact hsig.2.2)
      exact ⟨_, s1, _, k1, ht, Or.inl ⟨r0, look_unsc s1 r0 k2, hr⟩, k2⟩
    · exact absurd e (hnb txt')
  · obtain ⟨r0, hl, hr | hr⟩ := hs.atW hh
    · have ht := hk r0 hr
      obtain ⟨s1, k1, k2, k3⟩ := scanIW_look s r0 hl (by rw [ht]; exact hsig.1) (by rw [ht]; exact hsig.2.1)
        (by rw [ht]; exact hsig.2.2)
      exact ⟨_, s1, _, k1, ht, Or.inr ⟨txt, rfl, hh, ⟨r0, look_unsc s1 r0 k2, Or.inl hr⟩⟩, k2⟩
    · obtain ⟨c, t, rfl, hc1, hc2⟩ := hh
      obtain ⟨w1, w2⟩ := scan_space r0 c t hc1 hc2 hr
      have ht := hk (scan r0).2 w2
      obtain ⟨s1, k1, k2, k3⟩ := scanIW_look_ws s r0 hl w1 (by rw [ht]; exact hsig.1) (by rw [ht]; exact hsig.2.1)
        (by rw [ht]; exact hsig.2.2)
      exact ⟨_, s1, _, k1, ht, Or.inr ⟨c :: t, rfl, ⟨c, t, rfl, hc1, hc2⟩, ⟨(scan r0).2, look_unsc s1 _ k2, Or.inl w2⟩⟩, k2⟩

theorem sepU_printOps' {x : Bool} (rest : List (Token × Expr)) (k : List Char)
    (hrest : ∀ p ∈ rest, OpOK x p) (hk : SepU k) : SepU (printOps rest ++ k) := by
  cases rest with
  | nil => exact hk
  | cons p rest =>
    obtain ⟨c, t, hct, h1, h2⟩ := headOK_of_B (binOps_head p.1 (isOperator_mem (hrest p (by simp)).1))
    refine Or.inr ⟨c, t ++ ' ' :: (p.2.print ++ printOps rest) ++ k, ?_, h1, h2⟩
    simp [printOps, hct]

/-- The loop of `ParseExpr` on the printed operators and operands, followed by an `ExprEnd`. -/
def SpecL' (x : Bool) (F : Nat) : Prop := ∀ (s : PState) (root : Expr) (rest : List (Token × Expr)) (k : List Char),
  TblOK x s → (∀ p ∈ rest, OpOK x p) → ExprEnd k → At s (printOps rest ++ k) →
  wp (exprLoop F root) s
    (fun e' s' => e' = rest.foldl (fun t p => insertOp t p.1 p.2) root ∧ Stand s' k ∧ Same s s') IsFuel

theorem specL'_all (x : Bool) (F : Nat) : SpecL' x F := by
  induction F with
  | zero => intro s root rest k _ _ _ _; rw [exprLoop, wp_throw]; rfl
  | succ F ihL =>
  have ihU : SpecU x F := (rt_specs x F).2.2.1
  intro s root rest k htb hrest hk hat
  rw [exprLoop, wp_bind]
  cases rest with
  | nil =>
    obtain ⟨_, T, hT, hTop⟩ := hk
    obtain ⟨lx, s1, hrun, htok, hst, hsame⟩ := scanIW_starts s k T (Or.inl (by simpa [printOps] using hat)) hT
    rw [wp_of_run_ok hrun]
    have hnop : (!lx.tok.isOperator) = true := by rw [htok, hTop]; rfl
    rw [wp_ite, if_pos hnop, wp_bind, unscan_wp, wp_pure]
    exact ⟨rfl, hst, hsame.trans (unsc_same s1)⟩
  | cons p rest' =>
    obtain ⟨hop, hnb, hok⟩ := hrest p (by simp)
    have hat' : AtW s (p.1.str ++ ' ' :: (p.2.print ++ (printOps rest' ++ k))) := by
      apply At.atW
      simpa [printOps] using hat
    obtain ⟨lx, s1, r1, hrun, htok, hlit, hj, hq, hsame⟩ := scanIW_first s _ hat'
      ((headOK_of_B (binOps_head p.1 (isOperator_mem hop))).append _) p.1 []
      (fun r => r.chars = ' ' :: (p.2.print ++ (printOps rest' ++ k)))
      (fun r hr => scan_op p.1 hop r _ hr)
      (by have := isOperator_mem hop; revert this; generalize p.1 = t; intro ht
          simp only [binOps, List.mem_cons, List.not_mem_nil, or_false] at ht
          rcases ht with h | h | h | h | h | h | h | h | h | h | h | h | h | h | h | h | h | h <;> subst h <;>
            exact ⟨by decide, by decide, by decide⟩)
    rw [wp_of_run_ok hrun]
    have hnop : ¬ (!lx.tok.isOperator) = true := by rw [htok, hop]; simp
    rw [wp_ite, if_neg hnop]
    dsimp only
    have hrest' : ∀ q ∈ rest', OpOK x q := fun q hq => hrest q (by simp [hq])
    by_cases hre : p.1.isRegexOp = true
    · rw [if_pos hre] at hok
      obtain ⟨src, hp2, hsrc⟩ := regexLitB_elim hok
      rw [hp2, print_regex] at hq
      obtain ⟨lx2, s2, hrun2, hj2, hch2, hsame2⟩ := parseRegex_text s1 src (printOps rest' ++ k) hj.1 hsrc
        (Or.inr (by rw [hj.2.2]; simpa using hq))
      rw [wp_ite, if_pos (by rw [htok]; exact hre), wp_bind, wp_of_run_ok hrun2]
      dsimp only
      rw [wp_bind, wp_pure]
      refine wp_mono (ihL s2 _ rest' k (htb.same (hsame.trans hsame2)) hrest' hk (hj2.at (Or.inl hch2))) ?_ (fun _ h => h)
      intro e' s3 ⟨he', hat3, hsame3⟩
      exact ⟨by rw [he', htok, List.foldl_cons, hp2], hat3, (hsame.trans hsame2).trans hsame3⟩
    · rw [if_neg hre] at hok
      have hnre' : ¬ lx.tok.isRegexOp = true := by rw [htok]; exact hre
      rw [wp_ite, if_neg hnre', wp_bind]
      refine wp_mono (ihU s1 p.2 (printOps rest' ++ k) (htb.same hsame) hok hnb
        (sepU_printOps' _ k hrest' hk.1) ⟨r1, Or.inl ⟨hj.1, hj.2.2⟩, Or.inr hq⟩) ?_ (fun _ h => h)
      intro a s2 ⟨ha, hat2, hsame2⟩
      subst ha
      refine wp_mono (ihL s2 _ rest' k (htb.same (hsame.trans hsame2)) hrest' hk hat2) ?_ (fun _ h => h)
      intro e' s3 ⟨he', hat3, hsame3⟩
      exact ⟨by rw [he', htok]; rfl, hat3, (hsame.trans hsame2).trans hsame3⟩

/-- **`ParseExpr` inside a statement.** From a state standing before `e.print ++ k` (possibly after
one blank), `k` an `ExprEnd`: `ParseExpr` returns `e` and stands before `k` — or the fuel was too
small. -/
theorem specE'_all (x : Bool) (F : Nat) (s : PState) (e : Expr) (k : List Char) (htb : TblOK x s)
    (he : rtOK x e = true) (hk : ExprEnd k) (hat : AtW s (e.print ++ k)) :
    wp (parseExpr F) s (fun e' s' => e' = e ∧ Stand s' k ∧ Same s s') IsFuel := by
  cases F with
  | zero => rw [parseExpr, wp_throw]; rfl
  | succ F =>
  obtain ⟨hfirst, hops⟩ := rtOK_chain e he
  rw [parseExpr, wp_bind]
  rw [print_chain e, List.append_assoc] at hat
  refine wp_mono ((rt_specs x F).2.2.1 s (firstA e) (printOps (opsOf e) ++ k) htb hfirst (firstA_nb e)
    (sepU_printOps' _ k hops hk.1) hat) ?_ (fun _ h => h)
  intro a s1 ⟨ha, hat1, hsame1⟩
  subst ha
  refine wp_mono (specL'_all x F s1 (firstA e) (opsOf e) k (htb.same hsame1) hops hk hat1) ?_ (fun _ h => h)
  intro e' s2 ⟨he', hat2, hsame2⟩
  exact ⟨by rw [he', insertOp_chain e (rtOK_wellGrouped e he)], hat2, hsame1.trans hsame2⟩

/-- `)`, `,` and the end of the input are expression ends. -/
theorem ExprEnd.of_sepC {k : List Char} (hk : SepC k) : ExprEnd k := by
  refine ⟨Or.inl hk, ?_⟩
  have hnb : NoBlank k := by
    intro t e
    rcases hk with rfl | ⟨t', rfl | rfl⟩
    · simp only [List.cons.injEq] at e; exact absurd e.1 (by decide)
    · simp only [List.cons.injEq] at e; exact absurd e.1 (by decide)
    · simp only [List.cons.injEq] at e; exact absurd e.1 (by decide)
  rcases hk with rfl | ⟨t, rfl | rfl⟩
  · refine ⟨.EOF, ⟨⟨by decide, by decide, by decide⟩, Or.inl ⟨hnb, fun r hr => ?_⟩⟩, rfl⟩
    rcases scan_close r _ hr (Or.inl rfl) with ⟨_, h⟩ | ⟨_, h, _⟩ | ⟨_, h, _⟩
    · exact h
    · cases h
    · cases h
  · refine ⟨.RPAREN, ⟨⟨by decide, by decide, by decide⟩, Or.inl ⟨hnb, fun r hr => ?_⟩⟩, rfl⟩
    rcases scan_close r _ hr (Or.inr ⟨t, Or.inl rfl⟩) with ⟨h, _⟩ | ⟨_, _, h, _⟩ | ⟨_, h, _⟩
    · cases h
    · exact h
    · cases h
  · refine ⟨.COMMA, ⟨⟨by decide, by decide, by decide⟩, Or.inl ⟨hnb, fun r hr => ?_⟩⟩, rfl⟩
    rcases scan_close r _ hr (Or.inr ⟨t, Or.inr rfl⟩) with ⟨h, _⟩ | ⟨_, h, _⟩ | ⟨_, _, h, _⟩
    · cases h
    · cases h
    · exact h

/-- How the text of an operand of the class begins (as `atom_start`, and the first token is
significant). -/
theorem atom_sig {x : Bool} (a : Expr) (ha : rtOK x a = true) (hnb : NB a) (k : List Char) (hk : SepU k) :
    NoRegexStart (a.print ++ k) ∧
      ∀ r : Cursor, r.chars = a.print ++ k → (scan r).1.tok ≠ .RPAREN ∧ (scan r).1.tok ≠ .BOUNDPARAM ∧ (scan r).1.tok ≠ .WS ∧
        (scan r).1.tok ≠ .COMMENT := by
  obtain ⟨x0, t0, hk0, hx1, hx2, hx3, _, _, _⟩ := sepU_head_facts hk
  cases a with
  | binary op l r => exact absurd rfl (hnb op l r)
  | paren e =>
    rw [print_paren]
    refine ⟨nrs_of '(' _ (by decide), fun r hr => ?_⟩
    rw [(scan_lparen r _ hr).1]; exact ⟨by decide, by decide, by decide, by decide⟩
  | string v =>
    have hv : Expressible v := exprB_expressible (by rw [rtOK] at ha; exact ha)
    rw [print_string]
    refine ⟨nrs_of '\'' _ (by decide), fun r hr => ?_⟩
    rw [(scan_string_text r v k hv hr).1]; exact ⟨by decide, by decide, by decide, by decide⟩
  | integer n =>
    subst hk0
    by_cases hpos : 0 ≤ n
    · obtain ⟨m, rfl⟩ := Int.eq_ofNat_of_zero_le hpos
      rw [print_integer_nat]
      obtain ⟨d, dt, hd, hdd⟩ := natDigits_head_digit m
      refine ⟨by rw [hd]; exact nrs_digit _ hdd, fun r hr => ?_⟩
      rw [(scan_digits r (natDigits m) x0 t0 (natDigits_ne_nil m) (natDigits_all_digits m) hx1 hx2 hx3 hr).1]
      exact ⟨by decide, by decide, by decide, by decide⟩
    · rw [print_integer_neg n (by omega)]
      obtain ⟨d, dt, hd, hdd⟩ := natDigits_head_digit n.natAbs
      refine ⟨⟨'-', _, rfl, by decide, by decide, by decide, by decide, fun _ => ⟨d, dt ++ x0 :: t0, by rw [hd]; rfl, ?_⟩⟩,
        fun r hr => ?_⟩
      · intro e; subst e; revert hdd; decide
      · rw [(scan_minus r d (dt ++ x0 :: t0) hdd (by rw [hr, hd]; rfl)).1]; exact ⟨by decide, by decide, by decide, by decide⟩
  | unsigned v =>
    subst hk0
    rw [print_unsigned]
    obtain ⟨d, dt, hd, hdd⟩ := natDigits_head_digit v
    refine ⟨by rw [hd]; exact nrs_digit _ hdd, fun r hr => ?_⟩
    rw [(scan_digits r (natDigits v) x0 t0 (natDigits_ne_nil v) (natDigits_all_digits v) hx1 hx2 hx3 hr).1]
    exact ⟨by decide, by decide, by decide, by decide⟩
  | boolean b =>
    rw [print_boolean]
    refine ⟨by cases b <;> exact nrs_identFirst _ (by decide), fun r hr => ?_⟩
    rw [(scan_true_false r b k hk hr).1]
    cases b <;> exact ⟨by decide, by decide, by decide, by decide⟩
  | varRef v t =>
    rw [rtOK] at ha
    simp only [Bool.and_eq_true, beq_iff_eq] at ha
    obtain ⟨hv, _⟩ := ha
    rw [print_varRef, List.append_assoc]
    refine ⟨?_, fun r hr => ?_⟩
    · have hnr : NoRegexStart (quoteIdent [v]) := by
        rw [C06.quoteIdent_single]
        by_cases hq : (identNeedsQuotes v || v == []) = true
        · rw [if_pos hq]; exact nrs_of '"' _ (by decide)
        · rw [if_neg hq]
          simp only [Bool.or_eq_true, not_or, Bool.not_eq_true, beq_eq_false_iff_ne, ne_eq] at hq
          obtain ⟨hlk, c, tl, rfl, hc, htl⟩ := (identNeedsQuotes_false_iff v hq.2).mp hq.1
          have hall : ∀ y ∈ c :: tl, isIdentChar y = true := by
            intro y hy; simp at hy; rcases hy with rfl | hy
            · exact (isIdentFirstChar_facts hc).2.2.1
            · exact htl y hy
          rw [C06.esc_identChars _ hall]
          exact nrs_identFirst _ hc
      obtain ⟨c, t', e, h1, h2, h3, h4, h5⟩ := hnr
      rw [e]
      exact ⟨c, t' ++ _, rfl, h1, h2, h3, h4, fun hm => by
        obtain ⟨d, t'', e', hd⟩ := h5 hm
        exact ⟨d, t'' ++ _, by rw [e']; rfl, hd⟩⟩
    · rw [(scan_ident_text r v _ (exprB_expressible hv) (idEnd_castText t k hk) hr).1]; exact ⟨by decide, by decide, by decide, by decide⟩
  | call name args =>
    rw [rtOK] at ha
    simp only [Bool.and_eq_true] at ha
    obtain ⟨_, hlk, c, tl, rfl, hc, htl⟩ := callNameB_facts ha.1.2
    rw [print_call]
    refine ⟨by simpa using nrs_identFirst _ hc, fun r hr => ?_⟩
    have := scan_word r c tl ('(' :: (joinWith [',', ' '] (printArgs args) ++ [')'] ++ k)) hc htl
      (Or.inr ⟨'(', _, rfl, by decide, by decide, by decide⟩) (by rw [hr]; simp)
    rw [this.1, hlk]; exact ⟨by decide, by decide, by decide, by decide⟩
  | _ => simp [rtOK] at ha

/-- The same for a whole expression followed by any operand separator. -/
theorem expr_sig {x : Bool} (e : Expr) (he : rtOK x e = true) (k : List Char) (hk : SepU k) :
    NoRegexStart (e.print ++ k) ∧
      ∀ r : Cursor, r.chars = e.print ++ k → (scan r).1.tok ≠ .RPAREN ∧ (scan r).1.tok ≠ .BOUNDPARAM ∧
        (scan r).1.tok ≠ .WS ∧ (scan r).1.tok ≠ .COMMENT := by
  obtain ⟨hfirst, hops⟩ := rtOK_chain e he
  rw [print_chain e, List.append_assoc]
  exact atom_sig (firstA e) hfirst (firstA_nb e) _ (sepU_printOps' _ k hops hk)

theorem headOK_of_nrs {txt : List Char} (h : NoRegexStart txt) : HeadOK txt := by
  obtain ⟨c, t, e, _, _, h3, h4, _⟩ := h
  exact ⟨c, t, e, h4, h3⟩

end InfluxQL.RT

import InfluxQL.Lemmas.ExprSemiWide
import InfluxQL.Lemmas.SelectCQ
/-
SELECT over the wide expression class, subqueries and EXPLAIN for continuations that may begin with `;`
(C16: inside a printed query a statement is followed by `;⏎`).

The lemmas of Lemmas/SelectClauses.lean that go through `parseCall` (`parseCall_args`, `unary_call`,
`parseExpr_call`, `parseLocation_print`), `parseCondition_printW` (Lemmas/StmtExprPiecesWide.lean), the clause
lemmas of Lemmas/SelectWide.lean, the body lemma of Lemmas/SelectBody.lean, the source lemmas of
Lemmas/SelectSubquery.lean and `parseExplain_print` (Lemmas/SelectExplain.lean), repeated under the same names in
the namespace `InfluxQL.C02.Semi`: `Follow`, `RT.SepU`, `RT.ExprEnd`, `RT.w_specs`, `RT.exprW_start` resolve to
the versions over the wider separator class (Lemmas/ExprSemi.lean, ExprSemiWide.lean, StmtExprSemi.lean), every
class, text and statement name (`BodyOKW`, `selOKB`, `bodyText`, `selectTail`, `fillText`, …) to the original.
Proofs are the originals except: `parseCall_args` is stated for arguments of the wide class (over
`Semi.RT.w_specs`); a separator built from a `SepC` takes one more `Or.inl`; `parseSelect_sub` needs no
induction — below the top level every subquery is followed by `)`, which is the old continuation class, so the
original `InfluxQL.parseSelect_sub` serves as `SubSpec`.

CREATE CONTINUOUS QUERY needs nothing here: its SELECT is followed by ` END`, and the keyword END only
needs `WordEnd k`.
-/
namespace InfluxQL.C02.Semi
open InfluxQL Gen

/-- `parseCall` after the opening parenthesis, for any written name and arguments of the wide class: the call
carries the lower-cased name. -/
theorem parseCall_args (F : Nat) (s : PState) (name0 : Str) (args : List Expr) (k : Str)
    (hargs : RT.wOKArgs s.lowerTbl args = true) (hk : RT.SepU k) (hn : s.n = 0)
    (hch : s.r.chars = joinWith [',', ' '] (printArgs args) ++ ')' :: k) :
    wp (parseCall (F + 1) name0) s
      (fun e' s' => e' = .call (lowerStr s.lowerTbl name0) args ∧ RT.At s' k ∧ RT.Same s s') RT.IsFuel := by
  have ihE : RT.WSpecE s.lowerTbl F := (RT.w_specs s.lowerTbl F).1
  have ihA : RT.WSpecA s.lowerTbl F := (RT.w_specs s.lowerTbl F).2.2.2.2
  rw [parseCall, wp_bind, wp_get]
  dsimp only
  rw [wp_bind]
  cases args with
  | nil =>
    have hch' : s.r.chars = ')' :: k := by simpa [printArgs, joinWith] using hch
    obtain ⟨s2, hrun2, hn2, hch2, hsame2⟩ := RT.parseRegex_none s (')' :: k) hn
      (RT.nrs_of ')' k (by decide)) (Or.inl hch')
    rw [wp_of_run_ok hrun2]
    dsimp only
    have hclose := RT.scan_close s2.r (')' :: k) (Or.inl hch2) (Or.inr ⟨k, Or.inl rfl⟩)
    rcases hclose with ⟨h, _⟩ | ⟨t, ht, htk, hcht⟩ | ⟨t, ht, _, _⟩
    · cases h
    · simp only [List.cons.injEq, true_and] at ht
      subst ht
      obtain ⟨s3, hrun3, hj3, hsame3⟩ := RT.pscan_look s2 s2.r (Or.inl ⟨hn2, rfl⟩) (by rw [htk]; decide)
      rw [wp_bind, wp_of_run_ok hrun3, wp_ite, if_pos htk, wp_pure]
      exact ⟨rfl, hj3.at (Or.inl hcht), hsame2.trans hsame3⟩
    · cases ht
  | cons a rest =>
    obtain ⟨ha, hrest⟩ := RT.wOKArgs_cons hargs
    rw [RT.joinArgs_cons, List.append_assoc] at hch
    rcases ha with ha | ha
    · obtain ⟨src, rfl, hsrc⟩ := RT.regexLitB_elim ha
      obtain ⟨lx2, s2, hrun2, hj2, hch2, hsame2⟩ := RT.parseRegex_text s src (RT.printMore rest ++ ')' :: k) hn hsrc
        (Or.inl (by rw [hch, RT.print_regex]; simp))
      rw [wp_of_run_ok hrun2]
      dsimp only
      refine wp_mono (ihA s2 _ _ rest k hsame2.2 hrest hk (hj2.at (Or.inl hch2))) ?_ (fun _ h => h)
      intro e' s3 ⟨he', hat3, hsame3⟩
      exact ⟨by rw [he']; simp, hat3, hsame2.trans hsame3⟩
    · have hsc := RT.sepC_printMore rest k
      obtain ⟨hnrs, htoks⟩ := RT.exprW_start a ha _ (Or.inl (Or.inl hsc))
      obtain ⟨s2, hrun2, hn2, hch2, hsame2⟩ := RT.parseRegex_none s _ hn hnrs (Or.inl hch)
      rw [wp_of_run_ok hrun2]
      dsimp only
      obtain ⟨htk1, htk2, _, _⟩ := htoks s2.r hch2
      obtain ⟨s3, hrun3, hj3, hsame3⟩ := RT.pscan_look s2 s2.r (Or.inl ⟨hn2, rfl⟩) htk2
      rw [wp_bind, wp_of_run_ok hrun3, wp_ite, if_neg htk1, wp_bind, unscan_wp, wp_bind]
      have hsm : RT.Same s (unsc s3) := (hsame2.trans hsame3).trans (RT.unsc_same s3)
      refine wp_mono (ihE (unsc s3) a _ hsm.2 ha (RT.ExprEnd.of_sepC hsc)
        ⟨s2.r, RT.look_unsc s3 s2.r hj3, Or.inl hch2⟩) ?_ (fun _ h => h)
      intro e' s4 ⟨he', hat4, hsame4⟩
      subst he'
      refine wp_mono (ihA s4 _ _ rest k (hsm.trans hsame4).2 hrest hk (hat4.at_of_sepC hsc)) ?_ (fun _ h => h)
      intro e'' s5 ⟨he'', hat5, hsame5⟩
      exact ⟨by rw [he'']; simp, hat5, (hsm.trans hsame4).trans hsame5⟩

/-- `parseUnaryExpr` on a written call, whatever the case of its name. -/
theorem unary_call (F : Nat) (s : PState) (name0 : Str) (args : List Expr) (k : Str) (hname : WordName name0)
    (hargs : RT.wOKArgs s.lowerTbl args = true) (hk : RT.SepU k) (hat : RT.AtW s (callText name0 args ++ k)) :
    wp (parseUnaryExpr (F + 2)) s
      (fun e' s' => e' = .call (lowerStr s.lowerTbl name0) args ∧ RT.At s' k ∧ RT.Same s s') RT.IsFuel := by
  obtain ⟨hlk, c, tl, hnm, hc, htl⟩ := hname
  have hat' : RT.AtW s (name0 ++ '(' :: (joinWith [',', ' '] (printArgs args) ++ ')' :: k)) := by
    simpa [callText] using hat
  obtain ⟨lx, s1, r1, hrun, htok, hlit, hj, hq, hsame⟩ := RT.scanIW_first s _ hat'
    (by rw [hnm]; exact ⟨c, _, rfl, (isIdentFirstChar_facts hc).1, (isIdentFirstChar_facts hc).2.2.2.2⟩)
    .IDENT name0 (fun r => r.chars = '(' :: (joinWith [',', ' '] (printArgs args) ++ ')' :: k))
    (fun r hr => by
      have := RT.scan_word r c tl ('(' :: (joinWith [',', ' '] (printArgs args) ++ ')' :: k)) hc htl
        (Or.inr ⟨'(', _, rfl, by decide, by decide, by decide⟩) (by rw [hr, hnm])
      rw [← hnm, hlk] at this
      exact ⟨this.1, by simpa using this.2.1, this.2.2.chars_of_cons (by decide)⟩)
    ⟨by decide, by decide, by decide⟩
  have hsig : lx.tok ≠ .BOUNDPARAM ∧ lx.tok ≠ .WS ∧ lx.tok ≠ .COMMENT := by rw [htok]; decide
  have hnp : ¬ lx.tok = .LPAREN := by rw [htok]; decide
  rw [parseUnaryExpr, wp_bind, wp_of_run_ok hrun, wp_ite, if_neg hnp, wp_bind, unscan_wp, wp_bind,
    wp_of_run_ok (RT.scanIW_redeliver s1 lx r1 hj hsig.1 hsig.2.1 hsig.2.2)]
  obtain ⟨hlp, hchp⟩ := RT.scan_lparen r1 _ hq
  obtain ⟨s2, hrun2, hj2, hsame2⟩ := RT.pscan_look s1 r1 (Or.inl ⟨hj.1, hj.2.2⟩) (by rw [hlp]; decide)
  obtain ⟨tok, pos, lit⟩ := lx
  simp only at htok hlit
  subst htok hlit
  dsimp only
  rw [wp_bind, wp_of_run_ok hrun2, wp_ite, if_pos hlp]
  refine wp_mono (parseCall_args F s2 lit args k (by rw [(hsame.trans hsame2).2]; exact hargs) hk hj2.1 (by rw [hj2.2.2]; exact hchp)) ?_ (fun _ h => h)
  intro e' s3 ⟨he', hat3, hsame3⟩
  have htbl : s2.lowerTbl = s.lowerTbl := (hsame.trans hsame2).2
  exact ⟨by rw [he', htbl], hat3, (hsame.trans hsame2).trans hsame3⟩

/-- **`ParseExpr` on a written call** followed by an expression end. -/
theorem parseExpr_call (F : Nat) (s : PState) (name0 : Str) (args : List Expr) (k : Str) (hname : WordName name0)
    (hargs : RT.wOKArgs s.lowerTbl args = true) (hk : RT.ExprEnd k) (hat : RT.AtW s (callText name0 args ++ k)) :
    wp (parseExpr (F + 3)) s
      (fun e' s' => e' = .call (lowerStr s.lowerTbl name0) args ∧ RT.Stand s' k ∧ RT.Same s s') RT.IsFuel := by
  rw [parseExpr, wp_bind]
  refine wp_mono (unary_call F s name0 args k hname hargs hk.1 hat) ?_ (fun _ h => h)
  intro a s1 ⟨ha, hat1, hsame1⟩
  subst ha
  refine wp_mono (RT.specL'_all false (F + 2) s1 _ [] k (fun h => by cases h) (fun p hp => by cases hp) hk
    (by simpa [RT.printOps] using hat1)) ?_ (fun _ h => h)
  intro e' s2 ⟨he', hat2, hsame2⟩
  exact ⟨by rw [he']; rfl, hat2, hsame1.trans hsame2⟩

/-! ## TZ('…') -/

/-- **`TZ('<name>')`** on its printed form; absent, nothing is consumed. -/
theorem parseLocation_print (F : Nat) (s : PState) (loc : Option Str) (k : Str)
    (hloc : ∀ n, loc = some n → plainNameB n = true) (hk : Follow k [.IDENT]) (hs : RT.Stand s (tzText loc ++ k)) :
    wp (parseLocation (F + 3)) s (fun r s' => r = loc ∧ RT.Stand s' k) (· = .fuel) := by
  cases loc with
  | none =>
    obtain ⟨s', h, st⟩ := parseLocation_absent (F + 3) s k hk (by simpa [tzText] using hs)
    rw [wp_of_run_ok h]
    exact ⟨rfl, st⟩
  | some n =>
    obtain ⟨hne, hex, hq⟩ := plainName_facts (hloc n rfl)
    have htxt : tzText (some n) ++ k = ' ' :: (['T', 'Z'] ++ ('(' :: (quoteString n ++ ')' :: k))) := by
      simp [tzText, hq]
    rw [htxt] at hs
    obtain ⟨lx, s1, h1, ⟨ht, hl⟩, st1⟩ := Ahead.piece ['T', 'Z'] _ .IDENT _
      (scansAs_word ['T', 'Z'] ('(' :: (quoteString n ++ ')' :: k)) wordName_TZ (wordEnd_lparen _)) s hs
    have hc : ¬ (lx.tok ≠ .IDENT ∨ lowerStr (unsc s1).lowerTbl lx.lit ≠ "tz".toList) := by
      rw [ht, hl, lower_TZ]; simp
    unfold parseLocation
    rw [wp_bind, wp_of_run_ok h1, wp_bind, unscan_wp, wp_bind, wp_get]
    rw [wp_ite, if_neg hc, wp_bind]
    have hat : RT.AtW (unsc s1) (callText ['T', 'Z'] [.string n] ++ k) := by
      have := st1.atW ⟨'T', _, rfl, by decide, by decide⟩
      simpa [callText, printArgs, joinWith, RT.print_string] using this
    refine wp_mono (parseExpr_call F (unsc s1) ['T', 'Z'] [.string n] k wordName_TZ
      (by simp [RT.wOKArgs, RT.wOK, RT.regexLitB, exprB_of_expressible hex]) hk.exprEnd hat) ?_ (fun _ h => h)
    intro e' s2 ⟨he', st2, _⟩
    subst he'
    dsimp only
    rw [wp_pure]
    refine ⟨?_, st2⟩
    simp [locationName, hne]

/-! ## ORDER BY -/
/-- **The WHERE clause, wide class.** `parseCondition` on the printed clause followed by `k`
returns the condition and stands before `k` (or the fuel was too small). -/
theorem parseCondition_printW (fuel : Nat) (s : PState) (c : Option Expr) (k : Str) (hc : CondOKW s.lowerTbl c)
    (hk : Follow k [.WHERE]) (hs : RT.Stand s (whereText c ++ k)) :
    wp (parseCondition fuel) s (fun c' s' => c' = c ∧ RT.Stand s' k ∧ RT.Same s s') (· = .fuel) := by
  cases c with
  | none =>
    obtain ⟨T, hT, hne⟩ := hk.starts (t := .WHERE) (by simp)
    obtain ⟨lx, s1, h1, h2, h3, h4⟩ := RT.scanIW_starts s k T (by simpa [whereText] using hs) hT
    unfold parseCondition
    rw [wp_bind, wp_of_run_ok h1]
    have : lx.tok ≠ .WHERE := by rw [h2]; exact hne
    rw [wp_ite, if_pos this, wp_bind, unscan_wp, wp_pure]
    exact ⟨rfl, h3, h4.trans (RT.unsc_same s1)⟩
  | some e =>
    have he : RT.wOK s.lowerTbl e = true := hc e rfl
    have hs' : RT.Stand s ([' '] ++ (Token.WHERE.str ++ (' ' :: (e.print ++ k)))) := by
      simpa [whereText] using hs
    obtain ⟨lx, s1, h1, h2, _, b1⟩ := scanIW_stand s [' '] Token.WHERE.str _ .WHERE [] Gap.blank hs'
      (scansAs_kw .WHERE _ (by decide +kernel) (WordEnd.blank _))
    unfold parseCondition
    rw [wp_bind, wp_of_run_ok h1]
    have : ¬ lx.tok ≠ .WHERE := by rw [h2]; simp
    rw [wp_ite, if_neg this, wp_bind]
    have hat : RT.AtW s1 (e.print ++ k) :=
      ⟨s1.r, Or.inl ⟨b1.1, rfl⟩, Or.inr (b1.2.chars_of_cons (by decide))⟩
    have hsm : RT.Same s s1 := scanIW_same s lx s1 h1
    have he1 : RT.wOK s1.lowerTbl e = true := by rw [hsm.2]; exact he
    refine wp_mono ((RT.w_specs s1.lowerTbl fuel).1 s1 e k rfl he1 hk.exprEnd hat) ?_ (fun _ h => h)
    intro e' s2 ⟨h1, h2, h3⟩
    rw [wp_pure]
    exact ⟨by rw [h1], h2, hsm.trans h3⟩

/-- **One field, wide class.** A copy of `parseField_print` over `RT.w_specs`. -/
theorem parseField_printW (fuel : Nat) (s : PState) (f : Field) (rest : Str) (hf : FieldOKW s.lowerTbl f)
    (hrest : (∃ more, rest = ',' :: more) ∨ Follow rest [.AS, .COMMA])
    (hs : s.Before (' ' :: (f.print ++ rest))) :
    wp (parseField fuel) s (fun f' s' => f' = f ∧ FieldEnd s' rest) (· = .fuel) := by
  obtain ⟨he, hbad, hal⟩ := hf
  have hfr : Follow rest [.AS] := by
    rcases hrest with ⟨more, rfl⟩ | h
    · exact Follow.comma more _ (by decide)
    · exact h.mono (by decide)
  have hfa : Follow (aliasText f.alias ++ rest) [] :=
    Follow.opt (kwText_alias _) (by decide +kernel) rfl (by simp) (hfr.mono (by simp))
  rw [field_print_eq, List.append_assoc] at hs
  have hch : s.r.chars = ' ' :: (f.expr.print ++ (aliasText f.alias ++ rest)) := hs.2.chars_of_cons (by decide)
  obtain ⟨hnrs, hsig⟩ := RT.exprW_start f.expr he _ hfa.1
  obtain ⟨s2, hr2, hn2, hch2, hsm2⟩ := RT.parseRegex_none s _ hs.1 hnrs (Or.inr hch)
  obtain ⟨_, hb2, hw2, hc2⟩ := hsig s2.r hch2
  obtain ⟨s3, hr3, hj3, hsm3⟩ := RT.scanIW_look s2 s2.r (Or.inl ⟨hn2, rfl⟩) hb2 hw2 hc2
  have htbl : (unsc s3).lowerTbl = s.lowerTbl := ((hsm2.trans hsm3).trans (RT.unsc_same s3)).2
  have hat : RT.AtW (unsc s3) (f.expr.print ++ (aliasText f.alias ++ rest)) :=
    ⟨s2.r, RT.look_unsc s3 s2.r hj3, Or.inl hch2⟩
  unfold parseField
  rw [wp_bind, wp_of_run_ok hr2]
  simp only []
  rw [wp_bind, wp_of_run_ok hr3, wp_bind, unscan_wp, wp_bind]
  refine wp_mono ((RT.w_specs s.lowerTbl fuel).1 (unsc s3) f.expr _ htbl he hfa.exprEnd hat) ?_ (fun _ h => h)
  intro e' s4 ⟨he', st4, _⟩
  subst he'
  simp only [hbad, List.getLast?_nil, pure_bind]
  -- the alias
  have halias : ∃ s5, parseAlias.run s4 = .ok (f.alias, s5) ∧ RT.Stand s5 rest := by
    unfold aliasText at st4
    by_cases ha : f.alias = []
    · rw [if_pos ha] at st4
      obtain ⟨lx, s5, h5, t5, st5⟩ := peek_stand s4 rest _ .AS hfr (by simp) (by simpa using st4)
      refine ⟨unsc s5, ?_, st5⟩
      unfold parseAlias
      rw [P.run_bind _ _ _ _ _ h5, P.run_ite, if_pos t5, P.run_bind _ _ _ _ _ (unscan_run s5), ha]
      rfl
    · rw [if_neg ha] at st4
      have st4' : RT.Stand s4 ([' '] ++ (Token.AS.str ++ (' ' :: (qi f.alias ++ rest)))) := by simpa using st4
      obtain ⟨lx, s5, h5, t5, _, b5⟩ := scanIW_stand s4 [' '] Token.AS.str _ .AS [] Gap.blank st4'
        (scansAs_kw .AS _ (by decide +kernel) (WordEnd.blank _))
      obtain ⟨s6, h6, b6⟩ := parseIdent_piece s5 [' '] (qi f.alias) rest f.alias Gap.blank b5.around
        (scansAs_ident f.alias rest hal (.of_wordEnd hfr.tokEnd.1))
      refine ⟨s6, ?_, b6.stand⟩
      unfold parseAlias
      have : ¬ lx.tok ≠ .AS := by rw [t5]; simp
      rw [P.run_bind _ _ _ _ _ h5, P.run_ite, if_neg this]
      exact h6
  obtain ⟨s5, h5, st5⟩ := halias
  rw [wp_bind, wp_of_run_ok h5, wp_bind]
  -- the look-ahead after the alias
  rcases hrest with ⟨more, rfl⟩ | hfc
  · have hstc : RT.Starts (',' :: more) .COMMA := by
      have := starts_piece [] [','] more .COMMA [] Gap.none (scansAs_comma more)
      simpa using this
    obtain ⟨lx, s6, r6, h6, t6, st6, j6⟩ := RT.scanIW_starts_just s5 _ .COMMA st5 hstc
    obtain ⟨lx', s6', h6', _, _, b6'⟩ := scanIW_stand s5 [] [','] more .COMMA [] Gap.none (by simpa using st5)
      (scansAs_comma more)
    rw [h6] at h6'
    injection h6' with h6'
    injection h6' with _ hs6
    subst hs6
    rw [wp_of_run_ok h6, wp_bind, unscan_wp, wp_pure]
    refine ⟨rfl, lx, s6, r6, rfl, j6, by rw [t6]; decide, st6, ?_, ?_⟩
    · intro more' e
      simp only [List.cons.injEq, true_and] at e
      subst e
      exact ⟨t6, b6'⟩
    · intro h; exact absurd rfl (h more)
  · obtain ⟨T, hT, hne⟩ := hfc.starts (t := .COMMA) (by simp)
    obtain ⟨lx, s6, r6, h6, t6, st6, j6⟩ := RT.scanIW_starts_just s5 _ T st5 hT
    rw [wp_of_run_ok h6, wp_bind, unscan_wp, wp_pure]
    refine ⟨rfl, lx, s6, r6, rfl, j6, by rw [t6]; exact hT.1.1, st6, ?_, ?_⟩
    · intro more e
      exfalso
      subst e
      have hstc : RT.Starts (',' :: more) .COMMA := by
        have := starts_piece [] [','] more .COMMA [] Gap.none (scansAs_comma more)
        simpa using this
      exact hne (starts_unique hT hstc)
    · intro _; rw [t6]; exact hne

/-- The loop of `parseFields` on the printed fields (wide class). -/
theorem fieldsLoop_printW (tbl : List (Char × Char)) (fuel : Nat) (fields : List Field) :
    ∀ (it : Nat) (acc : List Field) (s : PState) (f : Field) (k : Str), fields.length < it → s.lowerTbl = tbl →
    (∀ g ∈ f :: fields, FieldOKW tbl g) → Follow k [.AS, .COMMA] →
    s.Before (' ' :: (f.print ++ (moreFields fields ++ k))) →
    wp (fieldsLoop fuel it acc) s (fun r s' => r = acc ++ f :: fields ∧ RT.Stand s' k) (· = .fuel) := by
  induction fields with
  | nil =>
    intro it acc s f k hit htb hok hk hs
    obtain ⟨it', rfl⟩ : ∃ it', it = it' + 1 := ⟨it - 1, by simp at hit; omega⟩
    rw [fieldsLoop, wp_bind]
    refine wp_mono (parseField_printW fuel s f k (by rw [htb]; exact hok f (by simp)) (Or.inr hk)
      (by simpa [moreFields] using hs)) ?_ (fun _ h => h)
    intro f' s' ⟨hf', lx, s1, r1, hs', j1, hnb, st, _, hnc⟩
    subst hs'
    have hnotc : ∀ more, k ≠ ',' :: more := by
      intro more e
      subst e
      obtain ⟨T, hT, hne⟩ := hk.starts (t := .COMMA) (by simp)
      have hstc : RT.Starts (',' :: more) .COMMA := by
        have := starts_piece [] [','] more .COMMA [] Gap.none (scansAs_comma more)
        simpa using this
      exact hne (starts_unique hT hstc)
    rw [wp_bind, wp_of_run_ok (RT.pscan_redeliver s1 lx r1 j1 hnb), wp_ite, if_pos (hnc hnotc), wp_bind, unscan_wp,
      wp_pure]
    exact ⟨by rw [hf'], st⟩
  | cons g fields ih =>
    intro it acc s f k hit htb hok hk hs
    obtain ⟨it', rfl⟩ : ∃ it', it = it' + 1 := ⟨it - 1, by simp at hit; omega⟩
    rw [fieldsLoop, wp_bind]
    refine wp_mono (wp_frame (parseField_frame fuel) (parseField_printW fuel s f
      (',' :: ' ' :: (g.print ++ (moreFields fields ++ k))) (by rw [htb]; exact hok f (by simp))
      (Or.inl ⟨_, rfl⟩) (by simpa [moreFields, List.append_assoc] using hs))) ?_ (fun _ h => h)
    intro f' s' ⟨⟨hf', lx, s1, r1, hs', j1, hnb, _, hc, _⟩, hsm⟩
    subst hs'
    obtain ⟨tc, b1⟩ := hc _ rfl
    have : ¬ lx.tok ≠ .COMMA := by rw [tc]; simp
    have htb1 : s1.lowerTbl = tbl := by
      have : (unsc s1).lowerTbl = s.lowerTbl := hsm.2
      exact this.trans htb
    rw [wp_bind, wp_of_run_ok (RT.pscan_redeliver s1 lx r1 j1 hnb), wp_ite, if_neg this, hf']
    refine wp_mono (ih it' (acc ++ [f]) s1 g k (by simp at hit ⊢; omega) htb1
      (fun x hx => hok x (by simp at hx ⊢; exact Or.inr hx)) hk b1) ?_ (fun _ h => h)
    intro r s2 ⟨hr, st⟩
    exact ⟨by rw [hr]; simp, st⟩

/-- **`parseFields`** on a blank and the printed field list (wide class). -/
theorem parseFields_printW (fuel : Nat) (s : PState) (f : Field) (fields : List Field) (k : Str)
    (hok : ∀ g ∈ f :: fields, FieldOKW s.lowerTbl g) (hk : Follow k [.AS, .COMMA])
    (hs : s.Before (' ' :: (f.print ++ (moreFields fields ++ k)))) :
    wp (parseFields fuel) s (fun r s' => r = f :: fields ∧ RT.Stand s' k) (· = .fuel) := by
  have hch : s.r.chars = ' ' :: (f.print ++ (moreFields fields ++ k)) := hs.2.chars_of_cons (by decide)
  have hlen : fields.length < s.n + s.r.rest.length + 2 := by
    have h1 := length_moreFields fields
    have h2 : s.r.rest.length = (' ' :: (f.print ++ (moreFields fields ++ k))).length := by
      rw [← hch]; simp [Cursor.chars]
    rw [h2]
    simp only [List.length_cons, List.length_append]
    omega
  have hf : loopFuel.run s = .ok (s.n + s.r.rest.length + 2, s) := rfl
  unfold parseFields
  rw [wp_bind, wp_of_run_ok hf]
  refine wp_mono (fieldsLoop_printW s.lowerTbl fuel fields _ [] s f k hlen rfl hok hk hs) ?_ (fun _ h => h)
  intro r s' ⟨hr, st⟩
  exact ⟨by simpa using hr, st⟩

/-- The loop of `parseDimensions` on printed dimensions of the wide class: tags, `time(5m)`, `time(5m, 1m)`, `*`. -/
theorem dimLoop_printW (tbl : List (Char × Char)) (F : Nat) (ds : List Expr) :
    ∀ (it : Nat) (acc : List Expr) (s : PState) (d : Expr) (k : Str),
    ds.length < it → s.lowerTbl = tbl → (∀ x ∈ d :: ds, RT.wOK tbl x = true) → Follow k [.COMMA] → s.n = 0 →
    s.r.chars = ' ' :: (d.print ++ (moreDims ds ++ k)) →
    wp (dimLoop F it acc) s (fun r s' => r = acc ++ d :: ds ∧ RT.Stand s' k) (· = .fuel) := by
  induction ds with
  | nil =>
    intro it acc s d k hit htb hok hk hn hch
    obtain ⟨it', rfl⟩ : ∃ it', it = it' + 1 := ⟨it - 1, by simp at hit; omega⟩
    have hd := hok d (by simp)
    have hch' : s.r.chars = ' ' :: (d.print ++ k) := by simpa [moreDims] using hch
    obtain ⟨hnrs, _⟩ := RT.exprW_start d hd k hk.1
    obtain ⟨s2, hr2, hn2, hch2, hsm2⟩ := RT.parseRegex_none s _ hn hnrs (Or.inr hch')
    rw [dimLoop, wp_bind]
    unfold parseDimension
    rw [wp_bind, wp_of_run_ok hr2]
    dsimp only
    rw [wp_bind]
    refine wp_mono ((RT.w_specs tbl F).1 s2 d k (hsm2.2.trans htb) hd hk.exprEnd
      ⟨s2.r, Or.inl ⟨hn2, rfl⟩, Or.inl hch2⟩) ?_ (fun _ h => h)
    intro e' s3 ⟨he', st3, _⟩
    subst he'
    obtain ⟨s4, r4, h4, l4, t4, b4, hst⟩ := dim_end s3 k st3 hk
    obtain ⟨s5, h5, j5, _⟩ := RT.pscan_look s4 r4 l4 b4
    rw [wp_bind, wp_of_run_ok h4, wp_pure, wp_bind, wp_of_run_ok h5, wp_ite, if_pos t4, wp_bind, unscan_wp, wp_pure]
    exact ⟨rfl, hst s5 j5⟩
  | cons g ds ih =>
    intro it acc s d k hit htb hok hk hn hch
    obtain ⟨it', rfl⟩ : ∃ it', it = it' + 1 := ⟨it - 1, by simp at hit; omega⟩
    have hd := hok d (by simp)
    have hch' : s.r.chars = ' ' :: (d.print ++ (',' :: ' ' :: (g.print ++ (moreDims ds ++ k)))) := by
      simpa [moreDims, List.append_assoc] using hch
    have hsep : RT.SepC (',' :: ' ' :: (g.print ++ (moreDims ds ++ k))) := Or.inr ⟨_, Or.inr rfl⟩
    obtain ⟨hnrs, _⟩ := RT.exprW_start d hd _ (Or.inl (Or.inl hsep))
    obtain ⟨s2, hr2, hn2, hch2, hsm2⟩ := RT.parseRegex_none s _ hn hnrs (Or.inr hch')
    rw [dimLoop, wp_bind]
    unfold parseDimension
    rw [wp_bind, wp_of_run_ok hr2]
    dsimp only
    rw [wp_bind]
    refine wp_mono ((RT.w_specs tbl F).1 s2 d _ (hsm2.2.trans htb) hd (RT.ExprEnd.of_sepC hsep)
      ⟨s2.r, Or.inl ⟨hn2, rfl⟩, Or.inl hch2⟩) ?_ (fun _ h => h)
    intro e' s3 ⟨he', st3, hsm3⟩
    subst he'
    obtain ⟨s4, r4, h4, l4, t4, c4⟩ := dim_comma s3 _ st3
    obtain ⟨s5, h5, j5, hsm5⟩ := RT.pscan_look s4 r4 l4 (by rw [t4]; decide)
    have htb5 : s5.lowerTbl = tbl :=
      ((((hsm2.trans hsm3).trans (consumeWhitespace_frame.run h4)).trans hsm5).2).trans htb
    rw [wp_bind, wp_of_run_ok h4, wp_pure, wp_bind, wp_of_run_ok h5, wp_ite, if_neg (by rw [t4]; simp)]
    refine wp_mono (ih it' (acc ++ [e']) s5 g k (by simp at hit ⊢; omega) htb5
      (fun x hx => hok x (by simp at hx ⊢; exact Or.inr hx)) hk j5.1 (by rw [j5.2.2]; exact c4)) ?_ (fun _ h => h)
    intro r s6 ⟨hr, st⟩
    exact ⟨by rw [hr]; simp, st⟩

/-- **GROUP BY** on its printed form, dimensions of the wide class; absent, nothing is consumed. -/
theorem parseDimensions_printW (F : Nat) (s : PState) (ds : List Expr) (k : Str)
    (hok : ∀ x ∈ ds, RT.wOK s.lowerTbl x = true) (hk : Follow k [.GROUP, .COMMA])
    (hs : RT.Stand s (groupText ds ++ k)) :
    wp (parseDimensions F) s (fun r s' => r = ds ∧ RT.Stand s' k) (· = .fuel) := by
  cases ds with
  | nil =>
    obtain ⟨s', h, st⟩ := parseDimensions_absent F s k (hk.mono (by decide)) (by simpa [groupText] using hs)
    rw [wp_of_run_ok h]
    exact ⟨rfl, st⟩
  | cons d ds =>
    have hs' : RT.Stand s ([' '] ++ (Token.GROUP.str ++ (' ' :: (Token.BY.str ++ ' ' :: (d.print ++ (moreDims ds ++ k)))))) := by
      simpa [groupText, List.append_assoc] using hs
    obtain ⟨lx1, s1, h1, t1, _, b1⟩ := scanIW_stand s [' '] Token.GROUP.str _ .GROUP [] Gap.blank hs'
      (scansAs_kw .GROUP _ (by decide +kernel) (WordEnd.blank _))
    obtain ⟨s2, h2, b2⟩ := expectTok_piece s1 [' '] Token.BY.str _ .BY [] ["BY"] Gap.blank b1.around
      (scansAs_kw .BY _ (by decide +kernel) (WordEnd.blank _))
    have htb2 : s2.lowerTbl = s.lowerTbl := ((scanIW_frame.run h1).trans ((expectTok_frame _ _).run h2)).2
    have hch : s2.r.chars = ' ' :: (d.print ++ (moreDims ds ++ k)) := b2.2.chars_of_cons (by decide)
    have hlen : ds.length < s2.n + s2.r.rest.length + 2 := by
      have h1 := length_moreDims ds
      have h2 : s2.r.rest.length = (' ' :: (d.print ++ (moreDims ds ++ k))).length := by
        rw [← hch]; simp [Cursor.chars]
      rw [h2]
      simp only [List.length_cons, List.length_append]
      omega
    have hf : loopFuel.run s2 = .ok (s2.n + s2.r.rest.length + 2, s2) := rfl
    unfold parseDimensions
    rw [wp_bind, wp_of_run_ok h1, wp_ite, if_neg (by rw [t1]; simp), wp_bind, wp_of_run_ok h2, wp_bind, wp_of_run_ok hf]
    refine wp_mono (dimLoop_printW s.lowerTbl F ds _ [] s2 d k hlen htb2 hok (hk.mono (by decide)) b2.1 hch) ?_
      (fun _ h => h)
    intro r s' ⟨hr, st⟩
    exact ⟨by simpa using hr, st⟩

/-- A present `fill(…)` clause follows, if identifiers are allowed there. -/
theorem follow_fill (fill : FillOption) (fv : FillValue) (k : Str) (stop : List Token) (hk : Follow k stop)
    (hn : Token.IDENT ∉ stop) : Follow (fillText fill fv ++ k) stop := by
  cases hfa : fillArg fill fv with
  | none =>
    have : fillText fill fv = [] := by unfold fillText; rw [hfa]
    rw [this]; exact hk
  | some a =>
    rw [fillText_some hfa]
    have e : ' ' :: (fillName ++ '(' :: (a.print ++ [')'])) ++ k = ' ' :: (fillName ++ ('(' :: (a.print ++ ')' :: k))) := by
      simp
    rw [e]
    exact Follow.piece fillName _ .IDENT _ stop (scansAs_word fillName _ wordName_fill (wordEnd_lparen _)) rfl hn

/-- **`fill(…)`** on its printed form; absent, nothing is consumed. -/
theorem parseFill_printW (F : Nat) (s : PState) (fill : FillOption) (fv : FillValue) (k : Str)
    (hok : fillOKW s.lowerTbl fill fv = true) (hk : RT.ExprEnd k) (ha : Ahead k NotFill)
    (hs : RT.Stand s (fillText fill fv ++ k)) :
    wp (parseFill F) s (fun r s' => r = (fill, fv) ∧ RT.Stand s' k) (· = .fuel) := by
  cases hfa : fillArg fill fv with
  | none =>
    have ht : fillText fill fv = [] := by unfold fillText; rw [hfa]
    have hv : fill = .null ∧ fv = .none := by
      unfold fillOKW at hok
      rw [hfa] at hok
      simpa using hok
    rw [ht] at hs
    obtain ⟨s', h, st⟩ := parseFill_absent' F s k ha (by simpa using hs)
    rw [wp_of_run_ok h, hv.1, hv.2]
    exact ⟨rfl, st⟩
  | some a =>
    have hw : RT.wOK s.lowerTbl (.call fillName [a]) = true := by
      unfold fillOKW at hok
      rw [hfa] at hok
      exact hok
    have hlow : lowerStr s.lowerTbl fillName = fillName := by
      rw [RT.wOK] at hw
      simp only [Bool.and_eq_true] at hw
      exact (RT.callNameW_facts hw.1).1
    rw [fillText_some hfa] at hs
    have hs' : RT.Stand s (' ' :: (fillName ++ ('(' :: (a.print ++ ')' :: k)))) := by simpa using hs
    obtain ⟨lx, s1, h1, ⟨ht, hl⟩, st1⟩ := Ahead.piece fillName _ .IDENT _
      (scansAs_word fillName ('(' :: (a.print ++ ')' :: k)) wordName_fill (wordEnd_lparen _)) s hs'
    have htb : (unsc s1).lowerTbl = s.lowerTbl := ((scanIW_frame.run h1).trans (RT.unsc_same s1)).2
    have hc : ¬ (lx.tok ≠ .IDENT ∨ lowerStr (unsc s1).lowerTbl lx.lit ≠ "fill".toList) := by
      rw [ht, hl, htb, hlow]; simp [fillName]
    have hat : RT.AtW (unsc s1) ((Expr.call fillName [a]).print ++ k) := by
      have := st1.atW ⟨'f', _, rfl, by decide, by decide⟩
      simpa [RT.print_call, printArgs, joinWith, fillName] using this
    unfold parseFill
    rw [wp_bind, wp_of_run_ok h1, wp_bind, unscan_wp, wp_bind, wp_get, wp_ite, if_neg hc, wp_bind]
    refine wp_mono ((RT.w_specs s.lowerTbl F).1 (unsc s1) (.call fillName [a]) k htb hw hk hat) ?_ (fun _ h => h)
    intro e' s2 ⟨he', st2, _⟩
    subst he'
    dsimp only
    cases fill <;> cases fv <;> simp only [fillArg, Option.some.injEq, reduceCtorEq] at hfa <;> subst hfa
    · rw [wp_ite, if_neg (by decide +kernel), wp_ite, if_pos (by decide +kernel), wp_pure]
      exact ⟨rfl, st2⟩
    · have e : ∀ w : Str, w ≠ [] → ¬ ([] : Str) = w := fun w hw h => hw h.symm
      rw [wp_ite, if_neg (e _ (by decide)), wp_ite, if_neg (e _ (by decide)), wp_ite, if_neg (e _ (by decide)), wp_ite,
        if_neg (e _ (by decide)), wp_pure]
      exact ⟨rfl, st2⟩
    · have e : ∀ w : Str, w ≠ [] → ¬ ([] : Str) = w := fun w hw h => hw h.symm
      rw [wp_ite, if_neg (e _ (by decide)), wp_ite, if_neg (e _ (by decide)), wp_ite, if_neg (e _ (by decide)), wp_ite,
        if_neg (e _ (by decide)), wp_pure]
      exact ⟨rfl, st2⟩
    · rw [wp_ite, if_neg (by decide +kernel), wp_ite, if_neg (by decide +kernel), wp_ite, if_pos (by decide +kernel),
        wp_pure]
      exact ⟨rfl, st2⟩
    · rw [wp_ite, if_neg (by decide +kernel), wp_ite, if_neg (by decide +kernel), wp_ite, if_neg (by decide +kernel),
        wp_ite, if_pos (by decide +kernel), wp_pure]
      exact ⟨rfl, st2⟩

/-- **`parseSelectStatement` on the printed clauses**, given what `parseSources` does on the printed sources. -/
theorem selectBody_printW (F : Nat) (sub : Option (P SelectStmt)) (hsub : SubFrame sub) (s : PState)
    (f : Field) (fs : List Field) (tgt : Option (Str × Str × Str)) (srcs : List Source) (srcText : Str)
    (c : Option Expr) (ds : List Expr) (fill : FillOption) (fv : FillValue) (sf : List SortField)
    (l o sl so : Int) (loc : Option Str) (k : Str) (tr : Bool) (htr : tr = true → tgt ≠ none)
    (hok : BodyOKW s.lowerTbl f fs tgt c ds fill fv sf l o sl so loc)
    (hsrc : ∀ (s3 : PState) (k' : Str), s3.lowerTbl = s.lowerTbl → Follow k' [.COMMA] →
      s3.Before (' ' :: (srcText ++ k')) →
      wp (parseSourcesWith sub) s3 (fun r s' => r = srcs ∧ RT.Stand s' k') (· = .fuel))
    (hk : Follow k bodyStop)
    (hs : s.Before (bodyText f fs tgt srcText c ds fill fv sf l o sl so loc ++ k)) :
    wp (parseSelectBody (F + 3) sub tr) s
      (fun st s' => st = wideSelect f fs tgt srcs c ds fill fv sf l o sl so loc ∧ RT.Stand s' k) (· = .fuel) := by
  obtain ⟨hf, ht, hc, hds, hfill, hsf, hl, ho, hsl, hso, hloc⟩ := hok
  have hloc' : ∀ n, loc = some n → plainNameB n = true := by
    intro n e; subst e; exact hloc
  have g9 : Follow (tzText loc ++ k) [.AS, .COMMA, .INTO, .FROM, .WHERE, .GROUP, .ORDER, .LIMIT, .OFFSET, .SLIMIT, .SOFFSET] :=
    follow_tz loc k _ (hk.mono (by decide)) (by decide)
  have a9 : Ahead (tzText loc ++ k) NotFill := ahead_tz loc k (hk.mono (by decide))
  have g7 : Follow (posText .SOFFSET so ++ (tzText loc ++ k)) [.AS, .COMMA, .INTO, .FROM, .WHERE, .GROUP, .ORDER, .LIMIT, .OFFSET, .SLIMIT] :=
    Follow.opt (kwText_pos _ _) (by decide +kernel) rfl (by decide) (g9.mono (by decide))
  have g6 : Follow (posText .SLIMIT sl ++ (posText .SOFFSET so ++ (tzText loc ++ k)))
      [.AS, .COMMA, .INTO, .FROM, .WHERE, .GROUP, .ORDER, .LIMIT, .OFFSET] :=
    Follow.opt (kwText_pos _ _) (by decide +kernel) rfl (by decide) (g7.mono (by decide))
  have g5 : Follow (posText .OFFSET o ++ (posText .SLIMIT sl ++ (posText .SOFFSET so ++ (tzText loc ++ k))))
      [.AS, .COMMA, .INTO, .FROM, .WHERE, .GROUP, .ORDER, .LIMIT] :=
    Follow.opt (kwText_pos _ _) (by decide +kernel) rfl (by decide) (g6.mono (by decide))
  have g4 : Follow (posText .LIMIT l ++ (posText .OFFSET o ++ (posText .SLIMIT sl ++ (posText .SOFFSET so ++ (tzText loc ++ k)))))
      [.AS, .COMMA, .INTO, .FROM, .WHERE, .GROUP, .ORDER] :=
    Follow.opt (kwText_pos _ _) (by decide +kernel) rfl (by decide) (g5.mono (by decide))
  have g4o : Follow (orderText sf ++ (posText .LIMIT l ++ (posText .OFFSET o ++ (posText .SLIMIT sl ++
      (posText .SOFFSET so ++ (tzText loc ++ k)))))) [.AS, .COMMA, .INTO, .FROM, .WHERE, .GROUP] :=
    Follow.opt (kwText_order _) (by decide +kernel) rfl (by decide) (g4.mono (by decide))
  have g4f : Follow (fillText fill fv ++ (orderText sf ++ (posText .LIMIT l ++ (posText .OFFSET o ++ (posText .SLIMIT sl ++
      (posText .SOFFSET so ++ (tzText loc ++ k))))))) [.AS, .COMMA, .INTO, .FROM, .WHERE, .GROUP] :=
    follow_fill fill fv _ _ g4o (by decide)
  have g4g : Follow (groupText ds ++ (fillText fill fv ++ (orderText sf ++ (posText .LIMIT l ++ (posText .OFFSET o ++
      (posText .SLIMIT sl ++ (posText .SOFFSET so ++ (tzText loc ++ k)))))))) [.AS, .COMMA, .INTO, .FROM, .WHERE] :=
    Follow.opt (kwText_group _) (by decide +kernel) rfl (by decide) (g4f.mono (by decide))
  have g3 : Follow (whereText c ++ (groupText ds ++ (fillText fill fv ++ (orderText sf ++ (posText .LIMIT l ++
      (posText .OFFSET o ++ (posText .SLIMIT sl ++ (posText .SOFFSET so ++ (tzText loc ++ k))))))))) [.AS, .COMMA, .INTO, .FROM] :=
    Follow.opt (kwText_where _) (by decide +kernel) rfl (by decide) (g4g.mono (by decide))
  have g2 : Follow (fromSrcText srcText ++ (whereText c ++ (groupText ds ++ (fillText fill fv ++ (orderText sf ++
      (posText .LIMIT l ++ (posText .OFFSET o ++ (posText .SLIMIT sl ++ (posText .SOFFSET so ++ (tzText loc ++ k))))))))))
      [.AS, .COMMA, .INTO] :=
    Follow.opt (kwText_fromSrc _) (by decide +kernel) rfl (by decide) (g3.mono (by decide))
  have g1 : Follow (targetText tgt ++ (fromSrcText srcText ++ (whereText c ++ (groupText ds ++ (fillText fill fv ++
      (orderText sf ++ (posText .LIMIT l ++ (posText .OFFSET o ++ (posText .SLIMIT sl ++ (posText .SOFFSET so ++
      (tzText loc ++ k))))))))))) [.AS, .COMMA] :=
    Follow.opt (kwText_target _) (by decide +kernel) rfl (by decide) (g2.mono (by decide))
  -- what follows fill(): its head is not the word `fill`
  have a4 : Ahead (orderText sf ++ (posText .LIMIT l ++ (posText .OFFSET o ++ (posText .SLIMIT sl ++
      (posText .SOFFSET so ++ (tzText loc ++ k)))))) NotFill :=
    Ahead.opt (kwText_order _) (by decide +kernel) (Or.inl (by decide))
      (Ahead.opt (kwText_pos _ _) (by decide +kernel) (Or.inl (by decide))
        (Ahead.opt (kwText_pos _ _) (by decide +kernel) (Or.inl (by decide))
          (Ahead.opt (kwText_pos _ _) (by decide +kernel) (Or.inl (by decide))
            (Ahead.opt (kwText_pos _ _) (by decide +kernel) (Or.inl (by decide)) a9))))
  have hs0 : s.Before (' ' :: (f.print ++ (moreFields fs ++ (targetText tgt ++ (fromSrcText srcText ++ (whereText c ++
      (groupText ds ++ (fillText fill fv ++ (orderText sf ++ (posText .LIMIT l ++ (posText .OFFSET o ++
      (posText .SLIMIT sl ++ (posText .SOFFSET so ++ (tzText loc ++ k)))))))))))))) := by
    simpa [bodyText, List.append_assoc] using hs
  simp only [parseSelectBody]
  rw [wp_bind]
  refine wp_mono (wp_frame (parseFields_frame _) (parseFields_printW (F + 3) s f fs _ hf g1 hs0)) ?_ (fun _ h => h)
  intro flds s1 ⟨⟨hflds, st1⟩, sm1⟩
  subst hflds
  have hT : ∃ s2 lx3 s3, (parseTarget tr).run s1 = .ok (tgt.map tgtM, s2) ∧ scanIW.run s2 = .ok (lx3, s3) ∧
      lx3.tok = .FROM ∧ s3.Before (' ' :: (srcText ++ (whereText c ++
      (groupText ds ++ (fillText fill fv ++ (orderText sf ++ (posText .LIMIT l ++ (posText .OFFSET o ++ (posText .SLIMIT sl ++
      (posText .SOFFSET so ++ (tzText loc ++ k))))))))))) := by
    cases tr with
    | false =>
      exact parseTarget_stand s1 tgt _ ht
        (by simpa [fromSrcText, List.append_assoc] using g2.mono (by decide))
        (by simpa [fromSrcText, List.append_assoc] using st1)
    | true =>
      cases tgt with
      | none => exact absurd rfl (htr rfl)
      | some q =>
        exact parseTarget_some true s1 q _ (ht q rfl) (by simpa [fromSrcText, List.append_assoc] using st1)
  obtain ⟨s2, lx3, s3, h2, h3, t3, b3⟩ := hT
  have h3' : (expectTok .FROM ["FROM"]).run s2 = .ok ((), s3) := by
    unfold expectTok
    rw [P.run_bind _ _ _ _ _ h3]
    simp [t3, StateT.run, pure, StateT.pure, Except.pure]
  have sm3 : RT.Same s s3 := (sm1.trans ((parseTarget_frame tr).run h2)).trans (scanIW_frame.run h3)
  rw [wp_bind, wp_of_run_ok h2, wp_bind, wp_of_run_ok h3', wp_bind]
  refine wp_mono (wp_frame (parseSourcesWith_frame sub hsub) (hsrc s3 _ sm3.2 (g3.mono (by decide)) b3)) ?_
    (fun _ h => h)
  intro srcs' s4 ⟨⟨hsrcs', st4⟩, sm4⟩
  subst hsrcs'
  have tb4 : s4.lowerTbl = s.lowerTbl := (sm3.trans sm4).2
  rw [wp_bind]
  refine wp_mono (parseCondition_printW (F + 3) s4 c _ (by rw [tb4]; exact hc) (g4g.mono (by decide)) st4) ?_
    (fun _ h => h)
  intro c' s5 ⟨hc', st5, sm5⟩
  subst hc'
  have tb5 : s5.lowerTbl = s.lowerTbl := sm5.2.trans tb4
  rw [wp_bind]
  refine wp_mono (wp_frame (parseDimensions_frame _) (parseDimensions_printW (F + 3) s5 ds _ (by rw [tb5]; exact hds)
    (g4f.mono (by decide)) st5)) ?_ (fun _ h => h)
  intro ds' s6 ⟨⟨hds', st6⟩, sm6⟩
  subst hds'
  have tb6 : s6.lowerTbl = s.lowerTbl := sm6.2.trans tb5
  rw [wp_bind]
  refine wp_mono (parseFill_printW (F + 3) s6 fill fv _ (by rw [tb6]; exact hfill) g4o.exprEnd a4 st6) ?_ (fun _ h => h)
  intro fl s7 ⟨hfl, st7⟩
  subst hfl
  obtain ⟨s8, h8, st8⟩ := parseOrderBy_print s7 sf _ hsf (g4.mono (by decide)) st7
  obtain ⟨s9, h9, st9⟩ := parseOptTokInt_print .LIMIT (by decide +kernel) s8 l _ hl.1 hl.2 (g5.mono (by decide)) st8
  obtain ⟨s10, h10, st10⟩ := parseOptTokInt_print .OFFSET (by decide +kernel) s9 o _ ho.1 ho.2 (g6.mono (by decide)) st9
  obtain ⟨s11, h11, st11⟩ := parseOptTokInt_print .SLIMIT (by decide +kernel) s10 sl _ hsl.1 hsl.2 (g7.mono (by decide)) st10
  obtain ⟨s12, h12, st12⟩ := parseOptTokInt_print .SOFFSET (by decide +kernel) s11 so _ hso.1 hso.2 (g9.mono (by decide)) st11
  simp only []
  rw [wp_bind, wp_of_run_ok h8, wp_bind, wp_of_run_ok h9, wp_bind, wp_of_run_ok h10, wp_bind, wp_of_run_ok h11,
    wp_bind, wp_of_run_ok h12, wp_bind]
  refine wp_mono (parseLocation_print F s12 loc k hloc' (hk.mono (by decide)) st12) ?_ (fun _ h => h)
  intro loc' s13 ⟨hl', st13⟩
  subst hl'
  rw [wp_pure]
  exact ⟨rfl, st13⟩

/-- **One source**: a qualified measurement or `(SELECT …)`. -/
theorem parseSource_mixed (tbl : List (Char × Char)) (parseSub : P SelectStmt) (s : PState) (x : Source) (rest : Str)
    (hx : SrcOK tbl parseSub x) (htb : s.lowerTbl = tbl) (hrest : RT.SepU rest)
    (hs : s.Before (' ' :: (x.print ++ rest))) :
    wp (parseSourceWith (some parseSub)) s
      (fun r s' => r = x ∧ ∃ s0, s0.Before rest ∧ scanIW.run s' = scanIW.run s0) (· = .fuel) := by
  rcases hx with ⟨q, rfl, hq⟩ | ⟨st, y, rfl, hpr, hst⟩
  · obtain ⟨s', s0, h, hb, he⟩ := parseSource_qual (some parseSub) s q rest hq hrest hs
    rw [wp_of_run_ok h]
    exact ⟨rfl, s0, hb, he⟩
  · have hp : (Source.subquery st).print ++ rest = '(' :: (Token.SELECT.str ++ (selectTail st ++ ')' :: rest)) := by
      show ['('] ++ st.print ++ [')'] ++ rest = _
      rw [selectTail_of_print hpr, hpr, tx_select]
      simp
    rw [hp] at hs
    have hch : s.r.chars = ' ' :: ('(' :: (Token.SELECT.str ++ (selectTail st ++ ')' :: rest))) :=
      hs.2.chars_of_cons (by decide)
    obtain ⟨s2, hr2, hn2, hch2, hsm2⟩ := RT.parseRegex_none s _ hs.1 (RT.nrs_of '(' _ (by decide)) (Or.inr hch)
    have b2 : s2.Before ([] ++ (['('] ++ (Token.SELECT.str ++ (selectTail st ++ ')' :: rest)))) := ⟨hn2, Or.inl hch2⟩
    obtain ⟨lx, s3, h3, t3, _, b3⟩ := scanIW_piece0 s2 [] ['('] _ .LPAREN [] Gap.none b2 (scansAs_lparen _)
    have hy : selectTail st = ' ' :: y := selectTail_of_print hpr
    have hwe : WordEnd (selectTail st ++ ')' :: rest) := by rw [hy]; exact WordEnd.blank _
    obtain ⟨s4, h4, b4⟩ := parseTokens_cons_piece s3 [] Token.SELECT.str (selectTail st ++ ')' :: rest) .SELECT [] []
      Gap.none (by simpa using b3.around) (scansAs_kw .SELECT _ (by decide +kernel) hwe)
    have h4' : (parseTokens [.SELECT]).run s3 = .ok ((), s4) := h4.trans (parseTokens_nil_run s4)
    have htb4 : s4.lowerTbl = tbl :=
      (((hsm2.trans (scanIW_frame.run h3)).trans ((parseTokens_frame _).run h4')).2).trans htb
    unfold parseSourceWith
    rw [wp_bind, wp_of_run_ok hr2]
    dsimp only
    rw [wp_bind, wp_of_run_ok h3, wp_ite, if_pos t3, wp_bind, wp_of_run_ok h4', wp_bind]
    refine wp_mono (hst s4 (')' :: rest) htb4 (Follow.rparen rest _ (by decide)) b4) ?_ (fun _ h => h)
    intro r s5 ⟨hr, st5⟩
    subst hr
    obtain ⟨lx6, s6, h6, t6, _, b6⟩ := scanIW_stand s5 [] [')'] rest .RPAREN [] Gap.none (by simpa using st5)
      (scansAs_rparen rest)
    have h6' : (parseTokens [.RPAREN]).run s5 = .ok ((), s6) := by
      rw [parseTokens, P.run_bind _ _ _ _ _ h6]
      simp [t6]
      rfl
    rw [wp_bind, wp_of_run_ok h6', wp_bind, wp_pure]
    dsimp only
    rw [wp_pure]
    exact ⟨rfl, s6, b6, rfl⟩

/-- The loop of `parseSources` on a printed list of measurements and subqueries. -/
theorem sourcesLoop_mixed (tbl : List (Char × Char)) (parseSub : P SelectStmt) (hF : Frame parseSub) (xs : List Source) :
    ∀ (it : Nat) (acc : List Source) (s : PState) (x : Source) (k : Str),
    xs.length < it → s.lowerTbl = tbl → (∀ y ∈ x :: xs, SrcOK tbl parseSub y) → Follow k [.COMMA] →
    s.Before (' ' :: (x.print ++ (moreSrcs xs ++ k))) →
    wp (sourcesLoop (some parseSub) it acc) s (fun r s' => r = acc ++ x :: xs ∧ RT.Stand s' k) (· = .fuel) := by
  have hsubF : SubFrame (some parseSub) := fun p hp => by cases hp; exact hF
  induction xs with
  | nil =>
    intro it acc s x k hit htb hok hk hs
    obtain ⟨it', rfl⟩ : ∃ it', it = it' + 1 := ⟨it - 1, by simp at hit; omega⟩
    rw [sourcesLoop, wp_bind]
    refine wp_mono (parseSource_mixed tbl parseSub s x k (hok x (by simp)) htb hk.1 (by simpa [moreSrcs] using hs)) ?_
      (fun _ h => h)
    intro r s1 ⟨hr, s0, hb0, he⟩
    subst hr
    obtain ⟨T, hT, hne⟩ := hk.starts (t := .COMMA) (by simp)
    obtain ⟨lx, s2, h2, t2, st2, _⟩ := RT.scanIW_starts s0 k T hb0.stand hT
    have : lx.tok ≠ .COMMA := by rw [t2]; exact hne
    rw [wp_bind, wp_of_run_ok (he.trans h2), wp_ite, if_pos this, wp_bind, unscan_wp, wp_pure]
    exact ⟨rfl, st2⟩
  | cons m xs ih =>
    intro it acc s x k hit htb hok hk hs
    obtain ⟨it', rfl⟩ : ∃ it', it = it' + 1 := ⟨it - 1, by simp at hit; omega⟩
    have hrest : RT.SepU (',' :: ' ' :: (m.print ++ (moreSrcs xs ++ k))) := Or.inl (Or.inl (Or.inr ⟨_, Or.inr rfl⟩))
    rw [sourcesLoop, wp_bind]
    refine wp_mono (wp_frame (parseSourceWith_frame _ hsubF) (parseSource_mixed tbl parseSub s x _ (hok x (by simp)) htb
      hrest (by simpa [moreSrcs, List.append_assoc] using hs))) ?_ (fun _ h => h)
    intro r s1 ⟨⟨hr, s0, hb0, he⟩, sm1⟩
    subst hr
    obtain ⟨lx, s2, h2, t2, _, b2⟩ := scanIW_piece0 s0 [] [','] (' ' :: (m.print ++ (moreSrcs xs ++ k))) .COMMA []
      Gap.none (by simpa using hb0) (scansAs_comma _)
    have htb2 : s2.lowerTbl = tbl := ((sm1.trans (scanIW_frame.run (he.trans h2))).2).trans htb
    have : ¬ lx.tok ≠ .COMMA := by rw [t2]; simp
    rw [wp_bind, wp_of_run_ok (he.trans h2), wp_ite, if_neg this]
    refine wp_mono (ih it' (acc ++ [r]) s2 m k (by simp at hit ⊢; omega) htb2
      (fun y hy => hok y (by simp at hy ⊢; exact Or.inr hy)) hk b2) ?_ (fun _ h => h)
    intro r' s3 ⟨hr', st3⟩
    exact ⟨by rw [hr']; simp, st3⟩

/-- **`parseSources`** on a blank and the printed list of measurements and subqueries. -/
theorem parseSourcesWith_mixed (tbl : List (Char × Char)) (parseSub : P SelectStmt) (hF : Frame parseSub) (s : PState)
    (x : Source) (xs : List Source) (k : Str) (htb : s.lowerTbl = tbl) (hok : ∀ y ∈ x :: xs, SrcOK tbl parseSub y)
    (hk : Follow k [.COMMA]) (hs : s.Before (' ' :: (printSources (x :: xs) ++ k))) :
    wp (parseSourcesWith (some parseSub)) s (fun r s' => r = x :: xs ∧ RT.Stand s' k) (· = .fuel) := by
  rw [printSources_cons, List.append_assoc] at hs
  have hch : s.r.chars = ' ' :: (x.print ++ (moreSrcs xs ++ k)) := hs.2.chars_of_cons (by decide)
  have hlen : xs.length < s.n + s.r.rest.length + 2 := by
    have h1 := length_moreSrcs xs
    have h2 : s.r.rest.length = (' ' :: (x.print ++ (moreSrcs xs ++ k))).length := by
      rw [← hch]; simp [Cursor.chars]
    rw [h2]
    simp only [List.length_cons, List.length_append]
    omega
  have hf : loopFuel.run s = .ok (s.n + s.r.rest.length + 2, s) := rfl
  unfold parseSourcesWith
  rw [wp_bind, wp_of_run_ok hf]
  refine wp_mono (sourcesLoop_mixed tbl parseSub hF xs _ [] s x k hlen htb hok hk hs) ?_ (fun _ h => h)
  intro r s' ⟨hr, st⟩
  exact ⟨by simpa using hr, st⟩

/-- **`parseSelectStatement` on the printed tail of a statement of the class**, subqueries nested to any depth,
followed by a continuation of the wider class. Below the top level every subquery is followed by `)`: the
original `InfluxQL.parseSelect_sub` is its `SubSpec`. -/
theorem parseSelect_sub (tbl : List (Char × Char)) (n F : Nat) (tr : Bool) (st : SelectStmt) (s : PState) (k : Str)
    (hok : selOKB tbl n st = true) (htr : tr = true → st.target ≠ none) (htb : s.lowerTbl = tbl)
    (hk : Follow k bodyStop) (hs : s.Before (selectTail st ++ k)) :
    wp (parseSelect (F + n + 3) tr) s (fun r s' => r = st ∧ RT.Stand s' k) (· = .fuel) := by
  cases n with
  | zero => simp [selOKB] at hok
  | succ n =>
    obtain ⟨f, fs, tgt, hst, hbody, hne, hsrcs⟩ := selOKB_elim tbl n st hok
    have hF : F + (n + 1) + 3 = (F + n + 3) + 1 := by omega
    have hfill : fillOKW tbl st.fill st.fillValue = true := hbody.2.2.2.2.1
    have hsf : sortOKB st.sortFields = true := hbody.2.2.2.2.2.1
    have htxt : selectTail st = bodyText f fs tgt (printSources st.sources) st.condition st.dimensions st.fill
        st.fillValue st.sortFields st.limit st.offset st.slimit st.soffset st.location := by
      have h2 := wideSelect_print tbl f fs tgt st.sources st.condition st.dimensions st.fill st.fillValue st.sortFields
        st.limit st.offset st.slimit st.soffset st.location hne hsf hfill
      rw [← hst] at h2
      exact selectTail_of_print h2
    rw [htxt] at hs
    subst htb
    rw [hF, parseSelect]
    have hframe : Frame (parseSelect (F + n + 3) false) := parseSelect_frame _ _
    rw [hst]
    refine selectBody_printW (F + n) (some (parseSelect (F + n + 3) false)) (fun p hp => by cases hp; exact hframe) s
      f fs tgt st.sources (printSources st.sources) st.condition st.dimensions st.fill st.fillValue st.sortFields
      st.limit st.offset st.slimit st.soffset st.location k tr ?_ hbody ?_ hk hs
    · intro h1 h2
      apply htr h1
      rw [hst]
      simp [wideSelect, SelectStmt.target, h2]
    intro s3 k' htb3 hk' hb
    obtain ⟨x, xs, hx⟩ : ∃ x xs, st.sources = x :: xs := by
      cases hsx : st.sources with
      | nil => exact absurd hsx hne
      | cons x xs => exact ⟨x, xs, rfl⟩
    rw [hx] at hb hsrcs ⊢
    refine parseSourcesWith_mixed s.lowerTbl _ hframe s3 x xs k' htb3 ?_ hk' hb
    intro y hy
    have hy' := hsrcs y hy
    cases y with
    | measurement m =>
      obtain ⟨e1, e2⟩ := meas_parts m hy'
      exact Or.inl ⟨partsOf m, e1, e2⟩
    | subquery st' =>
      obtain ⟨y', hy'p⟩ := selOKB_print s.lowerTbl n st' hy'
      refine Or.inr ⟨st', y', rfl, hy'p, ?_⟩
      intro s' k'' htb' hk'' hs''
      exact InfluxQL.parseSelect_sub s.lowerTbl n F false st' s' k'' hy' (fun h => by cases h) htb' hk'' hs''

/-- **`parseExplainStatement`** on the printed statement. -/
theorem parseExplain_print (n fuel : Nat) (s : PState) (st : SelectStmt) (analyze verbose : Bool) (k : Str)
    (hok : selOKB s.lowerTbl n st = true) (hk : Follow k bodyStop)
    (hs : s.Before (explainText analyze verbose st ++ k)) :
    wp (parseExplain (fuel + n + 3)) s (fun r s' => r = .explain st analyze verbose ∧ RT.Stand s' k) (· = .fuel) := by
  obtain ⟨y, hy⟩ := selOKB_print _ n st hok
  have hty : selectTail st = ' ' :: y := selectTail_of_print hy
  have hwe : WordEnd (selectTail st ++ k) := by rw [hty]; exact WordEnd.blank _
  have hsel : RT.Starts (' ' :: (Token.SELECT.str ++ (selectTail st ++ k))) .SELECT :=
    starts_kw .SELECT _ (by decide +kernel) hwe
  have hver : ∃ T, RT.Starts (optKwText .VERBOSE verbose ++ ' ' :: (Token.SELECT.str ++ (selectTail st ++ k))) T ∧
      T ≠ .ANALYZE ∧ WordEnd (optKwText .VERBOSE verbose ++ ' ' :: (Token.SELECT.str ++ (selectTail st ++ k))) := by
    cases verbose with
    | false => exact ⟨.SELECT, by simpa [optKwText] using hsel, by decide, by simpa [optKwText] using WordEnd.blank _⟩
    | true =>
      refine ⟨.VERBOSE, ?_, by decide, by simpa [optKwText] using WordEnd.blank _⟩
      have := starts_kw .VERBOSE (' ' :: (Token.SELECT.str ++ (selectTail st ++ k))) (by decide +kernel) (WordEnd.blank _)
      simpa [optKwText] using this
  have hs1 : RT.Stand s (optKwText .ANALYZE analyze ++ (optKwText .VERBOSE verbose ++
      ' ' :: (Token.SELECT.str ++ (selectTail st ++ k)))) := by
    simpa [explainText, List.append_assoc] using hs.stand
  obtain ⟨T, hT, hne, hwv⟩ := hver
  obtain ⟨s1, h1, st1⟩ := optKw_stand .ANALYZE analyze s _ T (by decide +kernel) hwv hT hne hs1
  obtain ⟨s2, h2, st2⟩ := optKw_stand .VERBOSE verbose s1 _ .SELECT (by decide +kernel) (WordEnd.blank _) hsel
    (by decide) st1
  obtain ⟨lx3, s3, h3, t3, _, b3⟩ := scanIW_stand s2 [' '] Token.SELECT.str _ .SELECT [] Gap.blank (by simpa using st2)
    (scansAs_kw .SELECT _ (by decide +kernel) hwe)
  have h3' : (expectTok .SELECT ["SELECT"]).run s2 = .ok ((), s3) := by
    unfold expectTok
    rw [P.run_bind _ _ _ _ _ h3]
    simp [t3, StateT.run, pure, StateT.pure, Except.pure]
  have tb3 : s3.lowerTbl = s.lowerTbl :=
    ((((optTok_frame _).run h1).trans ((optTok_frame _).run h2)).trans (scanIW_frame.run h3)).2
  unfold parseExplain
  rw [wp_bind, wp_of_run_ok h1, wp_bind, wp_of_run_ok h2, wp_bind, wp_of_run_ok h3', wp_bind]
  refine wp_mono (parseSelect_sub s.lowerTbl n fuel false st s3 k hok (fun h => by cases h) tb3 hk b3) ?_ (fun _ h => h)
  intro r s' ⟨hr, hs'⟩
  rw [wp_pure, hr]
  exact ⟨rfl, hs'⟩

end InfluxQL.C02.Semi

import InfluxQL.Lemmas.ScanOps
import InfluxQL.Lemmas.Scanner
/-
The operation-level transcription (`Model/ScanOps.lean`), run on the pure stream, computes the
lexeme and the cursor movement of the pure-cursor model (`Model/Scanner.lean`):
`F (curAt text k) = (result of f from k, curAt text (final position))` for every scanner
function `f` and its model `F`, for every text and position, with fuel beyond the end of the text.
-/
namespace InfluxQL.ScanOps
open InfluxQL InfluxQL.Ring Gen

variable {α β : Type}

/-! ## result and final position of a run -/

def Prog.res (text : List Char) (p : Prog α) (k : Nat) : α × Nat := (p.run text k).2

theorem res_bind' (text : List Char) (p : Prog α) (g : α → Prog β) (k : Nat) :
    (p.bind g).res text k = (g (p.res text k).1).res text (p.res text k).2 := by
  induction p generalizing k with
  | ret a => rfl
  | read f ih => simp only [Prog.bind, Prog.res, Prog.run]; exact ih _ _
  | unread p ih => simp only [Prog.bind, Prog.res, Prog.run]; exact ih _
  | curr f ih => simp only [Prog.bind, Prog.res, Prog.run]; exact ih _ _

/-- The continuation of a bind applied to a (result, position) pair. -/
def resK (text : List Char) (g : α → Prog β) (r : α × Nat) : β × Nat := (g r.1).res text r.2

theorem res_bind (text : List Char) (p : Prog α) (g : α → Prog β) (k : Nat) :
    (p >>= g).res text k = resK text g (p.res text k) := res_bind' text p g k

theorem resK_mk (text : List Char) (g : α → Prog β) (a : α) (k : Nat) :
    resK text g (a, k) = (g a).res text k := rfl

theorem res_pure (text : List Char) (a : α) (k : Nat) : (pure a : Prog α).res text k = (a, k) := rfl
theorem res_rd (text : List Char) (k : Nat) : rd.res text k = (streamAt text k, k + 1) := rfl
theorem res_unrd (text : List Char) (k : Nat) : unrd.res text k = ((), k - 1) := rfl
theorem res_cur (text : List Char) (k : Nat) : cur.res text k = (currAt text k, k) := rfl
theorem res_readRune (text : List Char) (k : Nat) :
    readRune.res text k = (((streamAt text k).1, (streamAt text k).1 == eofRune), k + 1) := rfl
theorem res_unreadRune (text : List Char) (k : Nat) : unreadRune.res text k = ((), k - 1) := rfl

theorem res_ite (text : List Char) (c : Prop) [Decidable c] (p q : Prog α) (k : Nat) :
    (if c then p else q).res text k = if c then p.res text k else q.res text k := by
  by_cases h : c <;> simp [h]

/-! ## the cursor at logical position `k` -/

/-- The pure cursor of `text` advanced to logical position `k`. -/
def curAt (text : List Char) (k : Nat) : Cursor :=
  { prev := currAt text k, rest := (Cursor.ofRunes text).rest.drop k,
    fin := (Cursor.ofRunes text).fin, off := k }

theorem curAt_zero (text : List Char) : curAt text 0 = Cursor.ofRunes text := rfl

theorem streamAt_def (text : List Char) (j : Nat) :
    streamAt text j = (Cursor.ofRunes text).rest.getD j (eofRune, (Cursor.ofRunes text).fin) := rfl

theorem currAt_succ (text : List Char) (k : Nat) : currAt text (k + 1) = streamAt text k := by
  simp [currAt]

theorem drop_cases (l : List Rune) (d : Rune) (k : Nat) :
    (l.drop k = [] ∧ l.getD k d = d) ∨ (l.drop k = l.getD k d :: l.drop (k + 1)) := by
  induction l generalizing k with
  | nil => left; simp
  | cons x t ih =>
    cases k with
    | zero => right; simp
    | succ k =>
      rcases ih k with h | h
      · left; simpa using h
      · right; simpa using h

theorem curAt_read (text : List Char) (k : Nat) :
    (curAt text k).read = (streamAt text k, curAt text (k + 1)) := by
  rcases drop_cases (Cursor.ofRunes text).rest (eofRune, (Cursor.ofRunes text).fin) k with h | h
  · simp only [Cursor.read, curAt, h.1]
    simp only [streamAt_def, h.2, currAt_succ]
    have : List.drop (k + 1) (Cursor.ofRunes text).rest = [] := by
      have := h.1
      simp only [List.drop_eq_nil_iff] at this ⊢
      omega
    rw [this]
  · simp only [Cursor.read, curAt, h]
    simp only [streamAt_def, currAt_succ]

theorem curAt_peek (text : List Char) (k : Nat) : (curAt text k).peek = (streamAt text k).1 := by
  rw [← Cursor.read_fst_eq_peek, curAt_read]

theorem curAt_prev (text : List Char) (k : Nat) : (curAt text k).prev = currAt text k := rfl

theorem curAt_eatEof (text : List Char) (k : Nat) :
    (curAt text k).eatEof = if (streamAt text k).1 = eofRune then curAt text (k + 1) else curAt text k := by
  simp only [Cursor.eatEof, curAt_peek, curAt_read]

/-- Unfolding of `readWhile` at a position. -/
theorem curAt_readWhile (text : List Char) (p : Char → Bool) (k : Nat) :
    (curAt text k).readWhile p =
      if (p (streamAt text k).1 && (streamAt text k).1 != eofRune) = true then
        ((streamAt text k).1 :: ((curAt text (k + 1)).readWhile p).1,
          ((curAt text (k + 1)).readWhile p).2)
      else ([], curAt text k) := by
  rcases drop_cases (Cursor.ofRunes text).rest (eofRune, (Cursor.ofRunes text).fin) k with h | h
  · have hs : streamAt text k = (eofRune, (Cursor.ofRunes text).fin) := h.2
    simp only [hs, bne_self_eq_false, Bool.and_false, Bool.false_eq_true, ↓reduceIte]
    simp only [Cursor.readWhile, curAt, h.1, spanStamped]
  · rw [Cursor.readWhile]
    simp only [curAt]
    rw [h]
    rw [show (Cursor.ofRunes text).rest.getD k (eofRune, (Cursor.ofRunes text).fin) = streamAt text k
      from rfl]
    generalize hsk : streamAt text k = x
    obtain ⟨c, q⟩ := x
    simp only [spanStamped]
    split
    · simp only [Cursor.readWhile, curAt, currAt_succ, hsk]
    · rfl

/-! ## the end of the stream -/

theorem stampRunes_getD_fst (l : List Char) (p : Pos) (e : Bool) (j : Nat) (d : Pos) :
    ((stampRunes l p e).getD j (eofRune, d)).1 = l.getD j eofRune := by
  induction l generalizing p e j with
  | nil => simp [stampRunes]
  | cons x t ih =>
    cases j with
    | zero => simp [stampRunes]
    | succ j => simp only [stampRunes, List.getD_cons_succ]; exact ih _ _ _

theorem foldCR_length (t : List Char) : (foldCR t).length ≤ t.length := by
  fun_induction foldCR t <;> simp_all <;> omega

/-- Number of delivered runes before the final `eof`. -/
def L (text : List Char) : Nat := (foldCR text).length

theorem L_le (text : List Char) : L text ≤ text.length := foldCR_length text

/-- From the end of the (folded) text on, every delivered rune is `eof`. -/
theorem streamAt_eof (text : List Char) (j : Nat) (h : L text ≤ j) :
    (streamAt text j).1 = eofRune := by
  have h1 : (streamAt text j).1 = (foldCR text ++ [eofRune]).getD j eofRune :=
    stampRunes_getD_fst _ _ _ _ _
  rw [h1]
  simp only [L] at h
  by_cases hj : j = (foldCR text).length
  · subst hj; simp
  · rw [List.getD_eq_getElem?_getD, List.getElem?_eq_none]
    · rfl
    · simp only [List.length_append, List.length_cons, List.length_nil]
      omega

theorem stampRunes_length (l : List Char) (p : Pos) (e : Bool) : (stampRunes l p e).length = l.length := by
  induction l generalizing p e with
  | nil => rfl
  | cons x t ih => simp [stampRunes, ih]

theorem curAt_rest_length (text : List Char) (k : Nat) :
    (curAt text k).rest.length = L text + 1 - k := by
  simp [curAt, Cursor.ofRunes, stampRunes_length, L]

/-- Enough fuel at position `k`: more than the distance to the end of the text. -/
abbrev Fuel (text : List Char) (fuel k : Nat) : Prop := L text - k < fuel

theorem fuel_step (text : List Char) (fuel k : Nat) (h : Fuel text (fuel + 1) k)
    (hne : (streamAt text k).1 ≠ eofRune) : Fuel text fuel (k + 1) := by
  have : ¬ L text ≤ k := fun hh => hne (streamAt_eof text k hh)
  simp only [Fuel] at h ⊢
  omega

theorem fuel_of_abs (text : List Char) (fuel k : Nat) (h : L text < fuel) : Fuel text fuel k := by
  simp only [Fuel]; omega

/-! ## the simple loops -/

theorem isWhitespace_eof : isWhitespace eofRune = false := by decide
theorem isDigit_eof : isDigit eofRune = false := by decide
theorem isIdentChar_eof : isIdentChar eofRune = false := by decide
theorem isDurChar_eof : isDurChar eofRune = false := by decide
theorem isDurTailChar_eof : isDurTailChar eofRune = false := by decide

theorem opScanDigits_eq (text : List Char) (fuel : Nat) : ∀ k, Fuel text fuel k →
    scanDigits (curAt text k) =
      (((opScanDigits fuel).res text k).1, curAt text ((opScanDigits fuel).res text k).2) := by
  induction fuel with
  | zero => intro k h; simp [Fuel] at h
  | succ fuel ih =>
    intro k h
    rw [scanDigits, curAt_readWhile]
    simp only [opScanDigits, res_bind, res_rd, resK_mk, res_ite, res_unrd, res_pure]
    by_cases hd : isDigit (streamAt text k).1 = true
    · have hne : (streamAt text k).1 ≠ eofRune := isDigit_ne_eof hd
      have := ih (k + 1) (fuel_step text fuel k h hne)
      rw [scanDigits] at this
      simp [hd, hne, this, resK, res_pure]
    · simp [hd]
theorem durLoop1_eq (text : List Char) (fuel : Nat) : ∀ k, Fuel text fuel k →
    (curAt text k).readWhile isDurChar =
      (((durLoop1 fuel).res text k).1, curAt text ((durLoop1 fuel).res text k).2) := by
  induction fuel with
  | zero => intro k h; simp [Fuel] at h
  | succ fuel ih =>
    intro k h
    rw [curAt_readWhile]
    simp only [durLoop1, res_bind, res_rd, resK_mk, res_ite, res_unrd, res_pure]
    by_cases hd : isDurChar (streamAt text k).1 = true
    · have hne : (streamAt text k).1 ≠ eofRune := fun e => by rw [e, isDurChar_eof] at hd; cases hd
      have := ih (k + 1) (fuel_step text fuel k h hne)
      simp [hd, hne, this, resK, res_pure]
    · simp [hd]

theorem durLoop2_eq (text : List Char) (fuel : Nat) : ∀ k, Fuel text fuel k →
    (curAt text k).readWhile isDurTailChar =
      (((durLoop2 fuel).res text k).1, curAt text ((durLoop2 fuel).res text k).2) := by
  induction fuel with
  | zero => intro k h; simp [Fuel] at h
  | succ fuel ih =>
    intro k h
    rw [curAt_readWhile]
    simp only [durLoop2, res_bind, res_rd, resK_mk, res_ite, res_unrd, res_pure]
    by_cases hd : isDurTailChar (streamAt text k).1 = true
    · have hne : (streamAt text k).1 ≠ eofRune := fun e => by rw [e, isDurTailChar_eof] at hd; cases hd
      have := ih (k + 1) (fuel_step text fuel k h hne)
      simp [hd, hne, this, resK, res_pure]
    · simp [hd]

theorem wsLoop_eq (text : List Char) (fuel : Nat) : ∀ k, Fuel text fuel k →
    (((curAt text k).readWhile isWhitespace).1, ((curAt text k).readWhile isWhitespace).2.eatEof) =
      (((wsLoop fuel).res text k).1, curAt text ((wsLoop fuel).res text k).2) := by
  induction fuel with
  | zero => intro k h; simp [Fuel] at h
  | succ fuel ih =>
    intro k h
    rw [curAt_readWhile]
    simp only [wsLoop, res_bind, res_rd, resK_mk, res_ite, res_unrd, res_pure]
    by_cases he : (streamAt text k).1 = eofRune
    · simp [he, isWhitespace_eof, curAt_eatEof]
    · by_cases hd : isWhitespace (streamAt text k).1 = true
      · have := ih (k + 1) (fuel_step text fuel k h he)
        simp only [Prod.mk.injEq] at this
        simp [hd, he, this, resK, res_pure]
      · simp [hd, he, curAt_eatEof]

theorem opScanWhitespace_eq (text : List Char) (fuel k : Nat) (h : L text < fuel) :
    scanWhitespace (currAt text k).1 (currAt text k).2 (curAt text k) =
      (((opScanWhitespace fuel).res text k).1, curAt text ((opScanWhitespace fuel).res text k).2) := by
  have := wsLoop_eq text fuel k (fuel_of_abs text fuel k h)
  simp only [Prod.mk.injEq] at this
  simp only [scanWhitespace, opScanWhitespace, res_bind, res_cur, resK_mk, resK, res_pure, this]

theorem opScanBareIdent_eq (text : List Char) (fuel : Nat) : ∀ k, Fuel text fuel k →
    scanBareIdent (curAt text k) =
      (((opScanBareIdent fuel).res text k).1, curAt text ((opScanBareIdent fuel).res text k).2) := by
  induction fuel with
  | zero => intro k h; simp [Fuel] at h
  | succ fuel ih =>
    intro k h
    rw [scanBareIdent, curAt_readWhile]
    simp only [opScanBareIdent, res_bind, res_readRune, resK_mk, res_ite, res_unreadRune, res_pure]
    by_cases he : (streamAt text k).1 = eofRune
    · simp [he, isIdentChar_eof, curAt_eatEof]
    · by_cases hd : isIdentChar (streamAt text k).1 = true
      · have := ih (k + 1) (fuel_step text fuel k h he)
        rw [scanBareIdent] at this
        simp only [Prod.mk.injEq] at this
        simp [hd, he, this, resK, res_pure]
      · simp [hd, he, curAt_eatEof]

theorem opSkipUntilNewline_eq (text : List Char) (fuel : Nat) : ∀ k, Fuel text fuel k →
    skipUntilNewline (curAt text k) = curAt text ((opSkipUntilNewline fuel).res text k).2 := by
  induction fuel with
  | zero => intro k h; simp [Fuel] at h
  | succ fuel ih =>
    intro k h
    rw [skipUntilNewline, curAt_readWhile]
    simp only [opSkipUntilNewline, res_bind, res_rd, resK_mk, res_ite, res_pure]
    by_cases he : (streamAt text k).1 = eofRune
    · simp [he, curAt_read]
    · by_cases hd : (streamAt text k).1 = '\n'
      · simp [hd, curAt_read]
      · have := ih (k + 1) (fuel_step text fuel k h he)
        rw [skipUntilNewline] at this
        simp [hd, he, this]

/-! ## numbers -/

theorem numberPrefix_eq (text : List Char) (fuel k : Nat) (h : L text < fuel) :
    scanNumberPrefix (curAt text k) =
      ((((opScanDigits fuel >>= numberFrac fuel).res text k).1).1,
       (((opScanDigits fuel >>= numberFrac fuel).res text k).1).2,
       curAt text ((opScanDigits fuel >>= numberFrac fuel).res text k).2) := by
  have h1 := opScanDigits_eq text fuel k (fuel_of_abs text fuel k h)
  simp only [scanNumberPrefix, h1, curAt_peek, curAt_read, res_bind]
  generalize (opScanDigits fuel).res text k = r
  obtain ⟨ds, k1⟩ := r
  simp only [resK_mk, numberFrac, res_bind, res_rd, res_ite, res_unrd, res_pure]
  by_cases hd : (streamAt text k1).1 = '.'
  · by_cases hg : isDigit (streamAt text (k1 + 1)).1 = true
    · have h2 := opScanDigits_eq text fuel (k1 + 1 + 1) (fuel_of_abs text fuel _ h)
      simp [hd, hg, h2, resK, res_pure]
    · simp [hd, hg]
  · simp [hd]

theorem numberTail_eq (text : List Char) (fuel : Nat) (pos : Pos) (buf : List Char) (d : Bool)
    (k : Nat) (h : L text < fuel) :
    (if !d then
      if isDurChar (curAt text k).peek then
        (⟨.DURATIONVAL, pos, buf ++ [(curAt text k).peek] ++
            ((curAt text k).read.2.readWhile isDurChar).1 ++
            (((curAt text k).read.2.readWhile isDurChar).2.readWhile isDurTailChar).1⟩,
          (((curAt text k).read.2.readWhile isDurChar).2.readWhile isDurTailChar).2)
      else (⟨.INTEGER, pos, buf⟩, curAt text k)
     else (⟨.NUMBER, pos, buf⟩, curAt text k) : Lexeme × Cursor) =
      (((numberTail fuel pos buf d).res text k).1, curAt text ((numberTail fuel pos buf d).res text k).2) := by
  simp only [numberTail, res_ite, res_bind, res_rd, resK_mk, res_unrd, res_pure, curAt_peek, curAt_read]
  cases d
  · by_cases hc : isDurChar (streamAt text k).1 = true
    · have h1 := durLoop1_eq text fuel (k + 1) (fuel_of_abs text fuel _ h)
      have h2 := durLoop2_eq text fuel ((durLoop1 fuel).res text (k + 1)).2 (fuel_of_abs text fuel _ h)
      simp [hc, h1, h2, resK, res_pure, res_bind]
    · simp [hc]
  · simp

theorem numberRest_eq (text : List Char) (fuel : Nat) (pos : Pos) (k : Nat) (h : L text < fuel) :
    scanNumber (curAt text k) pos =
      (((numberRest fuel pos).res text k).1, curAt text ((numberRest fuel pos).res text k).2) := by
  have h1 := numberPrefix_eq text fuel k h
  simp only [scanNumber, h1]
  have h2 := numberTail_eq text fuel pos
    (((opScanDigits fuel >>= numberFrac fuel).res text k).1).1
    (((opScanDigits fuel >>= numberFrac fuel).res text k).1).2
    ((opScanDigits fuel >>= numberFrac fuel).res text k).2 h
  rw [h2]
  simp only [numberRest, res_bind, resK]

/-- `scanNumber` entered after a digit was read. -/
theorem opScanNumber_eq_digit (text : List Char) (fuel k : Nat) (h : L text < fuel)
    (hd : isDigit (streamAt text k).1 = true) :
    scanNumber (curAt text k) (streamAt text k).2 =
      (((opScanNumber fuel).res text (k + 1)).1, curAt text ((opScanNumber fuel).res text (k + 1)).2) := by
  have hne : (streamAt text k).1 ≠ '.' := by
    intro e; rw [e] at hd; revert hd; decide
  simp only [opScanNumber, res_bind, res_cur, resK_mk, res_ite, currAt_succ, hne, ↓reduceIte, res_unrd,
    Nat.add_sub_cancel]
  exact numberRest_eq text fuel _ k h

/-- `scanNumber` entered after `.` was read and a digit was seen behind it. -/
theorem opScanNumber_eq_dot (text : List Char) (fuel k : Nat) (h : L text < fuel)
    (hdot : (streamAt text k).1 = '.') (hd : isDigit (streamAt text (k + 1)).1 = true) :
    scanNumber (curAt text k) (streamAt text k).2 =
      (((opScanNumber fuel).res text (k + 1)).1, curAt text ((opScanNumber fuel).res text (k + 1)).2) := by
  simp only [opScanNumber, res_bind, res_cur, resK_mk, res_ite, currAt_succ, hdot, ↓reduceIte, res_unrd,
    res_rd, hd, Bool.not_true, Bool.false_eq_true, Nat.add_sub_cancel]
  exact numberRest_eq text fuel _ k h

/-! ## comments -/

theorem slash_ne_eof : ¬ ('/' : Char) = eofRune := by decide
theorem star_ne_eof : ¬ ('*' : Char) = eofRune := by decide

/-- `skipCommentLoop` on a cursor. -/
def cmtC (star : Bool) (c : Cursor) : Bool × Cursor :=
  ((skipCommentLoop c.fin c.rest star c.prev c.off).1,
    { c with rest := (skipCommentLoop c.fin c.rest star c.prev c.off).2.1,
             prev := (skipCommentLoop c.fin c.rest star c.prev c.off).2.2.1,
             off := (skipCommentLoop c.fin c.rest star c.prev c.off).2.2.2 })

theorem skipUntilEndComment_cmtC (c : Cursor) : skipUntilEndComment c = cmtC false c := rfl

theorem drop_succ_nil (text : List Char) (k : Nat)
    (h : List.drop k (Cursor.ofRunes text).rest = []) :
    List.drop (k + 1) (Cursor.ofRunes text).rest = [] := by
  simp only [List.drop_eq_nil_iff] at h ⊢
  omega

theorem cmtC_curAt (text : List Char) (star : Bool) (k : Nat) :
    cmtC star (curAt text k) =
      if (streamAt text k).1 = eofRune then (false, curAt text (k + 1))
      else if star = true ∧ (streamAt text k).1 = '/' then (true, curAt text (k + 1))
      else cmtC (decide ((streamAt text k).1 = '*')) (curAt text (k + 1)) := by
  rcases drop_cases (Cursor.ofRunes text).rest (eofRune, (Cursor.ofRunes text).fin) k with h | h
  · have hs : streamAt text k = (eofRune, (Cursor.ofRunes text).fin) := h.2
    simp only [hs, ↓reduceIte]
    simp only [cmtC, curAt, h.1, skipCommentLoop, currAt_succ, hs, drop_succ_nil text k h.1]
  · generalize hsk : streamAt text k = x
    obtain ⟨c, q⟩ := x
    have hr : (curAt text k).rest = (c, q) :: (curAt text (k + 1)).rest := by
      simp only [curAt]; rw [h]; congr 1
    have hp : (curAt text (k + 1)).prev = (c, q) := by simp only [curAt, currAt_succ, hsk]
    simp only [cmtC, hr, skipCommentLoop]
    by_cases h1 : c = eofRune
    · simp only [h1, ↓reduceIte]
      simp only [curAt, currAt_succ, hsk, h1]
    · by_cases h2 : star = true ∧ c = '/'
      · simp only [h1, h2, and_self, ↓reduceIte]
        simp only [curAt, currAt_succ, hsk, h2, slash_ne_eof, ↓reduceIte]
      · simp only [h1, h2, ↓reduceIte]
        simp only [hp]
        simp only [curAt]

theorem opSkipUntilEndComment_eq (text : List Char) (fuel : Nat) : ∀ b k, Fuel text fuel k →
    cmtC b (curAt text k) =
      (((opSkipUntilEndComment fuel b).res text k).1,
        curAt text ((opSkipUntilEndComment fuel b).res text k).2) := by
  induction fuel with
  | zero => intro b k h; simp [Fuel] at h
  | succ fuel ih =>
    intro b k h
    rw [cmtC_curAt]
    by_cases he : (streamAt text k).1 = eofRune
    · cases b <;>
        simp [opSkipUntilEndComment, res_bind, res_rd, resK_mk, res_ite, res_pure, he, eofRune]
    · have ih' := fun b' => ih b' (k + 1) (fuel_step text fuel k h he)
      cases b
      · simp only [opSkipUntilEndComment, res_bind, res_rd, resK_mk, res_ite, res_pure]
        by_cases hs : (streamAt text k).1 = '*'
        · simp [he, hs, ih', star_ne_eof]
        · simp [he, hs, ih']
      · simp only [opSkipUntilEndComment, res_bind, res_rd, resK_mk, res_ite, res_pure]
        by_cases hsl : (streamAt text k).1 = '/'
        · simp [he, hsl, slash_ne_eof]
        · by_cases hs : (streamAt text k).1 = '*'
          · simp [he, hs, ih', star_ne_eof]
          · simp [he, hs, hsl, ih']

/-! ## the switch of `Scan` -/

theorem opScan4_eq (text : List Char) (ch0 : Char) (pos : Pos) (k : Nat) :
    scanFrom4 ch0 pos (curAt text k) =
      (((opScan4 ch0 pos).res text k).1, curAt text ((opScan4 ch0 pos).res text k).2) := by
  simp only [scanFrom4, opScan4, res_ite, res_bind, res_rd, resK_mk, res_unrd, res_pure, curAt_peek,
    curAt_read]
  repeat' split
  all_goals simp

theorem opScan3_eq (text : List Char) (ch0 : Char) (pos : Pos) (k : Nat) :
    scanFrom3 ch0 pos (curAt text k) =
      (((opScan3 ch0 pos).res text k).1, curAt text ((opScan3 ch0 pos).res text k).2) := by
  simp only [scanFrom3, opScan3, res_ite, res_bind, res_rd, resK_mk, res_unrd, res_pure, curAt_peek,
    curAt_read, opScan4_eq]
  repeat' split
  all_goals simp_all

theorem opScan2_eq (text : List Char) (fuel : Nat) (ch0 : Char) (pos : Pos) (k : Nat)
    (h : L text < fuel) :
    scanFrom2 ch0 pos (curAt text k) =
      (((opScan2 fuel ch0 pos).res text k).1, curAt text ((opScan2 fuel ch0 pos).res text k).2) := by
  have hn := opSkipUntilNewline_eq text fuel (k + 1) (fuel_of_abs text fuel _ h)
  have hc := opSkipUntilEndComment_eq text fuel false (k + 1) (fuel_of_abs text fuel _ h)
  simp only [scanFrom2, opScan2, res_ite, res_bind, res_rd, resK_mk, res_unrd, res_pure, curAt_peek,
    curAt_read, opScan3_eq, skipUntilEndComment_cmtC, hn, hc]
  generalize (opSkipUntilNewline fuel).res text (k + 1) = r1
  generalize (opSkipUntilEndComment fuel false).res text (k + 1) = r2
  obtain ⟨u, k1⟩ := r1
  obtain ⟨ok, k2⟩ := r2
  simp only [resK_mk, res_ite, res_pure]
  repeat' split
  all_goals simp_all

/-! ## strings -/

/-- `scanStringLoop` on a cursor. -/
def strC (ending : Char) (acc : List Char) (c : Cursor) : List Char × Option StrErr × Cursor :=
  ((scanStringLoop ending c.fin c.rest acc c.prev c.off).1,
   (scanStringLoop ending c.fin c.rest acc c.prev c.off).2.1,
    { c with rest := (scanStringLoop ending c.fin c.rest acc c.prev c.off).2.2.1,
             prev := (scanStringLoop ending c.fin c.rest acc c.prev c.off).2.2.2.1,
             off := (scanStringLoop ending c.fin c.rest acc c.prev c.off).2.2.2.2 })

theorem strC_step (ending : Char) (hend : ending ≠ eofRune) (acc : List Char) (c : Cursor) :
    strC ending acc c =
      if c.read.1.1 = ending then (acc, none, c.read.2)
      else if c.read.1.1 = eofRune ∨ c.read.1.1 = '\n' then (acc, some .badString, c.read.2)
      else if c.read.1.1 = '\\' then
        if c.read.2.read.1.1 = 'n' then strC ending (acc ++ ['\n']) c.read.2.read.2
        else if c.read.2.read.1.1 = '\\' then strC ending (acc ++ ['\\']) c.read.2.read.2
        else if c.read.2.read.1.1 = '"' then strC ending (acc ++ ['"']) c.read.2.read.2
        else if c.read.2.read.1.1 = '\'' then strC ending (acc ++ ['\'']) c.read.2.read.2
        else (['\\', c.read.2.read.1.1], some .badEscape, c.read.2.read.2)
      else strC ending (acc ++ [c.read.1.1]) c.read.2 := by
  have hne : ¬ eofRune = ending := fun e => hend e.symm
  have e1 : ¬ eofRune = 'n' := by decide
  have e2 : ¬ eofRune = '\\' := by decide
  have e3 : ¬ eofRune = '"' := by decide
  have e4 : ¬ eofRune = '\'' := by decide
  obtain ⟨prev, rest, fin, off⟩ := c
  cases rest with
  | nil => simp [strC, Cursor.read, scanStringLoop, hne]
  | cons x t =>
    obtain ⟨ch, q⟩ := x
    cases t with
    | nil =>
      simp only [strC, Cursor.read, scanStringLoop]
      repeat' split
      all_goals simp_all
    | cons y t1 =>
      obtain ⟨ch1, q1⟩ := y
      simp only [strC, Cursor.read, scanStringLoop]
      repeat' split
      all_goals simp_all

theorem strLoop_eq (text : List Char) (ending : Char) (hend : ending ≠ eofRune) (fuel : Nat) :
    ∀ acc k, Fuel text fuel k →
    strC ending acc (curAt text k) =
      (((strLoop ending fuel acc).res text k).1.1, ((strLoop ending fuel acc).res text k).1.2,
        curAt text ((strLoop ending fuel acc).res text k).2) := by
  induction fuel with
  | zero => intro acc k h; simp [Fuel] at h
  | succ fuel ih =>
    intro acc k h
    rw [strC_step ending hend]
    simp only [curAt_read, strLoop, res_bind, res_readRune, resK_mk, res_ite, res_pure]
    by_cases h1 : (streamAt text k).1 = ending
    · simp [h1]
    · by_cases h2 : (streamAt text k).1 = eofRune
      · simp only [h2, true_or, beq_self_eq_true, ↓reduceIte]; split <;> rfl
      · have hf := fuel_step text fuel k h h2
        have hf2 : Fuel text fuel (k + 1 + 1) := by simp only [Fuel] at hf ⊢; omega
        by_cases h3 : (streamAt text k).1 = '\n'
        · simp only [h3, or_true, ↓reduceIte]; split <;> rfl
        · by_cases h4 : (streamAt text k).1 = '\\'
          · simp only [h1, h2, h3, h4, ↓reduceIte, or_self, beq_iff_eq]
            repeat' split
            all_goals first
              | exact ih _ _ hf2
              | simp_all
          · simp only [h1, h2, h3, h4, ↓reduceIte, or_self, beq_iff_eq]
            exact ih _ _ hf

theorem opScanString_eq (text : List Char) (fuel k : Nat) (h : L text < fuel) :
    scanStringRaw (curAt text k) =
      (((opScanString fuel).res text k).1.1, ((opScanString fuel).res text k).1.2,
        curAt text ((opScanString fuel).res text k).2) := by
  simp only [scanStringRaw, curAt_read, opScanString, res_bind, res_readRune, resK_mk, res_ite, res_pure]
  by_cases he : (streamAt text k).1 = eofRune
  · simp [he]
  · have := strLoop_eq text (streamAt text k).1 he fuel [] (k + 1) (fuel_of_abs text fuel _ h)
    simp only [strC] at this
    simp [he, this]

/-- `Scanner.scanString()` entered after the opening quote was read at `k`. -/
theorem opScannerScanString_eq (text : List Char) (fuel k : Nat) (h : L text < fuel) :
    scanString (curAt text k) =
      (((opScannerScanString fuel).res text (k + 1)).1,
        curAt text ((opScannerScanString fuel).res text (k + 1)).2) := by
  have h1 := opScanString_eq text fuel k h
  simp only [scanString, opScannerScanString, res_bind, res_unrd, resK_mk, res_cur, Nat.add_sub_cancel, h1,
    curAt_prev]
  generalize (opScanString fuel).res text k = r
  obtain ⟨⟨lit, e⟩, k1⟩ := r
  simp only [resK_mk]
  cases e with
  | none => simp [res_pure]
  | some e => cases e <;> simp [res_pure, res_bind, res_cur, resK_mk, curAt_prev]

/-! ## identifiers -/

theorem bare_ge (text : List Char) (fuel : Nat) : ∀ k, k ≤ ((opScanBareIdent fuel).res text k).2 := by
  induction fuel with
  | zero => intro k; exact Nat.le_refl _
  | succ fuel ih =>
    intro k
    simp only [opScanBareIdent, res_bind, res_readRune, resK_mk, res_ite, res_unreadRune, res_pure]
    repeat' split
    · simp
    · simp
    · have := ih (k + 1)
      simp only [resK, res_pure]
      omega

theorem bare_gt (text : List Char) (fuel k : Nat) (hf : 0 < fuel)
    (hc : isIdentChar (streamAt text k).1 = true) :
    k + 1 ≤ ((opScanBareIdent fuel).res text k).2 := by
  cases fuel with
  | zero => omega
  | succ fuel =>
    have hne : (streamAt text k).1 ≠ eofRune := isIdentChar_ne_eof hc
    simp only [opScanBareIdent, res_bind, res_readRune, resK_mk, res_ite, res_unreadRune, res_pure]
    simp only [beq_iff_eq, hne, ↓reduceIte, hc, Bool.not_true, Bool.false_eq_true, resK, res_pure]
    exact bare_ge text fuel (k + 1)

theorem identLoop_eq (text : List Char) (fuel0 : Nat) (h0 : L text < fuel0) (pos : Pos) (fuel : Nat) :
    ∀ fuelM buf k, Fuel text fuel k → Fuel text fuelM k →
    scanIdentLoop pos fuelM (curAt text k) buf =
      (((identLoop fuel0 pos fuel buf).res text k).1,
        curAt text ((identLoop fuel0 pos fuel buf).res text k).2) := by
  induction fuel with
  | zero => intro fuelM buf k h; simp [Fuel] at h
  | succ fuel ih =>
    intro fuelM buf k h hM
    cases fuelM with
    | zero => simp [Fuel] at hM
    | succ fuelM =>
      simp only [scanIdentLoop, curAt_peek, curAt_read, identLoop, res_bind, res_rd, resK_mk, res_ite,
        res_unrd, res_pure, Nat.add_sub_cancel]
      by_cases h1 : (streamAt text k).1 = eofRune
      · simp [h1]
      · by_cases h2 : (streamAt text k).1 = '"'
        · have hs := opScannerScanString_eq text fuel0 k h0
          simp only [h1, h2, ↓reduceIte, hs]
          generalize (opScannerScanString fuel0).res text (k + 1) = r
          obtain ⟨lx, k1⟩ := r
          have qne : ¬ ('"' : Char) = eofRune := by decide
          simp only [resK_mk, res_ite, res_pure, qne, ↓reduceIte]
          by_cases hb : lx.tok = .BADSTRING ∨ lx.tok = .BADESCAPE <;> simp [hb]
        · by_cases h3 : isIdentChar (streamAt text k).1 = true
          · have hb := opScanBareIdent_eq text fuel0 k (fuel_of_abs text fuel0 k h0)
            have hg := bare_gt text fuel0 k (by omega) h3
            have hlt : ¬ L text ≤ k := fun hh => h1 (streamAt_eof text k hh)
            simp only [h1, h2, h3, ↓reduceIte, hb]
            generalize hr : (opScanBareIdent fuel0).res text k = r at hg
            obtain ⟨cs, k1⟩ := r
            simp only [resK_mk]
            apply ih
            · simp only [Fuel] at h ⊢; simp only at hg; omega
            · simp only [Fuel] at hM ⊢; simp only at hg; omega
          · simp [h1, h2, h3]

theorem opScanIdent_eq (text : List Char) (fuel : Nat) (lk : Bool) (k : Nat) (h : L text < fuel) :
    scanIdent lk (curAt text k) =
      (((opScanIdent fuel lk).res text k).1, curAt text ((opScanIdent fuel lk).res text k).2) := by
  have hl := identLoop_eq text fuel h (streamAt text k).2 fuel ((curAt text k).rest.length + 2) [] k
    (fuel_of_abs text fuel k h) (by rw [curAt_rest_length]; simp only [Fuel]; omega)
  simp only [scanIdent, curAt_read, hl, opScanIdent, res_bind, res_rd, res_unrd, resK_mk,
    Nat.add_sub_cancel]
  generalize (identLoop fuel (streamAt text k).2 fuel []).res text k = r
  obtain ⟨⟨lx, lit⟩, k1⟩ := r
  simp only [resK_mk]
  cases lx with
  | some lx => simp [res_pure]
  | none =>
    simp only [res_ite, res_pure]
    split <;> rfl

/-! ## `Scan` -/

theorem opScanFrom_eq (text : List Char) (fuel k : Nat) (h : L text < fuel) :
    scanFrom (streamAt text k).1 (streamAt text k).2 (curAt text k) (curAt text (k + 1)) =
      (((opScanFrom fuel (streamAt text k).1 (streamAt text k).2).res text (k + 1)).1,
        curAt text ((opScanFrom fuel (streamAt text k).1 (streamAt text k).2).res text (k + 1)).2) := by
  by_cases c1 : isWhitespace (streamAt text k).1 = true
  · have := opScanWhitespace_eq text fuel (k + 1) h
    rw [currAt_succ] at this
    simp only [scanFrom, opScanFrom, c1, ↓reduceIte, Bool.false_eq_true, this]
  by_cases c2 : (isLetter (streamAt text k).1 || (streamAt text k).1 == '_') = true
  · have := opScanIdent_eq text fuel true k h
    simp only [scanFrom, opScanFrom, c1, c2, ↓reduceIte, Bool.false_eq_true, this, res_bind, res_unrd, resK_mk,
      Nat.add_sub_cancel]
  by_cases c3 : isDigit (streamAt text k).1 = true
  · have := opScanNumber_eq_digit text fuel k h c3
    simp only [scanFrom, opScanFrom, c1, c2, c3, ↓reduceIte, Bool.false_eq_true, this]
  by_cases c4 : (streamAt text k).1 = eofRune
  · simp only [scanFrom, opScanFrom, c1, c2, c3, ↓reduceIte, Bool.false_eq_true]
    rw [if_pos c4, if_pos c4]
    rfl
  by_cases c5 : (streamAt text k).1 = '"'
  · have := opScanIdent_eq text fuel true k h
    simp only [scanFrom, opScanFrom, c1, c2, c3, c4, ↓reduceIte, Bool.false_eq_true]
    rw [if_pos c5, if_pos c5]
    simp only [this, res_bind, res_unrd, resK_mk, Nat.add_sub_cancel]
  by_cases c6 : (streamAt text k).1 = '\''
  · have := opScannerScanString_eq text fuel k h
    simp only [scanFrom, opScanFrom, c1, c2, c3, c4, c5, ↓reduceIte, Bool.false_eq_true]
    rw [if_pos c6, if_pos c6]
    exact this
  by_cases c7 : (streamAt text k).1 = '.'
  · by_cases cd : isDigit (streamAt text (k + 1)).1 = true
    · have := opScanNumber_eq_dot text fuel k h c7 cd
      simp only [scanFrom, opScanFrom, c1, c2, c3, c4, c5, c6, ↓reduceIte, Bool.false_eq_true]
      rw [if_pos c7, if_pos c7]
      simp only [this, curAt_peek, cd, res_bind, res_rd, res_unrd, resK_mk, res_ite, Nat.add_sub_cancel,
        ↓reduceIte]
    · simp only [scanFrom, opScanFrom, c1, c2, c3, c4, c5, c6, ↓reduceIte, Bool.false_eq_true]
      rw [if_pos c7, if_pos c7]
      simp only [curAt_peek, cd, res_bind, res_rd, res_unrd, resK_mk, res_ite, res_pure, Nat.add_sub_cancel,
        ↓reduceIte, Bool.false_eq_true]
  by_cases c8 : (streamAt text k).1 = '$'
  · have := opScanIdent_eq text fuel false (k + 1) h
    simp only [scanFrom, opScanFrom, c1, c2, c3, c4, c5, c6, c7, ↓reduceIte, Bool.false_eq_true]
    rw [if_pos c8, if_pos c8]
    simp only [this, res_bind]
    generalize (opScanIdent fuel false).res text (k + 1) = r
    obtain ⟨lx, k1⟩ := r
    simp only [resK_mk, res_ite, res_pure]
    by_cases ht : lx.tok = .IDENT <;> simp [ht]
  · have := opScan2_eq text fuel (streamAt text k).1 (streamAt text k).2 (k + 1) h
    simp only [scanFrom, opScanFrom, c1, c2, c3, c4, c5, c6, c7, c8, ↓reduceIte, Bool.false_eq_true]
    exact this

/-- **`Scan` of the transcription = `scan` of the pure model**, at every position of every text. -/
theorem opScan_eq (text : List Char) (fuel k : Nat) (h : L text < fuel) :
    scan (curAt text k) =
      (((opScan fuel).res text k).1, curAt text ((opScan fuel).res text k).2) := by
  simp only [scan, curAt_read, opScan, res_bind, res_rd, resK_mk]
  exact opScanFrom_eq text fuel k h


/-! ## regular expressions -/

/-- `scanRegexLoop` on a cursor. -/
def regC (acc : List Char) (esc : Bool) (c : Cursor) : Option (List Char) × Cursor :=
  ((scanRegexLoop c.fin c.rest acc esc c.prev c.off).1,
    { c with rest := (scanRegexLoop c.fin c.rest acc esc c.prev c.off).2.1,
             prev := (scanRegexLoop c.fin c.rest acc esc c.prev c.off).2.2.1,
             off := (scanRegexLoop c.fin c.rest acc esc c.prev c.off).2.2.2 })

theorem regC_step (acc : List Char) (esc : Bool) (c : Cursor) :
    regC acc esc c =
      if esc = true ∧ c.read.1.1 = eofRune then (none, c.read.2)
      else if esc = true ∧ c.read.1.1 = '/' then regC (acc ++ ['/']) false c.read.2
      else
        if c.read.1.1 = '/' then (some (if esc = true then acc ++ ['\\'] else acc), c.read.2)
        else if c.read.1.1 = eofRune then (none, c.read.2)
        else if c.read.1.1 = '\n' then (none, c.read.2)
        else if c.read.1.1 = '\\' then regC (if esc = true then acc ++ ['\\'] else acc) true c.read.2
        else regC ((if esc = true then acc ++ ['\\'] else acc) ++ [c.read.1.1]) false c.read.2 := by
  have e1 : ¬ eofRune = '/' := by decide
  obtain ⟨prev, rest, fin, off⟩ := c
  cases rest with
  | nil => cases esc <;> simp [regC, Cursor.read, scanRegexLoop, e1]
  | cons x t =>
    obtain ⟨ch, q⟩ := x
    simp only [regC, Cursor.read, scanRegexLoop]
    repeat' split
    all_goals simp_all


/-- What `ScanRegex` makes of `ScanDelimited`'s result. -/
def delimOpt (r : List Char × Option DErr) : Option (List Char) :=
  match r.2 with
  | none => some r.1
  | some _ => none

theorem regC_esc_passthru (acc : List Char) (c : Cursor) (h1 : c.read.1.1 ≠ eofRune)
    (h2 : c.read.1.1 ≠ '/') : regC acc true c = regC (acc ++ ['\\']) false c := by
  rw [regC_step acc true, regC_step (acc ++ ['\\']) false]
  simp [h1, h2]

theorem delimLoop_eq (text : List Char) (fuel : Nat) : ∀ acc k, Fuel text fuel k →
    regC acc false (curAt text k) =
      (delimOpt ((delimLoop '/' regexEscapes true fuel acc).res text k).1,
        curAt text ((delimLoop '/' regexEscapes true fuel acc).res text k).2) := by
  induction fuel with
  | zero => intro acc k h; simp [Fuel] at h
  | succ fuel ih =>
    intro acc k h
    have d1 : ¬ eofRune = '/' := by decide
    have d2 : ¬ '\n' = eofRune := by decide
    have d3 : ¬ '\\' = eofRune := by decide
    have d4 : ¬ '\n' = '/' := by decide
    have d5 : ¬ '\\' = '/' := by decide
    rw [regC_step]
    simp only [curAt_read, delimLoop, res_bind, res_readRune, resK_mk, res_ite, res_pure]
    by_cases h1 : (streamAt text k).1 = '/'
    · simp [h1, delimOpt]
    · by_cases h2 : (streamAt text k).1 = eofRune
      · simp [h2, d1, delimOpt]
      · have hf := fuel_step text fuel k h h2
        have hf2 : Fuel text fuel (k + 1 + 1) := by simp only [Fuel] at hf ⊢; omega
        by_cases h3 : (streamAt text k).1 = '\n'
        · simp [h3, d2, d4, delimOpt]
        · by_cases h4 : (streamAt text k).1 = '\\'
          · simp only [h1, h2, h3, h4, ↓reduceIte, Bool.false_eq_true, false_and, beq_iff_eq]
            by_cases g1 : (streamAt text (k + 1)).1 = eofRune
            · rw [regC_step]
              simp [g1, curAt_read, delimOpt, d3]
            · by_cases g2 : (streamAt text (k + 1)).1 = '/'
              · rw [regC_step]
                simp only [curAt_read, g1, g2, regexEscapes, ↓reduceIte, and_false, and_self,
                  Bool.false_eq_true]
                have e1 : ¬ ('/' : Char) = eofRune := by decide
                simp only [e1, ↓reduceIte, and_false]
                exact ih _ _ hf2
              · rw [regC_esc_passthru _ _ (by simpa [curAt_read] using g1)
                  (by simpa [curAt_read] using g2)]
                simp only [g1, g2, regexEscapes, ↓reduceIte, res_bind, res_unreadRune, resK_mk,
                  Nat.add_sub_cancel, Bool.false_eq_true]
                exact ih _ _ hf
          · simp only [h1, h2, h3, h4, ↓reduceIte, Bool.false_eq_true, false_and, beq_iff_eq]
            exact ih _ _ hf

theorem delimLoop_noBadEscape (text : List Char) (ending : Char) (esc : Char → Option Char) (fuel : Nat) :
    ∀ acc k, ((delimLoop ending esc true fuel acc).res text k).1.2 ≠ some .badEscape := by
  induction fuel with
  | zero => intro acc k; simp [delimLoop, res_pure]
  | succ fuel ih =>
    intro acc k
    simp only [delimLoop, res_bind, res_readRune, resK_mk, res_ite, res_pure]
    repeat' split
    all_goals first
      | exact ih _ _
      | (rename_i hh; exact absurd trivial hh)
      | (simp only [res_bind, res_unreadRune, resK_mk]; exact ih _ _)
      | (simp; done)

theorem opScanRegex_eq (text : List Char) (fuel k : Nat) (h : L text < fuel) :
    scanRegex (curAt text k) =
      (((opScanRegex fuel).res text k).1, curAt text ((opScanRegex fuel).res text k).2) := by
  simp only [scanRegex, curAt_read, curAt_prev, opScanRegex, opScanDelimited, res_bind, res_cur,
    res_readRune, resK_mk, res_ite, res_pure]
  by_cases h1 : (streamAt text k).1 = eofRune
  · have e1 : ¬ eofRune = '/' := by decide
    simp [h1, e1, resK_mk, res_pure]
  · by_cases h2 : (streamAt text k).1 = '/'
    · have hl := delimLoop_eq text fuel [] (k + 1) (fuel_of_abs text fuel _ h)
      simp only [regC, Prod.mk.injEq] at hl
      simp only [h1, h2, beq_iff_eq, ↓reduceIte, ne_eq, not_true_eq_false, not_false_eq_true,
        Bool.false_eq_true]
      generalize hr : (delimLoop '/' regexEscapes true fuel []).res text (k + 1) = r at hl
      have hnb := delimLoop_noBadEscape text '/' regexEscapes fuel [] (k + 1)
      rw [hr] at hnb
      obtain ⟨⟨b, e⟩, k1⟩ := r
      have e1 : ¬ ('/' : Char) = eofRune := by decide
      simp only [curAt_prev] at hl
      obtain ⟨hl1, hl2⟩ := hl
      simp only [hl1, hl2, e1, ↓reduceIte, resK_mk]
      cases e with
      | none => simp [delimOpt, res_pure]
      | some e =>
        cases e with
        | badEscape => exact absurd rfl hnb
        | eofErr => simp [delimOpt, res_pure]
        | other => simp [delimOpt, res_pure]
    · simp [h1, h2, resK_mk, res_pure]


/-! ## call sequences -/

/-- The pure-cursor reading of a call sequence: `Scan` / `ScanRegex` are `scan` / `scanRegex` of
`Model/Scanner.lean`; `peekRune` looks at the next rune (and swallows an `eof`, which it does not
push back); `peekComment` looks at the next two runes. -/
def pureCalls : List Call → Cursor → List Out
  | [], _ => []
  | .scan :: cs, c => .tok (scan c).1 :: pureCalls cs (scan c).2
  | .scanRegex :: cs, c => .tok (scanRegex c).1 :: pureCalls cs (scanRegex c).2
  | .peekRune :: cs, c => .rune c.peek :: pureCalls cs c.eatEof
  | .peekComment :: cs, c =>
    .bool ((c.peek == '-' && c.read.2.peek == '-') || (c.peek == '/' && c.read.2.peek == '*')) ::
      pureCalls cs c

theorem opCalls_eq (text : List Char) (fuel : Nat) (h : L text < fuel) (calls : List Call) :
    ∀ k, ((opCalls fuel calls).res text k).1 = pureCalls calls (curAt text k) := by
  induction calls with
  | nil => intro k; rfl
  | cons c cs ih =>
    intro k
    cases c with
    | scan =>
      have := opScan_eq text fuel k h
      simp only [opCalls, opCall, res_bind, pureCalls, this]
      generalize (opScan fuel).res text k = r
      obtain ⟨lx, k1⟩ := r
      simp only [resK_mk, res_pure, res_bind, resK, ih]
    | scanRegex =>
      have := opScanRegex_eq text fuel k h
      simp only [opCalls, opCall, res_bind, pureCalls, this]
      generalize (opScanRegex fuel).res text k = r
      obtain ⟨lx, k1⟩ := r
      simp only [resK_mk, res_pure, res_bind, resK, ih]
    | peekRune =>
      simp only [opCalls, opCall, opPeekRune, res_bind, res_readRune, resK_mk, res_ite, pureCalls,
        curAt_peek, curAt_eatEof]
      by_cases he : (streamAt text k).1 = eofRune
      · simp [he, res_pure, resK, res_bind, ih]
      · simp [he, res_pure, resK, res_bind, res_unreadRune, ih]
    | peekComment =>
      simp only [opCalls, opCall, opPeekComment, res_bind, res_rd, res_unrd, resK_mk, res_pure, pureCalls,
        curAt_peek, curAt_read, resK, ih, Nat.add_sub_cancel]

end InfluxQL.ScanOps


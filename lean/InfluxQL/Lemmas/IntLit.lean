import InfluxQL.Model.ParserCore
import InfluxQL.Lemmas.Digits
/- The decimal spelling of a natural number as the text of an INTEGER token: all digits, no sign. -/
namespace InfluxQL
open Gen

theorem allDigits_natDigits (n : Nat) : allDigits (natDigits n) = true := by
  unfold allDigits
  have h1 := natDigits_ne_nil n
  have h2 := natDigits_all_digits n
  simp only [Bool.and_eq_true, decide_eq_true_eq, List.all_eq_true]
  exact ⟨h1, h2⟩

theorem splitSign_natDigits (n : Nat) : splitSign (natDigits n) = (false, natDigits n) := by
  have h2 := natDigits_all_digits n
  have hne := natDigits_ne_nil n
  match hd : natDigits n with
  | [] => exact absurd hd hne
  | c :: rest =>
    have hc : isDigit c = true := h2 c (by rw [hd]; exact List.mem_cons_self)
    have h1 : c ≠ '-' := by intro h; rw [h] at hc; exact absurd hc (by decide)
    have h3 : c ≠ '+' := by intro h; rw [h] at hc; exact absurd hc (by decide)
    unfold splitSign
    split
    · next h => cases h; exact absurd rfl h1
    · next h => cases h; exact absurd rfl h3
    · rfl

end InfluxQL

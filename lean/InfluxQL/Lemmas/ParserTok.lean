import InfluxQL.Model.ParserCore
/-
Token-level behaviour of the parser plumbing on pushed-back tokens: with `n = k + 1` tokens
pushed back, `Scan` / `ScanIgnoreWhitespace` re-deliver entry `k` of the ring and leave `k`
pushed back. These lemmas let clause-level statements be phrased over token sequences
(independent of the scanner).
-/
namespace InfluxQL
open Gen

/-- Sequencing in `P` when the first action is known to succeed. -/
theorem P.run_bind {α β} (x : P α) (f : α → P β) (s : PState) (a : α) (s' : PState) (h : x.run s = .ok (a, s')) :
    (x >>= f).run s = (f a).run s' := by
  simp only [StateT.run, bind, StateT.bind, Except.bind] at h ⊢
  rw [h]

/-- `Parser.Scan()` with a token pushed back: it is re-delivered (bound parameters aside). -/
theorem pscan_buffered (s : PState) (k : Nat) (lx : Lexeme) (hn : s.n = k + 1) (hb : s.buf[k]? = some lx)
    (ht : lx.tok ≠ .BOUNDPARAM) :
    pscan.run s = .ok (lx, { s with n := k }) := by
  unfold pscan pscanWith
  simp [hn, hb, ht, StateT.run, bind, StateT.bind, get, getThe, MonadStateOf.get, StateT.get, set, StateT.set, pure,
    StateT.pure, Except.pure, Except.bind]

/-- `ScanIgnoreWhitespace` with a significant token pushed back. -/
theorem scanIW_buffered (s : PState) (k : Nat) (lx : Lexeme) (hn : s.n = k + 1) (hb : s.buf[k]? = some lx)
    (ht : lx.tok ≠ .BOUNDPARAM) (hw : lx.tok ≠ .WS) (hc : lx.tok ≠ .COMMENT) :
    scanIW.run s = .ok (lx, { s with n := k }) := by
  have hp := pscan_buffered s k lx hn hb ht
  unfold scanIW
  simp only [StateT.run, bind, StateT.bind, get, getThe, MonadStateOf.get, StateT.get, Except.bind, pure, Except.pure]
  rw [show s.n + s.r.rest.length + 2 = (s.n + s.r.rest.length + 1) + 1 from rfl]
  unfold scanIWLoop
  simp only [StateT.run, bind, StateT.bind, Except.bind] at hp ⊢
  rw [hp]
  simp [hw, hc, pure, StateT.pure, Except.pure]

/-- `Unscan()`. -/
theorem unscan_run (s : PState) : unscan.run s = .ok ((), { s with n := s.n + 1 }) := by
  simp [unscan, StateT.run, modify, modifyGet, MonadStateOf.modifyGet, StateT.modifyGet, pure, Except.pure]

/-! ## fresh scans (nothing pushed back) -/

/-- `Parser.Scan()` with nothing pushed back: the scanner delivers the next lexeme, which enters
the ring. -/
theorem pscan_fresh (s : PState) (hn : s.n = 0) (ht : (scan s.r).1.tok ≠ .BOUNDPARAM) :
    pscan.run s = .ok ((scan s.r).1, { s with r := (scan s.r).2, buf := ((scan s.r).1 :: s.buf).take 3 }) := by
  unfold pscan pscanWith
  simp [hn, ht, StateT.run, bind, StateT.bind, get, getThe, MonadStateOf.get, StateT.get, set, StateT.set, pure,
    StateT.pure, Except.pure, Except.bind]

/-- `ScanIgnoreWhitespace` when the next lexeme is significant. -/
theorem scanIW_fresh (s : PState) (hn : s.n = 0) (ht : (scan s.r).1.tok ≠ .BOUNDPARAM)
    (hw : (scan s.r).1.tok ≠ .WS) (hc : (scan s.r).1.tok ≠ .COMMENT) :
    scanIW.run s = .ok ((scan s.r).1, { s with r := (scan s.r).2, buf := ((scan s.r).1 :: s.buf).take 3 }) := by
  have hp := pscan_fresh s hn ht
  unfold scanIW
  simp only [StateT.run, bind, StateT.bind, get, getThe, MonadStateOf.get, StateT.get, Except.bind, pure, Except.pure]
  rw [show s.n + s.r.rest.length + 2 = (s.n + s.r.rest.length + 1) + 1 from rfl]
  unfold scanIWLoop
  simp only [StateT.run, bind, StateT.bind, Except.bind] at hp ⊢
  rw [hp]
  simp [hw, hc, pure, StateT.pure, Except.pure]

/-- `ScanIgnoreWhitespace` over one whitespace lexeme followed by a significant one. -/
theorem scanIW_skip_ws (s : PState) (hn : s.n = 0) (hws : (scan s.r).1.tok = .WS)
    (ht : (scan (scan s.r).2).1.tok ≠ .BOUNDPARAM) (hw : (scan (scan s.r).2).1.tok ≠ .WS)
    (hc : (scan (scan s.r).2).1.tok ≠ .COMMENT) :
    scanIW.run s = .ok ((scan (scan s.r).2).1,
      { s with r := (scan (scan s.r).2).2, buf := ((scan (scan s.r).2).1 :: ((scan s.r).1 :: s.buf).take 3).take 3 }) := by
  have hp1 := pscan_fresh s hn (by rw [hws]; decide)
  have hp2 := pscan_fresh { s with r := (scan s.r).2, buf := ((scan s.r).1 :: s.buf).take 3 } hn ht
  unfold scanIW
  simp only [StateT.run, bind, StateT.bind, get, getThe, MonadStateOf.get, StateT.get, Except.bind, pure, Except.pure]
  rw [show s.n + s.r.rest.length + 2 = (s.n + s.r.rest.length) + 1 + 1 from rfl]
  unfold scanIWLoop
  simp only [StateT.run, bind, StateT.bind, Except.bind] at hp1 hp2 ⊢
  rw [hp1]
  simp only [hws, true_or, ↓reduceIte]
  unfold scanIWLoop
  simp only [StateT.run, bind, StateT.bind, Except.bind]
  rw [hp2]
  simp [hw, hc, pure, StateT.pure, Except.pure]

/-- One blank before a rune that is neither whitespace nor NUL scans as a WS lexeme and stops
before that rune. -/
theorem scan_blank (r : Cursor) (q q' : Pos) (c : Char) (t : List (Char × Pos))
    (hr : r.rest = (' ', q) :: (c, q') :: t) (hc : isWhitespace c = false) (hce : c ≠ eofRune) :
    (scan r).1.tok = .WS ∧ (scan r).2.rest = (c, q') :: t := by
  unfold scan scanFrom Cursor.read
  rw [hr]
  simp only [show isWhitespace ' ' = true from by decide, ↓reduceIte]
  unfold scanWhitespace Cursor.readWhile
  simp only [spanStamped, hc, Bool.false_and, Bool.false_eq_true, ↓reduceIte]
  refine ⟨trivial, ?_⟩
  unfold Cursor.eatEof Cursor.peek Cursor.read
  simp only
  split
  · next h => exact absurd h hce
  · rfl

/-- `ParseIdent` when, after one whitespace lexeme, the scanner is at an identifier. -/
theorem parseIdent_after_blank (s : PState) (name : Str) (hn : s.n = 0)
    (hws : (scan s.r).1.tok = .WS) (hid : (scan (scan s.r).2).1.tok = .IDENT)
    (hlit : (scan (scan s.r).2).1.lit = name) :
    ∃ s', parseIdent.run s = .ok (name, s') ∧ s'.r = (scan (scan s.r).2).2 ∧ s'.n = 0 := by
  refine ⟨{ s with r := (scan (scan s.r).2).2, buf := ((scan (scan s.r).2).1 :: ((scan s.r).1 :: s.buf).take 3).take 3 },
    ?_, rfl, hn⟩
  unfold parseIdent
  rw [P.run_bind _ _ s _ _ (scanIW_skip_ws s hn hws (by rw [hid]; decide) (by rw [hid]; decide) (by rw [hid]; decide))]
  simp [hid, hlit, StateT.run, pure, StateT.pure, Except.pure]

/-- The first rune of a bare identifier is no blank, not NUL, not CR. -/
theorem identFirst_not_blank {c : Char} (h : isIdentFirstChar c = true) :
    isWhitespace c = false ∧ c ≠ eofRune ∧ c ≠ '\r' := by
  have hn : 65 ≤ c.toNat := by
    unfold isIdentFirstChar isLetter at h
    simp only [Bool.or_eq_true, Bool.and_eq_true, decide_eq_true_eq, beq_iff_eq] at h
    omega
  refine ⟨?_, ?_, ?_⟩
  · unfold isWhitespace
    simp only [Bool.or_eq_false_iff, beq_eq_false_iff_ne, ne_eq]
    omega
  · intro he; rw [he] at hn; exact absurd hn (by decide)
  · intro he; rw [he] at hn; exact absurd hn (by decide)

end InfluxQL

import InfluxQL.Model.ParserCore
/-
Token-level behaviour of the parser plumbing on pushed-back tokens: with `n = k + 1` tokens
pushed back, `Scan` / `ScanIgnoreWhitespace` re-deliver entry `k` of the ring and leave `k`
pushed back. These lemmas let clause-level statements be phrased over token sequences
(independent of the scanner).
-/
namespace InfluxQL
open Gen

/-- Sequencing in `P` when the first action is known to succeed. -/
theorem P.run_bind {α β} (x : P α) (f : α → P β) (s : PState) (a : α) (s' : PState) (h : x.run s = .ok (a, s')) :
    (x >>= f).run s = (f a).run s' := by
  simp only [StateT.run, bind, StateT.bind, Except.bind] at h ⊢
  rw [h]

/-- `Parser.Scan()` with a token pushed back: it is re-delivered (bound parameters aside). -/
theorem pscan_buffered (s : PState) (k : Nat) (lx : Lexeme) (hn : s.n = k + 1) (hb : s.buf[k]? = some lx)
    (ht : lx.tok ≠ .BOUNDPARAM) :
    pscan.run s = .ok (lx, { s with n := k }) := by
  unfold pscan pscanWith
  simp [hn, hb, ht, StateT.run, bind, StateT.bind, get, getThe, MonadStateOf.get, StateT.get, set, StateT.set, pure,
    StateT.pure, Except.pure, Except.bind]

/-- `ScanIgnoreWhitespace` with a significant token pushed back. -/
theorem scanIW_buffered (s : PState) (k : Nat) (lx : Lexeme) (hn : s.n = k + 1) (hb : s.buf[k]? = some lx)
    (ht : lx.tok ≠ .BOUNDPARAM) (hw : lx.tok ≠ .WS) (hc : lx.tok ≠ .COMMENT) :
    scanIW.run s = .ok (lx, { s with n := k }) := by
  have hp := pscan_buffered s k lx hn hb ht
  unfold scanIW
  simp only [StateT.run, bind, StateT.bind, get, getThe, MonadStateOf.get, StateT.get, Except.bind, pure, Except.pure]
  rw [show s.n + s.r.rest.length + 2 = (s.n + s.r.rest.length + 1) + 1 from rfl]
  unfold scanIWLoop
  simp only [StateT.run, bind, StateT.bind, Except.bind] at hp ⊢
  rw [hp]
  simp [hw, hc, pure, StateT.pure, Except.pure]

/-- `Unscan()`. -/
theorem unscan_run (s : PState) : unscan.run s = .ok ((), { s with n := s.n + 1 }) := by
  simp [unscan, StateT.run, modify, modifyGet, MonadStateOf.modifyGet, StateT.modifyGet, pure, Except.pure]

end InfluxQL

import InfluxQL.Lemmas.SelectRegexSelect
import InfluxQL.Lemmas.SelectCQ
/-
EXPLAIN and CREATE CONTINUOUS QUERY over the SELECT class with regex sources and regex dimensions (`selOKR`):
the proofs of `Lemmas/SelectExplain.lean` / `Lemmas/SelectCQ.lean` restated over `parseSelect_subR`.
-/
namespace InfluxQL
open Gen

/-- The pieces are what `ExplainStatement.String()` writes. -/
theorem explain_print_eqR (tbl : List (Char × Char)) (n : Nat) (st : SelectStmt) (analyze verbose : Bool)
    (h : selOKR tbl n st = true) :
    (Statement.explain st analyze verbose).print = tx "EXPLAIN" ++ explainText analyze verbose st := by
  obtain ⟨y, hy⟩ := selOKR_print tbl n st h
  have hp : (Statement.explain st analyze verbose).print =
      tx "EXPLAIN " ++ (if analyze then tx "ANALYZE " else []) ++ (if verbose then tx "VERBOSE " else []) ++ st.print := rfl
  have e1 : tx "EXPLAIN " = tx "EXPLAIN" ++ [' '] := by decide +kernel
  have e2 : tx "ANALYZE " = Token.ANALYZE.str ++ [' '] := by decide +kernel
  have e3 : tx "VERBOSE " = Token.VERBOSE.str ++ [' '] := by decide +kernel
  have ht : st.print = Token.SELECT.str ++ selectTail st := by
    rw [selectTail_of_print hy, ← tx_select]; exact hy
  rw [hp, ht, e1, e2, e3]
  cases analyze <;> cases verbose <;>
    simp only [explainText, optKwText, if_true, if_false, Bool.false_eq_true, List.append_assoc, List.cons_append,
      List.nil_append, List.append_nil]

/-- **`parseExplainStatement`** on the printed statement. -/
theorem parseExplain_printR (n fuel : Nat) (s : PState) (st : SelectStmt) (analyze verbose : Bool) (k : Str)
    (hok : selOKR s.lowerTbl n st = true) (hk : Follow k bodyStop)
    (hs : s.Before (explainText analyze verbose st ++ k)) :
    wp (parseExplain (fuel + n + 3)) s (fun r s' => r = .explain st analyze verbose ∧ RT.Stand s' k) (· = .fuel) := by
  obtain ⟨y, hy⟩ := selOKR_print _ n st hok
  have hty : selectTail st = ' ' :: y := selectTail_of_print hy
  have hwe : WordEnd (selectTail st ++ k) := by rw [hty]; exact WordEnd.blank _
  have hsel : RT.Starts (' ' :: (Token.SELECT.str ++ (selectTail st ++ k))) .SELECT :=
    starts_kw .SELECT _ (by decide +kernel) hwe
  have hver : ∃ T, RT.Starts (optKwText .VERBOSE verbose ++ ' ' :: (Token.SELECT.str ++ (selectTail st ++ k))) T ∧
      T ≠ .ANALYZE ∧ WordEnd (optKwText .VERBOSE verbose ++ ' ' :: (Token.SELECT.str ++ (selectTail st ++ k))) := by
    cases verbose with
    | false => exact ⟨.SELECT, by simpa [optKwText] using hsel, by decide, by simpa [optKwText] using WordEnd.blank _⟩
    | true =>
      refine ⟨.VERBOSE, ?_, by decide, by simpa [optKwText] using WordEnd.blank _⟩
      have := starts_kw .VERBOSE (' ' :: (Token.SELECT.str ++ (selectTail st ++ k))) (by decide +kernel) (WordEnd.blank _)
      simpa [optKwText] using this
  have hs1 : RT.Stand s (optKwText .ANALYZE analyze ++ (optKwText .VERBOSE verbose ++
      ' ' :: (Token.SELECT.str ++ (selectTail st ++ k)))) := by
    simpa [explainText, List.append_assoc] using hs.stand
  obtain ⟨T, hT, hne, hwv⟩ := hver
  obtain ⟨s1, h1, st1⟩ := optKw_stand .ANALYZE analyze s _ T (by decide +kernel) hwv hT hne hs1
  obtain ⟨s2, h2, st2⟩ := optKw_stand .VERBOSE verbose s1 _ .SELECT (by decide +kernel) (WordEnd.blank _) hsel
    (by decide) st1
  obtain ⟨lx3, s3, h3, t3, _, b3⟩ := scanIW_stand s2 [' '] Token.SELECT.str _ .SELECT [] Gap.blank (by simpa using st2)
    (scansAs_kw .SELECT _ (by decide +kernel) hwe)
  have h3' : (expectTok .SELECT ["SELECT"]).run s2 = .ok ((), s3) := by
    unfold expectTok
    rw [P.run_bind _ _ _ _ _ h3]
    simp [t3, StateT.run, pure, StateT.pure, Except.pure]
  have tb3 : s3.lowerTbl = s.lowerTbl :=
    ((((optTok_frame _).run h1).trans ((optTok_frame _).run h2)).trans (scanIW_frame.run h3)).2
  unfold parseExplain
  rw [wp_bind, wp_of_run_ok h1, wp_bind, wp_of_run_ok h2, wp_bind, wp_of_run_ok h3', wp_bind]
  refine wp_mono (parseSelect_subR s.lowerTbl n fuel false st s3 k hok (fun h => by cases h) tb3 hk b3) ?_ (fun _ h => h)
  intro r s' ⟨hr, hs'⟩
  rw [wp_pure, hr]
  exact ⟨rfl, hs'⟩

/-- The pieces are what `CreateContinuousQueryStatement.String()` writes. -/
theorem cq_print_eqR (tbl : List (Char × Char)) (n : Nat) (name db : Str) (ev fo : Int) (st : SelectStmt)
    (h : selOKR tbl n st = true) :
    (Statement.createContinuousQuery name db st ev fo).print =
      tx "CREATE CONTINUOUS QUERY" ++ cqText name db ev fo st := by
  obtain ⟨y, hy⟩ := selOKR_print tbl n st h
  have hp : (Statement.createContinuousQuery name db st ev fo).print =
      tx "CREATE CONTINUOUS QUERY " ++ qi name ++ tx " ON " ++ qi db ++ tx " " ++
      (if ev > 0 ∨ fo > 0 then
        tx "RESAMPLE " ++ (if ev > 0 then tx "EVERY " ++ formatDuration ev ++ tx " " else []) ++
        (if fo > 0 then tx "FOR " ++ formatDuration fo ++ tx " " else [])
       else []) ++
      tx "BEGIN " ++ st.print ++ tx " END" := rfl
  have e1 : tx "CREATE CONTINUOUS QUERY " = tx "CREATE CONTINUOUS QUERY" ++ [' '] := by decide +kernel
  have e2 : tx " ON " = ' ' :: (Token.ON.str ++ [' ']) := by decide +kernel
  have e3 : tx " " = [' '] := by decide +kernel
  have e4 : tx "RESAMPLE " = Token.RESAMPLE.str ++ [' '] := by decide +kernel
  have e5 : tx "EVERY " = Token.EVERY.str ++ [' '] := by decide +kernel
  have e6 : tx "FOR " = Token.FOR.str ++ [' '] := by decide +kernel
  have e7 : tx "BEGIN " = Token.BEGIN.str ++ [' '] := by decide +kernel
  have e8 : tx " END" = ' ' :: Token.END.str := by decide +kernel
  have ht : st.print = Token.SELECT.str ++ selectTail st := by
    rw [selectTail_of_print hy, ← tx_select]; exact hy
  rw [hp, ht, e1, e2, e3, e4, e5, e6, e7, e8]
  unfold cqText resampleText durKwText
  by_cases h1 : ev > 0 <;> by_cases h2 : fo > 0 <;>
    simp only [h1, h2, or_true, true_or, or_self, if_true, if_false, List.append_assoc, List.cons_append,
      List.nil_append, List.append_nil]

/-- **`parseCreateContinuousQueryStatement`** on the printed statement. -/
theorem parseCQ_printR (n fuel : Nat) (s : PState) (name db : Str) (ev fo : Int) (st : SelectStmt) (k : Str)
    (hex1 : Expressible name) (hex2 : Expressible db) (hev : LimOK ev) (hfo : LimOK fo)
    (hok : selOKR s.lowerTbl n st = true) (htgt : st.target ≠ none) (hcq : cqOKB st ev fo = true) (hk : WordEnd k)
    (hs : s.Before (cqText name db ev fo st ++ k)) :
    wp (parseCreateContinuousQuery (fuel + n + 3)) s
      (fun r s' => r = .createContinuousQuery name db st ev fo ∧ RT.Stand s' k) (· = .fuel) := by
  obtain ⟨y, hy⟩ := selOKR_print _ n st hok
  have hty : selectTail st = ' ' :: y := selectTail_of_print hy
  have e : cqText name db ev fo st ++ k = ' ' :: (qi name ++ ' ' :: (Token.ON.str ++ ' ' :: (qi db ++
      (resampleText ev fo ++ ' ' :: (Token.BEGIN.str ++ ' ' :: (Token.SELECT.str ++ (selectTail st ++
      ' ' :: (Token.END.str ++ k)))))))) := by
    simp only [cqText, List.append_assoc, List.cons_append]
  rw [e] at hs
  have hwr : WordEnd (resampleText ev fo ++ ' ' :: (Token.BEGIN.str ++ ' ' :: (Token.SELECT.str ++ (selectTail st ++
      ' ' :: (Token.END.str ++ k))))) := by
    unfold resampleText; split
    · simp only [List.cons_append]; exact WordEnd.blank _
    · exact WordEnd.blank _
  have hwe : WordEnd (selectTail st ++ ' ' :: (Token.END.str ++ k)) := by rw [hty]; exact WordEnd.blank _
  obtain ⟨s1, h1, b1⟩ := parseIdent_piece s [' '] (qi name) _ name Gap.blank hs.around
    (scansAs_ident name _ hex1 (.of_wordEnd (WordEnd.blank _)))
  obtain ⟨s2, h2, b2⟩ := expectTok_piece s1 [' '] Token.ON.str _ .ON [] ["ON"] Gap.blank b1.around
    (scansAs_kw .ON _ (by decide +kernel) (WordEnd.blank _))
  obtain ⟨s3, h3, b3⟩ := parseIdent_piece s2 [' '] (qi db) _ db Gap.blank b2.around
    (scansAs_ident db _ hex2 (.of_wordEnd hwr))
  obtain ⟨s4, h4, b4⟩ := cq_resample s3 ev fo _ hev hfo (WordEnd.blank _) b3.around
  obtain ⟨s5, h5, b5⟩ := parseTokens_cons_piece s4 [' '] Token.BEGIN.str _ .BEGIN [.SELECT] [] Gap.blank b4
    (scansAs_kw .BEGIN _ (by decide +kernel) (WordEnd.blank _))
  obtain ⟨s6, h6, b6⟩ := parseTokens_cons_piece s5 [' '] Token.SELECT.str _ .SELECT [] [] Gap.blank b5.around
    (scansAs_kw .SELECT _ (by decide +kernel) hwe)
  have h56 : (parseTokens [.BEGIN, .SELECT]).run s4 = .ok ((), s6) := (h5.trans h6).trans (parseTokens_nil_run s6)
  have tb6 : s6.lowerTbl = s.lowerTbl :=
    (((((parseIdent_frame.run h1).trans ((expectTok_frame _ _).run h2)).trans (parseIdent_frame.run h3)).trans
      (resampleOpt_frame.run h4)).trans ((parseTokens_frame _).run h56)).2
  have hfe : Follow (' ' :: (Token.END.str ++ k)) bodyStop :=
    Follow.kw .END k bodyStop (by decide +kernel) rfl (by decide) hk
  -- the checks after the statement
  unfold cqOKB at hcq
  simp only [Bool.and_eq_true, Bool.or_eq_true] at hcq
  obtain ⟨hiv, hval⟩ := hcq
  unfold parseCreateContinuousQuery
  rw [wp_bind, wp_of_run_ok h1, wp_bind, wp_of_run_ok h2, wp_bind, wp_of_run_ok h3, wp_bind, wp_of_run_ok h4]
  dsimp only
  rw [wp_bind, wp_of_run_ok h56, wp_bind]
  refine wp_mono (parseSelect_subR s.lowerTbl n fuel true st s6 _ hok (fun _ => htgt) tb6 hfe b6) ?_ (fun _ h => h)
  intro r s7 ⟨hr, st7⟩
  subst hr
  obtain ⟨lx8, s8, h8, t8, _, b8⟩ := scanIW_stand s7 [' '] Token.END.str k .END [] Gap.blank (by simpa using st7)
    (scansAs_kw .END k (by decide +kernel) hk)
  have h8' : (expectTok .END ["END"]).run s7 = .ok ((), s8) := by
    unfold expectTok
    rw [P.run_bind _ _ _ _ _ h8]
    simp [t8, StateT.run, pure, StateT.pure, Except.pure]
  have hvalid : validateCQ r ev fo = .ok () := by
    cases hv : validateCQ r ev fo with
    | ok u => rfl
    | error e => rw [hv] at hval; cases hval
  by_cases hraw : r.isRawQuery = true
  · rw [wp_ite, if_neg (by simp [hraw]), wp_bind, wp_of_run_ok h8', hvalid]
    dsimp only
    rw [wp_pure]
    exact ⟨rfl, b8.stand⟩
  · rw [wp_ite, if_pos (by simpa using hraw)]
    rcases hiv with hiv | hiv
    · exact absurd hiv hraw
    · cases hg : r.groupByInterval with
      | error e => rw [hg] at hiv; cases hiv
      | ok d =>
        rw [hg] at hiv
        have hd : ¬ d = 0 := by simpa using hiv
        dsimp only
        rw [if_neg hd]
        dsimp only
        rw [wp_bind, wp_of_run_ok h8', hvalid]
        dsimp only
        rw [wp_pure]
        exact ⟨rfl, b8.stand⟩

end InfluxQL

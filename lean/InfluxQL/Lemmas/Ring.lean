import InfluxQL.Model.Ring
/-
The 3-slot rings of scanner.go refine an unbounded history (for every operation sequence the
depth assertion lets through), and the rune reader's ring is the look-ahead of the pure cursor of
`Model/Reader.lean`.
-/
namespace InfluxQL.Ring
open InfluxQL Gen

variable {α σ : Type}

/-! ## slots -/

theorem mod3_cases (j : Nat) : j % 3 = 0 ∨ j % 3 = 1 ∨ j % 3 = 2 := by omega

theorem Buf.get_congr (b : Buf α) {j j' : Nat} (h : j % 3 = j' % 3) : b.get j = b.get j' := by
  unfold Buf.get; rw [h]

theorem Buf.get_set_same (b : Buf α) (j j' : Nat) (x : α) (h : j % 3 = j' % 3) :
    (b.set j x).get j' = x := by
  unfold Buf.get Buf.set
  rw [← h]
  rcases mod3_cases j with h | h | h <;> simp [h]

theorem Buf.get_set_other (b : Buf α) (j j' : Nat) (x : α) (h : j % 3 ≠ j' % 3) :
    (b.set j x).get j' = b.get j' := by
  unfold Buf.get Buf.set
  rcases mod3_cases j with h1 | h1 | h1 <;> rcases mod3_cases j' with h2 | h2 | h2 <;>
    simp [h1, h2] <;> omega

/-! ## ring ⊑ history -/

/-- The ring holds the three most recent entries of the history, in the slots the code puts them. -/
def Sim (z : α) (r : Ring α σ) (h : Hist α σ) : Prop :=
  r.src = h.src ∧ r.n = h.n ∧ 3 ≤ h.hist.length ∧ r.i = h.hist.length % 3 ∧
  ∀ j, j < 3 → r.buf.get (h.hist.length - j) = h.hist.getD j z

theorem sim_init (z : α) (s : σ) : Sim z (Ring.init z s) (Hist.init z s) := by
  refine ⟨rfl, rfl, by simp [Hist.init], by simp [Hist.init, Ring.init], ?_⟩
  intro j hj
  have hg : ∀ m, (Ring.init z s).buf.get m = z := by
    intro m
    unfold Buf.get Ring.init
    rcases mod3_cases m with h | h | h <;> simp [h]
  rw [hg]
  match j, hj with
  | 0, _ => rfl
  | 1, _ => rfl
  | 2, _ => rfl

theorem sim_unread (z : α) (r : Ring α σ) (h : Hist α σ) (hs : Sim z r h) :
    Sim z r.unread h.unread := by
  obtain ⟨h1, h2, h3, h4, h5⟩ := hs
  exact ⟨h1, by simp [Ring.unread, Hist.unread, h2], h3, h4, h5⟩

theorem sim_curr (z : α) (r : Ring α σ) (h : Hist α σ) (hs : Sim z r h) (x : α)
    (hc : r.currChecked = some x) : h.curr z = x := by
  obtain ⟨_, h2, h3, h4, h5⟩ := hs
  unfold Ring.currChecked at hc
  split at hc
  · cases hc
  · rename_i hn
    simp only [ringSlots, ge_iff_le, Nat.not_le] at hn
    simp only [Option.some.injEq] at hc
    rw [← hc, Hist.curr, ← h2, ← h5 r.n hn]
    unfold Ring.curr
    apply Buf.get_congr
    simp only [ringSlots, h4]
    omega

theorem sim_read (z : α) (next : σ → α × σ) (r : Ring α σ) (h : Hist α σ) (hs : Sim z r h)
    (x : α) (r' : Ring α σ) (hr : r.read next = some (x, r')) :
    (h.read z next).1 = x ∧ Sim z r' (h.read z next).2 := by
  have hs' := hs
  obtain ⟨h1, h2, h3, h4, h5⟩ := hs
  unfold Ring.read at hr
  unfold Hist.read
  by_cases hn : r.n > 0
  · have hn' : h.n > 0 := h2 ▸ hn
    simp only [hn, ↓reduceIte, Option.map_eq_some_iff, Prod.mk.injEq] at hr
    obtain ⟨y, hy, rfl, rfl⟩ := hr
    simp only [hn', ↓reduceIte]
    have hsim : Sim z { r with n := r.n - 1 } { h with n := h.n - 1 } :=
      ⟨h1, by simp [h2], h3, h4, h5⟩
    exact ⟨sim_curr z _ _ hsim y hy, hsim⟩
  · have hn' : ¬ h.n > 0 := h2 ▸ hn
    simp only [hn, ↓reduceIte, Option.map_eq_some_iff, Prod.mk.injEq] at hr
    obtain ⟨y, hy, rfl, rfl⟩ := hr
    simp only [hn', ↓reduceIte]
    have hn0 : r.n = 0 := by omega
    have hsim : Sim z
        { src := (next r.src).2, i := (r.i + 1) % ringSlots, n := r.n,
          buf := r.buf.set ((r.i + 1) % ringSlots) (next r.src).1 }
        { src := (next h.src).2, hist := (next h.src).1 :: h.hist, n := h.n } := by
      refine ⟨by simp [h1], h2, by simp only [List.length_cons]; omega,
        by simp only [ringSlots, h4, List.length_cons]; omega, ?_⟩
      intro j hj
      simp only [List.length_cons]
      match j, hj with
      | 0, _ =>
        simp only [Nat.sub_zero, List.getD_cons_zero]
        rw [h1]
        apply Buf.get_set_same
        simp only [ringSlots, h4]; omega
      | j + 1, hj =>
        simp only [List.getD_cons_succ]
        rw [Buf.get_set_other]
        · rw [← h5 j (by omega)]
          apply Buf.get_congr; omega
        · simp only [ringSlots, h4]; omega
    refine ⟨?_, hsim⟩
    have := sim_curr z _ _ hsim y hy
    simp only [Hist.curr] at this
    have h0 : h.n = 0 := by omega
    simpa [h0] using this

/-- **Ring ⊑ history.** On every operation sequence that the depth assertion lets through, the
3-slot ring returns exactly what the unbounded history returns, and stays related to it. -/
theorem ring_refines_hist (z : α) (ops : List (Op α σ)) (r : Ring α σ) (h : Hist α σ)
    (hs : Sim z r h) (outs : List α) (r' : Ring α σ) (hrun : r.run ops = some (outs, r')) :
    (Hist.run z ops h).1 = outs ∧ Sim z r' (Hist.run z ops h).2 := by
  induction ops generalizing r h outs with
  | nil =>
    simp only [Ring.run, Option.some.injEq, Prod.mk.injEq] at hrun
    obtain ⟨rfl, rfl⟩ := hrun
    exact ⟨rfl, hs⟩
  | cons op ops ih =>
    cases op with
    | read next =>
      simp only [Ring.run] at hrun
      split at hrun
      · cases hrun
      · rename_i x r1 hr
        simp only [Option.map_eq_some_iff, Prod.mk.injEq] at hrun
        obtain ⟨⟨xs, r2⟩, hrest, rfl, rfl⟩ := hrun
        obtain ⟨hx, hsim⟩ := sim_read z next r h hs x r1 hr
        obtain ⟨ho, hs2⟩ := ih r1 _ hsim xs hrest
        simp only [Hist.run]
        exact ⟨by rw [hx, ho], hs2⟩
    | unread =>
      simp only [Ring.run] at hrun
      exact ih r.unread h.unread (sim_unread z r h hs) outs hrun
    | curr =>
      simp only [Ring.run] at hrun
      split at hrun
      · cases hrun
      · rename_i x hc
        simp only [Option.map_eq_some_iff, Prod.mk.injEq] at hrun
        obtain ⟨⟨xs, r2⟩, hrest, rfl, rfl⟩ := hrun
        obtain ⟨ho, hs2⟩ := ih r h hs xs hrest
        simp only [Hist.run]
        exact ⟨by rw [sim_curr z r h hs x hc, ho], hs2⟩

/-! ## a fixed producer: the history is a window on one stream -/

/-- The source state after `j` deliveries. -/
def nthSrc (next : σ → α × σ) : σ → Nat → σ
  | s, 0 => s
  | s, j + 1 => nthSrc next (next s).2 j

/-- The `j`-th element delivered from `s`. -/
def nthItem (next : σ → α × σ) : σ → Nat → α
  | s, 0 => (next s).1
  | s, j + 1 => nthItem next (next s).2 j

theorem nthSrc_succ (next : σ → α × σ) (s : σ) (j : Nat) :
    nthSrc next s (j + 1) = (next (nthSrc next s j)).2 := by
  induction j generalizing s with
  | zero => rfl
  | succ j ih => simp only [nthSrc]; exact ih _

theorem nthItem_eq (next : σ → α × σ) (s : σ) (j : Nat) :
    nthItem next s j = (next (nthSrc next s j)).1 := by
  induction j generalizing s with
  | zero => rfl
  | succ j ih => simp only [nthItem, nthSrc]; exact ih _

/-! ## the rune reader delivers the stamped stream -/

theorem readerNext_spec (t : List Char) (pos : Pos) (e : Bool) :
    ∃ ch t', readerNext ⟨t, pos, e⟩ = ((ch, pos), ⟨t', advance ch pos e, e || ch == eofRune⟩) ∧
      ((t = [] ∧ ch = eofRune ∧ t' = []) ∨ (foldCR t = ch :: foldCR t')) := by
  unfold readerNext
  simp only
  split
  · exact ⟨eofRune, [], rfl, Or.inl ⟨rfl, rfl, rfl⟩⟩
  · rename_i t'
    exact ⟨'\n', t', rfl, Or.inr (by simp [foldCR])⟩
  · rename_i t' hne
    refine ⟨'\n', t', rfl, Or.inr ?_⟩
    rw [foldCR.eq_3]
    intro t'' h; exact hne t'' h
  · rename_i c t' h1 h2
    refine ⟨c, t', rfl, Or.inr ?_⟩
    rw [foldCR.eq_4]
    · intro t'' h; exact h1 t'' h
    · exact h2

theorem eofRune_ne_nl : eofRune ≠ '\n' := by decide

theorem advance_eof_true (p : Pos) : advance eofRune p true = p := by
  simp [advance, eofRune_ne_nl]

/-- The rune reader delivers the stamped stream of `Model/Reader.lean`: the `j`-th rune read from
the underlying scanner in state `(t, pos, e)` is the `j`-th entry of
`stampRunes (foldCR t ++ [NUL]) pos e`, and `(NUL, final position)` after that. -/
theorem reader_items (j : Nat) (t : List Char) (pos : Pos) (e : Bool) :
    nthItem readerNext ⟨t, pos, e⟩ j =
      (stampRunes (foldCR t ++ [eofRune]) pos e).getD j
        (eofRune, (finalState (foldCR t ++ [eofRune]) pos e).1) := by
  induction j generalizing t pos e with
  | zero =>
    obtain ⟨ch, t', hn, h⟩ := readerNext_spec t pos e
    simp only [nthItem, hn]
    rcases h with ⟨rfl, rfl, rfl⟩ | h
    · simp [foldCR, stampRunes]
    · simp [h, stampRunes]
  | succ j ih =>
    obtain ⟨ch, t', hn, h⟩ := readerNext_spec t pos e
    simp only [nthItem, hn]
    rw [ih]
    rcases h with ⟨rfl, rfl, rfl⟩ | h
    · simp only [foldCR, List.nil_append, stampRunes, finalState, BEq.rfl, Bool.or_true,
        List.getD_cons_succ]
      cases j with
      | zero => simp [advance_eof_true]
      | succ j => simp [advance_eof_true]
    · simp [h, stampRunes, finalState]

/-- …that is, the stream the pure cursor walks over. -/
theorem reader_items_streamAt (text : List Char) (j : Nat) :
    nthItem readerNext ⟨text, ⟨0, 0⟩, false⟩ j = streamAt text j := by
  rw [reader_items]; rfl


/-! ## the history of the rune reader is a window on that stream -/

/-- Never push back what was not read: at every prefix at least as many `read`s as `unread`s
(`k` = reads minus unreads so far). -/
def Balanced : List ROp → Nat → Bool
  | [], _ => true
  | .read :: ops, k => Balanced ops (k + 1)
  | .unread :: ops, k => decide (k > 0) && Balanced ops (k - 1)
  | .curr :: ops, k => Balanced ops k

def src0 (text : List Char) : RSrc := { rest := text, pos := ⟨0, 0⟩, eof := false }

/-- The history machine at logical position `k` of the stream of `text`. -/
def Win (text : List Char) (h : Hist (Char × Pos) RSrc) (k : Nat) : Prop :=
  h.src = nthSrc readerNext (src0 text) (k + h.n) ∧
  ∀ j, h.hist.getD j zeroSlot =
    if j < k + h.n then streamAt text (k + h.n - 1 - j) else zeroSlot

theorem win_init (text : List Char) : Win text (Hist.init zeroSlot (src0 text)) 0 := by
  refine ⟨rfl, ?_⟩
  intro j
  simp only [Hist.init, Nat.add_zero, Nat.not_lt_zero, ↓reduceIte]
  match j with
  | 0 => rfl
  | 1 => rfl
  | 2 => rfl
  | j + 3 => rfl

theorem hist_is_lookahead (text : List Char) (ops : List ROp) (h : Hist (Char × Pos) RSrc) (k : Nat)
    (hw : Win text h k) (hb : Balanced ops k = true) :
    (Hist.run zeroSlot (ops.map ROp.toOp) h).1 = idxRun text ops k := by
  induction ops generalizing h k with
  | nil => rfl
  | cons op ops ih =>
    obtain ⟨hsrc, hget⟩ := hw
    cases op with
    | read =>
      simp only [Balanced] at hb
      simp only [List.map_cons, ROp.toOp, Hist.run, idxRun]
      by_cases hn : h.n > 0
      · have hw' : Win text { h with n := h.n - 1 } (k + 1) := by
          refine ⟨by simp only [hsrc]; congr 1; omega, ?_⟩
          intro j
          rw [hget j]
          have e1 : k + 1 + (h.n - 1) = k + h.n := by omega
          simp only [e1]
        have hout : (h.read zeroSlot readerNext).1 = streamAt text k := by
          simp only [Hist.read, hn, ↓reduceIte, Hist.curr]
          rw [hget]
          have : h.n - 1 < k + h.n := by omega
          simp only [this, ↓reduceIte]
          congr 1; omega
        have hst : (h.read zeroSlot readerNext).2 = { h with n := h.n - 1 } := by
          simp only [Hist.read, hn, ↓reduceIte]
        rw [← ih _ (k + 1) (hst ▸ hw') hb, hout]
      · have hn0 : h.n = 0 := by omega
        have hx : (readerNext h.src).1 = streamAt text k := by
          rw [hsrc, hn0, Nat.add_zero, ← nthItem_eq]
          exact reader_items_streamAt text k
        have hout : (h.read zeroSlot readerNext).1 = streamAt text k := by
          simp only [Hist.read, hn, ↓reduceIte]; exact hx
        have hw' : Win text (h.read zeroSlot readerNext).2 (k + 1) := by
          simp only [Hist.read, hn, ↓reduceIte]
          refine ⟨?_, ?_⟩
          · simp only [hn0, Nat.add_zero]
            rw [nthSrc_succ, hsrc, hn0, Nat.add_zero]
          · intro j
            simp only [hn0, Nat.add_zero]
            match j with
            | 0 =>
              simp only [List.getD_cons_zero, Nat.zero_lt_succ, ↓reduceIte, Nat.add_sub_cancel,
                Nat.sub_zero]
              exact hx
            | j + 1 =>
              simp only [List.getD_cons_succ]
              rw [hget j]
              simp only [hn0, Nat.add_zero, Nat.add_lt_add_iff_right]
              split
              · congr 1; omega
              · rfl
        rw [← ih _ (k + 1) hw' hb, hout]
    | unread =>
      simp only [Balanced, Bool.and_eq_true, decide_eq_true_eq] at hb
      simp only [List.map_cons, ROp.toOp, Hist.run, idxRun]
      apply ih _ (k - 1) _ hb.2
      refine ⟨by simp only [Hist.unread, hsrc]; congr 1; omega, ?_⟩
      intro j
      simp only [Hist.unread]
      rw [hget j]
      have e1 : k - 1 + (h.n + 1) = k + h.n := by omega
      simp only [e1]
    | curr =>
      simp only [Balanced] at hb
      simp only [List.map_cons, ROp.toOp, Hist.run, idxRun]
      rw [ih h k ⟨hsrc, hget⟩ hb]
      congr 1
      simp only [Hist.curr]
      rw [hget]
      by_cases hk : k = 0
      · simp [hk]
      · have : h.n < k + h.n := by omega
        simp only [this, ↓reduceIte, hk]
        congr 1; omega

/-! ## when the depth assertion passes -/

/-- The push-back depth stays within the ring: `n < 3` whenever `curr()` runs (also inside a
`read` that re-delivers). -/
def depthOK : List (Op α σ) → Nat → Bool
  | [], _ => true
  | .read _ :: ops, n => if n > 0 then decide (n - 1 < 3) && depthOK ops (n - 1) else depthOK ops 0
  | .unread :: ops, n => depthOK ops (n + 1)
  | .curr :: ops, n => decide (n < 3) && depthOK ops n

theorem currChecked_isSome (r : Ring α σ) : r.currChecked.isSome = decide (r.n < 3) := by
  unfold Ring.currChecked
  by_cases h : r.n ≥ ringSlots
  · have : ¬ r.n < 3 := by simp only [ringSlots] at h; omega
    simp [h, this]
  · have : r.n < 3 := by simp only [ringSlots] at h; omega
    simp [h, this]

/-- The checked ring gets through an operation sequence exactly when the push-back depth stays
below the number of slots. -/
theorem ring_run_isSome (ops : List (Op α σ)) (r : Ring α σ) :
    (r.run ops).isSome = depthOK ops r.n := by
  induction ops generalizing r with
  | nil => rfl
  | cons op ops ih =>
    cases op with
    | read next =>
      simp only [Ring.run, depthOK]
      by_cases hn : r.n > 0
      · simp only [Ring.read, hn, ↓reduceIte]
        have hc := currChecked_isSome ({ r with n := r.n - 1 } : Ring α σ)
        cases hcc : ({ r with n := r.n - 1 } : Ring α σ).currChecked with
        | none =>
          rw [hcc] at hc
          simp only [Option.isSome_none] at hc
          simp [← hc]
        | some x =>
          rw [hcc] at hc
          simp only [Option.isSome_some] at hc
          simp only [Option.map_some, ← hc, Bool.true_and]
          have h2 := ih ({ r with n := r.n - 1 } : Ring α σ)
          simp only at h2
          rw [← h2]
          cases Ring.run ops ({ r with n := r.n - 1 } : Ring α σ) <;> rfl
      · have hn0 : r.n = 0 := by omega
        simp only [Ring.read, hn, ↓reduceIte]
        generalize hr' : (Ring.mk (next r.src).2 ((r.i + 1) % ringSlots) r.n
          (r.buf.set ((r.i + 1) % ringSlots) (next r.src).1) : Ring α σ) = r'
        have hr'n : r'.n = 0 := by rw [← hr']; exact hn0
        have hc := currChecked_isSome r'
        simp only [hr'n, Nat.zero_lt_succ, decide_true] at hc
        cases hcc : r'.currChecked with
        | none => rw [hcc] at hc; cases hc
        | some x =>
          simp only [Option.map_some]
          have h2 := ih r'
          rw [hr'n] at h2
          rw [← h2]
          cases Ring.run ops r' <;> rfl
    | unread =>
      simp only [Ring.run, depthOK]
      exact ih r.unread
    | curr =>
      simp only [Ring.run, depthOK]
      have hc := currChecked_isSome r
      cases hcc : r.currChecked with
      | none =>
        rw [hcc] at hc
        simp only [Option.isSome_none] at hc
        simp [← hc]
      | some x =>
        rw [hcc] at hc
        simp only [Option.isSome_some] at hc
        simp only [← hc, Bool.true_and]
        rw [← ih]
        cases Ring.run ops r <;> rfl

end InfluxQL.Ring

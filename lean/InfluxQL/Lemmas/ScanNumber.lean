import InfluxQL.Lemmas.Quote
import InfluxQL.Lemmas.QuoteConv
/-
Duration literals as tokens: digits followed by a unit letter (or µ) and any further letters,
µ and digits scan as ONE `DURATIONVAL` token whose literal is exactly the written text.
-/
namespace InfluxQL
open Gen

theorem isDurChar_facts {c : Char} (h : isDurChar c = true) :
    isDigit c = false ∧ c ≠ '.' ∧ c ≠ eofRune ∧ isDurTailChar c = true := by
  unfold isDurChar at h
  simp only [Bool.or_eq_true, beq_iff_eq] at h
  refine ⟨?_, ?_, ?_, by unfold isDurTailChar; rcases h with h | h <;> simp [h]⟩
  · cases hd : isDigit c with
    | false => rfl
    | true =>
      exfalso
      unfold isDigit at hd
      unfold isLetter at h
      simp only [Bool.and_eq_true, decide_eq_true_eq, Bool.or_eq_true] at hd h
      omega
  · intro hc; subst hc; revert h; decide
  · intro hc; subst hc; revert h; decide

theorem isDurTailChar_ne_eof {c : Char} (h : isDurTailChar c = true) : c ≠ eofRune := by
  intro hc; subst hc; revert h; decide

theorem isDigit_facts {c : Char} (h : isDigit c = true) :
    isWhitespace c = false ∧ (isLetter c || c == '_') = false := by
  unfold isDigit at h
  simp only [Bool.and_eq_true, decide_eq_true_eq] at h
  constructor
  · cases hw : isWhitespace c with
    | false => rfl
    | true =>
      exfalso
      unfold isWhitespace at hw
      simp only [Bool.or_eq_true, beq_iff_eq] at hw
      omega
  · cases hl : (isLetter c || c == '_') with
    | false => rfl
    | true =>
      exfalso
      unfold isLetter at hl
      simp only [Bool.or_eq_true, Bool.and_eq_true, decide_eq_true_eq, beq_iff_eq] at hl
      rcases hl with hl | hl
      · omega
      · rw [hl] at h; revert h; decide

/-- `readWhile p` reads exactly `s` when `s` satisfies `p` and the next rune does not. -/
theorem Cursor.readWhile_exact (p : Char → Bool) (r : Cursor) (s : List Char) (x : Char) (t : List Char)
    (h : r.rest.map Prod.fst = s ++ x :: t) (hs : ∀ c ∈ s, p c = true ∧ c ≠ eofRune) (hx : p x = false) :
    (r.readWhile p).1 = s ∧ (r.readWhile p).2.rest.map Prod.fst = x :: t ∧ (r.readWhile p).2.fin = r.fin := by
  have := spanStamped_exact p s (x :: t) r.rest r.prev r.off h hs
    (fun y u hyu => by simp at hyu; rw [← hyu.1]; simp [hx])
  exact ⟨this.1, this.2, rfl⟩

/-- **Duration literals are single tokens.** -/
theorem scan_duration_token (r : Cursor) (ds tail : List Char) (c x : Char) (t : List Char)
    (h : r.rest.map Prod.fst = ds ++ c :: (tail ++ x :: t))
    (hne : ds ≠ []) (hds : ∀ d ∈ ds, isDigit d = true) (hc : isDurChar c = true)
    (htail : ∀ y ∈ tail, isDurTailChar y = true) (hx : isDurTailChar x = false) :
    (scan r).1.tok = .DURATIONVAL ∧ (scan r).1.lit = ds ++ c :: tail ∧
      (scan r).2.rest.map Prod.fst = x :: t := by
  obtain ⟨hcd, hcdot, hce, hct⟩ := isDurChar_facts hc
  cases ds with
  | nil => exact absurd rfl hne
  | cons d0 dtl =>
  have hd0 := hds d0 (by simp)
  obtain ⟨hws, hlu⟩ := isDigit_facts hd0
  have hpk := Cursor.peek_of_map (t := dtl ++ c :: (tail ++ x :: t)) (by simpa using h)
  have hscan : scan r = scanNumber r r.read.1.2 := by
    unfold scan; rw [hpk.2]; unfold scanFrom; simp [hws, hlu, hd0]
  -- digits
  obtain ⟨e1, e2, _⟩ := r.readWhile_exact isDigit (d0 :: dtl) c (tail ++ x :: t) h
    (fun y hy => ⟨hds y hy, isDigit_ne_eof (hds y hy)⟩) hcd
  have hpk1 : (r.readWhile isDigit).2.peek = c := (Cursor.peek_of_map e2).1
  have hprefix : scanNumberPrefix r = (d0 :: dtl, false, (r.readWhile isDigit).2) := by
    unfold scanNumberPrefix scanDigits
    dsimp only
    rw [hpk1]
    simp [hcdot, e1]
  -- unit letters: first the run of letters/µ, then letters/µ/digits
  have hrd : ((r.readWhile isDigit).2.read.2).rest.map Prod.fst = tail ++ x :: t := by
    cases hr : (r.readWhile isDigit).2.rest with
    | nil => rw [hr] at e2; simp at e2
    | cons y ys =>
      rw [hr] at e2
      simp only [List.map_cons, List.cons.injEq] at e2
      rw [(Cursor.read_of_cons hr).2.1]; exact e2.2
  have hxd : isDurChar x = false := by
    cases hxc : isDurChar x with
    | false => rfl
    | true => rw [(isDurChar_facts hxc).2.2.2] at hx; cases hx
  have key : ∃ l1 l2, tail = l1 ++ l2 ∧
      (((r.readWhile isDigit).2.read.2).readWhile isDurChar).1 = l1 ∧
      ((((r.readWhile isDigit).2.read.2).readWhile isDurChar).2.readWhile isDurTailChar).1 = l2 ∧
      ((((r.readWhile isDigit).2.read.2).readWhile isDurChar).2.readWhile isDurTailChar).2.rest.map Prod.fst = x :: t := by
    rcases split_at_first_failure isDurChar tail with hall | ⟨b, y, s2, hsplit, hb, hy⟩
    · obtain ⟨f1, f2, _⟩ := Cursor.readWhile_exact isDurChar _ tail x t hrd
        (fun z hz => ⟨hall z hz, (isDurChar_facts (hall z hz)).2.2.1⟩) hxd
      obtain ⟨g1, g2, _⟩ := Cursor.readWhile_exact isDurTailChar _ [] x t (by simpa using f2) (by simp) hx
      exact ⟨tail, [], by simp, f1, g1, g2⟩
    · have hrd' : ((r.readWhile isDigit).2.read.2).rest.map Prod.fst = b ++ y :: (s2 ++ x :: t) := by
        rw [hrd, hsplit]; simp
      obtain ⟨f1, f2, _⟩ := Cursor.readWhile_exact isDurChar _ b y (s2 ++ x :: t) hrd'
        (fun z hz => ⟨hb z hz, (isDurChar_facts (hb z hz)).2.2.1⟩) hy
      have hys : ∀ z ∈ y :: s2, isDurTailChar z = true ∧ z ≠ eofRune := by
        intro z hz
        have : z ∈ tail := by rw [hsplit]; simp at hz ⊢; rcases hz with rfl | hz <;> simp [*]
        exact ⟨htail z this, isDurTailChar_ne_eof (htail z this)⟩
      obtain ⟨g1, g2, _⟩ := Cursor.readWhile_exact isDurTailChar _ (y :: s2) x t (by simpa using f2) hys hx
      exact ⟨b, y :: s2, hsplit, f1, g1, g2⟩
  obtain ⟨l1, l2, htl, k1, k2, k3⟩ := key
  rw [hscan]
  unfold scanNumber
  rw [hprefix]
  dsimp only
  rw [hpk1]
  simp only [Bool.not_false, if_true, hc]
  refine ⟨trivial, ?_, k3⟩
  rw [k1, k2, htl]
  simp

end InfluxQL

import InfluxQL.Model.Fields
/-
Lemmas for C12: the orders used by `RewriteFields` are total and antisymmetric, sorting is
insensitive to the order of its input, and the association-list maps of the model behave like maps.
-/
namespace InfluxQL
open Gen

/-! ## `strLt` is a strict total order -/

theorem char_eq_of_toNat_eq {a b : Char} (h : a.toNat = b.toNat) : a = b := by
  apply Char.ext
  apply UInt32.toNat_inj.mp
  exact h

theorem strLt_nil_right (a : Str) : strLt a [] = false := by
  cases a <;> rfl

theorem strLt_cons (a : Char) (as : Str) (b : Char) (bs : Str) :
    strLt (a :: as) (b :: bs) = (decide (a.toNat < b.toNat) || (a == b && strLt as bs)) := rfl

theorem strLt_irrefl : ∀ a : Str, strLt a a = false
  | [] => rfl
  | a :: as => by
    rw [strLt_cons, strLt_irrefl as]
    simp

theorem strLt_trans : ∀ {a b c : Str}, strLt a b = true → strLt b c = true → strLt a c = true
  | _, _, [], _, h2 => by rw [strLt_nil_right] at h2; cases h2
  | _, [], _ :: _, h1, _ => by rw [strLt_nil_right] at h1; cases h1
  | [], _ :: _, _ :: _, _, _ => rfl
  | a :: as, b :: bs, c :: cs, h1, h2 => by
    rw [strLt_cons] at h1 h2 ⊢
    simp only [Bool.or_eq_true, decide_eq_true_eq, Bool.and_eq_true, beq_iff_eq] at h1 h2 ⊢
    rcases h1 with h1 | ⟨rfl, h1⟩
    · rcases h2 with h2 | ⟨rfl, _⟩
      · exact Or.inl (Nat.lt_trans h1 h2)
      · exact Or.inl h1
    · rcases h2 with h2 | ⟨rfl, h2⟩
      · exact Or.inl h2
      · exact Or.inr ⟨rfl, strLt_trans h1 h2⟩

theorem strLt_asymm {a b : Str} (h : strLt a b = true) : strLt b a = false := by
  cases hba : strLt b a
  · rfl
  · have := strLt_trans h hba
    rw [strLt_irrefl] at this
    cases this

theorem strLt_total : ∀ {a b : Str}, a ≠ b → strLt a b = true ∨ strLt b a = true
  | [], [], h => absurd rfl h
  | [], _ :: _, _ => Or.inl rfl
  | _ :: _, [], _ => Or.inr rfl
  | a :: as, b :: bs, h => by
    rw [strLt_cons, strLt_cons]
    simp only [Bool.or_eq_true, decide_eq_true_eq, Bool.and_eq_true, beq_iff_eq]
    rcases Nat.lt_trichotomy a.toNat b.toNat with hlt | heq | hgt
    · exact Or.inl (Or.inl hlt)
    · have hab : a = b := char_eq_of_toNat_eq heq
      subst hab
      have hne : as ≠ bs := fun e => h (by rw [e])
      rcases strLt_total hne with h' | h'
      · exact Or.inl (Or.inr ⟨rfl, h'⟩)
      · exact Or.inr (Or.inr ⟨rfl, h'⟩)
    · exact Or.inr (Or.inl hgt)

/-- `sort.Strings` order: `a ≤ b`. -/
def strLe (a b : Str) : Bool := !strLt b a

theorem strLe_total (a b : Str) : strLe a b = true ∨ strLe b a = true := by
  unfold strLe
  by_cases h : a = b
  · subst h; rw [strLt_irrefl]; exact Or.inl rfl
  · rcases strLt_total h with h' | h'
    · rw [strLt_asymm h']; exact Or.inl rfl
    · rw [strLt_asymm h']; exact Or.inr rfl

theorem strLe_antisymm {a b : Str} (h1 : strLe a b = true) (h2 : strLe b a = true) : a = b := by
  unfold strLe at h1 h2
  apply Classical.byContradiction
  intro hne
  rcases strLt_total hne with h | h
  · rw [h] at h2; cases h2
  · rw [h] at h1; cases h1

theorem strLe_trans {a b c : Str} (h1 : strLe a b = true) (h2 : strLe b c = true) : strLe a c = true := by
  unfold strLe at *
  cases hca : strLt c a
  · rfl
  · -- c < a; a ≤ b means ¬ b < a; b ≤ c means ¬ c < b
    by_cases hab : a = b
    · subst hab; rw [hca] at h2; cases h2
    · rcases strLt_total hab with h | h
      · have := strLt_trans hca h
        rw [this] at h2; cases h2
      · rw [h] at h1; cases h1

/-! ## Insertion sort -/

section isort
variable {α : Type} (le : α → α → Bool)

theorem insertSorted_perm (a : α) : ∀ l : List α, (insertSorted le a l).Perm (a :: l)
  | [] => List.Perm.refl _
  | b :: l => by
    unfold insertSorted
    split
    · exact List.Perm.refl _
    · exact ((insertSorted_perm a l).cons b).trans (List.Perm.swap a b l)

theorem isort_perm : ∀ l : List α, (isort le l).Perm l
  | [] => List.Perm.refl _
  | a :: l => (insertSorted_perm le a (isort le l)).trans ((isort_perm l).cons a)

theorem insertSorted_pairwise (htot : ∀ a b, le a b = true ∨ le b a = true)
    (htr : ∀ a b c, le a b = true → le b c = true → le a c = true) (a : α) :
    ∀ l : List α, l.Pairwise (fun x y => le x y = true) →
      (insertSorted le a l).Pairwise (fun x y => le x y = true)
  | [], _ => by simp [insertSorted]
  | b :: l, h => by
    unfold insertSorted
    rw [List.pairwise_cons] at h
    split
    · rename_i hab
      refine List.Pairwise.cons ?_ (List.Pairwise.cons h.1 h.2)
      intro x hx
      rcases List.mem_cons.mp hx with rfl | hx
      · exact hab
      · exact htr _ _ _ hab (h.1 x hx)
    · rename_i hab
      refine List.Pairwise.cons ?_ (insertSorted_pairwise htot htr a l h.2)
      intro x hx
      have hx' := (insertSorted_perm le a l).mem_iff.mp hx
      rcases List.mem_cons.mp hx' with rfl | hx'
      · rcases htot x b with h' | h'
        · exact absurd h' hab
        · exact h'
      · exact h.1 x hx'

theorem isort_pairwise (htot : ∀ a b, le a b = true ∨ le b a = true)
    (htr : ∀ a b c, le a b = true → le b c = true → le a c = true) :
    ∀ l : List α, (isort le l).Pairwise (fun x y => le x y = true)
  | [] => List.Pairwise.nil
  | a :: l => insertSorted_pairwise le htot htr a _ (isort_pairwise htot htr l)

/-- Sorting by a total, transitive, antisymmetric order does not depend on the order of the input. -/
theorem isort_eq_of_perm (htot : ∀ a b, le a b = true ∨ le b a = true)
    (htr : ∀ a b c, le a b = true → le b c = true → le a c = true)
    (hanti : ∀ a b, le a b = true → le b a = true → a = b)
    {l l' : List α} (h : l.Perm l') : isort le l = isort le l' :=
  List.Perm.eq_of_pairwise (le := fun x y => le x y = true) (fun a b _ _ => hanti a b)
    (isort_pairwise le htot htr l) (isort_pairwise le htot htr l')
    (((isort_perm le l).trans h).trans (isort_perm le l').symm)

/-- A list that is already sorted is left alone. -/
theorem isort_eq_self (htot : ∀ a b, le a b = true ∨ le b a = true)
    (htr : ∀ a b c, le a b = true → le b c = true → le a c = true)
    (hanti : ∀ a b, le a b = true → le b a = true → a = b)
    {l : List α} (h : l.Pairwise (fun x y => le x y = true)) : isort le l = l :=
  List.Perm.eq_of_pairwise (le := fun x y => le x y = true) (fun a b _ _ => hanti a b)
    (isort_pairwise le htot htr l) h (isort_perm le l)

end isort

/-! ## `VarRefs.Less` is a strict total order -/

theorem DataType.toNat_inj {a b : DataType} (h : a.toNat = b.toNat) : a = b := by
  cases a <;> cases b <;> first | rfl | (simp [DataType.toNat] at h)

theorem ColRef.less_eq (a b : ColRef) :
    a.less b = if a.name != b.name then strLt a.name b.name else decide (a.type.toNat < b.type.toNat) := rfl

theorem ColRef.less_irrefl (a : ColRef) : a.less a = false := by
  rw [ColRef.less_eq]; simp

theorem ColRef.less_trans {a b c : ColRef} (h1 : a.less b = true) (h2 : b.less c = true) : a.less c = true := by
  rw [ColRef.less_eq] at h1 h2 ⊢
  by_cases hab : a.name = b.name
  · by_cases hbc : b.name = c.name
    · have hac : a.name = c.name := hab.trans hbc
      simp only [hab, hbc, bne_self_eq_false, Bool.false_eq_true, ↓reduceIte, decide_eq_true_eq] at h1 h2 ⊢
      exact Nat.lt_trans h1 h2
    · have hac : a.name ≠ c.name := fun e => hbc (hab.symm.trans e)
      simp only [hab, bne_self_eq_false, Bool.false_eq_true, ↓reduceIte, decide_eq_true_eq] at h1
      simp only [bne_iff_ne, ne_eq, hbc, not_false_eq_true, ↓reduceIte] at h2
      simp only [bne_iff_ne, ne_eq, hac, not_false_eq_true, ↓reduceIte]
      rw [hab]; exact h2
  · simp only [bne_iff_ne, ne_eq, hab, not_false_eq_true, ↓reduceIte] at h1
    by_cases hbc : b.name = c.name
    · have hac : a.name ≠ c.name := fun e => hab (e.trans hbc.symm)
      simp only [bne_iff_ne, ne_eq, hac, not_false_eq_true, ↓reduceIte]
      rw [← hbc]; exact h1
    · simp only [bne_iff_ne, ne_eq, hbc, not_false_eq_true, ↓reduceIte] at h2
      have h3 := strLt_trans h1 h2
      have hac : a.name ≠ c.name := by
        intro e
        rw [e, strLt_irrefl] at h3
        cases h3
      simp only [bne_iff_ne, ne_eq, hac, not_false_eq_true, ↓reduceIte]
      exact h3

theorem ColRef.less_total {a b : ColRef} (h : a ≠ b) : a.less b = true ∨ b.less a = true := by
  rw [ColRef.less_eq, ColRef.less_eq]
  by_cases hab : a.name = b.name
  · simp only [hab, bne_self_eq_false, Bool.false_eq_true, ↓reduceIte, decide_eq_true_eq]
    rcases Nat.lt_trichotomy a.type.toNat b.type.toNat with hlt | heq | hgt
    · exact Or.inl hlt
    · exfalso
      apply h
      cases a; cases b
      simp only at hab heq
      rw [hab, DataType.toNat_inj heq]
    · exact Or.inr hgt
  · have hba : b.name ≠ a.name := fun e => hab e.symm
    simp only [bne_iff_ne, ne_eq, hab, hba, not_false_eq_true, ↓reduceIte]
    exact strLt_total hab

/-- The order `sort.Sort(VarRefs)` sorts by: `a ≤ b`. -/
def refLe (a b : ColRef) : Bool := !b.less a

theorem refLe_total (a b : ColRef) : refLe a b = true ∨ refLe b a = true := by
  unfold refLe
  by_cases h : a = b
  · subst h; rw [ColRef.less_irrefl]; exact Or.inl rfl
  · cases hba : b.less a
    · exact Or.inl rfl
    · right
      cases hab : a.less b
      · rfl
      · have := ColRef.less_trans hab hba
        rw [ColRef.less_irrefl] at this; cases this

theorem refLe_antisymm (a b : ColRef) (h1 : refLe a b = true) (h2 : refLe b a = true) : a = b := by
  unfold refLe at h1 h2
  apply Classical.byContradiction
  intro hne
  rcases ColRef.less_total hne with h | h
  · rw [h] at h2; cases h2
  · rw [h] at h1; cases h1

theorem refLe_trans (a b c : ColRef) (h1 : refLe a b = true) (h2 : refLe b c = true) : refLe a c = true := by
  unfold refLe at *
  cases hca : c.less a
  · rfl
  · by_cases hab : a = b
    · subst hab; rw [hca] at h2; cases h2
    · rcases ColRef.less_total hab with h | h
      · have := ColRef.less_trans hca h
        rw [this] at h2; cases h2
      · rw [h] at h1; cases h1

theorem sortRefs_def (l : List ColRef) : sortRefs l = isort refLe l := rfl
theorem sortStrs_def (l : List Str) : sortStrs l = isort strLe l := rfl

/-- `sort.Sort(VarRefs(l))` does not depend on the order in which the slice was filled. -/
theorem sortRefs_eq_of_perm {l l' : List ColRef} (h : l.Perm l') : sortRefs l = sortRefs l' := by
  rw [sortRefs_def, sortRefs_def]
  exact isort_eq_of_perm refLe refLe_total refLe_trans refLe_antisymm h

theorem sortRefs_perm (l : List ColRef) : (sortRefs l).Perm l := isort_perm _ l

theorem sortRefs_sorted (l : List ColRef) : (sortRefs l).Pairwise (fun a b => refLe a b = true) := by
  rw [sortRefs_def]
  exact isort_pairwise refLe refLe_total refLe_trans l

theorem sortStrs_eq_of_perm {l l' : List Str} (h : l.Perm l') : sortStrs l = sortStrs l' := by
  rw [sortStrs_def, sortStrs_def]
  exact isort_eq_of_perm strLe strLe_total (fun _ _ _ => strLe_trans) (fun _ _ => strLe_antisymm) h

theorem sortStrs_perm (l : List Str) : (sortStrs l).Perm l := isort_perm _ l

theorem sortStrs_sorted (l : List Str) : (sortStrs l).Pairwise (fun a b => strLe a b = true) := by
  rw [sortStrs_def]
  exact isort_pairwise strLe strLe_total (fun _ _ _ => strLe_trans) l

/-! ## Type precedence -/

theorem DataType.unknown_lessThan (t : DataType) : DataType.Unknown.lessThan t = true := by
  cases t <;> rfl

theorem raiseTo_unknown (t : DataType) : raiseTo .Unknown t = t := by
  unfold raiseTo; rw [DataType.unknown_lessThan]; rfl

/-- Taking the higher-precedence type is insensitive to the order in which types arrive. -/
theorem raiseTo_right_comm (z x y : DataType) : raiseTo (raiseTo z x) y = raiseTo (raiseTo z y) x := by
  cases z <;> cases x <;> cases y <;> rfl

theorem foldl_raiseTo_perm {l l' : List DataType} (h : l.Perm l') (init : DataType) :
    l.foldl raiseTo init = l'.foldl raiseTo init :=
  h.foldl_eq' (fun x _ y _ z => raiseTo_right_comm z x y) init

/-! ## The association-list maps behave like maps -/

/-- The keys of a `TypeMap` in iteration order. -/
def keysOf (m : TypeMap) : List Str := m.map (fun kt => kt.1)

theorem TypeMap.get_nil (k : Str) : TypeMap.get [] k = .Unknown := rfl

theorem TypeMap.get_cons (k' : Str) (t : DataType) (rest : TypeMap) (k : Str) :
    TypeMap.get ((k', t) :: rest) k = if k' = k then t else TypeMap.get rest k := rfl

theorem TypeMap.get_of_not_mem : ∀ {m : TypeMap} {k : Str}, k ∉ keysOf m → m.get k = .Unknown
  | [], _, _ => rfl
  | (k', t) :: rest, k, h => by
    simp only [keysOf, List.map_cons, List.mem_cons, not_or] at h
    rw [TypeMap.get_cons, if_neg (fun e => h.1 e.symm)]
    exact TypeMap.get_of_not_mem h.2

theorem TypeMap.get_set : ∀ (m : TypeMap) (k : Str) (t : DataType) (k' : Str),
    (m.set k t).get k' = if k' = k then t else m.get k'
  | [], k, t, k' => by
    simp only [TypeMap.set, TypeMap.get_cons, TypeMap.get_nil]
    by_cases h : k = k'
    · simp [h]
    · have h' : ¬ k' = k := fun e => h e.symm
      simp [h, h']
  | (k0, t0) :: rest, k, t, k' => by
    unfold TypeMap.set
    by_cases h0 : k0 = k
    · subst h0
      simp only [↓reduceIte, TypeMap.get_cons]
      by_cases h : k0 = k'
      · simp [h]
      · have h' : ¬ k' = k0 := fun e => h e.symm
        simp [h, h']
    · simp only [h0, ↓reduceIte, TypeMap.get_cons]
      by_cases h : k0 = k'
      · subst h
        simp [h0]
      · simp only [h, ↓reduceIte]
        exact TypeMap.get_set rest k t k'

theorem TypeMap.keys_set : ∀ (m : TypeMap) (k : Str) (t : DataType),
    keysOf (m.set k t) = if k ∈ keysOf m then keysOf m else keysOf m ++ [k]
  | [], k, t => by simp [TypeMap.set, keysOf]
  | (k0, t0) :: rest, k, t => by
    unfold TypeMap.set
    by_cases h0 : k0 = k
    · subst h0
      simp [keysOf]
    · have h0' : ¬ k = k0 := fun e => h0 e.symm
      have ih := TypeMap.keys_set rest k t
      simp only [keysOf] at ih
      simp only [h0, ↓reduceIte, keysOf, List.map_cons, List.mem_cons, h0', false_or, ih]
      split <;> rename_i hk <;> simp [hk]

theorem TypeMap.get_merge (m : TypeMap) (k : Str) (t : DataType) (k' : Str) :
    (m.merge k t).get k' = if k' = k then raiseTo (m.get k) t else m.get k' := by
  unfold TypeMap.merge raiseTo
  split
  · rw [TypeMap.get_set]
  · split
    · rename_i h; rw [h]
    · rfl

theorem TypeMap.mem_keys_merge (m : TypeMap) (k : Str) (t : DataType) (k' : Str) :
    k' ∈ keysOf (m.merge k t) ↔ k' ∈ keysOf m ∨ k' = k := by
  unfold TypeMap.merge
  split
  · rw [TypeMap.keys_set]
    split
    · rename_i hk
      constructor
      · exact Or.inl
      · rintro (h | rfl)
        · exact h
        · exact hk
    · simp
  · rename_i hlt
    constructor
    · exact Or.inl
    · rintro (h | rfl)
      · exact h
      · apply Classical.byContradiction
        intro hk
        rw [TypeMap.get_of_not_mem hk, DataType.unknown_lessThan] at hlt
        exact hlt rfl

theorem TypeMap.nodup_merge (m : TypeMap) (k : Str) (t : DataType) (h : (keysOf m).Nodup) :
    (keysOf (m.merge k t)).Nodup := by
  unfold TypeMap.merge
  split
  · rw [TypeMap.keys_set]
    split
    · exact h
    · rename_i hk
      rw [List.nodup_append]
      refine ⟨h, List.pairwise_singleton _ k, ?_⟩
      intro a ha b hb
      simp only [List.mem_singleton] at hb
      subst hb
      intro e; subst e
      exact hk ha
  · exact h

theorem mergeCols_nil (m : TypeMap) : mergeCols m [] = m := rfl
theorem mergeCols_cons (m : TypeMap) (k : Str) (t : DataType) (rest : List (Str × DataType)) :
    mergeCols m ((k, t) :: rest) = mergeCols (m.merge k t) rest := rfl

theorem mergeCols_append : ∀ (m : TypeMap) (a b : List (Str × DataType)),
    mergeCols m (a ++ b) = mergeCols (mergeCols m a) b
  | _, [], _ => rfl
  | m, (k, t) :: rest, b => by
    rw [List.cons_append, mergeCols_cons, mergeCols_cons]
    exact mergeCols_append _ rest b

theorem mergeCols_get : ∀ (cols : List (Str × DataType)) (m : TypeMap) (k : Str),
    (mergeCols m cols).get k = ((cols.filter (fun c => c.1 = k)).map (fun c => c.2)).foldl raiseTo (m.get k)
  | [], _, _ => rfl
  | (k0, t0) :: rest, m, k => by
    rw [mergeCols_cons, mergeCols_get rest, TypeMap.get_merge]
    by_cases h : k0 = k
    · subst h
      simp
    · have h' : ¬ k = k0 := fun e => h e.symm
      simp [h, h']

theorem mergeCols_mem_keys : ∀ (cols : List (Str × DataType)) (m : TypeMap) (k : Str),
    k ∈ keysOf (mergeCols m cols) ↔ k ∈ keysOf m ∨ k ∈ cols.map (fun c => c.1)
  | [], _, _ => by simp [mergeCols]
  | (k0, t0) :: rest, m, k => by
    rw [mergeCols_cons, mergeCols_mem_keys rest, TypeMap.mem_keys_merge]
    simp only [List.map_cons, List.mem_cons]
    constructor
    · rintro ((h | h) | h)
      · exact Or.inl h
      · exact Or.inr (Or.inl h)
      · exact Or.inr (Or.inr h)
    · rintro (h | h | h)
      · exact Or.inl (Or.inl h)
      · exact Or.inl (Or.inr h)
      · exact Or.inr h

theorem mergeCols_nodup : ∀ (cols : List (Str × DataType)) (m : TypeMap),
    (keysOf m).Nodup → (keysOf (mergeCols m cols)).Nodup
  | [], _, h => h
  | (k0, t0) :: rest, m, h => by
    rw [mergeCols_cons]
    exact mergeCols_nodup rest _ (TypeMap.nodup_merge m k0 t0 h)

/-- In a map (keys without duplicates) an entry is there iff its key is and `get` returns its value. -/
theorem TypeMap.mem_iff : ∀ {m : TypeMap}, (keysOf m).Nodup → ∀ (k : Str) (t : DataType),
    (k, t) ∈ m ↔ k ∈ keysOf m ∧ m.get k = t
  | [], _, k, t => by simp [keysOf]
  | (k0, t0) :: rest, h, k, t => by
    simp only [keysOf, List.map_cons, List.nodup_cons] at h
    have ih := TypeMap.mem_iff (m := rest) h.2 k t
    simp only [keysOf] at ih
    simp only [List.mem_cons, Prod.mk.injEq, keysOf, List.map_cons, TypeMap.get_cons, ih]
    by_cases hk : k0 = k
    · subst hk
      simp only [↓reduceIte, true_and, true_or]
      constructor
      · rintro (rfl | ⟨hm, _⟩)
        · rfl
        · exact absurd hm h.1
      · intro e; exact Or.inl e.symm
    · have hk' : ¬ k = k0 := fun e => hk e.symm
      simp [hk, hk']

/-! ## String sets -/

theorem StrSet.mem_add (s : StrSet) (k k' : Str) : k' ∈ StrSet.add s k ↔ k' ∈ s ∨ k' = k := by
  unfold StrSet.add
  split
  · rename_i hk
    constructor
    · exact Or.inl
    · rintro (h | rfl)
      · exact h
      · exact hk
  · simp

theorem StrSet.nodup_add (s : StrSet) (k : Str) (h : s.Nodup) : (StrSet.add s k).Nodup := by
  unfold StrSet.add
  split
  · exact h
  · rename_i hk
    rw [List.nodup_append]
    refine ⟨h, List.pairwise_singleton _ k, ?_⟩
    intro a ha b hb
    simp only [List.mem_singleton] at hb
    subst hb
    intro e; subst e
    exact hk ha

theorem addKeys_mem : ∀ (ks : List Str) (s : StrSet) (k : Str), k ∈ addKeys s ks ↔ k ∈ s ∨ k ∈ ks
  | [], _, _ => by simp [addKeys]
  | k0 :: rest, s, k => by
    unfold addKeys
    rw [addKeys_mem rest, StrSet.mem_add]
    simp only [List.mem_cons]
    constructor
    · rintro ((h | h) | h)
      · exact Or.inl h
      · exact Or.inr (Or.inl h)
      · exact Or.inr (Or.inr h)
    · rintro (h | h | h)
      · exact Or.inl (Or.inl h)
      · exact Or.inl (Or.inr h)
      · exact Or.inr h

theorem addKeys_nodup : ∀ (ks : List Str) (s : StrSet), s.Nodup → (addKeys s ks).Nodup
  | [], _, h => h
  | k0 :: rest, s, h => by
    unfold addKeys
    exact addKeys_nodup rest _ (StrSet.nodup_add s k0 h)

theorem addKeys_append : ∀ (a b : List Str) (s : StrSet), addKeys s (a ++ b) = addKeys (addKeys s a) b
  | [], _, _ => rfl
  | k0 :: rest, b, s => by
    show addKeys (StrSet.add s k0) (rest ++ b) = addKeys (addKeys (StrSet.add s k0) rest) b
    exact addKeys_append rest b _

theorem dimRefs_varRef (v : Str) (t : DataType) (rest : List Expr) :
    dimRefs (.varRef v t :: rest) = v :: dimRefs rest := rfl

theorem delDimRefs_eq : ∀ (dims : List Expr) (s : StrSet),
    delDimRefs s dims = s.filter (fun x => decide (x ∉ dimRefs dims))
  | [], s => by
    simp only [delDimRefs, dimRefs, List.not_mem_nil, not_false_eq_true, decide_true]
    exact (List.filter_eq_self.mpr (fun _ _ => rfl)).symm
  | d :: rest, s => by
    have ih := delDimRefs_eq rest
    cases d
    case varRef v t =>
      simp only [delDimRefs, dimRefs, ih]
      unfold StrSet.del
      rw [List.filter_filter]
      congr 1
      funext x
      simp only [List.mem_cons, not_or, ne_eq, decide_not, Bool.decide_and]
      rw [Bool.and_comm]
    all_goals (simp only [delDimRefs, dimRefs]; exact ih s)

/-! ## `dedup` -/

theorem mem_dedup {α} [DecidableEq α] : ∀ {l : List α} {a : α}, a ∈ dedup l ↔ a ∈ l
  | [], _ => by simp [dedup]
  | b :: l, a => by
    unfold dedup
    split
    · rename_i hb
      rw [mem_dedup, List.mem_cons]
      constructor
      · exact Or.inr
      · rintro (rfl | h)
        · exact hb
        · exact h
    · rw [List.mem_cons, List.mem_cons, mem_dedup]

theorem nodup_dedup {α} [DecidableEq α] : ∀ (l : List α), (dedup l).Nodup
  | [] => List.nodup_nil
  | b :: l => by
    unfold dedup
    split
    · exact nodup_dedup l
    · rename_i hb
      rw [List.nodup_cons]
      exact ⟨fun h => hb (mem_dedup.mp h), nodup_dedup l⟩

/-- `dedup` of a reordered list is a reordering of the `dedup`. -/
theorem dedup_perm {α} [DecidableEq α] {l l' : List α} (h : l.Perm l') : (dedup l).Perm (dedup l') :=
  (List.perm_ext_iff_of_nodup (nodup_dedup l) (nodup_dedup l')).mpr
    (fun a => by rw [mem_dedup, mem_dedup]; exact h.mem_iff)

/-- The key set `FieldDimensions` builds is `dedup` of the tag keys, up to order. -/
theorem addKeys_perm_dedup (tags : List Str) : (addKeys [] tags).Perm (dedup tags) :=
  (List.perm_ext_iff_of_nodup (addKeys_nodup tags [] List.nodup_nil) (nodup_dedup tags)).mpr
    (fun a => by rw [addKeys_mem, mem_dedup]; simp)

/-! ## The maps of `FieldDimensions` against the concatenated schema -/

/-- `FieldDimensions` folds the concatenated schema into its two maps. -/
theorem fieldDimensionsFrom_eq (m : FieldMapper) : ∀ (srcs : List Source) (f : TypeMap) (d : StrSet),
    fieldDimensionsFrom m srcs f d =
      match sourceSchema m srcs with
      | .error e => .error e
      | .ok (cols, tags) => .ok (mergeCols f cols, addKeys d tags)
  | [], f, d => rfl
  | .measurement ms :: rest, f, d => by
    unfold fieldDimensionsFrom sourceSchema
    cases hfd : m.fieldDimensions ms with
    | error e => rfl
    | ok fd =>
      obtain ⟨fc, dc⟩ := fd
      simp only
      rw [fieldDimensionsFrom_eq m rest]
      cases hs : sourceSchema m rest with
      | error e => rfl
      | ok cs =>
        obtain ⟨cols, tags⟩ := cs
        simp only [mergeCols_append, addKeys_append]
  | .subquery st :: rest, f, d => by
    unfold fieldDimensionsFrom sourceSchema
    rw [fieldDimensionsFrom_eq m rest]
    cases hs : sourceSchema m rest with
    | error e => rfl
    | ok cs =>
      obtain ⟨cols, tags⟩ := cs
      simp only [mergeCols_append, addKeys_append]

theorem nodup_of_map {α β} (f : α → β) {l : List α} (h : (l.map f).Nodup) : l.Nodup :=
  List.Pairwise.of_map f (fun _ _ hab e => hab (by rw [e])) h

theorem colType_eq (cols : List (Str × DataType)) (n : Str) :
    colType cols n = (mergeCols [] cols).get n := by
  rw [mergeCols_get]; rfl

/-- The field map `FieldDimensions` builds lists, in some order, exactly the specified field columns. -/
theorem fieldSet_perm_spec (cols : List (Str × DataType)) :
    ((mergeCols [] cols).map (fun kt => (⟨kt.1, kt.2⟩ : ColRef))).Perm (specFieldCols cols) := by
  have hnd : (keysOf (mergeCols [] cols)).Nodup := mergeCols_nodup cols [] List.nodup_nil
  have h1 : ((mergeCols [] cols).map (fun kt => (⟨kt.1, kt.2⟩ : ColRef))).Nodup := by
    apply nodup_of_map (fun r : ColRef => r.name)
    rw [List.map_map]
    exact hnd
  have h2 : (specFieldCols cols).Nodup := by
    apply nodup_of_map (fun r : ColRef => r.name)
    unfold specFieldCols
    rw [List.map_map]
    have : ((fun r : ColRef => r.name) ∘ fun n => (⟨n, colType cols n⟩ : ColRef)) = id := rfl
    rw [this, List.map_id]
    exact nodup_dedup _
  rw [List.perm_ext_iff_of_nodup h1 h2]
  intro r
  obtain ⟨n, t⟩ := r
  constructor
  · intro h
    rw [List.mem_map] at h
    obtain ⟨⟨k, t'⟩, hm, he⟩ := h
    simp only [ColRef.mk.injEq] at he
    obtain ⟨rfl, rfl⟩ := he
    rw [TypeMap.mem_iff hnd] at hm
    unfold specFieldCols
    rw [List.mem_map]
    refine ⟨k, ?_, ?_⟩
    · rw [mem_dedup]
      have := (mergeCols_mem_keys cols [] k).mp hm.1
      simpa [keysOf] using this
    · rw [colType_eq, hm.2]
  · intro h
    unfold specFieldCols at h
    rw [List.mem_map] at h
    obtain ⟨k, hk, he⟩ := h
    simp only [ColRef.mk.injEq] at he
    obtain ⟨rfl, rfl⟩ := he
    rw [mem_dedup] at hk
    rw [List.mem_map]
    refine ⟨(k, colType cols k), ?_, rfl⟩
    rw [TypeMap.mem_iff hnd]
    exact ⟨(mergeCols_mem_keys cols [] k).mpr (Or.inr hk), (colType_eq cols k).symm⟩

theorem specFieldCols_eq_nil_iff (cols : List (Str × DataType)) :
    specFieldCols cols = [] ↔ (mergeCols [] cols).length = 0 := by
  have h := (fieldSet_perm_spec cols).length_eq
  rw [List.length_map] at h
  rw [h]
  exact List.length_eq_zero_iff.symm

/-- The slice `fields` of `RewriteFields` is the specified expansion. -/
theorem wildcardRefs_eq_spec (cols : List (Str × DataType)) (tags : List Str) (dims : List Expr) (hasDW : Bool) :
    wildcardRefs (mergeCols [] cols)
      (if !hasDW then delDimRefs (addKeys [] tags) dims else addKeys [] tags) hasDW =
    expandSpec cols tags dims hasDW := by
  unfold wildcardRefs expandSpec
  by_cases hz : (mergeCols [] cols).length = 0
  · rw [if_neg (by omega), if_pos ((specFieldCols_eq_nil_iff cols).mpr hz)]
  · rw [if_pos (by omega), if_neg (fun h => hz ((specFieldCols_eq_nil_iff cols).mp h))]
    apply sortRefs_eq_of_perm
    apply List.Perm.append (fieldSet_perm_spec cols)
    cases hasDW
    · simp only [Bool.not_false, ↓reduceIte, Bool.false_eq_true]
      unfold specTagCols
      apply List.Perm.map
      rw [delDimRefs_eq]
      exact (addKeys_perm_dedup tags).filter _
    · simp

/-- The slice `dimensions` of `RewriteFields`, when GROUP BY has a wildcard. -/
theorem wildcardDims_eq_spec (f : TypeMap) (tags : List Str) :
    wildcardDims f (addKeys [] tags) true = dimSpec tags := by
  unfold wildcardDims dimSpec
  rw [if_neg (by simp)]
  exact sortStrs_eq_of_perm (addKeys_perm_dedup tags)

/-- The mirror of `RewriteFields` computes what the declarative specification says. -/
theorem rewriteBody_eq_specBody (m : FieldMapper) (re : Str → Str → Bool) :
    rewriteBody m re = specBody m re := by
  funext fields dims sources cond
  unfold rewriteBody specBody
  simp only
  split
  · rfl
  · unfold fieldDimensions
    rw [fieldDimensionsFrom_eq]
    cases hs : sourceSchema m sources with
    | error e => rfl
    | ok cs =>
      obtain ⟨cols, tags⟩ := cs
      simp only
      rw [wildcardRefs_eq_spec]
      cases hdw : hasDimensionWildcard dims
      · simp
      · simp only [Bool.not_true, Bool.false_eq_true, ↓reduceIte]
        rw [wildcardDims_eq_spec]

/-! ## The specification does not see the order of the schema lists -/

/-- Two mappers that agree except for the order in which `FieldDimensions` lists the field
columns and the tag keys of a measurement (the iteration order of the two Go maps). -/
structure MapperPerm (m m' : FieldMapper) : Prop where
  types : m.toTypeMapper = m'.toTypeMapper
  cols : ∀ ms,
    match m.fieldDimensions ms, m'.fieldDimensions ms with
    | .ok (f, d), .ok (f', d') => f.Perm f' ∧ d.Perm d'
    | .error e, .error e' => e = e'
    | _, _ => False

theorem sourceSchema_perm {m m' : FieldMapper} (h : MapperPerm m m') : ∀ srcs : List Source,
    match sourceSchema m srcs, sourceSchema m' srcs with
    | .ok (c, t), .ok (c', t') => c.Perm c' ∧ t.Perm t'
    | .error e, .error e' => e = e'
    | _, _ => False
  | [] => ⟨List.Perm.refl _, List.Perm.refl _⟩
  | .measurement ms :: rest => by
    have hc := h.cols ms
    have ih := sourceSchema_perm h rest
    unfold sourceSchema
    cases h1 : m.fieldDimensions ms with
    | error e =>
      cases h2 : m'.fieldDimensions ms with
      | error e' => rw [h1, h2] at hc; exact hc
      | ok fd' => rw [h1, h2] at hc; exact hc.elim
    | ok fd =>
      cases h2 : m'.fieldDimensions ms with
      | error e' => rw [h1, h2] at hc; exact hc.elim
      | ok fd' =>
        rw [h1, h2] at hc
        obtain ⟨f, d⟩ := fd
        obtain ⟨f', d'⟩ := fd'
        simp only at hc ⊢
        cases h3 : sourceSchema m rest with
        | error e =>
          cases h4 : sourceSchema m' rest with
          | error e' => rw [h3, h4] at ih; exact ih
          | ok cs' => rw [h3, h4] at ih; exact ih.elim
        | ok cs =>
          cases h4 : sourceSchema m' rest with
          | error e' => rw [h3, h4] at ih; exact ih.elim
          | ok cs' =>
            rw [h3, h4] at ih
            obtain ⟨c, t⟩ := cs
            obtain ⟨c', t'⟩ := cs'
            simp only at ih ⊢
            exact ⟨hc.1.append ih.1, hc.2.append ih.2⟩
  | .subquery st :: rest => by
    have ih := sourceSchema_perm h rest
    unfold sourceSchema
    rw [h.types]
    cases h3 : sourceSchema m rest with
    | error e =>
      cases h4 : sourceSchema m' rest with
      | error e' => rw [h3, h4] at ih; exact ih
      | ok cs' => rw [h3, h4] at ih; exact ih.elim
    | ok cs =>
      cases h4 : sourceSchema m' rest with
      | error e' => rw [h3, h4] at ih; exact ih.elim
      | ok cs' =>
        rw [h3, h4] at ih
        obtain ⟨c, t⟩ := cs
        obtain ⟨c', t'⟩ := cs'
        simp only at ih ⊢
        exact ⟨ih.1.append_left _, ih.2.append_left _⟩

theorem colType_perm {cols cols' : List (Str × DataType)} (h : cols.Perm cols') (n : Str) :
    colType cols n = colType cols' n := by
  unfold colType
  exact foldl_raiseTo_perm ((h.filter _).map _) _

theorem specFieldCols_perm {cols cols' : List (Str × DataType)} (h : cols.Perm cols') :
    (specFieldCols cols).Perm (specFieldCols cols') := by
  unfold specFieldCols
  have hf : (fun n => (⟨n, colType cols n⟩ : ColRef)) = (fun n => ⟨n, colType cols' n⟩) := by
    funext n; rw [colType_perm h]
  rw [hf]
  exact (dedup_perm (h.map _)).map _

theorem specTagCols_perm {tags tags' : List Str} (h : tags.Perm tags') (dims : List Expr) :
    (specTagCols tags dims).Perm (specTagCols tags' dims) := by
  unfold specTagCols
  exact ((dedup_perm h).filter _).map _

theorem expandSpec_perm {cols cols' : List (Str × DataType)} {tags tags' : List Str}
    (hc : cols.Perm cols') (ht : tags.Perm tags') (dims : List Expr) (hasDW : Bool) :
    expandSpec cols tags dims hasDW = expandSpec cols' tags' dims hasDW := by
  unfold expandSpec
  have hp := specFieldCols_perm hc
  have hnil : specFieldCols cols = [] ↔ specFieldCols cols' = [] := by
    rw [← List.length_eq_zero_iff, ← List.length_eq_zero_iff, hp.length_eq]
  by_cases hz : specFieldCols cols = []
  · rw [if_pos hz, if_pos (hnil.mp hz)]
  · rw [if_neg hz, if_neg (fun e => hz (hnil.mpr e))]
    apply sortRefs_eq_of_perm
    apply hp.append
    cases hasDW
    · exact specTagCols_perm ht dims
    · exact List.Perm.refl _

theorem dimSpec_perm {tags tags' : List Str} (h : tags.Perm tags') : dimSpec tags = dimSpec tags' :=
  sortStrs_eq_of_perm (dedup_perm h)

theorem specBody_perm {m m' : FieldMapper} (h : MapperPerm m m') (re : Str → Str → Bool) :
    specBody m re = specBody m' re := by
  funext fields dims sources cond
  unfold specBody
  rw [h.types]
  simp only
  split
  · rfl
  · have hs := sourceSchema_perm h sources
    cases h1 : sourceSchema m sources with
    | error e =>
      cases h2 : sourceSchema m' sources with
      | error e' => rw [h1, h2] at hs; simp only at hs ⊢; rw [hs]
      | ok cs' => rw [h1, h2] at hs; exact hs.elim
    | ok cs =>
      cases h2 : sourceSchema m' sources with
      | error e' => rw [h1, h2] at hs; exact hs.elim
      | ok cs' =>
        rw [h1, h2] at hs
        obtain ⟨c, t⟩ := cs
        obtain ⟨c', t'⟩ := cs'
        simp only at hs ⊢
        rw [expandSpec_perm hs.1 hs.2, dimSpec_perm hs.2]

end InfluxQL

import InfluxQL.Lemmas.Render
import InfluxQL.Lemmas.ExprRoundTrip
import InfluxQL.Lemmas.RegexGap
import InfluxQL.Lemmas.ExprLeavesWide
/-
Free spelling of expressions (C01 on top of C03).

`Lemmas/ExprRoundTrip.lean` proves `parseExpr (e.print ++ k) = e`: the *printed* spelling — one blank
around every binary operator, `QuoteIdent`'s choice of quoting, upper-case `AND` / `OR`. This file
proves the same for **every legal spelling**: any gap (whitespace runs and comments, `Render.Gap`)
wherever the parser calls `ScanIgnoreWhitespace`, `AND` / `OR` in any letter case, identifiers bare
or quoted, integers with leading zeros, `!=` or `<>`.

Part 1: `ScanIgnoreWhitespace` over a gap from a state that *stands at* a cursor in the sense of
`RT.Look` (nothing pushed back, or the one token scanned there — possibly a WS / COMMENT token, as
`ParseVarRef` leaves it — pushed back).
-/
namespace InfluxQL.ER
open InfluxQL Gen

/-- Parameters and table are kept, and the token ring stays within its three slots. -/
def Keeps (s s' : PState) : Prop := RT.Same s s' ∧ (s.buf.length ≤ 3 → s'.buf.length ≤ 3)

theorem Keeps.refl (s : PState) : Keeps s s := ⟨RT.Same.refl s, id⟩
theorem Keeps.trans {a b c : PState} (h1 : Keeps a b) (h2 : Keeps b c) : Keeps a c :=
  ⟨h1.1.trans h2.1, fun h => h2.2 (h1.2 h)⟩
theorem keeps_unsc (s : PState) : Keeps s (unsc s) := ⟨RT.unsc_same s, id⟩

theorem rawNext_buf_le (regex : Bool) (s : PState) (h : s.buf.length ≤ 3) : (rawNext regex s).2.buf.length ≤ 3 := by
  by_cases hn : s.n > 0
  · rw [(rawNext_buffered regex s hn).1]; exact h
  · rw [(rawNext_fresh regex s (by omega)).1, List.length_take]; omega

/-- What stands after a gap: a text that does not go on with whitespace, and is the end-of-input
sentinel or starts with another rune. -/
def PostOK (post : Str) : Prop :=
  NotWsHead post ∧ (post = [eofRune] ∨ ∃ c x, post = c :: x ∧ c ≠ eofRune)

theorem rem_of_dropEof {r : Cursor} {post : Str} (hp : PostOK post) (h : r.chars = dropEof post) : RT.Rem r post := by
  rcases hp.2 with rfl | ⟨c, x, rfl, hc⟩
  · right; exact ⟨rfl, by simpa [dropEof] using h⟩
  · left; rw [h]; simp [dropEof, hc]

/-- **One lexeme of a gap.** Before a non-empty gap the scanner delivers a WS or COMMENT token and
stops before the rest of the gap (a whitespace token swallows the whole run). -/
theorem gap_step (r0 : Cursor) (i : Render.GapItem) (g' : Render.Gap) (post : Str)
    (hr : r0.chars = Render.gapText (i :: g') ++ post) (hok : Render.gapOK (i :: g') = true) (hp : PostOK post) :
    ∃ g2 : Render.Gap, g2.length ≤ g'.length ∧ Render.gapOK g2 = true ∧
      ((scan r0).1.tok = .WS ∨ (scan r0).1.tok = .COMMENT) ∧ RT.Rem (scan r0).2 (Render.gapText g2 ++ post) := by
  have hok' := hok
  rw [Render.gapOK_cons, Bool.and_eq_true] at hok'
  by_cases hiw : ∃ c, i = .ws c
  · obtain ⟨c, rfl⟩ := hiw
    obtain ⟨hws, hok2, hshape⟩ := Render.wsSpan_ok (.ws c :: g') hok
    have hlen := Render.wsSpan_length (.ws c :: g')
    have htxt := Render.wsSpan_text (.ws c :: g')
    have hrun : WsRun (Render.wsSpan (.ws c :: g')).1 := ⟨by simp [Render.wsSpan], hws⟩
    have hl1 : 1 ≤ (Render.wsSpan (.ws c :: g')).1.length := by simp [Render.wsSpan]
    rw [htxt, List.append_assoc] at hr
    refine ⟨(Render.wsSpan (.ws c :: g')).2, ?_, hok2, ?_⟩
    · simp only [List.length_cons] at hlen; omega
    · rcases hshape with he | ⟨j, g'', he, hcm⟩
      · rw [he] at hr ⊢
        simp only [Render.gapText_nil, List.nil_append] at hr ⊢
        obtain ⟨t1, c1⟩ := scan_wsRun r0 _ _ hr hrun hp.1
        exact ⟨Or.inl t1, rem_of_dropEof hp c1⟩
      · rw [he] at hr ⊢
        rw [Render.gapText_cons, List.append_assoc] at hr ⊢
        obtain ⟨t1, c1⟩ := scan_wsRun r0 _ _ hr hrun (notWsHead_comment _ _ hcm)
        rw [dropEof_comment _ _ hcm] at c1
        exact ⟨Or.inl t1, Or.inl c1⟩
  · have hcm : IsComment i.text := Render.GapItem.isComment_of_ok hok'.1 (fun c e => hiw ⟨c, e⟩)
    rw [Render.gapText_cons, List.append_assoc] at hr
    obtain ⟨t1, c1⟩ := scan_comment r0 _ _ hcm hr
    exact ⟨g', Nat.le_refl _, hok'.2, Or.inr t1, Or.inl c1⟩

/-- A gap followed by `post` is not the bare sentinel unless the gap is empty. -/
theorem gap_post_chars {r0 : Cursor} {i : Render.GapItem} {g' : Render.Gap} {post : Str}
    (h : RT.Rem r0 (Render.gapText (i :: g') ++ post)) (hok : Render.gapOK (i :: g') = true) :
    r0.chars = Render.gapText (i :: g') ++ post := by
  obtain ⟨c, t, h1, h2⟩ := Render.sepHead_gap (i :: g') post (by simp) hok
  rw [h1] at h ⊢
  refine h.chars_of_cons ?_
  simp only [Render.isSepChar, Bool.and_eq_true, Bool.not_eq_true', bne_iff_ne, ne_eq] at h2
  exact h2.1.1.1.1.2

theorem loop_final (f : Nat) (s : PState) (r0 : Cursor) (hl : RT.Look s r0) (hsig : RT.Sig (scan r0).1.tok) :
    ∃ s1, (scanIWLoop (f + 1)).run s = .ok ((scan r0).1, s1) ∧ RT.Just s1 (scan r0).1 (scan r0).2 ∧ Keeps s s1 := by
  obtain ⟨h1, h2, h3⟩ := RT.rawNext_look s r0 hl
  have e : substTok s.params (rawNext false s).1 = (scan r0).1 := by rw [h1, RT.substTok_id hsig.1]
  refine ⟨(rawNext false s).2, ?_, h2, h3, rawNext_buf_le false s⟩
  rw [scanIWLoop_run_sig f s (by rw [e]; exact hsig.2.1) (by rw [e]; exact hsig.2.2), pscan_run, e]

theorem loop_skip (f : Nat) (s : PState) (r0 : Cursor) (hl : RT.Look s r0)
    (h : (scan r0).1.tok = .WS ∨ (scan r0).1.tok = .COMMENT) :
    ∃ s1, (scanIWLoop (f + 1)).run s = (scanIWLoop f).run s1 ∧ RT.Look s1 (scan r0).2 ∧ s1.n = 0 ∧
      s1.r = (scan r0).2 ∧ Keeps s s1 := by
  obtain ⟨h1, h2, h3⟩ := RT.rawNext_look s r0 hl
  have hb : (scan r0).1.tok ≠ .BOUNDPARAM := by rcases h with h | h <;> (rw [h]; decide)
  have e : substTok s.params (rawNext false s).1 = (scan r0).1 := by rw [h1, RT.substTok_id hb]
  exact ⟨(rawNext false s).2, scanIWLoop_run_skip f s (by rw [e]; exact h), Or.inl ⟨h2.1, h2.2.2⟩, h2.1, h2.2.2, h3, rawNext_buf_le false s⟩

/-- The loop of `ScanIgnoreWhitespace` over a gap, from a state standing at the gap. -/
theorem loop_gap (post : Str) (hp : PostOK post) (hsig : ∀ r : Cursor, RT.Rem r post → RT.Sig (scan r).1.tok) (n : Nat) :
    ∀ (g : Render.Gap) (f : Nat) (s : PState) (r0 : Cursor), g.length ≤ n → g.length < f → Render.gapOK g = true →
      RT.Look s r0 → RT.Rem r0 (Render.gapText g ++ post) →
      ∃ s1 r', (scanIWLoop f).run s = .ok ((scan r').1, s1) ∧ RT.Rem r' post ∧
        RT.Just s1 (scan r').1 (scan r').2 ∧ Keeps s s1 := by
  induction n with
  | zero =>
    intro g f s r0 hgl hf _ hl hr
    have : g = [] := List.length_eq_zero_iff.mp (by omega)
    subst this
    obtain ⟨f', rfl⟩ : ∃ f', f = f' + 1 := ⟨f - 1, by omega⟩
    have hr' : RT.Rem r0 post := by simpa using hr
    obtain ⟨s1, h1, h2, h3⟩ := loop_final f' s r0 hl (hsig r0 hr')
    exact ⟨s1, r0, h1, hr', h2, h3⟩
  | succ n ih =>
    intro g f s r0 hgl hf hok hl hr
    obtain ⟨f', rfl⟩ : ∃ f', f = f' + 1 := ⟨f - 1, by omega⟩
    cases g with
    | nil =>
      have hr' : RT.Rem r0 post := by simpa using hr
      obtain ⟨s1, h1, h2, h3⟩ := loop_final f' s r0 hl (hsig r0 hr')
      exact ⟨s1, r0, h1, hr', h2, h3⟩
    | cons i g' =>
      obtain ⟨g2, hg2, hok2, htok, hrem⟩ := gap_step r0 i g' post (gap_post_chars hr hok) hok hp
      obtain ⟨s1, e1, hl1, _, _, hs1⟩ := loop_skip f' s r0 hl htok
      simp only [List.length_cons] at hgl hf
      obtain ⟨s2, r', e2, hr2, hj2, hs2⟩ := ih g2 f' s1 _ (by omega) (by omega) hok2 hl1 hrem
      exact ⟨s2, r', by rw [e1]; exact e2, hr2, hj2, hs1.trans hs2⟩

theorem gap_fuel {r : Cursor} {g : Render.Gap} {post : Str} (h : RT.Rem r (Render.gapText g ++ post)) :
    g.length < r.rest.length + 2 := by
  have h1 := Render.gapText_length g
  rcases h with h | ⟨h, _⟩
  · have := congrArg List.length h
    rw [Render.Cursor.chars_length, List.length_append] at this
    omega
  · have := congrArg List.length h
    rw [List.length_append] at this
    simp only [List.length_cons, List.length_nil] at this
    omega

/-- **Gap, then token, from a standing state.** From a state standing before `gap ++ post`,
`ScanIgnoreWhitespace` skips the gap and delivers the token scanned at `post`. -/
theorem scanIW_gap (s : PState) (r0 : Cursor) (g : Render.Gap) (post : Str) (hl : RT.Look s r0)
    (hr : RT.Rem r0 (Render.gapText g ++ post)) (hok : Render.gapOK g = true) (hp : PostOK post)
    (hsig : ∀ r : Cursor, RT.Rem r post → RT.Sig (scan r).1.tok) :
    ∃ s1 r', scanIW.run s = .ok ((scan r').1, s1) ∧ RT.Rem r' post ∧ RT.Just s1 (scan r').1 (scan r').2 ∧
      Keeps s s1 := by
  unfold scanIW
  rw [P.runBind, P.run_get]
  simp only []
  rcases hl with ⟨hn, hr0⟩ | ⟨hn, hb, hr0⟩
  · have hfu := gap_fuel hr
    rw [← hr0] at hfu
    exact loop_gap post hp hsig g.length g _ s r0 (Nat.le_refl _) (by omega) hok (Or.inl ⟨hn, hr0⟩) hr
  · have hl : RT.Look s r0 := Or.inr ⟨hn, hb, hr0⟩
    rw [show s.n + s.r.rest.length + 2 = (s.r.rest.length + 2) + 1 by omega]
    cases g with
    | nil =>
      have hr' : RT.Rem r0 post := by simpa using hr
      obtain ⟨s1, h1, h2, h3⟩ := loop_final _ s r0 hl (hsig r0 hr')
      exact ⟨s1, r0, h1, hr', h2, h3⟩
    | cons i g' =>
      obtain ⟨g2, hg2, hok2, htok, hrem⟩ := gap_step r0 i g' post (gap_post_chars hr hok) hok hp
      obtain ⟨s1, e1, hl1, hn1, hr1, hs1⟩ := loop_skip _ s r0 hl htok
      have hfu := gap_fuel hrem
      rw [← hr0] at hfu
      obtain ⟨s2, r', e2, hr2, hj2, hs2⟩ := loop_gap post hp hsig g2.length g2 _ s1 _ (Nat.le_refl _) hfu hok2 hl1 hrem
      exact ⟨s2, r', by rw [e1]; exact e2, hr2, hj2, hs1.trans hs2⟩

/-! ## Part 2: operators, parentheses -/

/-- A rune that `Scan` dispatches to the operator / punctuation groups. -/
def symB (c : Char) : Bool :=
  !isWhitespace c && !(isLetter c || c == '_') && !isDigit c && c != eofRune && c != '"' && c != '\'' && c != '.' &&
    c != '$'

theorem scan_sym (r : Cursor) (c : Char) (k : Str) (h : r.chars = c :: k) (hc : symB c = true) :
    scan r = scanFrom2 c r.read.1.2 r.read.2 ∧ r.read.2.chars = k := by
  obtain ⟨hs, hk⟩ := scan_of_chars_cons r c k h
  refine ⟨?_, hk⟩
  rw [hs]
  simp only [symB, Bool.and_eq_true, Bool.not_eq_true', bne_iff_ne, ne_eq] at hc
  obtain ⟨⟨⟨⟨⟨⟨⟨h1, h2⟩, h3⟩, h4⟩, h5⟩, h6⟩, h7⟩, h8⟩ := hc
  unfold scanFrom
  simp only [h1, h2, h3, h4, h5, h6, h7, h8, Bool.false_eq_true, if_false]

/-- The rune the reader delivers next (the sentinel at the end). -/
def nextCh (k : Str) : Char := k.head?.getD eofRune

theorem peek_next {r : Cursor} {k : Str} (h : r.chars = k) : r.peek = nextCh k := by
  rw [Cursor.peek_eq_head, h]; rfl

/-- The spellings of the sixteen symbolic binary operators (`!=` and `<>` both mean NEQ). -/
def symOps : List (Token × Str) :=
  [(.ADD, ['+']), (.SUB, ['-']), (.MUL, ['*']), (.DIV, ['/']), (.MOD, ['%']), (.BITWISE_AND, ['&']),
   (.BITWISE_OR, ['|']), (.BITWISE_XOR, ['^']), (.EQ, ['=']), (.NEQ, ['!', '=']), (.NEQ, ['<', '>']),
   (.EQREGEX, ['=', '~']), (.NEQREGEX, ['!', '~']), (.LT, ['<']), (.LTE, ['<', '=']), (.GT, ['>']),
   (.GTE, ['>', '='])]

/-- What must not follow a symbolic operator directly, because the scanner would read a longer
token: `=~`, `<=`, `<>`, `>=`, and the comment openers `--`, `/*`. -/
def symEndB (w k : Str) : Bool :=
  match w with
  | ['='] => nextCh k != '~'
  | ['<'] => nextCh k != '=' && nextCh k != '>'
  | ['>'] => nextCh k != '='
  | ['-'] => nextCh k != '-'
  | ['/'] => nextCh k != '*'
  | _ => true

macro "sym1" : tactic => `(tactic| (
  refine ⟨⟨_, _, rfl, by decide, by decide⟩, ⟨by decide, by decide, by decide⟩, ?_⟩
  intro r hr
  obtain ⟨hs, hk⟩ := scan_sym r _ _ hr (by decide)
  have hpk := peek_next hk
  rw [hs]
  simp [scanFrom2, scanFrom3, hpk, *]
  exact Or.inl hk))

macro "sym2" : tactic => `(tactic| (
  refine ⟨⟨_, _, rfl, by decide, by decide⟩, ⟨by decide, by decide, by decide⟩, ?_⟩
  intro r hr
  obtain ⟨hs, hk⟩ := scan_sym r _ _ hr (by decide)
  obtain ⟨_, hk2, hpk⟩ := Cursor.chars_cons hk
  rw [hs]
  simp [scanFrom2, scanFrom3, hpk]
  exact Or.inl hk2))

theorem scansAs_sym (op : Token) (w k : Str) (hm : (op, w) ∈ symOps) (hend : symEndB w k = true) :
    ScansAs w k op [] := by
  simp only [symOps, List.mem_cons, Prod.mk.injEq, List.not_mem_nil, or_false] at hm
  rcases hm with ⟨rfl, rfl⟩ | ⟨rfl, rfl⟩ | ⟨rfl, rfl⟩ | ⟨rfl, rfl⟩ | ⟨rfl, rfl⟩ | ⟨rfl, rfl⟩ | ⟨rfl, rfl⟩ | ⟨rfl, rfl⟩ |
    ⟨rfl, rfl⟩ | ⟨rfl, rfl⟩ | ⟨rfl, rfl⟩ | ⟨rfl, rfl⟩ | ⟨rfl, rfl⟩ | ⟨rfl, rfl⟩ | ⟨rfl, rfl⟩ | ⟨rfl, rfl⟩ | ⟨rfl, rfl⟩
  · sym1
  · simp [symEndB] at hend; sym1
  · sym1
  · simp [symEndB] at hend; sym1
  · sym1
  · sym1
  · sym1
  · sym1
  · simp [symEndB] at hend; sym1
  · sym2
  · sym2
  · sym2
  · sym2
  · simp [symEndB] at hend; sym1
  · sym2
  · simp [symEndB] at hend; sym1
  · sym2

theorem scansAs_lparen (k : Str) : ScansAs ['('] k .LPAREN [] := by
  refine ⟨⟨_, _, rfl, by decide, by decide⟩, ⟨by decide, by decide, by decide⟩, ?_⟩
  intro r hr
  obtain ⟨hs, hk⟩ := scan_sym r _ _ hr (by decide)
  rw [hs]
  simp [scanFrom2, scanFrom3, scanFrom4]
  exact Or.inl hk

theorem scansAs_rparen (k : Str) : ScansAs [')'] k .RPAREN [] := by
  refine ⟨⟨_, _, rfl, by decide, by decide⟩, ⟨by decide, by decide, by decide⟩, ?_⟩
  intro r hr
  obtain ⟨hs, hk⟩ := scan_sym r _ _ hr (by decide)
  rw [hs]
  simp [scanFrom2, scanFrom3, scanFrom4]
  exact Or.inl hk

/-- Boolean form of `WordEnd`. -/
def wordEndB : Str → Bool
  | [] => false
  | x :: t => (x == eofRune && t == []) || (!isIdentChar x && x != '"' && x != eofRune)

theorem wordEnd_of_B {k : Str} (h : wordEndB k = true) : WordEnd k := by
  cases k with
  | nil => cases h
  | cons x t =>
    simp only [wordEndB, Bool.or_eq_true, Bool.and_eq_true, beq_iff_eq, Bool.not_eq_true', bne_iff_ne, ne_eq] at h
    rcases h with ⟨rfl, rfl⟩ | ⟨⟨h1, h2⟩, h3⟩
    · exact Or.inr rfl
    · exact Or.inl ⟨x, t, rfl, h1, h2, h3⟩

/-- Boolean form of `NumEnd`. -/
def numEndB : Str → Bool
  | [] => true
  | x :: _ => !isDigit x && x != '.' && !isDurChar x

theorem numEnd_of_B {k : Str} (h : numEndB k = true) : NumEnd k := by
  intro x t e
  subst e
  simp only [numEndB, Bool.and_eq_true, Bool.not_eq_true', bne_iff_ne, ne_eq] at h
  exact ⟨h.1.1, h.1.2, h.2⟩

/-- `op` may be written `w`: `AND` / `OR` in any letter case, the symbolic operators as in `symOps`. -/
def opSpellB (op : Token) (w : Str) : Bool :=
  if op = .AND ∨ op = .OR then decide (Render.KwSpelling op w) else decide ((op, w) ∈ symOps)

/-- What follows the operator does not continue its token. -/
def opEndB (op : Token) (w k : Str) : Bool :=
  if op = .AND ∨ op = .OR then wordEndB k else symEndB w k

theorem symOps_isOperator : ∀ p ∈ symOps, p.1.isOperator = true := by decide

theorem opSpellB_isOperator {op : Token} {w : Str} (h : opSpellB op w = true) : op.isOperator = true := by
  unfold opSpellB at h
  split at h
  · next h' => rcases h' with rfl | rfl <;> rfl
  · exact symOps_isOperator (op, w) (of_decide_eq_true h)

/-- **Operators.** Every legal spelling of a binary operator is one token. -/
theorem scansAs_op (op : Token) (w k : Str) (h1 : opSpellB op w = true) (h2 : opEndB op w k = true) :
    ScansAs w k op [] := by
  unfold opSpellB at h1
  unfold opEndB at h2
  split at h1
  · next h' =>
    rw [if_pos h'] at h2
    have hkw : op.isKw = true := by rcases h' with rfl | rfl <;> decide
    exact Render.scansAs_kwSpelling op w k hkw (of_decide_eq_true h1) (wordEnd_of_B h2)
  · next h' =>
    rw [if_neg h'] at h2
    exact scansAs_sym op w k (of_decide_eq_true h1) h2

/-! ## `parseRegex` behind a gap -/

/-- A gap that starts with a comment (or is empty) is a `CommentRun`: comments, each followed by an
optional maximal whitespace run. -/
theorem commentRun_gap (post : Str) (hp : NotWsHead post) (n : Nat) :
    ∀ g : Render.Gap, g.length ≤ n → Render.gapOK g = true → (g = [] ∨ ∃ i g', g = i :: g' ∧ IsComment i.text) →
      CommentRun post (Render.gapText g) ∧ NotWsHead (Render.gapText g ++ post) := by
  induction n with
  | zero =>
    intro g hl _ _
    have : g = [] := List.length_eq_zero_iff.mp (by omega)
    subst this
    exact ⟨.nil, by simpa using hp⟩
  | succ n ih =>
    intro g hl hok hsh
    rcases hsh with rfl | ⟨i, g', rfl, hcm⟩
    · exact ⟨.nil, by simpa using hp⟩
    · rw [Render.gapOK_cons, Bool.and_eq_true] at hok
      obtain ⟨hws, hok2, hshape⟩ := Render.wsSpan_ok g' hok.2
      have hlen := Render.wsSpan_length g'
      have htxt := Render.wsSpan_text g'
      simp only [List.length_cons] at hl
      obtain ⟨ih1, ih2⟩ := ih (Render.wsSpan g').2 (by omega) hok2 hshape
      rw [Render.gapText_cons, htxt]
      have hw : WsOpt (Render.wsSpan g').1 := by
        by_cases he : (Render.wsSpan g').1 = []
        · exact Or.inl he
        · exact Or.inr ⟨he, hws⟩
      refine ⟨CommentRun.cons hcm hw ih2 ih1, ?_⟩
      rw [List.append_assoc]
      exact notWsHead_comment _ _ hcm

/-- **`parseRegex` behind any gap**, standing before a regex literal: the gap is skipped (the peek,
`consumeWhitespace`, the comment loop) and the literal is read. -/
theorem parseRegex_gap_text (s : PState) (g : Render.Gap) (src k : Str) (hn : s.n = 0) (hb : s.buf.length ≤ 3)
    (hok : Render.gapOK g = true) (hsrc : RT.regexB src = true)
    (h : s.r.chars = Render.gapText g ++ ('/' :: (escapeSlashes src ++ '/' :: k))) :
    ∃ lx s', parseRegex.run s = .ok (some (.regex src), s') ∧ RT.Just s' lx s'.r ∧ s'.r.chars = k ∧ Keeps s s' := by
  have hgood : Good s := ⟨by omega, hb⟩
  obtain ⟨hws, hok2, hshape⟩ := Render.wsSpan_ok g hok
  have htxt := Render.wsSpan_text g
  have hpost : NotWsHead ('/' :: (escapeSlashes src ++ '/' :: k)) := by
    intro c x e
    simp only [List.cons.injEq] at e
    rw [← e.1]; decide
  obtain ⟨hcr, hnw⟩ := commentRun_gap _ hpost _ (Render.wsSpan g).2 (Nat.le_refl _) hok2 hshape
  have hw0 : WsOpt (Render.wsSpan g).1 := by
    by_cases he : (Render.wsSpan g).1 = []
    · exact Or.inl he
    · exact Or.inr ⟨he, hws⟩
  obtain ⟨s', hat, hrun⟩ := parseRegex_skips_gap s hn hgood (Render.wsSpan g).1 (Render.gapText (Render.wsSpan g).2) _
    (by rw [h, htxt, List.append_assoc]) hw0 hnw hcr
  have hde : dropEof ('/' :: (escapeSlashes src ++ '/' :: k)) = '/' :: (escapeSlashes src ++ '/' :: k) := by
    have : ¬ ('/' : Char) = eofRune := by decide
    simp [dropEof, this]
  obtain ⟨lx, s'', h1, h2, h3, h4⟩ := RT.parseRegexSkip_text s' src k hat.n0 hsrc (by rw [hat.chars, hde])
  have hrun' : parseRegex.run s = .ok (some (.regex src), s'') := by rw [hrun]; exact h1
  have hwp := parseRegex_wp s hgood (by omega)
  unfold wp at hwp
  rw [hrun'] at hwp
  exact ⟨lx, s'', hrun', h2, h3, ⟨⟨h4.1.trans hat.params, h4.2.trans hat.lower⟩, fun _ => hwp.1.good.hb⟩⟩

/-- `ParseDuration(lit)` succeeds with value `d`. -/
def durValB (lit : Str) (d : Int) : Bool :=
  match parseDuration lit with
  | .ok v => v == d
  | .error _ => false

theorem durValB_elim {lit : Str} {d : Int} (h : durValB lit d = true) : parseDuration lit = .ok d := by
  unfold durValB at h
  split at h
  · next v hv => rw [hv]; simp only [beq_iff_eq] at h; rw [h]
  · cases h

/-- Boolean form of `DurEnd`. -/
def durEndB : Str → Bool
  | [] => false
  | x :: _ => !isDurTailChar x

theorem durEnd_of_B {k : Str} (h : durEndB k = true) : DurEnd k := by
  cases k with
  | nil => cases h
  | cons x t => exact ⟨x, t, rfl, by simpa [durEndB] using h⟩

/-! ## Part 3: spelled expressions -/

mutual
  /-- An operand with its spelling: a variable reference (bare or quoted), an integer literal
  (with leading zeros), a string literal, a parenthesised chain (gap after `(` and before `)`). -/
  inductive SAtom where
    | ref (sp : Render.NameSpelling) (n : Str)
    | int (z n : Nat)
    | str (v : Str)
    /-- `true` / `false` in any letter case -/
    | bool (w : Str) (b : Bool)
    /-- a duration literal as the scanner accepts it (`1h30m`, `0090m`, `10u`) with the value `ParseDuration` computes -/
    | dur (lit : Str) (d : Int)
    | paren (g1 : Render.Gap) (a : SAtom) (ops : SOps) (g2 : Render.Gap)
  /-- The operators that follow the first operand of a chain, each with the gap before it, its
  spelling, the gap after it and its right operand. -/
  inductive SOps where
    | nil
    | cons (g1 : Render.Gap) (op : Token) (w : Str) (g2 : Render.Gap) (a : SAtom) (rest : SOps)
    /-- `=~` / `!~` and a regex literal with source `src` -/
    | consRe (g1 : Render.Gap) (op : Token) (w : Str) (g2 : Render.Gap) (src : Str) (rest : SOps)
end

mutual
  /-- The text of an operand. -/
  def SAtom.text : SAtom → Str
    | .ref sp n => Render.spellName sp n
    | .int z n => Render.zeroPad z n
    | .str v => quoteString v
    | .bool w _ => w
    | .dur lit _ => lit
    | .paren g1 a ops g2 => '(' :: (Render.gapText g1 ++ (a.text ++ (ops.text ++ (Render.gapText g2 ++ [')']))))
  def SOps.text : SOps → Str
    | .nil => []
    | .cons g1 _ w g2 a rest => Render.gapText g1 ++ (w ++ (Render.gapText g2 ++ (a.text ++ rest.text)))
    | .consRe g1 _ w g2 src rest =>
      Render.gapText g1 ++ (w ++ (Render.gapText g2 ++ ('/' :: (escapeSlashes src ++ '/' :: rest.text))))
end

/-- The value of an integer literal: `IntegerLiteral` up to `MaxInt64`, `UnsignedLiteral` above. -/
def intLit (n : Nat) : Expr := if (n : Int) ≤ maxInt64 then .integer n else .unsigned n

mutual
  /-- The expression an operand denotes. -/
  def SAtom.erase : SAtom → Expr
    | .ref _ n => .varRef n .Unknown
    | .int _ n => intLit n
    | .str v => .string v
    | .bool _ b => .boolean b
    | .dur _ d => .duration d
    | .paren _ a ops _ => .paren (ops.erase a.erase)
  /-- The tree a chain denotes: every operator is inserted by precedence and left associativity
  (`insertOp`; by C03 `chain_wellGrouped` / `chain_unique` the only well-grouped tree with this yield). -/
  def SOps.erase : SOps → Expr → Expr
    | .nil, root => root
    | .cons _ op _ _ a rest, root => rest.erase (insertOp root op a.erase)
    | .consRe _ op _ _ src rest, root => rest.erase (insertOp root op (.regex src))
end

mutual
  /-- The operand is legally spelled in front of `k`: its pieces are well formed and its last token
  does not run into `k`. -/
  def SAtom.legal : SAtom → Str → Bool
    | .ref .bare n, k => Render.NameSpelling.ok .bare n && wordEndB k
    | .ref .quoted n, _ => Render.NameSpelling.ok .quoted n
    | .int _ n, k => decide ((n : Int) ≤ maxUInt64) && numEndB k
    | .str v, _ => RT.exprB v
    | .bool w b, k => decide (Render.KwSpelling (if b then .TRUE else .FALSE) w) && wordEndB k
    | .dur lit d, k => Render.durLitOK lit && durValB lit d && durEndB k
    | .paren g1 a ops g2, k =>
      Render.gapOK g1 && Render.gapOK g2 && a.legal (ops.text ++ (Render.gapText g2 ++ ')' :: k)) &&
        ops.legal (Render.gapText g2 ++ ')' :: k)
  def SOps.legal : SOps → Str → Bool
    | .nil, _ => true
    | .cons g1 op w g2 a rest, k =>
      Render.gapOK g1 && Render.gapOK g2 && opSpellB op w && !op.isRegexOp &&
        opEndB op w (Render.gapText g2 ++ (a.text ++ (rest.text ++ k))) && a.legal (rest.text ++ k) && rest.legal k
    | .consRe g1 op w g2 src rest, k =>
      Render.gapOK g1 && Render.gapOK g2 && opSpellB op w && op.isRegexOp && RT.regexB src && rest.legal k
end

/-! ## Part 4: the parser on spelled expressions -/

/-- The first token of `post` is `T`. -/
def First (post : Str) (T : Token) : Prop :=
  PostOK post ∧ RT.Sig T ∧ ∀ r : Cursor, RT.Rem r post → (scan r).1.tok = T

theorem first_of_scansAs {piece k : Str} {T : Token} {L : Str} (h : ScansAs piece k T L) : First (piece ++ k) T := by
  obtain ⟨⟨c, t, hp, hcw, hce⟩, hsig, hscan⟩ := h
  subst hp
  refine ⟨⟨?_, Or.inr ⟨c, t ++ k, rfl, hce⟩⟩, hsig, ?_⟩
  · intro x y hxy
    simp only [List.cons_append, List.cons.injEq] at hxy
    rw [← hxy.1]; exact hcw
  · intro r hr
    exact (hscan r (hr.chars_of_cons hce)).1

theorem first_eof : First [eofRune] .EOF := by
  refine ⟨⟨?_, Or.inl rfl⟩, ⟨by decide, by decide, by decide⟩, ?_⟩
  · intro c x h
    simp only [List.cons.injEq] at h
    rw [← h.1]; decide
  · intro r hr
    rcases RT.scan_close r [eofRune] hr (Or.inl rfl) with ⟨_, h⟩ | ⟨t, h, _⟩ | ⟨t, h, _⟩
    · exact h
    · cases h
    · cases h

/-- `ScanIgnoreWhitespace` over a gap and one piece, from a standing state. -/
theorem scanIW_piece (s : PState) (g : Render.Gap) (piece k : Str) (T : Token) (L : Str)
    (hat : RT.At s (Render.gapText g ++ (piece ++ k))) (hok : Render.gapOK g = true) (hsc : ScansAs piece k T L) :
    ∃ lx s1 r1, scanIW.run s = .ok (lx, s1) ∧ lx.tok = T ∧ lx.lit = L ∧ RT.Just s1 lx r1 ∧ RT.Rem r1 k ∧
      Keeps s s1 := by
  obtain ⟨r0, hl, hr⟩ := hat
  have hF := first_of_scansAs hsc
  obtain ⟨s1, r', e, hr', hj, hs⟩ := scanIW_gap s r0 g _ hl hr hok hF.1 (fun r hr => by rw [hF.2.2 r hr]; exact hF.2.1)
  obtain ⟨⟨c, t, hp, _, hce⟩, _, hscan⟩ := hsc
  have hch : r'.chars = piece ++ k := by
    subst hp
    exact hr'.chars_of_cons hce
  obtain ⟨h1, h2, h3⟩ := hscan r' hch
  exact ⟨_, s1, _, e, h1, h2, hj, h3, hs⟩

/-- Looking at the token after a gap and pushing it back: the parser stands before that token. -/
theorem scanIW_stop (s : PState) (g : Render.Gap) (post : Str) (T : Token)
    (hat : RT.At s (Render.gapText g ++ post)) (hok : Render.gapOK g = true) (hF : First post T) :
    ∃ lx s1, scanIW.run s = .ok (lx, s1) ∧ lx.tok = T ∧ RT.At (unsc s1) post ∧ Keeps s s1 := by
  obtain ⟨r0, hl, hr⟩ := hat
  obtain ⟨s1, r', e, hr', hj, hs⟩ := scanIW_gap s r0 g _ hl hr hok hF.1 (fun r hr => by rw [hF.2.2 r hr]; exact hF.2.1)
  exact ⟨_, s1, e, hF.2.2 r' hr', ⟨r', RT.look_unsc s1 r' hj, hr'⟩, hs⟩

/-- The raw token (`Scan`, not `ScanIgnoreWhitespace`) before a gap and a token. -/
theorem raw_follow (r : Cursor) (g : Render.Gap) (post : Str) (T : Token) (hok : Render.gapOK g = true)
    (hF : First post T) (hr : RT.Rem r (Render.gapText g ++ post)) :
    (scan r).1.tok = T ∨ (scan r).1.tok = .WS ∨ (scan r).1.tok = .COMMENT := by
  cases g with
  | nil => exact Or.inl (hF.2.2 r (by simpa using hr))
  | cons i g' =>
    obtain ⟨_, _, _, h, _⟩ := gap_step r i g' post (gap_post_chars hr hok) hok hF.1
    exact Or.inr h

/-- A token that may follow a variable reference directly: none of `(`, `.`, `::`. -/
def AfterTok (T : Token) : Prop := T ≠ .LPAREN ∧ T ≠ .DOT ∧ T ≠ .DOUBLECOLON

/-- A token at which `ParseExpr` stops. -/
def StopTok (T : Token) : Prop := T.isOperator = false ∧ AfterTok T

theorem afterTok_of_operator {op : Token} (h : op.isOperator = true) : AfterTok op := by
  refine ⟨?_, ?_, ?_⟩ <;> (rintro rfl; revert h; decide)

theorem SOps.text_nil (k : Str) : SOps.nil.text ++ k = k := by simp [SOps.text]

theorem SOps.text_cons (g1 : Render.Gap) (op : Token) (w : Str) (g2 : Render.Gap) (a : SAtom) (rest : SOps) (k : Str) :
    (SOps.cons g1 op w g2 a rest).text ++ k =
      Render.gapText g1 ++ (w ++ (Render.gapText g2 ++ (a.text ++ (rest.text ++ k)))) := by
  simp [SOps.text, List.append_assoc]

theorem SOps.legal_cons {g1 : Render.Gap} {op : Token} {w : Str} {g2 : Render.Gap} {a : SAtom} {rest : SOps} {k : Str}
    (h : (SOps.cons g1 op w g2 a rest).legal k = true) :
    Render.gapOK g1 = true ∧ Render.gapOK g2 = true ∧ opSpellB op w = true ∧ op.isRegexOp = false ∧
      opEndB op w (Render.gapText g2 ++ (a.text ++ (rest.text ++ k))) = true ∧ a.legal (rest.text ++ k) = true ∧
      rest.legal k = true := by
  rw [SOps.legal] at h
  simp only [Bool.and_eq_true, Bool.not_eq_true'] at h
  obtain ⟨⟨⟨⟨⟨⟨h1, h2⟩, h3⟩, h4⟩, h5⟩, h6⟩, h7⟩ := h
  exact ⟨h1, h2, h3, h4, h5, h6, h7⟩

theorem SOps.text_consRe (g1 : Render.Gap) (op : Token) (w : Str) (g2 : Render.Gap) (src : Str) (rest : SOps) (k : Str) :
    (SOps.consRe g1 op w g2 src rest).text ++ k =
      Render.gapText g1 ++ (w ++ (Render.gapText g2 ++ ('/' :: (escapeSlashes src ++ '/' :: (rest.text ++ k))))) := by
  simp [SOps.text, List.append_assoc]

theorem SOps.legal_consRe {g1 : Render.Gap} {op : Token} {w : Str} {g2 : Render.Gap} {src : Str} {rest : SOps} {k : Str}
    (h : (SOps.consRe g1 op w g2 src rest).legal k = true) :
    Render.gapOK g1 = true ∧ Render.gapOK g2 = true ∧ opSpellB op w = true ∧ op.isRegexOp = true ∧
      RT.regexB src = true ∧ rest.legal k = true := by
  rw [SOps.legal] at h
  simp only [Bool.and_eq_true] at h
  obtain ⟨⟨⟨⟨⟨h1, h2⟩, h3⟩, h4⟩, h5⟩, h6⟩ := h
  exact ⟨h1, h2, h3, h4, h5, h6⟩

/-- The spelling of a regex operator is `=~` / `!~`; nothing that follows can extend it. -/
theorem opEndB_regex {op : Token} {w : Str} (h1 : opSpellB op w = true) (h2 : op.isRegexOp = true) (k : Str) :
    opEndB op w k = true := by
  have hop : op = .EQREGEX ∨ op = .NEQREGEX := by
    cases op <;> first | exact Or.inl rfl | exact Or.inr rfl | (exfalso; revert h2; decide)
  unfold opSpellB at h1
  unfold opEndB
  rcases hop with rfl | rfl
  · rw [if_neg (by decide)] at h1 ⊢
    have hm := of_decide_eq_true h1
    simp only [symOps, List.mem_cons, Prod.mk.injEq, List.not_mem_nil, or_false, reduceCtorEq, false_and, false_or,
      true_and, or_false] at hm
    subst hm; rfl
  · rw [if_neg (by decide)] at h1 ⊢
    have hm := of_decide_eq_true h1
    simp only [symOps, List.mem_cons, Prod.mk.injEq, List.not_mem_nil, or_false, reduceCtorEq, false_and, false_or,
      true_and, or_false] at hm
    subst hm; rfl

/-- What follows an operand inside a chain: a gap and then an operator — or what follows the chain. -/
theorem ops_follow (ops : SOps) (g : Render.Gap) (post : Str) (T : Token) (hok : Render.gapOK g = true)
    (hF : First post T) (hT : AfterTok T) (hl : ops.legal (Render.gapText g ++ post) = true) :
    ∃ g' post' T', ops.text ++ (Render.gapText g ++ post) = Render.gapText g' ++ post' ∧ Render.gapOK g' = true ∧
      First post' T' ∧ AfterTok T' := by
  cases ops with
  | nil => exact ⟨g, post, T, SOps.text_nil _, hok, hF, hT⟩
  | cons g1 op w g2 a rest =>
    obtain ⟨h1, _, h3, _, h5, _, _⟩ := SOps.legal_cons hl
    exact ⟨g1, _, op, SOps.text_cons .., h1, first_of_scansAs (scansAs_op op w _ h3 h5),
      afterTok_of_operator (opSpellB_isOperator h3)⟩
  | consRe g1 op w g2 src rest =>
    obtain ⟨h1, _, h3, h4, _, _⟩ := SOps.legal_consRe hl
    exact ⟨g1, _, op, SOps.text_consRe .., h1, first_of_scansAs (scansAs_op op w _ h3 (opEndB_regex h3 h4 _)),
      afterTok_of_operator (opSpellB_isOperator h3)⟩

theorem parseIntegerLit_zeroPad (z n : Nat) (h : (n : Int) ≤ maxUInt64) (pos : Pos) (s : PState) :
    (parseIntegerLit (Render.zeroPad z n) pos).run s = .ok (intLit n, s) := by
  unfold parseIntegerLit intLit
  rw [Render.splitSign_zeroPad]
  have h0 : minInt64 ≤ (n : Int) := by unfold minInt64; omega
  obtain ⟨hne, hd⟩ := Render.zeroPad_digits z n
  have hh : (Render.zeroPad z n).head? ≠ some '-' ∧ (Render.zeroPad z n).head? ≠ some '+' := by
    match hx : Render.zeroPad z n with
    | [] => exact absurd hx hne
    | c :: rest =>
      have hc : isDigit c = true := hd c (by rw [hx]; exact List.mem_cons_self)
      constructor
      · intro h; simp at h; rw [h] at hc; exact absurd hc (by decide)
      · intro h; simp at h; rw [h] at hc; exact absurd hc (by decide)
  by_cases hm : (n : Int) ≤ maxInt64
  · simp [Render.allDigits_zeroPad, Render.digitsVal_zeroPad, hm, h0, StateT.run, pure, StateT.pure, Except.pure]
  · have hnot : ¬ (minInt64 ≤ (n : Int) ∧ (n : Int) ≤ maxInt64) := fun hc => hm hc.2
    simp [Render.allDigits_zeroPad, Render.digitsVal_zeroPad, hm, hnot, hh.1, hh.2, h, StateT.run, pure, StateT.pure,
      Except.pure]

theorem unary_int (F : Nat) (s s1 : PState) (lx : Lexeme) (r1 : Cursor) (z n : Nat)
    (h1 : scanIW.run s = .ok (lx, s1)) (hj : RT.Just s1 lx r1) (htok : lx.tok = .INTEGER)
    (hlit : lx.lit = Render.zeroPad z n) (hn : (n : Int) ≤ maxUInt64) :
    (parseUnaryExpr (F + 1)).run s = .ok (intLit n, s1) := by
  have hsig : lx.tok ≠ .BOUNDPARAM ∧ lx.tok ≠ .WS ∧ lx.tok ≠ .COMMENT := by rw [htok]; decide
  have hnp : ¬ lx.tok = .LPAREN := by rw [htok]; decide
  rw [parseUnaryExpr, P.run_bind _ _ _ _ _ h1, P.run_ite, if_neg hnp, P.run_bind _ _ _ _ _ (RT.unscan_run' s1),
    P.run_bind _ _ _ _ _ (RT.scanIW_redeliver s1 lx r1 hj hsig.1 hsig.2.1 hsig.2.2)]
  obtain ⟨tok, pos, lit⟩ := lx
  simp only at htok hlit
  subst htok hlit
  exact parseIntegerLit_zeroPad z n hn pos s1

/-- `RT.unary_ident_plain` with the ring bound: an identifier followed by neither `(`, `.` nor `::`
is a plain variable reference; the token after it stays pushed back. -/
theorem unary_ident_plain' (F : Nat) (s s1 : PState) (lx : Lexeme) (r1 : Cursor)
    (h1 : scanIW.run s = .ok (lx, s1)) (hj : RT.Just s1 lx r1) (htok : lx.tok = .IDENT)
    (hb : (scan r1).1.tok ≠ .BOUNDPARAM) (hlp : (scan r1).1.tok ≠ .LPAREN) (hd : (scan r1).1.tok ≠ .DOT)
    (hcc : (scan r1).1.tok ≠ .DOUBLECOLON) :
    ∃ s', (parseUnaryExpr (F + 1)).run s = .ok (.varRef lx.lit .Unknown, s') ∧ RT.Look s' r1 ∧ Keeps s1 s' := by
  have hsig : lx.tok ≠ .BOUNDPARAM ∧ lx.tok ≠ .WS ∧ lx.tok ≠ .COMMENT := by rw [htok]; decide
  have hnp : ¬ lx.tok = .LPAREN := by rw [htok]; decide
  obtain ⟨hn0, hb0, hr0⟩ := hj
  subst hr0
  have hps := pscan_fresh s1 hn0 hb
  refine ⟨{ unsc (unsc { s1 with r := (scan s1.r).2, buf := ((scan s1.r).1 :: s1.buf).take 3 }) with n := 1 }, ?_,
    Or.inr ⟨rfl, by simp [unsc], rfl⟩, ⟨rfl, rfl⟩, fun _ => by simp only [unsc, List.length_take]; omega⟩
  rw [parseUnaryExpr, P.run_bind _ _ _ _ _ h1, P.run_ite, if_neg hnp, P.run_bind _ _ _ _ _ (RT.unscan_run' s1),
    P.run_bind _ _ _ _ _ (RT.scanIW_redeliver s1 lx s1.r ⟨hn0, hb0, rfl⟩ hsig.1 hsig.2.1 hsig.2.2)]
  have hvr := RT.parseVarRef_plain
    (unsc (unsc { s1 with r := (scan s1.r).2, buf := ((scan s1.r).1 :: s1.buf).take 3 })) lx (scan s1.r).1
    (by simp [unsc, hn0]) (by simp [unsc, hb0]) (by simp [unsc]) htok hb hd hcc
  obtain ⟨tok, pos, lit⟩ := lx
  simp only at htok
  subst htok
  show (pscan >>= _).run s1 = _
  rw [P.run_bind _ _ _ _ _ hps, P.run_ite, if_neg hlp, P.run_bind _ _ _ _ _ (RT.unscan_run' _),
    P.run_bind _ _ _ _ _ (RT.unscan_run' _)]
  exact hvr

/-- `parseUnaryExpr` on a spelled operand behind a gap and before a gap and a token. -/
def SpecU (F : Nat) : Prop := ∀ (s : PState) (g : Render.Gap) (a : SAtom) (g' : Render.Gap) (post : Str) (T : Token),
  Render.gapOK g = true → Render.gapOK g' = true → First post T → AfterTok T → s.buf.length ≤ 3 →
  a.legal (Render.gapText g' ++ post) = true → RT.At s (Render.gapText g ++ (a.text ++ (Render.gapText g' ++ post))) →
  wp (parseUnaryExpr F) s (fun e' s' => e' = a.erase ∧ RT.At s' (Render.gapText g' ++ post) ∧ Keeps s s') RT.IsFuel

/-- The loop of `ParseExpr` on the spelled operators and operands; it consumes the gap before the
token at which it stops. -/
def SpecL (F : Nat) : Prop := ∀ (s : PState) (root : Expr) (ops : SOps) (g : Render.Gap) (post : Str) (T : Token),
  Render.gapOK g = true → First post T → StopTok T → s.buf.length ≤ 3 → ops.legal (Render.gapText g ++ post) = true →
  RT.At s (ops.text ++ (Render.gapText g ++ post)) →
  wp (exprLoop F root) s (fun e' s' => e' = ops.erase root ∧ RT.At s' post ∧ Keeps s s') RT.IsFuel

/-- `ParseExpr` on a spelled chain. -/
def SpecE (F : Nat) : Prop := ∀ (s : PState) (g0 : Render.Gap) (a : SAtom) (ops : SOps) (g : Render.Gap) (post : Str)
  (T : Token), Render.gapOK g0 = true → Render.gapOK g = true → First post T → StopTok T → s.buf.length ≤ 3 →
  a.legal (ops.text ++ (Render.gapText g ++ post)) = true → ops.legal (Render.gapText g ++ post) = true →
  RT.At s (Render.gapText g0 ++ (a.text ++ (ops.text ++ (Render.gapText g ++ post)))) →
  wp (parseExpr F) s (fun e' s' => e' = ops.erase a.erase ∧ RT.At s' post ∧ Keeps s s') RT.IsFuel

theorem specE_step (F : Nat) (ihU : SpecU F) (ihL : SpecL F) : SpecE (F + 1) := by
  intro s g0 a ops g post T hg0 hg hF hT hb hla hlo hat
  obtain ⟨g', post', T', htxt, hg', hF', hT'⟩ := ops_follow ops g post T hg hF hT.2 hlo
  rw [parseExpr, wp_bind]
  rw [htxt] at hat hla
  refine wp_mono (ihU s g0 a g' post' T' hg0 hg' hF' hT' hb hla hat) ?_ (fun _ h => h)
  intro e1 s1 ⟨he1, hat1, hsame1⟩
  subst he1
  rw [← htxt] at hat1
  refine wp_mono (ihL s1 a.erase ops g post T hg hF hT (hsame1.2 hb) hlo hat1) ?_ (fun _ h => h)
  intro e' s2 ⟨he', hat2, hsame2⟩
  exact ⟨he', hat2, hsame1.trans hsame2⟩

theorem specL_step (F : Nat) (ihU : SpecU F) (ihL : SpecL F) : SpecL (F + 1) := by
  intro s root ops g post T hg hF hT hb hlo hat
  rw [exprLoop, wp_bind]
  cases ops with
  | nil =>
    rw [SOps.text_nil] at hat
    obtain ⟨lx, s1, hrun, htok, hat1, hsame⟩ := scanIW_stop s g post T hat hg hF
    rw [wp_of_run_ok hrun]
    have hnop : (!lx.tok.isOperator) = true := by rw [htok, hT.1]; rfl
    rw [wp_ite, if_pos hnop, wp_bind, unscan_wp, wp_pure]
    exact ⟨by simp [SOps.erase], hat1, hsame.trans (keeps_unsc s1)⟩
  | cons g1 op w g2 a rest =>
    obtain ⟨h1, h2, h3, h4, h5, h6, h7⟩ := SOps.legal_cons hlo
    rw [SOps.text_cons] at hat
    have hop := opSpellB_isOperator h3
    obtain ⟨lx, s1, r1, hrun, htok, _, hj, hrem, hsame⟩ := scanIW_piece s g1 w _ op [] hat h1 (scansAs_op op w _ h3 h5)
    rw [wp_of_run_ok hrun]
    have hnop : ¬ (!lx.tok.isOperator) = true := by rw [htok, hop]; simp
    rw [wp_ite, if_neg hnop]
    dsimp only
    have hnre' : ¬ lx.tok.isRegexOp = true := by rw [htok, h4]; simp
    rw [wp_ite, if_neg hnre', wp_bind]
    obtain ⟨g', post', T', htxt, hg', hF', hT'⟩ := ops_follow rest g post T hg hF hT.2 h7
    have hat1 : RT.At s1 (Render.gapText g2 ++ (a.text ++ (Render.gapText g' ++ post'))) := by
      rw [← htxt]; exact hj.at hrem
    rw [htxt] at h6
    refine wp_mono (ihU s1 g2 a g' post' T' h2 hg' hF' hT' (hsame.2 hb) h6 hat1) ?_ (fun _ h => h)
    intro e1 s2 ⟨he1, hat2, hsame2⟩
    subst he1
    rw [← htxt] at hat2
    refine wp_mono (ihL s2 _ rest g post T hg hF hT (hsame2.2 (hsame.2 hb)) h7 hat2) ?_ (fun _ h => h)
    intro e' s3 ⟨he', hat3, hsame3⟩
    exact ⟨by rw [he', htok]; simp [SOps.erase], hat3, (hsame.trans hsame2).trans hsame3⟩
  | consRe g1 op w g2 src rest =>
    obtain ⟨h1, h2, h3, h4, h5, h7⟩ := SOps.legal_consRe hlo
    rw [SOps.text_consRe] at hat
    have hop := opSpellB_isOperator h3
    obtain ⟨lx, s1, r1, hrun, htok, _, hj, hrem, hsame⟩ := scanIW_piece s g1 w _ op [] hat h1
      (scansAs_op op w _ h3 (opEndB_regex h3 h4 _))
    rw [wp_of_run_ok hrun]
    have hnop : ¬ (!lx.tok.isOperator) = true := by rw [htok, hop]; simp
    rw [wp_ite, if_neg hnop]
    dsimp only
    have hch1 : s1.r.chars = Render.gapText g2 ++ ('/' :: (escapeSlashes src ++ '/' :: (rest.text ++
        (Render.gapText g ++ post)))) := by
      rw [hj.2.2]
      cases g2 with
      | nil => exact hrem.chars_of_cons (by decide)
      | cons i g2' => exact gap_post_chars hrem h2
    obtain ⟨lx2, s2, hrun2, hj2, hch2, hsame2⟩ := parseRegex_gap_text s1 g2 src _ hj.1 (hsame.2 hb) h2 h5 hch1
    rw [wp_ite, if_pos (by rw [htok]; exact h4), wp_bind, wp_of_run_ok hrun2]
    dsimp only
    rw [wp_bind, wp_pure]
    refine wp_mono (ihL s2 _ rest g post T hg hF hT (hsame2.2 (hsame.2 hb)) h7 (hj2.at (Or.inl hch2))) ?_ (fun _ h => h)
    intro e' s3 ⟨he', hat3, hsame3⟩
    exact ⟨by rw [he', htok]; simp [SOps.erase], hat3, (hsame.trans hsame2).trans hsame3⟩

theorem first_rparen (k : Str) : First (')' :: k) .RPAREN := first_of_scansAs (scansAs_rparen k)

theorem specU_step (F : Nat) (ihE : SpecE F) : SpecU (F + 1) := by
  intro s g a g' post T hg hg' hF hT hb hleg hat
  cases a with
  | ref sp n =>
    have hsc : ScansAs (Render.spellName sp n) (Render.gapText g' ++ post) .IDENT n := by
      cases sp with
      | bare =>
        rw [SAtom.legal, Bool.and_eq_true] at hleg
        exact Render.scansAs_piece (.name .bare n) _ hleg.1 (wordEnd_of_B hleg.2)
      | quoted =>
        rw [SAtom.legal] at hleg
        exact Render.scansAs_piece (.name .quoted n) _ hleg trivial
    rw [SAtom.text] at hat
    obtain ⟨lx, s1, r1, hrun, htok, hlit, hj, hrem, hsame⟩ := scanIW_piece s g _ _ _ _ hat hg hsc
    have hraw := raw_follow r1 g' post T hg' hF hrem
    have hne : ∀ t : Token, t ≠ T → t ≠ .WS → t ≠ .COMMENT → (scan r1).1.tok ≠ t := by
      intro t h1 h2 h3 e
      rcases hraw with h | h | h
      · exact h1 (e.symm.trans h)
      · exact h2 (e.symm.trans h)
      · exact h3 (e.symm.trans h)
    obtain ⟨s', hrun', hlook, hsame'⟩ := unary_ident_plain' F s s1 lx r1 hrun hj htok
      (hne _ (Ne.symm hF.2.1.1) (by decide) (by decide)) (hne _ (Ne.symm hT.1) (by decide) (by decide))
      (hne _ (Ne.symm hT.2.1) (by decide) (by decide)) (hne _ (Ne.symm hT.2.2) (by decide) (by decide))
    rw [wp_of_run_ok hrun']
    exact ⟨by rw [hlit]; simp [SAtom.erase], ⟨r1, hlook, hrem⟩, hsame.trans hsame'⟩
  | int z n =>
    rw [SAtom.legal, Bool.and_eq_true, decide_eq_true_eq] at hleg
    rw [SAtom.text] at hat
    obtain ⟨h1, h2⟩ := Render.zeroPad_digits z n
    obtain ⟨lx, s1, r1, hrun, htok, hlit, hj, hrem, hsame⟩ := scanIW_piece s g _ _ _ _ hat hg
      (Render.scansAs_digits (Render.zeroPad z n) _ h1 h2 (numEnd_of_B hleg.2))
    rw [wp_of_run_ok (unary_int F s s1 lx r1 z n hrun hj htok hlit hleg.1)]
    exact ⟨by simp [SAtom.erase], hj.at hrem, hsame⟩
  | str v =>
    rw [SAtom.legal] at hleg
    rw [SAtom.text] at hat
    obtain ⟨lx, s1, r1, hrun, htok, hlit, hj, hrem, hsame⟩ := scanIW_piece s g _ _ _ _ hat hg
      (scansAs_string v _ (RT.exprB_expressible hleg))
    rw [wp_of_run_ok (RT.unary_string F s s1 lx r1 hrun hj htok)]
    exact ⟨by rw [hlit]; simp [SAtom.erase], hj.at hrem, hsame⟩
  | bool w b =>
    rw [SAtom.legal, Bool.and_eq_true, decide_eq_true_eq] at hleg
    rw [SAtom.text] at hat
    obtain ⟨lx, s1, r1, hrun, htok, _, hj, hrem, hsame⟩ := scanIW_piece s g _ _ _ _ hat hg
      (Render.scansAs_kwSpelling (if b then .TRUE else .FALSE) w _ (by cases b <;> decide) hleg.1 (wordEnd_of_B hleg.2))
    rw [wp_of_run_ok (RT.unary_bool F s s1 lx r1 b hrun hj htok)]
    exact ⟨by simp [SAtom.erase], hj.at hrem, hsame⟩
  | dur lit d =>
    rw [SAtom.legal] at hleg
    simp only [Bool.and_eq_true] at hleg
    rw [SAtom.text] at hat
    obtain ⟨lx, s1, r1, hrun, htok, hlit, hj, hrem, hsame⟩ := scanIW_piece s g _ _ _ _ hat hg
      (Render.scansAs_durLit lit _ hleg.1.1 (durEnd_of_B hleg.2))
    rw [wp_of_run_ok (RT.unary_duration F s s1 lx r1 hrun hj htok d (by rw [hlit]; exact durValB_elim hleg.1.2))]
    exact ⟨by simp [SAtom.erase], hj.at hrem, hsame⟩
  | paren g1 a1 ops g2 =>
    rw [SAtom.legal] at hleg
    simp only [Bool.and_eq_true] at hleg
    obtain ⟨⟨⟨hg1, hg2⟩, hla⟩, hlo⟩ := hleg
    have hat' : RT.At s (Render.gapText g ++ (['('] ++ (Render.gapText g1 ++ (a1.text ++ (ops.text ++
        (Render.gapText g2 ++ (')' :: (Render.gapText g' ++ post)))))))) := by
      simpa [SAtom.text, List.append_assoc] using hat
    obtain ⟨lx, s1, r1, hrun, htok, _, hj, hrem, hsame⟩ := scanIW_piece s g _ _ _ _ hat' hg (scansAs_lparen _)
    rw [parseUnaryExpr, wp_bind, wp_of_run_ok hrun, wp_ite, if_pos htok, wp_bind]
    refine wp_mono (ihE s1 g1 a1 ops g2 _ .RPAREN hg1 hg2 (first_rparen _)
      ⟨rfl, by decide, by decide, by decide⟩ (hsame.2 hb) hla hlo (hj.at hrem)) ?_ (fun _ h => h)
    intro e' s2 ⟨he', hat2, hsame2⟩
    subst he'
    obtain ⟨lx2, s3, r3, hrun3, htok3, _, hj3, hrem3, hsame3⟩ := scanIW_piece s2 [] [')'] _ _ _ hat2 rfl
      (scansAs_rparen _)
    rw [wp_bind, wp_of_run_ok hrun3]
    dsimp only
    rw [wp_ite, if_neg (by rw [htok3]; simp), wp_pure]
    exact ⟨by simp [SAtom.erase], hj3.at hrem3, (hsame.trans hsame2).trans hsame3⟩

/-- The specifications hold for every amount of fuel. -/
theorem specs (F : Nat) : SpecE F ∧ SpecL F ∧ SpecU F := by
  induction F with
  | zero =>
    refine ⟨?_, ?_, ?_⟩
    · intro s g0 a ops g post T _ _ _ _ _ _ _ _; rw [parseExpr, wp_throw]; rfl
    · intro s root ops g post T _ _ _ _ _ _; rw [exprLoop, wp_throw]; rfl
    · intro s g a g' post T _ _ _ _ _ _ _; rw [parseUnaryExpr, wp_throw]; rfl
  | succ F ih =>
    obtain ⟨ihE, ihL, ihU⟩ := ih
    exact ⟨specE_step F ihU ihL, specL_step F ihU ihL, specU_step F ihE⟩

/-! ## Part 5: whole expressions -/

/-- A spelled expression: leading gap, first operand, the operators with their operands, trailing gap. -/
structure SExpr where
  g0 : Render.Gap
  a : SAtom
  ops : SOps
  g : Render.Gap

/-- The text. -/
def SExpr.text (e : SExpr) : Str :=
  Render.gapText e.g0 ++ (e.a.text ++ (e.ops.text ++ Render.gapText e.g))

/-- The expression denoted. -/
def SExpr.erase (e : SExpr) : Expr := e.ops.erase e.a.erase

/-- Legally spelled in front of `post` (decidable). -/
def SExpr.legal (e : SExpr) (post : Str) : Bool :=
  Render.gapOK e.g0 && Render.gapOK e.g && e.a.legal (e.ops.text ++ (Render.gapText e.g ++ post)) &&
    e.ops.legal (Render.gapText e.g ++ post)

/-- **State-level form.** From any state standing before a legal spelling of `e` followed by `post`
(whose first token `T` is no binary operator and none of `(`, `.`, `::`), `ParseExpr` returns the
denoted expression and stands before `post` — it has looked at `T` and pushed it back. -/
theorem parseExpr_render_state (F : Nat) (s : PState) (e : SExpr) (post : Str) (T : Token) (hF : First post T)
    (hT : StopTok T) (hb : s.buf.length ≤ 3) (hl : e.legal post = true) (hat : RT.At s (e.text ++ post)) :
    wp (parseExpr F) s (fun e' s' => e' = e.erase ∧ RT.At s' post ∧ Keeps s s') RT.IsFuel := by
  unfold SExpr.legal at hl
  simp only [Bool.and_eq_true] at hl
  obtain ⟨⟨⟨h1, h2⟩, h3⟩, h4⟩ := hl
  refine (specs F).1 s e.g0 e.a e.ops e.g post T h1 h2 hF hT hb h3 h4 ?_
  simpa [SExpr.text, List.append_assoc] using hat

/-- **Free spelling of expressions.** Every legal spelling of `e` — any gaps, `AND` / `OR` in any
case, names bare or quoted, leading zeros, `!=` or `<>` — is parsed to the expression it denotes,
whatever the bound parameters and the lower-casing table. `text` is the raw input; the reader
delivers `foldCR text` (CR and CRLF as LF). -/
theorem parseExprText_render (e : SExpr) (text : Str) (params : List (Str × BoundValue)) (tbl : List (Char × Char))
    (htext : foldCR text = e.text) (hl : e.legal [eofRune] = true) : parseExprText text params tbl = .ok e.erase := by
  have hch : (PState.init text params tbl).r.chars = e.text ++ [eofRune] := by
    show (Cursor.ofRunes text).chars = _
    rw [chars_ofRunes, htext]
  have hat : RT.At (PState.init text params tbl) (e.text ++ [eofRune]) := ⟨_, Or.inl ⟨rfl, rfl⟩, Or.inl hch⟩
  have hwp := parseExpr_render_state (fuelFor text) _ e [eofRune] .EOF first_eof
    ⟨rfl, by decide, by decide, by decide⟩ (Nat.zero_le _) hl hat
  have htot := parseExprText_total text params tbl
  unfold parseExprText at htot ⊢
  unfold wp at hwp
  show (Prod.fst <$> (parseExpr (fuelFor text)).run (PState.init text params tbl)) = .ok e.erase
  change match (Prod.fst <$> (parseExpr (fuelFor text)).run (PState.init text params tbl)) with
    | .ok _ => True
    | .error f => f.isErr at htot
  cases hr : (parseExpr (fuelFor text)).run (PState.init text params tbl) with
  | error f =>
    rw [hr] at hwp htot
    have hf : f = .fuel := hwp
    subst hf
    exact absurd htot (by intro h; exact h)
  | ok p =>
    rw [hr] at hwp
    obtain ⟨he, _, _⟩ := hwp
    show Except.ok p.1 = Except.ok e.erase
    rw [he]

/-! ## Part 6: what `erase` is, independently of `insertOp` -/

/-- The operators of a chain with the expressions their right operands denote, in reading order. -/
def SOps.pairs : SOps → List (Token × Expr)
  | .nil => []
  | .cons _ op _ _ a rest => (op, a.erase) :: rest.pairs
  | .consRe _ op _ _ src rest => (op, .regex src) :: rest.pairs

theorem SOps.erase_fold : ∀ (ops : SOps) (root : Expr),
    ops.erase root = ops.pairs.foldl (fun t p => insertOp t p.1 p.2) root
  | .nil, root => by simp [SOps.erase, SOps.pairs]
  | .cons _ op _ _ a rest, root => by simp [SOps.erase, SOps.pairs, SOps.erase_fold rest]
  | .consRe _ op _ _ src rest, root => by simp [SOps.erase, SOps.pairs, SOps.erase_fold rest]

theorem SAtom.erase_nb (a : SAtom) : RT.NB a.erase := by
  intro op l r h
  cases a with
  | ref sp n => simp [SAtom.erase] at h
  | int z n => simp only [SAtom.erase, intLit] at h; split at h <;> cases h
  | str v => simp [SAtom.erase] at h
  | bool w b => simp [SAtom.erase] at h
  | dur lit d => simp [SAtom.erase] at h
  | paren g1 a ops g2 => simp [SAtom.erase] at h

theorem SOps.pairs_nb : ∀ (ops : SOps), ∀ p ∈ ops.pairs, RT.NB p.2
  | .nil => by intro p hp; simp [SOps.pairs] at hp
  | .cons _ op _ _ a rest => by
    intro p hp
    simp only [SOps.pairs, List.mem_cons] at hp
    rcases hp with rfl | hp
    · exact a.erase_nb
    · exact SOps.pairs_nb rest p hp
  | .consRe _ op _ _ src rest => by
    intro p hp
    simp only [SOps.pairs, List.mem_cons] at hp
    rcases hp with rfl | hp
    · intro o l r h; cases h
    · exact SOps.pairs_nb rest p hp

/-- **The denoted tree.** `erase` is the image of C03's `parseChain` over the operands and operators
in reading order: by `chain_wellGrouped` / `chain_unique` the one tree with this yield that is
grouped by the five precedence levels, left-associatively. -/
theorem SExpr.erase_eq (e : SExpr) : e.erase = RT.embT (Prec.parseChain e.a.erase e.ops.pairs) := by
  unfold SExpr.erase Prec.parseChain
  rw [SOps.erase_fold, RT.embT_foldl e.ops.pairs (.atom e.a.erase) e.a.erase_nb e.ops.pairs_nb]
  rfl

end InfluxQL.ER

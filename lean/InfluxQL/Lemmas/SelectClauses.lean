import InfluxQL.Lemmas.SelectPieces
/-
The clauses after WHERE of SELECT on their printed form (C02): GROUP BY, fill(), ORDER BY, TZ().

`fill(…)`, `TZ('…')` and `time(…)` are read by `ParseExpr` as calls; `parseCall` lower-cases the call
name with the table shipped with the input (`unicode.ToLower` on its non-ASCII runes), so `time` and
`fill` need the table to leave ASCII alone (`RT.AsciiFix`); `TZ` lower-cases by the ASCII rule.
-/
namespace InfluxQL
open Gen

/-! ## continuations once more -/

/-- A clause that starts with a printed piece follows, if the piece's token is none of `stop`. -/
theorem Follow.piece (piece rest : Str) (T : Token) (L : Str) (stop : List Token) (hsc : ScansAs piece rest T L)
    (hop : T.isOperator = false) (hn : T ∉ stop) : Follow (' ' :: (piece ++ rest)) stop := by
  obtain ⟨⟨c, t, hp, hcw, hce⟩, _, _⟩ := id hsc
  refine ⟨Or.inr ⟨c, t ++ rest, by rw [hp]; rfl, hcw, hce⟩, T, ?_, hop, hn⟩
  have := starts_piece [' '] piece rest T L Gap.blank hsc
  simpa using this

/-- What `ScanIgnoreWhitespace` + `Unscan` see at the head of `k` from any state standing before it:
a lexeme with token and literal satisfying `P`; the parser keeps standing before `k`. -/
def Ahead (k : Str) (P : Token → Str → Prop) : Prop :=
  ∀ s, RT.Stand s k → ∃ lx s1, scanIW.run s = .ok (lx, s1) ∧ P lx.tok lx.lit ∧ RT.Stand (unsc s1) k

theorem Ahead.of_follow {k : Str} {stop : List Token} (hk : Follow k stop) : Ahead k (fun T _ => T ∉ stop) := by
  intro s hs
  obtain ⟨_, T, hT, _, hn⟩ := hk
  obtain ⟨lx, s1, h1, h2, h3, _⟩ := RT.scanIW_starts s k T hs hT
  exact ⟨lx, s1, h1, by rw [h2]; exact hn, h3⟩

theorem Ahead.piece (piece rest : Str) (T : Token) (L : Str) (hsc : ScansAs piece rest T L) :
    Ahead (' ' :: (piece ++ rest)) (fun T' L' => T' = T ∧ L' = L) := by
  intro s hs
  have hst : RT.Starts (' ' :: (piece ++ rest)) T := by
    simpa using starts_piece [' '] piece rest T L Gap.blank hsc
  obtain ⟨lx, s1, h1, h2, h3, _⟩ := RT.scanIW_starts s _ T hs hst
  obtain ⟨lx', s1', h1', _, h3', _⟩ := scanIW_stand s [' '] piece rest T L Gap.blank (by simpa using hs) hsc
  rw [h1] at h1'
  injection h1' with e
  injection e with e1 _
  subst e1
  exact ⟨lx, s1, h1, ⟨h2, h3'⟩, h3⟩

theorem Ahead.mono {k : Str} {P Q : Token → Str → Prop} (h : Ahead k P) (hpq : ∀ T L, P T L → Q T L) : Ahead k Q := by
  intro s hs
  obtain ⟨lx, s1, h1, h2, h3⟩ := h s hs
  exact ⟨lx, s1, h1, hpq _ _ h2, h3⟩

/-! ## calls with any name -/

/-- A bare word that `Lookup` leaves an identifier. -/
def WordName (name : Str) : Prop :=
  lookup name = .IDENT ∧ ∃ c tl, name = c :: tl ∧ isIdentFirstChar c = true ∧ ∀ y ∈ tl, isIdentChar y = true

/-- `parseCall` after the opening parenthesis, for any written name: the call carries the lower-cased
name (`RT.SpecC` is the case of a lower-case name). -/
theorem parseCall_args (F : Nat) (s : PState) (name0 : Str) (args : List Expr) (k : Str)
    (hargs : RT.rtOKArgs false args = true) (hk : RT.SepU k) (hn : s.n = 0)
    (hch : s.r.chars = joinWith [',', ' '] (printArgs args) ++ ')' :: k) :
    wp (parseCall (F + 1) name0) s
      (fun e' s' => e' = .call (lowerStr s.lowerTbl name0) args ∧ RT.At s' k ∧ RT.Same s s') RT.IsFuel := by
  have htb : ∀ s' : PState, RT.TblOK false s' := fun _ h => by cases h
  have ihE : RT.SpecE false F := (RT.rt_specs false F).1
  have ihA : RT.SpecA false F := (RT.rt_specs false F).2.2.2.2
  rw [parseCall, wp_bind, wp_get]
  dsimp only
  rw [wp_bind]
  cases args with
  | nil =>
    have hch' : s.r.chars = ')' :: k := by simpa [printArgs, joinWith] using hch
    obtain ⟨s2, hrun2, hn2, hch2, hsame2⟩ := RT.parseRegex_none s (')' :: k) hn
      (RT.nrs_of ')' k (by decide)) (Or.inl hch')
    rw [wp_of_run_ok hrun2]
    dsimp only
    have hclose := RT.scan_close s2.r (')' :: k) (Or.inl hch2) (Or.inr ⟨k, Or.inl rfl⟩)
    rcases hclose with ⟨h, _⟩ | ⟨t, ht, htk, hcht⟩ | ⟨t, ht, _, _⟩
    · cases h
    · simp only [List.cons.injEq, true_and] at ht
      subst ht
      obtain ⟨s3, hrun3, hj3, hsame3⟩ := RT.pscan_look s2 s2.r (Or.inl ⟨hn2, rfl⟩) (by rw [htk]; decide)
      rw [wp_bind, wp_of_run_ok hrun3, wp_ite, if_pos htk, wp_pure]
      exact ⟨rfl, hj3.at (Or.inl hcht), hsame2.trans hsame3⟩
    · cases ht
  | cons a rest =>
    obtain ⟨ha, hrest⟩ := RT.rtOKArgs_cons hargs
    rw [RT.joinArgs_cons, List.append_assoc] at hch
    rcases ha with ha | ha
    · obtain ⟨src, rfl, hsrc⟩ := RT.regexLitB_elim ha
      obtain ⟨lx2, s2, hrun2, hj2, hch2, hsame2⟩ := RT.parseRegex_text s src (RT.printMore rest ++ ')' :: k) hn hsrc
        (Or.inl (by rw [hch, RT.print_regex]; simp))
      rw [wp_of_run_ok hrun2]
      dsimp only
      refine wp_mono (ihA s2 _ _ rest k (htb _) hrest hk (hj2.at (Or.inl hch2))) ?_ (fun _ h => h)
      intro e' s3 ⟨he', hat3, hsame3⟩
      exact ⟨by rw [he']; simp, hat3, hsame2.trans hsame3⟩
    · obtain ⟨hnrs, htoks⟩ := RT.expr_start a ha _ (RT.sepC_printMore rest k)
      obtain ⟨s2, hrun2, hn2, hch2, hsame2⟩ := RT.parseRegex_none s _ hn hnrs (Or.inl hch)
      rw [wp_of_run_ok hrun2]
      dsimp only
      obtain ⟨htk1, htk2⟩ := htoks s2.r hch2
      obtain ⟨s3, hrun3, hj3, hsame3⟩ := RT.pscan_look s2 s2.r (Or.inl ⟨hn2, rfl⟩) htk2
      rw [wp_bind, wp_of_run_ok hrun3, wp_ite, if_neg htk1, wp_bind, unscan_wp, wp_bind]
      have hsm : RT.Same s (unsc s3) := (hsame2.trans hsame3).trans (RT.unsc_same s3)
      refine wp_mono (ihE (unsc s3) a _ (htb _) ha (RT.sepC_printMore rest k)
        ⟨s2.r, RT.look_unsc s3 s2.r hj3, Or.inl hch2⟩) ?_ (fun _ h => h)
      intro e' s4 ⟨he', hat4, hsame4⟩
      subst he'
      refine wp_mono (ihA s4 _ _ rest k (htb _) hrest hk hat4) ?_ (fun _ h => h)
      intro e'' s5 ⟨he'', hat5, hsame5⟩
      exact ⟨by rw [he'']; simp, hat5, (hsm.trans hsame4).trans hsame5⟩

/-- The text of a call. -/
def callText (name0 : Str) (args : List Expr) : Str :=
  name0 ++ '(' :: (joinWith [',', ' '] (printArgs args) ++ [')'])

theorem callText_eq (name0 : Str) (args : List Expr) : callText name0 args = (Expr.call name0 args).print := by
  rw [RT.print_call]; simp [callText]

/-- `parseUnaryExpr` on a written call, whatever the case of its name. -/
theorem unary_call (F : Nat) (s : PState) (name0 : Str) (args : List Expr) (k : Str) (hname : WordName name0)
    (hargs : RT.rtOKArgs false args = true) (hk : RT.SepU k) (hat : RT.AtW s (callText name0 args ++ k)) :
    wp (parseUnaryExpr (F + 2)) s
      (fun e' s' => e' = .call (lowerStr s.lowerTbl name0) args ∧ RT.At s' k ∧ RT.Same s s') RT.IsFuel := by
  obtain ⟨hlk, c, tl, hnm, hc, htl⟩ := hname
  have hat' : RT.AtW s (name0 ++ '(' :: (joinWith [',', ' '] (printArgs args) ++ ')' :: k)) := by
    simpa [callText] using hat
  obtain ⟨lx, s1, r1, hrun, htok, hlit, hj, hq, hsame⟩ := RT.scanIW_first s _ hat'
    (by rw [hnm]; exact ⟨c, _, rfl, (isIdentFirstChar_facts hc).1, (isIdentFirstChar_facts hc).2.2.2.2⟩)
    .IDENT name0 (fun r => r.chars = '(' :: (joinWith [',', ' '] (printArgs args) ++ ')' :: k))
    (fun r hr => by
      have := RT.scan_word r c tl ('(' :: (joinWith [',', ' '] (printArgs args) ++ ')' :: k)) hc htl
        (Or.inr ⟨'(', _, rfl, by decide, by decide, by decide⟩) (by rw [hr, hnm])
      rw [← hnm, hlk] at this
      exact ⟨this.1, by simpa using this.2.1, this.2.2.chars_of_cons (by decide)⟩)
    ⟨by decide, by decide, by decide⟩
  have hsig : lx.tok ≠ .BOUNDPARAM ∧ lx.tok ≠ .WS ∧ lx.tok ≠ .COMMENT := by rw [htok]; decide
  have hnp : ¬ lx.tok = .LPAREN := by rw [htok]; decide
  rw [parseUnaryExpr, wp_bind, wp_of_run_ok hrun, wp_ite, if_neg hnp, wp_bind, unscan_wp, wp_bind,
    wp_of_run_ok (RT.scanIW_redeliver s1 lx r1 hj hsig.1 hsig.2.1 hsig.2.2)]
  obtain ⟨hlp, hchp⟩ := RT.scan_lparen r1 _ hq
  obtain ⟨s2, hrun2, hj2, hsame2⟩ := RT.pscan_look s1 r1 (Or.inl ⟨hj.1, hj.2.2⟩) (by rw [hlp]; decide)
  obtain ⟨tok, pos, lit⟩ := lx
  simp only at htok hlit
  subst htok hlit
  dsimp only
  rw [wp_bind, wp_of_run_ok hrun2, wp_ite, if_pos hlp]
  refine wp_mono (parseCall_args F s2 lit args k hargs hk hj2.1 (by rw [hj2.2.2]; exact hchp)) ?_ (fun _ h => h)
  intro e' s3 ⟨he', hat3, hsame3⟩
  have htbl : s2.lowerTbl = s.lowerTbl := (hsame.trans hsame2).2
  exact ⟨by rw [he', htbl], hat3, (hsame.trans hsame2).trans hsame3⟩

/-- **`ParseExpr` on a written call** followed by an expression end. -/
theorem parseExpr_call (F : Nat) (s : PState) (name0 : Str) (args : List Expr) (k : Str) (hname : WordName name0)
    (hargs : RT.rtOKArgs false args = true) (hk : RT.ExprEnd k) (hat : RT.AtW s (callText name0 args ++ k)) :
    wp (parseExpr (F + 3)) s
      (fun e' s' => e' = .call (lowerStr s.lowerTbl name0) args ∧ RT.Stand s' k ∧ RT.Same s s') RT.IsFuel := by
  rw [parseExpr, wp_bind]
  refine wp_mono (unary_call F s name0 args k hname hargs hk.1 hat) ?_ (fun _ h => h)
  intro a s1 ⟨ha, hat1, hsame1⟩
  subst ha
  refine wp_mono (RT.specL'_all false (F + 2) s1 _ [] k (fun h => by cases h) (fun p hp => by cases hp) hk
    (by simpa [RT.printOps] using hat1)) ?_ (fun _ h => h)
  intro e' s2 ⟨he', hat2, hsame2⟩
  exact ⟨by rw [he']; rfl, hat2, hsame1.trans hsame2⟩

/-! ## TZ('…') -/

/-- A zone name that `TZ('…')` carries as it is: the printer writes the name between the quotes
*unescaped*, so it must contain no quote, backslash or newline (no zone name does) — and it is not
empty (the parser turns `tz('')` into `UTC`). -/
def plainNameB (n : Str) : Bool :=
  n != [] && n.all (fun c => c != '\'' && c != '\\' && c != '\n' && c != eofRune && c != '\r')

theorem plainName_facts {n : Str} (h : plainNameB n = true) :
    n ≠ [] ∧ Expressible n ∧ quoteString n = '\'' :: (n ++ ['\'']) := by
  unfold plainNameB at h
  simp only [Bool.and_eq_true, bne_iff_ne, ne_eq, List.all_eq_true] at h
  obtain ⟨h0, hall⟩ := h
  refine ⟨h0, fun c hc => ⟨(hall c hc).1.2, (hall c hc).2⟩, ?_⟩
  rw [C06.quoteString_eq]
  have : n.flatMap (esc '\'') = n := by
    clear h0
    induction n with
    | nil => rfl
    | cons c t ih =>
      obtain ⟨⟨⟨⟨a1, a2⟩, a3⟩, _⟩, _⟩ := hall c (by simp)
      simp only [List.flatMap_cons, esc, a1, a2, a3, if_false]
      rw [ih (fun x hx => hall x (by simp [hx]))]
      rfl
  rw [this]

/-- ` TZ('<name>')` when there is a location. -/
def tzText : Option Str → Str
  | none => []
  | some n => ' ' :: (['T', 'Z'] ++ '(' :: ('\'' :: (n ++ ['\''])) ++ [')'])

theorem tz_print (loc : Option Str) :
    (match loc with
     | none => []
     | some n => tx " TZ('" ++ n ++ tx "')") = tzText loc := by
  cases loc with
  | none => rfl
  | some n =>
    have e1 : tx " TZ('" = [' ', 'T', 'Z', '(', '\''] := by decide
    have e2 : tx "')" = ['\'', ')'] := by decide
    simp [tzText, e1, e2]

theorem lower_TZ (tbl : List (Char × Char)) : lowerStr tbl ['T', 'Z'] = "tz".toList := by
  have h1 : lowerRune tbl 'T' = 't' := by unfold lowerRune; rw [if_pos (by decide)]; rfl
  have h2 : lowerRune tbl 'Z' = 'z' := by unfold lowerRune; rw [if_pos (by decide)]; rfl
  simp [lowerStr, h1, h2]

theorem wordName_TZ : WordName ['T', 'Z'] := ⟨by decide +kernel, 'T', ['Z'], rfl, by decide, by decide⟩

theorem scansAs_word (w rest : Str) (hw : WordName w) (hrest : WordEnd rest) : ScansAs w rest .IDENT w := by
  obtain ⟨hlk, c, tl, rfl, hc, htl⟩ := hw
  obtain ⟨hws, _, _, _, hce⟩ := isIdentFirstChar_facts hc
  refine ⟨⟨c, tl, rfl, hws, hce⟩, by decide, ?_⟩
  intro r hr
  obtain ⟨h1, h2⟩ := scan_word r c tl rest hr hc htl hrest
  have : ¬ lookup (c :: tl) ≠ .IDENT := by simp [hlk]
  rw [if_neg this] at h1
  rw [h1]
  exact ⟨rfl, rfl, h2⟩

theorem wordEnd_lparen (t : Str) : WordEnd ('(' :: t) := Or.inl ⟨'(', t, rfl, by decide, by decide, by decide⟩

/-- **`TZ('<name>')`** on its printed form; absent, nothing is consumed. -/
theorem parseLocation_print (F : Nat) (s : PState) (loc : Option Str) (k : Str)
    (hloc : ∀ n, loc = some n → plainNameB n = true) (hk : Follow k [.IDENT]) (hs : RT.Stand s (tzText loc ++ k)) :
    wp (parseLocation (F + 3)) s (fun r s' => r = loc ∧ RT.Stand s' k) (· = .fuel) := by
  cases loc with
  | none =>
    obtain ⟨s', h, st⟩ := parseLocation_absent (F + 3) s k hk (by simpa [tzText] using hs)
    rw [wp_of_run_ok h]
    exact ⟨rfl, st⟩
  | some n =>
    obtain ⟨hne, hex, hq⟩ := plainName_facts (hloc n rfl)
    have htxt : tzText (some n) ++ k = ' ' :: (['T', 'Z'] ++ ('(' :: (quoteString n ++ ')' :: k))) := by
      simp [tzText, hq]
    rw [htxt] at hs
    obtain ⟨lx, s1, h1, ⟨ht, hl⟩, st1⟩ := Ahead.piece ['T', 'Z'] _ .IDENT _
      (scansAs_word ['T', 'Z'] ('(' :: (quoteString n ++ ')' :: k)) wordName_TZ (wordEnd_lparen _)) s hs
    have hc : ¬ (lx.tok ≠ .IDENT ∨ lowerStr (unsc s1).lowerTbl lx.lit ≠ "tz".toList) := by
      rw [ht, hl, lower_TZ]; simp
    unfold parseLocation
    rw [wp_bind, wp_of_run_ok h1, wp_bind, unscan_wp, wp_bind, wp_get]
    rw [wp_ite, if_neg hc, wp_bind]
    have hat : RT.AtW (unsc s1) (callText ['T', 'Z'] [.string n] ++ k) := by
      have := st1.atW ⟨'T', _, rfl, by decide, by decide⟩
      simpa [callText, printArgs, joinWith, RT.print_string] using this
    refine wp_mono (parseExpr_call F (unsc s1) ['T', 'Z'] [.string n] k wordName_TZ
      (by simp [RT.rtOKArgs, RT.rtOK, RT.regexLitB, exprB_of_expressible hex]) hk.exprEnd hat) ?_ (fun _ h => h)
    intro e' s2 ⟨he', st2, _⟩
    subst he'
    dsimp only
    rw [wp_pure]
    refine ⟨?_, st2⟩
    simp [locationName, hne]

/-! ## ORDER BY -/

/-- What the parser can return for ORDER BY: nothing, `ASC` / `DESC` alone, or `time ASC` / `time DESC`. -/
def sortOKB : List SortField → Bool
  | [] => true
  | [f] => f.name == [] || f.name == "time".toList
  | _ => false

/-- ` ORDER BY [time ]ASC|DESC`. -/
def orderText : List SortField → Str
  | [] => []
  | f :: _ => ' ' :: (Token.ORDER.str ++ ' ' :: (Token.BY.str ++ ((if f.name ≠ [] then ' ' :: f.name else []) ++
      ' ' :: (if f.ascending then Token.ASC.str else Token.DESC.str))))

theorem kwText_order (sf : List SortField) : KwText (orderText sf) .ORDER := by
  cases sf with
  | nil => exact Or.inl rfl
  | cons f fs => exact Or.inr ⟨_, rfl⟩

theorem clauseOrderBy_eq (sf : List SortField) (h : sortOKB sf = true) : clauseOrderBy sf = orderText sf := by
  match sf, h with
  | [], _ => rfl
  | [f], _ =>
    have e1 : tx " ORDER BY " = ' ' :: (Token.ORDER.str ++ ' ' :: (Token.BY.str ++ [' '])) := by decide +kernel
    have e2 : "ASC".toList = Token.ASC.str := by decide +kernel
    have e3 : "DESC".toList = Token.DESC.str := by decide +kernel
    show tx " ORDER BY " ++ f.print = _
    rw [e1]
    unfold SortField.print orderText
    rw [e2, e3]
    by_cases hn : f.name = [] <;> simp [hn]

theorem wordName_time : WordName "time".toList := ⟨by decide +kernel, 't', "ime".toList, rfl, by decide, by decide⟩

theorem sortTail (s : PState) (first : SortField) (k : Str) (hk : Follow k [.COMMA]) (hs : RT.Stand s k) :
    ∃ s', (do
      let fields ← sortFieldsLoop (← loopFuel) [first]
      if fields.length > 1 then failPlain onlyTimeMsg
      pure fields : P (List SortField)).run s = .ok ([first], s') ∧ RT.Stand s' k := by
  obtain ⟨lx, s1, h1, h2, h3⟩ := peek_stand s k _ .COMMA hk (by simp) hs
  refine ⟨unsc s1, ?_, h3⟩
  have hf : loopFuel.run s = .ok (s.n + s.r.rest.length + 2, s) := rfl
  rw [P.run_bind _ _ _ _ _ hf, show s.n + s.r.rest.length + 2 = (s.n + s.r.rest.length + 1) + 1 from rfl]
  have hl : (sortFieldsLoop ((s.n + s.r.rest.length + 1) + 1) [first]).run s = .ok ([first], unsc s1) := by
    rw [sortFieldsLoop, P.run_bind _ _ _ _ _ h1, P.run_ite, if_pos h2, P.run_bind _ _ _ _ _ (unscan_run s1)]
    rfl
  rw [P.run_bind _ _ _ _ _ hl]
  simp
  rfl

/-- **ORDER BY** on its printed form; absent, nothing is consumed. -/
theorem parseOrderBy_print (s : PState) (sf : List SortField) (k : Str) (hsf : sortOKB sf = true)
    (hk : Follow k [.ORDER, .COMMA]) (hs : RT.Stand s (orderText sf ++ k)) :
    ∃ s', parseOrderBy.run s = .ok (sf, s') ∧ RT.Stand s' k := by
  match sf, hsf with
  | [], _ => exact parseOrderBy_absent s k (hk.mono (by decide)) (by simpa [orderText] using hs)
  | [f], hsf =>
    obtain ⟨name, asc⟩ := f
    have hdir : ∃ D : Token, (if asc then Token.ASC.str else Token.DESC.str) = D.str ∧ D.isKw = true ∧
        (D = .ASC ∨ D = .DESC) ∧ (decide (D = .ASC)) = asc := by
      cases asc
      · exact ⟨.DESC, rfl, by decide +kernel, Or.inr rfl, by decide⟩
      · exact ⟨.ASC, rfl, by decide +kernel, Or.inl rfl, by decide⟩
    obtain ⟨D, hD, hDkw, hDc, hDa⟩ := hdir
    have hs' : RT.Stand s ([' '] ++ (Token.ORDER.str ++ (' ' :: (Token.BY.str ++ ((if name ≠ [] then ' ' :: name else []) ++
        ' ' :: (D.str ++ k)))))) := by
      rw [← hD]; simpa [orderText, List.append_assoc] using hs
    obtain ⟨lx1, s1, h1, t1, _, b1⟩ := scanIW_stand s [' '] Token.ORDER.str _ .ORDER [] Gap.blank hs'
      (scansAs_kw .ORDER _ (by decide +kernel) (WordEnd.blank _))
    have hwe : WordEnd ((if name ≠ [] then ' ' :: name else []) ++ ' ' :: (D.str ++ k)) := by
      split
      · exact WordEnd.blank _
      · exact WordEnd.blank _
    obtain ⟨s2, h2, b2⟩ := expectTok_piece s1 [' '] Token.BY.str _ .BY [] ["BY"] Gap.blank b1.around
      (scansAs_kw .BY _ (by decide +kernel) hwe)
    have hDsc := scansAs_kw D k hDkw hk.tokEnd.1
    unfold parseOrderBy
    rw [P.run_bind _ _ _ _ _ h1]
    have : ¬ lx1.tok ≠ .ORDER := by rw [t1]; simp
    rw [P.run_ite, if_neg this, P.run_bind _ _ _ _ _ h2]
    simp only [sortOKB, Bool.or_eq_true, beq_iff_eq] at hsf
    rcases hsf with hn | hn
    · subst hn
      simp only [ne_eq, not_true_eq_false, if_false, List.nil_append] at b2
      obtain ⟨lx3, s3, h3, t3, _, b3⟩ := scanIW_piece s2 [' '] D.str k D [] Gap.blank b2.around hDsc
      obtain ⟨s4, h4, st4⟩ := sortTail s3 ⟨[], asc⟩ k (hk.mono (by decide)) b3.stand
      refine ⟨s4, ?_, st4⟩
      unfold parseSortFields
      rw [P.run_bind _ _ _ _ _ h3]
      obtain ⟨tok, pos, lit⟩ := lx3
      simp only at t3
      subst t3
      rcases hDc with rfl | rfl
      · simp only [decide_true] at hDa
        subst hDa
        exact h4
      · simp only [reduceCtorEq, decide_false] at hDa
        subst hDa
        exact h4
    · subst hn
      have b2' : s2.Before ([' '] ++ ("time".toList ++ (' ' :: (D.str ++ k)))) := by
        have hne : "time".toList ≠ [] := by decide
        simpa [hne] using b2
      obtain ⟨lx3, s3, h3, t3, l3, b3⟩ := scanIW_piece s2 [' '] "time".toList _ .IDENT "time".toList Gap.blank b2'.around
        (scansAs_word _ _ wordName_time (WordEnd.blank _))
      have hid : parseIdent.run (unsc s3) = .ok ("time".toList, s3) := by
        have hrd : scanIW.run (unsc s3) = .ok (lx3, s3) := scanIW_redeliver s2 lx3 s3 h3
        unfold parseIdent
        rw [P.run_bind _ _ _ _ _ hrd]
        simp [t3, l3, StateT.run, pure, StateT.pure, Except.pure]
      obtain ⟨lx4, s4, h4, t4, _, b4⟩ := scanIW_piece s3 [' '] D.str k D [] Gap.blank b3.around hDsc
      obtain ⟨s5, h5, st5⟩ := sortTail s4 ⟨"time".toList, asc⟩ k (hk.mono (by decide)) b4.stand
      refine ⟨s5, ?_, st5⟩
      have hsfield : parseSortField.run (unsc s3) = .ok (⟨"time".toList, asc⟩, s4) := by
        unfold parseSortField
        rw [P.run_bind _ _ _ _ _ hid, P.run_bind _ _ _ _ _ h4]
        have hnn : ¬ (lx4.tok ≠ .ASC ∧ lx4.tok ≠ .DESC) := by
          rw [t4]; rcases hDc with rfl | rfl <;> simp
        rw [P.run_ite, if_neg hnn, t4, hDa]
        rfl
      unfold parseSortFields
      rw [P.run_bind _ _ _ _ _ h3]
      obtain ⟨tok, pos, lit⟩ := lx3
      simp only at t3 l3
      subst t3 l3
      simp only []
      rw [P.run_bind _ _ _ _ _ (RT.unscan_run' s3), P.run_bind _ _ _ _ _ hsfield]
      simp only [ne_eq, not_true_eq_false, if_false, pure_bind]
      exact h5

/-! ## GROUP BY -/

/-- `consumeWhitespace` from a state standing at `r0`: a blank is consumed, anything else is pushed back. -/
theorem cw_look (s : PState) (r0 : Cursor) (hl : RT.Look s r0) (hb : (scan r0).1.tok ≠ .BOUNDPARAM) :
    ∃ s1, consumeWhitespace.run s = .ok ((), s1) ∧
      RT.Look s1 (if (scan r0).1.tok = .WS then (scan r0).2 else r0) := by
  obtain ⟨s1, hrun, hj, _⟩ := RT.pscan_look s r0 hl hb
  by_cases hw : (scan r0).1.tok = .WS
  · refine ⟨s1, ?_, by rw [if_pos hw]; exact Or.inl ⟨hj.1, hj.2.2⟩⟩
    unfold consumeWhitespace
    rw [P.run_bind _ _ _ _ _ hrun, P.run_ite, if_neg (by simp [hw])]
    rfl
  · refine ⟨unsc s1, ?_, by rw [if_neg hw]; exact RT.look_unsc s1 r0 hj⟩
    unfold consumeWhitespace
    rw [P.run_bind _ _ _ _ _ hrun, P.run_ite, if_pos hw]
    rfl

/-- After a dimension that is followed by `, `: the blank-skipping finds the comma. -/
theorem dim_comma (s : PState) (more : Str) (hs : RT.Stand s (',' :: more)) :
    ∃ s1 r1, consumeWhitespace.run s = .ok ((), s1) ∧ RT.Look s1 r1 ∧ (scan r1).1.tok = .COMMA ∧
      (scan r1).2.chars = more := by
  rcases hs with ⟨r0, hl, hr⟩ | ⟨txt, e, _, _⟩
  · rcases RT.scan_close r0 _ hr (Or.inr ⟨more, Or.inr rfl⟩) with ⟨h, _⟩ | ⟨t, h, _, _⟩ | ⟨t, ht, htk, hch⟩
    · cases h
    · cases h
    · simp only [List.cons.injEq, true_and] at ht
      subst ht
      obtain ⟨s1, h1, l1⟩ := cw_look s r0 hl (by rw [htk]; decide)
      rw [if_neg (by rw [htk]; decide)] at l1
      exact ⟨s1, r0, h1, l1, htk, hch⟩
  · simp only [List.cons.injEq] at e
    exact absurd e.1 (by decide)

/-- After the last dimension: the blank-skipping stops before the first token of what follows, which
is no comma; pushed back, the parser stands before the continuation. -/
theorem dim_end (s : PState) (rest : Str) (hs : RT.Stand s rest) (hk : Follow rest [.COMMA]) :
    ∃ s1 r1, consumeWhitespace.run s = .ok ((), s1) ∧ RT.Look s1 r1 ∧ (scan r1).1.tok ≠ .COMMA ∧
      (scan r1).1.tok ≠ .BOUNDPARAM ∧ (∀ s2, RT.Just s2 (scan r1).1 (scan r1).2 → RT.Stand (unsc s2) rest) := by
  obtain ⟨_, T, ⟨hsig, hT⟩, _, hn⟩ := hk
  have hne : T ≠ .COMMA := fun e => hn (by rw [e]; simp)
  -- the two ways to stand at the head of a text
  have direct : ∀ (r0 : Cursor), RT.Look s r0 → (scan r0).1.tok = T →
      (∀ s2, RT.Just s2 (scan r0).1 (scan r0).2 → RT.Stand (unsc s2) rest) →
      ∃ s1 r1, consumeWhitespace.run s = .ok ((), s1) ∧ RT.Look s1 r1 ∧ (scan r1).1.tok ≠ .COMMA ∧
        (scan r1).1.tok ≠ .BOUNDPARAM ∧ (∀ s2, RT.Just s2 (scan r1).1 (scan r1).2 → RT.Stand (unsc s2) rest) := by
    intro r0 hl ht hst
    obtain ⟨s1, h1, l1⟩ := cw_look s r0 hl (by rw [ht]; exact hsig.1)
    rw [if_neg (by rw [ht]; exact hsig.2.1)] at l1
    exact ⟨s1, r0, h1, l1, by rw [ht]; exact hne, by rw [ht]; exact hsig.1, hst⟩
  have blank : ∀ (r0 : Cursor) (c : Char) (t : Str), RT.Look s r0 → r0.chars = ' ' :: c :: t →
      isWhitespace c = false → c ≠ eofRune → rest = ' ' :: c :: t →
      (∀ r : Cursor, r.chars = c :: t → (scan r).1.tok = T) →
      ∃ s1 r1, consumeWhitespace.run s = .ok ((), s1) ∧ RT.Look s1 r1 ∧ (scan r1).1.tok ≠ .COMMA ∧
        (scan r1).1.tok ≠ .BOUNDPARAM ∧ (∀ s2, RT.Just s2 (scan r1).1 (scan r1).2 → RT.Stand (unsc s2) rest) := by
    intro r0 c t hl hch hc1 hc2 hrest hk
    obtain ⟨w1, w2⟩ := RT.scan_space r0 c t hc1 hc2 hch
    obtain ⟨s1, h1, l1⟩ := cw_look s r0 hl (by rw [w1]; decide)
    rw [if_pos w1] at l1
    have ht := hk (scan r0).2 w2
    refine ⟨s1, (scan r0).2, h1, l1, by rw [ht]; exact hne, by rw [ht]; exact hsig.1, ?_⟩
    intro s2 hj
    rw [hrest]
    exact Or.inr ⟨c :: t, rfl, ⟨c, t, rfl, hc1, hc2⟩, ⟨(scan r0).2, RT.look_unsc s2 _ hj, Or.inl w2⟩⟩
  rcases hs with ⟨r0, hl, hr⟩ | ⟨txt, rfl, hh, r0, hl, hr⟩
  · rcases hT with ⟨_, hk⟩ | ⟨txt, rfl, hh, hk⟩
    · exact direct r0 hl (hk r0 hr) (fun s2 hj => Or.inl ⟨r0, RT.look_unsc s2 r0 hj, hr⟩)
    · obtain ⟨c, t, rfl, hc1, hc2⟩ := hh
      exact blank r0 c t hl (hr.chars_of_cons (by decide)) hc1 hc2 rfl hk
  · rcases hT with ⟨hnb, _⟩ | ⟨txt', e, _, hk⟩
    · exact absurd rfl (hnb txt)
    · simp only [List.cons.injEq, true_and] at e
      subst e
      rcases hr with hr | hr
      · exact direct r0 hl (hk r0 hr)
          (fun s2 hj => Or.inr ⟨txt, rfl, hh, ⟨r0, RT.look_unsc s2 r0 hj, Or.inl hr⟩⟩)
      · obtain ⟨c, t, rfl, hc1, hc2⟩ := hh
        exact blank r0 c t hl hr hc1 hc2 rfl hk

/-- What `Dimensions.String()` writes after a dimension. -/
def moreDims : List Expr → Str
  | [] => []
  | d :: rest => ',' :: ' ' :: (d.print ++ moreDims rest)

theorem length_moreDims (ds : List Expr) : ds.length ≤ (moreDims ds).length := by
  induction ds with
  | nil => exact Nat.le_refl _
  | cons n rest ih => simp only [moreDims, List.length_cons, List.length_append]; omega

theorem joinDims (d : Expr) (ds : List Expr) : printDimensions (d :: ds) = d.print ++ moreDims ds := by
  induction ds generalizing d with
  | nil => simp [printDimensions, joinWith, moreDims]
  | cons g ds ih =>
    have e : printDimensions (d :: g :: ds) = d.print ++ tx ", " ++ printDimensions (g :: ds) := rfl
    rw [e, ih g]
    simp [moreDims, tx]

/-- The loop of `parseDimensions` on printed dimensions of C03's class (tag names, printable expressions). -/
theorem dimLoop_print (F : Nat) (ds : List Expr) : ∀ (it : Nat) (acc : List Expr) (s : PState) (d : Expr) (k : Str),
    ds.length < it → (∀ x ∈ d :: ds, RT.rtOK false x = true) → Follow k [.COMMA] → s.n = 0 →
    s.r.chars = ' ' :: (d.print ++ (moreDims ds ++ k)) →
    wp (dimLoop F it acc) s (fun r s' => r = acc ++ d :: ds ∧ RT.Stand s' k) (· = .fuel) := by
  induction ds with
  | nil =>
    intro it acc s d k hit hok hk hn hch
    obtain ⟨it', rfl⟩ : ∃ it', it = it' + 1 := ⟨it - 1, by simp at hit; omega⟩
    have hd := hok d (by simp)
    have hch' : s.r.chars = ' ' :: (d.print ++ k) := by simpa [moreDims] using hch
    obtain ⟨hnrs, _⟩ := RT.expr_sig (x := false) d hd k hk.1
    obtain ⟨s2, hr2, hn2, hch2, _⟩ := RT.parseRegex_none s _ hn hnrs (Or.inr hch')
    rw [dimLoop, wp_bind]
    unfold parseDimension
    rw [wp_bind, wp_of_run_ok hr2]
    dsimp only
    rw [wp_bind]
    refine wp_mono (RT.specE'_all false F s2 d k (fun h => by cases h) hd hk.exprEnd
      ⟨s2.r, Or.inl ⟨hn2, rfl⟩, Or.inl hch2⟩) ?_ (fun _ h => h)
    intro e' s3 ⟨he', st3, _⟩
    subst he'
    obtain ⟨s4, r4, h4, l4, t4, b4, hst⟩ := dim_end s3 k st3 hk
    obtain ⟨s5, h5, j5, _⟩ := RT.pscan_look s4 r4 l4 b4
    rw [wp_bind, wp_of_run_ok h4, wp_pure, wp_bind, wp_of_run_ok h5, wp_ite, if_pos t4, wp_bind, unscan_wp, wp_pure]
    exact ⟨rfl, hst s5 j5⟩
  | cons g ds ih =>
    intro it acc s d k hit hok hk hn hch
    obtain ⟨it', rfl⟩ : ∃ it', it = it' + 1 := ⟨it - 1, by simp at hit; omega⟩
    have hd := hok d (by simp)
    have hch' : s.r.chars = ' ' :: (d.print ++ (',' :: ' ' :: (g.print ++ (moreDims ds ++ k)))) := by
      simpa [moreDims, List.append_assoc] using hch
    have hsep : RT.SepC (',' :: ' ' :: (g.print ++ (moreDims ds ++ k))) := Or.inr ⟨_, Or.inr rfl⟩
    obtain ⟨hnrs, _⟩ := RT.expr_sig (x := false) d hd _ (Or.inl hsep)
    obtain ⟨s2, hr2, hn2, hch2, _⟩ := RT.parseRegex_none s _ hn hnrs (Or.inr hch')
    rw [dimLoop, wp_bind]
    unfold parseDimension
    rw [wp_bind, wp_of_run_ok hr2]
    dsimp only
    rw [wp_bind]
    refine wp_mono (RT.specE'_all false F s2 d _ (fun h => by cases h) hd (RT.ExprEnd.of_sepC hsep)
      ⟨s2.r, Or.inl ⟨hn2, rfl⟩, Or.inl hch2⟩) ?_ (fun _ h => h)
    intro e' s3 ⟨he', st3, _⟩
    subst he'
    obtain ⟨s4, r4, h4, l4, t4, c4⟩ := dim_comma s3 _ st3
    obtain ⟨s5, h5, j5, _⟩ := RT.pscan_look s4 r4 l4 (by rw [t4]; decide)
    rw [wp_bind, wp_of_run_ok h4, wp_pure, wp_bind, wp_of_run_ok h5, wp_ite, if_neg (by rw [t4]; simp)]
    refine wp_mono (ih it' (acc ++ [e']) s5 g k (by simp at hit ⊢; omega)
      (fun x hx => hok x (by simp at hx ⊢; exact Or.inr hx)) hk j5.1 (by rw [j5.2.2]; exact c4)) ?_ (fun _ h => h)
    intro r s6 ⟨hr, st⟩
    exact ⟨by rw [hr]; simp, st⟩

/-- ` GROUP BY <dimensions>` when there are dimensions. -/
def groupText : List Expr → Str
  | [] => []
  | d :: ds => ' ' :: (Token.GROUP.str ++ ' ' :: (Token.BY.str ++ ' ' :: (d.print ++ moreDims ds)))

theorem kwText_group (ds : List Expr) : KwText (groupText ds) .GROUP := by
  cases ds with
  | nil => exact Or.inl rfl
  | cons d ds => exact Or.inr ⟨_, rfl⟩

theorem clauseGroupBy_eq (ds : List Expr) : clauseGroupBy ds = groupText ds := by
  cases ds with
  | nil => rfl
  | cons d ds =>
    have e1 : tx " GROUP BY " = ' ' :: (Token.GROUP.str ++ ' ' :: (Token.BY.str ++ [' '])) := by decide +kernel
    show tx " GROUP BY " ++ printDimensions (d :: ds) = _
    rw [joinDims, e1]
    simp [groupText]

/-- **GROUP BY** on its printed form (dimensions of C03's class); absent, nothing is consumed. -/
theorem parseDimensions_print (F : Nat) (s : PState) (ds : List Expr) (k : Str)
    (hok : ∀ x ∈ ds, RT.rtOK false x = true) (hk : Follow k [.GROUP, .COMMA]) (hs : RT.Stand s (groupText ds ++ k)) :
    wp (parseDimensions F) s (fun r s' => r = ds ∧ RT.Stand s' k) (· = .fuel) := by
  cases ds with
  | nil =>
    obtain ⟨s', h, st⟩ := parseDimensions_absent F s k (hk.mono (by decide)) (by simpa [groupText] using hs)
    rw [wp_of_run_ok h]
    exact ⟨rfl, st⟩
  | cons d ds =>
    have hs' : RT.Stand s ([' '] ++ (Token.GROUP.str ++ (' ' :: (Token.BY.str ++ ' ' :: (d.print ++ (moreDims ds ++ k)))))) := by
      simpa [groupText, List.append_assoc] using hs
    obtain ⟨lx1, s1, h1, t1, _, b1⟩ := scanIW_stand s [' '] Token.GROUP.str _ .GROUP [] Gap.blank hs'
      (scansAs_kw .GROUP _ (by decide +kernel) (WordEnd.blank _))
    obtain ⟨s2, h2, b2⟩ := expectTok_piece s1 [' '] Token.BY.str _ .BY [] ["BY"] Gap.blank b1.around
      (scansAs_kw .BY _ (by decide +kernel) (WordEnd.blank _))
    have hch : s2.r.chars = ' ' :: (d.print ++ (moreDims ds ++ k)) := b2.2.chars_of_cons (by decide)
    have hlen : ds.length < s2.n + s2.r.rest.length + 2 := by
      have h1 := length_moreDims ds
      have h2 : s2.r.rest.length = (' ' :: (d.print ++ (moreDims ds ++ k))).length := by
        rw [← hch]; simp [Cursor.chars]
      rw [h2]
      simp only [List.length_cons, List.length_append]
      omega
    have hf : loopFuel.run s2 = .ok (s2.n + s2.r.rest.length + 2, s2) := rfl
    unfold parseDimensions
    rw [wp_bind, wp_of_run_ok h1, wp_ite, if_neg (by rw [t1]; simp), wp_bind, wp_of_run_ok h2, wp_bind, wp_of_run_ok hf]
    refine wp_mono (dimLoop_print F ds _ [] s2 d k hlen hok (hk.mono (by decide)) b2.1 hch) ?_ (fun _ h => h)
    intro r s' ⟨hr, st⟩
    exact ⟨by simpa using hr, st⟩

/-! ## fill() absent, possibly before `TZ(` -/

/-- The head of the text is not the word `fill` (in any case, under any lower-casing table). -/
def NotFill (T : Token) (L : Str) : Prop := T ≠ .IDENT ∨ ∀ tbl, lowerStr tbl L ≠ "fill".toList

theorem Ahead.opt {x k : Str} {T : Token} {P : Token → Str → Prop} (hx : KwText x T) (hT : T.isKw = true)
    (hP : P T []) (hk : Ahead k P) : Ahead (x ++ k) P := by
  rcases hx with rfl | ⟨y, rfl⟩
  · exact hk
  · have := Ahead.piece T.str (' ' :: (y ++ k)) T [] (scansAs_kw T _ hT (WordEnd.blank _))
    have h2 : ' ' :: (T.str ++ ' ' :: y) ++ k = ' ' :: (T.str ++ ' ' :: (y ++ k)) := by simp
    rw [h2]
    exact this.mono (fun T' L' ⟨e1, e2⟩ => by rw [e1, e2]; exact hP)

theorem ahead_tz (loc : Option Str) (k : Str) (hk : Follow k [.IDENT]) : Ahead (tzText loc ++ k) NotFill := by
  cases loc with
  | none => exact (Ahead.of_follow hk).mono (fun T _ h => Or.inl (fun e => h (by rw [e]; simp)))
  | some n =>
    have h2 : tzText (some n) ++ k = ' ' :: (['T', 'Z'] ++ ('(' :: ('\'' :: (n ++ ['\''])) ++ [')'] ++ k)) := by
      simp [tzText]
    rw [h2]
    refine (Ahead.piece ['T', 'Z'] _ .IDENT _ (scansAs_word ['T', 'Z'] _ wordName_TZ (wordEnd_lparen _))).mono ?_
    intro T L ⟨_, e2⟩
    refine Or.inr (fun tbl => ?_)
    rw [e2, lower_TZ]
    decide

theorem follow_tz (loc : Option Str) (k : Str) (stop : List Token) (hk : Follow k stop) (hn : Token.IDENT ∉ stop) :
    Follow (tzText loc ++ k) stop := by
  cases loc with
  | none => exact hk
  | some n =>
    have h2 : tzText (some n) ++ k = ' ' :: (['T', 'Z'] ++ ('(' :: ('\'' :: (n ++ ['\''])) ++ [')'] ++ k)) := by
      simp [tzText]
    rw [h2]
    exact Follow.piece ['T', 'Z'] _ .IDENT _ stop (scansAs_word ['T', 'Z'] _ wordName_TZ (wordEnd_lparen _)) rfl hn

theorem parseFill_absent' (fuel : Nat) (s : PState) (k : Str) (hk : Ahead k NotFill) (hs : RT.Stand s k) :
    ∃ s', (parseFill fuel).run s = .ok ((.null, .none), s') ∧ RT.Stand s' k := by
  obtain ⟨lx, s1, h1, hP, st⟩ := hk s hs
  refine ⟨unsc s1, ?_, st⟩
  have hc : lx.tok ≠ .IDENT ∨ lowerStr (unsc s1).lowerTbl lx.lit ≠ "fill".toList := by
    rcases hP with h | h
    · exact Or.inl h
    · exact Or.inr (h _)
  unfold parseFill
  rw [P.run_bind _ _ _ _ _ h1, P.run_bind _ _ _ _ _ (RT.unscan_run' s1), P.run_bind _ _ _ _ _ (P.run_get _),
    P.run_ite, if_pos hc]
  rfl

end InfluxQL

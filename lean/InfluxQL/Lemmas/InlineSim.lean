import InfluxQL.Lemmas.Inline
import InfluxQL.Lemmas.RegexGap
import InfluxQL.Lemmas.BindSim
/-
C07, inline equivalence at the level of the expression parser: the scanner layer.

Two runs of the parser — one on a template `a ++ ws ++ $name ++ k`, one on the text with the literal
written out, `a ++ ws ++ lit ++ k` — are related by a simulation. This file has

* `wpF`, the relational weakest precondition of two runs from two *different* states that ignores
  fuel exhaustion on either side (fuel is a device of the model; `parseExprText_total` shows it is
  never exhausted at top level), with results compared up to positions (`Fail.erase`);
* `CR`, the relation between the two rune cursors (before the placeholder: common prefix, the
  scanner of the template reaches the white space at a token boundary; at the placeholder:
  `$name ++ k` against `lit ++ k`; behind it: the same runes), and its closure under everything the
  parser does with the reader: `Scan`, `ScanRegex` (only ever started at a `/`), `peekRune`,
  `peekComment`.
-/
namespace InfluxQL
open Gen

/-! ## two runs, fuel ignored -/

/-- Run `m1` from `s1` and `m2` from `s2`: one of them runs out of fuel, or both succeed with
results and states related by `Q`, or both fail with the same failure up to its position. -/
def wpF {α : Type} (m1 m2 : P α) (s1 s2 : PState) (Q : α → α → PState → PState → Prop) : Prop :=
  m1.run s1 = .error .fuel ∨ m2.run s2 = .error .fuel ∨ wpE m1 m2 s1 s2 Q

theorem wpF_of_wpE {α : Type} {m1 m2 : P α} {s1 s2 : PState} {Q : α → α → PState → PState → Prop}
    (h : wpE m1 m2 s1 s2 Q) : wpF m1 m2 s1 s2 Q := Or.inr (Or.inr h)

theorem wpF_pure {α : Type} (a1 a2 : α) (s1 s2 : PState) (Q : α → α → PState → PState → Prop)
    (h : Q a1 a2 s1 s2) : wpF (pure a1) (pure a2) s1 s2 Q := wpF_of_wpE h

theorem wpF_of_runs {α : Type} {m1 m2 : P α} {s1 s2 t1 t2 : PState} {a1 a2 : α}
    {Q : α → α → PState → PState → Prop} (h1 : m1.run s1 = .ok (a1, t1)) (h2 : m2.run s2 = .ok (a2, t2))
    (h : Q a1 a2 t1 t2) : wpF m1 m2 s1 s2 Q := by
  refine Or.inr (Or.inr ?_)
  unfold wpE
  rw [h1, h2]
  exact h

theorem wpF_bind {α β : Type} (m1 m2 : P α) (f1 f2 : α → P β) (s1 s2 : PState)
    (Q : β → β → PState → PState → Prop)
    (h : wpF m1 m2 s1 s2 (fun a1 a2 t1 t2 => wpF (f1 a1) (f2 a2) t1 t2 Q)) :
    wpF (m1 >>= f1) (m2 >>= f2) s1 s2 Q := by
  unfold wpF at h ⊢
  rw [P.runBind, P.runBind]
  rcases h with h | h | h
  · left; rw [h]
  · right; left; rw [h]
  · unfold wpE at h
    cases h1 : m1.run s1 with
    | error e1 =>
      cases h2 : m2.run s2 with
      | error e2 =>
        rw [h1, h2] at h
        right; right
        unfold wpE
        rw [P.runBind, P.runBind, h1, h2]
        exact h
      | ok q => rw [h1, h2] at h; exact h.elim
    | ok q1 =>
      obtain ⟨a1, t1⟩ := q1
      cases h2 : m2.run s2 with
      | error e2 => rw [h1, h2] at h; exact h.elim
      | ok q2 =>
        obtain ⟨a2, t2⟩ := q2
        rw [h1, h2] at h
        rcases h with h | h | h
        · left; exact h
        · right; left; exact h
        · right; right
          unfold wpE
          rw [P.runBind, P.runBind, h1, h2]
          exact h

theorem wpF_mono {α : Type} {m1 m2 : P α} {s1 s2 : PState} {Q Q' : α → α → PState → PState → Prop}
    (h : wpF m1 m2 s1 s2 Q) (hq : ∀ a1 a2 t1 t2, Q a1 a2 t1 t2 → Q' a1 a2 t1 t2) :
    wpF m1 m2 s1 s2 Q' := by
  rcases h with h | h | h
  · exact Or.inl h
  · exact Or.inr (Or.inl h)
  · exact Or.inr (Or.inr (wpE_mono h hq))

theorem wpF_fuel_left {α : Type} (m2 : P α) (s1 s2 : PState) (Q : α → α → PState → PState → Prop) :
    wpF (throw .fuel : P α) m2 s1 s2 Q := Or.inl rfl

theorem wpF_fuel_right {α : Type} (m1 : P α) (s1 s2 : PState) (Q : α → α → PState → PState → Prop) :
    wpF m1 (throw .fuel : P α) s1 s2 Q := Or.inr (Or.inl rfl)

theorem wpF_failAt {α : Type} (m : Str) (q1 q2 : Pos) (s1 s2 : PState)
    (Q : α → α → PState → PState → Prop) : wpF (failAt m q1 : P α) (failAt m q2) s1 s2 Q :=
  wpF_of_wpE (wpE_failAt m q1 q2 s1 s2 Q)

theorem wpF_failFound {α : Type} {l1 l2 : Lexeme} (h : LexEq l1 l2) (x : List String) (s1 s2 : PState)
    (Q : α → α → PState → PState → Prop) : wpF (failFound l1 x : P α) (failFound l2 x) s1 s2 Q :=
  wpF_of_wpE (wpE_failFound h x s1 s2 Q)

theorem wpF_failPlain {α : Type} (m : Str) (s1 s2 : PState) (Q : α → α → PState → PState → Prop) :
    wpF (failPlain m : P α) (failPlain m) s1 s2 Q := by
  refine wpF_of_wpE ?_
  unfold wpE failPlain
  rfl

theorem wpF_throw_same {α : Type} (e : Fail) (s1 s2 : PState) (Q : α → α → PState → PState → Prop) :
    wpF (throw e : P α) (throw e) s1 s2 Q := by
  refine wpF_of_wpE ?_
  unfold wpE
  rfl

theorem wpF_ite {α : Type} (c : Prop) [Decidable c] (a1 b1 a2 b2 : P α) (s1 s2 : PState)
    (Q : α → α → PState → PState → Prop) (h1 : c → wpF a1 a2 s1 s2 Q) (h2 : ¬ c → wpF b1 b2 s1 s2 Q) :
    wpF (if c then a1 else b1) (if c then a2 else b2) s1 s2 Q := by
  by_cases h : c
  · rw [if_pos h, if_pos h]; exact h1 h
  · rw [if_neg h, if_neg h]; exact h2 h

theorem wpF_ite2 {α : Type} (c1 c2 : Prop) [Decidable c1] [Decidable c2] (hc : c1 ↔ c2) (a1 b1 a2 b2 : P α)
    (s1 s2 : PState) (Q : α → α → PState → PState → Prop) (h1 : c1 → wpF a1 a2 s1 s2 Q)
    (h2 : ¬ c1 → wpF b1 b2 s1 s2 Q) :
    wpF (if c1 then a1 else b1) (if c2 then a2 else b2) s1 s2 Q := by
  by_cases h : c1
  · rw [if_pos h, if_pos (hc.mp h)]; exact h1 h
  · rw [if_neg h, if_neg (fun h' => h (hc.mpr h'))]; exact h2 h

theorem wpF_get (s1 s2 : PState) (Q : PState → PState → PState → PState → Prop) (h : Q s1 s2 s1 s2) :
    wpF (get : P PState) get s1 s2 Q := wpF_of_wpE h

theorem wpF_unscan (s1 s2 : PState) (Q : PUnit → PUnit → PState → PState → Prop)
    (h : Q ⟨⟩ ⟨⟩ (unsc s1) (unsc s2)) : wpF unscan unscan s1 s2 Q := wpF_of_wpE h

theorem wpF_peekRune (s1 s2 : PState) (Q : Char → Char → PState → PState → Prop)
    (h : Q s1.r.peek s2.r.peek (peekSt s1) (peekSt s2)) : wpF peekRune peekRune s1 s2 Q := by
  refine wpF_of_wpE ?_
  unfold wpE
  rw [peekRune_run, peekRune_run]
  exact h

theorem wpF_peekComment (s1 s2 : PState) (Q : Bool → Bool → PState → PState → Prop)
    (h : Q (opensComment s1.r.peek2.1 s1.r.peek2.2) (opensComment s2.r.peek2.1 s2.r.peek2.2) s1 s2) :
    wpF peekComment peekComment s1 s2 Q := wpF_of_wpE h

theorem wpF_pscanWith (regex : Bool) (s1 s2 : PState) (Q : Lexeme → Lexeme → PState → PState → Prop)
    (h : Q (substTok s1.params (rawNext regex s1).1) (substTok s2.params (rawNext regex s2).1)
      (rawNext regex s1).2 (rawNext regex s2).2) : wpF (pscanWith regex) (pscanWith regex) s1 s2 Q := by
  refine wpF_of_wpE ?_
  unfold wpE
  rw [pscanWith_run, pscanWith_run]
  exact h

/-! ## the end of the stream -/

/-- Nothing but the sentinel is left (it may have been read already). -/
def Cursor.AtEnd (r : Cursor) : Prop := r.chars = [] ∨ r.chars = [eofRune]

/-- The same runes ahead, up to the sentinel having been consumed. -/
def CEq (r1 r2 : Cursor) : Prop := r1.chars = r2.chars ∨ (r1.AtEnd ∧ r2.AtEnd)

theorem CEq.of_before {r1 r2 : Cursor} {k : Str} (h1 : r1.Before k) (h2 : r2.Before k) : CEq r1 r2 := by
  rcases h1 with h1 | ⟨hk, h1⟩ <;> rcases h2 with h2 | ⟨hk2, h2⟩
  · exact Or.inl (h1.trans h2.symm)
  · exact Or.inr ⟨Or.inr (h1.trans hk2), Or.inl h2⟩
  · exact Or.inr ⟨Or.inl h1, Or.inr (h2.trans hk)⟩
  · exact Or.inl (h1.trans h2.symm)

theorem scan_of_peek_eof (r : Cursor) (h : r.peek = eofRune) :
    (scan r).1.sig = (.EOF, []) ∧ (scan r).2 = r.read.2 := by
  have h1 : r.read.1.1 = eofRune := by rw [r.read_fst_eq_peek]; exact h
  unfold scan scanFrom
  rw [h1]
  have : isWhitespace eofRune = false := by decide
  have : (isLetter eofRune || eofRune == '_') = false := by decide
  have : isDigit eofRune = false := by decide
  simp [*, Lexeme.sig]

theorem Cursor.AtEnd.peek {r : Cursor} (h : r.AtEnd) : r.peek = eofRune := by
  rcases h with h | h
  · exact (Cursor.chars_nil h).1
  · exact (Cursor.chars_cons h).2.2

theorem Cursor.AtEnd.read {r : Cursor} (h : r.AtEnd) : r.read.2.chars = [] := by
  rcases h with h | h
  · exact (Cursor.chars_nil h).2
  · exact (Cursor.chars_cons h).2.1

theorem Cursor.AtEnd.peek2 {r : Cursor} (h : r.AtEnd) : r.peek2 = (eofRune, eofRune) := by
  unfold Cursor.AtEnd Cursor.chars at h
  unfold Cursor.peek2
  cases hr : r.rest with
  | nil => rfl
  | cons y t =>
    rw [hr] at h
    rcases h with h | h
    · simp at h
    · cases t with
      | nil => simp only [List.map_cons, List.map_nil, List.cons.injEq, and_true] at h; simp [h]
      | cons z u => simp at h

theorem Cursor.AtEnd.scan {r : Cursor} (h : r.AtEnd) : (scan r).1.sig = (.EOF, []) ∧ (scan r).2.chars = [] := by
  obtain ⟨a, b⟩ := scan_of_peek_eof r h.peek
  exact ⟨a, by rw [b]; exact h.read⟩

theorem CEq.scan {r1 r2 : Cursor} (h : CEq r1 r2) :
    (scan r1).1.sig = (scan r2).1.sig ∧ CEq (scan r1).2 (scan r2).2 := by
  rcases h with h | ⟨h1, h2⟩
  · obtain ⟨hl, hc⟩ := scan_erase h
    exact ⟨by unfold Lexeme.sig; rw [hl.1, hl.2], Or.inl hc⟩
  · exact ⟨h1.scan.1.trans h2.scan.1.symm, Or.inl (h1.scan.2.trans h2.scan.2.symm)⟩

theorem CEq.peek {r1 r2 : Cursor} (h : CEq r1 r2) : r1.peek = r2.peek := by
  rcases h with h | ⟨h1, h2⟩
  · exact (peek_erase h).1
  · rw [h1.peek, h2.peek]

theorem CEq.read {r1 r2 : Cursor} (h : CEq r1 r2) : CEq r1.read.2 r2.read.2 := by
  rcases h with h | ⟨h1, h2⟩
  · exact Or.inl (peek_erase h).2.1
  · exact Or.inl (h1.read.trans h2.read.symm)

theorem CEq.peek2 {r1 r2 : Cursor} (h : CEq r1 r2) : r1.peek2 = r2.peek2 := by
  rcases h with h | ⟨h1, h2⟩
  · exact (peek_erase h).2.2
  · rw [h1.peek2, h2.peek2]

theorem CEq.scanRegex {r1 r2 : Cursor} (h : CEq r1 r2) (hp : r1.peek = '/') :
    (scanRegex r1).1.sig = (scanRegex r2).1.sig ∧ CEq (scanRegex r1).2 (scanRegex r2).2 := by
  rcases h with h | ⟨h1, _⟩
  · obtain ⟨hl, hc⟩ := scanRegex_erase h
    exact ⟨by unfold Lexeme.sig; rw [hl.1, hl.2], Or.inl hc⟩
  · rw [h1.peek] at hp
    exact absurd hp (by decide)

/-! ## the placeholder and the literal -/

/-- The data of one placeholder: the parameter map, the placeholder's name, the literal spelling
`lh :: lt` of its value `v`, the continuation `k` and the white space `ws` in front of it. -/
structure ICtx where
  params : List (Str × BoundValue)
  name : Str
  lh : Char
  lt : Str
  k : Str
  ws : Str
  v : BoundValue

def ICtx.lit (c : ICtx) : Str := c.lh :: c.lt
/-- The template from the white space on. -/
def ICtx.t1 (c : ICtx) : Str := c.ws ++ ('$' :: (c.name ++ c.k))
/-- The inlined text from the white space on. -/
def ICtx.t2 (c : ICtx) : Str := c.ws ++ (c.lit ++ c.k)

/-- The side conditions: `Inlinable` (Lemmas/Inline.lean), `ws` is white space, the value is not a
regex, and the literal does not begin with a rune `parseRegex` / `parseSegmentedIdents` look for in
the rune reader (`/`, `-` of a comment, `:`, `.`) nor with `$`. -/
structure ICtx.OK (c : ICtx) : Prop where
  inl : Inlinable c.params c.name c.lit c.k c.v
  ws : ∀ x ∈ c.ws, isWhitespace x = true
  notRegex : c.v.tok ≠ .REGEX
  lh : c.lh ≠ '/' ∧ c.lh ≠ '-' ∧ c.lh ≠ ':' ∧ c.lh ≠ '.' ∧ c.lh ≠ '$'

theorem ICtx.OK.lh_facts {c : ICtx} (h : c.OK) : isWhitespace c.lh = false ∧ c.lh ≠ eofRune := by
  obtain ⟨x, t, hl, h1, h2⟩ := h.inl.lit_ok.1
  unfold ICtx.lit at hl
  injection hl with e1 _
  rw [e1]
  exact ⟨h1, h2⟩

theorem scan_wsRun_lit (r : Cursor) (w post : List Char) (h : r.chars = w ++ post) (hw : WsRun w)
    (hp : NotWsHead post) : (scan r).1.sig = (.WS, w) ∧ (scan r).2.chars = dropEof post := by
  obtain ⟨hne, hall⟩ := hw
  cases w with
  | nil => exact absurd rfl hne
  | cons c0 w' =>
    obtain ⟨h1, h2, _⟩ := Cursor.chars_cons (x := w' ++ post) (by simpa using h)
    have hc0 : isWhitespace c0 = true := hall c0 (by simp)
    have hscan : scan r = scanWhitespace c0 r.read.1.2 r.read.2 := by
      unfold scan scanFrom
      rw [h1]
      simp only [hc0, if_true]
    obtain ⟨hw', hk⟩ := readWhile_chars isWhitespace r.read.2 w' post h2
      (fun c hc => ⟨hall c (by simp [hc]), isWhitespace_ne_eof (hall c (by simp [hc]))⟩)
      (fun x t hxt => by rw [hp x t hxt]; rfl)
    rw [hscan]
    unfold scanWhitespace
    dsimp only
    refine ⟨?_, by rw [Cursor.chars_eatEof, hk]⟩
    unfold Lexeme.sig
    dsimp only
    rw [hw']

/-- The two rune cursors of the simulation. -/
inductive CR (c : ICtx) (r1 r2 : Cursor) : Prop
  /-- before the placeholder: a common prefix without `/` and NUL, and the scanner of the template
  reaches the white space in front of the placeholder at a token boundary -/
  | pre (a' : Str) (hws : c.ws ≠ []) (h1 : r1.chars = a' ++ c.t1) (h2 : r2.chars = a' ++ c.t2)
      (hno : ∀ x ∈ a', x ≠ '/' ∧ x ≠ eofRune) (hsync : ∃ n, (scanN n r1).rest.length = c.t1.length)
  /-- at the placeholder / at the literal -/
  | at (h1 : r1.chars = '$' :: (c.name ++ c.k)) (h2 : r2.chars = c.lit ++ c.k)
  /-- behind it -/
  | post (h : CEq r1 r2)

theorem ICtx.ws_cons {c : ICtx} (h : c.ws ≠ []) : ∃ w ws', c.ws = w :: ws' :=
  List.exists_cons_of_ne_nil h

theorem CR.step {c : ICtx} (hc : c.OK) {r1 r2 : Cursor} (h : CR c r1 r2) :
    substSig c.params (scan r1).1.sig = substSig c.params (scan r2).1.sig ∧
      CR c (scan r1).2 (scan r2).2 := by
  cases h with
  | pre a' hws h1 h2 hno hsync =>
    obtain ⟨w, ws', hw⟩ := ICtx.ws_cons hws
    have hwsp : isWhitespace w = true := hc.ws w (by rw [hw]; simp)
    by_cases ha : a' = []
    · subst ha
      obtain ⟨hlw, hle⟩ := hc.lh_facts
      have n1 : NotWsHead ('$' :: (c.name ++ c.k)) := by
        intro x y hxy; simp only [List.cons.injEq] at hxy; rw [← hxy.1]; decide
      have n2 : NotWsHead (c.lit ++ c.k) := by
        intro x y hxy
        unfold ICtx.lit at hxy
        simp only [List.cons_append, List.cons.injEq] at hxy
        rw [← hxy.1]; exact hlw
      obtain ⟨w1, w2⟩ := scan_wsRun_lit r1 c.ws _ (by simpa [ICtx.t1] using h1) ⟨hws, hc.ws⟩ n1
      obtain ⟨x1, x2⟩ := scan_wsRun_lit r2 c.ws _ (by simpa [ICtx.t2] using h2) ⟨hws, hc.ws⟩ n2
      have d1 : dropEof ('$' :: (c.name ++ c.k)) = '$' :: (c.name ++ c.k) := by
        simp [dropEof, show ('$' : Char) ≠ eofRune from by decide]
      have d2 : dropEof (c.lit ++ c.k) = c.lit ++ c.k := by
        unfold ICtx.lit; simp [dropEof, hle]
      rw [d1] at w2
      rw [d2] at x2
      exact ⟨by rw [w1, x1], CR.at w2 x2⟩
    · have hloc : Loc c.t1 c.t2 r1 r2 := ⟨a', h1, h2⟩
      have ht : TailOK c.t1 c.t2 :=
        Or.inr ⟨w, ws' ++ ('$' :: (c.name ++ c.k)), w, ws' ++ (c.lit ++ c.k),
          by simp [ICtx.t1, hw], by simp [ICtx.t2, hw], hwsp, hwsp⟩
      have hl1 : r1.rest.length = a'.length + c.t1.length := by
        have := congrArg List.length h1
        simpa [Cursor.chars] using this
      have hapos : 0 < a'.length := List.length_pos_iff.mpr ha
      obtain ⟨n, hn⟩ := hsync
      cases n with
      | zero => exfalso; have : r1.rest.length = c.t1.length := hn; omega
      | succ m =>
        have hn' : (scanN m (scan r1).2).rest.length = c.t1.length := hn
        have hlen : c.t1.length ≤ (scan r1).2.rest.length := by
          rw [← hn']; exact scanN_length_le m _
        obtain ⟨hsig, a'', g1, g2⟩ := scan_loc hloc ht hlen
        refine ⟨by rw [hsig], CR.pre a'' hws g1 g2 ?_ ⟨m, hn'⟩⟩
        have hsuf : (scan r1).2.rest <:+ r1.rest := (scan_adv r1).2.1
        obtain ⟨l, hl⟩ := hsuf
        have hm := congrArg (List.map Prod.fst) hl
        rw [List.map_append] at hm
        have g1' : (scan r1).2.rest.map Prod.fst = a'' ++ c.t1 := g1
        have h1' : r1.rest.map Prod.fst = a' ++ c.t1 := h1
        rw [g1', h1', ← List.append_assoc] at hm
        have hcan := List.append_cancel_right hm
        intro x hx
        exact hno x (by rw [← hcan]; exact List.mem_append_right _ hx)
  | «at» h1 h2 =>
    obtain ⟨⟨c0, tl, hname, hall⟩, hk, hb, ⟨_, ⟨hT1, _, _⟩, hscan⟩, _⟩ := hc.inl
    rw [hname] at h1
    obtain ⟨a1, a2, a3⟩ := scan_dollar_word r1 c0 tl c.k h1 hall hk
    obtain ⟨b1, b2, b3⟩ := hscan r2 h2
    have hs1 : (scan r1).1.sig = (.BOUNDPARAM, '$' :: c.name) := by
      rw [hname]; simp [Lexeme.sig, a1, a2]
    have hs2 : (scan r2).1.sig = (c.v.tok, c.v.text) := by simp [Lexeme.sig, b1, b2]
    refine ⟨?_, CR.post (CEq.of_before a3 b3)⟩
    rw [hs1, hs2, substSig_bound c.params c.name c.v (by rw [hname]; simp) hb,
      substSig_other c.params c.v.tok c.v.text hT1]
  | post h =>
    obtain ⟨e, h'⟩ := h.scan
    exact ⟨by rw [e], CR.post h'⟩

/-- What the two runs see when they look at the next rune: the same, or `$` / the first rune of
the literal. -/
def PeekRel (c : ICtx) (x y : Char) : Prop := x = y ∨ (x = '$' ∧ y = c.lh)

theorem CR.peek_cases {c : ICtx} (hc : c.OK) {r1 r2 : Cursor} (h : CR c r1 r2) :
    (r1.peek = r2.peek ∧ (r1.peek = '/' → CEq r1 r2) ∧ (r1.peek = eofRune → CEq r1 r2)) ∨
    (r1.chars = '$' :: (c.name ++ c.k) ∧ r2.chars = c.lit ++ c.k) := by
  cases h with
  | pre a' hws h1 h2 hno hsync =>
    left
    obtain ⟨w, ws', hw⟩ := ICtx.ws_cons hws
    have hwsp : isWhitespace w = true := hc.ws w (by rw [hw]; simp)
    cases a' with
    | nil =>
      have e1 := (Cursor.chars_cons (x := ws' ++ ('$' :: (c.name ++ c.k))) (by simpa [ICtx.t1, hw] using h1)).2.2
      have e2 := (Cursor.chars_cons (x := ws' ++ (c.lit ++ c.k)) (by simpa [ICtx.t2, hw] using h2)).2.2
      refine ⟨by rw [e1, e2], ?_, ?_⟩
      · intro hp; rw [e1] at hp; subst hp; exact absurd hwsp (by decide)
      · intro hp; rw [e1] at hp; exact absurd hp (isWhitespace_ne_eof hwsp)
    | cons x t =>
      have e1 := (Cursor.chars_cons (x := t ++ c.t1) (by simpa using h1)).2.2
      have e2 := (Cursor.chars_cons (x := t ++ c.t2) (by simpa using h2)).2.2
      obtain ⟨n1, n2⟩ := hno x (by simp)
      refine ⟨by rw [e1, e2], ?_, ?_⟩
      · intro hp; rw [e1] at hp; exact absurd hp n1
      · intro hp; rw [e1] at hp; exact absurd hp n2
  | «at» h1 h2 => exact Or.inr ⟨h1, h2⟩
  | post h => exact Or.inl ⟨h.peek, fun _ => h, fun _ => h⟩

theorem CR.peek {c : ICtx} (hc : c.OK) {r1 r2 : Cursor} (h : CR c r1 r2) : PeekRel c r1.peek r2.peek := by
  rcases h.peek_cases hc with ⟨e, _⟩ | ⟨h1, h2⟩
  · exact Or.inl e
  · exact Or.inr ⟨(Cursor.chars_cons h1).2.2, (Cursor.chars_cons (x := c.lt ++ c.k) (by simpa [ICtx.lit] using h2)).2.2⟩

theorem PeekRel.facts {c : ICtx} (hc : c.OK) {x y : Char} (h : PeekRel c x y) :
    isWhitespace x = isWhitespace y ∧ (x = eofRune ↔ y = eofRune) ∧ (x = '/' ↔ y = '/') ∧
    (x = ':' ↔ y = ':') ∧ (x = '.' ↔ y = '.') := by
  rcases h with rfl | ⟨rfl, rfl⟩
  · exact ⟨rfl, Iff.rfl, Iff.rfl, Iff.rfl, Iff.rfl⟩
  · obtain ⟨a, b⟩ := hc.lh_facts
    obtain ⟨l1, _, l3, l4, _⟩ := hc.lh
    refine ⟨by rw [a]; decide, ?_, ?_, ?_, ?_⟩ <;>
      exact ⟨fun h => absurd h (by decide), fun h => absurd h (by assumption)⟩

/-- The state after `peekRune` when an `eof` rune was consumed. -/
theorem CR.read {c : ICtx} (hc : c.OK) {r1 r2 : Cursor} (h : CR c r1 r2) (hp : r1.peek = eofRune) :
    CR c r1.read.2 r2.read.2 := by
  rcases h.peek_cases hc with ⟨_, _, e⟩ | ⟨h1, _⟩
  · exact CR.post (e hp).read
  · rw [(Cursor.chars_cons h1).2.2] at hp
    exact absurd hp (by decide)

theorem CR.stepRegex {c : ICtx} (hc : c.OK) {r1 r2 : Cursor} (h : CR c r1 r2) (hp : r1.peek = '/') :
    (scanRegex r1).1.sig = (scanRegex r2).1.sig ∧ CR c (scanRegex r1).2 (scanRegex r2).2 := by
  rcases h.peek_cases hc with ⟨_, e, _⟩ | ⟨h1, _⟩
  · obtain ⟨a, b⟩ := (e hp).scanRegex hp
    exact ⟨a, CR.post b⟩
  · rw [(Cursor.chars_cons h1).2.2] at hp
    exact absurd hp (by decide)

theorem Cursor.peek2_fst (r : Cursor) : r.peek2.1 = r.peek := by
  unfold Cursor.peek2 Cursor.peek
  cases r.rest with
  | nil => rfl
  | cons x t => cases t <;> rfl

theorem opensComment_first {a b : Char} (h : opensComment a b = true) : a = '-' ∨ a = '/' := by
  unfold opensComment at h
  simp only [Bool.or_eq_true, Bool.and_eq_true, beq_iff_eq] at h
  rcases h with h | h
  · exact Or.inl h.1
  · exact Or.inr h.1

theorem opensComment_false_of {a b : Char} (h1 : a ≠ '-') (h2 : a ≠ '/') : opensComment a b = false := by
  cases h : opensComment a b with
  | false => rfl
  | true => rcases opensComment_first h with e | e <;> contradiction

theorem CR.peek2 {c : ICtx} (hc : c.OK) {r1 r2 : Cursor} (h : CR c r1 r2) :
    opensComment r1.peek2.1 r1.peek2.2 = opensComment r2.peek2.1 r2.peek2.2 := by
  cases h with
  | pre a' hws h1 h2 hno hsync =>
    obtain ⟨w, ws', hw⟩ := ICtx.ws_cons hws
    have hwsp : isWhitespace w = true := hc.ws w (by rw [hw]; simp)
    have hwf : ∀ b, opensComment w b = false := fun b =>
      opensComment_false_of (by intro e; subst e; exact absurd hwsp (by decide))
        (by intro e; subst e; exact absurd hwsp (by decide))
    cases a' with
    | nil =>
      cases ws' with
      | nil =>
        have e1 := (Cursor.chars_cons (x := '$' :: (c.name ++ c.k)) (by simpa [ICtx.t1, hw] using h1)).2.2
        have e2 := (Cursor.chars_cons (x := c.lit ++ c.k) (by simpa [ICtx.t2, hw] using h2)).2.2
        rw [Cursor.peek2_fst, Cursor.peek2_fst, e1, e2, hwf, hwf]
      | cons w2 ws'' =>
        rw [Cursor.peek2_chars (x := ws'' ++ ('$' :: (c.name ++ c.k))) (by simpa [ICtx.t1, hw] using h1),
          Cursor.peek2_chars (x := ws'' ++ (c.lit ++ c.k)) (by simpa [ICtx.t2, hw] using h2)]
    | cons x t =>
      cases t with
      | nil =>
        rw [Cursor.peek2_chars (x := ws' ++ ('$' :: (c.name ++ c.k))) (by simpa [ICtx.t1, hw] using h1),
          Cursor.peek2_chars (x := ws' ++ (c.lit ++ c.k)) (by simpa [ICtx.t2, hw] using h2)]
      | cons y u =>
        rw [Cursor.peek2_chars (x := u ++ c.t1) (by simpa using h1),
          Cursor.peek2_chars (x := u ++ c.t2) (by simpa using h2)]
  | «at» h1 h2 =>
    have e1 := (Cursor.chars_cons h1).2.2
    have e2 := (Cursor.chars_cons (x := c.lt ++ c.k) (by simpa [ICtx.lit] using h2)).2.2
    obtain ⟨l1, l2, _⟩ := hc.lh
    rw [Cursor.peek2_fst, Cursor.peek2_fst, e1, e2,
      opensComment_false_of (by decide) (by decide), opensComment_false_of l2 l1]
  | post h => rw [h.peek2]

end InfluxQL

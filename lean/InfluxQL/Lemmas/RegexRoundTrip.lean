import InfluxQL.Model.Scanner
import InfluxQL.Model.Print
/-
Regex print/scan round trip (DESIGN Appendix A4): the delimited scan of `ScanRegex` run on
`strings.Replace(src, "/", "\/", -1)` followed by the closing `/` gives back `src`.

Units of the scan: a plain rune is itself; `\/` is `/`; `\x` (x ≠ `/`) writes the `\` and re-reads
`x`. The induction carries the "pending backslash" state `esc` of the loop.
-/
namespace InfluxQL
open Gen

/-- The text ends in a backslash. -/
def endsBS : List Char → Bool
  | [] => false
  | [c] => c == '\\'
  | _ :: rest => endsBS rest

theorem endsBS_cons_cons (a b : Char) (rest : List Char) : endsBS (a :: b :: rest) = endsBS (b :: rest) := rfl

theorem endsBS_append_cons (xs : List Char) (c : Char) (rest : List Char) :
    endsBS (xs ++ c :: rest) = endsBS (c :: rest) := by
  induction xs with
  | nil => rfl
  | cons x xs ih =>
    cases xs with
    | nil => exact endsBS_cons_cons x c rest
    | cons y ys =>
      rw [List.cons_append, List.cons_append, endsBS_cons_cons]
      rw [List.cons_append] at ih
      exact ih

/-- The pending backslash of the loop, as text. -/
def pendingBS (esc : Bool) : List Char := if esc then ['\\'] else []

theorem scanRegexLoop_print (fin : Pos) (q : Pos) (k : List (Char × Pos)) :
    ∀ (src : List Char) (l : List (Char × Pos)) (acc : List Char) (esc : Bool) (pv : Char × Pos) (n : Nat),
      (∀ c ∈ src, c ≠ '\n' ∧ c ≠ eofRune) →
      endsBS (pendingBS esc ++ src) = false →
      l.map Prod.fst = escapeSlashes src →
      (scanRegexLoop fin (l ++ ('/', q) :: k) acc esc pv n).1 = some (acc ++ pendingBS esc ++ src) ∧
      (scanRegexLoop fin (l ++ ('/', q) :: k) acc esc pv n).2.1 = k := by
  intro src
  induction src with
  | nil =>
    intro l acc esc pv n _ hends hl
    have hl0 : l = [] := by simpa [escapeSlashes] using hl
    subst hl0
    cases esc with
    | true => simp [pendingBS, endsBS] at hends
    | false => simp [scanRegexLoop, pendingBS]
  | cons c rest ih =>
    intro l acc esc pv n hok hends hl
    have hc := hok c List.mem_cons_self
    have hrest : ∀ c ∈ rest, c ≠ '\n' ∧ c ≠ eofRune := fun x hx => hok x (List.mem_cons_of_mem _ hx)
    have hends' : endsBS (c :: rest) = false := by rw [← endsBS_append_cons (pendingBS esc)]; exact hends
    by_cases hslash : c = '/'
    · -- `/` is printed as `\/`
      subst hslash
      have hl' : l.map Prod.fst = '\\' :: '/' :: escapeSlashes rest := by
        simpa [escapeSlashes, List.flatMap_cons] using hl
      obtain ⟨b1, l1, rfl, hb1, hl1⟩ := List.map_eq_cons_iff.mp hl'
      obtain ⟨b2, l2, rfl, hb2, hl2⟩ := List.map_eq_cons_iff.mp hl1
      obtain ⟨c1, q1⟩ := b1
      obtain ⟨c2, q2⟩ := b2
      simp only at hb1 hb2
      subst hb1 hb2
      have hr : endsBS (pendingBS false ++ rest) = false := by
        cases rest with
        | nil => rfl
        | cons r rs => simpa [pendingBS, endsBS_cons_cons] using hends'
      cases esc with
      | true =>
        have := ih l2 (acc ++ ['\\'] ++ ['/']) false ('/', q2) (n + 1 + 1) hrest hr hl2
        simpa [scanRegexLoop, pendingBS, eofRune] using this
      | false =>
        have := ih l2 (acc ++ ['/']) false ('/', q2) (n + 1 + 1) hrest hr hl2
        simpa [scanRegexLoop, pendingBS, eofRune] using this
    · by_cases hbs : c = '\\'
      · -- a backslash is printed as itself and becomes the pending one
        subst hbs
        have hl' : l.map Prod.fst = '\\' :: escapeSlashes rest := by
          simpa [escapeSlashes, List.flatMap_cons] using hl
        obtain ⟨b1, l1, rfl, hb1, hl1⟩ := List.map_eq_cons_iff.mp hl'
        obtain ⟨c1, q1⟩ := b1
        simp only at hb1
        subst hb1
        have hr : endsBS (pendingBS true ++ rest) = false := by simpa [pendingBS] using hends'
        cases esc with
        | true =>
          have := ih l1 (acc ++ ['\\']) true ('\\', q1) (n + 1) hrest hr hl1
          simpa [scanRegexLoop, pendingBS, eofRune] using this
        | false =>
          have := ih l1 acc true ('\\', q1) (n + 1) hrest hr hl1
          simpa [scanRegexLoop, pendingBS, eofRune] using this
      · -- any other rune
        have hl' : l.map Prod.fst = c :: escapeSlashes rest := by
          simpa [escapeSlashes, List.flatMap_cons, hslash] using hl
        obtain ⟨b1, l1, rfl, hb1, hl1⟩ := List.map_eq_cons_iff.mp hl'
        obtain ⟨c1, q1⟩ := b1
        simp only at hb1
        subst hb1
        have hr : endsBS (pendingBS false ++ rest) = false := by
          cases rest with
          | nil => rfl
          | cons r rs => simpa [pendingBS, endsBS_cons_cons] using hends'
        cases esc with
        | true =>
          have := ih l1 (acc ++ ['\\'] ++ [c1]) false (c1, q1) (n + 1) hrest hr hl1
          simpa [scanRegexLoop, pendingBS, hslash, hbs, hc.1, hc.2] using this
        | false =>
          have := ih l1 (acc ++ [c1]) false (c1, q1) (n + 1) hrest hr hl1
          simpa [scanRegexLoop, pendingBS, hslash, hbs, hc.1, hc.2] using this

theorem endsBS_append_single (xs : List Char) (c : Char) : endsBS (xs ++ [c]) = (c == '\\') :=
  endsBS_append_cons xs c []

/-- No newline and no NUL. -/
def RegexRunes (s : List Char) : Prop := ∀ c ∈ s, c ≠ '\n' ∧ c ≠ eofRune

theorem RegexRunes.append {a b : List Char} (ha : RegexRunes a) (hb : RegexRunes b) : RegexRunes (a ++ b) := by
  intro c hc
  rcases List.mem_append.mp hc with h | h
  · exact ha c h
  · exact hb c h

theorem regexRunes_single {c : Char} (h1 : c ≠ '\n') (h2 : c ≠ eofRune) : RegexRunes [c] := by
  intro x hx
  simp only [List.mem_singleton] at hx
  subst hx
  exact ⟨h1, h2⟩

/-- The image of the delimited scan: whatever `ScanRegex` returns has no newline, no NUL and does
not end in a backslash — exactly the sources `scanRegexLoop_print` covers. -/
theorem scanRegexLoop_image (fin : Pos) :
    ∀ (l : List (Char × Pos)) (acc : List Char) (esc : Bool) (pv : Char × Pos) (n : Nat) (out : List Char),
      RegexRunes acc → (esc = false → endsBS acc = false) →
      (scanRegexLoop fin l acc esc pv n).1 = some out →
      RegexRunes out ∧ endsBS out = false := by
  intro l
  induction l with
  | nil => intro acc esc pv n out _ _ h; simp [scanRegexLoop] at h
  | cons x t ih =>
    intro acc esc pv n out hacc hend h
    obtain ⟨c, q⟩ := x
    unfold scanRegexLoop at h
    by_cases h1 : esc = true ∧ c = eofRune
    · rw [if_pos h1] at h; simp at h
    · rw [if_neg h1] at h
      by_cases h2 : esc = true ∧ c = '/'
      · rw [if_pos h2] at h
        exact ih _ false _ _ out (hacc.append (regexRunes_single (by decide) (by decide)))
          (fun _ => by rw [endsBS_append_single]; decide) h
      · rw [if_neg h2] at h
        have hacc' : RegexRunes (if esc = true then acc ++ ['\\'] else acc) := by
          split
          · exact hacc.append (regexRunes_single (by decide) (by decide))
          · exact hacc
        simp only at h
        by_cases h3 : c = '/'
        · rw [if_pos h3] at h
          have hesc : esc = false := by
            cases esc with
            | false => rfl
            | true => exact absurd ⟨rfl, h3⟩ h2
          subst hesc
          simp only [Bool.false_eq_true, ↓reduceIte, Option.some.injEq] at h
          subst h
          exact ⟨hacc, hend rfl⟩
        · rw [if_neg h3] at h
          by_cases h4 : c = eofRune
          · rw [if_pos h4] at h; simp at h
          · rw [if_neg h4] at h
            by_cases h5 : c = '\n'
            · rw [if_pos h5] at h; simp at h
            · rw [if_neg h5] at h
              by_cases h6 : c = '\\'
              · rw [if_pos h6] at h
                exact ih _ true _ _ out hacc' (fun hh => by cases hh) h
              · rw [if_neg h6] at h
                refine ih _ false _ _ out (hacc'.append (regexRunes_single h5 h4)) (fun _ => ?_) h
                rw [endsBS_append_single]
                simpa using h6

/-- `ScanRegex` on the printed form `/` ++ escaped source ++ `/`: the REGEX token carries the
source, and the cursor stops right after the closing slash. -/
theorem scanRegex_print (r : Cursor) (q0 q : Pos) (l k : List (Char × Pos)) (src : List Char)
    (hr : r.rest = ('/', q0) :: (l ++ ('/', q) :: k))
    (hl : l.map Prod.fst = escapeSlashes src)
    (hok : RegexRunes src) (hend : endsBS src = false) :
    (scanRegex r).1 = ⟨.REGEX, r.prev.2, src⟩ ∧ (scanRegex r).2.rest = k := by
  have h := scanRegexLoop_print r.fin q k src l [] false ('/', q0) (r.off + 1) hok (by simpa [pendingBS] using hend) hl
  unfold scanRegex Cursor.read
  rw [hr]
  simp only [ne_eq, not_true_eq_false, ↓reduceIte]
  obtain ⟨h1, h2⟩ := h
  revert h1 h2
  generalize scanRegexLoop r.fin (l ++ ('/', q) :: k) [] false ('/', q0) (r.off + 1) = res
  obtain ⟨a, b, c, d⟩ := res
  intro h1 h2
  simp only at h1 h2
  subst h1 h2
  simp [pendingBS]

end InfluxQL

import InfluxQL.Lemmas.Bind
import InfluxQL.Lemmas.Total
/-
C07, the parser level: two runs of the expression parser on the same text with two parameter
maps that differ only in the texts of string values proceed in lock step (same cursor, same
ring, same control flow) and produce trees that are equal up to the contents of string
literals, the differing contents being related pairwise by the two maps.
-/
namespace InfluxQL
open Gen

/-! ### Expressions up to string contents -/

mutual
  /-- The tree with every string literal emptied. -/
  def Expr.blank : Expr → Expr
    | .binary op l r => .binary op l.blank r.blank
    | .paren e => .paren e.blank
    | .call n args => .call n (blankList args)
    | .string _ => .string []
    | .varRef v t => .varRef v t
    | .distinct v => .distinct v
    | .wildcard t => .wildcard t
    | .regex s => .regex s
    | .number v => .number v
    | .integer v => .integer v
    | .unsigned v => .unsigned v
    | .boolean b => .boolean b
    | .duration d => .duration d
    | .time t => .time t
    | .nil => .nil
    | .list vs => .list vs
    | .boundParam n => .boundParam n
  def blankList : List Expr → List Expr
    | [] => []
    | a :: t => a.blank :: blankList t
end

mutual
  /-- The contents of the string literals of a tree, left to right. -/
  def Expr.strs : Expr → List Str
    | .binary _ l r => l.strs ++ r.strs
    | .paren e => e.strs
    | .call _ args => strsList args
    | .string v => [v]
    | .varRef _ _ => []
    | .distinct _ => []
    | .wildcard _ => []
    | .regex _ => []
    | .number _ => []
    | .integer _ => []
    | .unsigned _ => []
    | .boolean _ => []
    | .duration _ => []
    | .time _ => []
    | .nil => []
    | .list _ => []
    | .boundParam _ => []
  def strsList : List Expr → List Str
    | [] => []
    | a :: t => a.strs ++ strsList t
end

/-- Two lists related element by element. -/
inductive All2 {α : Type} (R : α → α → Prop) : List α → List α → Prop
  | nil : All2 R [] []
  | cons {a b : α} {l1 l2 : List α} : R a b → All2 R l1 l2 → All2 R (a :: l1) (b :: l2)

/-- Same tree up to string contents; the contents are related pairwise by `D`. -/
def ERel (D : Str → Str → Prop) (e1 e2 : Expr) : Prop :=
  e1.blank = e2.blank ∧ All2 D e1.strs e2.strs

def ERelList (D : Str → Str → Prop) (l1 l2 : List Expr) : Prop :=
  blankList l1 = blankList l2 ∧ All2 D (strsList l1) (strsList l2)

theorem forall2_append {α : Type} {R : α → α → Prop} {a b c d : List α} (h1 : All2 R a b)
    (h2 : All2 R c d) : All2 R (a ++ c) (b ++ d) := by
  induction h1 with
  | nil => exact h2
  | cons h _ ih => exact All2.cons h ih

theorem blankList_append (a b : List Expr) : blankList (a ++ b) = blankList a ++ blankList b := by
  induction a with
  | nil => rfl
  | cons x t ih => simp [blankList, ih]

theorem strsList_append (a b : List Expr) : strsList (a ++ b) = strsList a ++ strsList b := by
  induction a with
  | nil => rfl
  | cons x t ih => simp [strsList, ih]

theorem ERelList.snoc {D : Str → Str → Prop} {l1 l2 : List Expr} {a1 a2 : Expr} (h : ERelList D l1 l2)
    (ha : ERel D a1 a2) : ERelList D (l1 ++ [a1]) (l2 ++ [a2]) := by
  constructor
  · rw [blankList_append, blankList_append, h.1]
    show blankList l2 ++ [a1.blank] = blankList l2 ++ [a2.blank]
    rw [ha.1]
  · rw [strsList_append, strsList_append]
    refine forall2_append h.2 ?_
    show All2 D (a1.strs ++ []) (a2.strs ++ [])
    rw [List.append_nil, List.append_nil]
    exact ha.2

theorem ERel.refl_of {D : Str → Str → Prop} (hD : ∀ x, D x x) (e : Expr) : ERel D e e := by
  refine ⟨rfl, ?_⟩
  induction e.strs with
  | nil => exact All2.nil
  | cons x t ih => exact All2.cons (hD x) ih

theorem ERel.of_eq_nostr {D : Str → Str → Prop} {e : Expr} (h : e.strs = []) : ERel D e e :=
  ⟨rfl, by rw [h]; exact All2.nil⟩

theorem ERel.binary {D : Str → Str → Prop} {l1 l2 r1 r2 : Expr} (op : Token) (hl : ERel D l1 l2)
    (hr : ERel D r1 r2) : ERel D (.binary op l1 r1) (.binary op l2 r2) :=
  ⟨by rw [Expr.blank, Expr.blank, hl.1, hr.1], by rw [Expr.strs, Expr.strs]; exact forall2_append hl.2 hr.2⟩

theorem ERel.paren {D : Str → Str → Prop} {e1 e2 : Expr} (h : ERel D e1 e2) : ERel D (.paren e1) (.paren e2) :=
  ⟨by rw [Expr.blank, Expr.blank, h.1], by rw [Expr.strs, Expr.strs]; exact h.2⟩

theorem ERel.call {D : Str → Str → Prop} {l1 l2 : List Expr} (n : Str) (h : ERelList D l1 l2) :
    ERel D (.call n l1) (.call n l2) :=
  ⟨by rw [Expr.blank, Expr.blank, h.1], by rw [Expr.strs, Expr.strs]; exact h.2⟩

theorem insertOp_strs (t : Expr) (op : Token) (rhs : Expr) :
    (insertOp t op rhs).strs = t.strs ++ rhs.strs := by
  fun_induction insertOp t op rhs with
  | case1 o l r op rhs h => simp [Expr.strs]
  | case2 o l r op rhs h ih => simp [Expr.strs, ih, List.append_assoc]
  | case3 t op rhs h => simp [Expr.strs]

theorem insertOp_blank (t : Expr) (op : Token) (rhs : Expr) :
    (insertOp t op rhs).blank = insertOp t.blank op rhs.blank := by
  fun_induction insertOp t op rhs with
  | case1 o l r op rhs h => simp [Expr.blank, insertOp, h]
  | case2 o l r op rhs h ih => simp [Expr.blank, insertOp, h, ih]
  | case3 t op rhs h =>
    cases t <;> simp_all [Expr.blank, insertOp]

/-- `insertOp` respects the relation: the descent looks at operators only. -/
theorem ERel.insertOp {D : Str → Str → Prop} {t1 t2 r1 r2 : Expr} (op : Token) (ht : ERel D t1 t2)
    (hr : ERel D r1 r2) : ERel D (insertOp t1 op r1) (insertOp t2 op r2) := by
  constructor
  · rw [insertOp_blank, insertOp_blank, ht.1, hr.1]
  · rw [insertOp_strs, insertOp_strs]
    exact forall2_append ht.2 hr.2

/-! ### Two runs in lock step -/

/-- The same parser state with another parameter map. -/
def withP (s : PState) (p : List (Str × BoundValue)) : PState := { s with params := p }

/-- Failures of the same kind (messages may differ in the literal they quote). -/
def FRel : Fail → Fail → Prop
  | .err _, .err _ => True
  | .fuel, .fuel => True
  | .panic _, .panic _ => True
  | _, _ => False

/-- Run `m1` with parameters `p1` and `m2` with parameters `p2` from the same state: both
succeed, in states that again differ only in the parameter map, with results related by `Q`; or
both fail in the same way. -/
def wp2 (p1 p2 : List (Str × BoundValue)) {α : Type} (m1 m2 : P α) (s : PState)
    (Q : α → α → PState → Prop) : Prop :=
  match m1.run (withP s p1), m2.run (withP s p2) with
  | .ok (a1, t1), .ok (a2, t2) => ∃ t, t1 = withP t p1 ∧ t2 = withP t p2 ∧ Q a1 a2 t
  | .error e1, .error e2 => FRel e1 e2
  | _, _ => False

section
variable {p1 p2 : List (Str × BoundValue)}

theorem wp2_pure {α : Type} (a1 a2 : α) (s : PState) (Q : α → α → PState → Prop) (h : Q a1 a2 s) :
    wp2 p1 p2 (pure a1) (pure a2) s Q := ⟨s, rfl, rfl, h⟩

theorem wp2_bind {α β : Type} (m1 m2 : P α) (f1 f2 : α → P β) (s : PState) (Q : β → β → PState → Prop)
    (h : wp2 p1 p2 m1 m2 s (fun a1 a2 t => wp2 p1 p2 (f1 a1) (f2 a2) t Q)) :
    wp2 p1 p2 (m1 >>= f1) (m2 >>= f2) s Q := by
  unfold wp2 at h ⊢
  rw [P.runBind, P.runBind]
  cases h1 : m1.run (withP s p1) with
  | error e1 =>
    cases h2 : m2.run (withP s p2) with
    | error e2 => rw [h1, h2] at h; exact h
    | ok q => rw [h1, h2] at h; exact h.elim
  | ok q1 =>
    obtain ⟨a1, t1⟩ := q1
    cases h2 : m2.run (withP s p2) with
    | error e2 => rw [h1, h2] at h; exact h.elim
    | ok q2 =>
      obtain ⟨a2, t2⟩ := q2
      rw [h1, h2] at h
      obtain ⟨t, e1, e2, hq⟩ := h
      subst e1 e2
      exact hq

theorem wp2_mono {α : Type} {m1 m2 : P α} {s : PState} {Q Q' : α → α → PState → Prop}
    (h : wp2 p1 p2 m1 m2 s Q) (hq : ∀ a1 a2 t, Q a1 a2 t → Q' a1 a2 t) : wp2 p1 p2 m1 m2 s Q' := by
  unfold wp2 at h ⊢
  cases h1 : m1.run (withP s p1) with
  | error e1 =>
    cases h2 : m2.run (withP s p2) with
    | error e2 => rw [h1, h2] at h; exact h
    | ok q => rw [h1, h2] at h; exact h.elim
  | ok q1 =>
    obtain ⟨a1, t1⟩ := q1
    cases h2 : m2.run (withP s p2) with
    | error e2 => rw [h1, h2] at h; exact h.elim
    | ok q2 =>
      obtain ⟨a2, t2⟩ := q2
      rw [h1, h2] at h
      obtain ⟨t, e1, e2, hq'⟩ := h
      exact ⟨t, e1, e2, hq _ _ _ hq'⟩

theorem wp2_throw_err {α : Type} (e1 e2 : PErr) (s : PState) (Q : α → α → PState → Prop) :
    wp2 p1 p2 (throw (.err e1) : P α) (throw (.err e2)) s Q := by
  unfold wp2; exact True.intro

theorem wp2_failFound {α : Type} (l1 l2 : Lexeme) (x1 x2 : List String) (s : PState)
    (Q : α → α → PState → Prop) : wp2 p1 p2 (failFound l1 x1 : P α) (failFound l2 x2) s Q :=
  wp2_throw_err _ _ s Q

theorem wp2_failAt {α : Type} (m1 m2 : Str) (q1 q2 : Pos) (s : PState) (Q : α → α → PState → Prop) :
    wp2 p1 p2 (failAt m1 q1 : P α) (failAt m2 q2) s Q := wp2_throw_err _ _ s Q

theorem wp2_failPlain {α : Type} (m1 m2 : Str) (s : PState) (Q : α → α → PState → Prop) :
    wp2 p1 p2 (failPlain m1 : P α) (failPlain m2) s Q := wp2_throw_err _ _ s Q

theorem wp2_throw_same {α : Type} (e : Fail) (s : PState) (Q : α → α → PState → Prop) :
    wp2 p1 p2 (throw e : P α) (throw e) s Q := by
  unfold wp2
  cases e <;> exact True.intro

theorem wp2_ite {α : Type} (c : Prop) [Decidable c] (a1 b1 a2 b2 : P α) (s : PState)
    (Q : α → α → PState → Prop) (h : if c then wp2 p1 p2 a1 a2 s Q else wp2 p1 p2 b1 b2 s Q) :
    wp2 p1 p2 (if c then a1 else b1) (if c then a2 else b2) s Q := by
  split <;> simp_all

theorem wp2_ite' {α : Type} (c : Prop) [Decidable c] (a1 b1 a2 b2 : P α) (s : PState)
    (Q : α → α → PState → Prop) (h1 : c → wp2 p1 p2 a1 a2 s Q) (h2 : ¬ c → wp2 p1 p2 b1 b2 s Q) :
    wp2 p1 p2 (if c then a1 else b1) (if c then a2 else b2) s Q := by
  by_cases h : c
  · rw [if_pos h, if_pos h]; exact h1 h
  · rw [if_neg h, if_neg h]; exact h2 h

theorem wp2_get (s : PState) (Q : PState → PState → PState → Prop) (h : Q (withP s p1) (withP s p2) s) :
    wp2 p1 p2 (get : P PState) get s Q := ⟨s, rfl, rfl, h⟩

theorem wp2_unscan (s : PState) (Q : PUnit → PUnit → PState → Prop) (h : Q ⟨⟩ ⟨⟩ (unsc s)) :
    wp2 p1 p2 unscan unscan s Q := ⟨unsc s, rfl, rfl, h⟩

theorem wp2_peekRune (s : PState) (Q : Char → Char → PState → Prop) (h : Q s.r.peek s.r.peek (peekSt s)) :
    wp2 p1 p2 peekRune peekRune s Q := by
  unfold wp2
  rw [peekRune_run, peekRune_run]
  refine ⟨peekSt s, ?_, ?_, h⟩
  · unfold peekSt withP; split <;> rfl
  · unfold peekSt withP; split <;> rfl

/-- String contents that the two parameter maps relate: equal, or the texts of the same
string-valued parameter. -/
def DRel (p1 p2 : List (Str × BoundValue)) (x y : Str) : Prop :=
  x = y ∨ ∃ k v1 v2, lookupParam k p1 = some v1 ∧ lookupParam k p2 = some v2 ∧
    v1.tok = .STRING ∧ v2.tok = .STRING ∧ v1.text = x ∧ v2.text = y

/-- Delivered tokens of the two runs: same kind and position; same literal unless the kind is
STRING, in which case the literals are related by `DRel`. -/
def LxRelD (p1 p2 : List (Str × BoundValue)) (a b : Lexeme) : Prop :=
  a.tok = b.tok ∧ a.pos = b.pos ∧ (a.tok ≠ .STRING → a.lit = b.lit) ∧ DRel p1 p2 a.lit b.lit ∨
  a.tok = b.tok ∧ a.pos = b.pos ∧ a.lit = b.lit

theorem LxRelD.tok {a b : Lexeme} (h : LxRelD p1 p2 a b) : a.tok = b.tok := by
  rcases h with h | h <;> exact h.1

theorem LxRelD.pos {a b : Lexeme} (h : LxRelD p1 p2 a b) : a.pos = b.pos := by
  rcases h with h | h <;> exact h.2.1

theorem LxRelD.lit {a b : Lexeme} (h : LxRelD p1 p2 a b) (hs : a.tok ≠ .STRING) : a.lit = b.lit := by
  rcases h with h | h
  · exact h.2.2.1 hs
  · exact h.2.2

theorem LxRelD.drel {a b : Lexeme} (h : LxRelD p1 p2 a b) : DRel p1 p2 a.lit b.lit := by
  rcases h with h | h
  · exact h.2.2.2
  · exact Or.inl h.2.2

theorem substTok_relD (hp : ParamsRel p1 p2) (lx : Lexeme) : LxRelD p1 p2 (substTok p1 lx) (substTok p2 lx) := by
  unfold substTok
  by_cases h1 : lx.tok = .BOUNDPARAM
  · rw [if_pos h1, if_pos h1]
    by_cases h2 : trimDollar lx.lit ≠ []
    · rw [if_pos h2, if_pos h2]
      rcases lookupParam_rel hp (trimDollar lx.lit) with ⟨e1, e2⟩ | ⟨v1, v2, e1, e2, ht, hx⟩
      · rw [e1, e2]; exact Or.inr ⟨rfl, rfl, rfl⟩
      · rw [e1, e2]
        left
        refine ⟨ht, rfl, hx, ?_⟩
        by_cases hs : v1.tok = .STRING
        · exact Or.inr ⟨_, v1, v2, e1, e2, hs, by rw [← ht]; exact hs, rfl, rfl⟩
        · exact Or.inl (hx hs)
    · rw [if_neg h2, if_neg h2]; exact Or.inr ⟨rfl, rfl, rfl⟩
  · rw [if_neg h1, if_neg h1]; exact Or.inr ⟨rfl, rfl, rfl⟩

theorem rawNext_withP (regex : Bool) (s : PState) (p : List (Str × BoundValue)) :
    rawNext regex (withP s p) = ((rawNext regex s).1, withP (rawNext regex s).2 p) :=
  rawNext_params_irrelevant regex s p

theorem wp2_pscanWith (hp : ParamsRel p1 p2) (regex : Bool) (s : PState) (Q : Lexeme → Lexeme → PState → Prop)
    (h : ∀ l1 l2 t, LxRelD p1 p2 l1 l2 → Q l1 l2 t) :
    wp2 p1 p2 (pscanWith regex) (pscanWith regex) s Q := by
  unfold wp2
  rw [pscanWith_run, pscanWith_run, rawNext_withP, rawNext_withP]
  exact ⟨(rawNext regex s).2, rfl, rfl, h _ _ _ (substTok_relD hp _)⟩

end

/-! ### The plumbing in lock step -/

section
variable {p1 p2 : List (Str × BoundValue)} (hp : ParamsRel p1 p2)
include hp

theorem scanIWLoop_sim (fuel : Nat) (s : PState) :
    wp2 p1 p2 (scanIWLoop fuel) (scanIWLoop fuel) s (fun l1 l2 _ => LxRelD p1 p2 l1 l2) := by
  induction fuel generalizing s with
  | zero => exact wp2_throw_same _ _ _
  | succ fuel ih =>
    rw [scanIWLoop]
    apply wp2_bind
    apply wp2_pscanWith hp false
    intro l1 l2 t hl
    by_cases hw : l1.tok = .WS ∨ l1.tok = .COMMENT
    · have hw' : l2.tok = .WS ∨ l2.tok = .COMMENT := by rw [← hl.tok]; exact hw
      rw [if_pos hw, if_pos hw']
      exact ih t
    · have hw' : ¬ (l2.tok = .WS ∨ l2.tok = .COMMENT) := by rw [← hl.tok]; exact hw
      rw [if_neg hw, if_neg hw']
      exact wp2_pure _ _ _ _ hl

theorem scanIW_sim (s : PState) :
    wp2 p1 p2 scanIW scanIW s (fun l1 l2 _ => LxRelD p1 p2 l1 l2) := by
  unfold scanIW
  apply wp2_bind
  apply wp2_get
  exact scanIWLoop_sim hp _ s

theorem pscan_sim (s : PState) : wp2 p1 p2 pscan pscan s (fun l1 l2 _ => LxRelD p1 p2 l1 l2) :=
  wp2_pscanWith hp false s _ (fun _ _ _ h => h)

theorem pscanRegex_sim (s : PState) :
    wp2 p1 p2 pscanRegex pscanRegex s (fun l1 l2 _ => LxRelD p1 p2 l1 l2) :=
  wp2_pscanWith hp true s _ (fun _ _ _ h => h)

theorem consumeWhitespace_sim (s : PState) :
    wp2 p1 p2 consumeWhitespace consumeWhitespace s (fun _ _ _ => True) := by
  unfold consumeWhitespace
  apply wp2_bind
  refine wp2_mono (pscan_sim hp s) ?_
  intro l1 l2 t hl
  by_cases hw : l1.tok ≠ .WS
  · have hw' : l2.tok ≠ .WS := by rw [← hl.tok]; exact hw
    rw [if_pos hw, if_pos hw']
    exact wp2_unscan _ _ trivial
  · have hw' : ¬ l2.tok ≠ .WS := by rw [← hl.tok]; exact hw
    rw [if_neg hw, if_neg hw']
    exact wp2_pure _ _ _ _ trivial

theorem parseIdent_sim (s : PState) :
    wp2 p1 p2 parseIdent parseIdent s (fun a b _ => a = b) := by
  unfold parseIdent
  apply wp2_bind
  refine wp2_mono (scanIW_sim hp s) ?_
  intro l1 l2 t hl
  dsimp only
  by_cases hi : l1.tok ≠ .IDENT
  · have hi' : l2.tok ≠ .IDENT := by rw [← hl.tok]; exact hi
    rw [if_pos hi, if_pos hi']
    apply wp2_bind
    exact wp2_failFound _ _ _ _ _ _
  · have hi' : ¬ l2.tok ≠ .IDENT := by rw [← hl.tok]; exact hi
    rw [if_neg hi, if_neg hi']
    have hid : l1.tok = .IDENT := by simpa using hi
    exact wp2_pure _ _ _ _ (hl.lit (by rw [hid]; decide))

theorem segLoop_sim (fuel : Nat) (idents : List Str) (s : PState) :
    wp2 p1 p2 (segLoop fuel idents) (segLoop fuel idents) s (fun a b _ => a = b) := by
  induction fuel generalizing s idents with
  | zero => exact wp2_throw_same _ _ _
  | succ fuel ih =>
    rw [segLoop]
    apply wp2_bind
    refine wp2_mono (pscan_sim hp s) ?_
    intro l1 l2 t hl
    by_cases hd : l1.tok ≠ .DOT
    · have hd' : l2.tok ≠ .DOT := by rw [← hl.tok]; exact hd
      rw [if_pos hd, if_pos hd']
      apply wp2_bind
      apply wp2_unscan
      exact wp2_pure _ _ _ _ rfl
    · have hd' : ¬ l2.tok ≠ .DOT := by rw [← hl.tok]; exact hd
      rw [if_neg hd, if_neg hd']
      apply wp2_bind
      apply wp2_peekRune
      apply wp2_ite
      split
      · exact wp2_pure _ _ _ _ rfl
      · apply wp2_ite
        split
        · exact wp2_pure _ _ _ _ rfl
        · apply wp2_ite
          split
          · exact ih _ _
          · apply wp2_bind
            refine wp2_mono (parseIdent_sim hp _) ?_
            intro a b t2 hab
            subst hab
            exact ih _ _

theorem parseSegmentedIdents_sim (s : PState) :
    wp2 p1 p2 parseSegmentedIdents parseSegmentedIdents s (fun a b _ => a = b) := by
  unfold parseSegmentedIdents
  apply wp2_bind
  refine wp2_mono (parseIdent_sim hp s) ?_
  intro a b t hab
  subst hab
  apply wp2_bind
  apply wp2_get
  apply wp2_bind
  refine wp2_mono (segLoop_sim hp _ _ t) ?_
  intro x y t2 hxy
  subst hxy
  dsimp only
  apply wp2_ite
  split
  · apply wp2_bind
    exact wp2_failAt _ _ _ _ _ _
  · exact wp2_pure _ _ _ _ rfl

end

section
variable {p1 p2 : List (Str × BoundValue)} (hp : ParamsRel p1 p2)
include hp

theorem parseVarRef_sim (s : PState) :
    wp2 p1 p2 parseVarRef parseVarRef s (fun a b _ => a = b) := by
  unfold parseVarRef
  apply wp2_bind
  refine wp2_mono (parseSegmentedIdents_sim hp s) ?_
  intro a b t hab
  subst hab
  apply wp2_bind
  refine wp2_mono (pscan_sim hp t) ?_
  intro l1 l2 t2 hl
  dsimp only
  by_cases hdc : l1.tok = .DOUBLECOLON
  · have hdc' : l2.tok = .DOUBLECOLON := by rw [← hl.tok]; exact hdc
    rw [if_pos hdc, if_pos hdc']
    apply wp2_bind
    refine wp2_mono (pscan_sim hp t2) ?_
    intro u1 u2 t3 hu
    apply wp2_bind
    apply wp2_get
    have htok := hu.tok
    split
    · rename_i hid
      have hid' : u2.tok = .IDENT := by rw [← htok]; exact hid
      have hlit : u1.lit = u2.lit := hu.lit (by rw [hid]; decide)
      simp only [hid']
      rw [← hlit]
      show wp2 p1 p2 _ _ t3 _
      dsimp only [withP]
      repeat' (apply wp2_ite' <;> intro _)
      all_goals first
        | (apply wp2_bind; apply wp2_pure; exact wp2_pure _ _ _ _ rfl)
        | (apply wp2_bind; exact wp2_failFound _ _ _ _ _ _)
    · rename_i hf
      have hf' : u2.tok = .FIELD := by rw [← htok]; exact hf
      simp only [hf']
      apply wp2_bind; apply wp2_pure; exact wp2_pure _ _ _ _ rfl
    · rename_i hf
      have hf' : u2.tok = .TAG := by rw [← htok]; exact hf
      simp only [hf']
      apply wp2_bind; apply wp2_pure; exact wp2_pure _ _ _ _ rfl
    · rename_i h1 h2 h3
      split
      · rename_i h; exact absurd (htok.trans h) h1
      · rename_i h; exact absurd (htok.trans h) h2
      · rename_i h; exact absurd (htok.trans h) h3
      · apply wp2_bind; exact wp2_failFound _ _ _ _ _ _
  · have hdc' : ¬ l2.tok = .DOUBLECOLON := by rw [← hl.tok]; exact hdc
    rw [if_neg hdc, if_neg hdc']
    apply wp2_bind
    apply wp2_unscan
    apply wp2_bind
    apply wp2_pure
    exact wp2_pure _ _ _ _ rfl

theorem parseRegexGo_sim (s : PState) :
    wp2 p1 p2
      (do
        let lx ← pscanRegex
        if lx.tok = .BADESCAPE then failAt ("bad escape: ".toList ++ lx.lit) lx.pos
        else if lx.tok = .BADREGEX then failAt ("bad regex: ".toList ++ lx.lit) lx.pos
        else if lx.tok ≠ .REGEX then failFound lx ["regex"]
        else pure (some (.regex lx.lit)) : P (Option Expr))
      (do
        let lx ← pscanRegex
        if lx.tok = .BADESCAPE then failAt ("bad escape: ".toList ++ lx.lit) lx.pos
        else if lx.tok = .BADREGEX then failAt ("bad regex: ".toList ++ lx.lit) lx.pos
        else if lx.tok ≠ .REGEX then failFound lx ["regex"]
        else pure (some (.regex lx.lit)) : P (Option Expr)) s (fun a b _ => a = b) := by
  apply wp2_bind
  refine wp2_mono (pscanRegex_sim hp s) ?_
  intro l1 l2 t hl
  have htok := hl.tok
  by_cases h1 : l1.tok = .BADESCAPE
  · have h1' : l2.tok = .BADESCAPE := by rw [← htok]; exact h1
    rw [if_pos h1, if_pos h1']; exact wp2_failAt _ _ _ _ _ _
  have h1' : ¬ l2.tok = .BADESCAPE := by rw [← htok]; exact h1
  rw [if_neg h1, if_neg h1']
  by_cases h2 : l1.tok = .BADREGEX
  · have h2' : l2.tok = .BADREGEX := by rw [← htok]; exact h2
    rw [if_pos h2, if_pos h2']; exact wp2_failAt _ _ _ _ _ _
  have h2' : ¬ l2.tok = .BADREGEX := by rw [← htok]; exact h2
  rw [if_neg h2, if_neg h2']
  by_cases h3 : l1.tok ≠ .REGEX
  · have h3' : l2.tok ≠ .REGEX := by rw [← htok]; exact h3
    rw [if_pos h3, if_pos h3']; exact wp2_failFound _ _ _ _ _ _
  have h3' : ¬ l2.tok ≠ .REGEX := by rw [← htok]; exact h3
  rw [if_neg h3, if_neg h3']
  have hre : l1.tok = .REGEX := by simpa using h3
  rw [hl.lit (by rw [hre]; decide)]
  exact wp2_pure _ _ _ _ rfl

theorem parseRegexTail_sim (s : PState) :
    wp2 p1 p2 parseRegexTail parseRegexTail s (fun a b _ => a = b) := by
  unfold parseRegexTail
  apply wp2_bind
  apply wp2_peekRune
  dsimp only
  apply wp2_ite
  split
  · apply wp2_bind
    refine wp2_mono (pscan_sim hp _) ?_
    intro l1 l2 t hl
    apply wp2_bind
    apply wp2_unscan
    by_cases h : l1.tok ≠ .REGEX
    · have h' : l2.tok ≠ .REGEX := by rw [← hl.tok]; exact h
      rw [if_pos h, if_pos h']; exact wp2_pure _ _ _ _ rfl
    · have h' : ¬ l2.tok ≠ .REGEX := by rw [← hl.tok]; exact h
      rw [if_neg h, if_neg h']; exact parseRegexGo_sim hp _
  · apply wp2_ite
    split
    · exact wp2_pure _ _ _ _ rfl
    · exact parseRegexGo_sim hp _

omit hp in
theorem wp2_peekComment (s : PState) (Q : Bool → Bool → PState → Prop)
    (h : Q (opensComment s.r.peek2.1 s.r.peek2.2) (opensComment s.r.peek2.1 s.r.peek2.2) s) :
    wp2 p1 p2 peekComment peekComment s Q := ⟨s, rfl, rfl, h⟩

theorem skipCommentsLoop_sim (fuel : Nat) (s : PState) :
    wp2 p1 p2 (skipCommentsLoop fuel) (skipCommentsLoop fuel) s (fun a b _ => a = b) := by
  induction fuel generalizing s with
  | zero => exact wp2_throw_same _ _ _
  | succ fuel ih =>
    rw [skipCommentsLoop_succ]
    apply wp2_bind
    apply wp2_peekComment
    split
    · apply wp2_bind
      refine wp2_mono (pscan_sim hp s) ?_
      intro l1 l2 t hl
      by_cases hc : l1.tok ≠ .COMMENT
      · have hc' : l2.tok ≠ .COMMENT := by rw [← hl.tok]; exact hc
        rw [if_pos hc, if_pos hc']
        apply wp2_bind
        apply wp2_unscan
        exact wp2_pure _ _ _ _ rfl
      · have hc' : ¬ l2.tok ≠ .COMMENT := by rw [← hl.tok]; exact hc
        rw [if_neg hc, if_neg hc']
        apply wp2_bind
        apply wp2_peekRune
        dsimp only
        apply wp2_ite
        split
        · apply wp2_bind
          refine wp2_mono (consumeWhitespace_sim hp _) ?_
          intro _ _ t2 _
          exact ih t2
        · exact ih _
    · exact wp2_pure _ _ _ _ rfl

theorem parseRegexSkip_sim (s : PState) :
    wp2 p1 p2 parseRegexSkip parseRegexSkip s (fun a b _ => a = b) := by
  unfold parseRegexSkip
  apply wp2_bind
  apply wp2_get
  show wp2 p1 p2 (skipCommentsLoop (s.n + s.r.rest.length + 1) >>= _)
    (skipCommentsLoop (s.n + s.r.rest.length + 1) >>= _) s _
  apply wp2_bind
  refine wp2_mono (skipCommentsLoop_sim hp _ s) ?_
  intro a b t hab
  subst hab
  apply wp2_ite
  split
  · exact wp2_pure _ _ _ _ rfl
  · exact parseRegexTail_sim hp t

theorem parseRegex_sim (s : PState) :
    wp2 p1 p2 parseRegex parseRegex s (fun a b _ => a = b) := by
  rw [parseRegex_eq]
  apply wp2_bind
  apply wp2_get
  show wp2 p1 p2 (if s.n > 0 then pure none else _) (if s.n > 0 then pure none else _) s _
  apply wp2_ite'
  · intro _; exact wp2_pure _ _ _ _ rfl
  intro _
  apply wp2_bind
  apply wp2_peekRune
  dsimp only
  apply wp2_ite
  split
  · apply wp2_bind
    refine wp2_mono (consumeWhitespace_sim hp _) ?_
    intro _ _ t _
    exact parseRegexSkip_sim hp t
  · exact parseRegexSkip_sim hp _

end

/-! ### The expression parser in lock step -/

theorem DRel.refl (p1 p2 : List (Str × BoundValue)) (x : Str) : DRel p1 p2 x x := Or.inl rfl

theorem ERel.rfl' (p1 p2 : List (Str × BoundValue)) (e : Expr) : ERel (DRel p1 p2) e e :=
  ERel.refl_of (DRel.refl p1 p2) e

theorem ERelList.rfl' (p1 p2 : List (Str × BoundValue)) (l : List Expr) : ERelList (DRel p1 p2) l l := by
  refine ⟨rfl, ?_⟩
  induction strsList l with
  | nil => exact All2.nil
  | cons x t ih => exact All2.cons (DRel.refl p1 p2 x) ih

theorem ERelList.single {D : Str → Str → Prop} {a b : Expr} (h : ERel D a b) : ERelList D [a] [b] := by
  constructor
  · show [a.blank] = [b.blank]; rw [h.1]
  · show All2 D (a.strs ++ []) (b.strs ++ [])
    rw [List.append_nil, List.append_nil]; exact h.2

section
variable {p1 p2 : List (Str × BoundValue)}

theorem parseNumberLit_sim (lit : Str) (pos : Pos) (s : PState) :
    wp2 p1 p2 (parseNumberLit lit pos) (parseNumberLit lit pos) s (fun a b _ => a = b) := by
  unfold parseNumberLit
  generalize (2 ^ 1024 - 2 ^ 970 : Nat) = K
  split
  dsimp only
  repeat' (apply wp2_ite' <;> intro _)
  all_goals first
    | exact wp2_failAt _ _ _ _ _ _
    | exact wp2_pure _ _ _ _ rfl

theorem parseIntegerLit_sim (lit : Str) (pos : Pos) (s : PState) :
    wp2 p1 p2 (parseIntegerLit lit pos) (parseIntegerLit lit pos) s (fun a b _ => a = b) := by
  unfold parseIntegerLit
  split
  dsimp only
  repeat' (apply wp2_ite' <;> intro _)
  all_goals first
    | exact wp2_failAt _ _ _ _ _ _
    | exact wp2_pure _ _ _ _ rfl

end

def SimE (p1 p2 : List (Str × BoundValue)) (F : Nat) : Prop :=
  ∀ s, wp2 p1 p2 (parseExpr F) (parseExpr F) s (fun a b _ => ERel (DRel p1 p2) a b)
def SimL (p1 p2 : List (Str × BoundValue)) (F : Nat) : Prop :=
  ∀ s r1 r2, ERel (DRel p1 p2) r1 r2 →
    wp2 p1 p2 (exprLoop F r1) (exprLoop F r2) s (fun a b _ => ERel (DRel p1 p2) a b)
def SimU (p1 p2 : List (Str × BoundValue)) (F : Nat) : Prop :=
  ∀ s, wp2 p1 p2 (parseUnaryExpr F) (parseUnaryExpr F) s (fun a b _ => ERel (DRel p1 p2) a b)
def SimC (p1 p2 : List (Str × BoundValue)) (F : Nat) : Prop :=
  ∀ s name, wp2 p1 p2 (parseCall F name) (parseCall F name) s (fun a b _ => ERel (DRel p1 p2) a b)
def SimA (p1 p2 : List (Str × BoundValue)) (F : Nat) : Prop :=
  ∀ s name a1 a2, ERelList (DRel p1 p2) a1 a2 →
    wp2 p1 p2 (callArgs F name a1) (callArgs F name a2) s (fun a b _ => ERel (DRel p1 p2) a b)

section
variable {p1 p2 : List (Str × BoundValue)} (hp : ParamsRel p1 p2)
include hp

theorem simE_step (F : Nat) (ihU : SimU p1 p2 F) (ihL : SimL p1 p2 F) : SimE p1 p2 (F + 1) := by
  intro s
  rw [parseExpr]
  apply wp2_bind
  refine wp2_mono (ihU s) ?_
  intro a b t h
  exact ihL t a b h

theorem simL_step (F : Nat) (ihU : SimU p1 p2 F) (ihL : SimL p1 p2 F) : SimL p1 p2 (F + 1) := by
  intro s r1 r2 hr
  rw [exprLoop, exprLoop]
  apply wp2_bind
  refine wp2_mono (scanIW_sim hp s) ?_
  intro o1 o2 t hl
  have htok := hl.tok
  by_cases hop : (!o1.tok.isOperator) = true
  · have hop' : (!o2.tok.isOperator) = true := by rw [← htok]; exact hop
    rw [if_pos hop, if_pos hop']
    apply wp2_bind
    apply wp2_unscan
    exact wp2_pure _ _ _ _ hr
  · have hop' : ¬ (!o2.tok.isOperator) = true := by rw [← htok]; exact hop
    rw [if_neg hop, if_neg hop']
    dsimp only
    rw [← htok]
    by_cases hre : o1.tok.isRegexOp = true
    · rw [if_pos hre, if_pos hre]
      apply wp2_bind
      refine wp2_mono (parseRegex_sim hp t) ?_
      intro x y t2 hxy
      subst hxy
      cases x with
      | some re =>
        dsimp only
        apply wp2_bind
        apply wp2_pure
        exact ihL t2 _ _ (ERel.insertOp _ hr (ERel.rfl' p1 p2 re))
      | none =>
        dsimp only
        apply wp2_bind
        refine wp2_mono (scanIW_sim hp t2) ?_
        intro l1 l2 t3 _
        apply wp2_bind
        exact wp2_failFound _ _ _ _ _ _
    · rw [if_neg hre, if_neg hre]
      apply wp2_bind
      refine wp2_mono (ihU t) ?_
      intro x y t2 hxy
      exact ihL t2 _ _ (ERel.insertOp _ hr hxy)

theorem simA_step (F : Nat) (ihE : SimE p1 p2 F) (ihA : SimA p1 p2 F) : SimA p1 p2 (F + 1) := by
  intro s name a1 a2 ha
  rw [callArgs, callArgs]
  apply wp2_bind
  refine wp2_mono (scanIW_sim hp s) ?_
  intro l1 l2 t hl
  by_cases hc : l1.tok ≠ .COMMA
  · have hc' : l2.tok ≠ .COMMA := by rw [← hl.tok]; exact hc
    rw [if_pos hc, if_pos hc']
    apply wp2_bind
    apply wp2_unscan
    apply wp2_bind
    refine wp2_mono (pscan_sim hp _) ?_
    intro c1 c2 t2 hcl
    dsimp only
    by_cases hr : c1.tok ≠ .RPAREN
    · have hr' : c2.tok ≠ .RPAREN := by rw [← hcl.tok]; exact hr
      rw [if_pos hr, if_pos hr']
      apply wp2_bind
      exact wp2_failFound _ _ _ _ _ _
    · have hr' : ¬ c2.tok ≠ .RPAREN := by rw [← hcl.tok]; exact hr
      rw [if_neg hr, if_neg hr']
      exact wp2_pure _ _ _ _ (ERel.call name ha)
  · have hc' : ¬ l2.tok ≠ .COMMA := by rw [← hl.tok]; exact hc
    rw [if_neg hc, if_neg hc']
    apply wp2_bind
    refine wp2_mono (parseRegex_sim hp t) ?_
    intro x y t2 hxy
    subst hxy
    cases x with
    | some re =>
      dsimp only
      exact ihA t2 name _ _ (ha.snoc (ERel.rfl' p1 p2 re))
    | none =>
      dsimp only
      apply wp2_bind
      refine wp2_mono (ihE t2) ?_
      intro x y t3 hxy
      exact ihA t3 name _ _ (ha.snoc hxy)

theorem simC_step (F : Nat) (ihE : SimE p1 p2 F) (ihA : SimA p1 p2 F) : SimC p1 p2 (F + 1) := by
  intro s name
  rw [parseCall]
  apply wp2_bind
  apply wp2_get
  dsimp only [withP]
  apply wp2_bind
  refine wp2_mono (parseRegex_sim hp s) ?_
  intro x y t hxy
  subst hxy
  cases x with
  | some re =>
    dsimp only
    exact ihA t _ _ _ (ERelList.rfl' p1 p2 [re])
  | none =>
    dsimp only
    apply wp2_bind
    refine wp2_mono (pscan_sim hp t) ?_
    intro l1 l2 t2 hl
    by_cases hr : l1.tok = .RPAREN
    · have hr' : l2.tok = .RPAREN := by rw [← hl.tok]; exact hr
      rw [if_pos hr, if_pos hr']
      exact wp2_pure _ _ _ _ (ERel.rfl' p1 p2 _)
    · have hr' : ¬ l2.tok = .RPAREN := by rw [← hl.tok]; exact hr
      rw [if_neg hr, if_neg hr']
      apply wp2_bind
      apply wp2_unscan
      apply wp2_bind
      refine wp2_mono (ihE _) ?_
      intro a b t3 hab
      exact ihA t3 _ _ _ (ERelList.single hab)

end

section
variable {p1 p2 : List (Str × BoundValue)} (hp : ParamsRel p1 p2)
include hp

/-- The `switch lit := lit.(type)` after a unary sign, on two related operands. -/
theorem signMatch_sim (c : Prop) [Decidable c] (mul : Int) (lit1 lit2 : Expr) (s : PState) :
    ERel (DRel p1 p2) lit1 lit2 →
    wp2 p1 p2
      (match lit1 with
        | .number v => pure (.number (if c then { v with neg := !v.neg } else v))
        | .integer v => pure (.integer (wrap64 (v * mul)))
        | .unsigned v =>
          if c then
            if v = 9223372036854775808 then pure (.integer minInt64)
            else failPlain ("constant -".toList ++ natDigits v ++ " underflows int64".toList)
          else pure (.unsigned v)
        | .duration v => pure (.duration (wrap64 (v * mul)))
        | .varRef .. | .call .. | .paren .. => pure (.binary .MUL (.integer mul) lit1)
        | _ => throw (.panic "unexpected literal".toList) : P Expr)
      (match lit2 with
        | .number v => pure (.number (if c then { v with neg := !v.neg } else v))
        | .integer v => pure (.integer (wrap64 (v * mul)))
        | .unsigned v =>
          if c then
            if v = 9223372036854775808 then pure (.integer minInt64)
            else failPlain ("constant -".toList ++ natDigits v ++ " underflows int64".toList)
          else pure (.unsigned v)
        | .duration v => pure (.duration (wrap64 (v * mul)))
        | .varRef .. | .call .. | .paren .. => pure (.binary .MUL (.integer mul) lit2)
        | _ => throw (.panic "unexpected literal".toList) : P Expr)
      s (fun a b _ => ERel (DRel p1 p2) a b) := by
  intro he
  have hb := he.1
  cases lit1 <;> cases lit2 <;> simp only [Expr.blank, reduceCtorEq, Expr.binary.injEq, Expr.paren.injEq,
    Expr.call.injEq, Expr.varRef.injEq, Expr.distinct.injEq, Expr.wildcard.injEq, Expr.regex.injEq,
    Expr.string.injEq, Expr.number.injEq, Expr.integer.injEq, Expr.unsigned.injEq, Expr.boolean.injEq,
    Expr.duration.injEq, Expr.time.injEq, Expr.list.injEq, Expr.boundParam.injEq] at hb
  all_goals first
    | exact wp2_throw_same _ _ _
    | (subst hb; exact wp2_pure _ _ _ _ (ERel.rfl' p1 p2 _))
    | (obtain ⟨h1, h2⟩ := hb; subst h1 h2; exact wp2_pure _ _ _ _ (ERel.rfl' p1 p2 _))
    | exact wp2_pure _ _ _ _ (ERel.binary _ (ERel.rfl' p1 p2 _) he)
    | (subst hb
       dsimp only
       repeat' (apply wp2_ite' <;> intro _)
       all_goals first
         | exact wp2_pure _ _ _ _ (ERel.rfl' p1 p2 _)
         | exact wp2_failPlain _ _ _ _)

end

section
variable {p1 p2 : List (Str × BoundValue)} (hp : ParamsRel p1 p2)
include hp

theorem simU_step (F : Nat) (ihE : SimE p1 p2 F) (ihU : SimU p1 p2 F) (ihC : SimC p1 p2 F) :
    SimU p1 p2 (F + 1) := by
  intro s
  rw [parseUnaryExpr]
  apply wp2_bind
  refine wp2_mono (scanIW_sim hp s) ?_
  intro a1 a2 s1 ha
  by_cases hlp : a1.tok = .LPAREN
  · have hlp' : a2.tok = .LPAREN := by rw [← ha.tok]; exact hlp
    rw [if_pos hlp, if_pos hlp']
    apply wp2_bind
    refine wp2_mono (ihE s1) ?_
    intro e1 e2 s2 he
    apply wp2_bind
    refine wp2_mono (scanIW_sim hp s2) ?_
    intro c1 c2 s3 hc
    dsimp only
    by_cases hr : c1.tok ≠ .RPAREN
    · have hr' : c2.tok ≠ .RPAREN := by rw [← hc.tok]; exact hr
      rw [if_pos hr, if_pos hr']
      apply wp2_bind
      exact wp2_failFound _ _ _ _ _ _
    · have hr' : ¬ c2.tok ≠ .RPAREN := by rw [← hc.tok]; exact hr
      rw [if_neg hr, if_neg hr']
      exact wp2_pure _ _ _ _ (ERel.paren he)
  · have hlp' : ¬ a2.tok = .LPAREN := by rw [← ha.tok]; exact hlp
    rw [if_neg hlp, if_neg hlp']
    apply wp2_bind
    apply wp2_unscan
    apply wp2_bind
    refine wp2_mono (scanIW_sim hp _) ?_
    intro l1 l2 t hl
    have htok : l2.tok = l1.tok := hl.tok.symm
    simp only [htok]
    generalize hk : l1.tok = k
    have hlit : k ≠ .STRING → l1.lit = l2.lit := fun h => hl.lit (by rw [hk]; exact h)
    cases k with
    | IDENT =>
      dsimp only
      rw [← hlit (by decide)]
      apply wp2_bind
      refine wp2_mono (pscan_sim hp t) ?_
      intro u1 u2 t2 hu
      by_cases h : u1.tok = .LPAREN
      · have h' : u2.tok = .LPAREN := by rw [← hu.tok]; exact h
        rw [if_pos h, if_pos h']
        exact ihC t2 _
      · have h' : ¬ u2.tok = .LPAREN := by rw [← hu.tok]; exact h
        rw [if_neg h, if_neg h']
        apply wp2_bind
        apply wp2_unscan
        apply wp2_bind
        apply wp2_unscan
        refine wp2_mono (parseVarRef_sim hp _) ?_
        intro x y _ hxy
        subst hxy
        exact ERel.rfl' p1 p2 x
    | DISTINCT =>
      dsimp only
      apply wp2_bind
      refine wp2_mono (pscan_sim hp t) ?_
      intro u1 u2 t2 hu
      by_cases h : u1.tok = .LPAREN
      · have h' : u2.tok = .LPAREN := by rw [← hu.tok]; exact h
        rw [if_pos h, if_pos h']
        exact ihC t2 _
      · have h' : ¬ u2.tok = .LPAREN := by rw [← hu.tok]; exact h
        rw [if_neg h, if_neg h']
        by_cases hw : u1.tok = .WS
        · have hw' : u2.tok = .WS := by rw [← hu.tok]; exact hw
          rw [if_pos hw, if_pos hw']
          apply wp2_bind
          refine wp2_mono (scanIW_sim hp t2) ?_
          intro v1 v2 t3 hv
          by_cases hi : v1.tok ≠ .IDENT
          · have hi' : v2.tok ≠ .IDENT := by rw [← hv.tok]; exact hi
            rw [if_pos hi, if_pos hi']
            apply wp2_bind
            exact wp2_failFound _ _ _ _ _ _
          · have hi' : ¬ v2.tok ≠ .IDENT := by rw [← hv.tok]; exact hi
            rw [if_neg hi, if_neg hi']
            have hid : v1.tok = .IDENT := by simpa using hi
            rw [hv.lit (by rw [hid]; decide)]
            exact wp2_pure _ _ _ _ (ERel.rfl' p1 p2 _)
        · have hw' : ¬ u2.tok = .WS := by rw [← hu.tok]; exact hw
          rw [if_neg hw, if_neg hw']
          exact wp2_failFound _ _ _ _ _ _
    | STRING =>
      refine wp2_pure _ _ _ _ ⟨rfl, ?_⟩
      show All2 (DRel p1 p2) [l1.lit] [l2.lit]
      exact All2.cons hl.drel All2.nil
    | NUMBER =>
      dsimp only
      rw [← hlit (by decide), ← hl.pos]
      refine wp2_mono (parseNumberLit_sim _ _ t) ?_
      intro x y _ hxy
      subst hxy
      exact ERel.rfl' p1 p2 x
    | INTEGER =>
      dsimp only
      rw [← hlit (by decide), ← hl.pos]
      refine wp2_mono (parseIntegerLit_sim _ _ t) ?_
      intro x y _ hxy
      subst hxy
      exact ERel.rfl' p1 p2 x
    | TRUE => exact wp2_pure _ _ _ _ (ERel.rfl' p1 p2 _)
    | FALSE => exact wp2_pure _ _ _ _ (ERel.rfl' p1 p2 _)
    | DURATIONVAL =>
      dsimp only
      rw [← hlit (by decide)]
      cases parseDuration l1.lit with
      | ok v => exact wp2_pure _ _ _ _ (ERel.rfl' p1 p2 _)
      | error e => exact wp2_failPlain _ _ _ _
    | MUL =>
      dsimp only
      apply wp2_bind
      refine wp2_mono (pscan_sim hp t) ?_
      intro u1 u2 t2 hu
      by_cases h : u1.tok = .DOUBLECOLON
      · have h' : u2.tok = .DOUBLECOLON := by rw [← hu.tok]; exact h
        rw [if_pos h, if_pos h']
        apply wp2_bind
        refine wp2_mono (pscan_sim hp t2) ?_
        intro v1 v2 t3 hv
        rw [← hv.tok]
        apply wp2_ite'
        · intro _; exact wp2_pure _ _ _ _ (ERel.rfl' p1 p2 _)
        · intro _; exact wp2_failFound _ _ _ _ _ _
      · have h' : ¬ u2.tok = .DOUBLECOLON := by rw [← hu.tok]; exact h
        rw [if_neg h, if_neg h']
        apply wp2_bind
        apply wp2_unscan
        exact wp2_pure _ _ _ _ (ERel.rfl' p1 p2 _)
    | REGEX =>
      dsimp only
      rw [← hlit (by decide)]
      exact wp2_pure _ _ _ _ (ERel.rfl' p1 p2 _)
    | BOUNDPARAM =>
      dsimp only
      rw [← hlit (by decide)]
      apply wp2_ite'
      · intro _; exact wp2_failPlain _ _ _ _
      · intro _
        apply wp2_bind
        apply wp2_get
        dsimp only [withP]
        cases lookupParam (trimDollar l1.lit) p1 <;> cases lookupParam (trimDollar l1.lit) p2 <;>
          exact wp2_failPlain _ _ _ _
    | ADD =>
      dsimp only
      apply wp2_bind
      refine wp2_mono (scanIW_sim hp t) ?_
      intro u1 u2 t2 hu
      rw [← hu.tok]
      apply wp2_ite'
      · intro _
        apply wp2_bind
        apply wp2_unscan
        apply wp2_bind
        refine wp2_mono (ihU _) ?_
        intro x y t3 hxy
        exact signMatch_sim hp _ _ x y t3 hxy
      · intro _; exact wp2_failFound _ _ _ _ _ _
    | SUB =>
      dsimp only
      apply wp2_bind
      refine wp2_mono (scanIW_sim hp t) ?_
      intro u1 u2 t2 hu
      rw [← hu.tok]
      apply wp2_ite'
      · intro _
        apply wp2_bind
        apply wp2_unscan
        apply wp2_bind
        refine wp2_mono (ihU _) ?_
        intro x y t3 hxy
        exact signMatch_sim hp _ _ x y t3 hxy
      · intro _; exact wp2_failFound _ _ _ _ _ _
    | _ => exact wp2_failFound _ _ _ _ _ _

end

/-- **Lock-step simulation of the expression parser** under two related parameter maps. -/
theorem expr_sim {p1 p2 : List (Str × BoundValue)} (hp : ParamsRel p1 p2) (F : Nat) :
    SimE p1 p2 F ∧ SimL p1 p2 F ∧ SimU p1 p2 F ∧ SimC p1 p2 F ∧ SimA p1 p2 F := by
  induction F with
  | zero =>
    refine ⟨?_, ?_, ?_, ?_, ?_⟩
    · intro s; rw [parseExpr]; exact wp2_throw_same _ _ _
    · intro s r1 r2 _; rw [exprLoop, exprLoop]; exact wp2_throw_same _ _ _
    · intro s; rw [parseUnaryExpr]; exact wp2_throw_same _ _ _
    · intro s name; rw [parseCall]; exact wp2_throw_same _ _ _
    · intro s name a1 a2 _; rw [callArgs, callArgs]; exact wp2_throw_same _ _ _
  | succ F ih =>
    obtain ⟨ihE, ihL, ihU, ihC, ihA⟩ := ih
    exact ⟨simE_step hp F ihU ihL, simL_step hp F ihU ihL, simU_step hp F ihE ihU ihC,
      simC_step hp F ihE ihA, simA_step hp F ihE ihA⟩

/-- Two parses of the same text with related parameter maps: both succeed with trees equal up
to string contents (the contents pairwise related by the maps), or both fail in the same way. -/
theorem parseExprText_sim {p1 p2 : List (Str × BoundValue)} (hp : ParamsRel p1 p2) (text : Str)
    (tbl : List (Char × Char)) :
    match parseExprText text p1 tbl, parseExprText text p2 tbl with
    | .ok e1, .ok e2 => ERel (DRel p1 p2) e1 e2
    | .error f1, .error f2 => FRel f1 f2
    | _, _ => False := by
  have h := (expr_sim hp (fuelFor text)).1 (PState.init text [] tbl)
  unfold wp2 at h
  have e1 : withP (PState.init text [] tbl) p1 = PState.init text p1 tbl := rfl
  have e2 : withP (PState.init text [] tbl) p2 = PState.init text p2 tbl := rfl
  rw [e1, e2] at h
  unfold parseExprText
  show match (Prod.fst <$> (parseExpr (fuelFor text)).run (PState.init text p1 tbl)),
      (Prod.fst <$> (parseExpr (fuelFor text)).run (PState.init text p2 tbl)) with
    | .ok e1, .ok e2 => ERel (DRel p1 p2) e1 e2
    | .error f1, .error f2 => FRel f1 f2
    | _, _ => False
  cases h1 : (parseExpr (fuelFor text)).run (PState.init text p1 tbl) with
  | error f1 =>
    cases h2 : (parseExpr (fuelFor text)).run (PState.init text p2 tbl) with
    | error f2 => rw [h1, h2] at h; exact h
    | ok q => rw [h1, h2] at h; exact h.elim
  | ok q1 =>
    obtain ⟨a1, t1⟩ := q1
    cases h2 : (parseExpr (fuelFor text)).run (PState.init text p2 tbl) with
    | error f2 => rw [h1, h2] at h; exact h.elim
    | ok q2 =>
      obtain ⟨a2, t2⟩ := q2
      rw [h1, h2] at h
      obtain ⟨_, _, _, hq⟩ := h
      exact hq

end InfluxQL

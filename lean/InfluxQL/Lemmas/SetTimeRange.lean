import InfluxQL.Lemmas.Cond
import InfluxQL.Lemmas.Digits
import InfluxQL.Model.SetTimeRangeSpec
/-
Helper lemmas for C18: what `rewriteNoTime` does on the class, `creduce` on the rewritten
condition, the shape of the condition after one `SetTimeRange`, and the iteration. The last two
sections are about the text route of the previous implementation only (`textRoute`): the text it
built is the print of the tree the current code builds.
-/
namespace InfluxQL
open Gen
open InfluxQL.CondTime

/-! ### residuals without time -/

theorem isResTF_cases (tbl : List (Char × Char)) (e : Expr) (h : isResTF tbl e = true) :
    (∃ b, e = .boolean b) ∨ (∃ op l r, e = .binary op l r) ∨ (∃ x, e = .paren x) := by
  cases e <;> simp [isResTF] at h <;> simp

theorem isResTF_not_timeRef (tbl : List (Char × Char)) (e : Expr) (h : isResTF tbl e = true) :
    isTimeRef tbl e = false := by
  rcases isResTF_cases tbl e h with ⟨b, rfl⟩ | ⟨op, l, r, rfl⟩ | ⟨x, rfl⟩ <;> simp [isTimeRef]

mutual
  /-- The rewrite leaves references, literals and calls over them alone. -/
  theorem rewriteNoTime_inert (tbl : List (Char × Char)) : ∀ (e : Expr), isInert e = true → rewriteNoTime tbl e = e
    | .call n args, h => by
      simp only [isInert, Bool.and_eq_true] at h
      rw [rewriteNoTime, rewriteArgs_inert tbl args h.2]
    | .varRef .., _ | .string _, _ | .number _, _ | .integer _, _ | .unsigned _, _ | .boolean _, _
    | .duration _, _ | .regex _, _ => by simp [rewriteNoTime]
    | .binary .., h | .paren _, h | .distinct _, h | .wildcard _, h | .time _, h | .nil, h
    | .list _, h | .boundParam _, h => by simp [isInert] at h
  theorem rewriteArgs_inert (tbl : List (Char × Char)) : ∀ (args : List Expr), isInertArgs args = true →
      rewriteArgs tbl args = args
    | [], _ => by simp [rewriteArgs]
    | a :: rest, h => by
      simp only [isInertArgs, Bool.and_eq_true] at h
      rw [rewriteArgs, rewriteNoTime_inert tbl a h.1, rewriteArgs_inert tbl rest h.2]
end

theorem stable_inert (l r : Expr) (h : stablePred l r = true) : isInert l = true ∧ isInert r = true := by
  simp only [stablePred, Bool.or_eq_true, Bool.and_eq_true] at h
  rcases h with ⟨a, b⟩ | ⟨a, b⟩
  · exact ⟨isRef_inert l a, b⟩
  · exact ⟨a, isRef_inert r b⟩

/-- `rewriteNoTime` does nothing to a condition without time bounds. -/
theorem rewriteNoTime_resTF (tbl : List (Char × Char)) : ∀ (x : Expr), isResTF tbl x = true → rewriteNoTime tbl x = x
  | .binary op l r, h => by
    by_cases hop : op = .AND ∨ op = .OR
    · simp only [isResTF, hop, if_true, Bool.and_eq_true] at h
      have ihl := rewriteNoTime_resTF tbl l h.1
      have ihr := rewriteNoTime_resTF tbl r h.2
      simp only [rewriteNoTime, ihl, ihr, isResTF_not_timeRef tbl l h.1, isResTF_not_timeRef tbl r h.2,
        Bool.false_eq_true, or_self, if_false]
    · simp only [isResTF, hop, if_false, Bool.and_eq_true, Bool.not_eq_true'] at h
      obtain ⟨⟨⟨_, hs⟩, hl⟩, hr⟩ := h
      have hi := stable_inert l r hs
      simp only [rewriteNoTime, rewriteNoTime_inert tbl l hi.1, rewriteNoTime_inert tbl r hi.2, hl, hr,
        Bool.false_eq_true, or_self, if_false]
  | .paren e, h => by
    simp only [isResTF] at h
    simp only [rewriteNoTime, rewriteNoTime_resTF tbl e h]
  | .boolean b, _ => by simp [rewriteNoTime]
  | .call .., h | .varRef .., h | .distinct .., h | .wildcard .., h | .regex .., h | .string .., h
  | .number .., h | .integer .., h | .unsigned .., h | .duration .., h | .time .., h | .nil, h
  | .list .., h | .boundParam .., h => by simp [isResTF] at h

theorem isResTF_isRes (tbl : List (Char × Char)) : ∀ (x : Expr), isResTF tbl x = true → isRes x = true
  | .binary op l r, h => by
    by_cases hop : op = .AND ∨ op = .OR
    · simp only [isResTF, hop, if_true, Bool.and_eq_true] at h
      simp only [isRes, hop, if_true, Bool.and_eq_true]
      exact ⟨isResTF_isRes tbl l h.1, isResTF_isRes tbl r h.2⟩
    · simp only [isResTF, hop, if_false, Bool.and_eq_true] at h
      simp only [isRes, hop, if_false]
      exact h.1.1.2
  | .paren e, h => by
    simp only [isResTF] at h
    simp only [isRes]
    exact isResTF_isRes tbl e h
  | .boolean b, _ => by simp [isRes]
  | .call .., h | .varRef .., h | .distinct .., h | .wildcard .., h | .regex .., h | .string .., h
  | .number .., h | .integer .., h | .unsigned .., h | .duration .., h | .time .., h | .nil, h
  | .list .., h | .boundParam .., h => by simp [isResTF] at h

theorem isResTF_timeFree (tbl : List (Char × Char)) : ∀ (x : Expr), isResTF tbl x = true → timeFree tbl x = true
  | .binary op l r, h => by
    by_cases hop : op = .AND ∨ op = .OR
    · simp only [isResTF, hop, if_true, Bool.and_eq_true] at h
      simp only [timeFree, hop, if_true, Bool.and_eq_true]
      exact ⟨isResTF_timeFree tbl l h.1, isResTF_timeFree tbl r h.2⟩
    · simp only [isResTF, hop, if_false, Bool.and_eq_true] at h
      simp only [timeFree, hop, if_false, Bool.and_eq_true]
      exact ⟨h.1.2, h.2⟩
  | .paren e, h => by
    simp only [isResTF] at h
    simp only [timeFree]
    exact isResTF_timeFree tbl e h
  | .boolean b, _ => by simp [timeFree]
  | .call .., h | .varRef .., h | .distinct .., h | .wildcard .., h | .regex .., h | .string .., h
  | .number .., h | .integer .., h | .unsigned .., h | .duration .., h | .time .., h | .nil, h
  | .list .., h | .boundParam .., h => by simp [isResTF] at h

theorem isResTF_strClass (tbl : List (Char × Char)) : ∀ (x : Expr), isResTF tbl x = true → strClass tbl x = true
  | .binary op l r, h => by
    by_cases hand : op = .AND
    · subst hand
      simp only [isResTF, true_or, if_true, Bool.and_eq_true] at h
      simp only [strClass, if_true, Bool.and_eq_true]
      exact ⟨isResTF_strClass tbl l h.1, isResTF_strClass tbl r h.2⟩
    · by_cases hor : op = .OR
      · subst hor
        simp only [isResTF, or_true, if_true, Bool.and_eq_true] at h
        simp only [strClass, hand, if_false, if_true, Bool.and_eq_true]
        exact ⟨⟨⟨isResTF_strClass tbl l h.1, isResTF_strClass tbl r h.2⟩, isResTF_timeFree tbl l h.1⟩, isResTF_timeFree tbl r h.2⟩
      · have hop : ¬ (op = .AND ∨ op = .OR) := fun h => h.elim hand hor
        simp only [isResTF, hop, if_false, Bool.and_eq_true, Bool.not_eq_true'] at h
        obtain ⟨⟨⟨hp, hs⟩, hl⟩, hr⟩ := h
        simp [strClass, hand, hor, hl, hr, hp, hs]
  | .paren e, h => by
    simp only [isResTF] at h
    simp only [strClass]
    exact isResTF_strClass tbl e h
  | .boolean b, _ => by simp [strClass]
  | .call .., h | .varRef .., h | .distinct .., h | .wildcard .., h | .regex .., h | .string .., h
  | .number .., h | .integer .., h | .unsigned .., h | .duration .., h | .time .., h | .nil, h
  | .list .., h | .boundParam .., h => by simp [isResTF] at h



/-! ### the rewrite on the class -/

theorem isTimeRef_varRef (tbl : List (Char × Char)) (l : Expr) (h : isTimeRef tbl l = true) :
    ∃ v t, l = .varRef v t := by
  cases l <;> simp [isTimeRef] at h
  exact ⟨_, _, rfl⟩

/-- On the class, `rewriteNoTime` replaces exactly the time bounds by `true`: the result has no
reference to time and its value is the non-time part of the condition. -/
theorem rewrite_strClass (tbl : List (Char × Char)) (L : Expr → Bool) : ∀ (c : Expr), strClass tbl c = true →
    isResTF tbl (rewriteNoTime tbl c) = true ∧ evalB L (rewriteNoTime tbl c) = nonTimeHolds tbl L c
  | .binary op l r, h => by
    by_cases hand : op = .AND
    · subst hand
      simp only [strClass, if_true, Bool.and_eq_true] at h
      have ihl := rewrite_strClass tbl L l h.1
      have ihr := rewrite_strClass tbl L r h.2
      simp only [rewriteNoTime, isResTF_not_timeRef tbl _ ihl.1, isResTF_not_timeRef tbl _ ihr.1,
        Bool.false_eq_true, or_self, if_false]
      simp [isResTF, evalB, nonTimeHolds, ihl.1, ihr.1, ihl.2, ihr.2]
    · by_cases hor : op = .OR
      · subst hor
        simp only [strClass, hand, if_false, if_true, Bool.and_eq_true] at h
        have ihl := rewrite_strClass tbl L l h.1.1.1
        have ihr := rewrite_strClass tbl L r h.1.1.2
        simp only [rewriteNoTime, isResTF_not_timeRef tbl _ ihl.1, isResTF_not_timeRef tbl _ ihr.1,
          Bool.false_eq_true, or_self, if_false]
        simp [isResTF, evalB, nonTimeHolds, ihl.1, ihr.1, ihl.2, ihr.2]
      · simp only [strClass, hand, hor, if_false] at h
        by_cases htl : isTimeRef tbl l = true
        · obtain ⟨v, t, rfl⟩ := isTimeRef_varRef tbl l htl
          have hv : rewriteNoTime tbl (.varRef v t) = .varRef v t := by simp [rewriteNoTime]
          simp only [rewriteNoTime, hv, htl, true_or, if_true]
          simp [isResTF, evalB, nonTimeHolds, hand, hor, htl]
        · have htl' : isTimeRef tbl l = false := by simpa using htl
          by_cases htr : isTimeRef tbl r = true
          · obtain ⟨v, t, rfl⟩ := isTimeRef_varRef tbl r htr
            have hv : rewriteNoTime tbl (.varRef v t) = .varRef v t := by simp [rewriteNoTime]
            simp only [rewriteNoTime, hv, htr, or_true, if_true]
            simp [isResTF, evalB, nonTimeHolds, hand, hor, htr]
          · have htr' : isTimeRef tbl r = false := by simpa using htr
            simp only [htl', htr', Bool.false_eq_true, or_self, if_false, Bool.and_eq_true] at h
            obtain ⟨hp, hs⟩ := h
            have hi := stable_inert l r hs
            simp only [rewriteNoTime, rewriteNoTime_inert tbl l hi.1, rewriteNoTime_inert tbl r hi.2, htl', htr',
              Bool.false_eq_true, or_self, if_false]
            simp [isResTF, evalB, nonTimeHolds, hand, hor, htl', htr', hp, hs]
  | .paren e, h => by
    simp only [strClass] at h
    have ih := rewrite_strClass tbl L e h
    simp [rewriteNoTime, isResTF, evalB, nonTimeHolds, ih.1, ih.2]
  | .boolean b, _ => by simp [rewriteNoTime, isResTF, evalB, nonTimeHolds]
  | .call .., h | .varRef .., h | .distinct .., h | .wildcard .., h | .regex .., h | .string .., h
  | .number .., h | .integer .., h | .unsigned .., h | .duration .., h | .time .., h | .nil, h
  | .list .., h | .boundParam .., h => by simp [strClass] at h

/-- Without time comparisons, the meaning of a condition is its logical skeleton over `L`. -/
theorem holds_timeFree (c : CCtx) (L : Expr → Bool) (t : Int) : ∀ (e : Expr), timeFree c.lowerTbl e = true →
    holds c L t e = evalB L e
  | .binary op l r, h => by
    by_cases hop : op = .AND ∨ op = .OR
    · simp only [timeFree, hop, if_true, Bool.and_eq_true] at h
      have ihl := holds_timeFree c L t l h.1
      have ihr := holds_timeFree c L t r h.2
      rcases hop with rfl | rfl <;> simp [holds, evalB, ihl, ihr]
    · simp only [timeFree, hop, if_false, Bool.and_eq_true, Bool.not_eq_true'] at h
      have hand : op ≠ .AND := fun e => hop (Or.inl e)
      have hor : op ≠ .OR := fun e => hop (Or.inr e)
      simp [holds, evalB, hand, hor, h.1, h.2]
  | .paren e, h => by
    simp only [timeFree] at h
    simp [holds, evalB, holds_timeFree c L t e h]
  | .boolean b, _ => by simp [holds, evalB]
  | .call .., _ | .varRef .., _ | .distinct .., _ | .wildcard .., _ | .regex .., _ | .string .., _
  | .number .., _ | .integer .., _ | .unsigned .., _ | .duration .., _ | .time .., _ | .nil, _
  | .list .., _ | .boundParam .., _ => by simp [holds, evalB]

theorem nonTimeHolds_timeFree (tbl : List (Char × Char)) (L : Expr → Bool) : ∀ (e : Expr), timeFree tbl e = true →
    nonTimeHolds tbl L e = evalB L e
  | .binary op l r, h => by
    by_cases hop : op = .AND ∨ op = .OR
    · simp only [timeFree, hop, if_true, Bool.and_eq_true] at h
      have ihl := nonTimeHolds_timeFree tbl L l h.1
      have ihr := nonTimeHolds_timeFree tbl L r h.2
      rcases hop with rfl | rfl <;> simp [nonTimeHolds, evalB, ihl, ihr]
    · simp only [timeFree, hop, if_false, Bool.and_eq_true, Bool.not_eq_true'] at h
      have hand : op ≠ .AND := fun e => hop (Or.inl e)
      have hor : op ≠ .OR := fun e => hop (Or.inr e)
      simp [nonTimeHolds, evalB, hand, hor, h.1, h.2]
  | .paren e, h => by
    simp only [timeFree] at h
    simp [nonTimeHolds, evalB, nonTimeHolds_timeFree tbl L e h]
  | .boolean b, _ => by simp [nonTimeHolds, evalB]
  | .call .., _ | .varRef .., _ | .distinct .., _ | .wildcard .., _ | .regex .., _ | .string .., _
  | .number .., _ | .integer .., _ | .unsigned .., _ | .duration .., _ | .time .., _ | .nil, _
  | .list .., _ | .boundParam .., _ => by simp [nonTimeHolds, evalB]



/-! ### creduce on conditions without time bounds -/

theorem size_binary (op : Token) (l r : Expr) : (Expr.binary op l r).size = 1 + l.size + r.size := rfl
theorem size_paren (e : Expr) : (Expr.paren e).size = 1 + e.size := rfl
theorem size_boolean (b : Bool) : (Expr.boolean b).size = 1 := rfl
theorem size_varRef (v : Str) (t : DataType) : (Expr.varRef v t).size = 1 := rfl
theorem size_string (s : Str) : (Expr.string s).size = 1 := rfl

theorem size_pos (e : Expr) : 1 ≤ e.size := by
  cases e <;> simp [Expr.size] <;> omega

theorem reduceBin_logical_TF (tbl : List (Char × Char)) (c : RCtx) (op : Token) (a b : Expr)
    (hop : op = .AND ∨ op = .OR) (ha : isResTF tbl a = true) (hb : isResTF tbl b = true) :
    isResTF tbl (reduceBin c op a b) = true ∧ (reduceBin c op a b).size ≤ 1 + a.size + b.size := by
  have pa := size_pos a
  have pb := size_pos b
  rcases isResTF_cases tbl a ha with ⟨x, rfl⟩ | ⟨o1, l1, r1, rfl⟩ | ⟨pa', rfl⟩ <;>
  rcases isResTF_cases tbl b hb with ⟨y, rfl⟩ | ⟨o2, l2, r2, rfl⟩ | ⟨pb', rfl⟩ <;>
  rcases hop with rfl | rfl <;>
  (try cases x) <;> (try cases y) <;>
  simp_all [reduceBin, isResTF, mkBool, size_binary, size_boolean, size_paren] <;> omega

/-- `creduce` keeps a condition without time bounds in that shape and does not enlarge it. -/
theorem reduce_resTF (tbl : List (Char × Char)) (c : RCtx) : ∀ (x : Expr), isResTF tbl x = true →
    isResTF tbl (creduce c x) = true ∧ (creduce c x).size ≤ x.size
  | .binary op l r, h => by
    by_cases hop : op = .AND ∨ op = .OR
    · simp only [isResTF, hop, if_true, Bool.and_eq_true] at h
      have ihl := reduce_resTF tbl c l h.1
      have ihr := reduce_resTF tbl c r h.2
      rw [creduce]
      have := reduceBin_logical_TF tbl c op _ _ hop ihl.1 ihr.1
      refine ⟨this.1, ?_⟩
      rw [size_binary]
      omega
    · have h' := h
      simp only [isResTF, hop, if_false, Bool.and_eq_true] at h
      have hand : op ≠ .AND := fun e => hop (Or.inl e)
      have hor : op ≠ .OR := fun e => hop (Or.inr e)
      rw [reduce_stable c op l r hand hor h.1.1.2]
      exact ⟨h', Nat.le_refl _⟩
  | .paren e, h => by
    simp only [isResTF] at h
    have ih := reduce_resTF tbl c e h
    rw [creduce, size_paren]
    by_cases hb : (creduce c e).isBinary = true
    · simp only [hb, if_true, isResTF, size_paren]
      exact ⟨ih.1, by omega⟩
    · simp only [hb, Bool.false_eq_true, if_false]
      exact ⟨ih.1, by omega⟩
  | .boolean b, _ => by simp [creduce, isResTF]
  | .call .., h | .varRef .., h | .distinct .., h | .wildcard .., h | .regex .., h | .string .., h
  | .number .., h | .integer .., h | .unsigned .., h | .duration .., h | .time .., h | .nil, h
  | .list .., h | .boundParam .., h => by simp [isResTF] at h

theorem reduceBin_and_true (tbl : List (Char × Char)) (c : RCtx) (x : Expr) (h : isResTF tbl x = true) :
    reduceBin c .AND x (.boolean true) = x := by
  rcases isResTF_cases tbl x h with ⟨b, rfl⟩ | ⟨op, l, r, rfl⟩ | ⟨y, rfl⟩
  · cases b <;> simp [reduceBin, mkBool]
  · simp [reduceBin]
  · simp [reduceBin]



/-! ### the parentheses around a top-level OR -/

/-- The grouped tree never has an `OR` at the top: whatever stands left of the appended `AND`
binds at least as tightly as `AND`. -/
theorem topIsOr_groupForAnd (e : Expr) : topIsOr (groupForAnd e) = false := by
  by_cases h : topIsOr e = true
  · rw [groupForAnd, if_pos h]; rfl
  · rw [groupForAnd, if_neg h]; simpa using h

theorem groupForAnd_of_not_or (e : Expr) (h : topIsOr e = false) : groupForAnd e = e := by
  simp [groupForAnd, h]

theorem topIsOr_and (l r : Expr) : topIsOr (.binary .AND l r) = false := by
  simp [topIsOr]

/-- Grouping keeps a time-free residual a time-free residual of the same value, one node larger
at most. -/
theorem groupForAnd_resTF (tbl : List (Char × Char)) (e : Expr) (h : isResTF tbl e = true) :
    isResTF tbl (groupForAnd e) = true ∧ (∀ L, evalB L (groupForAnd e) = evalB L e) ∧
    (groupForAnd e).size = e.size + (if topIsOr e then 1 else 0) := by
  by_cases ho : topIsOr e = true
  · rw [groupForAnd, if_pos ho, if_pos ho]
    refine ⟨by simpa [isResTF] using h, fun L => by simp [evalB], ?_⟩
    rw [size_paren]; omega
  · rw [groupForAnd, if_neg ho, if_neg ho]
    exact ⟨h, fun _ => rfl, by omega⟩

/-! ### the condition after one call -/

/-- The condition after one call, from the reduced non-time part `N`. -/
def build (fa : FloatArith) (N : Expr) (w : Window) : Expr :=
  reduceBin (nilRCtx fa) .AND (reduceBin (nilRCtx fa) .AND N (geBound w.start)) (ltBound w.stop)

theorem stable_bound (s : Str) : stablePred timeVar (.string s) = true := by
  simp [stablePred, timeVar, timeText, isRef, isInert]

theorem reduce_geBound (c : RCtx) (s : Int) : creduce c (geBound s) = geBound s :=
  reduce_stable c .GTE timeVar _ (by decide) (by decide) (stable_bound _)

theorem reduce_ltBound (c : RCtx) (s : Int) : creduce c (ltBound s) = ltBound s :=
  reduce_stable c .LT timeVar _ (by decide) (by decide) (stable_bound _)

/-- `creduce` of the tree `SetTimeRange` builds, in terms of the reduced (grouped) rewritten condition. -/
theorem tree_reduce (fa : FloatArith) (tbl : List (Char × Char)) (c : Expr) (w : Window) :
    creduce (nilRCtx fa) (setTimeRangeTree tbl (some c) w) =
      build fa (creduce (nilRCtx fa) (groupForAnd (rewriteNoTime tbl c))) w := by
  unfold setTimeRangeTree build
  rw [creduce, creduce, reduce_geBound, reduce_ltBound]

/-- The three shapes of the condition after a call. -/
theorem build_cases (tbl : List (Char × Char)) (fa : FloatArith) (N : Expr) (w : Window) (h : isResTF tbl N = true) :
    (N = .boolean true ∧ build fa N w = .binary .AND (geBound w.start) (ltBound w.stop)) ∨
    (N = .boolean false ∧ build fa N w = .boolean false) ∨
    ((∀ b, N ≠ .boolean b) ∧ build fa N w = .binary .AND (.binary .AND N (geBound w.start)) (ltBound w.stop)) := by
  rcases isResTF_cases tbl N h with ⟨b, rfl⟩ | ⟨op, l, r, rfl⟩ | ⟨y, rfl⟩
  · cases b
    · right; left; simp [build, reduceBin, geBound, ltBound, mkBool]
    · left; simp [build, reduceBin, geBound, ltBound]
  · right; right; simp [build, reduceBin, geBound, ltBound]
  · right; right; simp [build, reduceBin, geBound, ltBound]

theorem holds_geBound (c : CCtx) (L : Expr → Bool) (t s : Int) (hT : isTimeRef c.lowerTbl timeVar = true)
    (h1 : isTimeLiteral (formatRFC3339Nano s) = true)
    (h2 : toTimeLiteral (formatRFC3339Nano s) c.r.zoneOpt = some s) :
    holds c L t (geBound s) = decide (s ≤ t) := by
  simp [geBound, holds, hT, instant, h1, h2, cmpInstant]

theorem holds_ltBound (c : CCtx) (L : Expr → Bool) (t s : Int) (hT : isTimeRef c.lowerTbl timeVar = true)
    (h1 : isTimeLiteral (formatRFC3339Nano s) = true)
    (h2 : toTimeLiteral (formatRFC3339Nano s) c.r.zoneOpt = some s) :
    holds c L t (ltBound s) = decide (t < s) := by
  simp [ltBound, holds, hT, instant, h1, h2, cmpInstant]

/-- A comparison with `time` on the left is replaced by `true`, whatever the operator and the
other operand. -/
theorem rewrite_bound (tbl : List (Char × Char)) (op : Token) (x : Expr) (hT : isTimeRef tbl timeVar = true) :
    rewriteNoTime tbl (.binary op timeVar x) = .boolean true := by
  have hv : rewriteNoTime tbl timeVar = timeVar := by simp [rewriteNoTime, timeVar]
  simp only [rewriteNoTime, hv, hT, true_or, if_true]



/-! ### properties of the condition after one call -/

theorem strClass_bound (tbl : List (Char × Char)) (op : Token) (x : Expr) (hand : op ≠ .AND) (hor : op ≠ .OR)
    (hT : isTimeRef tbl timeVar = true) : strClass tbl (.binary op timeVar x) = true := by
  simp [strClass, hand, hor, hT]

theorem nonTimeHolds_bound (tbl : List (Char × Char)) (L : Expr → Bool) (op : Token) (x : Expr)
    (hand : op ≠ .AND) (hor : op ≠ .OR) (hT : isTimeRef tbl timeVar = true) :
    nonTimeHolds tbl L (.binary op timeVar x) = true := by
  simp [nonTimeHolds, hand, hor, hT]

theorem size_geBound (s : Int) : (geBound s).size = 3 := rfl
theorem size_ltBound (s : Int) : (ltBound s).size = 3 := rfl

/-- Everything the later theorems need about the condition after one call. -/
theorem build_spec (ctx : CCtx) (fa : FloatArith) (N : Expr) (w : Window)
    (hN : isResTF ctx.lowerTbl N = true) (hT : isTimeRef ctx.lowerTbl timeVar = true) :
    strClass ctx.lowerTbl (build fa N w) = true ∧
    (∀ L, nonTimeHolds ctx.lowerTbl L (build fa N w) = evalB L N) ∧
    (WindowOK ctx w → ∀ L t, holds ctx L t (build fa N w) = (w.contains t && evalB L N)) ∧
    (build fa N w).size ≤ N.size + 8 ∧
    creduce (nilRCtx fa) (groupForAnd (rewriteNoTime ctx.lowerTbl (build fa N w))) = creduce (nilRCtx fa) N := by
  have hge_tol := strClass_bound ctx.lowerTbl .GTE (.string (formatRFC3339Nano w.start)) (by decide) (by decide) hT
  have hlt_tol := strClass_bound ctx.lowerTbl .LT (.string (formatRFC3339Nano w.stop)) (by decide) (by decide) hT
  have hge_nt := fun L => nonTimeHolds_bound ctx.lowerTbl L .GTE (.string (formatRFC3339Nano w.start)) (by decide) (by decide) hT
  have hlt_nt := fun L => nonTimeHolds_bound ctx.lowerTbl L .LT (.string (formatRFC3339Nano w.stop)) (by decide) (by decide) hT
  have hge_rw : rewriteNoTime ctx.lowerTbl (geBound w.start) = .boolean true := rewrite_bound ctx.lowerTbl .GTE _ hT
  have hlt_rw : rewriteNoTime ctx.lowerTbl (ltBound w.stop) = .boolean true := rewrite_bound ctx.lowerTbl .LT _ hT
  rcases build_cases ctx.lowerTbl fa N w hN with ⟨rfl, hb⟩ | ⟨rfl, hb⟩ | ⟨hnb, hb⟩
  · rw [hb]
    refine ⟨?_, ?_, ?_, ?_, ?_⟩
    · simp only [strClass, if_true, Bool.and_eq_true]; exact ⟨hge_tol, hlt_tol⟩
    · intro L
      simp only [nonTimeHolds, if_true]
      rw [show nonTimeHolds ctx.lowerTbl L (geBound w.start) = true from hge_nt L,
        show nonTimeHolds ctx.lowerTbl L (ltBound w.stop) = true from hlt_nt L]
      simp [evalB]
    · intro hw L t
      obtain ⟨a1, a2, a3, a4⟩ := hw
      rw [holds_logical_and, holds_geBound ctx L t w.start hT a1 a2, holds_ltBound ctx L t w.stop hT a3 a4]
      simp [Window.contains, evalB]
    · rw [size_binary, size_geBound, size_ltBound, size_boolean]; omega
    · have h1 : rewriteNoTime ctx.lowerTbl (.binary .AND (geBound w.start) (ltBound w.stop))
          = .binary .AND (.boolean true) (.boolean true) := by
        rw [rewriteNoTime, hge_rw, hlt_rw]
        simp [isTimeRef]
      rw [h1, groupForAnd_of_not_or _ (topIsOr_and _ _)]
      simp [creduce, reduceBin]
  · rw [hb]
    refine ⟨by simp [strClass], ?_, ?_, ?_, ?_⟩
    · intro L; simp [nonTimeHolds, evalB]
    · intro _ L t; simp [holds, evalB]
    · rw [size_boolean]; omega
    · simp [rewriteNoTime, groupForAnd, topIsOr]
  · rw [hb]
    have hres := isResTF_isRes ctx.lowerTbl N hN
    have htf := isResTF_timeFree ctx.lowerTbl N hN
    refine ⟨?_, ?_, ?_, ?_, ?_⟩
    · simp only [strClass, if_true, Bool.and_eq_true]
      exact ⟨⟨isResTF_strClass ctx.lowerTbl N hN, hge_tol⟩, hlt_tol⟩
    · intro L
      simp only [nonTimeHolds, if_true]
      rw [show nonTimeHolds ctx.lowerTbl L (geBound w.start) = true from hge_nt L,
        show nonTimeHolds ctx.lowerTbl L (ltBound w.stop) = true from hlt_nt L,
        nonTimeHolds_timeFree ctx.lowerTbl L N htf]
      simp
    · intro hw L t
      obtain ⟨a1, a2, a3, a4⟩ := hw
      rw [holds_logical_and, holds_logical_and, holds_geBound ctx L t w.start hT a1 a2,
        holds_ltBound ctx L t w.stop hT a3 a4, holds_timeFree ctx L t N htf]
      simp only [Window.contains]
      cases evalB L N <;> cases decide (w.start ≤ t) <;> cases decide (t < w.stop) <;> rfl
    · rw [size_binary, size_binary, size_geBound, size_ltBound]; omega
    · have hNp := isResTF_not_timeRef ctx.lowerTbl N hN
      have h1 : rewriteNoTime ctx.lowerTbl (.binary .AND (.binary .AND N (geBound w.start)) (ltBound w.stop))
          = .binary .AND (.binary .AND N (.boolean true)) (.boolean true) := by
        have h2 : rewriteNoTime ctx.lowerTbl (.binary .AND N (geBound w.start)) = .binary .AND N (.boolean true) := by
          have hbt : isTimeRef ctx.lowerTbl (.boolean true) = false := rfl
          rw [rewriteNoTime, rewriteNoTime_resTF ctx.lowerTbl N hN, hge_rw]
          simp only [hNp, hbt, Bool.false_eq_true, or_self, if_false]
        rw [rewriteNoTime, h2, hlt_rw]
        simp [isTimeRef]
      rw [h1, groupForAnd_of_not_or _ (topIsOr_and _ _), creduce, creduce]
      have hr := reduce_resTF ctx.lowerTbl (nilRCtx fa) N hN
      have hb1 : creduce (nilRCtx fa) (.boolean true) = .boolean true := by simp [creduce]
      rw [hb1, reduceBin_and_true ctx.lowerTbl _ _ hr.1, reduceBin_and_true ctx.lowerTbl _ _ hr.1]



/-! ### one call under the print-parse hypothesis -/

theorem size_call (n : Str) (args : List Expr) : (Expr.call n args).size = 1 + sizeArgs args := rfl

theorem sizeArgs_cons (a : Expr) (rest : List Expr) : sizeArgs (a :: rest) = a.size + sizeArgs rest := rfl

mutual
  /-- The rewrite only replaces subtrees by the single node `true`. -/
  theorem rewriteNoTime_size (tbl : List (Char × Char)) : ∀ (c : Expr), (rewriteNoTime tbl c).size ≤ c.size
    | .binary op l r => by
      have ihl := rewriteNoTime_size tbl l
      have ihr := rewriteNoTime_size tbl r
      rw [rewriteNoTime, size_binary]
      split
      · rw [size_boolean]; omega
      · rw [size_binary]; omega
    | .paren e => by
      have ih := rewriteNoTime_size tbl e
      rw [rewriteNoTime, size_paren, size_paren]; omega
    | .call n args => by
      have ih := rewriteArgs_size tbl args
      rw [rewriteNoTime, size_call, size_call]; omega
    | .varRef .. | .distinct .. | .wildcard .. | .regex .. | .string ..
    | .number .. | .integer .. | .unsigned .. | .duration .. | .time .. | .nil
    | .list .. | .boundParam .. | .boolean .. => by simp [rewriteNoTime]
  theorem rewriteArgs_size (tbl : List (Char × Char)) : ∀ (args : List Expr),
      sizeArgs (rewriteArgs tbl args) ≤ sizeArgs args
    | [] => by simp [rewriteArgs]
    | a :: rest => by
      have h1 := rewriteNoTime_size tbl a
      have h2 := rewriteArgs_size tbl rest
      rw [rewriteArgs, sizeArgs_cons, sizeArgs_cons]; omega
end

/-- The reduced non-time part of a condition (grouped as `SetTimeRange` prints it). -/
def ntPart (fa : FloatArith) (tbl : List (Char × Char)) (c : Expr) : Expr :=
  creduce (nilRCtx fa) (groupForAnd (rewriteNoTime tbl c))

theorem ntPart_spec (tbl : List (Char × Char)) (fa : FloatArith) (c : Expr) (h : strClass tbl c = true) :
    isResTF tbl (ntPart fa tbl c) = true ∧ (∀ L, evalB L (ntPart fa tbl c) = nonTimeHolds tbl L c) ∧
    (ntPart fa tbl c).size ≤ c.size + parenCost tbl c := by
  have hr := fun L => rewrite_strClass tbl L c h
  have hP := (hr (fun _ => false)).1
  obtain ⟨hG, hGe, hGs⟩ := groupForAnd_resTF tbl _ hP
  have h1 := reduce_resTF tbl (nilRCtx fa) _ hG
  refine ⟨h1.1, ?_, ?_⟩
  · intro L
    rw [ntPart, (reduce_res (nilRCtx fa) L _ (isResTF_isRes tbl _ hG)).2, hGe L, (hr L).2]
  · have := rewriteNoTime_size tbl c
    unfold ntPart parenCost
    omega

/-- `SetTimeRange` computes `stepSpec` — by definition, for every expression and window. -/
theorem setTimeRange_eq (tbl : List (Char × Char)) (fa : FloatArith) (c : Expr) (w : Window) :
    setTimeRange fa tbl (some c) w = .ok (stepSpec fa tbl c w) := rfl

/-- On the class the new condition is `build` of the reduced non-time part (one of the three shapes of
`build_cases`; none is a parenthesis, so `Reduce`'s unwrapping at the top does nothing). -/
theorem stepSpec_eq (fa : FloatArith) (tbl : List (Char × Char)) (c : Expr) (w : Window)
    (hcls : strClass tbl c = true) : stepSpec fa tbl c w = build fa (ntPart fa tbl c) w := by
  unfold stepSpec CReduce
  rw [tree_reduce]
  have hN := (ntPart_spec tbl fa c hcls).1
  show (match build fa (ntPart fa tbl c) w with | .paren inner => inner | r => r) = build fa (ntPart fa tbl c) w
  rcases build_cases tbl fa (ntPart fa tbl c) w hN with ⟨_, hb⟩ | ⟨_, hb⟩ | ⟨_, hb⟩ <;> rw [hb]

mutual
  /-- The rewrite is the identity on an expression none of whose binary nodes has a reference to
  time as an operand — whatever else the expression is made of. -/
  theorem rewriteNoTime_noTimeBound (tbl : List (Char × Char)) : ∀ (e : Expr), noTimeBound tbl e = true →
      rewriteNoTime tbl e = e
    | .binary op l r, h => by
      simp only [noTimeBound, Bool.and_eq_true, Bool.not_eq_true'] at h
      obtain ⟨⟨⟨hl, hr⟩, h1⟩, h2⟩ := h
      simp only [rewriteNoTime, rewriteNoTime_noTimeBound tbl l h1, rewriteNoTime_noTimeBound tbl r h2, hl, hr,
        Bool.false_eq_true, or_self, if_false]
    | .paren e, h => by
      simp only [noTimeBound] at h
      simp only [rewriteNoTime, rewriteNoTime_noTimeBound tbl e h]
    | .call n args, h => by
      simp only [noTimeBound] at h
      rw [rewriteNoTime, rewriteArgs_noTimeBound tbl args h]
    | .varRef .., _ | .distinct .., _ | .wildcard .., _ | .regex .., _ | .string .., _
    | .number .., _ | .integer .., _ | .unsigned .., _ | .duration .., _ | .time .., _ | .nil, _
    | .list .., _ | .boundParam .., _ | .boolean .., _ => by simp [rewriteNoTime]
  theorem rewriteArgs_noTimeBound (tbl : List (Char × Char)) : ∀ (args : List Expr), noTimeBoundArgs tbl args = true →
      rewriteArgs tbl args = args
    | [], _ => by simp [rewriteArgs]
    | a :: rest, h => by
      simp only [noTimeBoundArgs, Bool.and_eq_true] at h
      rw [rewriteArgs, rewriteNoTime_noTimeBound tbl a h.1, rewriteArgs_noTimeBound tbl rest h.2]
end



/-! ### what ConditionExpr observes -/

/-- `conditionExpr` on a condition without time bounds: it succeeds, sets no bound, and returns a
residual of the same value. -/
theorem conditionExpr_resTF (ctx : CCtx) : ∀ (N : Expr), isResTF ctx.lowerTbl N = true →
    ∃ r, conditionExpr ctx N = .ok (some r, {}) ∧ isRes r = true ∧ ∀ L, evalB L r = evalB L N
  | .binary op l r, h => by
    by_cases hop : op = .AND ∨ op = .OR
    · simp only [isResTF, hop, if_true, Bool.and_eq_true] at h
      obtain ⟨rl, hl, hl2, hl3⟩ := conditionExpr_resTF ctx l h.1
      obtain ⟨rr, hr, hr2, hr3⟩ := conditionExpr_resTF ctx r h.2
      have hres : isRes (.binary op rl rr) = true := by simp [isRes, hop, hl2, hr2]
      refine ⟨creduce ctx.nilR (.binary op rl rr), ?_, (reduce_res ctx.nilR (fun _ => false) _ hres).1, ?_⟩
      · rw [conditionExpr]
        simp only [hop, if_true, hl, hr]
        simp [TimeRange.intersect]
      · intro L
        rw [(reduce_res ctx.nilR L _ hres).2]
        exact evalB_logical L op _ _ _ _ hop (hl3 L) (hr3 L)
    · have h' := h
      simp only [isResTF, hop, if_false, Bool.and_eq_true, Bool.not_eq_true'] at h
      obtain ⟨⟨⟨_, hs⟩, htl⟩, htr⟩ := h
      have hand : op ≠ .AND := fun e => hop (Or.inl e)
      have hor : op ≠ .OR := fun e => hop (Or.inr e)
      refine ⟨.binary op l r, ?_, by simp [isRes, hop, hs], fun _ => rfl⟩
      rw [conditionExpr]
      simp only [hop, if_false, htl, htr, Bool.false_eq_true, reduce_stable ctx.r op l r hand hor hs]
  | .paren e, h => by
    simp only [isResTF] at h
    obtain ⟨r, hr, hr2, hr3⟩ := conditionExpr_resTF ctx e h
    have hres : isRes (.paren r) = true := by simp [isRes, hr2]
    refine ⟨creduce ctx.nilR (.paren r), ?_, (reduce_res ctx.nilR (fun _ => false) _ hres).1, ?_⟩
    · rw [conditionExpr]
      simp only [hr]
    · intro L
      rw [(reduce_res ctx.nilR L _ hres).2]
      simp [evalB, hr3 L]
  | .boolean b, _ => ⟨.boolean b, by simp [conditionExpr], by simp [isRes], fun _ => rfl⟩
  | .call .., h | .varRef .., h | .distinct .., h | .wildcard .., h | .regex .., h | .string .., h
  | .number .., h | .integer .., h | .unsigned .., h | .duration .., h | .time .., h | .nil, h
  | .list .., h | .boundParam .., h => by simp [isResTF] at h

/-- The range of `time ⋈ '<instant printed by SetTimeRange>'`. -/
theorem getTimeRange_printed (c : RCtx) (op : Token) (s : Int)
    (h1 : isTimeLiteral (formatRFC3339Nano s) = true)
    (h2 : toTimeLiteral (formatRFC3339Nano s) c.zoneOpt = some s)
    (hlo : minTimeC + 1 ≤ s) (hhi : s ≤ maxTimeC) (tr : TimeRange) (hr : rangeOf op s = some tr) :
    getTimeRange c op (.string (formatRFC3339Nano s)) = .ok tr := by
  unfold getTimeRange
  simp only [h1, if_true, h2, bind, Except.bind, CReduce, creduce]
  have hv : timeValue (.time s) = .ok s := by
    unfold timeValue
    simp only []
    rw [if_neg (by omega), if_neg (by omega)]
  simp [hv, hr]



/-! ### ConditionExpr on the condition after one call -/

/-- The window instants are timestamps a time literal may carry (`MinTime < t ≤ MaxTime`). -/
def Window.inRange (w : Window) : Prop :=
  minTimeC + 1 ≤ w.start ∧ w.start ≤ maxTimeC ∧ minTimeC + 1 ≤ w.stop ∧ w.stop ≤ maxTimeC

theorem conditionExpr_bounds (ctx : CCtx) (w : Window) (hT : isTimeRef ctx.lowerTbl timeVar = true)
    (hw : WindowOK ctx w) (hr : w.inRange) :
    conditionExpr ctx (geBound w.start) = .ok (none, { min := w.start }) ∧
    conditionExpr ctx (ltBound w.stop) = .ok (none, { max := w.stop - 1 }) := by
  obtain ⟨a1, a2, a3, a4⟩ := hw
  obtain ⟨r1, r2, r3, r4⟩ := hr
  constructor
  · rw [geBound, conditionExpr]
    simp only [hT, if_true, show ¬ (Token.GTE = .AND ∨ Token.GTE = .OR) from by decide, if_false]
    rw [getTimeRange_printed ctx.r .GTE w.start a1 a2 r1 r2 _ rfl]
  · rw [ltBound, conditionExpr]
    simp only [hT, if_true, show ¬ (Token.LT = .AND ∨ Token.LT = .OR) from by decide, if_false]
    rw [getTimeRange_printed ctx.r .LT w.stop a3 a4 r3 r4 _ rfl]

/-- What `ConditionExpr` makes of the condition after one call. -/
theorem conditionExpr_build (ctx : CCtx) (fa : FloatArith) (N : Expr) (w : Window)
    (hN : isResTF ctx.lowerTbl N = true) (hT : isTimeRef ctx.lowerTbl timeVar = true)
    (hw : WindowOK ctx w) (hr : w.inRange) :
    ∃ res tr, ConditionExpr ctx (some (build fa N w)) = .ok (res, tr) ∧
      (∀ L, evalOpt L res = evalB L N) ∧
      (N ≠ .boolean false → tr = ⟨w.start, w.stop - 1⟩) ∧
      (N = .boolean false → tr = {}) := by
  obtain ⟨hge, hlt⟩ := conditionExpr_bounds ctx w hT hw hr
  obtain ⟨r1, r2, r3, r4⟩ := hr
  have hs : w.start ≠ zeroTime := by unfold minTimeC minInt64 zeroTime at *; omega
  have he : w.stop - 1 ≠ zeroTime := by unfold minTimeC minInt64 zeroTime at *; omega
  have hi1 : (({} : TimeRange).intersect { min := w.start }) = { min := w.start } := by
    simp [TimeRange.intersect, hs]
  have hi2 : (({ min := w.start } : TimeRange).intersect { max := w.stop - 1 }) = ⟨w.start, w.stop - 1⟩ := by
    simp [TimeRange.intersect, he]
  rcases build_cases ctx.lowerTbl fa N w hN with ⟨rfl, hb⟩ | ⟨rfl, hb⟩ | ⟨hnb, hb⟩
  · refine ⟨none, ⟨w.start, w.stop - 1⟩, ?_, fun L => by simp [evalOpt, evalB], fun _ => rfl, fun h => by cases h⟩
    rw [hb, ConditionExpr, conditionExpr]
    simp only [true_or, if_true, hge, hlt, hi2]
    rfl
  · refine ⟨some (.boolean false), {}, ?_, fun L => by simp [evalOpt, evalB], fun h => absurd rfl h, fun _ => rfl⟩
    rw [hb, ConditionExpr, conditionExpr]
    rfl
  · obtain ⟨r, hr, hr2, hr3⟩ := conditionExpr_resTF ctx N hN
    refine ⟨dropTrue (stripTopParen (some r)), ⟨w.start, w.stop - 1⟩, ?_, ?_, fun _ => rfl, fun h => absurd h (hnb false)⟩
    · rw [hb, ConditionExpr, conditionExpr]
      simp only [true_or, if_true]
      rw [conditionExpr]
      simp only [true_or, if_true, hr, hge, hlt, hi1, hi2]
    · intro L
      rw [strip_preserves, evalOpt, hr3 L]

/-! ### the text route: the text the old code handed to the parser is the print of the tree

A printed instant consists of digits and `- T : . Z`, none of which `QuoteString` escapes; `time`
needs no quotes. So the `fmt.Sprintf` text of the previous `SetTimeRange` is exactly `String()` of
the tree the current code builds (`setTimeRangeTree`). -/

theorem print_paren (e : Expr) : (Expr.paren e).print = ['('] ++ e.print ++ [')'] := rfl

/-- The text `rewriteWithoutTimeDimensions` returns is the print of the grouped tree. -/
theorem rewrittenText_eq_print (tbl : List (Char × Char)) (c : Expr) :
    rewrittenText tbl c = (groupForAnd (rewriteNoTime tbl c)).print := by
  by_cases h : topIsOr (rewriteNoTime tbl c) = true
  · show (if topIsOr (rewriteNoTime tbl c) = true then _ else _) =
      Expr.print (if topIsOr (rewriteNoTime tbl c) = true then _ else _)
    rw [if_pos h, if_pos h, print_paren]
  · show (if topIsOr (rewriteNoTime tbl c) = true then _ else _) =
      Expr.print (if topIsOr (rewriteNoTime tbl c) = true then _ else _)
    rw [if_neg h, if_neg h]

/-- The text handed to the parser starts with the print of the grouped tree. -/
theorem setTimeRangeText_eq (tbl : List (Char × Char)) (c : Expr) (w : Window) :
    setTimeRangeText tbl (some c) w =
      (groupForAnd (rewriteNoTime tbl c)).print ++ [' ', 'A', 'N', 'D', ' '] ++ boundsText w := by
  simp only [setTimeRangeText, rewrittenText_eq_print]


/-- Characters of a printed instant: digits and `- T : . Z`. -/
def tsChar (c : Char) : Bool :=
  isDigit c || c == '-' || c == 'T' || c == ':' || c == '.' || c == 'Z'

theorem tsChar_of_digit (c : Char) (h : isDigit c = true) : tsChar c = true := by
  simp [tsChar, h]

theorem pad_ts (w n : Nat) : ∀ c ∈ pad w n, tsChar c = true := by
  intro c hc
  simp only [pad, List.mem_append, List.mem_replicate] at hc
  rcases hc with ⟨_, rfl⟩ | hc
  · decide
  · exact tsChar_of_digit c (natDigits_all_digits n c hc)

theorem dropTrailingZeros_mem (l : List Char) : ∀ c ∈ dropTrailingZeros l, c ∈ l := by
  intro c hc
  simp only [dropTrailingZeros, List.mem_reverse] at hc
  exact List.mem_reverse.mp ((List.dropWhile_sublist _).subset hc)

def AllTs (l : List Char) : Prop := ∀ c ∈ l, tsChar c = true

theorem allTs_append {a b : List Char} (ha : AllTs a) (hb : AllTs b) : AllTs (a ++ b) := by
  intro c hc
  rcases List.mem_append.mp hc with h | h
  · exact ha c h
  · exact hb c h

theorem allTs_single (c : Char) (h : tsChar c = true) : AllTs [c] := by
  intro x hx
  rw [List.mem_singleton.mp hx]; exact h

theorem allTs_nil : AllTs [] := fun _ h => by cases h

theorem format_ts (ns : Int) : AllTs (formatRFC3339Nano ns) := by
  unfold formatRFC3339Nano
  simp only []
  generalize civilFromDays _ = p
  obtain ⟨y, m, d⟩ := p
  simp only []
  have hfrac : AllTs (if dropTrailingZeros (pad 9 (ns % 1000000000).toNat) = [] then []
      else '.' :: dropTrailingZeros (pad 9 (ns % 1000000000).toNat)) := by
    split
    · exact allTs_nil
    · exact allTs_append (a := ['.']) (allTs_single _ (by decide))
        (fun c hc => pad_ts _ _ c (dropTrailingZeros_mem _ c hc))
  repeat' apply allTs_append
  all_goals first
    | exact pad_ts _ _
    | exact allTs_single _ (by decide)
    | exact hfrac
    | exact fun c hc => tsChar_of_digit c (natDigits_all_digits _ c hc)
    | exact fun c hc => by rw [(List.mem_replicate.mp hc).2]; decide

theorem replaceChar_ts (c : Char) (h : tsChar c = true) : replaceChar qsReplacer c = [c] := by
  have h1 : c ≠ Char.ofNat 0xa := fun e => by subst e; revert h; decide
  have h2 : c ≠ '\\' := fun e => by subst e; revert h; decide
  have h3 : c ≠ '\'' := fun e => by subst e; revert h; decide
  simp [qsReplacer, replaceChar, h1.symm, h2.symm, h3.symm]

theorem replaceAll_ts : ∀ (s : List Char), (∀ c ∈ s, tsChar c = true) → replaceAll qsReplacer s = s
  | [], _ => rfl
  | c :: s, h => by
    have ih := replaceAll_ts s (fun x hx => h x (List.mem_cons_of_mem _ hx))
    have e : replaceAll qsReplacer (c :: s) = replaceChar qsReplacer c ++ replaceAll qsReplacer s :=
      List.flatMap_cons
    rw [e, ih, replaceChar_ts c (h c List.mem_cons_self)]
    exact List.singleton_append

theorem quoteString_format (ns : Int) :
    quoteString (formatRFC3339Nano ns) = ['\''] ++ formatRFC3339Nano ns ++ ['\''] := by
  unfold quoteString
  rw [replaceAll_ts _ (format_ts ns)]
  generalize formatRFC3339Nano ns = f
  rfl

theorem print_binary (op : Token) (l r : Expr) :
    (Expr.binary op l r).print = l.print ++ [' '] ++ op.str ++ [' '] ++ r.print := rfl
theorem print_string (v : Str) : (Expr.string v).print = quoteString v := rfl
theorem print_timeVar : timeVar.print = ['t', 'i', 'm', 'e'] := by decide

/-- The text the old `SetTimeRange` handed to the parser is the print of `setTimeRangeTree`. -/
theorem setTimeRangeText_is_print (tbl : List (Char × Char)) (c : Expr) (w : Window) :
    setTimeRangeText tbl (some c) w = (setTimeRangeTree tbl (some c) w).print := by
  rw [setTimeRangeText_eq]
  unfold setTimeRangeTree geBound ltBound boundsText
  simp only [print_binary, print_string, print_timeVar, quoteString_format]
  have e1 : Token.AND.str = ['A', 'N', 'D'] := by decide
  have e2 : Token.GTE.str = ['>', '='] := by decide
  have e3 : Token.LT.str = ['<'] := by decide
  rw [e1, e2, e3]
  simp [List.append_assoc]

/-! ### comparing trees in the kernel

`Expr` is a nested inductive without `DecidableEq`; `Expr.same` is a structural Boolean comparison
that implies equality, so that statements about concrete trees can be checked with `decide +kernel`. -/

mutual
  def Expr.same : Expr → Expr → Bool
    | .binary o1 l1 r1, b =>
      match b with
      | .binary o2 l2 r2 => decide (o1 = o2) && Expr.same l1 l2 && Expr.same r1 r2
      | _ => false
    | .paren a, b => match b with | .paren b' => Expr.same a b' | _ => false
    | .call n1 a1, b => match b with | .call n2 a2 => decide (n1 = n2) && sameArgs a1 a2 | _ => false
    | .varRef v1 t1, b => match b with | .varRef v2 t2 => decide (v1 = v2) && decide (t1 = t2) | _ => false
    | .distinct a, b => match b with | .distinct b' => decide (a = b') | _ => false
    | .wildcard a, b => match b with | .wildcard b' => decide (a = b') | _ => false
    | .regex a, b => match b with | .regex b' => decide (a = b') | _ => false
    | .string a, b => match b with | .string b' => decide (a = b') | _ => false
    | .number a, b => match b with | .number b' => decide (a = b') | _ => false
    | .integer a, b => match b with | .integer b' => decide (a = b') | _ => false
    | .unsigned a, b => match b with | .unsigned b' => decide (a = b') | _ => false
    | .boolean a, b => match b with | .boolean b' => decide (a = b') | _ => false
    | .duration a, b => match b with | .duration b' => decide (a = b') | _ => false
    | .time a, b => match b with | .time b' => decide (a = b') | _ => false
    | .nil, b => match b with | .nil => true | _ => false
    | .list a, b => match b with | .list b' => decide (a = b') | _ => false
    | .boundParam a, b => match b with | .boundParam b' => decide (a = b') | _ => false
  def sameArgs : List Expr → List Expr → Bool
    | [], bs => match bs with | [] => true | _ => false
    | a :: as, bs => match bs with | b :: bs' => Expr.same a b && sameArgs as bs' | [] => false
end

mutual
  theorem Expr.same_eq : ∀ (a b : Expr), Expr.same a b = true → a = b
    | .binary o1 l1 r1, b, h => by
      cases b <;> simp only [Expr.same, Bool.and_eq_true, decide_eq_true_eq, Bool.false_eq_true] at h
      rw [h.1.1, Expr.same_eq l1 _ h.1.2, Expr.same_eq r1 _ h.2]
    | .paren a, b, h => by
      cases b <;> simp only [Expr.same, Bool.false_eq_true] at h
      rw [Expr.same_eq a _ h]
    | .call n1 a1, b, h => by
      cases b <;> simp only [Expr.same, Bool.and_eq_true, decide_eq_true_eq, Bool.false_eq_true] at h
      rw [h.1, sameArgs_eq a1 _ h.2]
    | .varRef v1 t1, b, h => by
      cases b <;> simp only [Expr.same, Bool.and_eq_true, decide_eq_true_eq, Bool.false_eq_true] at h
      rw [h.1, h.2]
    | .distinct a, b, h | .wildcard a, b, h | .regex a, b, h | .string a, b, h | .number a, b, h
    | .integer a, b, h | .unsigned a, b, h | .boolean a, b, h | .duration a, b, h | .time a, b, h
    | .list a, b, h | .boundParam a, b, h => by
      cases b <;> simp only [Expr.same, decide_eq_true_eq, Bool.false_eq_true] at h
      rw [h]
    | .nil, b, h => by
      cases b <;> simp only [Expr.same, Bool.false_eq_true] at h
      rfl
  theorem sameArgs_eq : ∀ (a b : List Expr), sameArgs a b = true → a = b
    | [], bs, h => by
      cases bs <;> simp only [sameArgs, Bool.false_eq_true] at h
      rfl
    | a :: as, bs, h => by
      cases bs <;> simp only [sameArgs, Bool.and_eq_true, Bool.false_eq_true] at h
      rw [Expr.same_eq a _ h.1, sameArgs_eq as _ h.2]
end

/-- Where the text of the old route parsed back to the tree it was printed from, the old route
computed what the tree-building `SetTimeRange` computes. -/
theorem textRoute_eq_of_round_trip (fa : FloatArith) (tbl : List (Char × Char)) (c : Expr) (w : Window)
    (h : parseExprText (setTimeRangeTree tbl (some c) w).print [] tbl = .ok (setTimeRangeTree tbl (some c) w)) :
    textRoute fa tbl (some c) w = setTimeRange fa tbl (some c) w := by
  unfold textRoute setTimeRange
  rw [setTimeRangeText_is_print, h]

end InfluxQL

import InfluxQL.Lemmas.Quote
/-
How `QuoteString` / `QuoteIdent` spell one value (helper lemmas of C06 used by the printed-piece
libraries; they live in the namespace `InfluxQL.C06` because `Lemmas/StmtPieces.lean` and
`Lemmas/ExprRoundTrip.lean` refer to them under that name).
-/
namespace InfluxQL.C06
open InfluxQL Gen

theorem flatMap_ext {f g : Char → List Char} (h : ∀ c, f c = g c) (s : List Char) :
    s.flatMap f = s.flatMap g := by
  induction s with
  | nil => rfl
  | cons c s ih => simp [List.flatMap_cons, h c, ih]

theorem quoteString_eq (s : List Char) : quoteString s = '\'' :: (s.flatMap (esc '\'') ++ ['\'']) := by
  unfold quoteString replaceAll
  rw [flatMap_ext replaceChar_qs]

theorem replaceAll_qi (s : List Char) : replaceAll qiReplacer s = s.flatMap (esc '"') := by
  unfold replaceAll
  rw [flatMap_ext replaceChar_qi]

/-- `QuoteIdent(s)` for one segment. -/
theorem quoteIdent_single (s : List Char) :
    quoteIdent [s] = if identNeedsQuotes s || s == [] then '"' :: (s.flatMap (esc '"') ++ ['"']) else s.flatMap (esc '"') := by
  simp only [quoteIdent, quoteIdentAux, quoteIdentSeg, List.length_cons, List.length_nil, replaceAll_qi]
  cases identNeedsQuotes s <;> cases hs : (s == []) <;> simp [hs]

/-- An unescaped run of identifier characters is its own escaped and delivered form. -/
theorem esc_identChars (s : List Char) (h : ∀ c ∈ s, isIdentChar c = true) : s.flatMap (esc '"') = s := by
  induction s with
  | nil => rfl
  | cons c s ih =>
    have hc := h c (by simp)
    have h1 : c ≠ '\n' := by intro e; subst e; revert hc; decide
    have h2 : c ≠ '\\' := by intro e; subst e; revert hc; decide
    have h3 : c ≠ '"' := by intro e; subst e; revert hc; decide
    simp [esc, h1, h2, h3, ih (fun x hx => h x (by simp [hx]))]

end InfluxQL.C06

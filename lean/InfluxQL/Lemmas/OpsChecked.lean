import InfluxQL.Model.OpsChecked
import InfluxQL.Lemmas.Regex
import InfluxQL.Lemmas.ReduceEval
/-!
Lemmas about the checked models of `Model/OpsChecked.lean`: the primitives succeed inside their
bounds, the `make`-and-fill loop computes `map`, and the loop invariants behind the theorems of
Props/C13.lean.
-/
namespace InfluxQL.Checked
open InfluxQL Gen

/-! ## Monad -/

@[simp] theorem ok_bind {α β} (a : α) (f : α → OpRes β) : (OpRes.ok a >>= f) = f a := rfl
@[simp] theorem err_bind {α β} (m : Str) (f : α → OpRes β) : (OpRes.err m >>= f) = .err m := rfl
@[simp] theorem panic_bind {α β} (s : Str) (f : α → OpRes β) : (OpRes.panic s >>= f) = .panic s := rfl
@[simp] theorem pure_eq {α} (a : α) : (pure a : OpRes α) = .ok a := rfl

theorem isPanic_ok {α} {x : OpRes α} {a : α} (h : x = .ok a) : x.isPanic = false := by
  subst h; rfl

/-! ## Primitives inside their bounds -/

section prims
variable {α : Type}

theorem idx_nat (site : Site) (xs : List α) (n : Nat) (h : n < xs.length) :
    idx site xs (n : Int) = .ok xs[n] := by
  unfold idx
  rw [if_pos (Int.natCast_nonneg n), Int.toNat_natCast, List.getElem?_eq_getElem h]

theorem idx_of_eq (site : Site) (xs : List α) {i : Int} {n : Nat} {x : α} (hi : i = (n : Int))
    (hx : xs[n]? = some x) : idx site xs i = .ok x := by
  subst hi
  unfold idx
  rw [if_pos (Int.natCast_nonneg n), Int.toNat_natCast, hx]

theorem setIdx_of_eq (site : Site) (xs : List α) {i : Int} {n : Nat} (v : α) (hi : i = (n : Int))
    (h : n < xs.length) : setIdx site xs i v = .ok (xs.set n v) := by
  subst hi
  unfold setIdx
  rw [if_pos ⟨Int.natCast_nonneg n, by omega⟩, Int.toNat_natCast]

theorem sliceFrom_of_eq (site : Site) (xs : List α) {i : Int} {n : Nat} (hi : i = (n : Int))
    (h : n ≤ xs.length) : sliceFrom site xs i = .ok (xs.drop n) := by
  subst hi
  unfold sliceFrom
  rw [if_pos ⟨Int.natCast_nonneg n, by omega⟩, Int.toNat_natCast]

theorem sliceTo_of_eq (site : Site) (xs : List α) {j : Int} {n : Nat} (hj : j = (n : Int))
    (h : n ≤ xs.length) : sliceTo site xs j = .ok (xs.take n) := by
  subst hj
  unfold sliceTo
  rw [if_pos ⟨Int.natCast_nonneg n, by omega⟩, Int.toNat_natCast]

theorem slice_of_eq (site : Site) (xs : List α) {i j : Int} {n m : Nat} (hi : i = (n : Int))
    (hj : j = (m : Int)) (h1 : n ≤ m) (h2 : m ≤ xs.length) :
    slice site xs i j = .ok ((xs.take m).drop n) := by
  subst hi; subst hj
  unfold slice
  rw [if_pos ⟨Int.natCast_nonneg n, by omega, by omega⟩, Int.toNat_natCast, Int.toNat_natCast]

end prims

theorem divI64_ok (site : Site) (a b : Int) (h : b ≠ 0) : divI64 site a b = .ok (wrap64 (a.tdiv b)) := by
  unfold divI64; rw [if_neg h]

theorem remI64_ok (site : Site) (a b : Int) (h : b ≠ 0) : remI64 site a b = .ok (a.tmod b) := by
  unfold remI64; rw [if_neg h]

theorem divU64_ok (site : Site) (a b : Nat) (h : b ≠ 0) : divU64 site a b = .ok (a / b) := by
  unfold divU64; rw [if_neg h]

theorem remU64_ok (site : Site) (a b : Nat) (h : b ≠ 0) : remU64 site a b = .ok (a % b) := by
  unfold remU64; rw [if_neg h]

/-! ## `make` + fill = `map` -/

theorem set_append_replicate {β} (front : List β) (n : Nat) (z y : β) :
    (front ++ List.replicate (n + 1) z).set front.length y = (front ++ [y]) ++ List.replicate n z := by
  rw [List.replicate_succ, List.set_append_right _ _ (Nat.le_refl _), Nat.sub_self, List.set_cons_zero,
    List.append_assoc]
  rfl

/-- The fill loop started at index `front.length` on `front ++ zeros` yields `front ++ map g xs`,
if `f` is `g` on the elements. -/
theorem fillLoop_eq {α β} (site : Site) (f : α → OpRes β) (g : α → β) (z : β) :
    ∀ (xs : List α) (front : List β) (i : Int), i = (front.length : Int) →
      (∀ x ∈ xs, f x = .ok (g x)) →
      fillLoop site f xs i (front ++ List.replicate xs.length z) = .ok (front ++ xs.map g)
  | [], front, _, _, _ => by simp [fillLoop]
  | x :: rest, front, i, hi, hf => by
    rw [fillLoop, hf x (List.mem_cons_self ..)]
    simp only [ok_bind]
    rw [setIdx_of_eq site _ _ hi (by simp), List.length_cons, set_append_replicate]
    simp only [ok_bind]
    rw [fillLoop_eq site f g z rest (front ++ [g x]) (i + 1) (by simp [hi])
      (fun y hy => hf y (List.mem_cons_of_mem _ hy))]
    simp

theorem makeAndFill_eq {α β} (site : Site) (z : β) (f : α → OpRes β) (g : α → β) (xs : List α)
    (hf : ∀ x ∈ xs, f x = .ok (g x)) : makeAndFill site z f xs = .ok (xs.map g) := by
  have := fillLoop_eq site f g z xs [] 0 rfl hf
  simpa [makeAndFill] using this

/-! ## `ColumnNames` -/

theorem extraColumns_eq (ht : Bool) (f : Field) :
    extraColumns ht f = .ok (InfluxQL.extraColumns ht f) := by
  obtain ⟨e, a⟩ := f
  cases e <;> try rfl
  rename_i name args
  simp only [extraColumns, InfluxQL.extraColumns]
  split
  · rename_i h
    have hlen : 1 ≤ args.length := by
      simp only [Bool.and_eq_true, decide_eq_true_eq] at h
      omega
    rw [sliceFrom_of_eq sColArgs args (i := 1) (n := 1) rfl hlen]
    rfl
  · rfl

theorem columnFields_eq (ht : Bool) : ∀ fs : List Field,
    columnFields ht fs = .ok (InfluxQL.columnFields ht fs)
  | [] => rfl
  | f :: fs => by
    rw [columnFields, extraColumns_eq, columnFields_eq ht fs]
    rfl

theorem set_append_cons {β} (front : List β) (x y : β) (rest : List β) :
    (front ++ x :: rest).set front.length y = (front ++ [y]) ++ rest := by
  rw [List.set_append_right _ _ (Nat.le_refl _), Nat.sub_self, List.set_cons_zero, List.append_assoc]
  rfl

theorem aliasLoop_eq (o : Int) : ∀ (cs : List Field) (front : List Str) (i : Int) (names : NameMap),
    i + o = (front.length : Int) →
    aliasLoop o cs i (front ++ List.replicate cs.length []) names
      = .ok (front ++ cs.map (·.alias), aliasPass names cs)
  | [], front, _, names, _ => by simp [aliasLoop, aliasPass]
  | c :: cs, front, i, names, hi => by
    rw [aliasLoop]
    by_cases h : c.alias ≠ []
    · rw [if_pos h, setIdx_of_eq sColSlot _ _ hi (by simp), List.length_cons, set_append_replicate]
      simp only [ok_bind]
      rw [aliasLoop_eq o cs (front ++ [c.alias]) (i + 1) _ (by simp; omega)]
      simp [aliasPass, h]
    · rw [if_neg h]
      have h' : c.alias = [] := by simpa using h
      have e : front ++ List.replicate (c :: cs).length ([] : Str)
          = (front ++ [[]]) ++ List.replicate cs.length [] := by
        simp [List.replicate_succ]
      rw [e, aliasLoop_eq o cs (front ++ [[]]) (i + 1) _ (by simp; omega)]
      simp [aliasPass, h']

theorem nameLoop_eq (o : Int) : ∀ (cs : List Field) (front : List Str) (i : Int) (names : NameMap),
    i + o = (front.length : Int) →
    nameLoop o cs i (front ++ cs.map (·.alias)) names
      = match InfluxQL.nameLoop names cs with
        | some ns => .ok (front ++ ns)
        | none => .err errSuffixLoop
  | [], front, _, names, _ => by simp [nameLoop, InfluxQL.nameLoop]
  | c :: cs, front, i, names, hi => by
    rw [nameLoop, List.map_cons, idx_of_eq sColSlot _ hi (x := c.alias) (by simp)]
    simp only [ok_bind]
    by_cases h : c.alias ≠ []
    · rw [if_pos h]
      have e : front ++ c.alias :: cs.map (·.alias) = (front ++ [c.alias]) ++ cs.map (·.alias) := by simp
      rw [e, nameLoop_eq o cs (front ++ [c.alias]) (i + 1) names (by simp; omega)]
      simp only [InfluxQL.nameLoop, if_pos h]
      cases InfluxQL.nameLoop names cs <;> simp
    · rw [if_neg h]
      cases hr : resolveName names c.name with
      | none => simp [InfluxQL.nameLoop, h, hr]
      | some p =>
        obtain ⟨names', n⟩ := p
        dsimp only
        rw [setIdx_of_eq sColSlot _ _ hi (by simp), set_append_cons]
        simp only [ok_bind]
        rw [nameLoop_eq o cs (front ++ [n]) (i + 1) names' (by simp; omega)]
        simp only [InfluxQL.nameLoop, if_neg h, hr]
        cases InfluxQL.nameLoop names' cs <;> simp

/-- The checked `ColumnNames` computes what the total model of C20 computes (`none` there is the
never-taken "suffix loop does not end" outcome). -/
theorem columnNamesOf_eq (fields : List Field) (ht ot : Bool) (ta : Str) :
    columnNamesOf fields ht ot ta
      = match InfluxQL.columnNamesOf fields ht ot ta with
        | some out => .ok out
        | none => .err errSuffixLoop := by
  unfold columnNamesOf InfluxQL.columnNamesOf fieldColumnNames
  rw [columnFields_eq]
  simp only [ok_bind]
  generalize InfluxQL.columnFields ht fields = cols
  cases ot
  · -- the implicit time column: offset 1
    have e0 : List.replicate ((cols.length : Int) + 1).toNat ([] : Str)
        = ([] : List Str) ++ List.replicate (cols.length + 1) [] := by
      congr 1
    simp only [Bool.false_eq_true, if_false, Bool.not_false, if_true]
    rw [e0, setIdx_of_eq sColTime _ (i := 0) (n := ([] : List Str).length) _ rfl (by simp), set_append_replicate]
    simp only [ok_bind]
    rw [aliasLoop_eq 1 cols ([] ++ [timeFieldName ta]) 0 [] (by simp)]
    simp only [ok_bind]
    rw [nameLoop_eq 1 cols ([] ++ [timeFieldName ta]) 0 _ (by simp)]
    cases InfluxQL.nameLoop (aliasPass [] cols) cols <;> simp
  · have e0 : List.replicate ((cols.length : Int) + 0).toNat ([] : Str)
        = ([] : List Str) ++ List.replicate cols.length [] := by
      simp
    simp only [if_true, Bool.not_true, Bool.false_eq_true, if_false, pure_eq, ok_bind]
    rw [e0, aliasLoop_eq 0 cols [] 0 [] (by simp)]
    simp only [ok_bind]
    rw [nameLoop_eq 0 cols [] 0 _ (by simp)]
    cases InfluxQL.nameLoop (aliasPass [] cols) cols <;> simp

/-! ## `TimeAscending`, `ExprsToConjunction`, `FieldExprByName` -/

theorem timeAscending_eq (sf : List SortField) :
    timeAscending sf = .ok (match sf with | [] => true | f :: _ => f.ascending) := by
  cases sf with
  | nil => rfl
  | cons f rest =>
    simp only [timeAscending, List.length_cons, Nat.add_one_ne_zero, if_false]
    rw [idx_of_eq sTimeAscending (f :: rest) (i := 0) (n := 0) (x := f) rfl rfl]
    rfl

theorem exprsToConjunction_eq (exprs : List Expr) :
    exprsToConjunction exprs
      = .ok (match exprs with
        | [] => none
        | e :: rest => some (rest.foldl (fun acc x => .binary .AND acc x) e)) := by
  cases exprs with
  | nil => rfl
  | cons e rest =>
    simp only [exprsToConjunction, List.length_cons, Nat.add_one_ne_zero, if_false]
    rw [idx_of_eq sConj0 (e :: rest) (i := 0) (n := 0) (x := e) rfl rfl]
    simp only [ok_bind]
    rw [sliceFrom_of_eq sConjTail (e :: rest) (i := 1) (n := 1) rfl (by simp)]
    rfl

theorem fieldExprByNameLoop_ok (name : Str) : ∀ (fields : List Field) (i : Int),
    ∃ r, fieldExprByNameLoop name fields i = .ok r
  | [], _ => ⟨_, rfl⟩
  | f :: rest, i => by
    rw [fieldExprByNameLoop]
    split
    · exact ⟨_, rfl⟩
    · split
      · rename_i cn args _
        split
        · rename_i h
          rw [slice_of_eq sFieldExprArgs args (i := 1) (n := 1) (m := args.length - 1) rfl
            (by omega) (by omega) (by omega)]
          simp only [ok_bind]
          split
          · exact ⟨_, rfl⟩
          · exact fieldExprByNameLoop_ok name rest (i + 1)
        · exact fieldExprByNameLoop_ok name rest (i + 1)
      · exact fieldExprByNameLoop_ok name rest (i + 1)

/-! ## `RewriteTimeFields` -/

theorem timeFieldsLoop_ok : ∀ (fuel n : Nat) (fields : List Field) (ta : Str),
    n ≤ fields.length + 1 → fields.length + 2 ≤ fuel + n →
    ∃ r, timeFieldsLoop fuel (n : Int) fields ta = .ok r
  | 0, n, fields, ta, h1, h2 => by omega
  | fuel + 1, n, fields, ta, h1, h2 => by
    have hsucc : ((n : Int) + 1) = ((n + 1 : Nat) : Int) := by omega
    rw [timeFieldsLoop]
    by_cases hlt : (n : Int) < fields.length
    · have hn : n < fields.length := by omega
      rw [if_pos hlt, idx_nat sTimeFieldsIdx fields n hn]
      simp only [ok_bind]
      split
      · split
        · rw [sliceTo_of_eq sTimeFieldsPre fields (n := n) rfl (by omega)]
          simp only [ok_bind]
          rw [sliceFrom_of_eq sTimeFieldsPost fields (n := n + 1) hsucc (by omega)]
          simp only [ok_bind]
          rw [hsucc]
          apply timeFieldsLoop_ok fuel (n + 1)
          · simp only [List.length_append, List.length_take, List.length_drop]; omega
          · simp only [List.length_append, List.length_take, List.length_drop]; omega
        · rw [hsucc]
          exact timeFieldsLoop_ok fuel (n + 1) fields ta (by omega) (by omega)
      · rw [hsucc]
        exact timeFieldsLoop_ok fuel (n + 1) fields ta (by omega) (by omega)
    · rw [if_neg hlt]
      exact ⟨_, rfl⟩

theorem rewriteTimeFields_ok (fields : List Field) (ta : Str) :
    ∃ r, rewriteTimeFields fields ta = .ok r :=
  timeFieldsLoop_ok (fields.length + 2) 0 fields ta (by omega) (by omega)

/-! ## `sort.Interface`, `VarRefs.Strings` -/

theorem idx_in_bounds {α} (site : Site) (xs : List α) (i : Int) (h0 : 0 ≤ i) (h1 : i < xs.length) :
    ∃ x, idx site xs i = .ok x := by
  have hn : i.toNat < xs.length := by omega
  exact ⟨xs[i.toNat], idx_of_eq site xs (n := i.toNat) (by omega) (List.getElem?_eq_getElem hn)⟩

theorem setIdx_in_bounds {α} (site : Site) (xs : List α) (i : Int) (v : α) (h0 : 0 ≤ i)
    (h1 : i < xs.length) : setIdx site xs i v = .ok (xs.set i.toNat v) := by
  unfold setIdx; rw [if_pos ⟨h0, h1⟩]

theorem fieldsLess_ok (a : List Field) (i j : Int) (hi : 0 ≤ i ∧ i < a.length) (hj : 0 ≤ j ∧ j < a.length) :
    ∃ b, fieldsLess a i j = .ok b := by
  obtain ⟨x, hx⟩ := idx_in_bounds sFieldsLessI a i hi.1 hi.2
  obtain ⟨y, hy⟩ := idx_in_bounds sFieldsLessJ a j hj.1 hj.2
  exact ⟨_, by simp only [fieldsLess, hx, hy, ok_bind]; rfl⟩

theorem fieldsSwap_ok (a : List Field) (i j : Int) (hi : 0 ≤ i ∧ i < a.length) (hj : 0 ≤ j ∧ j < a.length) :
    ∃ a', fieldsSwap a i j = .ok a' ∧ a'.length = a.length := by
  obtain ⟨x, hx⟩ := idx_in_bounds sFieldsSwapI a i hi.1 hi.2
  obtain ⟨y, hy⟩ := idx_in_bounds sFieldsSwapJ a j hj.1 hj.2
  refine ⟨(a.set i.toNat y).set j.toNat x, ?_, by simp⟩
  simp only [fieldsSwap, hx, hy, ok_bind]
  rw [setIdx_in_bounds sFieldsSwapI a i y hi.1 hi.2]
  simp only [ok_bind]
  rw [setIdx_in_bounds sFieldsSwapJ _ j x hj.1 (by simpa using hj.2)]

theorem varRefsLess_ok (a : List ColRef) (i j : Int) (hi : 0 ≤ i ∧ i < a.length) (hj : 0 ≤ j ∧ j < a.length) :
    ∃ b, varRefsLess a i j = .ok b := by
  obtain ⟨x, hx⟩ := idx_in_bounds sVarRefsLessI a i hi.1 hi.2
  obtain ⟨y, hy⟩ := idx_in_bounds sVarRefsLessJ a j hj.1 hj.2
  exact ⟨_, by simp only [varRefsLess, hx, hy, ok_bind]; rfl⟩

theorem varRefsSwap_ok (a : List ColRef) (i j : Int) (hi : 0 ≤ i ∧ i < a.length) (hj : 0 ≤ j ∧ j < a.length) :
    ∃ a', varRefsSwap a i j = .ok a' ∧ a'.length = a.length := by
  obtain ⟨x, hx⟩ := idx_in_bounds sVarRefsSwapI a i hi.1 hi.2
  obtain ⟨y, hy⟩ := idx_in_bounds sVarRefsSwapJ a j hj.1 hj.2
  refine ⟨(a.set i.toNat y).set j.toNat x, ?_, by simp⟩
  simp only [varRefsSwap, hx, hy, ok_bind]
  rw [setIdx_in_bounds sVarRefsSwapI a i y hi.1 hi.2]
  simp only [ok_bind]
  rw [setIdx_in_bounds sVarRefsSwapJ _ j x hj.1 (by simpa using hj.2)]

theorem varRefsStrings_eq (a : List ColRef) : varRefsStrings a = .ok (a.map (·.name)) := by
  unfold varRefsStrings
  exact makeAndFill_eq sVarRefsStrings [] _ (·.name) a (fun _ _ => rfl)

theorem evalCallArgTypes_eq (evalType : Expr → OpRes DataType) (g : Expr → DataType) (args : List Expr)
    (h : ∀ a ∈ args, evalType a = .ok (g a)) : evalCallArgTypes evalType args = .ok (args.map g) :=
  makeAndFill_eq sEvalTypeArgs _ _ g args h

/-! ## Clone routines: every constructor has its `case`, the clone is equal to the original -/

theorem caseOrPanic_pos {α} (site : Site) (routine ty : Str) (body : OpRes α)
    (h : switchHasCase routine ty = true) : caseOrPanic site routine ty body = body := by
  unfold caseOrPanic; rw [if_pos h]

mutual
  theorem cloneExpr_eq : ∀ e : Expr, cloneExpr e = .ok e
    | .binary op l r => by
      rw [cloneExpr, caseOrPanic_pos _ _ _ _ (by decide), cloneExpr_eq l, cloneExpr_eq r]; rfl
    | .paren e => by
      rw [cloneExpr, caseOrPanic_pos _ _ _ _ (by decide), cloneExpr_eq e]; rfl
    | .call name args => by
      rw [cloneExpr, caseOrPanic_pos _ _ _ _ (by decide)]
      have := cloneArgsLoop_eq args [] 0 rfl
      rw [List.nil_append] at this
      rw [this]; rfl
    | .varRef .. => by rw [cloneExpr, caseOrPanic_pos _ _ _ _ (by decide)]; rfl
    | .distinct _ => by rw [cloneExpr, caseOrPanic_pos _ _ _ _ (by decide)]; rfl
    | .wildcard _ => by rw [cloneExpr, caseOrPanic_pos _ _ _ _ (by decide)]; rfl
    | .regex _ => by rw [cloneExpr, caseOrPanic_pos _ _ _ _ (by decide)]; rfl
    | .string _ => by rw [cloneExpr, caseOrPanic_pos _ _ _ _ (by decide)]; rfl
    | .number _ => by rw [cloneExpr, caseOrPanic_pos _ _ _ _ (by decide)]; rfl
    | .integer _ => by rw [cloneExpr, caseOrPanic_pos _ _ _ _ (by decide)]; rfl
    | .unsigned _ => by rw [cloneExpr, caseOrPanic_pos _ _ _ _ (by decide)]; rfl
    | .boolean _ => by rw [cloneExpr, caseOrPanic_pos _ _ _ _ (by decide)]; rfl
    | .duration _ => by rw [cloneExpr, caseOrPanic_pos _ _ _ _ (by decide)]; rfl
    | .time _ => by rw [cloneExpr, caseOrPanic_pos _ _ _ _ (by decide)]; rfl
    | .nil => by rw [cloneExpr, caseOrPanic_pos _ _ _ _ (by decide)]; rfl
    | .list _ => by rw [cloneExpr, caseOrPanic_pos _ _ _ _ (by decide)]; rfl
    | .boundParam _ => by rw [cloneExpr, caseOrPanic_pos _ _ _ _ (by decide)]; rfl
  theorem cloneArgsLoop_eq : ∀ (rest front : List Expr) (i : Int), i = (front.length : Int) →
      cloneArgsLoop rest i (front ++ List.replicate rest.length default) = .ok (front ++ rest)
    | [], front, _, _ => by simp [cloneArgsLoop]
    | a :: rest, front, i, hi => by
      rw [cloneArgsLoop, cloneExpr_eq a]
      simp only [ok_bind]
      rw [setIdx_of_eq sCloneArgs _ _ hi (by simp), List.length_cons, set_append_replicate]
      simp only [ok_bind]
      rw [cloneArgsLoop_eq rest (front ++ [a]) (i + 1) (by simp [hi])]
      simp
end

theorem cloneExprOpt_eq (c : Option Expr) : cloneExprOpt c = .ok c := by
  cases c with
  | none => rfl
  | some e => rw [cloneExprOpt, cloneExpr_eq]; rfl

theorem cloneFields_eq : ∀ fs : List Field, cloneFields fs = .ok fs
  | [] => rfl
  | f :: fs => by rw [cloneFields, cloneExpr_eq, cloneFields_eq fs]; rfl

theorem cloneDims_eq : ∀ ds : List Expr, cloneDims ds = .ok ds
  | [] => rfl
  | d :: ds => by rw [cloneDims, cloneExpr_eq, cloneDims_eq ds]; rfl

theorem map_cloneMeasurement (t : Option Measurement) : t.map cloneMeasurement = t := by
  cases t <;> rfl

theorem map_sortField (sf : List SortField) :
    sf.map (fun f => ({ name := f.name, ascending := f.ascending } : SortField)) = sf := by
  induction sf with
  | nil => rfl
  | cons f rest ih => rw [List.map_cons, ih]

mutual
  theorem cloneSelect_eq : ∀ s : SelectStmt, cloneSelect s = .ok s
    | .mk fields target dims sources cond sortFields l o sl so raw fill fv loc ta ot sn en dd => by
      rw [cloneSelect, cloneSources_eq sources, cloneExprOpt_eq, cloneFields_eq, cloneDims_eq]
      simp only [ok_bind, pure_eq, map_cloneMeasurement, map_sortField]
  theorem cloneSources_eq : ∀ ss : List Source, cloneSources ss = .ok ss
    | [] => rfl
    | s :: rest => by rw [cloneSources, cloneSource_eq s, cloneSources_eq rest]; rfl
  theorem cloneSource_eq : ∀ s : Source, cloneSource s = .ok s
    | .measurement m => by rw [cloneSource, caseOrPanic_pos _ _ _ _ (by decide)]; rfl
    | .subquery s => by rw [cloneSource, caseOrPanic_pos _ _ _ _ (by decide), cloneSelect_eq s]; rfl
end

/-! ## `RewriteRegexConditions` -/

theorem regexChainLoop_eq (op cop : Token) (lhs : Expr) (vals : List Str) :
    ∀ (fuel n : Nat) (acc : Expr), n ≤ vals.length → vals.length + 1 ≤ fuel + n →
      regexChainLoop op cop lhs vals fuel (n : Int) acc = .ok (Rx.chain op cop lhs acc (vals.drop n))
  | 0, n, acc, h1, h2 => by omega
  | fuel + 1, n, acc, h1, h2 => by
    have hsucc : ((n : Int) + 1) = ((n + 1 : Nat) : Int) := by omega
    rw [regexChainLoop]
    by_cases hlt : (n : Int) < vals.length
    · have hn : n < vals.length := by omega
      rw [if_pos hlt, idx_nat sRegexValsI vals n hn]
      simp only [ok_bind]
      rw [hsucc, regexChainLoop_eq op cop lhs vals fuel (n + 1) _ (by omega) (by omega),
        List.drop_eq_getElem_cons hn, Rx.chain]
    · rw [if_neg hlt]
      have hn : vals.length ≤ n := by omega
      rw [List.drop_of_length_le hn, Rx.chain]

theorem regexLiteralTests_eq (op cop : Token) (lhs : Expr) (vals : List Str) :
    regexLiteralTests op cop lhs vals = .ok (Rx.literalTests op cop lhs vals) := by
  match vals with
  | [] => rfl
  | [v] =>
    simp only [regexLiteralTests, List.length_cons, List.length_nil]
    rw [idx_of_eq sRegexVals0 [v] (i := 0) (n := 0) (x := v) rfl rfl]
    rfl
  | v :: w :: rest =>
    have h0 : ¬ (v :: w :: rest).length = 0 := by simp
    have h1 : ¬ (v :: w :: rest).length = 1 := by simp
    rw [regexLiteralTests, if_neg h0, if_neg h1,
      idx_of_eq sRegexVals0 (v :: w :: rest) (i := 0) (n := 0) (x := v) rfl rfl]
    simp only [ok_bind]
    have := regexChainLoop_eq op cop lhs (v :: w :: rest) ((v :: w :: rest).length + 1) 1
      (.binary op lhs (.string v)) (by simp) (by omega)
    rw [show ((1 : Nat) : Int) = 1 from rfl] at this
    rw [this]
    rfl

theorem rewriteRegexNode_binary (exact : Str → Option (List Str)) (op : Token) (lhs rhs : Expr) :
    rewriteRegexNode exact (.binary op lhs rhs) =
      if op ≠ .EQREGEX ∧ op ≠ .NEQREGEX then .ok (.binary op lhs rhs)
      else
        match rhs with
        | .regex src =>
          match exact src with
          | none => .ok (.binary op lhs rhs)
          | some vals =>
            if op = .EQREGEX then regexLiteralTests .EQ .OR lhs vals
            else regexLiteralTests .NEQ .AND lhs vals
        | _ => .ok (.binary op lhs rhs) := rfl

theorem rewriteRegexNode_eq (exact : Str → Option (List Str)) (e : Expr) :
    rewriteRegexNode exact e = .ok (Rx.rewriteNode exact e) := by
  cases e <;> try rfl
  rename_i op lhs rhs
  rw [rewriteRegexNode_binary]
  by_cases h : op ≠ .EQREGEX ∧ op ≠ .NEQREGEX
  · rw [if_pos h, Rx.rewriteNode_other exact lhs rhs h.1 h.2]
  · rw [if_neg h]
    cases rhs <;> try rfl
    rename_i src
    rw [Rx.rewriteNode_regex]
    by_cases h1 : op = .EQREGEX
    · simp only [if_pos h1]
      cases exact src with
      | none => rfl
      | some vals => exact regexLiteralTests_eq _ _ _ _
    · have h2 : op = .NEQREGEX := by
        by_cases h2 : op = .NEQREGEX
        · exact h2
        · exact absurd ⟨h1, h2⟩ h
      simp only [if_neg h1, if_pos h2]
      cases exact src with
      | none => rfl
      | some vals => exact regexLiteralTests_eq _ _ _ _

mutual
  theorem rewriteRegexExpr_eq (exact : Str → Option (List Str)) :
      ∀ e : Expr, rewriteRegexExpr exact e = .ok (Rx.rewriteExpr exact e)
    | .binary op l r => by
      rw [rewriteRegexExpr, rewriteRegexExpr_eq exact l, rewriteRegexExpr_eq exact r, Rx.rewriteExpr_binary]
      simp only [ok_bind]
      exact rewriteRegexNode_eq exact _
    | .paren e => by
      rw [rewriteRegexExpr, rewriteRegexExpr_eq exact e, Rx.rewriteExpr_paren]; rfl
    | .call name args => by
      rw [rewriteRegexExpr, rewriteRegexArgs_eq exact args, Rx.rewriteExpr]; rfl
    | .varRef .. => by unfold rewriteRegexExpr Rx.rewriteExpr; rfl
    | .distinct _ => by unfold rewriteRegexExpr Rx.rewriteExpr; rfl
    | .wildcard _ => by unfold rewriteRegexExpr Rx.rewriteExpr; rfl
    | .regex _ => by unfold rewriteRegexExpr Rx.rewriteExpr; rfl
    | .string _ => by unfold rewriteRegexExpr Rx.rewriteExpr; rfl
    | .number _ => by unfold rewriteRegexExpr Rx.rewriteExpr; rfl
    | .integer _ => by unfold rewriteRegexExpr Rx.rewriteExpr; rfl
    | .unsigned _ => by unfold rewriteRegexExpr Rx.rewriteExpr; rfl
    | .boolean _ => by unfold rewriteRegexExpr Rx.rewriteExpr; rfl
    | .duration _ => by unfold rewriteRegexExpr Rx.rewriteExpr; rfl
    | .time _ => by unfold rewriteRegexExpr Rx.rewriteExpr; rfl
    | .nil => by unfold rewriteRegexExpr Rx.rewriteExpr; rfl
    | .list _ => by unfold rewriteRegexExpr Rx.rewriteExpr; rfl
    | .boundParam _ => by unfold rewriteRegexExpr Rx.rewriteExpr; rfl
  theorem rewriteRegexArgs_eq (exact : Str → Option (List Str)) :
      ∀ args : List Expr, rewriteRegexArgs exact args = .ok (Rx.rewriteArgs exact args)
    | [] => by rw [rewriteRegexArgs, Rx.rewriteArgs]
    | a :: rest => by
      rw [rewriteRegexArgs, rewriteRegexExpr_eq exact a, rewriteRegexArgs_eq exact rest, Rx.rewriteArgs]; rfl
end

theorem rewriteRegexCondition_eq (parseRe : Str → Option Rx.Regex) (c : Option Expr) :
    rewriteRegexCondition (Rx.matchExact parseRe) c = .ok (Rx.rewriteCondition parseRe c) := by
  cases c with
  | none => rfl
  | some e => rw [rewriteRegexCondition, rewriteRegexExpr_eq]; rfl

/-! ## `Eval` and `Reduce`: the checked models compute the total models of C09 -/

section
variable {F : Type} (A : FloatAlg F) (S : StrAlg)

theorem evalIntLHS_eq (ifd : Bool) (op : BinOp) (l : Int) (rhs : Value F) :
    evalIntLHS A ifd op l rhs = .ok (InfluxQL.evalIntLHS A ifd op l rhs) := by
  cases rhs <;> try rfl
  case int r =>
    cases op <;> try rfl
    case div =>
      cases ifd
      · simp only [evalIntLHS, InfluxQL.evalIntLHS, Bool.false_eq_true, if_false]
        split
        · rfl
        · rename_i h; rw [divI64_ok _ _ _ (by simpa using h)]; rfl
      · rfl
    case mod =>
      simp only [evalIntLHS, InfluxQL.evalIntLHS]
      split
      · rfl
      · rename_i h; rw [remI64_ok _ _ _ (by simpa using h)]; rfl
  case uint r =>
    cases op <;> try rfl
    case div =>
      simp only [evalIntLHS, InfluxQL.evalIntLHS]
      split
      · rfl
      · rename_i h; rw [divU64_ok _ _ _ (by simpa using h)]; rfl
    case mod =>
      simp only [evalIntLHS, InfluxQL.evalIntLHS]
      split
      · rfl
      · rename_i h; rw [remU64_ok _ _ _ (by simpa using h)]; rfl

theorem evalUintLHS_eq (op : BinOp) (l : Nat) (rhs : Value F) (hr : int64Ok rhs) :
    evalUintLHS A op l rhs = .ok (InfluxQL.evalUintLHS A op l rhs) := by
  cases rhs <;> try rfl
  case int r =>
    have hz : r ≠ 0 → toU64 r ≠ 0 := fun h h' => h ((C09.toU64_eq_zero hr).1 h')
    cases op <;> try rfl
    case div =>
      simp only [evalUintLHS, InfluxQL.evalUintLHS]
      split
      · rfl
      · rename_i h; rw [divU64_ok _ _ _ (hz (by simpa using h))]; rfl
    case mod =>
      simp only [evalUintLHS, InfluxQL.evalUintLHS]
      split
      · rfl
      · rename_i h; rw [remU64_ok _ _ _ (hz (by simpa using h))]; rfl
  case uint r =>
    cases op <;> try rfl
    case div =>
      simp only [evalUintLHS, InfluxQL.evalUintLHS]
      split
      · rfl
      · rename_i h; rw [divU64_ok _ _ _ (by simpa using h)]; rfl
    case mod =>
      simp only [evalUintLHS, InfluxQL.evalUintLHS]
      split
      · rfl
      · rename_i h; rw [remU64_ok _ _ _ (by simpa using h)]; rfl

theorem nilCast_int64Ok {a b : Value F} (ha : int64Ok a) (hb : int64Ok b) :
    int64Ok (nilCast a b).1 ∧ int64Ok (nilCast a b).2 := by
  cases a <;> cases b <;> simp_all [nilCast, int64Ok]

theorem evalBin_eq (ifd : Bool) (op : BinOp) (a b : Value F) (ha : int64Ok a) (hb : int64Ok b) :
    evalBin A S ifd op a b = .ok (InfluxQL.evalBin A S ifd op a b) := by
  have h := nilCast_int64Ok ha hb
  unfold evalBin InfluxQL.evalBin
  generalize nilCast a b = p at h
  obtain ⟨x, y⟩ := p
  cases x <;> try rfl
  case int l => exact evalIntLHS_eq A ifd op l y
  case uint l => exact evalUintLHS_eq A op l y h.2

theorem cmpDefault_int64Ok (op : BinOp) : int64Ok (cmpDefault op : Value F) := by
  cases op <;> simp [cmpDefault, int64Ok]

theorem evalFloatOp_int64Ok (op : BinOp) (l r : F) : int64Ok (evalFloatOp A op l r) := by
  cases op <;> simp only [evalFloatOp, cmpDefault] <;> (try split) <;> simp [int64Ok]

theorem evalIntLHS_int64Ok (ifd : Bool) (op : BinOp) (l : Int) (rhs : Value F)
    (hl : minInt64 ≤ l ∧ l ≤ maxInt64) : int64Ok (InfluxQL.evalIntLHS A ifd op l rhs) := by
  cases rhs
  case float r => exact evalFloatOp_int64Ok A op _ r
  case int r =>
    cases op <;> simp only [InfluxQL.evalIntLHS, cmpDefault, iAnd, iOr, iXor, toI64] <;>
      (repeat' split) <;> simp only [int64Ok] <;>
      first
        | exact True.intro
        | exact wrap64_range _
        | exact C09.tmod_range _ hl
        | (unfold minInt64 maxInt64; omega)
  case uint r =>
    cases op <;> simp only [InfluxQL.evalIntLHS, cmpDefault] <;> (repeat' split) <;> simp [int64Ok]
  all_goals exact cmpDefault_int64Ok op

theorem evalUintLHS_int64Ok (op : BinOp) (l : Nat) (rhs : Value F) :
    int64Ok (InfluxQL.evalUintLHS A op l rhs) := by
  cases rhs
  case float r => exact evalFloatOp_int64Ok A op _ r
  case int r =>
    cases op <;> simp only [InfluxQL.evalUintLHS, cmpDefault] <;> (repeat' split) <;> simp [int64Ok]
  case uint r =>
    cases op <;> simp only [InfluxQL.evalUintLHS, cmpDefault] <;> (repeat' split) <;> simp [int64Ok]
  all_goals exact cmpDefault_int64Ok op

theorem evalBin_int64Ok (ifd : Bool) (op : BinOp) (a b : Value F) (ha : int64Ok a) (hb : int64Ok b) :
    int64Ok (InfluxQL.evalBin A S ifd op a b) := by
  have h := nilCast_int64Ok ha hb
  unfold InfluxQL.evalBin
  generalize nilCast a b = p at h
  obtain ⟨x, y⟩ := p
  cases x
  case bool l => cases op <;> simp [evalBoolLHS, cmpDefault, int64Ok]
  case float l =>
    cases y <;> first | exact evalFloatOp_int64Ok A op _ _ | exact cmpDefault_int64Ok op
  case int l => exact evalIntLHS_int64Ok A ifd op l y h.1
  case uint l => exact evalUintLHS_int64Ok A op l y
  case str l =>
    cases op <;> simp only [evalStrLHS, cmpDefault] <;> (try split) <;> simp [int64Ok]
  all_goals exact cmpDefault_int64Ok op

theorem eval_literal (ifd : Bool) (V : Valuer F) (a : RExpr F) (h : a.isLiteral = true) :
    eval A S ifd V a = .ok (InfluxQL.eval A S ifd V a) := by
  cases a <;> first
    | (simp [RExpr.isLiteral] at h; done)
    | (unfold eval InfluxQL.eval; rfl)

mutual
  /-- On expressions and valuers whose integers are `int64`s the checked `Eval` never panics: it
  computes the total model of C09 (and the result is again an `int64` if it is an integer). -/
  theorem eval_eq (ifd : Bool) (V : Valuer F) (hV : valuerIntsOk V) :
      ∀ e : RExpr F, intsOk e = true →
        eval A S ifd V e = .ok (InfluxQL.eval A S ifd V e) ∧ int64Ok (InfluxQL.eval A S ifd V e)
    | .binary op l r, h => by
      rw [intsOk, Bool.and_eq_true] at h
      obtain ⟨el, ol⟩ := eval_eq ifd V hV l h.1
      obtain ⟨er, or_⟩ := eval_eq ifd V hV r h.2
      rw [eval, el, er, InfluxQL.eval]
      simp only [ok_bind]
      exact ⟨evalBin_eq A S ifd _ _ _ ol or_, evalBin_int64Ok A S ifd _ _ _ ol or_⟩
    | .paren e, h => by
      rw [intsOk] at h
      rw [eval, InfluxQL.eval]
      exact eval_eq ifd V hV e h
    | .call name args, h => by
      rw [intsOk] at h
      rw [eval, InfluxQL.eval]
      cases hc : V.call with
      | none => exact ⟨rfl, True.intro⟩
      | some f =>
        dsimp only
        have hok : int64Ok ((f name (InfluxQL.evalArgs A S ifd V args)).getD .nil) := by
          cases hf : f name (InfluxQL.evalArgs A S ifd V args) with
          | none => exact True.intro
          | some v => exact hV.2 f hc _ _ _ hf
        refine ⟨?_, hok⟩
        have hargs : (if args.length > 0 then
              evalArgsLoop A S ifd V args 0 (List.replicate args.length .nil) else pure [])
            = .ok (InfluxQL.evalArgs A S ifd V args) := by
          cases args with
          | nil => rfl
          | cons a rest =>
            rw [if_pos (by simp)]
            have := evalArgsLoop_eq ifd V hV (a :: rest) h [] 0 rfl
            rw [List.nil_append] at this
            exact this
        rw [hargs]
        rfl
    | .varRef val t, _ => by
      rw [eval, InfluxQL.eval]
      refine ⟨rfl, ?_⟩
      cases hv : V.value val with
      | none => exact True.intro
      | some v => exact hV.1 _ _ hv
    | .int v, h => by
      rw [intsOk, decide_eq_true_eq] at h
      rw [eval, InfluxQL.eval]
      exact ⟨rfl, h⟩
    | .bool _, _ => by rw [eval, InfluxQL.eval]; exact ⟨rfl, True.intro⟩
    | .num _, _ => by rw [eval, InfluxQL.eval]; exact ⟨rfl, True.intro⟩
    | .uint _, _ => by rw [eval, InfluxQL.eval]; exact ⟨rfl, True.intro⟩
    | .regex _, _ => by rw [eval, InfluxQL.eval]; exact ⟨rfl, True.intro⟩
    | .str _, _ => by rw [eval, InfluxQL.eval]; exact ⟨rfl, True.intro⟩
    | .distinct _, _ => by unfold eval InfluxQL.eval; exact ⟨rfl, True.intro⟩
    | .wildcard _, _ => by unfold eval InfluxQL.eval; exact ⟨rfl, True.intro⟩
    | .dur _, _ => by unfold eval InfluxQL.eval; exact ⟨rfl, True.intro⟩
    | .time _, _ => by unfold eval InfluxQL.eval; exact ⟨rfl, True.intro⟩
    | .nil, _ => by unfold eval InfluxQL.eval; exact ⟨rfl, True.intro⟩
    | .list _, _ => by unfold eval InfluxQL.eval; exact ⟨rfl, True.intro⟩
    | .boundParam _, _ => by unfold eval InfluxQL.eval; exact ⟨rfl, True.intro⟩
  theorem evalArgsLoop_eq (ifd : Bool) (V : Valuer F) (hV : valuerIntsOk V) :
      ∀ (rest : List (RExpr F)), argsIntsOk rest = true →
        ∀ (front : List (Value F)) (i : Int), i = (front.length : Int) →
          evalArgsLoop A S ifd V rest i (front ++ List.replicate rest.length .nil)
            = .ok (front ++ InfluxQL.evalArgs A S ifd V rest)
    | [], _, front, _, _ => by simp [evalArgsLoop, InfluxQL.evalArgs]
    | a :: rest, h, front, i, hi => by
      rw [argsIntsOk, Bool.and_eq_true] at h
      rw [evalArgsLoop, (eval_eq ifd V hV a h.1).1]
      simp only [ok_bind]
      rw [setIdx_of_eq sEvalArgs _ _ hi (by simp), List.length_cons, set_append_replicate]
      simp only [ok_bind]
      rw [evalArgsLoop_eq ifd V hV rest h.2 (front ++ [_]) (i + 1) (by simp [hi]), InfluxQL.evalArgs]
      simp
end

/-! ### Reduce -/

theorem reduceDurLHS₀_eq (tok : Token) (l : Int) (rhs : RExpr F) :
    reduceDurLHS₀ A tok l rhs = .ok (InfluxQL.reduceDurLHS₀ A tok l rhs) := by
  cases rhs <;> try rfl
  case num r =>
    simp only [reduceDurLHS₀]
    split
    · rename_i heq
      simp only [InfluxQL.reduceDurLHS₀, heq]
      split
      · rfl
      · rename_i h; rw [divI64_ok _ _ _ (by simpa using h)]; rfl
    · rfl
  case int r =>
    simp only [reduceDurLHS₀]
    split
    · rename_i heq
      simp only [InfluxQL.reduceDurLHS₀, heq]
      split
      · rfl
      · rename_i h; rw [divI64_ok _ _ _ (by simpa using h)]; rfl
    · rfl

theorem reduceDurLHS_eq (loc : Int) (tok : Token) (l : Int) (rhs : RExpr F) :
    reduceDurLHS A S loc tok l rhs = .ok (InfluxQL.reduceDurLHS A S loc tok l rhs) := by
  cases rhs <;> try (simp only [reduceDurLHS, InfluxQL.reduceDurLHS]; exact reduceDurLHS₀_eq A tok l _)
  case str s =>
    simp only [reduceDurLHS, InfluxQL.reduceDurLHS]
    cases S.toTime loc s with
    | none => rfl
    | some t => dsimp only; rw [reduceDurLHS₀_eq]; rfl

theorem reduceUintUint_eq (tok : Token) (l r : Nat) :
    reduceUintUint (F := F) tok l r = .ok (InfluxQL.reduceUintUint tok l r) := by
  simp only [reduceUintUint]
  split
  · rename_i heq
    simp only [InfluxQL.reduceUintUint, heq]
    split
    · rfl
    · rename_i h; rw [divU64_ok _ _ _ (by simpa using h)]; rfl
  · rename_i heq
    simp only [InfluxQL.reduceUintUint, heq]
    split
    · rfl
    · rename_i h; rw [remU64_ok _ _ _ (by simpa using h)]; rfl
  · rfl

theorem reduceUintLHS_eq (tok : Token) (l : Nat) (rhs : RExpr F) :
    reduceUintLHS A tok l rhs = .ok (InfluxQL.reduceUintLHS A tok l rhs) := by
  cases rhs <;> try rfl
  case int r =>
    simp only [reduceUintLHS, InfluxQL.reduceUintLHS]
    split
    · rfl
    · split
      · rfl
      · exact reduceUintUint_eq tok l _
  case uint r => exact reduceUintUint_eq tok l r

theorem reduceIntLHS_eq (loc : Int) (tok : Token) (l : Int) (rhs : RExpr F) :
    reduceIntLHS A S loc tok l rhs = .ok (InfluxQL.reduceIntLHS A S loc tok l rhs) := by
  cases rhs <;> try rfl
  case int r =>
    simp only [reduceIntLHS]
    split
    · rename_i heq
      simp only [InfluxQL.reduceIntLHS, heq]
      split
      · rfl
      · rename_i h; rw [remI64_ok _ _ _ (by simpa using h)]; rfl
    · rfl
  case uint r =>
    simp only [reduceIntLHS, InfluxQL.reduceIntLHS]
    split
    · rfl
    · split
      · rfl
      · exact reduceUintLHS_eq A tok _ _
  case str s =>
    simp only [reduceIntLHS, InfluxQL.reduceIntLHS]
    cases S.toTime loc s with
    | none => rfl
    | some t => dsimp only; rw [reduceDurLHS_eq]; rfl

theorem reduceDispatch_eq (loc : Int) (tok : Token) (lhs rhs : RExpr F) :
    reduceDispatch A S loc tok lhs rhs = .ok (InfluxQL.reduceDispatch A S loc tok lhs rhs) := by
  cases lhs <;> try rfl
  case dur l => exact reduceDurLHS_eq A S loc tok l rhs
  case int l => exact reduceIntLHS_eq A S loc tok l rhs
  case uint l => exact reduceUintLHS_eq A tok l rhs

theorem reduceBinary_eq (loc : Int) (tok : Token) (lhs rhs : RExpr F) :
    reduceBinary A S loc tok lhs rhs = .ok (InfluxQL.reduceBinary A S loc tok lhs rhs) := by
  unfold reduceBinary InfluxQL.reduceBinary
  generalize BinOp.ofToken tok = b
  cases b
  case and =>
    dsimp only
    by_cases h1 : (lhs.isFalseLiteral || rhs.isFalseLiteral) = true
    · rw [if_pos h1, if_pos h1]
    · rw [if_neg h1, if_neg h1]
      by_cases h2 : lhs.isTrueLiteral = true
      · rw [if_pos h2, if_pos h2]
      · rw [if_neg h2, if_neg h2]
        by_cases h3 : rhs.isTrueLiteral = true
        · rw [if_pos h3, if_pos h3]
        · rw [if_neg h3, if_neg h3]; exact reduceDispatch_eq A S loc tok lhs rhs
  case or =>
    dsimp only
    by_cases h1 : (lhs.isTrueLiteral || rhs.isTrueLiteral) = true
    · rw [if_pos h1, if_pos h1]
    · rw [if_neg h1, if_neg h1]
      by_cases h2 : lhs.isFalseLiteral = true
      · rw [if_pos h2, if_pos h2]
      · rw [if_neg h2, if_neg h2]
        by_cases h3 : rhs.isFalseLiteral = true
        · rw [if_pos h3, if_pos h3]
        · rw [if_neg h3, if_neg h3]; exact reduceDispatch_eq A S loc tok lhs rhs
  all_goals exact reduceDispatch_eq A S loc tok lhs rhs

theorem reduceCallVals_eq (args : List (RExpr F)) (h : args.all RExpr.isLiteral = true) :
    reduceCallVals A S args = .ok (args.map (InfluxQL.eval A S false Valuer.empty)) := by
  unfold reduceCallVals
  apply makeAndFill_eq
  intro a ha
  exact eval_literal A S false _ a (List.all_eq_true.1 h a ha)

theorem evalArgs_eq_map (ifd : Bool) (V : Valuer F) : ∀ args : List (RExpr F),
    InfluxQL.evalArgs A S ifd V args = args.map (InfluxQL.eval A S ifd V)
  | [] => by rw [InfluxQL.evalArgs]; rfl
  | a :: rest => by rw [InfluxQL.evalArgs, evalArgs_eq_map ifd V rest]; rfl

mutual
  /-- The checked `reduce` never panics: it computes the total model of C09. -/
  theorem reduce_eq (V : Valuer F) : ∀ e : RExpr F,
      reduce A S V e = .ok (InfluxQL.reduce A S V e)
    | .binary tok l r => by
      rw [reduce, reduce_eq V l, reduce_eq V r, InfluxQL.reduce]
      simp only [ok_bind]
      exact reduceBinary_eq A S _ tok _ _
    | .paren e => by
      rw [reduce, reduce_eq V e, InfluxQL.reduce]; rfl
    | .call name args => by
      rw [reduce, InfluxQL.reduce]
      have hargs : (if args.length > 0 then
            reduceArgsLoop A S V args 0 (List.replicate args.length .nil) else pure [])
          = .ok (InfluxQL.reduceArgs A S V args) := by
        cases args with
        | nil => rfl
        | cons a rest =>
          rw [if_pos (by simp)]
          have := reduceArgsLoop_eq V (a :: rest) [] 0 rfl
          rw [List.nil_append] at this
          exact this
      rw [hargs]
      simp only [ok_bind]
      by_cases hlit : (InfluxQL.reduceArgs A S V args).all RExpr.isLiteral = true
      · rw [if_pos hlit, if_pos hlit]
        cases hc : V.call with
        | none => rfl
        | some f =>
          dsimp only
          rw [reduceCallVals_eq A S _ hlit]
          simp only [ok_bind]
          cases f name (List.map (InfluxQL.eval A S false Valuer.empty) (InfluxQL.reduceArgs A S V args)) <;> rfl
      · rw [if_neg hlit, if_neg hlit]
        rfl
    | .varRef val ty => by
      rw [reduce, InfluxQL.reduce]
      cases V.value val <;> rfl
    | .distinct _ => by unfold reduce InfluxQL.reduce; rfl
    | .wildcard _ => by unfold reduce InfluxQL.reduce; rfl
    | .regex _ => by unfold reduce InfluxQL.reduce; rfl
    | .str _ => by unfold reduce InfluxQL.reduce; rfl
    | .num _ => by unfold reduce InfluxQL.reduce; rfl
    | .int _ => by unfold reduce InfluxQL.reduce; rfl
    | .uint _ => by unfold reduce InfluxQL.reduce; rfl
    | .bool _ => by unfold reduce InfluxQL.reduce; rfl
    | .dur _ => by unfold reduce InfluxQL.reduce; rfl
    | .time _ => by unfold reduce InfluxQL.reduce; rfl
    | .nil => by unfold reduce InfluxQL.reduce; rfl
    | .list _ => by unfold reduce InfluxQL.reduce; rfl
    | .boundParam _ => by unfold reduce InfluxQL.reduce; rfl
  theorem reduceArgsLoop_eq (V : Valuer F) :
      ∀ (rest front : List (RExpr F)) (i : Int), i = (front.length : Int) →
        reduceArgsLoop A S V rest i (front ++ List.replicate rest.length .nil)
          = .ok (front ++ InfluxQL.reduceArgs A S V rest)
    | [], front, _, _ => by simp [reduceArgsLoop, InfluxQL.reduceArgs]
    | a :: rest, front, i, hi => by
      rw [reduceArgsLoop, reduce_eq V a]
      simp only [ok_bind]
      rw [setIdx_of_eq sReduceCallArgs _ _ hi (by simp), List.length_cons, set_append_replicate]
      simp only [ok_bind]
      rw [reduceArgsLoop_eq V rest (front ++ [_]) (i + 1) (by simp [hi]), InfluxQL.reduceArgs]
      simp
end

theorem Reduce_eq (V : Valuer F) (e : RExpr F) :
    Reduce A S V e = .ok (InfluxQL.Reduce A S V e) := by
  unfold Reduce InfluxQL.Reduce
  rw [reduce_eq]
  simp only [ok_bind]
  generalize InfluxQL.reduce A S V e = x
  cases x <;> rfl

end

/-! ## `matchRegex`, `matchExactRegex` on well-formed trees -/

theorem isPanic_bind {α β} {x : OpRes α} {f : α → OpRes β} (hx : x.isPanic = false)
    (hf : ∀ a, (f a).isPanic = false) : (x >>= f).isPanic = false := by
  cases x with
  | ok a => exact hf a
  | err m => rfl
  | panic s => cases hx

theorem appendLoop_ok (vals : List Str) (h : vals.length = 1) : ∀ names : List Str,
    ∃ r, appendLoop vals names = .ok r
  | [] => ⟨_, rfl⟩
  | n :: rest => by
    obtain ⟨r, hr⟩ := appendLoop_ok vals h rest
    match vals, h with
    | [v], _ =>
      rw [appendLoop, idx_of_eq sMRVals0 [v] (i := 0) (n := 0) (x := v) rfl rfl, hr]
      exact ⟨_, rfl⟩

theorem prependLoop_ok (names : List Str) (h : names.length = 1) : ∀ vals : List Str,
    ∃ r, prependLoop names vals = .ok r
  | [] => ⟨_, rfl⟩
  | v :: rest => by
    obtain ⟨r, hr⟩ := prependLoop_ok names h rest
    match names, h with
    | [n], _ =>
      rw [prependLoop, idx_of_eq sMRNames0 [n] (i := 0) (n := 0) (x := n) rfl rfl, hr]
      exact ⟨_, rfl⟩

theorem cartInner_ok (lv : Nat) (n : Str) (i : Nat) : ∀ (rest : List Str) (j : Nat) (out : List Str),
    i * lv + j + rest.length ≤ out.length →
    ∃ out', cartInner (lv : Int) n (i : Int) rest (j : Int) out = .ok out' ∧ out'.length = out.length
  | [], _, out, _ => ⟨out, rfl, rfl⟩
  | v :: rest, j, out, h => by
    have hidx : (i : Int) * (lv : Int) + (j : Int) = ((i * lv + j : Nat) : Int) := by
      simp [Int.natCast_add, Int.natCast_mul]
    have hlt : i * lv + j < out.length := by simp only [List.length_cons] at h; omega
    rw [cartInner, setIdx_of_eq sMRConcat out _ hidx hlt]
    simp only [ok_bind]
    obtain ⟨o, ho, hl⟩ := cartInner_ok lv n i rest (j + 1) (out.set (i * lv + j) (n ++ v))
      (by simp only [List.length_cons] at h; simp only [List.length_set]; omega)
    rw [show ((j : Int) + 1) = ((j + 1 : Nat) : Int) by omega]
    exact ⟨o, ho, by simpa using hl⟩

theorem cartOuter_ok (vals : List Str) : ∀ (rest : List Str) (i : Nat) (out : List Str),
    (i + rest.length) * vals.length ≤ out.length →
    ∃ out', cartOuter vals rest (i : Int) out = .ok out' ∧ out'.length = out.length
  | [], _, out, _ => ⟨out, rfl, rfl⟩
  | n :: rest, i, out, h => by
    have h1 : (i + 1) * vals.length ≤ (i + (n :: rest).length) * vals.length :=
      Nat.mul_le_mul_right _ (by simp only [List.length_cons]; omega)
    have h2 : (i + 1) * vals.length = i * vals.length + vals.length := by rw [Nat.add_mul, Nat.one_mul]
    obtain ⟨o1, ho1, hl1⟩ := cartInner_ok vals.length n i vals 0 out (by omega)
    rw [cartOuter]
    rw [show ((0 : Nat) : Int) = 0 from rfl] at ho1
    rw [ho1]
    simp only [ok_bind]
    obtain ⟨o2, ho2, hl2⟩ := cartOuter_ok vals rest (i + 1) o1 (by
      rw [hl1]
      have : i + 1 + rest.length = i + (n :: rest).length := by simp only [List.length_cons]; omega
      rw [this]; exact h)
    rw [show ((i : Int) + 1) = ((i + 1 : Nat) : Int) by omega]
    exact ⟨o2, ho2, by rw [hl2, hl1]⟩

theorem concatStep_np (names vals : List Str) : (concatStep names vals).isPanic = false := by
  unfold concatStep
  split
  · rename_i h
    obtain ⟨r, hr⟩ := appendLoop_ok vals h names
    rw [hr]; rfl
  · split
    · rename_i h
      obtain ⟨r, hr⟩ := prependLoop_ok names h vals
      rw [hr]; rfl
    · split
      · rfl
      · obtain ⟨o, ho, _⟩ := cartOuter_ok vals names 0
          (List.replicate (names.length * vals.length) []) (by simp)
        rw [show ((0 : Nat) : Int) = 0 from rfl] at ho
        rw [ho]; rfl

theorem classWf_even : ∀ rune : List Nat, Rx.classWf rune = true → rune.length % 2 = 0
  | [], _ => rfl
  | [_], h => by simp [Rx.classWf] at h
  | _ :: _ :: rest, h => by
    rw [Rx.classWf, Bool.and_eq_true] at h
    have := classWf_even rest h.2
    simp only [List.length_cons]
    omega

theorem classSizeLoop_ok (rune : List Nat) (he : rune.length % 2 = 0) :
    ∀ (fuel k : Nat) (sz : Int), 2 * k ≤ rune.length → rune.length + 2 ≤ 2 * (fuel + k) →
      ∃ r, classSizeLoop rune fuel ((2 * k : Nat) : Int) sz = .ok r
  | 0, k, _, h1, h2 => by omega
  | fuel + 1, k, sz, h1, h2 => by
    rw [classSizeLoop]
    by_cases hlt : ((2 * k : Nat) : Int) < rune.length
    · have hn : 2 * k + 1 < rune.length := by omega
      rw [if_pos hlt,
        idx_of_eq sMRRuneI1 rune (n := 2 * k + 1) (x := rune[2 * k + 1]) (by omega)
          (List.getElem?_eq_getElem hn)]
      simp only [ok_bind]
      rw [idx_nat sMRRuneI rune (2 * k) (by omega)]
      simp only [ok_bind]
      rw [show (((2 * k : Nat) : Int) + 2) = ((2 * (k + 1) : Nat) : Int) by omega]
      exact classSizeLoop_ok rune he fuel (k + 1) _ (by omega) (by omega)
    · rw [if_neg hlt]; exact ⟨_, rfl⟩

theorem classEnumLoop_np (rune : List Nat) (he : rune.length % 2 = 0) :
    ∀ (fuel k : Nat) (names : List Str), 2 * k ≤ rune.length → rune.length + 2 ≤ 2 * (fuel + k) →
      (classEnumLoop rune fuel ((2 * k : Nat) : Int) names).isPanic = false
  | 0, k, _, h1, h2 => by omega
  | fuel + 1, k, names, h1, h2 => by
    rw [classEnumLoop]
    by_cases hlt : ((2 * k : Nat) : Int) < rune.length
    · have hn : 2 * k + 1 < rune.length := by omega
      rw [if_pos hlt, idx_nat sMRRuneI rune (2 * k) (by omega)]
      simp only [ok_bind]
      rw [idx_of_eq sMRRuneI1 rune (n := 2 * k + 1) (x := rune[2 * k + 1]) (by omega)
          (List.getElem?_eq_getElem hn)]
      simp only [ok_bind]
      split
      · rfl
      · rw [show (((2 * k : Nat) : Int) + 2) = ((2 * (k + 1) : Nat) : Int) by omega]
        exact classEnumLoop_np rune he fuel (k + 1) _ (by omega) (by omega)
    · rw [if_neg hlt]; rfl

theorem matchClass_np (rune : List Nat) (hw : Rx.classWf rune = true) :
    (matchClass rune).isPanic = false := by
  have he := classWf_even rune hw
  unfold matchClass
  obtain ⟨sz, hsz⟩ := classSizeLoop_ok rune he (rune.length + 1) 0 0 (by omega) (by omega)
  rw [show (((2 * 0 : Nat)) : Int) = 0 from rfl] at hsz
  rw [hsz]
  simp only [ok_bind]
  split
  · rfl
  · have := classEnumLoop_np rune he (rune.length + 1) 0 [] (by omega) (by omega)
    rw [show (((2 * 0 : Nat)) : Int) = 0 from rfl] at this
    exact this

theorem wfAll_cons (r : Rx.Regex) (rest : List Rx.Regex) :
    Rx.wfAll (r :: rest) = (r.wf && Rx.wfAll rest) := by rw [Rx.wfAll]

mutual
  theorem matchRegex_np : ∀ re : Rx.Regex, re.wf = true → (matchRegex re).isPanic = false
    | .mk op flags rune sub, hw => by
      rw [Rx.wf_mk, Bool.and_eq_true] at hw
      cases op
      case capture =>
        rw [matchRegex]
        split
        · rfl
        · have hne : sub ≠ [] := by
            intro h; rw [h] at hw; simp at hw
          exact matchSub0_np sub hne hw.2
      case concat =>
        rw [matchRegex]
        split
        · rfl
        · have hne : sub ≠ [] := by
            intro h; rw [h] at hw; simp at hw
          exact matchConcat_np sub hne hw.2
      case charClass =>
        rw [matchRegex]
        split
        · rfl
        · have h1 := hw.1
          simp only [Bool.and_eq_true] at h1
          exact matchClass_np rune h1.1
      case alternate =>
        rw [matchRegex]
        split
        · rfl
        · apply isPanic_bind (matchAlt_np sub hw.2)
          intro r
          cases r <;> rfl
      all_goals (unfold matchRegex; split <;> rfl)
  theorem matchSub0_np : ∀ sub : List Rx.Regex, sub ≠ [] → Rx.wfAll sub = true →
      (matchSub0 sub).isPanic = false
    | [], h, _ => absurd rfl h
    | r :: _, _, hw => by
      rw [wfAll_cons, Bool.and_eq_true] at hw
      rw [matchSub0]
      exact matchRegex_np r hw.1
  theorem matchConcat_np : ∀ sub : List Rx.Regex, sub ≠ [] → Rx.wfAll sub = true →
      (matchConcat sub).isPanic = false
    | [], h, _ => absurd rfl h
    | r :: rest, _, hw => by
      rw [wfAll_cons, Bool.and_eq_true] at hw
      rw [matchConcat]
      apply isPanic_bind (matchRegex_np r hw.1)
      intro r0
      cases r0 with
      | none => rfl
      | some names => exact concatLoop_np names rest hw.2
  theorem concatLoop_np : ∀ (names : List Str) (sub : List Rx.Regex), Rx.wfAll sub = true →
      (concatLoop names sub).isPanic = false
    | _, [], _ => rfl
    | names, r :: rest, hw => by
      rw [wfAll_cons, Bool.and_eq_true] at hw
      rw [concatLoop]
      apply isPanic_bind (matchRegex_np r hw.1)
      intro rv
      cases rv with
      | none => rfl
      | some vals =>
        apply isPanic_bind (concatStep_np names vals)
        intro st
        cases st with
        | none => rfl
        | some names' => exact concatLoop_np names' rest hw.2
  theorem matchAlt_np : ∀ sub : List Rx.Regex, Rx.wfAll sub = true → (matchAlt sub).isPanic = false
    | [], _ => rfl
    | r :: rest, hw => by
      rw [wfAll_cons, Bool.and_eq_true] at hw
      rw [matchAlt]
      apply isPanic_bind (matchRegex_np r hw.1)
      intro rv
      cases rv with
      | none => rfl
      | some vals =>
        apply isPanic_bind (matchAlt_np rest hw.2)
        intro rr
        cases rr <;> rfl
end

theorem wfAll_drop : ∀ (n : Nat) (l : List Rx.Regex), Rx.wfAll l = true → Rx.wfAll (l.drop n) = true
  | 0, _, h => h
  | _ + 1, [], h => h
  | n + 1, r :: rest, h => by
    rw [wfAll_cons, Bool.and_eq_true] at h
    exact wfAll_drop n rest h.2

theorem wfAll_take : ∀ (n : Nat) (l : List Rx.Regex), Rx.wfAll l = true → Rx.wfAll (l.take n) = true
  | 0, _, _ => by rw [List.take_zero, Rx.wfAll]
  | _ + 1, [], h => h
  | n + 1, r :: rest, h => by
    rw [wfAll_cons, Bool.and_eq_true] at h
    rw [List.take_succ_cons, wfAll_cons, Bool.and_eq_true]
    exact ⟨h.1, wfAll_take n rest h.2⟩

theorem matchExactTree_np (re : Rx.Regex) (hw : re.wf = true) : (matchExactTree re).isPanic = false := by
  obtain ⟨op, flags, rune, sub⟩ := re
  rw [Rx.wf_mk, Bool.and_eq_true] at hw
  rw [matchExactTree]
  split
  · rfl
  · rename_i hop
    have hop' : op = .concat := by simpa using hop
    split
    · rfl
    · rename_i hlen
      have hl : 2 ≤ sub.length := by omega
      rw [idx_of_eq sMESub0 sub (i := 0) (n := 0) (x := sub[0]) rfl (List.getElem?_eq_getElem (by omega))]
      simp only [ok_bind]
      split
      · rfl
      · rw [idx_of_eq sMESubLast sub (n := sub.length - 1) (x := sub[sub.length - 1]) (by omega)
          (List.getElem?_eq_getElem (by omega))]
        simp only [ok_bind]
        split
        · rfl
        · rw [slice_of_eq sMESubMid sub (i := 1) (n := 1) (m := sub.length - 1) rfl (by omega)
            (by omega) (by omega)]
          simp only [ok_bind]
          split
          · rfl
          · rename_i hin
            apply matchRegex_np
            rw [Rx.wf_mk, Bool.and_eq_true, hop']
            refine ⟨?_, wfAll_drop 1 _ (wfAll_take _ _ hw.2)⟩
            simp only [decide_eq_true_eq]
            omega

/-! ## `RewriteFields`: prologue of the call case -/

/-- The descent either ends on a call (name, args) or runs out of fuel; it never panics. -/
theorem innerCallLoop_cases : ∀ (fuel : Nat) (name : Str) (args : List Expr),
    (∃ r, innerCallLoop fuel name args = .ok r) ∨ (∃ m, innerCallLoop fuel name args = .err m)
  | 0, _, _ => .inr ⟨_, rfl⟩
  | fuel + 1, name, args => by
    rw [innerCallLoop]
    split
    · rename_i h
      rw [idx_of_eq sRFArgs0 args (i := 0) (n := 0) (x := args[0]) rfl (List.getElem?_eq_getElem h)]
      simp only [ok_bind]
      split
      · exact innerCallLoop_cases fuel _ _
      · exact .inl ⟨_, rfl⟩
    · exact .inl ⟨_, rfl⟩

theorem rewriteFieldsCallHead_np (fuel : Nat) (name : Str) (args : List Expr) :
    (rewriteFieldsCallHead fuel (.call name args)).isPanic = false := by
  unfold rewriteFieldsCallHead
  rw [cloneExpr_eq]
  simp only [ok_bind, asCall, assertT]
  rcases innerCallLoop_cases fuel name args with ⟨r, hr⟩ | ⟨m, hm⟩
  · rw [hr]
    obtain ⟨cn, cargs⟩ := r
    simp only [ok_bind]
    split
    · rfl
    · rename_i h
      rw [idx_of_eq sRFArgs0 cargs (i := 0) (n := 0) (x := cargs[0]) rfl
        (List.getElem?_eq_getElem (by omega))]
      rfl
  · rw [hm]; rfl

/-- The descent ends: some fuel suffices (the tree is finite). -/
theorem innerCallLoop_terminates : ∀ (name : Str) (args : List Expr),
    ∃ fuel r, innerCallLoop fuel name args = .ok r
  | name, [] => ⟨1, _, rfl⟩
  | name, .call n' a' :: rest => by
    obtain ⟨f, r, h⟩ := innerCallLoop_terminates n' a'
    refine ⟨f + 1, r, ?_⟩
    rw [innerCallLoop, if_pos (by simp),
      idx_of_eq sRFArgs0 _ (i := 0) (n := 0) (x := .call n' a') rfl rfl]
    exact h
  | name, .binary .. :: rest => ⟨1, _, rfl⟩
  | name, .paren _ :: rest => ⟨1, _, rfl⟩
  | name, .varRef .. :: rest => ⟨1, _, rfl⟩
  | name, .distinct _ :: rest => ⟨1, _, rfl⟩
  | name, .wildcard _ :: rest => ⟨1, _, rfl⟩
  | name, .regex _ :: rest => ⟨1, _, rfl⟩
  | name, .string _ :: rest => ⟨1, _, rfl⟩
  | name, .number _ :: rest => ⟨1, _, rfl⟩
  | name, .integer _ :: rest => ⟨1, _, rfl⟩
  | name, .unsigned _ :: rest => ⟨1, _, rfl⟩
  | name, .boolean _ :: rest => ⟨1, _, rfl⟩
  | name, .duration _ :: rest => ⟨1, _, rfl⟩
  | name, .time _ :: rest => ⟨1, _, rfl⟩
  | name, .nil :: rest => ⟨1, _, rfl⟩
  | name, .list _ :: rest => ⟨1, _, rfl⟩
  | name, .boundParam _ :: rest => ⟨1, _, rfl⟩

end InfluxQL.Checked

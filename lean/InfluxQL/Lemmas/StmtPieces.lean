import InfluxQL.Model.ParserStmt
import InfluxQL.Model.PrintStmt
import InfluxQL.Lemmas.ParserTok
import InfluxQL.Lemmas.PMonad
import InfluxQL.Lemmas.Neutral
import InfluxQL.Lemmas.ScanNumber
import InfluxQL.Lemmas.IntLit
import InfluxQL.Lemmas.Digits
import InfluxQL.Lemmas.TotalStmtHandlers
import InfluxQL.Lemmas.QuoteSpell
import InfluxQL.Props.C08
/-
"One printed piece is consumed by one parser step."

The statement printers write a statement as a sequence of pieces — keywords in upper case,
`QuoteIdent(name)`, `QuoteString(s)`, decimal integers, `FormatDuration(d)`, single-character
tokens — separated by single blanks (or by nothing, around `.` and before `,`). This file proves,
piece by piece, that the scanner turns the printed piece followed by an arbitrary continuation `k`
into exactly one token and stops right before `k` (`ScansAs`), and lifts that to the parser steps
(`scanIW`, `parseIdent`, `expectTok`, `optTok`, `parseString`, `ParseUInt64`, `ParseInt`,
`ParseDuration`, …) on a parser state with nothing pushed back (`PState.Before`).

The family theorems of `Props/C02.lean` are compositions of these steps.
-/
namespace InfluxQL
open Gen

/-! ## where the reader stands -/

/-- The reader stands before the runes `k`. One leniency: a loop of the scanner that reads a word
(`scanIdent`) `break`s on the NUL sentinel without un-reading it, so when `k` is the sentinel that
ends every input the reader may already be past it; reading on delivers NUL again, forever. -/
def Cursor.Before (r : Cursor) (k : Str) : Prop := r.chars = k ∨ (k = [eofRune] ∧ r.chars = [])

/-- The parser stands before `k` with nothing pushed back. -/
def PState.Before (s : PState) (k : Str) : Prop := s.n = 0 ∧ s.r.Before k

theorem Cursor.Before.chars_of_cons {r : Cursor} {c : Char} {t : Str} (h : r.Before (c :: t))
    (hc : c ≠ eofRune) : r.chars = c :: t := by
  rcases h with h | ⟨h, _⟩
  · exact h
  · simp only [List.cons.injEq] at h
    exact absurd h.1 hc

theorem PState.Before.of_chars {s : PState} {k : Str} (hn : s.n = 0) (h : s.r.rest.map Prod.fst = k) :
    s.Before k := ⟨hn, Or.inl h⟩

/-- A freshly initialised parser stands before the delivered text followed by the sentinel. -/
theorem PState.init_before (text : Str) (params : List (Str × BoundValue)) (tbl : List (Char × Char)) :
    (PState.init text params tbl).Before (foldCR text ++ [eofRune]) :=
  ⟨rfl, Or.inl (chars_ofRunes text)⟩

/-! ## one piece, one token -/

/-- `piece` followed by `k` scans as the single token `(T, L)`; the scanner stops before `k`.
The piece starts with a rune that is neither blank nor NUL and the token is significant. -/
def ScansAs (piece k : Str) (T : Token) (L : Str) : Prop :=
  (∃ c t, piece = c :: t ∧ isWhitespace c = false ∧ c ≠ eofRune) ∧
  (T ≠ .BOUNDPARAM ∧ T ≠ .WS ∧ T ≠ .COMMENT) ∧
  ∀ r : Cursor, r.chars = piece ++ k → (scan r).1.tok = T ∧ (scan r).1.lit = L ∧ (scan r).2.Before k

/-- What separates printed pieces: nothing, or one blank. -/
def Gap (pre : Str) : Prop := pre = [] ∨ pre = [' ']

theorem Gap.none : Gap [] := Or.inl rfl
theorem Gap.blank : Gap [' '] := Or.inr rfl

/-- The scanner-level fact behind every step: after the gap the next significant lexeme is the
piece's token. -/
theorem scan_gap_piece (s : PState) (pre piece k : Str) (T : Token) (L : Str) (hpre : Gap pre)
    (hs : s.Before (pre ++ (piece ++ k))) (hsc : ScansAs piece k T L) :
    ∃ lx s', scanIW.run s = .ok (lx, s') ∧ pscan.run s = (if pre = [] then .ok (lx, s') else pscan.run s) ∧
      lx.tok = T ∧ lx.lit = L ∧ s'.Before k := by
  obtain ⟨⟨c, t, hp, hcw, hce⟩, ⟨hT1, hT2, hT3⟩, hscan⟩ := hsc
  obtain ⟨hn, hb⟩ := hs
  rcases hpre with rfl | rfl
  · have hch : s.r.chars = piece ++ k := by
      have : ([] : Str) ++ (piece ++ k) = c :: (t ++ k) := by rw [hp]; rfl
      rw [this] at hb
      rw [hp]
      exact hb.chars_of_cons hce
    obtain ⟨h1, h2, h3⟩ := hscan s.r hch
    refine ⟨(scan s.r).1, _, scanIW_fresh s hn (by rw [h1]; exact hT1) (by rw [h1]; exact hT2)
      (by rw [h1]; exact hT3), ?_, h1, h2, hn, h3⟩
    rw [if_pos rfl]
    exact pscan_fresh s hn (by rw [h1]; exact hT1)
  · have hch : s.r.chars = [' '] ++ (piece ++ k) := hb.chars_of_cons (by decide)
    have hnw : NotWsHead (piece ++ k) := by
      intro x y hxy
      rw [hp] at hxy
      simp only [List.cons_append, List.cons.injEq] at hxy
      rw [← hxy.1]; exact hcw
    obtain ⟨hw1, hw2⟩ := scan_wsRun s.r [' '] (piece ++ k) hch ⟨by simp, by simp; decide⟩ hnw
    have hd : dropEof (piece ++ k) = piece ++ k := by
      rw [hp]; simp [dropEof, hce]
    rw [hd] at hw2
    obtain ⟨h1, h2, h3⟩ := hscan (scan s.r).2 hw2
    refine ⟨(scan (scan s.r).2).1, _, scanIW_skip_ws s hn hw1 (by rw [h1]; exact hT1) (by rw [h1]; exact hT2)
      (by rw [h1]; exact hT3), ?_, h1, h2, hn, h3⟩
    rw [if_neg (by simp)]

/-- `ScanIgnoreWhitespace` over a gap and one printed piece. -/
theorem scanIW_piece0 (s : PState) (pre piece k : Str) (T : Token) (L : Str) (hpre : Gap pre)
    (hs : s.Before (pre ++ (piece ++ k))) (hsc : ScansAs piece k T L) :
    ∃ lx s', scanIW.run s = .ok (lx, s') ∧ lx.tok = T ∧ lx.lit = L ∧ s'.Before k := by
  obtain ⟨lx, s', h, _, h1, h2, h3⟩ := scan_gap_piece s pre piece k T L hpre hs hsc
  exact ⟨lx, s', h, h1, h2, h3⟩

/-- Raw `Scan` directly before a printed piece (no gap). -/
theorem pscan_piece (s : PState) (piece k : Str) (T : Token) (L : Str)
    (hs : s.Before (piece ++ k)) (hsc : ScansAs piece k T L) :
    ∃ lx s', pscan.run s = .ok (lx, s') ∧ lx.tok = T ∧ lx.lit = L ∧ s'.Before k := by
  obtain ⟨lx, s', _, h, h1, h2, h3⟩ := scan_gap_piece s [] piece k T L Gap.none hs hsc
  rw [if_pos rfl] at h
  exact ⟨lx, s', h, h1, h2, h3⟩

/-! ## words: keywords and bare identifiers -/

/-- What may follow a bare word (keyword, bare identifier): a rune that can neither continue it
nor open a quoted identifier glued to it — or the end of the input. -/
def WordEnd (k : Str) : Prop :=
  (∃ x t, k = x :: t ∧ isIdentChar x = false ∧ x ≠ '"' ∧ x ≠ eofRune) ∨ k = [eofRune]

theorem WordEnd.blank (k : Str) : WordEnd (' ' :: k) := Or.inl ⟨' ', k, rfl, by decide, by decide, by decide⟩
theorem WordEnd.dot (k : Str) : WordEnd ('.' :: k) := Or.inl ⟨'.', k, rfl, by decide, by decide, by decide⟩
theorem WordEnd.semicolon (k : Str) : WordEnd (';' :: k) := Or.inl ⟨';', k, rfl, by decide, by decide, by decide⟩
theorem WordEnd.eof : WordEnd [eofRune] := Or.inr rfl

/-- A run of identifier characters starting with a letter or `_`, followed by a word end, is read
by `Scan` as one word: the keyword it spells (in any case), else the identifier. -/
theorem scan_word (r : Cursor) (c : Char) (tl k : Str) (h : r.chars = (c :: tl) ++ k)
    (hc : isIdentFirstChar c = true) (htl : ∀ y ∈ tl, isIdentChar y = true) (hk : WordEnd k) :
    (scan r).1 = (if lookup (c :: tl) ≠ .IDENT then ⟨lookup (c :: tl), (r.read.1).2, []⟩
      else ⟨.IDENT, (r.read.1).2, c :: tl⟩) ∧ (scan r).2.Before k := by
  obtain ⟨hws, hlu, hic, hcq, hce⟩ := isIdentFirstChar_facts hc
  have hall : ∀ y ∈ c :: tl, isIdentChar y = true ∧ y ≠ eofRune := by
    intro y hy; simp at hy; rcases hy with rfl | hy
    · exact ⟨hic, hce⟩
    · exact ⟨htl y hy, isIdentChar_ne_eof (htl y hy)⟩
  obtain ⟨hr1, _, hpk⟩ := Cursor.chars_cons (x := tl ++ k) (by simpa using h)
  have hscan : scan r = scanIdent true r := by
    unfold scan; rw [hr1]; unfold scanFrom; simp [hws, hlu]
  have hkstop : ∀ x t, k = x :: t → (isIdentChar x && x != eofRune) = false := by
    intro x t hxt
    rcases hk with ⟨x', t', hk', hx', _, _⟩ | hk'
    · rw [hk'] at hxt; simp only [List.cons.injEq] at hxt; rw [← hxt.1, hx']; rfl
    · rw [hk'] at hxt; simp only [List.cons.injEq] at hxt; rw [← hxt.1]; decide
  obtain ⟨hrw1, hrw2⟩ := readWhile_chars isIdentChar r (c :: tl) k h hall hkstop
  have hsb1 : (scanBareIdent r).1 = c :: tl := by unfold scanBareIdent; exact hrw1
  have hsb2 : (scanBareIdent r).2.chars = dropEof k := by
    unfold scanBareIdent; dsimp only; rw [Cursor.chars_eatEof, hrw2]
  have hloop : ∃ r', scanIdentLoop (r.read.1).2 (r.rest.length + 2) r [] = ((none, c :: tl), r') ∧ r'.Before k := by
    rw [show r.rest.length + 2 = (r.rest.length + 1) + 1 from rfl, scanIdentLoop]
    simp only [hpk, hce, hcq, hic, if_false, if_true]
    rw [scanIdentLoop]
    rcases hk with ⟨x, t, hk', hx, hxq, hxe⟩ | hk'
    · have hd : dropEof k = x :: t := by rw [hk']; simp [dropEof, hxe]
      rw [hd] at hsb2
      obtain ⟨_, _, hpk'⟩ := Cursor.chars_cons hsb2
      simp only [hpk', hxe, hxq, hx, if_false, hsb1, List.nil_append]
      exact ⟨_, rfl, Or.inl (by rw [hsb2, hk'])⟩
    · have hd : dropEof k = [] := by rw [hk']; simp [dropEof]
      rw [hd] at hsb2
      obtain ⟨hpk', hrd⟩ := Cursor.chars_nil hsb2
      simp only [hpk', if_true, hsb1, List.nil_append]
      exact ⟨_, rfl, Or.inr ⟨hk', hrd⟩⟩
  obtain ⟨r', hl, hb⟩ := hloop
  rw [hscan]
  unfold scanIdent
  dsimp only
  rw [hl]
  dsimp only
  by_cases hlk : lookup (c :: tl) = .IDENT
  · simp [hlk, hb]
  · simp [hlk, hb]

/-- A keyword token whose canonical spelling (`Token.String()`: upper case) is a word that
`Lookup` maps back to it. -/
def _root_.InfluxQL.Gen.Token.isKw (t : Token) : Bool :=
  lookup t.str == t && t != .IDENT &&
    (match t.str with
     | [] => false
     | c :: tl => isIdentFirstChar c && tl.all isIdentChar)

/-- Every entry of the regenerated keyword table is such a token. -/
theorem keywords_isKw : ∀ p ∈ keywords, p.2.isKw = true := by decide +kernel

/-- **Keywords.** The upper-case spelling of a keyword followed by a word end scans as that
keyword. -/
theorem scansAs_kw (t : Token) (k : Str) (ht : t.isKw = true) (hk : WordEnd k) : ScansAs t.str k t [] := by
  unfold Gen.Token.isKw at ht
  simp only [Bool.and_eq_true, beq_iff_eq, bne_iff_ne, ne_eq] at ht
  obtain ⟨⟨hlk, hni⟩, hshape⟩ := ht
  have hsig : t ≠ .BOUNDPARAM ∧ t ≠ .WS ∧ t ≠ .COMMENT := by
    refine ⟨?_, ?_, ?_⟩ <;> (intro e; subst e; revert hlk; decide +kernel)
  cases hstr : t.str with
  | nil => rw [hstr] at hshape; cases hshape
  | cons c tl =>
    rw [hstr] at hshape hlk
    simp only [Bool.and_eq_true, List.all_eq_true] at hshape
    obtain ⟨hc, htl⟩ := hshape
    obtain ⟨hws, _, _, _, hce⟩ := isIdentFirstChar_facts hc
    refine ⟨⟨c, tl, rfl, hws, hce⟩, hsig, ?_⟩
    intro r hr
    obtain ⟨h1, h2⟩ := scan_word r c tl k hr hc htl hk
    have hne : lookup (c :: tl) ≠ .IDENT := by rw [hlk]; exact hni
    rw [if_pos hne] at h1
    rw [h1]
    exact ⟨hlk, rfl, h2⟩

/-! ## identifiers -/

theorem flatMap_escF_of_expressible (q : Char) (s : Str) (h : Expressible s) :
    s.flatMap (escF q) = s.flatMap (esc q) := by
  induction s with
  | nil => rfl
  | cons c s ih =>
    have hc : c ≠ '\r' := (h c (by simp)).2
    simp only [List.flatMap_cons, escF, hc, if_false]
    rw [ih (fun x hx => h x (by simp [hx]))]

/-- What may follow `QuoteIdent(name)`: anything when the name is printed in quotes, a word end
when it is printed bare. -/
def IdentEnd (name k : Str) : Prop := (identNeedsQuotes name || name == []) = true ∨ WordEnd k

theorem IdentEnd.of_wordEnd {name k : Str} (h : WordEnd k) : IdentEnd name k := Or.inr h

/-- **Identifiers.** `QuoteIdent(name)` of an expressible name (no NUL, no CR — every name the
parser can produce) scans as the identifier `name`. -/
theorem scansAs_ident (name k : Str) (hex : Expressible name) (hk : IdentEnd name k) :
    ScansAs (quoteIdent [name]) k .IDENT name := by
  have hsig : Token.IDENT ≠ .BOUNDPARAM ∧ Token.IDENT ≠ .WS ∧ Token.IDENT ≠ .COMMENT := by decide
  rw [C06.quoteIdent_single]
  by_cases hq : (identNeedsQuotes name || name == []) = true
  · rw [if_pos hq]
    refine ⟨⟨'"', _, rfl, by decide, by decide⟩, hsig, ?_⟩
    intro r hr
    have hesc := flatMap_escF_of_expressible '"' name hex
    have hr' : r.rest.map Prod.fst = '"' :: (name.flatMap (escF '"') ++ '"' :: k) := by
      rw [hesc]
      have : r.chars = r.rest.map Prod.fst := rfl
      rw [← this, hr]
      simp
    rcases scan_quotedIdent r name k hr' with ⟨_, h1, h2, h3⟩ | ⟨hne, _⟩
    · exact ⟨h1, h2, Or.inl h3⟩
    · exact absurd hex hne
  · rw [if_neg hq]
    simp only [Bool.or_eq_true, beq_iff_eq, not_or] at hq
    obtain ⟨hq1, hne⟩ := hq
    have hq1 : identNeedsQuotes name = false := by simpa using hq1
    obtain ⟨hlk, c, tl, hname, hc, htl⟩ := (identNeedsQuotes_false_iff name hne).mp hq1
    obtain ⟨hws, _, hic, _, hce⟩ := isIdentFirstChar_facts hc
    have hflat : name.flatMap (esc '"') = name := by
      apply C06.esc_identChars
      intro y hy
      rw [hname] at hy
      rcases List.mem_cons.mp hy with rfl | hy
      · exact hic
      · exact htl y hy
    rw [hflat]
    have hk' : WordEnd k := by
      rcases hk with hk | hk
      · simp only [Bool.or_eq_true, beq_iff_eq] at hk
        rcases hk with hk | hk
        · rw [hq1] at hk; cases hk
        · exact absurd hk hne
      · exact hk
    refine ⟨⟨c, tl, hname, hws, hce⟩, hsig, ?_⟩
    intro r hr
    rw [hname] at hr hlk
    obtain ⟨h1, h2⟩ := scan_word r c tl k hr hc htl hk'
    have : ¬ lookup (c :: tl) ≠ .IDENT := by simp [hlk]
    rw [if_neg this] at h1
    rw [h1, hname]
    exact ⟨rfl, rfl, h2⟩

/-! ## string literals -/

/-- **Strings.** `QuoteString(v)` of an expressible value scans as the string `v`, whatever
follows. -/
theorem scansAs_string (v k : Str) (hex : Expressible v) : ScansAs (quoteString v) k .STRING v := by
  rw [C06.quoteString_eq]
  refine ⟨⟨'\'', _, rfl, by decide, by decide⟩, by decide, ?_⟩
  intro r hr
  have hr' : r.rest.map Prod.fst = '\'' :: (v.flatMap (escF '\'') ++ '\'' :: k) := by
    rw [flatMap_escF_of_expressible '\'' v hex]
    have : r.chars = r.rest.map Prod.fst := rfl
    rw [← this, hr]
    simp
  rcases scan_quotedString r v k hr' with ⟨_, h1, h2, h3⟩ | ⟨hne, _⟩
  · exact ⟨h1, h2, Or.inl h3⟩
  · exact absurd hex hne

/-! ## integers and durations -/

/-- What may follow a printed integer: no digit, no `.`, no unit letter. -/
def NumEnd (k : Str) : Prop := ∀ x t, k = x :: t → isDigit x = false ∧ x ≠ '.' ∧ isDurChar x = false

theorem NumEnd.blank (k : Str) : NumEnd (' ' :: k) := by
  intro x t h; simp only [List.cons.injEq] at h; rw [← h.1]; decide
theorem NumEnd.semicolon (k : Str) : NumEnd (';' :: k) := by
  intro x t h; simp only [List.cons.injEq] at h; rw [← h.1]; decide
theorem NumEnd.eof : NumEnd [eofRune] := by
  intro x t h; simp only [List.cons.injEq] at h; rw [← h.1]; decide

theorem Cursor.peek_eq_head (r : Cursor) : r.peek = r.chars.head?.getD eofRune := by
  unfold Cursor.peek Cursor.chars
  cases r.rest <;> rfl

/-- **Integers.** The decimal digits of a natural number scan as one INTEGER token. -/
theorem scansAs_nat (n : Nat) (k : Str) (hk : NumEnd k) : ScansAs (natDigits n) k .INTEGER (natDigits n) := by
  have hds := natDigits_all_digits n
  have hne := natDigits_ne_nil n
  cases hnd : natDigits n with
  | nil => exact absurd hnd hne
  | cons d0 dtl =>
    rw [hnd] at hds
    have hd0 := hds d0 (by simp)
    obtain ⟨hws, hlu⟩ := isDigit_facts hd0
    refine ⟨⟨d0, dtl, rfl, hws, isDigit_ne_eof hd0⟩, by decide, ?_⟩
    intro r hr
    obtain ⟨hr1, _, _⟩ := Cursor.chars_cons (x := dtl ++ k) (by simpa using hr)
    have hscan : scan r = scanNumber r r.read.1.2 := by
      unfold scan; rw [hr1]; unfold scanFrom; simp [hws, hlu, hd0]
    obtain ⟨e1, e2⟩ := readWhile_chars isDigit r (d0 :: dtl) k hr
      (fun y hy => ⟨hds y hy, isDigit_ne_eof (hds y hy)⟩)
      (fun x t hxt => by rw [(hk x t hxt).1]; rfl)
    have hpk : (r.readWhile isDigit).2.peek ≠ '.' ∧ isDurChar (r.readWhile isDigit).2.peek = false := by
      rw [Cursor.peek_eq_head, e2]
      cases k with
      | nil => exact ⟨by decide, by decide⟩
      | cons x t => exact ⟨(hk x t rfl).2.1, (hk x t rfl).2.2⟩
    have hprefix : scanNumberPrefix r = (d0 :: dtl, false, (r.readWhile isDigit).2) := by
      unfold scanNumberPrefix scanDigits
      dsimp only
      simp [hpk.1, e1]
    rw [hscan]
    unfold scanNumber
    rw [hprefix]
    dsimp only
    simp only [Bool.not_false, if_true, hpk.2, Bool.false_eq_true, if_false]
    exact ⟨trivial, trivial, Or.inl e2⟩

/-- A unit suffix of `FormatDuration`: a letter (or µ) followed by letters, µ, digits. -/
def suffixOK : Str → Bool
  | [] => false
  | c :: tl => isDurChar c && tl.all isDurTailChar

theorem formatLadderGo_shape (d : Int) (hd : 0 ≤ d) (l : List (Int × Str))
    (hl : ∀ p ∈ l, 0 < p.1 ∧ suffixOK p.2 = true) :
    ∃ q sfx, formatLadderGo d l = natDigits q ++ sfx ∧ suffixOK sfx = true := by
  have hnn : ∀ v : Int, 0 ≤ v → intDigits v = natDigits v.natAbs := by
    intro v hv
    unfold intDigits
    rw [if_neg (by omega)]
  induction l with
  | nil => exact ⟨d.natAbs, formatFallbackSuffix, by rw [formatLadderGo, hnn d hd], by decide⟩
  | cons p rest ih =>
    obtain ⟨x, sfx⟩ := p
    have hp := hl (x, sfx) (by simp)
    rw [formatLadderGo]
    split
    · exact ⟨(Int.tdiv d x).natAbs, sfx, by rw [hnn _ (Int.tdiv_nonneg hd (by omega))], hp.2⟩
    · exact ih (fun q hq => hl q (by simp [hq]))

/-- The ladder regenerated from `FormatDuration` has positive divisors and unit suffixes. -/
theorem gen_formatLadder_ok : ∀ p ∈ formatLadder, 0 < p.1 ∧ suffixOK p.2 = true := by decide

/-- `FormatDuration(d)` of a non-negative duration is digits followed by a unit suffix. -/
theorem formatDuration_shape (d : Int) (hd : 0 ≤ d) :
    ∃ q sfx, formatDuration d = natDigits q ++ sfx ∧ suffixOK sfx = true := by
  unfold formatDuration
  split
  · exact ⟨0, ['s'], by decide, by decide⟩
  · exact formatLadderGo_shape d hd formatLadder gen_formatLadder_ok

/-- What may follow a printed duration: a rune that is no letter, µ or digit (the end of the
input qualifies). -/
def DurEnd (k : Str) : Prop := ∃ x t, k = x :: t ∧ isDurTailChar x = false

theorem DurEnd.blank (k : Str) : DurEnd (' ' :: k) := ⟨' ', k, rfl, by decide⟩
theorem DurEnd.semicolon (k : Str) : DurEnd (';' :: k) := ⟨';', k, rfl, by decide⟩
theorem DurEnd.eof : DurEnd [eofRune] := ⟨eofRune, [], rfl, by decide⟩

/-- **Durations.** `FormatDuration(d)`, `d ≥ 0`, scans as one DURATIONVAL token carrying that text. -/
theorem scansAs_dur (d : Int) (hd : 0 ≤ d) (k : Str) (hk : DurEnd k) :
    ScansAs (formatDuration d) k .DURATIONVAL (formatDuration d) := by
  obtain ⟨q, sfx, hf, hs⟩ := formatDuration_shape d hd
  obtain ⟨x, t, rfl, hx⟩ := hk
  rw [hf]
  cases sfx with
  | nil => cases hs
  | cons c tail =>
    simp only [suffixOK, Bool.and_eq_true, List.all_eq_true] at hs
    obtain ⟨hc, htail⟩ := hs
    have hds := natDigits_all_digits q
    have hne := natDigits_ne_nil q
    have hhead : ∃ c' t', natDigits q ++ c :: tail = c' :: t' ∧ isWhitespace c' = false ∧ c' ≠ eofRune := by
      cases hnd : natDigits q with
      | nil => exact absurd hnd hne
      | cons d0 dtl =>
        have hd0 : isDigit d0 = true := hds d0 (by rw [hnd]; simp)
        exact ⟨d0, dtl ++ c :: tail, rfl, (isDigit_facts hd0).1, isDigit_ne_eof hd0⟩
    refine ⟨hhead, by decide, ?_⟩
    intro r hr
    have hr' : r.rest.map Prod.fst = natDigits q ++ c :: (tail ++ x :: t) := by
      have : r.chars = r.rest.map Prod.fst := rfl
      rw [← this, hr]; simp
    obtain ⟨h1, h2, h3⟩ := scan_duration_token r (natDigits q) tail c x t hr' hne hds hc htail hx
    exact ⟨h1, h2, Or.inl h3⟩

/-! ## single-character tokens -/

theorem scan_of_chars_cons (r : Cursor) (c : Char) (k : Str) (h : r.chars = c :: k) :
    scan r = scanFrom c r.read.1.2 r r.read.2 ∧ r.read.2.chars = k := by
  obtain ⟨h1, h2, _⟩ := Cursor.chars_cons h
  unfold scan
  rw [h1]
  exact ⟨rfl, h2⟩

/-- `=` not followed by `~`. -/
theorem scansAs_eq (k : Str) (hk : ∀ t, k ≠ '~' :: t) : ScansAs ['='] k .EQ [] := by
  refine ⟨⟨'=', [], rfl, by decide, by decide⟩, by decide, ?_⟩
  intro r hr
  obtain ⟨hs, hk'⟩ := scan_of_chars_cons r '=' k hr
  have hpk : r.read.2.peek ≠ '~' := by
    rw [Cursor.peek_eq_head, hk']
    cases k with
    | nil => decide
    | cons x t => intro e; simp at e; exact hk t (by rw [e])
  rw [hs]
  unfold scanFrom
  simp only [show isWhitespace '=' = false from by decide, show (isLetter '=' || '=' == '_') = false from by decide,
    show isDigit '=' = false from by decide, show ('=' : Char) ≠ eofRune from by decide,
    show ('=' : Char) ≠ '"' from by decide, show ('=' : Char) ≠ '\'' from by decide,
    show ('=' : Char) ≠ '.' from by decide, show ('=' : Char) ≠ '$' from by decide, Bool.false_eq_true, if_false]
  unfold scanFrom2
  simp only [show ('=' : Char) ≠ '+' from by decide, show ('=' : Char) ≠ '-' from by decide,
    show ('=' : Char) ≠ '*' from by decide, show ('=' : Char) ≠ '/' from by decide,
    show ('=' : Char) ≠ '%' from by decide, show ('=' : Char) ≠ '&' from by decide,
    show ('=' : Char) ≠ '|' from by decide, show ('=' : Char) ≠ '^' from by decide, if_false]
  unfold scanFrom3
  simp only [if_true, hpk, if_false]
  exact ⟨trivial, trivial, Or.inl hk'⟩

/-- `,`. -/
theorem scansAs_comma (k : Str) : ScansAs [','] k .COMMA [] := by
  refine ⟨⟨',', [], rfl, by decide, by decide⟩, by decide, ?_⟩
  intro r hr
  obtain ⟨hs, hk'⟩ := scan_of_chars_cons r ',' k hr
  rw [hs]
  unfold scanFrom
  simp only [show isWhitespace ',' = false from by decide, show (isLetter ',' || ',' == '_') = false from by decide,
    show isDigit ',' = false from by decide, show (',' : Char) ≠ eofRune from by decide,
    show (',' : Char) ≠ '"' from by decide, show (',' : Char) ≠ '\'' from by decide,
    show (',' : Char) ≠ '.' from by decide, show (',' : Char) ≠ '$' from by decide, Bool.false_eq_true, if_false]
  unfold scanFrom2
  simp only [show (',' : Char) ≠ '+' from by decide, show (',' : Char) ≠ '-' from by decide,
    show (',' : Char) ≠ '*' from by decide, show (',' : Char) ≠ '/' from by decide,
    show (',' : Char) ≠ '%' from by decide, show (',' : Char) ≠ '&' from by decide,
    show (',' : Char) ≠ '|' from by decide, show (',' : Char) ≠ '^' from by decide, if_false]
  unfold scanFrom3
  simp only [show (',' : Char) ≠ '=' from by decide, show (',' : Char) ≠ '!' from by decide,
    show (',' : Char) ≠ '>' from by decide, show (',' : Char) ≠ '<' from by decide, if_false]
  unfold scanFrom4
  simp only [show (',' : Char) ≠ '(' from by decide, show (',' : Char) ≠ ')' from by decide, if_false, if_true]
  exact ⟨trivial, trivial, Or.inl hk'⟩

/-- `.` not followed by a digit. -/
theorem scansAs_dot (k : Str) (hk : ∀ x t, k = x :: t → isDigit x = false) : ScansAs ['.'] k .DOT [] := by
  refine ⟨⟨'.', [], rfl, by decide, by decide⟩, by decide, ?_⟩
  intro r hr
  obtain ⟨hs, hk'⟩ := scan_of_chars_cons r '.' k hr
  have hpk : isDigit r.read.2.peek = false := by
    rw [Cursor.peek_eq_head, hk']
    cases k with
    | nil => decide
    | cons x t => exact hk x t rfl
  rw [hs]
  unfold scanFrom
  simp only [show isWhitespace '.' = false from by decide, show (isLetter '.' || '.' == '_') = false from by decide,
    show isDigit '.' = false from by decide, show ('.' : Char) ≠ eofRune from by decide,
    show ('.' : Char) ≠ '"' from by decide, show ('.' : Char) ≠ '\'' from by decide, Bool.false_eq_true, if_false,
    if_true, hpk]
  exact ⟨trivial, trivial, Or.inl hk'⟩

/-! ## looking one token ahead -/

/-- Re-delivery: a token obtained by `ScanIgnoreWhitespace` and pushed back is delivered again,
and the state is the one after the first delivery. -/
theorem scanIWLoop_redeliver (fuel : Nat) (s : PState) (lx : Lexeme) (s1 : PState)
    (h : (scanIWLoop fuel).run s = .ok (lx, s1)) :
    scanIW.run { s1 with n := s1.n + 1 } = .ok (lx, s1) := by
  induction fuel generalizing s with
  | zero => cases h
  | succ f ih =>
    by_cases hsk : (substTok s.params (rawNext false s).1).tok = .WS ∨
        (substTok s.params (rawNext false s).1).tok = .COMMENT
    · rw [scanIWLoop_run_skip f s hsk] at h
      exact ih _ h
    · have h1 : (substTok s.params (rawNext false s).1).tok ≠ .WS := fun e => hsk (Or.inl e)
      have h2 : (substTok s.params (rawNext false s).1).tok ≠ .COMMENT := fun e => hsk (Or.inr e)
      rw [scanIWLoop_run_sig f s h1 h2, pscan_run] at h
      injection h with h
      injection h with ha hb
      subst ha hb
      exact scanIW_run_redeliver false s h1 h2

theorem scanIW_redeliver (s : PState) (lx : Lexeme) (s1 : PState) (h : scanIW.run s = .ok (lx, s1)) :
    scanIW.run { s1 with n := s1.n + 1 } = .ok (lx, s1) := by
  unfold scanIW at h
  rw [P.runBind, P.run_get] at h
  exact scanIWLoop_redeliver _ s lx s1 h

/-- `s'` is `s` after a look-ahead of one token: `ScanIgnoreWhitespace` delivered `lx`, which was
pushed back (`Unscan`). This is how every handler that ends in an optional clause leaves the
parser: positioned before the text that follows the statement, with that text's first
significant token in the push-back buffer. -/
def Peeked (s : PState) (lx : Lexeme) (s' : PState) : Prop :=
  ∃ s1, scanIW.run s = .ok (lx, s1) ∧ s' = { s1 with n := s1.n + 1 }

/-- Looking ahead again changes nothing. -/
theorem Peeked.again {s : PState} {lx : Lexeme} {s' : PState} (h : Peeked s lx s') : Peeked s' lx s' := by
  obtain ⟨s1, h1, rfl⟩ := h
  exact ⟨s1, scanIW_redeliver s lx s1 h1, rfl⟩

/-- An optional token that is absent: one token is looked at and pushed back. -/
theorem optTok_absent (t : Token) {s : PState} {lx : Lexeme} {s' : PState} (h : Peeked s lx s') (hne : lx.tok ≠ t) :
    (optTok t).run s = .ok (false, s') := by
  obtain ⟨s1, h1, rfl⟩ := h
  unfold optTok
  rw [P.run_bind _ _ s lx s1 h1]
  simp only [hne, if_false]
  rw [P.run_bind _ _ s1 () _ (unscan_run s1)]
  rfl

/-- The same from the state after the look-ahead. -/
theorem optTok_absent' (t : Token) {s : PState} {lx : Lexeme} {s' : PState} (h : Peeked s lx s') (hne : lx.tok ≠ t) :
    (optTok t).run s' = .ok (false, s') := optTok_absent t h.again hne

/-- At the end of the input the look-ahead sees EOF. -/
theorem peeked_eof (s : PState) (hs : s.Before [eofRune]) : ∃ lx s', Peeked s lx s' ∧ lx.tok = .EOF := by
  obtain ⟨hn, hb⟩ := hs
  have htok : (scan s.r).1.tok = .EOF := by
    rcases hb with hb | ⟨_, hb⟩
    · obtain ⟨hs', _⟩ := scan_of_chars_cons s.r eofRune [] hb
      rw [hs']
      unfold scanFrom
      simp [show isWhitespace eofRune = false from by decide, show isLetter eofRune = false from by decide,
        show isDigit eofRune = false from by decide, show (eofRune == '_') = false from by decide]
    · exact scan_at_end s.r (by simpa [Cursor.chars] using hb)
  have h := scanIW_fresh s hn (by rw [htok]; decide) (by rw [htok]; decide) (by rw [htok]; decide)
  exact ⟨_, _, ⟨_, h, rfl⟩, htok⟩


/-- `ScanIgnoreWhitespace` returns in every state. -/
theorem scanIW_total (s : PState) : ∃ lx s1, scanIW.run s = .ok (lx, s1) := by
  have h := scanIW_any s
  unfold wp at h
  cases hr : scanIW.run s with
  | error e => rw [hr] at h; exact h.elim
  | ok p => exact ⟨p.1, p.2, rfl⟩

/-- After a look-ahead the next `ScanIgnoreWhitespace` behaves as before it. -/
theorem Peeked.scanIW_eq {s : PState} {lx : Lexeme} {s' : PState} (h : Peeked s lx s') :
    scanIW.run s' = scanIW.run s := by
  obtain ⟨s1, h1, rfl⟩ := h
  rw [h1]
  exact scanIW_redeliver s lx s1 h1

/-- The parser stands before `k`, possibly after having looked one token ahead (the token is in
the push-back buffer). Every parser step that starts with `ScanIgnoreWhitespace` behaves the same
in both situations. -/
def PState.Around (s : PState) (k : Str) : Prop := ∃ s0, s0.Before k ∧ (s = s0 ∨ ∃ lx, Peeked s0 lx s)

theorem PState.Before.around {s : PState} {k : Str} (h : s.Before k) : s.Around k := ⟨s, h, Or.inl rfl⟩

theorem PState.Around.scanIW_eq {s : PState} {k : Str} (h : s.Around k) :
    ∃ s0, s0.Before k ∧ scanIW.run s = scanIW.run s0 := by
  obtain ⟨s0, hb, rfl | ⟨lx, hp⟩⟩ := h
  · exact ⟨_, hb, rfl⟩
  · exact ⟨s0, hb, hp.scanIW_eq⟩

/-- The first significant token of `k` is not `t`. -/
def NextNot (k : Str) (t : Token) : Prop :=
  ∀ (s : PState) (lx : Lexeme) (s1 : PState), s.Before k → scanIW.run s = .ok (lx, s1) → lx.tok ≠ t

/-- An optional token that is absent, from a state around `k`: the parser stays around `k`. -/
theorem optTok_absent_around (t : Token) (s : PState) (k : Str) (hs : s.Around k) (hn : NextNot k t) :
    ∃ s', (optTok t).run s = .ok (false, s') ∧ s'.Around k := by
  obtain ⟨s0, hb, rfl | ⟨lx, hp⟩⟩ := hs
  · obtain ⟨lx, s1, h1⟩ := scanIW_total s
    have hp : Peeked s lx { s1 with n := s1.n + 1 } := ⟨s1, h1, rfl⟩
    exact ⟨_, optTok_absent t hp (hn s lx s1 hb h1), s, hb, Or.inr ⟨lx, hp⟩⟩
  · obtain ⟨s1, h1, _⟩ := id hp
    exact ⟨s, optTok_absent' t hp (hn s0 lx s1 hb h1), s0, hb, Or.inr ⟨lx, hp⟩⟩

/-- At the end of the input the next token is EOF. -/
theorem nextNot_eof (t : Token) (ht : t ≠ .EOF) : NextNot [eofRune] t := by
  intro s lx s1 hb h1
  obtain ⟨lx', s', ⟨s1', h1', _⟩, he⟩ := peeked_eof s hb
  rw [h1] at h1'
  injection h1' with h1'
  injection h1' with ha _
  rw [ha, he]
  exact fun e => ht e.symm

/-! ## parser steps over one piece -/

section steps
variable (s : PState) (pre piece k : Str)

/-- `ScanIgnoreWhitespace` over a gap and one printed piece, from a state around the text. -/
theorem scanIW_piece (T : Token) (L : Str) (hpre : Gap pre)
    (hs : s.Around (pre ++ (piece ++ k))) (hsc : ScansAs piece k T L) :
    ∃ lx s', scanIW.run s = .ok (lx, s') ∧ lx.tok = T ∧ lx.lit = L ∧ s'.Before k := by
  obtain ⟨s0, hb, he⟩ := hs.scanIW_eq
  obtain ⟨lx, s', h, h1, h2, h3⟩ := scanIW_piece0 s0 pre piece k T L hpre hb hsc
  exact ⟨lx, s', by rw [he]; exact h, h1, h2, h3⟩

/-- The first significant token of a printed piece is its token. -/
theorem nextNot_piece (T : Token) (L : Str) (t : Token) (hpre : Gap pre) (hsc : ScansAs piece k T L) (hne : T ≠ t) :
    NextNot (pre ++ (piece ++ k)) t := by
  intro s lx s1 hb h1
  obtain ⟨lx', s', h, h1', _, _⟩ := scanIW_piece0 s pre piece k T L hpre hb hsc
  rw [h1] at h
  injection h with h
  injection h with ha _
  rw [ha, h1']
  exact hne

/-- `ParseIdent`. -/
theorem parseIdent_piece (name : Str) (hpre : Gap pre) (hs : s.Around (pre ++ (piece ++ k)))
    (hsc : ScansAs piece k .IDENT name) :
    ∃ s', parseIdent.run s = .ok (name, s') ∧ s'.Before k := by
  obtain ⟨lx, s', h, h1, h2, h3⟩ := scanIW_piece s pre piece k _ _ hpre hs hsc
  refine ⟨s', ?_, h3⟩
  unfold parseIdent
  rw [P.run_bind _ _ s lx s' h]
  simp [h1, h2, StateT.run, pure, StateT.pure, Except.pure]

/-- `ScanIgnoreWhitespace` + comparison with the expected token. -/
theorem expectTok_piece (t : Token) (L : Str) (exp : List String) (hpre : Gap pre)
    (hs : s.Around (pre ++ (piece ++ k))) (hsc : ScansAs piece k t L) :
    ∃ s', (expectTok t exp).run s = .ok ((), s') ∧ s'.Before k := by
  obtain ⟨lx, s', h, h1, _, h3⟩ := scanIW_piece s pre piece k _ _ hpre hs hsc
  refine ⟨s', ?_, h3⟩
  unfold expectTok
  rw [P.run_bind _ _ s lx s' h]
  simp [h1, StateT.run, pure, StateT.pure, Except.pure]

/-- An optional token that is present. -/
theorem optTok_piece (t : Token) (L : Str) (hpre : Gap pre)
    (hs : s.Around (pre ++ (piece ++ k))) (hsc : ScansAs piece k t L) :
    ∃ s', (optTok t).run s = .ok (true, s') ∧ s'.Before k := by
  obtain ⟨lx, s', h, h1, _, h3⟩ := scanIW_piece s pre piece k _ _ hpre hs hsc
  refine ⟨s', ?_, h3⟩
  unfold optTok
  rw [P.run_bind _ _ s lx s' h]
  simp [h1, StateT.run, pure, StateT.pure, Except.pure]

/-- One step of `parseTokens`. -/
theorem parseTokens_cons_piece (t : Token) (rest : List Token) (L : Str) (hpre : Gap pre)
    (hs : s.Around (pre ++ (piece ++ k))) (hsc : ScansAs piece k t L) :
    ∃ s', (parseTokens (t :: rest)).run s = (parseTokens rest).run s' ∧ s'.Before k := by
  obtain ⟨lx, s', h, h1, _, h3⟩ := scanIW_piece s pre piece k _ _ hpre hs hsc
  refine ⟨s', ?_, h3⟩
  rw [parseTokens, P.run_bind _ _ s lx s' h]
  simp [h1]

theorem parseTokens_nil_run (s : PState) : (parseTokens []).run s = .ok ((), s) := rfl

/-- `parseString`. -/
theorem parseString_piece (v : Str) (hpre : Gap pre) (hs : s.Around (pre ++ (piece ++ k)))
    (hsc : ScansAs piece k .STRING v) :
    ∃ s', parseString.run s = .ok (v, s') ∧ s'.Before k := by
  obtain ⟨lx, s', h, h1, h2, h3⟩ := scanIW_piece s pre piece k _ _ hpre hs hsc
  refine ⟨s', ?_, h3⟩
  unfold parseString
  rw [P.run_bind _ _ s lx s' h]
  simp [h1, h2, StateT.run, pure, StateT.pure, Except.pure]

/-- `ParseUInt64` on the digits of `n ≤ MaxUint64`. -/
theorem parseUInt64_piece (n : Nat) (hn : (n : Int) ≤ maxUInt64) (hpre : Gap pre)
    (hs : s.Around (pre ++ (piece ++ k))) (hsc : ScansAs piece k .INTEGER (natDigits n)) :
    ∃ s', parseUInt64.run s = .ok (n, s') ∧ s'.Before k := by
  obtain ⟨lx, s', h, h1, h2, h3⟩ := scanIW_piece s pre piece k _ _ hpre hs hsc
  refine ⟨s', ?_, h3⟩
  unfold parseUInt64
  rw [P.run_bind _ _ s lx s' h]
  have hn' : ¬ ((n : Int) > maxUInt64) := by omega
  simp [h1, h2, allDigits_natDigits, digitsVal_natDigits, hn', StateT.run, pure, StateT.pure, Except.pure]

/-- `ParseInt(min, max)` on the digits of `n` within the range. -/
theorem parseIntRange_piece (min max : Int) (n : Nat) (h1n : min ≤ (n : Int)) (h2n : (n : Int) ≤ max)
    (hmax : (n : Int) ≤ maxInt64) (hpre : Gap pre)
    (hs : s.Around (pre ++ (piece ++ k))) (hsc : ScansAs piece k .INTEGER (natDigits n)) :
    ∃ s', (parseIntRange min max).run s = .ok ((n : Int), s') ∧ s'.Before k := by
  obtain ⟨lx, s', h, h1, h2, h3⟩ := scanIW_piece s pre piece k _ _ hpre hs hsc
  refine ⟨s', ?_, h3⟩
  unfold parseIntRange
  rw [P.run_bind _ _ s lx s' h]
  have ha : ¬ ((n : Int) < minInt64 ∨ (n : Int) > maxInt64) := by unfold minInt64; omega
  have hb : ¬ (min > (n : Int) ∨ (n : Int) > max) := by omega
  simp [h1, h2, splitSign_natDigits, allDigits_natDigits, digitsVal_natDigits, ha, hb, StateT.run, pure, StateT.pure,
    Except.pure]

/-- `ParseDuration` on `FormatDuration(d)`. -/
theorem parseDurationTok_piece (d : Int) (hd0 : 0 ≤ d) (hmax : d ≤ maxInt64) (hpre : Gap pre)
    (hs : s.Around (pre ++ (piece ++ k))) (hsc : ScansAs piece k .DURATIONVAL (formatDuration d)) :
    ∃ s', parseDurationTok.run s = .ok (d, s') ∧ s'.Before k := by
  obtain ⟨lx, s', h, h1, h2, h3⟩ := scanIW_piece s pre piece k _ _ hpre hs hsc
  refine ⟨s', ?_, h3⟩
  unfold parseDurationTok
  rw [P.run_bind _ _ s lx s' h]
  have hp : parseDuration (formatDuration d) = .ok d := C08.parse_format d (by unfold minInt64; omega) hmax
  simp [h1, h2, hp, StateT.run, pure, StateT.pure, Except.pure]

end steps

/-- How a handler ends on the printed form of its statement: `m` returns `a` and stops at `sK`
exactly — or, when the statement ends where an optional clause could follow (`peek`), at `sK`
after a look-ahead of one token which is none of `stop` (the tokens that would open such a clause). -/
def ReturnsAt {α : Type} (m : P α) (s : PState) (a : α) (sK : PState) (peek : Bool) (stop : List Token) : Prop :=
  if peek then ∀ lx s', Peeked sK lx s' → lx.tok ∉ stop → m.run s = .ok (a, s') else m.run s = .ok (a, sK)

theorem ReturnsAt.exact {α : Type} {m : P α} {s : PState} {a : α} {sK : PState} {stop : List Token}
    (h : m.run s = .ok (a, sK)) : ReturnsAt m s a sK false stop := by
  unfold ReturnsAt; rw [if_neg (by simp)]; exact h

/-! ## more on identifiers -/

theorem identFirst_not_digit {c : Char} (h : isIdentFirstChar c = true) : isDigit c = false := by
  cases hd : isDigit c with
  | false => rfl
  | true =>
    exfalso
    unfold isDigit at hd
    unfold isIdentFirstChar isLetter at h
    simp only [Bool.or_eq_true, Bool.and_eq_true, decide_eq_true_eq, beq_iff_eq] at hd h
    omega

/-- `QuoteIdent(name)` never starts with a digit (so a `.` before it is a DOT token, not the
start of a number). -/
theorem quoteIdent_head_not_digit (name k : Str) : ∀ x t, quoteIdent [name] ++ k = x :: t → isDigit x = false := by
  intro x t hxt
  rw [C06.quoteIdent_single] at hxt
  by_cases hq : (identNeedsQuotes name || name == []) = true
  · rw [if_pos hq] at hxt
    simp only [List.cons_append, List.cons.injEq] at hxt
    rw [← hxt.1]; decide
  · rw [if_neg hq] at hxt
    simp only [Bool.or_eq_true, beq_iff_eq, not_or] at hq
    obtain ⟨hq1, hne⟩ := hq
    have hq1 : identNeedsQuotes name = false := by simpa using hq1
    obtain ⟨_, c, tl, hname, hc, _⟩ := (identNeedsQuotes_false_iff name hne).mp hq1
    obtain ⟨_, _, _, hcq, _⟩ := isIdentFirstChar_facts hc
    have h1 : c ≠ '\n' := by intro e; subst e; revert hc; decide
    have h2 : c ≠ '\\' := by intro e; subst e; revert hc; decide
    rw [hname] at hxt
    simp only [List.flatMap_cons, esc, h1, h2, hcq, if_false, List.cons_append, List.nil_append,
      List.cons.injEq] at hxt
    rw [← hxt.1]
    exact identFirst_not_digit hc

/-! ## optional clauses -/

/-- The continuation cannot continue any printed token: it starts with a rune that is no
identifier rune, no `"`, no `.`, no µ — e.g. a blank, `;`, `,`, `)` — or it is the end of the input. -/
def TokEnd (k : Str) : Prop := WordEnd k ∧ NumEnd k ∧ DurEnd k

theorem TokEnd.blank (k : Str) : TokEnd (' ' :: k) := ⟨.blank k, .blank k, .blank k⟩
theorem TokEnd.semicolon (k : Str) : TokEnd (';' :: k) := ⟨.semicolon k, .semicolon k, .semicolon k⟩
theorem TokEnd.eof : TokEnd [eofRune] := ⟨.eof, .eof, .eof⟩

/-- The text of an optional clause: nothing, or something that starts with a blank. -/
def OptText (x : Str) : Prop := x = [] ∨ ∃ y, x = ' ' :: y

theorem TokEnd.opt {x k : Str} (hx : OptText x) (hk : TokEnd k) : TokEnd (x ++ k) := by
  rcases hx with rfl | ⟨y, rfl⟩
  · exact hk
  · exact TokEnd.blank _

theorem OptText.append {x y : Str} (hx : OptText x) (hy : OptText y) : OptText (x ++ y) := by
  rcases hx with rfl | ⟨x', rfl⟩
  · exact hy
  · exact Or.inr ⟨x' ++ y, rfl⟩

/-- A printed keyword is the next token. -/
theorem nextNot_kw (T t : Token) (rest : Str) (hT : T.isKw = true) (hne : T ≠ t) (hw : WordEnd rest) :
    NextNot (' ' :: (T.str ++ rest)) t :=
  nextNot_piece [' '] T.str rest T [] t Gap.blank (scansAs_kw T rest hT hw) hne

/-- The `INF` check before a shard duration, then `ParseDuration`, on `FormatDuration(d)`. -/
theorem parseShardDuration_piece (s : PState) (d : Int) (k : Str) (hd0 : 0 ≤ d) (hmax : d ≤ maxInt64)
    (hs : s.Around (' ' :: (formatDuration d ++ k))) (hk : DurEnd k) :
    ∃ s', parseShardDuration.run s = .ok (d, s') ∧ s'.Before k := by
  obtain ⟨s0, hb, he⟩ := hs.scanIW_eq
  have hsc := scansAs_dur d hd0 k hk
  obtain ⟨lx, s1, h1, t1, _, _⟩ := scanIW_piece0 s0 [' '] (formatDuration d) k _ _ Gap.blank hb hsc
  have hp : Peeked s0 lx { s1 with n := s1.n + 1 } := ⟨s1, h1, rfl⟩
  obtain ⟨s2, h2, b2⟩ := parseDurationTok_piece { s1 with n := s1.n + 1 } [' '] (formatDuration d) k d hd0 hmax
    Gap.blank ⟨s0, hb, Or.inr ⟨lx, hp⟩⟩ hsc
  refine ⟨s2, ?_, b2⟩
  unfold parseShardDuration
  rw [P.run_bind _ _ s lx s1 (by rw [he]; exact h1)]
  simp only [t1, reduceCtorEq, if_false]
  rw [P.run_bind _ _ s1 () _ (unscan_run s1)]
  exact h2

/-- `LIMIT <duration>` after FUTURE / PAST. -/
theorem parseWriteLimit_piece (s : PState) (d : Int) (k : Str) (hd0 : 0 ≤ d) (hmax : d ≤ maxInt64)
    (hs : s.Around (' ' :: (Token.LIMIT.str ++ ' ' :: (formatDuration d ++ k)))) (hk : DurEnd k) :
    ∃ s', parseWriteLimit.run s = .ok (d, s') ∧ s'.Before k := by
  obtain ⟨lx, s1, h1, t1, _, b1⟩ := scanIW_piece s [' '] Token.LIMIT.str _ .LIMIT [] Gap.blank hs
    (scansAs_kw .LIMIT _ (by decide +kernel) (WordEnd.blank _))
  obtain ⟨s2, h2, b2⟩ := parseDurationTok_piece s1 [' '] (formatDuration d) k d hd0 hmax Gap.blank b1.around
    (scansAs_dur d hd0 k hk)
  refine ⟨s2, ?_, b2⟩
  unfold parseWriteLimit
  rw [P.run_bind _ _ s lx s1 h1]
  simp only [t1, if_true]
  exact h2

end InfluxQL

import InfluxQL.Model.ParserCore
import InfluxQL.Lemmas.Digits
/-
`NumberLiteral.String()` (`Dec.print`) is read back by the NUMBER case of `parseUnaryExpr`
(`parseNumberLit`) as a decimal of the same value.
-/
namespace InfluxQL
open Gen

theorem foldl_digits_acc (ys : List Char) (acc : Nat) :
    ys.foldl (fun a c => a * 10 + digitVal c) acc = acc * 10 ^ ys.length + digitsVal ys := by
  induction ys generalizing acc with
  | nil => simp [digitsVal]
  | cons y ys ih =>
    simp only [List.foldl_cons, List.length_cons, digitsVal]
    rw [ih, ih (0 * 10 + digitVal y)]
    rw [Nat.pow_succ]
    simp only [Nat.zero_mul, Nat.zero_add]
    rw [Nat.add_mul, Nat.add_assoc, Nat.mul_assoc, Nat.mul_comm 10]

theorem digitsVal_append' (xs ys : List Char) :
    digitsVal (xs ++ ys) = digitsVal xs * 10 ^ ys.length + digitsVal ys := by
  unfold digitsVal
  rw [List.foldl_append, foldl_digits_acc]
  rfl

theorem digitsVal_replicate_zero (k : Nat) : digitsVal (List.replicate k '0') = 0 := by
  induction k with
  | zero => rfl
  | succ k ih =>
    rw [List.replicate_succ]
    have := digitsVal_append' ['0'] (List.replicate k '0')
    simp only [List.singleton_append] at this
    rw [this, ih]
    simp [digitsVal, digitVal]

theorem digitsVal_leading_zeros (k : Nat) (ds : List Char) : digitsVal (List.replicate k '0' ++ ds) = digitsVal ds := by
  rw [digitsVal_append', digitsVal_replicate_zero]
  simp

theorem digitsVal_trailing_zeros (ds : List Char) (z : Nat) :
    digitsVal (ds ++ List.replicate z '0') = digitsVal ds * 10 ^ z := by
  rw [digitsVal_append', digitsVal_replicate_zero]
  simp

/-- A list of digits ends in `z` zeros after a part `F` that is empty or ends in a non-zero digit;
`dropTrailingZeros` returns `F`. -/
theorem dropTrailingZeros_spec (l : List Char) :
    ∃ z, l = dropTrailingZeros l ++ List.replicate z '0' := by
  unfold dropTrailingZeros
  have h := List.takeWhile_append_dropWhile (p := (· == '0')) (l := l.reverse)
  refine ⟨(l.reverse.takeWhile (· == '0')).length, ?_⟩
  have hrep : l.reverse.takeWhile (· == '0') = List.replicate (l.reverse.takeWhile (· == '0')).length '0' := by
    apply List.eq_replicate_iff.mpr
    refine ⟨rfl, ?_⟩
    intro b hb
    have hall := List.all_takeWhile (l := l.reverse) (p := (· == '0'))
    have := List.all_eq_true.mp hall b hb
    simpa using this
  have h2 : l = (l.reverse.dropWhile (· == '0')).reverse ++ (l.reverse.takeWhile (· == '0')).reverse := by
    rw [← List.reverse_append, h, List.reverse_reverse]
  rw [hrep, List.reverse_replicate] at h2
  exact h2

theorem dropTrailingZeros_subset (l : List Char) : ∀ c ∈ dropTrailingZeros l, c ∈ l := by
  intro c hc
  obtain ⟨z, hz⟩ := dropTrailingZeros_spec l
  rw [hz]
  exact List.mem_append_left _ hc

theorem natDigits_length_le (k : Nat) : ∀ n, n < 10 ^ (k + 1) → (natDigits n).length ≤ k + 1 := by
  induction k with
  | zero =>
    intro n hn
    rw [natDigits_lt n (by simpa using hn)]
    simp
  | succ k ih =>
    intro n hn
    by_cases h : n < 10
    · rw [natDigits_lt n h]; simp
    · rw [natDigits_ge n h, List.length_append]
      have : n / 10 < 10 ^ (k + 1) := by
        rw [Nat.pow_succ] at hn
        omega
      have := ih (n / 10) this
      simp only [List.length_singleton]
      omega

theorem takeWhile_append_stop {p : Char → Bool} (xs : List Char) (y : Char) (ys : List Char)
    (hx : ∀ c ∈ xs, p c = true) (hy : p y = false) :
    (xs ++ y :: ys).takeWhile p = xs ∧ (xs ++ y :: ys).dropWhile p = y :: ys := by
  induction xs with
  | nil => simp [hy]
  | cons x xs ih =>
    have hxp := hx x List.mem_cons_self
    have := ih (fun c hc => hx c (List.mem_cons_of_mem _ hc))
    simp [hxp, this.1, this.2]

theorem isDigit_ne_dot {c : Char} (h : isDigit c = true) : (c != '.') = true := by
  have : c ≠ '.' := by intro hc; rw [hc] at h; exact absurd h (by decide)
  simpa using this

/-- The fraction digits `Dec.print` writes. -/
def Dec.fracDigits (d : Dec) : List Char :=
  let F := dropTrailingZeros (padDigits d.scale (d.mant % 10 ^ d.scale))
  if F = [] then ['0'] else F

theorem Dec.print_eq (d : Dec) (h : d.neg = false) :
    d.print = natDigits (d.mant / 10 ^ d.scale) ++ '.' :: d.fracDigits := by
  unfold Dec.print Dec.fracDigits
  simp [h]

theorem padDigits_digits (w n : Nat) : ∀ c ∈ padDigits w n, isDigit c = true := by
  intro c hc
  unfold padDigits at hc
  rcases List.mem_append.mp hc with h | h
  · have := (List.mem_replicate.mp h).2
    rw [this]; decide
  · exact natDigits_all_digits n c h

theorem Dec.fracDigits_digits (d : Dec) : ∀ c ∈ d.fracDigits, isDigit c = true := by
  intro c hc
  unfold Dec.fracDigits at hc
  simp only at hc
  split at hc
  · simp only [List.mem_singleton] at hc; rw [hc]; decide
  · exact padDigits_digits _ _ c (dropTrailingZeros_subset _ c hc)

/-- The value equation behind the round trip: the digits written, read as one number with
`fracDigits.length` decimals, denote `mant / 10^scale`. -/
theorem Dec.fracDigits_value (d : Dec) :
    (d.mant / 10 ^ d.scale * 10 ^ d.fracDigits.length + digitsVal d.fracDigits) * 10 ^ d.scale =
      d.mant * 10 ^ d.fracDigits.length := by
  have hp : 0 < 10 ^ d.scale := Nat.pow_pos (by decide)
  have hm : d.mant = d.mant / 10 ^ d.scale * 10 ^ d.scale + d.mant % 10 ^ d.scale := by
    rw [Nat.mul_comm]; exact (Nat.div_add_mod _ _).symm
  generalize hip : d.mant / 10 ^ d.scale = ip at hm ⊢
  have hfp : d.mant % 10 ^ d.scale < 10 ^ d.scale := Nat.mod_lt _ hp
  generalize hfpe : d.mant % 10 ^ d.scale = fp at hm hfp
  -- the padded digits
  have hpadval : digitsVal (padDigits d.scale fp) = fp := by
    unfold padDigits
    rw [digitsVal_leading_zeros, digitsVal_natDigits]
  obtain ⟨z, hz⟩ := dropTrailingZeros_spec (padDigits d.scale fp)
  have hFval : digitsVal (dropTrailingZeros (padDigits d.scale fp)) * 10 ^ z = fp := by
    have := congrArg digitsVal hz
    rw [digitsVal_trailing_zeros, hpadval] at this
    exact this.symm
  unfold Dec.fracDigits
  simp only [hfpe]
  by_cases hF : dropTrailingZeros (padDigits d.scale fp) = []
  · -- everything after the point is zero
    have hfp0 : fp = 0 := by rw [← hFval, hF]; simp [digitsVal]
    simp only [hF, ↓reduceIte, List.length_singleton]
    rw [hm, hfp0]
    simp only [digitsVal, digitVal, List.foldl_cons, List.foldl_nil, Nat.pow_one, Nat.add_zero, Nat.zero_mul]
    show (ip * 10 + 0) * 10 ^ d.scale = ip * 10 ^ d.scale * 10
    rw [Nat.add_zero, Nat.mul_assoc, Nat.mul_assoc, Nat.mul_comm 10]
  · simp only [hF, ↓reduceIte]
    -- scale ≥ 1 here: with scale = 0 the padded digits are "0" and nothing remains
    have hs : d.scale ≠ 0 := by
      intro h0
      apply hF
      have hfp0 : fp = 0 := by rw [h0] at hfp; simpa using hfp
      rw [h0, hfp0]
      decide
    obtain ⟨k, hk⟩ := Nat.exists_eq_succ_of_ne_zero hs
    have hlen : (padDigits d.scale fp).length = d.scale := by
      unfold padDigits
      have := natDigits_length_le k fp (by rw [hk] at hfp; exact hfp)
      rw [List.length_append, List.length_replicate]
      omega
    have hlen2 : (dropTrailingZeros (padDigits d.scale fp)).length + z = d.scale := by
      have := congrArg List.length hz
      rw [List.length_append, List.length_replicate, hlen] at this
      exact this.symm
    generalize dropTrailingZeros (padDigits d.scale fp) = F at hFval hlen2 ⊢
    rw [hm, ← hFval, ← hlen2]
    simp only [Nat.pow_add, Nat.add_mul]
    congr 1 <;> ac_rfl

/-- `parseNumberLit` on the printed form of a non-negative decimal: the literal read has the digits
written as its mantissa. -/
theorem parseNumberLit_print (d : Dec) (hneg : d.neg = false)
    (hfin : d.mant < (2 ^ 1024 - 2 ^ 970) * 10 ^ d.scale) (pos : Pos) (s : PState) :
    (parseNumberLit d.print pos).run s =
      .ok (.number ⟨false, d.mant / 10 ^ d.scale * 10 ^ d.fracDigits.length + digitsVal d.fracDigits,
        d.fracDigits.length⟩, s) := by
  rw [Dec.print_eq d hneg]
  have hipd := natDigits_all_digits (d.mant / 10 ^ d.scale)
  have hipne := natDigits_ne_nil (d.mant / 10 ^ d.scale)
  have hfd := d.fracDigits_digits
  -- no sign
  have hsplit : splitSign (natDigits (d.mant / 10 ^ d.scale) ++ '.' :: d.fracDigits) =
      (false, natDigits (d.mant / 10 ^ d.scale) ++ '.' :: d.fracDigits) := by
    match hx : natDigits (d.mant / 10 ^ d.scale) with
    | [] => exact absurd hx hipne
    | c :: rest =>
      have hc : isDigit c = true := hipd c (by rw [hx]; exact List.mem_cons_self)
      have h1 : c ≠ '-' := by intro h; rw [h] at hc; exact absurd hc (by decide)
      have h3 : c ≠ '+' := by intro h; rw [h] at hc; exact absurd hc (by decide)
      simp only [List.cons_append]
      unfold splitSign
      split
      · next h => cases h; exact absurd rfl h1
      · next h => cases h; exact absurd rfl h3
      · rfl
  have htd := takeWhile_append_stop (p := (· != '.')) (natDigits (d.mant / 10 ^ d.scale)) '.' d.fracDigits
    (fun c hc => isDigit_ne_dot (hipd c hc)) (by decide)
  have hval := d.fracDigits_value
  have hnover : ¬ (d.mant / 10 ^ d.scale * 10 ^ d.fracDigits.length + digitsVal d.fracDigits ≥
      (2 ^ 1024 - 2 ^ 970) * 10 ^ d.fracDigits.length) := by
    intro hge
    have h1 := Nat.mul_le_mul_right (10 ^ d.scale) hge
    rw [hval] at h1
    have h2 : d.mant * 10 ^ d.fracDigits.length < (2 ^ 1024 - 2 ^ 970) * 10 ^ d.scale * 10 ^ d.fracDigits.length :=
      Nat.mul_lt_mul_of_pos_right hfin (Nat.pow_pos (by decide))
    rw [Nat.mul_assoc, Nat.mul_comm (10 ^ d.scale), ← Nat.mul_assoc] at h2
    exact absurd h1 (Nat.not_le.mpr h2)
  unfold parseNumberLit
  generalize (2 ^ 1024 - 2 ^ 970 : Nat) = B at hnover ⊢
  simp only [hsplit, htd.1, htd.2, List.drop_one, List.tail_cons, List.head?_cons]
  have hall1 : (natDigits (d.mant / 10 ^ d.scale)).all isDigit = true := List.all_eq_true.mpr hipd
  have hall2 : d.fracDigits.all isDigit = true := List.all_eq_true.mpr hfd
  simp [hipne, hall1, hall2, digitsVal_append', digitsVal_natDigits, hnover, StateT.run, pure, StateT.pure, Except.pure]

end InfluxQL

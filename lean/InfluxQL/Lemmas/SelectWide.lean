import InfluxQL.Lemmas.SelectClauses
import InfluxQL.Lemmas.SelectFrame
/-
The clauses of SELECT over the wide expression class of C03 (`RT.wOK tbl`, relative to the lower-casing
table of the input): fields (`mean(value)`, `*`, numbers, durations), dimensions (`time(5m)`,
`time(5m, 1m)`, `*`, tags) and `fill(…)`. The table of the *start* state is carried to each clause by
the frame lemma (`Lemmas/SelectFrame.lean`).
-/
namespace InfluxQL
open Gen

/-! ## fields -/

/-- The fields the wide round trip is proved for: an expression of the wide class without an operator that
`parseField` rejects, and any (expressible) alias. -/
def FieldOKW (tbl : List (Char × Char)) (f : Field) : Prop :=
  RT.wOK tbl f.expr = true ∧ f.expr.badOps = [] ∧ Expressible f.alias

instance (tbl : List (Char × Char)) (f : Field) : Decidable (FieldOKW tbl f) := by
  unfold FieldOKW; exact inferInstance

/-- **One field, wide class.** A copy of `parseField_print` over `RT.w_specs`. -/
theorem parseField_printW (fuel : Nat) (s : PState) (f : Field) (rest : Str) (hf : FieldOKW s.lowerTbl f)
    (hrest : (∃ more, rest = ',' :: more) ∨ Follow rest [.AS, .COMMA])
    (hs : s.Before (' ' :: (f.print ++ rest))) :
    wp (parseField fuel) s (fun f' s' => f' = f ∧ FieldEnd s' rest) (· = .fuel) := by
  obtain ⟨he, hbad, hal⟩ := hf
  have hfr : Follow rest [.AS] := by
    rcases hrest with ⟨more, rfl⟩ | h
    · exact Follow.comma more _ (by decide)
    · exact h.mono (by decide)
  have hfa : Follow (aliasText f.alias ++ rest) [] :=
    Follow.opt (kwText_alias _) (by decide +kernel) rfl (by simp) (hfr.mono (by simp))
  rw [field_print_eq, List.append_assoc] at hs
  have hch : s.r.chars = ' ' :: (f.expr.print ++ (aliasText f.alias ++ rest)) := hs.2.chars_of_cons (by decide)
  obtain ⟨hnrs, hsig⟩ := RT.exprW_start f.expr he _ hfa.1
  obtain ⟨s2, hr2, hn2, hch2, hsm2⟩ := RT.parseRegex_none s _ hs.1 hnrs (Or.inr hch)
  obtain ⟨_, hb2, hw2, hc2⟩ := hsig s2.r hch2
  obtain ⟨s3, hr3, hj3, hsm3⟩ := RT.scanIW_look s2 s2.r (Or.inl ⟨hn2, rfl⟩) hb2 hw2 hc2
  have htbl : (unsc s3).lowerTbl = s.lowerTbl := ((hsm2.trans hsm3).trans (RT.unsc_same s3)).2
  have hat : RT.AtW (unsc s3) (f.expr.print ++ (aliasText f.alias ++ rest)) :=
    ⟨s2.r, RT.look_unsc s3 s2.r hj3, Or.inl hch2⟩
  unfold parseField
  rw [wp_bind, wp_of_run_ok hr2]
  simp only []
  rw [wp_bind, wp_of_run_ok hr3, wp_bind, unscan_wp, wp_bind]
  refine wp_mono ((RT.w_specs s.lowerTbl fuel).1 (unsc s3) f.expr _ htbl he hfa.exprEnd hat) ?_ (fun _ h => h)
  intro e' s4 ⟨he', st4, _⟩
  subst he'
  simp only [hbad, List.getLast?_nil, pure_bind]
  -- the alias
  have halias : ∃ s5, parseAlias.run s4 = .ok (f.alias, s5) ∧ RT.Stand s5 rest := by
    unfold aliasText at st4
    by_cases ha : f.alias = []
    · rw [if_pos ha] at st4
      obtain ⟨lx, s5, h5, t5, st5⟩ := peek_stand s4 rest _ .AS hfr (by simp) (by simpa using st4)
      refine ⟨unsc s5, ?_, st5⟩
      unfold parseAlias
      rw [P.run_bind _ _ _ _ _ h5, P.run_ite, if_pos t5, P.run_bind _ _ _ _ _ (unscan_run s5), ha]
      rfl
    · rw [if_neg ha] at st4
      have st4' : RT.Stand s4 ([' '] ++ (Token.AS.str ++ (' ' :: (qi f.alias ++ rest)))) := by simpa using st4
      obtain ⟨lx, s5, h5, t5, _, b5⟩ := scanIW_stand s4 [' '] Token.AS.str _ .AS [] Gap.blank st4'
        (scansAs_kw .AS _ (by decide +kernel) (WordEnd.blank _))
      obtain ⟨s6, h6, b6⟩ := parseIdent_piece s5 [' '] (qi f.alias) rest f.alias Gap.blank b5.around
        (scansAs_ident f.alias rest hal (.of_wordEnd hfr.tokEnd.1))
      refine ⟨s6, ?_, b6.stand⟩
      unfold parseAlias
      have : ¬ lx.tok ≠ .AS := by rw [t5]; simp
      rw [P.run_bind _ _ _ _ _ h5, P.run_ite, if_neg this]
      exact h6
  obtain ⟨s5, h5, st5⟩ := halias
  rw [wp_bind, wp_of_run_ok h5, wp_bind]
  -- the look-ahead after the alias
  rcases hrest with ⟨more, rfl⟩ | hfc
  · have hstc : RT.Starts (',' :: more) .COMMA := by
      have := starts_piece [] [','] more .COMMA [] Gap.none (scansAs_comma more)
      simpa using this
    obtain ⟨lx, s6, r6, h6, t6, st6, j6⟩ := RT.scanIW_starts_just s5 _ .COMMA st5 hstc
    obtain ⟨lx', s6', h6', _, _, b6'⟩ := scanIW_stand s5 [] [','] more .COMMA [] Gap.none (by simpa using st5)
      (scansAs_comma more)
    rw [h6] at h6'
    injection h6' with h6'
    injection h6' with _ hs6
    subst hs6
    rw [wp_of_run_ok h6, wp_bind, unscan_wp, wp_pure]
    refine ⟨rfl, lx, s6, r6, rfl, j6, by rw [t6]; decide, st6, ?_, ?_⟩
    · intro more' e
      simp only [List.cons.injEq, true_and] at e
      subst e
      exact ⟨t6, b6'⟩
    · intro h; exact absurd rfl (h more)
  · obtain ⟨T, hT, hne⟩ := hfc.starts (t := .COMMA) (by simp)
    obtain ⟨lx, s6, r6, h6, t6, st6, j6⟩ := RT.scanIW_starts_just s5 _ T st5 hT
    rw [wp_of_run_ok h6, wp_bind, unscan_wp, wp_pure]
    refine ⟨rfl, lx, s6, r6, rfl, j6, by rw [t6]; exact hT.1.1, st6, ?_, ?_⟩
    · intro more e
      exfalso
      subst e
      have hstc : RT.Starts (',' :: more) .COMMA := by
        have := starts_piece [] [','] more .COMMA [] Gap.none (scansAs_comma more)
        simpa using this
      exact hne (starts_unique hT hstc)
    · intro _; rw [t6]; exact hne

/-- The loop of `parseFields` on the printed fields (wide class). -/
theorem fieldsLoop_printW (tbl : List (Char × Char)) (fuel : Nat) (fields : List Field) :
    ∀ (it : Nat) (acc : List Field) (s : PState) (f : Field) (k : Str), fields.length < it → s.lowerTbl = tbl →
    (∀ g ∈ f :: fields, FieldOKW tbl g) → Follow k [.AS, .COMMA] →
    s.Before (' ' :: (f.print ++ (moreFields fields ++ k))) →
    wp (fieldsLoop fuel it acc) s (fun r s' => r = acc ++ f :: fields ∧ RT.Stand s' k) (· = .fuel) := by
  induction fields with
  | nil =>
    intro it acc s f k hit htb hok hk hs
    obtain ⟨it', rfl⟩ : ∃ it', it = it' + 1 := ⟨it - 1, by simp at hit; omega⟩
    rw [fieldsLoop, wp_bind]
    refine wp_mono (parseField_printW fuel s f k (by rw [htb]; exact hok f (by simp)) (Or.inr hk)
      (by simpa [moreFields] using hs)) ?_ (fun _ h => h)
    intro f' s' ⟨hf', lx, s1, r1, hs', j1, hnb, st, _, hnc⟩
    subst hs'
    have hnotc : ∀ more, k ≠ ',' :: more := by
      intro more e
      subst e
      obtain ⟨T, hT, hne⟩ := hk.starts (t := .COMMA) (by simp)
      have hstc : RT.Starts (',' :: more) .COMMA := by
        have := starts_piece [] [','] more .COMMA [] Gap.none (scansAs_comma more)
        simpa using this
      exact hne (starts_unique hT hstc)
    rw [wp_bind, wp_of_run_ok (RT.pscan_redeliver s1 lx r1 j1 hnb), wp_ite, if_pos (hnc hnotc), wp_bind, unscan_wp,
      wp_pure]
    exact ⟨by rw [hf'], st⟩
  | cons g fields ih =>
    intro it acc s f k hit htb hok hk hs
    obtain ⟨it', rfl⟩ : ∃ it', it = it' + 1 := ⟨it - 1, by simp at hit; omega⟩
    rw [fieldsLoop, wp_bind]
    refine wp_mono (wp_frame (parseField_frame fuel) (parseField_printW fuel s f
      (',' :: ' ' :: (g.print ++ (moreFields fields ++ k))) (by rw [htb]; exact hok f (by simp))
      (Or.inl ⟨_, rfl⟩) (by simpa [moreFields, List.append_assoc] using hs))) ?_ (fun _ h => h)
    intro f' s' ⟨⟨hf', lx, s1, r1, hs', j1, hnb, _, hc, _⟩, hsm⟩
    subst hs'
    obtain ⟨tc, b1⟩ := hc _ rfl
    have : ¬ lx.tok ≠ .COMMA := by rw [tc]; simp
    have htb1 : s1.lowerTbl = tbl := by
      have : (unsc s1).lowerTbl = s.lowerTbl := hsm.2
      exact this.trans htb
    rw [wp_bind, wp_of_run_ok (RT.pscan_redeliver s1 lx r1 j1 hnb), wp_ite, if_neg this, hf']
    refine wp_mono (ih it' (acc ++ [f]) s1 g k (by simp at hit ⊢; omega) htb1
      (fun x hx => hok x (by simp at hx ⊢; exact Or.inr hx)) hk b1) ?_ (fun _ h => h)
    intro r s2 ⟨hr, st⟩
    exact ⟨by rw [hr]; simp, st⟩

/-- **`parseFields`** on a blank and the printed field list (wide class). -/
theorem parseFields_printW (fuel : Nat) (s : PState) (f : Field) (fields : List Field) (k : Str)
    (hok : ∀ g ∈ f :: fields, FieldOKW s.lowerTbl g) (hk : Follow k [.AS, .COMMA])
    (hs : s.Before (' ' :: (f.print ++ (moreFields fields ++ k)))) :
    wp (parseFields fuel) s (fun r s' => r = f :: fields ∧ RT.Stand s' k) (· = .fuel) := by
  have hch : s.r.chars = ' ' :: (f.print ++ (moreFields fields ++ k)) := hs.2.chars_of_cons (by decide)
  have hlen : fields.length < s.n + s.r.rest.length + 2 := by
    have h1 := length_moreFields fields
    have h2 : s.r.rest.length = (' ' :: (f.print ++ (moreFields fields ++ k))).length := by
      rw [← hch]; simp [Cursor.chars]
    rw [h2]
    simp only [List.length_cons, List.length_append]
    omega
  have hf : loopFuel.run s = .ok (s.n + s.r.rest.length + 2, s) := rfl
  unfold parseFields
  rw [wp_bind, wp_of_run_ok hf]
  refine wp_mono (fieldsLoop_printW s.lowerTbl fuel fields _ [] s f k hlen rfl hok hk hs) ?_ (fun _ h => h)
  intro r s' ⟨hr, st⟩
  exact ⟨by simpa using hr, st⟩

/-! ## GROUP BY -/

/-- The loop of `parseDimensions` on printed dimensions of the wide class: tags, `time(5m)`, `time(5m, 1m)`, `*`. -/
theorem dimLoop_printW (tbl : List (Char × Char)) (F : Nat) (ds : List Expr) :
    ∀ (it : Nat) (acc : List Expr) (s : PState) (d : Expr) (k : Str),
    ds.length < it → s.lowerTbl = tbl → (∀ x ∈ d :: ds, RT.wOK tbl x = true) → Follow k [.COMMA] → s.n = 0 →
    s.r.chars = ' ' :: (d.print ++ (moreDims ds ++ k)) →
    wp (dimLoop F it acc) s (fun r s' => r = acc ++ d :: ds ∧ RT.Stand s' k) (· = .fuel) := by
  induction ds with
  | nil =>
    intro it acc s d k hit htb hok hk hn hch
    obtain ⟨it', rfl⟩ : ∃ it', it = it' + 1 := ⟨it - 1, by simp at hit; omega⟩
    have hd := hok d (by simp)
    have hch' : s.r.chars = ' ' :: (d.print ++ k) := by simpa [moreDims] using hch
    obtain ⟨hnrs, _⟩ := RT.exprW_start d hd k hk.1
    obtain ⟨s2, hr2, hn2, hch2, hsm2⟩ := RT.parseRegex_none s _ hn hnrs (Or.inr hch')
    rw [dimLoop, wp_bind]
    unfold parseDimension
    rw [wp_bind, wp_of_run_ok hr2]
    dsimp only
    rw [wp_bind]
    refine wp_mono ((RT.w_specs tbl F).1 s2 d k (hsm2.2.trans htb) hd hk.exprEnd
      ⟨s2.r, Or.inl ⟨hn2, rfl⟩, Or.inl hch2⟩) ?_ (fun _ h => h)
    intro e' s3 ⟨he', st3, _⟩
    subst he'
    obtain ⟨s4, r4, h4, l4, t4, b4, hst⟩ := dim_end s3 k st3 hk
    obtain ⟨s5, h5, j5, _⟩ := RT.pscan_look s4 r4 l4 b4
    rw [wp_bind, wp_of_run_ok h4, wp_pure, wp_bind, wp_of_run_ok h5, wp_ite, if_pos t4, wp_bind, unscan_wp, wp_pure]
    exact ⟨rfl, hst s5 j5⟩
  | cons g ds ih =>
    intro it acc s d k hit htb hok hk hn hch
    obtain ⟨it', rfl⟩ : ∃ it', it = it' + 1 := ⟨it - 1, by simp at hit; omega⟩
    have hd := hok d (by simp)
    have hch' : s.r.chars = ' ' :: (d.print ++ (',' :: ' ' :: (g.print ++ (moreDims ds ++ k)))) := by
      simpa [moreDims, List.append_assoc] using hch
    have hsep : RT.SepC (',' :: ' ' :: (g.print ++ (moreDims ds ++ k))) := Or.inr ⟨_, Or.inr rfl⟩
    obtain ⟨hnrs, _⟩ := RT.exprW_start d hd _ (Or.inl hsep)
    obtain ⟨s2, hr2, hn2, hch2, hsm2⟩ := RT.parseRegex_none s _ hn hnrs (Or.inr hch')
    rw [dimLoop, wp_bind]
    unfold parseDimension
    rw [wp_bind, wp_of_run_ok hr2]
    dsimp only
    rw [wp_bind]
    refine wp_mono ((RT.w_specs tbl F).1 s2 d _ (hsm2.2.trans htb) hd (RT.ExprEnd.of_sepC hsep)
      ⟨s2.r, Or.inl ⟨hn2, rfl⟩, Or.inl hch2⟩) ?_ (fun _ h => h)
    intro e' s3 ⟨he', st3, hsm3⟩
    subst he'
    obtain ⟨s4, r4, h4, l4, t4, c4⟩ := dim_comma s3 _ st3
    obtain ⟨s5, h5, j5, hsm5⟩ := RT.pscan_look s4 r4 l4 (by rw [t4]; decide)
    have htb5 : s5.lowerTbl = tbl :=
      ((((hsm2.trans hsm3).trans (consumeWhitespace_frame.run h4)).trans hsm5).2).trans htb
    rw [wp_bind, wp_of_run_ok h4, wp_pure, wp_bind, wp_of_run_ok h5, wp_ite, if_neg (by rw [t4]; simp)]
    refine wp_mono (ih it' (acc ++ [e']) s5 g k (by simp at hit ⊢; omega) htb5
      (fun x hx => hok x (by simp at hx ⊢; exact Or.inr hx)) hk j5.1 (by rw [j5.2.2]; exact c4)) ?_ (fun _ h => h)
    intro r s6 ⟨hr, st⟩
    exact ⟨by rw [hr]; simp, st⟩

/-- **GROUP BY** on its printed form, dimensions of the wide class; absent, nothing is consumed. -/
theorem parseDimensions_printW (F : Nat) (s : PState) (ds : List Expr) (k : Str)
    (hok : ∀ x ∈ ds, RT.wOK s.lowerTbl x = true) (hk : Follow k [.GROUP, .COMMA])
    (hs : RT.Stand s (groupText ds ++ k)) :
    wp (parseDimensions F) s (fun r s' => r = ds ∧ RT.Stand s' k) (· = .fuel) := by
  cases ds with
  | nil =>
    obtain ⟨s', h, st⟩ := parseDimensions_absent F s k (hk.mono (by decide)) (by simpa [groupText] using hs)
    rw [wp_of_run_ok h]
    exact ⟨rfl, st⟩
  | cons d ds =>
    have hs' : RT.Stand s ([' '] ++ (Token.GROUP.str ++ (' ' :: (Token.BY.str ++ ' ' :: (d.print ++ (moreDims ds ++ k)))))) := by
      simpa [groupText, List.append_assoc] using hs
    obtain ⟨lx1, s1, h1, t1, _, b1⟩ := scanIW_stand s [' '] Token.GROUP.str _ .GROUP [] Gap.blank hs'
      (scansAs_kw .GROUP _ (by decide +kernel) (WordEnd.blank _))
    obtain ⟨s2, h2, b2⟩ := expectTok_piece s1 [' '] Token.BY.str _ .BY [] ["BY"] Gap.blank b1.around
      (scansAs_kw .BY _ (by decide +kernel) (WordEnd.blank _))
    have htb2 : s2.lowerTbl = s.lowerTbl := ((scanIW_frame.run h1).trans ((expectTok_frame _ _).run h2)).2
    have hch : s2.r.chars = ' ' :: (d.print ++ (moreDims ds ++ k)) := b2.2.chars_of_cons (by decide)
    have hlen : ds.length < s2.n + s2.r.rest.length + 2 := by
      have h1 := length_moreDims ds
      have h2 : s2.r.rest.length = (' ' :: (d.print ++ (moreDims ds ++ k))).length := by
        rw [← hch]; simp [Cursor.chars]
      rw [h2]
      simp only [List.length_cons, List.length_append]
      omega
    have hf : loopFuel.run s2 = .ok (s2.n + s2.r.rest.length + 2, s2) := rfl
    unfold parseDimensions
    rw [wp_bind, wp_of_run_ok h1, wp_ite, if_neg (by rw [t1]; simp), wp_bind, wp_of_run_ok h2, wp_bind, wp_of_run_ok hf]
    refine wp_mono (dimLoop_printW s.lowerTbl F ds _ [] s2 d k hlen htb2 hok (hk.mono (by decide)) b2.1 hch) ?_
      (fun _ h => h)
    intro r s' ⟨hr, st⟩
    exact ⟨by simpa using hr, st⟩

/-! ## fill() -/

def fillName : Str := ['f', 'i', 'l', 'l']

/-- The argument of `fill(…)` as the printer writes it and the parser reads it back: the option word as a
reference, or the integer / number literal. `NullFill` prints nothing. -/
def fillArg : FillOption → FillValue → Option Expr
  | .none, .none => some (.varRef ['n', 'o', 'n', 'e'] .Unknown)
  | .previous, .none => some (.varRef ['p', 'r', 'e', 'v', 'i', 'o', 'u', 's'] .Unknown)
  | .linear, .none => some (.varRef ['l', 'i', 'n', 'e', 'a', 'r'] .Unknown)
  | .number, .int v => some (.integer v)
  | .number, .num d => some (.number d)
  | _, _ => none

/-- The fill options the round trip is proved for (all the parser returns): no fill; `none` / `previous` /
`linear` without a value; a number fill with an `int64` or a canonical finite decimal — and the table leaves
the word `fill` alone (`parseFill` compares the lower-cased identifier; `parseCall` lower-cases the name). -/
def fillOKW (tbl : List (Char × Char)) (fill : FillOption) (fv : FillValue) : Bool :=
  match fillArg fill fv with
  | some a => RT.wOK tbl (.call fillName [a])
  | none => fill == .null && fv == .none

/-- ` fill(<option>)` when there is one. -/
def fillText (fill : FillOption) (fv : FillValue) : Str :=
  match fillArg fill fv with
  | some a => ' ' :: (Expr.call fillName [a]).print
  | none => []

theorem fillText_some {fill : FillOption} {fv : FillValue} {a : Expr} (h : fillArg fill fv = some a) :
    fillText fill fv = ' ' :: (fillName ++ '(' :: (a.print ++ [')'])) := by
  unfold fillText
  rw [h]
  simp [RT.print_call, printArgs, joinWith]

/-- The pieces are what `SelectStatement.String()` writes. -/
theorem printFill_eq (tbl : List (Char × Char)) (fill : FillOption) (fv : FillValue) (h : fillOKW tbl fill fv = true) :
    printFill fill fv = fillText fill fv := by
  cases fill <;> cases fv <;>
    first
    | rfl
    | (simp [fillOKW, fillArg] at h; done)
    | decide +kernel
    | skip

theorem wordName_fill : WordName fillName := ⟨by decide +kernel, 'f', ['i', 'l', 'l'], rfl, by decide, by decide⟩

/-- A present `fill(…)` clause follows, if identifiers are allowed there. -/
theorem follow_fill (fill : FillOption) (fv : FillValue) (k : Str) (stop : List Token) (hk : Follow k stop)
    (hn : Token.IDENT ∉ stop) : Follow (fillText fill fv ++ k) stop := by
  cases hfa : fillArg fill fv with
  | none =>
    have : fillText fill fv = [] := by unfold fillText; rw [hfa]
    rw [this]; exact hk
  | some a =>
    rw [fillText_some hfa]
    have e : ' ' :: (fillName ++ '(' :: (a.print ++ [')'])) ++ k = ' ' :: (fillName ++ ('(' :: (a.print ++ ')' :: k))) := by
      simp
    rw [e]
    exact Follow.piece fillName _ .IDENT _ stop (scansAs_word fillName _ wordName_fill (wordEnd_lparen _)) rfl hn

/-- **`fill(…)`** on its printed form; absent, nothing is consumed. -/
theorem parseFill_printW (F : Nat) (s : PState) (fill : FillOption) (fv : FillValue) (k : Str)
    (hok : fillOKW s.lowerTbl fill fv = true) (hk : RT.ExprEnd k) (ha : Ahead k NotFill)
    (hs : RT.Stand s (fillText fill fv ++ k)) :
    wp (parseFill F) s (fun r s' => r = (fill, fv) ∧ RT.Stand s' k) (· = .fuel) := by
  cases hfa : fillArg fill fv with
  | none =>
    have ht : fillText fill fv = [] := by unfold fillText; rw [hfa]
    have hv : fill = .null ∧ fv = .none := by
      unfold fillOKW at hok
      rw [hfa] at hok
      simpa using hok
    rw [ht] at hs
    obtain ⟨s', h, st⟩ := parseFill_absent' F s k ha (by simpa using hs)
    rw [wp_of_run_ok h, hv.1, hv.2]
    exact ⟨rfl, st⟩
  | some a =>
    have hw : RT.wOK s.lowerTbl (.call fillName [a]) = true := by
      unfold fillOKW at hok
      rw [hfa] at hok
      exact hok
    have hlow : lowerStr s.lowerTbl fillName = fillName := by
      rw [RT.wOK] at hw
      simp only [Bool.and_eq_true] at hw
      exact (RT.callNameW_facts hw.1).1
    rw [fillText_some hfa] at hs
    have hs' : RT.Stand s (' ' :: (fillName ++ ('(' :: (a.print ++ ')' :: k)))) := by simpa using hs
    obtain ⟨lx, s1, h1, ⟨ht, hl⟩, st1⟩ := Ahead.piece fillName _ .IDENT _
      (scansAs_word fillName ('(' :: (a.print ++ ')' :: k)) wordName_fill (wordEnd_lparen _)) s hs'
    have htb : (unsc s1).lowerTbl = s.lowerTbl := ((scanIW_frame.run h1).trans (RT.unsc_same s1)).2
    have hc : ¬ (lx.tok ≠ .IDENT ∨ lowerStr (unsc s1).lowerTbl lx.lit ≠ "fill".toList) := by
      rw [ht, hl, htb, hlow]; simp [fillName]
    have hat : RT.AtW (unsc s1) ((Expr.call fillName [a]).print ++ k) := by
      have := st1.atW ⟨'f', _, rfl, by decide, by decide⟩
      simpa [RT.print_call, printArgs, joinWith, fillName] using this
    unfold parseFill
    rw [wp_bind, wp_of_run_ok h1, wp_bind, unscan_wp, wp_bind, wp_get, wp_ite, if_neg hc, wp_bind]
    refine wp_mono ((RT.w_specs s.lowerTbl F).1 (unsc s1) (.call fillName [a]) k htb hw hk hat) ?_ (fun _ h => h)
    intro e' s2 ⟨he', st2, _⟩
    subst he'
    dsimp only
    cases fill <;> cases fv <;> simp only [fillArg, Option.some.injEq, reduceCtorEq] at hfa <;> subst hfa
    · rw [wp_ite, if_neg (by decide +kernel), wp_ite, if_pos (by decide +kernel), wp_pure]
      exact ⟨rfl, st2⟩
    · have e : ∀ w : Str, w ≠ [] → ¬ ([] : Str) = w := fun w hw h => hw h.symm
      rw [wp_ite, if_neg (e _ (by decide)), wp_ite, if_neg (e _ (by decide)), wp_ite, if_neg (e _ (by decide)), wp_ite,
        if_neg (e _ (by decide)), wp_pure]
      exact ⟨rfl, st2⟩
    · have e : ∀ w : Str, w ≠ [] → ¬ ([] : Str) = w := fun w hw h => hw h.symm
      rw [wp_ite, if_neg (e _ (by decide)), wp_ite, if_neg (e _ (by decide)), wp_ite, if_neg (e _ (by decide)), wp_ite,
        if_neg (e _ (by decide)), wp_pure]
      exact ⟨rfl, st2⟩
    · rw [wp_ite, if_neg (by decide +kernel), wp_ite, if_neg (by decide +kernel), wp_ite, if_pos (by decide +kernel),
        wp_pure]
      exact ⟨rfl, st2⟩
    · rw [wp_ite, if_neg (by decide +kernel), wp_ite, if_neg (by decide +kernel), wp_ite, if_neg (by decide +kernel),
        wp_ite, if_pos (by decide +kernel), wp_pure]
      exact ⟨rfl, st2⟩

end InfluxQL

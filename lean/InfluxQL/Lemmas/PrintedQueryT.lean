import InfluxQL.Lemmas.PrintedFamilies
import InfluxQL.Lemmas.SelectSemi
/-
`ParseQuery` on a printed query, with the lower-casing table tracked (C16 (a), second part).

The classes of SELECT over C03's wide expression class (`BodyOKW tbl`, `selOKB tbl n`) are relative to the
lower-casing table shipped with the input (`PState.lowerTbl`): `parseCall` lower-cases call names with it.
`StmtSpec` of Lemmas/PrintedQuery.lean quantifies over all states; a statement of a table-relative class
needs the table of the state in front of it, hence a frame property of everything parsed before it. This file

* proves `Frame` (parameters and table unchanged) for the handlers of all instantiated families and restates
  the dispatch (`dispatch_render_around_same`) with it;
* gives the interface with table and fuel — `StmtSpecF tbl fuel text stmt`: from a state with table `tbl`,
  `ParseStatement fuel` returns the statement, ends at `K` and leaves the table alone — and the loop over
  it (`queryLoop_printedF`, `parseQuery_printed_wpF`, `parseQueryText_printed_itemsF`);
* `PrintedStmt.OKT tbl N`: the wp-style families whose theorem needs the table and at least `N` units of
  expression fuel (`N = depth + 3` for SELECT with subqueries; `fuelFor text ≥ 100`); the keyword paths
  `exprPathsT` add EXPLAIN and CREATE CONTINUOUS QUERY; the end state is `Ends s' K` (observational), so a
  statement ending in a keyword (CQ: `END`) and one ending in an expression fit the same field;
* lifts both older kinds (`Printed`, `PrintedStmt.OK`) to the new interface.
-/
namespace InfluxQL
open Gen

/-! ## frames of the handlers -/

theorem parseNameOnDb_frame : Frame parseNameOnDb := by unfold parseNameOnDb; frame
theorem parseUInt64_frame : Frame parseUInt64 := by unfold parseUInt64; frame
theorem parseOnDb_frame : Frame parseOnDb := by unfold parseOnDb; frame
theorem parseSources_frame : Frame parseSources := parseSourcesWith_frame none SubFrame.none
theorem parseOptFrom_frame : Frame parseOptFrom := by
  have := parseSources_frame
  unfold parseOptFrom; frame
theorem parseIdentOrStar_frame : Frame parseIdentOrStar := by unfold parseIdentOrStar; frame
theorem identListLoop_frame : ∀ (it : Nat) (acc : List Str), Frame (identListLoop it acc) := by
  intro it
  induction it with
  | zero => intro acc; unfold identListLoop; frame
  | succ it ih =>
    intro acc
    unfold identListLoop; frame
    exact ih _
theorem parseIdentList_frame : Frame parseIdentList := by
  unfold parseIdentList; frame
  exact identListLoop_frame _ _
theorem parseTagKeyExpr_frame : Frame parseTagKeyExpr := by
  have := parseIdentList_frame
  unfold parseTagKeyExpr; frame
theorem parseDeleteLike_frame (fuel : Nat) (b : Bool) : Frame (parseDeleteLike fuel b) := by
  have := parseSources_frame
  unfold parseDeleteLike; frame
theorem parseShowFieldKeys_frame : Frame parseShowFieldKeys := by
  have := parseOptFrom_frame
  have := parseOnDb_frame
  unfold parseShowFieldKeys; frame
theorem parseShowTagKeys_frame (fuel : Nat) : Frame (parseShowTagKeys fuel) := by
  have := parseOptFrom_frame
  have := parseOnDb_frame
  have := parseTagKeyExpr_frame
  unfold parseShowTagKeys; frame
theorem parseShowSeriesCardinality_frame (fuel : Nat) (b : Bool) : Frame (parseShowSeriesCardinality fuel b) := by
  have := parseOptFrom_frame
  have := parseOnDb_frame
  unfold parseShowSeriesCardinality; frame
theorem parseShowSeries_frame (fuel : Nat) : Frame (parseShowSeries fuel) := by
  have := parseOptFrom_frame
  have := parseOnDb_frame
  have h := parseShowSeriesCardinality_frame fuel
  unfold parseShowSeries; frame
  exact h _
theorem parseShowMeasurements_frame (fuel : Nat) : Frame (parseShowMeasurements fuel) := by
  have := parseIdentOrStar_frame
  have := parseSourceWith_frame none SubFrame.none
  unfold parseShowMeasurements; frame
theorem parseExplain_frame (fuel : Nat) : Frame (parseExplain fuel) := by unfold parseExplain; frame
theorem parseCreateContinuousQuery_frame (fuel : Nat) : Frame (parseCreateContinuousQuery fuel) := by
  unfold parseCreateContinuousQuery; frame

end InfluxQL

namespace InfluxQL.PrintedQuery
open InfluxQL Gen Render C01 RenderQuery RenderPrinted

/-! ## the dispatch, with the frame -/

/-- `dispatch_render_around` with the frame: the keywords are read by `ScanIgnoreWhitespace` only. -/
theorem dispatch_render_around_same (fuel : Nat) (h : Handler) (l : List (Render.Gap × Piece)) :
    ∀ (it idx : Nat) (s : PState) (body : List (Render.Gap × Piece)) (k : Str),
      dispatchPath idx (l.map (·.2.tok)) = some h → l.length ≤ it → Legal (l ++ body) k →
      s.Around (render (l ++ body) ++ k) →
      ∃ s', (dispatchLoop fuel it idx).run s = (runHandler fuel h).run s' ∧ s'.Before (render body ++ k) ∧
        RT.Same s s' := by
  induction l with
  | nil => intro it idx s body k hp; cases hp
  | cons gp rest ih =>
    obtain ⟨g, p⟩ := gp
    intro it idx s body k hp hlen hL hs
    cases it with
    | zero => simp at hlen
    | succ it =>
    rw [List.cons_append] at hL hs
    obtain ⟨lx, s1, h1, t1, _, b1⟩ := step s g p (rest ++ body) k hL hs
    have sm1 : RT.Same s s1 := scanIW_frame.run h1
    simp only [List.map_cons] at hp
    cases rest with
    | nil =>
      refine ⟨s1, ?_, b1, sm1⟩
      simp only [List.map_nil, dispatchPath] at hp
      conv => lhs; unfold dispatchLoop
      rw [P.run_bind _ _ s lx s1 h1]
      simp only [t1]
      cases hsub : lookupTok p.tok (dispatch.getD idx default).subs with
      | some j => rw [hsub] at hp; cases hp
      | none =>
        rw [hsub] at hp
        simp only [hp]
    | cons gp2 rest2 =>
      simp only [List.map_cons] at hp
      unfold dispatchPath at hp
      cases hsub : lookupTok p.tok (dispatch.getD idx default).subs with
      | none => rw [hsub] at hp; cases hp
      | some j =>
        rw [hsub] at hp
        obtain ⟨s', h2, b2, sm2⟩ := ih it j s1 body k hp (by simpa using hlen) hL.tail b1.around
        refine ⟨s', ?_, b2, sm1.trans sm2⟩
        conv => lhs; unfold dispatchLoop
        rw [P.run_bind _ _ s lx s1 h1]
        simp only [t1, hsub]
        exact h2

/-! ## the interface with table and fuel -/

/-- **What one round of the loop of `ParseQuery` needs from a statement**, for the lower-casing table `tbl`
and the expression fuel `fuel`: as `StmtSpec`, from a state whose table is `tbl`, and the table is still
`tbl` afterwards. -/
def StmtSpecF (tbl : List (Char × Char)) (fuel : Nat) (text : Str) (stmt : Statement) : Prop :=
  ∀ (lead : Str) (s : PState) (K : Str), s.lowerTbl = tbl → QLead lead → QEnd K → s.Before (lead ++ (text ++ K)) →
    ∃ lx s1, scanIW.run s = .ok (lx, s1) ∧ lx.tok ≠ .EOF ∧ lx.tok ≠ .SEMICOLON ∧
      wp (parseStatement fuel) { s1 with n := s1.n + 1 }
        (fun st s' => st = stmt ∧ Ends s' K ∧ s'.lowerTbl = tbl) (· = .fuel)

/-- The keyword paths of the expression-bearing families: those of `exprPaths`, EXPLAIN and CREATE
CONTINUOUS QUERY. -/
def exprPathsT : List (List Token × Handler) :=
  exprPaths ++ [([.EXPLAIN], .parseExplainStatement),
    ([.CREATE, .CONTINUOUS, .QUERY], .parseCreateContinuousQueryStatement)]

/-- Obligation on the regenerated tables, as `gen_exprPaths`. -/
theorem gen_exprPathsT : ∀ p ∈ exprPathsT,
    (∀ t ∈ p.1, t.isKw = true) ∧ C01.dispatchPath 0 p.1 = some p.2 ∧ p.1.length ≤ dispatch.length + 1 ∧
      (match p.1 with
       | [] => false
       | t :: _ => t != .EOF && t != .SEMICOLON) = true := by decide +kernel

/-- The handlers of these paths leave parameters and table alone. -/
theorem runHandler_frame_exprT (fuel : Nat) : ∀ p ∈ exprPathsT, Frame (runHandler fuel p.2) := by
  intro p hp
  simp only [exprPathsT, exprPaths, List.cons_append, List.nil_append, List.mem_cons, List.not_mem_nil, or_false] at hp
  have h1 := parseDeleteLike_frame fuel
  have h2 := parseShowSeries_frame fuel
  have h3 := parseShowTagKeys_frame fuel
  have h4 := parseShowFieldKeys_frame
  have h5 := parseShowMeasurements_frame fuel
  have h6 := parseExplain_frame fuel
  have h7 := parseCreateContinuousQuery_frame fuel
  rcases hp with rfl | rfl | rfl | rfl | rfl | rfl | rfl | rfl | rfl <;> (unfold runHandler; frame)
  · exact h1 _
  · exact h1 _

/-- The statement belongs to a proved family whose theorem is relative to the lower-casing table `tbl` and
needs at least `N` units of expression fuel: as `PrintedStmt.OK`, the handler started in a state with table
`tbl`; it ends at `K` (`Ends`: after an expression or after a keyword) with the table unchanged. -/
structure PrintedStmt.OKT (tbl : List (Char × Char)) (N : Nat) (x : PrintedStmt) : Prop where
  path : (x.toks, x.handler) ∈ exprPathsT
  print : x.stmt.print = x.text
  body : OptText x.body
  run : ∀ (fuel : Nat) (s : PState) (K : Str), N ≤ fuel → s.lowerTbl = tbl → QEnd K → s.Before (x.body ++ K) →
    wp (runHandler fuel x.handler) s (fun st s' => st = x.stmt ∧ Ends s' K ∧ s'.lowerTbl = tbl) (· = .fuel)

/-- The table-independent families are instances for every table and every fuel. -/
theorem PrintedStmt.OK.toT {x : PrintedStmt} (hx : x.OK) (tbl : List (Char × Char)) : x.OKT tbl 0 where
  path := by
    have := hx.path
    simp only [exprPathsT, List.mem_append]
    exact Or.inl this
  print := hx.print
  body := hx.body
  run := fun fuel s K _ htb hK hs => by
    have hf : Frame (runHandler fuel x.handler) :=
      runHandler_frame_exprT fuel (x.toks, x.handler) (by simp only [exprPathsT, List.mem_append]; exact Or.inl hx.path)
    refine wp_mono (wp_frame hf (hx.run fuel s K hK hs)) ?_ (fun _ h => h)
    intro st s' ⟨⟨hst, hstand⟩, hsm⟩
    exact ⟨hst, Ends.of_stand hK hstand, hsm.2.trans htb⟩

/-- **The wp-style families satisfy the interface** (copy of `PrintedStmt.OK.spec` over
`dispatch_render_around_same`). -/
theorem PrintedStmt.OKT.spec {tbl : List (Char × Char)} {N : Nat} {x : PrintedStmt} (hx : x.OKT tbl N) (fuel : Nat)
    (hN : N ≤ fuel) : StmtSpecF tbl fuel x.text x.stmt := by
  intro lead s K htb hl hK hs
  obtain ⟨hg, hgt⟩ := leadGap_facts hl
  obtain ⟨hkw, hpath, hlen, hhead⟩ := gen_exprPathsT _ hx.path
  simp only at hkw hpath hlen hhead
  cases htoks : x.toks with
  | nil => rw [htoks] at hhead; cases hhead
  | cons t ts =>
    rw [htoks] at hkw hpath hlen hhead
    simp only [Bool.and_eq_true, bne_iff_ne, ne_eq] at hhead
    have hren : ∀ k : Str, render (kwPieces (t :: ts) (printKs (leadGap lead) (t :: ts)) ++ []) ++ k =
        lead ++ (kwLine (t :: ts) ++ k) := by
      intro k
      rw [render_printKs, hgt]
      simp [render]
    have hsp : SpacedStmt (kwPieces (t :: ts) (printKs (leadGap lead) (t :: ts)) ++ []) = true := by
      show SpacedStmt ((leadGap lead, Piece.kw t t.str) :: (kwPieces ts (restKs ts) ++ [])) = true
      simp only [SpacedStmt, Bool.and_eq_true, spaced_append]
      exact ⟨⟨hg, kw_canonical_ok t (hkw t (by simp))⟩, spaced_restKs ts (fun t ht => hkw t (by simp [ht])), rfl⟩
    have hL : Legal (kwPieces (t :: ts) (printKs (leadGap lead) (t :: ts)) ++ []) (x.body ++ K) :=
      legal_of_spacedStmt _ _ hsp (fun q => endOK_body q hx.body hK)
    have hs' : s.Before (render (kwPieces (t :: ts) (printKs (leadGap lead) (t :: ts)) ++ []) ++ (x.body ++ K)) := by
      rw [hren]
      have := hs
      unfold PrintedStmt.text at this
      rw [htoks, List.append_assoc] at this
      exact this
    have hL' := hL
    have hb' := hs'
    have hcons : kwPieces (t :: ts) (printKs (leadGap lead) (t :: ts)) ++ [] =
        (leadGap lead, Piece.kw t t.str) :: (kwPieces ts (restKs ts) ++ []) := rfl
    rw [hcons] at hL' hb'
    obtain ⟨lx, s1, hrun, t1, _, _⟩ := step s _ _ _ _ hL' hb'.around
    have sm1 : RT.Same s s1 := scanIW_frame.run hrun
    have ha : ({ s1 with n := s1.n + 1 } : PState).Around
        (render (kwPieces (t :: ts) (printKs (leadGap lead) (t :: ts)) ++ []) ++ (x.body ++ K)) :=
      ⟨s, hs', Or.inr ⟨lx, s1, hrun, rfl⟩⟩
    obtain ⟨h1, h2⟩ := kwPieces_toks (t :: ts) (printKs (leadGap lead) (t :: ts)) (printKs_length _ _)
    obtain ⟨s2, hr, hb, sm2⟩ := dispatch_render_around_same fuel x.handler
      (kwPieces (t :: ts) (printKs (leadGap lead) (t :: ts)))
      (dispatch.length + 1) 0 _ [] (x.body ++ K) (by rw [h1]; exact hpath) (by rw [h2]; exact hlen) hL ha
    refine ⟨lx, s1, hrun, by rw [t1]; exact hhead.1, by rw [t1]; exact hhead.2, ?_⟩
    have hr' : (parseStatement fuel).run { s1 with n := s1.n + 1 } = (runHandler fuel x.handler).run s2 := hr
    rw [wp_congr_run hr']
    have htb2 : s2.lowerTbl = tbl := by
      have e1 : s2.lowerTbl = ({ s1 with n := s1.n + 1 } : PState).lowerTbl := sm2.2
      have e2 : s1.lowerTbl = s.lowerTbl := sm1.2
      rw [e1]; exact e2.trans htb
    exact hx.run fuel s2 K hN htb2 hK (by simpa [render] using hb)

/-- The handlers of the printed families without expressions leave parameters and table alone. -/
theorem Printed.handler_frame (fuel : Nat) (lead : Render.Gap) (p : Printed) :
    Frame (runHandler fuel (p.spelled lead).handler) := by
  have i1 := parseIdent_frame
  have i2 := parseNameOnDb_frame
  have i3 := parseUInt64_frame
  cases p with
  | zeroArg e he =>
    simp only [zeroArgFamily, List.mem_cons, List.not_mem_nil, or_false] at he
    rcases he with rfl | rfl | rfl | rfl | rfl | rfl | rfl <;>
      (simp only [Printed.spelled, zeroArgSpelled]; unfold runHandler; frame)
  | singleName e he name =>
    simp only [singleNameFamily, List.mem_cons, List.not_mem_nil, or_false] at he
    rcases he with rfl | rfl | rfl | rfl <;>
      (simp only [Printed.spelled, singleNameSpelled]; unfold runHandler; frame)
  | nameOnDb e he name db =>
    simp only [nameOnDbFamily, List.mem_cons, List.not_mem_nil, or_false] at he
    rcases he with rfl | rfl <;>
      (simp only [Printed.spelled, nameOnDbSpelled]; unfold runHandler; frame)
  | dropShard id =>
    simp only [Printed.spelled, dropShardSpelled]; unfold runHandler; frame

/-- **The `Spelled`-based printed families satisfy the interface**, for every table and fuel. -/
theorem Printed.specF (p : Printed) (h : p.WF) (tbl : List (Char × Char)) (fuel : Nat) :
    StmtSpecF tbl fuel p.stmt.print p.stmt := by
  intro lead s K htb hl hK hs
  obtain ⟨hg, hgt⟩ := leadGap_facts hl
  have hx := p.ok (leadGap lead) h
  have hL : Legal (p.spelled (leadGap lead)).pieces K :=
    legal_of_spacedStmt _ K (p.spaced (leadGap lead) hg h) (fun q => endOK_qend q hK)
  have hs' : s.Before (render (p.spelled (leadGap lead)).pieces ++ K) := by
    rw [print_is_render, hgt, List.append_assoc]; exact hs
  obtain ⟨g, t, w, l, hp, h1, h2, _⟩ := hx.pieces_cons
  have hL' := hL
  rw [hp] at hL'
  have hb' := hs'
  rw [hp] at hb'
  obtain ⟨lx, s1, hrun, t1, _, _⟩ := step s g (.kw t w) l K hL' hb'.around
  have sm1 : RT.Same s s1 := scanIW_frame.run hrun
  have ha : ({ s1 with n := s1.n + 1 } : PState).Around (render (p.spelled (leadGap lead)).pieces ++ K) :=
    ⟨s, hs', Or.inr ⟨lx, s1, hrun, rfl⟩⟩
  have hstop : ∀ t ∈ (p.spelled (leadGap lead)).stop, NextNot K t := fun t ht =>
    nextNot_qend hK t (clauseOpeners_ne t (hx.stopKw t ht)).1 (clauseOpeners_ne t (hx.stopKw t ht)).2
  obtain ⟨_, hpath, hlen⟩ := gen_familyPaths ((p.spelled (leadGap lead)).toks, (p.spelled (leadGap lead)).handler) hx.path
  obtain ⟨k1, k2⟩ := kwPieces_toks (p.spelled (leadGap lead)).toks (p.spelled (leadGap lead)).ks hx.len
  obtain ⟨s2, hr, hb, sm2⟩ := dispatch_render_around_same fuel (p.spelled (leadGap lead)).handler
    (kwPieces (p.spelled (leadGap lead)).toks (p.spelled (leadGap lead)).ks) (dispatch.length + 1) 0 _
    (p.spelled (leadGap lead)).body K (by rw [k1]; exact hpath) (by rw [k2]; exact hlen) hL ha
  obtain ⟨s3, hrun3, a3⟩ := hx.run fuel s2 K ((legal_append _ _ _).mp hL).2 hb hstop
  have sm3 : RT.Same s2 s3 := (Printed.handler_frame fuel (leadGap lead) p).run hrun3
  have hps : (parseStatement fuel).run { s1 with n := s1.n + 1 } = .ok ((p.spelled (leadGap lead)).stmt, s3) := by
    unfold InfluxQL.parseStatement; rw [hr]; exact hrun3
  refine ⟨lx, s1, hrun, by rw [t1]; exact h1, by rw [t1]; exact h2, ?_⟩
  rw [wp_of_run_ok hps]
  refine ⟨p.spelled_stmt _, Ends.of_around hK a3, ?_⟩
  have e1 : s3.lowerTbl = ({ s1 with n := s1.n + 1 } : PState).lowerTbl := (sm2.trans sm3).2
  have e2 : s1.lowerTbl = s.lowerTbl := sm1.2
  rw [e1]; exact e2.trans htb

/-! ## the loop of `ParseQuery`, table tracked -/

theorem queryLoop_oneF (tbl : List (Char × Char)) (fuel it : Nat) (acc : List Statement) (text : Str) (stmt : Statement)
    (hspec : StmtSpecF tbl fuel text stmt) (lead K : Str) (hl : QLead lead) (hK : QEnd K) (s : PState)
    (htb : s.lowerTbl = tbl) (hs : s.Before (lead ++ (text ++ K))) (Q : List Statement → PState → Prop)
    (hnext : ∀ s', Ends s' K → s'.lowerTbl = tbl → wp (queryLoop fuel it false (acc ++ [stmt])) s' Q (· = .fuel)) :
    wp (queryLoop fuel (it + 1) true acc) s Q (· = .fuel) := by
  obtain ⟨lx, s1, hrun, h1, h2, hwp⟩ := hspec lead s K htb hl hK hs
  rw [wp_congr_run (queryLoop_step_stmt hrun h1 h2), wp_bind]
  refine wp_mono hwp ?_ (fun _ h => h)
  intro st s' ⟨hst, hends, htb'⟩
  subst hst
  exact hnext s' hends htb'

theorem queryLoop_printedF (tbl : List (Char × Char)) (fuel : Nat) :
    ∀ (items : List (Str × Statement)) (it : Nat) (acc : List Statement) (s : PState),
    (∀ z ∈ items, StmtSpecF tbl fuel z.1 z.2) → 2 * items.length + 1 ≤ it → Ends s (restText items) →
    s.lowerTbl = tbl →
    wp (queryLoop fuel it false acc) s (fun r _ => r = acc ++ items.map (·.2)) (· = .fuel) := by
  intro items
  induction items with
  | nil =>
    intro it acc s _ hit hends _
    obtain ⟨it', rfl⟩ : ∃ it', it = it' + 1 := ⟨it - 1, by simp at hit; omega⟩
    obtain ⟨lx, s1, hrun, hcase⟩ := hends
    rcases hcase with ⟨_, ht⟩ | ⟨t, e, _⟩
    · rw [wp_of_run_ok (queryLoop_step_eof hrun ht)]
      simp
    · cases e
  | cons z rest ih =>
    intro it acc s hspec hit hends htb
    obtain ⟨it', rfl⟩ : ∃ it', it = it' + 2 := ⟨it - 2, by simp at hit; omega⟩
    obtain ⟨lx, s1, hrun, hcase⟩ := hends
    rcases hcase with ⟨e, _⟩ | ⟨t, e, ht, hb⟩
    · cases e
    · simp only [restText, List.cons.injEq, true_and] at e
      subst e
      have htb1 : s1.lowerTbl = tbl := (scanIW_frame.run hrun).2.trans htb
      rw [wp_congr_run (queryLoop_step_semi hrun ht)]
      refine queryLoop_oneF tbl fuel it' acc z.1 z.2 (hspec z (by simp)) ['\n'] (restText rest) (Or.inr rfl)
        (qend_restText rest) s1 htb1 hb _ ?_
      intro s' hends' htb'
      have := ih it' (acc ++ [z.2]) s' (fun y hy => hspec y (by simp [hy])) (by simp at hit; omega) hends' htb'
      simpa using this

/-- **`ParseQuery` on a printed query** (state level, with the fuel alternative), table tracked. -/
theorem parseQuery_printed_wpF (tbl : List (Char × Char)) (fuel : Nat) (items : List (Str × Statement))
    (hspec : ∀ z ∈ items, StmtSpecF tbl fuel z.1 z.2)
    (s : PState) (htb : s.lowerTbl = tbl) (hs : s.Before (queryTextOf items)) :
    wp (parseQuery fuel) s (fun r _ => r = items.map (·.2)) (· = .fuel) := by
  obtain ⟨hn, hlen⟩ := before_length hs
  unfold InfluxQL.parseQuery
  rw [wp_bind, wp_of_run_ok (loopFuel_run s)]
  cases items with
  | nil =>
    obtain ⟨lx, s1, hrun, hcase⟩ := Ends.of_around (K := [eofRune]) (Or.inl rfl) hs.around
    rcases hcase with ⟨_, ht⟩ | ⟨t, e, _⟩
    · rw [show s.n + s.r.rest.length + 2 = (s.n + s.r.rest.length + 1) + 1 from rfl,
        wp_of_run_ok (queryLoop_step_eof hrun ht)]
      rfl
    · cases e
  | cons z rest =>
    have h1 := restText_length rest
    simp only [queryTextOf, List.length_append] at hlen
    obtain ⟨it, hit⟩ : ∃ it, s.n + s.r.rest.length + 2 = it + 1 := ⟨s.n + s.r.rest.length + 1, rfl⟩
    rw [hit]
    refine queryLoop_oneF tbl fuel it [] z.1 z.2 (hspec z (by simp)) [] (restText rest) (Or.inl rfl)
      (qend_restText rest) s htb (by simpa [queryTextOf] using hs) _ ?_
    intro s' hends' htb'
    have := queryLoop_printedF tbl fuel rest it ([] ++ [z.2]) s' (fun y hy => hspec y (by simp [hy])) (by omega) hends' htb'
    simpa using this

/-- **`ParseQuery(text)` on a printed query**, every statement satisfying `StmtSpecF` for the table of the
input and the fuel `parseQueryText` grants. -/
theorem parseQueryText_printed_itemsF (hdep : dispatchDepthOK (dispatch.length + 1) 0 = true)
    (items : List (Str × Statement)) (text : Str) (params : List (Str × BoundValue)) (tbl : List (Char × Char))
    (hspec : ∀ z ∈ items, StmtSpecF tbl (fuelFor text) z.1 z.2)
    (hfold : foldCR text = joinWith (tx ";\n") (items.map (·.1))) :
    parseQueryText text params tbl = .ok (items.map (·.2)) := by
  have hs := PState.init_before text params tbl
  rw [hfold, queryTextOf_eq] at hs
  have hwp := parseQuery_printed_wpF tbl (fuelFor text) items hspec _ rfl hs
  have htot := parseQueryText_total hdep text params tbl
  unfold parseQueryText at htot ⊢
  unfold wp at hwp
  show (Prod.fst <$> (parseQuery (fuelFor text)).run (PState.init text params tbl)) = .ok _
  change Returns (Prod.fst <$> (parseQuery (fuelFor text)).run (PState.init text params tbl)) at htot
  cases hr : (parseQuery (fuelFor text)).run (PState.init text params tbl) with
  | error f =>
    rw [hr] at hwp htot
    have hf : f = .fuel := hwp
    subst hf
    exact absurd htot (by intro h; exact h)
  | ok p =>
    rw [hr] at hwp
    show Except.ok p.1 = Except.ok _
    rw [hwp]

end InfluxQL.PrintedQuery

import InfluxQL.Model.Bind
import InfluxQL.Lemmas.PMonad
import InfluxQL.Lemmas.Neutral
/-
Bound parameters (C07): how `$name` is lexed, how `Parser.scan` substitutes, and what the
expression parser does with an unsubstituted BOUNDPARAM token.
-/
namespace InfluxQL
open Gen

/-! ### The `$` branch of `Scan` -/

theorem scanFrom_dollar (pos : Pos) (r r1 : Cursor) :
    scanFrom '$' pos r r1 =
      if (scanIdent false r1).1.tok ≠ .IDENT then
        (⟨(scanIdent false r1).1.tok, pos, '$' :: (scanIdent false r1).1.lit⟩, (scanIdent false r1).2)
      else (⟨.BOUNDPARAM, pos, '$' :: (scanIdent false r1).1.lit⟩, (scanIdent false r1).2) := by
  unfold scanFrom
  have h1 : isWhitespace '$' = false := by decide
  have h2 : isLetter '$' = false := by decide
  have h3 : isDigit '$' = false := by decide
  have h4 : ('$' : Char) ≠ eofRune := by decide
  simp [h1, h2, h3, h4]

/-- `scanIdent` without keyword lookup on a bare name followed by a separating rune. -/
theorem scanIdent_bare_nolookup (r : Cursor) (name : List Char) (x : Char) (t : List Char)
    (hne : name ≠ []) (hall : ∀ c ∈ name, isIdentChar c = true) (h : r.chars = name ++ x :: t)
    (hx : isIdentChar x = false) (hxq : x ≠ '"') (hxe : x ≠ eofRune) :
    (scanIdent false r).1.tok = .IDENT ∧ (scanIdent false r).1.lit = name ∧
      (scanIdent false r).2.chars = x :: t := by
  cases name with
  | nil => exact absurd rfl hne
  | cons c tl =>
    have hic : isIdentChar c = true := hall c (by simp)
    have hce : c ≠ eofRune := isIdentChar_ne_eof hic
    have hcq : c ≠ '"' := by intro e; subst e; revert hic; decide
    have hpk := Cursor.peek_of_map (r := r) (c := c) (t := tl ++ x :: t) (by simpa [Cursor.chars] using h)
    obtain ⟨hb1, hb2, _⟩ := scanBareIdent_exact r (c :: tl) x t h hall hx hxe
    have hpk' : (scanBareIdent r).2.peek = x := (Cursor.peek_of_map hb2).1
    have hloop : scanIdentLoop (r.read.1).2 (r.rest.length + 2) r [] = ((none, c :: tl), (scanBareIdent r).2) := by
      rw [show r.rest.length + 2 = (r.rest.length + 1) + 1 from rfl]
      rw [scanIdentLoop]
      simp only [hpk.1, hce, hcq, hic, if_false, if_true]
      rw [scanIdentLoop]
      simp only [hpk', hxe, hxq, hx, if_false, hb1, List.nil_append]
      simp
    unfold scanIdent
    dsimp only
    rw [hloop]
    simp only [Bool.false_eq_true, false_and, if_false]
    exact ⟨by trivial, by trivial, hb2⟩

/-- **`$name` lexes once.** Wherever the scanner stands before `$`, a non-empty run of identifier
characters and then any rune that cannot continue an identifier (not `"`, not NUL), `Scan`
returns exactly one token, BOUNDPARAM, whose literal is `$` plus the name — keywords included
(`$select` is a parameter, not SELECT) — and stops right after the name. -/
theorem scan_dollar_name (r : Cursor) (name : List Char) (x : Char) (t : List Char)
    (hne : name ≠ []) (hall : ∀ c ∈ name, isIdentChar c = true) (h : r.chars = '$' :: (name ++ x :: t))
    (hx : isIdentChar x = false) (hxq : x ≠ '"') (hxe : x ≠ eofRune) :
    (scan r).1.tok = .BOUNDPARAM ∧ (scan r).1.lit = '$' :: name ∧ (scan r).2.chars = x :: t := by
  obtain ⟨h1, h2, _⟩ := Cursor.chars_cons h
  obtain ⟨ht, hl, hc⟩ := scanIdent_bare_nolookup r.read.2 name x t hne hall h2 hx hxq hxe
  unfold scan
  rw [h1, scanFrom_dollar]
  simp only [ht, ne_eq, not_true_eq_false, if_false, hl]
  exact ⟨by trivial, by trivial, hc⟩

/-- Whatever follows the `$`, `Scan` returns *one* token for it: the token of `scanIdent` (without
keyword lookup) with `$` prepended to its literal — BOUNDPARAM unless the quoted form is a bad
string. In particular no text after `$` can make the scanner emit a second token from it. -/
theorem scan_dollar_general (r : Cursor) (t : List Char) (h : r.chars = '$' :: t) :
    (scan r).1.lit = '$' :: (scanIdent false r.read.2).1.lit ∧ (scan r).2 = (scanIdent false r.read.2).2 ∧
    ((scan r).1.tok = .BOUNDPARAM ∨ (scan r).1.tok = (scanIdent false r.read.2).1.tok) := by
  obtain ⟨h1, _, _⟩ := Cursor.chars_cons h
  unfold scan
  rw [h1, scanFrom_dollar]
  split
  · exact ⟨rfl, rfl, Or.inr rfl⟩
  · exact ⟨rfl, rfl, Or.inl rfl⟩

/-! ### Substitution happens on delivery, identically on re-delivery -/

/-- **One token per placeholder.** If the raw token is `$k` with `k` bound to `v`, `Parser.Scan`
delivers exactly the token `(v.tok, v.text)` at the placeholder's position. -/
theorem substTok_bound (params : List (Str × BoundValue)) (lx : Lexeme) (v : BoundValue)
    (h1 : lx.tok = .BOUNDPARAM) (h2 : trimDollar lx.lit ≠ [])
    (h3 : lookupParam (trimDollar lx.lit) params = some v) :
    substTok params lx = ⟨v.tok, lx.pos, v.text⟩ := by
  unfold substTok
  rw [if_pos h1, if_pos h2, h3]

/-- Unbound or empty names are left as they are. -/
theorem substTok_unbound (params : List (Str × BoundValue)) (lx : Lexeme)
    (h : lx.tok ≠ .BOUNDPARAM ∨ trimDollar lx.lit = [] ∨ lookupParam (trimDollar lx.lit) params = none) :
    substTok params lx = lx := by
  unfold substTok
  by_cases h1 : lx.tok = .BOUNDPARAM
  · rw [if_pos h1]
    by_cases h2 : trimDollar lx.lit ≠ []
    · rw [if_pos h2]
      rcases h with h | h | h
      · exact absurd h1 h
      · exact absurd h h2
      · rw [h]
    · rw [if_neg h2]
  · rw [if_neg h1]

/-- `Scan`, `Unscan`, `Scan` (or `ScanRegex`): the second delivery returns the same substituted
token and the same state as the first. -/
theorem pscan_unscan_pscan (regex regex' : Bool) (s : PState) :
    (pscanWith regex' ).run { (rawNext regex s).2 with n := (rawNext regex s).2.n + 1 } =
      (pscanWith regex).run s := by
  rw [pscanWith_run, pscanWith_run, rawNext_unscan, lastRaw_rawNext]
  simp only [(rawNext_params regex s).1]

/-! ### The value never reaches the scanner -/

/-- The raw token and the evolution of cursor and ring do not depend on the parameter map. -/
theorem rawNext_params_irrelevant (regex : Bool) (s : PState) (p2 : List (Str × BoundValue)) :
    rawNext regex { s with params := p2 } =
      ((rawNext regex s).1, { (rawNext regex s).2 with params := p2 }) := by
  unfold rawNext
  by_cases hn : s.n > 0
  · simp only [hn, if_true]
  · simp only [hn, if_false]

/-- Two parameter maps that bind the same names, with equal values except that values of token
kind STRING may carry different texts. -/
def ParamsRel : List (Str × BoundValue) → List (Str × BoundValue) → Prop
  | [], [] => True
  | (k1, v1) :: r1, (k2, v2) :: r2 =>
    k1 = k2 ∧ v1.tok = v2.tok ∧ (v1.tok ≠ .STRING → v1.text = v2.text) ∧ ParamsRel r1 r2
  | _, _ => False

/-- Delivered tokens that agree except for the text of a STRING token. -/
def LxRel (a b : Lexeme) : Prop := a.tok = b.tok ∧ a.pos = b.pos ∧ (a.tok ≠ .STRING → a.lit = b.lit)

theorem LxRel.refl (a : Lexeme) : LxRel a a := ⟨rfl, rfl, fun _ => rfl⟩

theorem lookupParam_rel {p1 p2 : List (Str × BoundValue)} (h : ParamsRel p1 p2) (k : Str) :
    (lookupParam k p1 = none ∧ lookupParam k p2 = none) ∨
    ∃ v1 v2, lookupParam k p1 = some v1 ∧ lookupParam k p2 = some v2 ∧ v1.tok = v2.tok ∧
      (v1.tok ≠ .STRING → v1.text = v2.text) := by
  induction p1 generalizing p2 with
  | nil =>
    cases p2 with
    | nil => exact Or.inl ⟨rfl, rfl⟩
    | cons y r2 => exact absurd h (by simp [ParamsRel])
  | cons x r1 ih =>
    cases p2 with
    | nil => obtain ⟨k1, v1⟩ := x; exact absurd h (by simp [ParamsRel])
    | cons y r2 =>
      obtain ⟨k1, v1⟩ := x
      obtain ⟨k2, v2⟩ := y
      obtain ⟨hk, ht, hx, hr⟩ := h
      subst hk
      simp only [lookupParam]
      by_cases hkk : k1 = k
      · simp only [hkk, if_true]
        exact Or.inr ⟨v1, v2, rfl, rfl, ht, hx⟩
      · simp only [hkk, if_false]
        exact ih hr

/-- **The value is not re-lexed (token layer).** For two related parameter maps the same raw
token is substituted to tokens of the same kind and position; only the text of a STRING token
can differ. -/
theorem substTok_rel {p1 p2 : List (Str × BoundValue)} (h : ParamsRel p1 p2) (lx : Lexeme) :
    LxRel (substTok p1 lx) (substTok p2 lx) := by
  unfold substTok
  by_cases h1 : lx.tok = .BOUNDPARAM
  · rw [if_pos h1, if_pos h1]
    by_cases h2 : trimDollar lx.lit ≠ []
    · rw [if_pos h2, if_pos h2]
      rcases lookupParam_rel h (trimDollar lx.lit) with ⟨e1, e2⟩ | ⟨v1, v2, e1, e2, ht, hx⟩
      · rw [e1, e2]; exact LxRel.refl lx
      · rw [e1, e2]; exact ⟨ht, rfl, hx⟩
    · rw [if_neg h2, if_neg h2]; exact LxRel.refl lx
  · rw [if_neg h1, if_neg h1]; exact LxRel.refl lx

/-! ### What `parseUnaryExpr` does with a substituted token -/

/-- A placeholder bound to a string value (or a written string literal): the operand is the
string literal node carrying exactly the delivered text; one token is consumed. -/
theorem parseUnaryExpr_string_token (fuel : Nat) (s : PState)
    (h1 : (substTok s.params (rawNext false s).1).tok = .STRING) :
    (parseUnaryExpr (fuel + 1)).run s =
      .ok (.string (substTok s.params (rawNext false s).1).lit, (rawNext false s).2) := by
  have hws : (substTok s.params (rawNext false s).1).tok ≠ .WS := by rw [h1]; decide
  have hcm : (substTok s.params (rawNext false s).1).tok ≠ .COMMENT := by rw [h1]; decide
  have hlp : ¬ (substTok s.params (rawNext false s).1).tok = .LPAREN := by rw [h1]; decide
  rw [parseUnaryExpr]
  rw [P.runBind, scanIW_run_sig s hws hcm, pscan_run]
  simp only []
  rw [P.run_ite, if_neg hlp]
  rw [P.runBind, unscan_run_eq]
  simp only []
  rw [P.runBind, scanIW_run_redeliver false s hws hcm]
  simp only [h1]
  rfl

/-- The error `parseUnaryExpr` reports for a token that is still BOUNDPARAM when delivered. -/
def boundParamError (params : List (Str × BoundValue)) (lit : Str) : Str :=
  if trimDollar lit = [] then "empty bound parameter".toList
  else
    match lookupParam (trimDollar lit) params with
    | none => "missing parameter: ".toList ++ trimDollar lit
    | some v => v.text

/-- A token that is still BOUNDPARAM when delivered — an empty name, an unbound name, or a name
bound to an `ErrorValue` (whose token kind is BOUNDPARAM) — makes `parseUnaryExpr` fail. -/
theorem parseUnaryExpr_boundparam_token (fuel : Nat) (s : PState)
    (h1 : (substTok s.params (rawNext false s).1).tok = .BOUNDPARAM) :
    (parseUnaryExpr (fuel + 1)).run s =
      .error (.err (.plain (boundParamError s.params (substTok s.params (rawNext false s).1).lit))) := by
  have hws : (substTok s.params (rawNext false s).1).tok ≠ .WS := by rw [h1]; decide
  have hcm : (substTok s.params (rawNext false s).1).tok ≠ .COMMENT := by rw [h1]; decide
  have hlp : ¬ (substTok s.params (rawNext false s).1).tok = .LPAREN := by rw [h1]; decide
  rw [parseUnaryExpr]
  rw [P.runBind, scanIW_run_sig s hws hcm, pscan_run]
  simp only []
  rw [P.run_ite, if_neg hlp]
  rw [P.runBind, unscan_run_eq]
  simp only []
  rw [P.runBind, scanIW_run_redeliver false s hws hcm]
  simp only [h1]
  unfold boundParamError
  by_cases hk : trimDollar (substTok s.params (rawNext false s).1).lit = []
  · rw [P.run_ite, if_pos hk, if_pos hk]; rfl
  · rw [P.run_ite, if_neg hk, if_neg hk, P.runBind, P.run_get]
    simp only [(rawNext_params false s).1]
    cases lookupParam (trimDollar (substTok s.params (rawNext false s).1).lit) s.params <;> rfl

end InfluxQL

import InfluxQL.Lemmas.PrintedQueryT
/-
The table-relative families as `PrintedStmt`s (C16 (a)): SELECT of the class `selOKB tbl n` (C03's wide
class in fields / condition / dimensions, GROUP BY / fill / ORDER BY / limits / TZ, qualified sources and
subqueries nested less than `n` deep), EXPLAIN [ANALYZE] [VERBOSE] of such a SELECT, CREATE CONTINUOUS QUERY
… BEGIN such a SELECT with INTO END. `QStmtT` is the sum of all instantiated kinds with the common interface
`QStmtT.OK tbl → StmtSpecF tbl fuel` (for `minFuel ≤ fuel`).
-/
namespace InfluxQL.PrintedQuery
open InfluxQL Gen Render C01 RenderQuery RenderPrinted

/-! ## SELECT with the wide class and subqueries -/

def selectSubPS (st : SelectStmt) : PrintedStmt :=
  ⟨[.SELECT], .parseSelectStatement_targetNotRequired, selectTail st, .select st⟩

theorem selectSubPS_ok (tbl : List (Char × Char)) (n : Nat) (st : SelectStmt) (h : selOKB tbl n st = true) :
    (selectSubPS st).OKT tbl (n + 3) where
  path := by simp [selectSubPS, exprPathsT, exprPaths]
  print := by
    show (Statement.select st).print = kwLine [.SELECT] ++ selectTail st
    rw [C02.selectSub_print tbl n st h, show tx "SELECT" = kwLine [.SELECT] from by decide +kernel]
  body := by
    obtain ⟨y, hy⟩ := selOKB_print tbl n st h
    exact Or.inr ⟨y, selectTail_of_print hy⟩
  run := fun fuel s K hN htb hK hs => by
    obtain ⟨F, rfl⟩ : ∃ F, fuel = F + n + 3 := ⟨fuel - (n + 3), by omega⟩
    simp only [selectSubPS, runHandler]
    rw [wp_bind]
    refine wp_mono (wp_frame (parseSelect_frame _ _) (C02.Semi.parseSelect_sub tbl n F false st s K h
      (fun h => by cases h) htb (follow_qend hK _ (by decide) (by decide)) hs)) ?_ (fun _ h => h)
    intro r s' ⟨⟨hr, hs'⟩, hsm⟩
    rw [wp_pure, hr]
    exact ⟨rfl, Ends.of_stand hK hs', hsm.2.trans htb⟩

/-! ## EXPLAIN -/

def explainPS (st : SelectStmt) (analyze verbose : Bool) : PrintedStmt :=
  ⟨[.EXPLAIN], .parseExplainStatement, explainText analyze verbose st, .explain st analyze verbose⟩

theorem explainPS_ok (tbl : List (Char × Char)) (n : Nat) (st : SelectStmt) (analyze verbose : Bool)
    (h : selOKB tbl n st = true) : (explainPS st analyze verbose).OKT tbl (n + 3) where
  path := by simp [explainPS, exprPathsT, exprPaths]
  print := by
    show (Statement.explain st analyze verbose).print = kwLine [.EXPLAIN] ++ explainText analyze verbose st
    rw [explain_print_eq tbl n st analyze verbose h, show tx "EXPLAIN" = kwLine [.EXPLAIN] from by decide +kernel]
  body := by
    cases analyze <;> cases verbose <;> exact Or.inr ⟨_, rfl⟩
  run := fun fuel s K hN htb hK hs => by
    obtain ⟨F, rfl⟩ : ∃ F, fuel = F + n + 3 := ⟨fuel - (n + 3), by omega⟩
    show wp (parseExplain (F + n + 3)) s _ _
    refine wp_mono (wp_frame (parseExplain_frame _) (C02.Semi.parseExplain_print n F s st analyze verbose K
      (by rw [htb]; exact h) (follow_qend hK _ (by decide) (by decide)) hs)) ?_ (fun _ h => h)
    intro r s' ⟨⟨hr, hs'⟩, hsm⟩
    exact ⟨hr, Ends.of_stand hK hs', hsm.2.trans htb⟩

/-! ## CREATE CONTINUOUS QUERY -/

/-- The class of `C02.createContinuousQuery_print_parse_partial` (decidable). -/
def CQOK (tbl : List (Char × Char)) (n : Nat) (name db : Str) (ev fo : Int) (st : SelectStmt) : Prop :=
  Expressible name ∧ Expressible db ∧ LimOK ev ∧ LimOK fo ∧ selOKB tbl n st = true ∧ st.target ≠ none ∧
    cqOKB st ev fo = true

instance (tbl : List (Char × Char)) (n : Nat) (name db : Str) (ev fo : Int) (st : SelectStmt) :
    Decidable (CQOK tbl n name db ev fo st) := by
  unfold CQOK
  have : Decidable (st.target ≠ none) := by
    cases st.target with
    | none => exact isFalse (fun h => h rfl)
    | some _ => exact isTrue (fun h => by cases h)
  exact inferInstance

def cqPS (name db : Str) (ev fo : Int) (st : SelectStmt) : PrintedStmt :=
  ⟨[.CREATE, .CONTINUOUS, .QUERY], .parseCreateContinuousQueryStatement, cqText name db ev fo st,
    .createContinuousQuery name db st ev fo⟩

theorem wordEnd_qend {K : Str} (hK : QEnd K) : WordEnd K := by
  rcases hK with rfl | ⟨t, rfl⟩
  · exact WordEnd.eof
  · exact WordEnd.semicolon t

/-- The statement ends in the keyword `END`: what follows only has to end a word. -/
theorem cqPS_ok (tbl : List (Char × Char)) (n : Nat) (name db : Str) (ev fo : Int) (st : SelectStmt)
    (h : CQOK tbl n name db ev fo st) : (cqPS name db ev fo st).OKT tbl (n + 3) where
  path := by simp [cqPS, exprPathsT, exprPaths]
  print := by
    show (Statement.createContinuousQuery name db st ev fo).print =
      kwLine [.CREATE, .CONTINUOUS, .QUERY] ++ cqText name db ev fo st
    rw [cq_print_eq tbl n name db ev fo st h.2.2.2.2.1,
      show tx "CREATE CONTINUOUS QUERY" = kwLine [.CREATE, .CONTINUOUS, .QUERY] from by decide +kernel]
  body := Or.inr ⟨_, rfl⟩
  run := fun fuel s K hN htb hK hs => by
    obtain ⟨F, rfl⟩ : ∃ F, fuel = F + n + 3 := ⟨fuel - (n + 3), by omega⟩
    obtain ⟨h1, h2, h3, h4, h5, h6, h7⟩ := h
    have hf : Frame (runHandler (F + n + 3) .parseCreateContinuousQueryStatement) :=
      runHandler_frame_exprT _ ([.CREATE, .CONTINUOUS, .QUERY], .parseCreateContinuousQueryStatement)
        (by simp [exprPathsT])
    refine wp_mono (wp_frame hf (C02.createContinuousQuery_print_parse_partial n F s name db ev fo st K h1 h2 h3 h4
      (by rw [htb]; exact h5) h6 h7 (wordEnd_qend hK) hs)) ?_ (fun _ h => h)
    intro r s' ⟨⟨hr, hs'⟩, hsm⟩
    exact ⟨hr, Ends.of_stand hK hs', hsm.2.trans htb⟩

/-! ## statements of every instantiated kind -/

/-- A printed statement of a proved family: `plain` — the `Spelled`-based families (`Printed`); `expr` — the
wp-style families whose classes do not depend on the lower-casing table (`PrintedStmt.OK`: DELETE, DROP
SERIES, SHOW SERIES / TAG KEYS / FIELD KEYS / MEASUREMENTS, SELECT in `SimpleSelect` / `IntoSelect`);
`wide N` — the families relative to the table, needing `N` units of expression fuel (`PrintedStmt.OKT tbl N`:
`selectSubPS`, `explainPS`, `cqPS`). -/
inductive QStmtT where
  | plain (p : Printed)
  | expr (x : PrintedStmt)
  | wide (N : Nat) (x : PrintedStmt)

def QStmtT.stmt : QStmtT → Statement
  | .plain p => p.stmt
  | .expr x => x.stmt
  | .wide _ x => x.stmt

def QStmtT.OK (tbl : List (Char × Char)) : QStmtT → Prop
  | .plain p => p.WF
  | .expr x => x.OK
  | .wide N x => x.OKT tbl N

/-- The expression fuel the statement's theorem needs (`fuelFor text = 4·|text| + 100`). -/
def QStmtT.minFuel : QStmtT → Nat
  | .plain _ => 0
  | .expr _ => 0
  | .wide N _ => N

/-- The older sum type embeds. -/
def QStmt.toT : QStmt → QStmtT
  | .plain p => .plain p
  | .expr x => .expr x

theorem QStmt.toT_stmt (q : QStmt) : q.toT.stmt = q.stmt := by cases q <;> rfl
theorem QStmt.toT_ok (tbl : List (Char × Char)) (q : QStmt) (h : q.OK) : q.toT.OK tbl := by cases q <;> exact h
theorem QStmt.toT_minFuel (q : QStmt) : q.toT.minFuel = 0 := by cases q <;> rfl

theorem QStmtT.specF (tbl : List (Char × Char)) (fuel : Nat) (q : QStmtT) (h : q.OK tbl) (hN : q.minFuel ≤ fuel) :
    StmtSpecF tbl fuel q.stmt.print q.stmt := by
  cases q with
  | plain p => exact Printed.specF p h tbl fuel
  | expr x =>
    have h' : x.OK := h
    have := PrintedStmt.OKT.spec (h'.toT tbl) fuel (Nat.zero_le _)
    rw [← h'.print] at this
    exact this
  | wide N x =>
    have h' : x.OKT tbl N := h
    have := PrintedStmt.OKT.spec h' fuel hN
    rw [← h'.print] at this
    exact this

/-- **`ParseQuery(text)` on a printed query of statements of every instantiated kind.** -/
theorem parseQueryText_printed_qstmtsT (hdep : dispatchDepthOK (dispatch.length + 1) 0 = true)
    (qs : List QStmtT) (text : Str) (params : List (Str × BoundValue)) (tbl : List (Char × Char))
    (hok : ∀ q ∈ qs, q.OK tbl) (hfuel : ∀ q ∈ qs, q.minFuel ≤ fuelFor text)
    (hfold : foldCR text = printStatements (qs.map QStmtT.stmt)) :
    parseQueryText text params tbl = .ok (qs.map QStmtT.stmt) := by
  have h := parseQueryText_printed_itemsF hdep (qs.map fun q => (q.stmt.print, q.stmt)) text params tbl
    (by
      intro z hz
      obtain ⟨q, hq, rfl⟩ := List.mem_map.mp hz
      exact q.specF tbl _ (hok q hq) (hfuel q hq))
    (by rw [hfold]; unfold printStatements; simp [List.map_map, Function.comp_def])
  simpa [List.map_map, Function.comp_def] using h

end InfluxQL.PrintedQuery

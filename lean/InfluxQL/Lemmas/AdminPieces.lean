import InfluxQL.Lemmas.StmtPieces
import InfluxQL.Lemmas.StmtExprPieces
/-
Pieces for the administrative statements with option lists (C02): the `parseTokens` + `Unscan`
probes of `parseCreateDatabaseStatement` (`optClause`), the first-token probe after `WITH`, and the
string list of `CREATE SUBSCRIPTION … DESTINATIONS`.

Everything is stated on the state predicates of `Lemmas/StmtPieces.lean` (`Before`, `Around`,
`NextNot`) and on the clause-text shape `KwText x T` (nothing, or ` T <something>`) of
`Lemmas/StmtExprPieces.lean`.
-/
namespace InfluxQL
open Gen

/-! ## optional clauses opened by a keyword -/

theorem KwText.optText {x : Str} {T : Token} (h : KwText x T) : OptText x := by
  rcases h with rfl | ⟨y, rfl⟩
  · exact Or.inl rfl
  · exact Or.inr ⟨_, rfl⟩

/-- The first token of an optional keyword clause followed by `rest` is not `t`, when the keyword
is not `t` and the first token of `rest` is not `t`. -/
theorem nextNot_kwText {x rest : Str} {T : Token} (t : Token) (hx : KwText x T) (hT : T.isKw = true) (hne : T ≠ t)
    (hr : NextNot rest t) : NextNot (x ++ rest) t := by
  rcases hx with rfl | ⟨y, rfl⟩
  · exact hr
  · have := nextNot_kw T t (' ' :: (y ++ rest)) hT hne (WordEnd.blank _)
    simpa only [List.append_assoc, List.cons_append] using this

/-- `optClause` when the keyword is absent: one token is looked at and pushed back. -/
theorem optClause_absent {α : Type} (t : Token) (body : P α) {s : PState} {lx : Lexeme} {s' : PState}
    (h : Peeked s lx s') (hne : lx.tok ≠ t) : (optClause t body).run s = .ok (none, s') := by
  obtain ⟨s1, h1, rfl⟩ := h
  unfold optClause
  rw [P.run_bind _ _ s lx s1 h1]
  simp only [hne, ne_eq, not_false_eq_true, if_true]
  rw [P.run_bind _ _ s1 () _ (unscan_run s1)]
  rfl

/-- The same from a state around `k`: the parser stays around `k`. -/
theorem optClause_absent_around {α : Type} (t : Token) (body : P α) (s : PState) (k : Str) (hs : s.Around k)
    (hn : NextNot k t) : ∃ s', (optClause t body).run s = .ok (none, s') ∧ s'.Around k := by
  obtain ⟨s0, hb, rfl | ⟨lx, hp⟩⟩ := hs
  · obtain ⟨lx, s1, h1⟩ := scanIW_total s
    have hp : Peeked s lx { s1 with n := s1.n + 1 } := ⟨s1, h1, rfl⟩
    exact ⟨_, optClause_absent t body hp (hn s lx s1 hb h1), s, hb, Or.inr ⟨lx, hp⟩⟩
  · obtain ⟨s1, h1, _⟩ := id hp
    exact ⟨s, optClause_absent t body hp.again (hn s0 lx s1 hb h1), s0, hb, Or.inr ⟨lx, hp⟩⟩

/-- `optClause` when the keyword is there: the keyword is consumed and the body runs before the
rest of the clause. -/
theorem optClause_present {α : Type} (t : Token) (ht : t.isKw = true) (body : P α) (s : PState) (y : Str)
    (hs : s.Around (' ' :: (t.str ++ ' ' :: y))) :
    ∃ s1, s1.Before (' ' :: y) ∧ (optClause t body).run s = (do let v ← body; pure (some v)).run s1 := by
  obtain ⟨lx, s1, h1, t1, _, b1⟩ := scanIW_piece s [' '] t.str (' ' :: y) t [] Gap.blank hs
    (scansAs_kw t _ ht (WordEnd.blank _))
  refine ⟨s1, b1, ?_⟩
  unfold optClause
  rw [P.run_bind _ _ s lx s1 h1]
  simp only [t1, ne_eq, not_true_eq_false, if_false]

/-- `optClause` with a body that returns `v` on the rest of the clause. -/
theorem optClause_some {α : Type} (t : Token) (ht : t.isKw = true) (body : P α) (s : PState) (y rest : Str) (v : α)
    (hs : s.Around (' ' :: (t.str ++ ' ' :: (y ++ rest))))
    (hbody : ∀ s1 : PState, s1.Before (' ' :: (y ++ rest)) → ∃ s2, body.run s1 = .ok (v, s2) ∧ s2.Before rest) :
    ∃ s', (optClause t body).run s = .ok (some v, s') ∧ s'.Around rest := by
  obtain ⟨s1, b1, h1⟩ := optClause_present t ht body s (y ++ rest) hs
  obtain ⟨s2, h2, b2⟩ := hbody s1 b1
  refine ⟨s2, ?_, b2.around⟩
  rw [h1, P.run_bind _ _ s1 v s2 h2]
  rfl

/-! ## the first token of a text -/

/-- The first significant token of `x` is one of `L`. -/
def FirstIn (x : Str) (L : List Token) : Prop :=
  ∀ s : PState, s.Before x → ∃ lx s1, scanIW.run s = .ok (lx, s1) ∧ lx.tok ∈ L

theorem firstIn_kwText {x rest : Str} {T : Token} {L : List Token} (hx : KwText x T) (hT : T.isKw = true)
    (hm : T ∈ L) (hr : x = [] → FirstIn rest L) : FirstIn (x ++ rest) L := by
  rcases hx with rfl | ⟨y, rfl⟩
  · exact hr rfl
  · intro s hs
    have hs' : s.Before ([' '] ++ (T.str ++ (' ' :: (y ++ rest)))) := by
      simpa only [List.append_assoc, List.cons_append, List.nil_append] using hs
    obtain ⟨lx, s1, h1, t1, _, _⟩ := scanIW_piece0 s [' '] T.str _ T [] Gap.blank hs'
      (scansAs_kw T _ hT (WordEnd.blank _))
    exact ⟨lx, s1, h1, by rw [t1]; exact hm⟩

/-! ## string lists -/

/-- What `strings.Join(quoted, ", ")` writes after the first string. -/
def moreStrings : List Str → Str
  | [] => []
  | v :: rest => ',' :: ' ' :: (quoteString v ++ moreStrings rest)

theorem joinStrings (v : Str) (vs : List Str) :
    joinWith (tx ", ") ((v :: vs).map quoteString) = quoteString v ++ moreStrings vs := by
  induction vs generalizing v with
  | nil => simp [joinWith, moreStrings]
  | cons w vs ih =>
    have e : joinWith (tx ", ") ((v :: w :: vs).map quoteString) =
        quoteString v ++ tx ", " ++ joinWith (tx ", ") ((w :: vs).map quoteString) := rfl
    rw [e, ih w]
    simp [moreStrings, tx]

theorem length_moreStrings (vs : List Str) : vs.length ≤ (moreStrings vs).length := by
  induction vs with
  | nil => exact Nat.le_refl _
  | cons v rest ih => simp only [moreStrings, List.length_cons, List.length_append]; omega

/-- The loop of `parseStringList` on the printed strings: every `, '<string>'` is consumed; the
first token that is no comma is looked at and pushed back. -/
theorem stringListLoop_print (vs : List Str) : ∀ (it : Nat) (acc : List Str) (s : PState) (k : Str),
    vs.length < it → (∀ v ∈ vs, Expressible v) → NextNot k .COMMA → s.Around (moreStrings vs ++ k) →
    ∃ s', (stringListLoop it acc).run s = .ok (acc ++ vs, s') ∧ s'.Around k := by
  induction vs with
  | nil =>
    intro it acc s k hit _ hk hs
    obtain ⟨it', rfl⟩ : ∃ it', it = it' + 1 := ⟨it - 1, by simp at hit; omega⟩
    obtain ⟨s0, hb, he⟩ := hs.scanIW_eq
    obtain ⟨lx, s1, h1⟩ := scanIW_total s0
    have hne : lx.tok ≠ .COMMA := hk s0 lx s1 hb h1
    refine ⟨{ s1 with n := s1.n + 1 }, ?_, s0, hb, Or.inr ⟨lx, s1, h1, rfl⟩⟩
    rw [stringListLoop, P.run_bind _ _ s lx s1 (by rw [he]; exact h1)]
    simp only [hne, ne_eq, not_false_eq_true, if_true]
    rw [P.run_bind _ _ s1 () _ (unscan_run s1), List.append_nil]
    rfl
  | cons v vs ih =>
    intro it acc s k hit hex hk hs
    obtain ⟨it', rfl⟩ : ∃ it', it = it' + 1 := ⟨it - 1, by simp at hit; omega⟩
    have hs' : s.Around ([] ++ ([','] ++ (' ' :: (quoteString v ++ (moreStrings vs ++ k))))) := by
      simpa only [moreStrings, List.append_assoc, List.cons_append, List.nil_append] using hs
    obtain ⟨lx, s1, h1, t1, _, b1⟩ := scanIW_piece s [] [','] _ .COMMA [] Gap.none hs' (scansAs_comma _)
    obtain ⟨s2, h2, b2⟩ := parseString_piece s1 [' '] (quoteString v) (moreStrings vs ++ k) v Gap.blank b1.around
      (scansAs_string v _ (hex v (by simp)))
    obtain ⟨s3, h3, b3⟩ := ih it' (acc ++ [v]) s2 k (by simp at hit ⊢; omega)
      (fun x hx => hex x (by simp [hx])) hk b2.around
    refine ⟨s3, ?_, b3⟩
    rw [stringListLoop, P.run_bind _ _ s lx s1 h1]
    simp only [t1, ne_eq, not_true_eq_false, if_false]
    rw [P.run_bind _ _ s1 v s2 h2, h3]
    simp

/-- **`parseStringList`** on a blank and the printed list `'a', 'b', …`. -/
theorem parseStringList_print (s : PState) (v : Str) (vs : List Str) (k : Str) (hex : ∀ x ∈ v :: vs, Expressible x)
    (hk : NextNot k .COMMA) (hs : s.Before (' ' :: (quoteString v ++ (moreStrings vs ++ k)))) :
    ∃ s', parseStringList.run s = .ok (v :: vs, s') ∧ s'.Around k := by
  obtain ⟨s1, h1, b1⟩ := parseString_piece s [' '] (quoteString v) (moreStrings vs ++ k) v Gap.blank hs.around
    (scansAs_string v _ (hex v (by simp)))
  have hlen : vs.length < s1.n + s1.r.rest.length + 2 := by
    have h1 := length_moreStrings vs
    have h2 : (moreStrings vs ++ k).length ≤ s1.r.rest.length + 1 := by
      rcases b1.2 with h | ⟨hk1, h⟩
      · have : s1.r.rest.length = (moreStrings vs ++ k).length := by rw [← h]; simp [Cursor.chars]
        omega
      · rw [hk1]; simp
    simp only [List.length_append] at h2
    omega
  obtain ⟨s2, h2, b2⟩ := stringListLoop_print vs _ [v] s1 k hlen (fun x hx => hex x (by simp [hx])) hk b1.around
  refine ⟨s2, ?_, b2⟩
  unfold parseStringList
  have hf : loopFuel.run s1 = .ok (s1.n + s1.r.rest.length + 2, s1) := rfl
  rw [P.run_bind _ _ s v s1 h1, P.run_bind _ _ s1 _ s1 hf]
  simpa using h2

end InfluxQL

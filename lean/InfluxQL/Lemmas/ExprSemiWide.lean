import InfluxQL.Lemmas.StmtExprSemi
import InfluxQL.Lemmas.ExprRoundTripWide
/-
`;` directly after an expression of the **wide** class (C16 on top of C03's `RT.wOK`): number and
duration literals of either sign, wildcards, `DISTINCT x`, typed references and calls.

Lemmas/ExprSemi.lean restated the operand specification for the class `rtOK false` and left casts and
calls out, because the specification of `parseCall` (`RT.WSpecC` / `RT.WSpecA`) carries the separator
hypothesis `SepU k` through its induction. This file restates the leaves of Lemmas/ExprLeavesWide.lean
and the five steps of Lemmas/ExprRoundTripWide.lean (`wspecA_step`, `wspecC_step`, `wspecE_step`,
`wspecL_step`, `wspecU_step`) for the wider separator class `Semi.RT.SepU` (the old class, or a `;`).
The proofs are the originals; they differ where a separator is built from a `SepC` (one more `Or.inl`),
where the token at a separator is inspected (`scan_sep_tok`: five tokens instead of four) and in the
old leaves (`specU_all` of Lemmas/ExprSemi.lean in place of `RT.rt_specs`). The classes (`RT.wOK`,
`RT.wOKArgs`, `RT.callNameW`, `RT.WOp`) are the originals.
-/
namespace InfluxQL.C02.Semi.RT
open InfluxQL Gen Prec InfluxQL.RT

theorem sepU_durEnd {k : List Char} (hk : SepU k) : DurEnd k := by
  obtain ⟨x, t, rfl, _, _, _, _, _, h⟩ := sepU_head_facts hk
  exact ⟨x, t, rfl, h⟩

/-- **Durations.** `FormatDuration(d)` for `0 ≤ d ≤ MaxInt64` is read back as the duration literal `d`. -/
theorem leaf_duration (F : Nat) (s : PState) (d : Int) (k : List Char) (h0 : 0 ≤ d) (hmax : d ≤ maxInt64)
    (hk : SepU k) (hat : AtW s (formatDuration d ++ k)) : LeafSpec F s (.duration d) k := by
  cases F with
  | zero => exact LeafSpec.zero _ _ _
  | succ F =>
  obtain ⟨hhead, _, hscan⟩ := scansAs_dur d h0 k (sepU_durEnd hk)
  obtain ⟨lx, s1, r1, hrun, htok, hlit, hj, hq, hsame⟩ := scanIW_first s _ hat
    (HeadOK.append hhead k) .DURATIONVAL (formatDuration d) (fun r => Rem r k)
    (fun r hr => hscan r hr) ⟨by decide, by decide, by decide⟩
  unfold LeafSpec
  rw [wp_of_run_ok (unary_duration F s s1 lx r1 hrun hj htok d
    (by rw [hlit]; exact C08.parse_format d (by unfold minInt64; omega) hmax))]
  exact ⟨rfl, hj.at hq, hsame⟩

/-- **Numbers.** The printed form of a canonical non-negative decimal below the bound is read
back as that number literal. -/
theorem leaf_number (F : Nat) (s : PState) (d : Dec) (k : List Char) (hneg : d.neg = false)
    (hc : d.canonical = true) (hfin : d.finite = true) (hk : SepU k) (hat : AtW s (d.print ++ k)) :
    LeafSpec F s (.number d) k := by
  cases F with
  | zero => exact LeafSpec.zero _ _ _
  | succ F =>
  obtain ⟨x, t, rfl, hx1, _, _, _, _, _⟩ := sepU_head_facts hk
  rw [Dec.print_eq d hneg] at hat
  have hfne : d.fracDigits ≠ [] := by
    intro h
    have := d.fracDigits_length hc
    rw [h] at this
    unfold Dec.canonical at hc
    simp only [Bool.and_eq_true, decide_eq_true_eq] at hc
    simp at this; omega
  obtain ⟨lx, s1, r1, hrun, htok, hlit, hj, hq, hsame⟩ := scanIW_first s _ hat
    (by rw [List.append_assoc]; exact headOK_natDigits_append _ _) .NUMBER
    (natDigits (d.mant / 10 ^ d.scale) ++ '.' :: d.fracDigits) (fun r => r.chars = x :: t)
    (fun r hr => scan_number_text r _ _ x t (natDigits_ne_nil _) (natDigits_all_digits _) hfne
      d.fracDigits_digits hx1 (by rw [hr]; simp))
    ⟨by decide, by decide, by decide⟩
  unfold LeafSpec
  rw [wp_of_run_ok (unary_number F s s1 lx r1 hrun hj htok d (fun pos st => by
    rw [hlit, ← Dec.print_eq d hneg]; exact parseNumberLit_canonical d hneg hc hfin pos st))]
  exact ⟨rfl, hj.at (Or.inl hq), hsame⟩

theorem scan_castword (dt : DataType) (hdt : castB dt = true) (k : List Char) (hk : SepU k) (r : Cursor)
    (h : r.chars = dt.str ++ k) :
    (scan r).1.tok = castTok dt ∧ (scan r).1.lit = castLit dt ∧ Rem (scan r).2 k := by
  obtain ⟨h1, h2, h3⟩ := cast_words dt hdt
  have := scan_wordB r dt.str k h1 hk.idEnd h
  rw [h2] at this
  exact ⟨this.1, by rw [this.2.1, ← h3, h2], this.2.2⟩

/-- **Wildcards.** `*`, `*::field`, `*::tag` are read back as the same wildcard. -/
theorem leaf_wildcard (F : Nat) (s : PState) (t : Token) (k : List Char) (ht : wildB t = true)
    (hk : SepU k) (hat : AtW s ((Expr.wildcard t).print ++ k)) : LeafSpec F s (.wildcard t) k := by
  cases F with
  | zero => exact LeafSpec.zero _ _ _
  | succ F =>
  unfold LeafSpec
  have hcases : t = .ILLEGAL ∨ (t = .FIELD ∨ t = .TAG) := by
    simp only [wildB, Bool.or_eq_true, beq_iff_eq] at ht
    rcases ht with (h | h) | h
    · exact Or.inl h
    · exact Or.inr (Or.inl h)
    · exact Or.inr (Or.inr h)
  have hsigM : Sig .MUL := ⟨by decide, by decide, by decide⟩
  rcases hcases with rfl | htt
  · rw [print_wildcard_plain] at hat
    obtain ⟨lx, s1, r1, hrun, htok, _, hj, hq, hsame⟩ := scanIW_first s _ hat
      ⟨'*', _, rfl, by decide, by decide⟩ .MUL [] (fun r => r.chars = k)
      (fun r hr => scan_star r k hr) hsigM
    have hnp : ¬ lx.tok = .LPAREN := by rw [htok]; decide
    rw [parseUnaryExpr, wp_bind, wp_of_run_ok hrun, wp_ite, if_neg hnp, wp_bind, unscan_wp, wp_bind,
      wp_of_run_ok (InfluxQL.RT.scanIW_redeliver s1 lx r1 hj (by rw [htok]; decide) (by rw [htok]; decide) (by rw [htok]; decide))]
    have hsep := scan_sep_tok r1 k (Or.inl hq) hk
    obtain ⟨s2, hrun2, hj2, hsame2⟩ := pscan_look s1 r1 (Or.inl ⟨hj.1, hj.2.2⟩)
      (by rcases hsep with h | h | h | h | h <;> rw [h] <;> decide)
    obtain ⟨tok, pos, lit⟩ := lx
    simp only at htok
    subst htok
    dsimp only
    rw [wp_bind, wp_of_run_ok hrun2, wp_ite,
      if_neg (by rcases hsep with h | h | h | h | h <;> rw [h] <;> decide), wp_bind, unscan_wp, wp_pure]
    exact ⟨rfl, ⟨r1, look_unsc s2 r1 hj2, Or.inl hq⟩, (hsame.trans hsame2).trans (unsc_same s2)⟩
  · rw [print_wildcard_typed t htt] at hat
    have hdt : castB (wildDT t) = true := by rcases htt with rfl | rfl <;> rfl
    have hct : castTok (wildDT t) = t := by rcases htt with rfl | rfl <;> rfl
    obtain ⟨lx, s1, r1, hrun, htok, _, hj, hq, hsame⟩ := scanIW_first s _ hat
      ⟨'*', _, rfl, by decide, by decide⟩ .MUL [] (fun r => r.chars = ':' :: ':' :: ((wildDT t).str ++ k))
      (fun r hr => scan_star r _ (by rw [hr]; rfl)) hsigM
    have hnp : ¬ lx.tok = .LPAREN := by rw [htok]; decide
    rw [parseUnaryExpr, wp_bind, wp_of_run_ok hrun, wp_ite, if_neg hnp, wp_bind, unscan_wp, wp_bind,
      wp_of_run_ok (InfluxQL.RT.scanIW_redeliver s1 lx r1 hj (by rw [htok]; decide) (by rw [htok]; decide) (by rw [htok]; decide))]
    obtain ⟨hdc, hch2⟩ := scan_dcolon r1 _ hq
    obtain ⟨s2, hrun2, hj2, hsame2⟩ := pscan_look s1 r1 (Or.inl ⟨hj.1, hj.2.2⟩) (by rw [hdc]; decide)
    obtain ⟨c1, _, c3⟩ := scan_castword (wildDT t) hdt k hk (scan r1).2 hch2
    rw [hct] at c1
    obtain ⟨s3, hrun3, hj3, hsame3⟩ := pscan_look s2 (scan r1).2 (Or.inl ⟨hj2.1, hj2.2.2⟩)
      (by rw [c1]; rcases htt with rfl | rfl <;> decide)
    obtain ⟨tok, pos, lit⟩ := lx
    simp only at htok
    subst htok
    dsimp only
    rw [wp_bind, wp_of_run_ok hrun2, wp_ite, if_pos hdc, wp_bind, wp_of_run_ok hrun3, wp_ite,
      if_pos (by rw [c1]; exact htt), wp_pure]
    exact ⟨by rw [c1], hj3.at c3, (hsame.trans hsame2).trans hsame3⟩

/-- **`DISTINCT name`.** Read back as the same node, for every name without NUL / CR. -/
theorem leaf_distinct (F : Nat) (s : PState) (v : Str) (k : List Char) (hv : Expressible v)
    (hk : SepU k) (hat : AtW s ((Expr.distinct v).print ++ k)) : LeafSpec F s (.distinct v) k := by
  cases F with
  | zero => exact LeafSpec.zero _ _ _
  | succ F =>
  unfold LeafSpec
  have hat' : AtW s ('D' :: ['I', 'S', 'T', 'I', 'N', 'C', 'T'] ++ (' ' :: (quoteIdent [v] ++ k))) := by
    rw [print_distinct] at hat
    simpa using hat
  obtain ⟨lx, s1, r1, hrun, htok, _, hj, hq, hsame⟩ := scanIW_first s _ hat'
    ⟨'D', _, rfl, by decide, by decide⟩ .DISTINCT [] (fun r => r.chars = ' ' :: (quoteIdent [v] ++ k))
    (fun r hr => by
      have := InfluxQL.RT.scan_word r 'D' ['I', 'S', 'T', 'I', 'N', 'C', 'T'] (' ' :: (quoteIdent [v] ++ k)) (by decide) (by decide)
        (Or.inr ⟨' ', _, rfl, by decide, by decide, by decide⟩) hr
      exact ⟨this.1.trans (by decide), this.2.1.trans (by decide), this.2.2.chars_of_cons (by decide)⟩)
    ⟨by decide, by decide, by decide⟩
  have hnp : ¬ lx.tok = .LPAREN := by rw [htok]; decide
  rw [parseUnaryExpr, wp_bind, wp_of_run_ok hrun, wp_ite, if_neg hnp, wp_bind, unscan_wp, wp_bind,
    wp_of_run_ok (InfluxQL.RT.scanIW_redeliver s1 lx r1 hj (by rw [htok]; decide) (by rw [htok]; decide) (by rw [htok]; decide))]
  obtain ⟨c, t, hct, hc1, hc2⟩ := headOK_quoteIdent v
  obtain ⟨w1, w2⟩ := scan_space r1 c (t ++ k) hc1 hc2 (by rw [hq, hct]; rfl)
  obtain ⟨s2, hrun2, hj2, hsame2⟩ := pscan_look s1 r1 (Or.inl ⟨hj.1, hj.2.2⟩) (by rw [w1]; decide)
  obtain ⟨lx3, s3, r3, hrun3, htok3, hlit3, hj3, hq3, hsame3⟩ := scanIW_first s2 (quoteIdent [v] ++ k)
    ⟨(scan r1).2, Or.inl ⟨hj2.1, hj2.2.2⟩, Or.inl (by rw [w2, hct]; rfl)⟩ ((headOK_quoteIdent v).append k)
    .IDENT v (fun r => Rem r k) (fun r hr => scan_ident_text r v k hv hk.idEnd hr) ⟨by decide, by decide, by decide⟩
  obtain ⟨tok, pos, lit⟩ := lx
  simp only at htok
  subst htok
  dsimp only
  rw [wp_bind, wp_of_run_ok hrun2, wp_ite, if_neg (by rw [w1]; decide), wp_ite, if_pos w1, wp_bind,
    wp_of_run_ok hrun3, wp_ite, if_neg (by rw [htok3]; simp), wp_pure]
  exact ⟨by rw [hlit3], hj3.at hq3, (hsame.trans hsame2).trans hsame3⟩

/-- **Negative numbers.** `-x.y` is read as the `-` token and the number; the sign is folded into
the literal. -/
theorem leaf_number_neg (F : Nat) (s : PState) (d : Dec) (k : List Char) (hneg : d.neg = true)
    (hc : d.canonical = true) (hfin : d.finite = true) (hk : SepU k) (hat : AtW s (d.print ++ k)) :
    LeafSpec F s (.number d) k := by
  cases F with
  | zero => exact LeafSpec.zero _ _ _
  | succ F =>
  rw [Dec.print_neg d hneg] at hat
  have hp : ({ d with neg := false } : Dec).print =
      natDigits (d.mant / 10 ^ d.scale) ++ '.' :: ({ d with neg := false } : Dec).fracDigits :=
    Dec.print_eq _ rfl
  have hc' : ({ d with neg := false } : Dec).canonical = true := hc
  have hfne : ({ d with neg := false } : Dec).fracDigits ≠ [] := by
    intro h
    have := ({ d with neg := false } : Dec).fracDigits_length hc'
    rw [h] at this
    unfold Dec.canonical at hc
    simp only [Bool.and_eq_true, decide_eq_true_eq] at hc
    simp at this; omega
  obtain ⟨x, t, rfl, hx1, _, _, _, _, _⟩ := sepU_head_facts hk
  have h := leaf_neg F s (.number { d with neg := false }) (x :: t)
    (by obtain ⟨c, ct, e, hcd⟩ := natDigits_head_digit (d.mant / 10 ^ d.scale)
        exact ⟨c, ct ++ '.' :: ({ d with neg := false } : Dec).fracDigits, by rw [print_number, hp, e]; rfl, hcd⟩)
    hat .NUMBER (Or.inl rfl)
    (fun r hr => (scan_number_text r (natDigits (d.mant / 10 ^ d.scale)) ({ d with neg := false } : Dec).fracDigits
      x t (natDigits_ne_nil _) (natDigits_all_digits _) hfne
      (Dec.fracDigits_digits _) hx1 (by rw [hr, print_number, hp]; simp)).1)
    (Or.inl ⟨_, rfl⟩)
    (fun s2 hat2 => leaf_number F s2 _ (x :: t) rfl hc' hfin hk hat2)
  have e : negOf (.number { d with neg := false }) = .number d := by
    obtain ⟨n, m, sc⟩ := d
    simp only at hneg
    subst hneg
    rfl
  rw [e] at h
  exact h

/-- **Negative durations.** `-1h30m` is read as the `-` token and the duration, negated. -/
theorem leaf_duration_neg (F : Nat) (s : PState) (d : Int) (k : List Char) (hneg : d < 0)
    (hmin : minInt64 < d) (hk : SepU k) (hat : AtW s (formatDuration d ++ k)) :
    LeafSpec F s (.duration d) k := by
  cases F with
  | zero => exact LeafSpec.zero _ _ _
  | succ F =>
  rw [formatDuration_neg d hneg] at hat
  have h0 : 0 ≤ -d := by omega
  have hmax : -d ≤ maxInt64 := by unfold minInt64 at hmin; unfold maxInt64; omega
  obtain ⟨q, sfx, hf, _⟩ := formatDuration_shape (-d) h0
  have h := leaf_neg F s (.duration (-d)) k
    (by obtain ⟨c, ct, e, hcd⟩ := natDigits_head_digit q
        exact ⟨c, ct ++ sfx, by rw [print_duration, hf, e]; rfl, hcd⟩)
    hat .DURATIONVAL (Or.inr (Or.inr rfl))
    (fun r hr => ((scansAs_dur (-d) h0 k (sepU_durEnd hk)).2.2 r hr).1)
    (Or.inr (Or.inr (Or.inr ⟨_, rfl⟩)))
    (fun s2 hat2 => leaf_duration F s2 (-d) k h0 hmax hk hat2)
  have e : negOf (.duration (-d)) = .duration d := by
    simp only [negOf]
    have : -d * -1 = d := by omega
    rw [this, wrap64_id (by omega) (by unfold minInt64 at hmin; unfold maxInt64; omega)]
  rw [e] at h
  exact h

variable {tbl : List (Char × Char)}

theorem sepU_printOpsW (rest : List (Token × Expr)) (k : List Char)
    (hrest : ∀ p ∈ rest, WOp tbl p) (hk : SepU k) : SepU (printOps rest ++ k) := by
  cases rest with
  | nil => exact hk
  | cons p rest =>
    obtain ⟨c, t, hct, h1, h2⟩ := headOK_of_B (binOps_head p.1 (isOperator_mem (hrest p (by simp)).1))
    refine Or.inl (Or.inr ⟨c, t ++ ' ' :: (p.2.print ++ printOps rest) ++ k, ?_, h1, h2⟩)
    simp [printOps, hct]

/-- How the text of an operand of the wide class begins: not like a regex literal, a bound
parameter or a comment, and its first token is significant and no `)`. -/
theorem atomW_start (a : Expr) (ha : wOK tbl a = true) (hnb : NB a) (k : List Char) (hk : SepU k) :
    NoRegexStart (a.print ++ k) ∧
      ∀ r : Cursor, r.chars = a.print ++ k → (scan r).1.tok ≠ .RPAREN ∧ (scan r).1.tok ≠ .BOUNDPARAM ∧
        (scan r).1.tok ≠ .WS ∧ (scan r).1.tok ≠ .COMMENT := by
  have hminus : ∀ (d : Char) (t : List Char), isDigit d = true →
      NoRegexStart ('-' :: d :: t) ∧ ∀ r : Cursor, r.chars = '-' :: d :: t → (scan r).1.tok ≠ .RPAREN ∧
        (scan r).1.tok ≠ .BOUNDPARAM ∧ (scan r).1.tok ≠ .WS ∧ (scan r).1.tok ≠ .COMMENT := by
    intro d t hd
    refine ⟨⟨'-', _, rfl, by decide, by decide, by decide, by decide, fun _ => ⟨d, t, rfl, ?_⟩⟩, fun r hr => ?_⟩
    · intro e; subst e; revert hd; decide
    · rw [(scan_minus r d t hd hr).1]; exact ⟨by decide, by decide, by decide, by decide⟩
  cases a with
  | binary op l r => exact absurd rfl (hnb op l r)
  | paren e =>
    rw [print_paren]
    refine ⟨nrs_of '(' _ (by decide), fun r hr => ?_⟩
    rw [(scan_lparen r _ hr).1]; exact ⟨by decide, by decide, by decide, by decide⟩
  | string v => exact atom_sig (x := false) _ (oldLeaf_rtOK (Or.inl ⟨_, rfl⟩) ha) hnb k hk
  | integer n => exact atom_sig (x := false) _ (oldLeaf_rtOK (Or.inr (Or.inl ⟨_, rfl⟩)) ha) hnb k hk
  | unsigned n => exact atom_sig (x := false) _ (oldLeaf_rtOK (Or.inr (Or.inr (Or.inl ⟨_, rfl⟩))) ha) hnb k hk
  | boolean b => exact atom_sig (x := false) _ (oldLeaf_rtOK (Or.inr (Or.inr (Or.inr (Or.inl ⟨_, rfl⟩)))) ha) hnb k hk
  | varRef v t =>
    refine atom_sig (x := true) _ ?_ hnb k hk
    rw [wOK] at ha
    rw [rtOK]
    simp only [Bool.and_eq_true, Bool.or_eq_true, beq_iff_eq, castW, Bool.true_and] at ha ⊢
    exact ⟨ha.1, ha.2.imp id (fun h => h.1)⟩
  | call name args =>
    rw [wOK] at ha
    simp only [Bool.and_eq_true] at ha
    obtain ⟨c, tl, rfl, hc, htl, hlk⟩ := callName_word ha.1
    rw [print_call]
    refine ⟨by simpa using nrs_identFirst _ hc, fun r hr => ?_⟩
    have := InfluxQL.RT.scan_word r c tl ('(' :: (joinWith [',', ' '] (printArgs args) ++ [')'] ++ k)) hc htl
      (Or.inr ⟨'(', _, rfl, by decide, by decide, by decide⟩) (by rw [hr]; simp)
    rcases hlk with hlk | hlk <;> (rw [this.1, hlk]; exact ⟨by decide, by decide, by decide, by decide⟩)
  | duration d =>
    rw [wOK] at ha
    simp only [Bool.and_eq_true, decide_eq_true_eq] at ha
    rw [print_duration]
    by_cases h0 : 0 ≤ d
    · obtain ⟨q, sfx, hf, _⟩ := formatDuration_shape d h0
      obtain ⟨c, ct, e, hcd⟩ := natDigits_head_digit q
      refine ⟨by rw [hf, e]; exact nrs_digit _ hcd, fun r hr => ?_⟩
      rw [((scansAs_dur d h0 k (sepU_durEnd hk)).2.2 r hr).1]
      exact ⟨by decide, by decide, by decide, by decide⟩
    · rw [formatDuration_neg d (by omega)]
      obtain ⟨q, sfx, hf, _⟩ := formatDuration_shape (-d) (by omega)
      obtain ⟨c, ct, e, hcd⟩ := natDigits_head_digit q
      rw [hf, e]
      exact hminus c _ hcd
  | number d =>
    rw [print_number]
    by_cases hneg : d.neg = true
    · rw [Dec.print_neg d hneg, Dec.print_eq _ rfl]
      obtain ⟨c, ct, e, hcd⟩ := natDigits_head_digit (d.mant / 10 ^ d.scale)
      simp only [e]
      exact hminus c _ hcd
    · have hneg' : d.neg = false := by simpa using hneg
      rw [wOK] at ha
      simp only [Bool.and_eq_true] at ha
      obtain ⟨x0, t0, rfl, hx1, _, _, _, _, _⟩ := sepU_head_facts hk
      have hfne : d.fracDigits ≠ [] := by
        intro h
        have := d.fracDigits_length ha.1
        rw [h] at this
        have hc := ha.1
        unfold Dec.canonical at hc
        simp only [Bool.and_eq_true, decide_eq_true_eq] at hc
        simp at this; omega
      rw [Dec.print_eq d hneg']
      obtain ⟨c, ct, e, hcd⟩ := natDigits_head_digit (d.mant / 10 ^ d.scale)
      refine ⟨by rw [e]; exact nrs_digit _ hcd, fun r hr => ?_⟩
      rw [(scan_number_text r (natDigits (d.mant / 10 ^ d.scale)) d.fracDigits x0 t0 (natDigits_ne_nil _)
        (natDigits_all_digits _) hfne d.fracDigits_digits hx1 (by rw [hr]; simp)).1]
      exact ⟨by decide, by decide, by decide, by decide⟩
  | wildcard t =>
    obtain ⟨rest, e⟩ := print_wildcard_star t
    rw [e]
    refine ⟨nrs_of '*' _ (by decide), fun r hr => ?_⟩
    rw [(scan_star r _ hr).1]; exact ⟨by decide, by decide, by decide, by decide⟩
  | distinct v =>
    rw [print_distinct]
    refine ⟨nrs_identFirst (c := 'D') _ (by decide), fun r hr => ?_⟩
    have := InfluxQL.RT.scan_word r 'D' ['I', 'S', 'T', 'I', 'N', 'C', 'T'] (' ' :: (quoteIdent [v] ++ k)) (by decide) (by decide)
      (Or.inr ⟨' ', _, rfl, by decide, by decide, by decide⟩) (by rw [hr]; simp)
    rw [this.1.trans (show lookup ['D', 'I', 'S', 'T', 'I', 'N', 'C', 'T'] = Token.DISTINCT by decide)]
    exact ⟨by decide, by decide, by decide, by decide⟩
  | _ => simp [wOK] at ha

/-- The same for a whole expression followed by any operand separator. -/
theorem exprW_start (e : Expr) (he : wOK tbl e = true) (k : List Char) (hk : SepU k) :
    NoRegexStart (e.print ++ k) ∧
      ∀ r : Cursor, r.chars = e.print ++ k → (scan r).1.tok ≠ .RPAREN ∧ (scan r).1.tok ≠ .BOUNDPARAM ∧
        (scan r).1.tok ≠ .WS ∧ (scan r).1.tok ≠ .COMMENT := by
  obtain ⟨hfirst, hops⟩ := wOK_chain e he
  rw [print_chain e, List.append_assoc]
  exact atomW_start (firstA e) hfirst (firstA_nb e) _ (sepU_printOpsW _ k hops hk)

/-- `parseUnaryExpr` on the printed form of an operand of the wide class. -/
def WSpecU (tbl : List (Char × Char)) (F : Nat) : Prop := ∀ (s : PState) (a : Expr) (k : List Char),
  s.lowerTbl = tbl → wOK tbl a = true → NB a → SepU k → AtW s (a.print ++ k) →
  wp (parseUnaryExpr F) s (fun e' s' => e' = a ∧ At s' k ∧ Same s s') IsFuel

/-- The loop of `ParseExpr` on the printed operators and operands, followed by an `ExprEnd`. -/
def WSpecL (tbl : List (Char × Char)) (F : Nat) : Prop :=
  ∀ (s : PState) (root : Expr) (rest : List (Token × Expr)) (k : List Char),
  s.lowerTbl = tbl → (∀ p ∈ rest, WOp tbl p) → ExprEnd k → At s (printOps rest ++ k) →
  wp (exprLoop F root) s
    (fun e' s' => e' = rest.foldl (fun t p => insertOp t p.1 p.2) root ∧ Stand s' k ∧ Same s s') IsFuel

/-- `ParseExpr` on the printed form of an expression of the wide class. -/
def WSpecE (tbl : List (Char × Char)) (F : Nat) : Prop := ∀ (s : PState) (e : Expr) (k : List Char),
  s.lowerTbl = tbl → wOK tbl e = true → ExprEnd k → AtW s (e.print ++ k) →
  wp (parseExpr F) s (fun e' s' => e' = e ∧ Stand s' k ∧ Same s s') IsFuel

/-- `parseCall` after the opening parenthesis. -/
def WSpecC (tbl : List (Char × Char)) (F : Nat) : Prop :=
  ∀ (s : PState) (name : Str) (args : List Expr) (k : List Char),
  s.lowerTbl = tbl → callNameW tbl name = true → wOKArgs tbl args = true → SepU k → s.n = 0 →
  s.r.chars = joinWith [',', ' '] (printArgs args) ++ ')' :: k →
  wp (parseCall F name) s (fun e' s' => e' = .call name args ∧ At s' k ∧ Same s s') IsFuel

/-- The argument loop of `parseCall` after some arguments. -/
def WSpecA (tbl : List (Char × Char)) (F : Nat) : Prop :=
  ∀ (s : PState) (name : Str) (done rest : List Expr) (k : List Char),
  s.lowerTbl = tbl → wOKArgs tbl rest = true → SepU k → At s (printMore rest ++ ')' :: k) →
  wp (callArgs F name done) s (fun e' s' => e' = .call name (done ++ rest) ∧ At s' k ∧ Same s s') IsFuel

theorem wspecA_step (F : Nat) (ihE : WSpecE tbl F) (ihA : WSpecA tbl F) : WSpecA tbl (F + 1) := by
  intro s name done rest k htb hrest hk hat
  rw [callArgs, wp_bind]
  cases rest with
  | nil =>
    obtain ⟨lx, s1, r1, hrun, hsame, hj, _, htok⟩ := scanIW_close s (')' :: k) hat (Or.inr ⟨k, Or.inl rfl⟩)
    rcases htok with ⟨h, _⟩ | ⟨t, ht, htk, hch⟩ | ⟨t, ht, _, _⟩
    · cases h
    · simp only [List.cons.injEq, true_and] at ht
      subst ht
      rw [wp_of_run_ok hrun, wp_ite, if_pos (by rw [htk]; decide), wp_bind, unscan_wp, wp_bind,
        wp_of_run_ok (pscan_redeliver s1 lx r1 hj (by rw [htk]; decide))]
      dsimp only
      rw [wp_ite, if_neg (by rw [htk]; simp), wp_pure]
      exact ⟨by simp, hj.at (Or.inl hch), hsame⟩
    · cases ht
  | cons a rest' =>
    obtain ⟨ha, hrest'⟩ := wOKArgs_cons hrest
    obtain ⟨lx, s1, r1, hrun, hsame, hj, _, htok⟩ := scanIW_close s _ hat (Or.inr ⟨_, Or.inr rfl⟩)
    rcases htok with ⟨h, _⟩ | ⟨t, ht, _, _⟩ | ⟨t, ht, htk, hch⟩
    · cases h
    · cases ht
    · have ht' : t = ' ' :: (a.print ++ (printMore rest' ++ ')' :: k)) := by
        simp only [printMore, List.cons_append, List.cons.injEq, true_and, List.append_assoc] at ht
        exact ht.symm
      subst ht'
      rw [wp_of_run_ok hrun, wp_ite, if_neg (by rw [htk]; simp), wp_bind]
      have hs1r : s1.r.chars = ' ' :: (a.print ++ (printMore rest' ++ ')' :: k)) := by rw [hj.2.2]; exact hch
      rcases ha with ha | ha
      · obtain ⟨src, rfl, hsrc⟩ := regexLitB_elim ha
        obtain ⟨lx2, s2, hrun2, hj2, hch2, hsame2⟩ := parseRegex_text s1 src (printMore rest' ++ ')' :: k) hj.1 hsrc
          (Or.inr (by rw [hs1r, print_regex]; simp))
        rw [wp_of_run_ok hrun2]
        dsimp only
        refine wp_mono (ihA s2 name _ rest' k (tblOf htb (hsame.trans hsame2)) hrest' hk (hj2.at (Or.inl hch2))) ?_
          (fun _ h => h)
        intro e' s3 ⟨he', hat3, hsame3⟩
        exact ⟨by rw [he']; simp, hat3, (hsame.trans hsame2).trans hsame3⟩
      · have hsc := sepC_printMore rest' k
        obtain ⟨hnrs, _⟩ := exprW_start a ha _ (Or.inl (Or.inl hsc))
        obtain ⟨s2, hrun2, hn2, hch2, hsame2⟩ := parseRegex_none s1 _ hj.1 hnrs (Or.inr hs1r)
        rw [wp_of_run_ok hrun2]
        dsimp only
        rw [wp_bind]
        refine wp_mono (ihE s2 a _ (tblOf htb (hsame.trans hsame2)) ha (ExprEnd.of_sepC hsc)
          ⟨s2.r, Or.inl ⟨hn2, rfl⟩, Or.inl hch2⟩) ?_ (fun _ h => h)
        intro e' s3 ⟨he', hat3, hsame3⟩
        subst he'
        refine wp_mono (ihA s3 name _ rest' k (tblOf htb ((hsame.trans hsame2).trans hsame3)) hrest' hk
          (hat3.at_of_sepC hsc)) ?_ (fun _ h => h)
        intro e'' s4 ⟨he'', hat4, hsame4⟩
        exact ⟨by rw [he'']; simp, hat4, ((hsame.trans hsame2).trans hsame3).trans hsame4⟩

theorem wspecC_step (F : Nat) (ihE : WSpecE tbl F) (ihA : WSpecA tbl F) : WSpecC tbl (F + 1) := by
  intro s name args k htb hname hargs hk hn hch
  have hlow := (callNameW_facts hname).1
  rw [parseCall, wp_bind, wp_get]
  dsimp only
  rw [htb, hlow, wp_bind]
  cases args with
  | nil =>
    have hch' : s.r.chars = ')' :: k := by simpa [printArgs, joinWith] using hch
    obtain ⟨s2, hrun2, hn2, hch2, hsame2⟩ := parseRegex_none s (')' :: k) hn
      (nrs_of ')' k (by decide)) (Or.inl hch')
    rw [wp_of_run_ok hrun2]
    dsimp only
    have hclose := scan_close s2.r (')' :: k) (Or.inl hch2) (Or.inr ⟨k, Or.inl rfl⟩)
    rcases hclose with ⟨h, _⟩ | ⟨t, ht, htk, hcht⟩ | ⟨t, ht, _, _⟩
    · cases h
    · simp only [List.cons.injEq, true_and] at ht
      subst ht
      obtain ⟨s3, hrun3, hj3, hsame3⟩ := pscan_look s2 s2.r (Or.inl ⟨hn2, rfl⟩) (by rw [htk]; decide)
      rw [wp_bind, wp_of_run_ok hrun3, wp_ite, if_pos htk, wp_pure]
      exact ⟨rfl, hj3.at (Or.inl hcht), hsame2.trans hsame3⟩
    · cases ht
  | cons a rest =>
    obtain ⟨ha, hrest⟩ := wOKArgs_cons hargs
    rw [joinArgs_cons, List.append_assoc] at hch
    rcases ha with ha | ha
    · obtain ⟨src, rfl, hsrc⟩ := regexLitB_elim ha
      obtain ⟨lx2, s2, hrun2, hj2, hch2, hsame2⟩ := parseRegex_text s src (printMore rest ++ ')' :: k) hn hsrc
        (Or.inl (by rw [hch, print_regex]; simp))
      rw [wp_of_run_ok hrun2]
      dsimp only
      refine wp_mono (ihA s2 name _ rest k (tblOf htb hsame2) hrest hk (hj2.at (Or.inl hch2))) ?_ (fun _ h => h)
      intro e' s3 ⟨he', hat3, hsame3⟩
      exact ⟨by rw [he']; simp, hat3, hsame2.trans hsame3⟩
    · have hsc := sepC_printMore rest k
      obtain ⟨hnrs, htoks⟩ := exprW_start a ha _ (Or.inl (Or.inl hsc))
      obtain ⟨s2, hrun2, hn2, hch2, hsame2⟩ := parseRegex_none s _ hn hnrs (Or.inl hch)
      rw [wp_of_run_ok hrun2]
      dsimp only
      obtain ⟨htk1, htk2, _, _⟩ := htoks s2.r hch2
      obtain ⟨s3, hrun3, hj3, hsame3⟩ := pscan_look s2 s2.r (Or.inl ⟨hn2, rfl⟩) htk2
      rw [wp_bind, wp_of_run_ok hrun3, wp_ite, if_neg htk1, wp_bind, unscan_wp, wp_bind]
      have hsm : Same s (unsc s3) := (hsame2.trans hsame3).trans (unsc_same s3)
      refine wp_mono (ihE (unsc s3) a _ (tblOf htb hsm) ha (ExprEnd.of_sepC hsc)
        ⟨s2.r, look_unsc s3 s2.r hj3, Or.inl hch2⟩) ?_ (fun _ h => h)
      intro e' s4 ⟨he', hat4, hsame4⟩
      subst he'
      refine wp_mono (ihA s4 name _ rest k (tblOf htb (hsm.trans hsame4)) hrest hk (hat4.at_of_sepC hsc)) ?_
        (fun _ h => h)
      intro e'' s5 ⟨he'', hat5, hsame5⟩
      exact ⟨by rw [he'']; simp, hat5, (hsm.trans hsame4).trans hsame5⟩

theorem wspecE_step (F : Nat) (ihU : WSpecU tbl F) (ihL : WSpecL tbl F) : WSpecE tbl (F + 1) := by
  intro s e k htb he hk hat
  obtain ⟨hfirst, hops⟩ := wOK_chain e he
  rw [parseExpr, wp_bind]
  rw [print_chain e, List.append_assoc] at hat
  refine wp_mono (ihU s (firstA e) (printOps (opsOf e) ++ k) htb hfirst (firstA_nb e)
    (sepU_printOpsW _ k hops hk.1) hat) ?_ (fun _ h => h)
  intro a s1 ⟨ha, hat1, hsame1⟩
  subst ha
  refine wp_mono (ihL s1 (firstA e) (opsOf e) k (tblOf htb hsame1) hops hk hat1) ?_ (fun _ h => h)
  intro e' s2 ⟨he', hat2, hsame2⟩
  exact ⟨by rw [he', insertOp_chain e (wOK_wellGrouped e he)], hat2, hsame1.trans hsame2⟩

theorem wspecL_step (F : Nat) (ihU : WSpecU tbl F) (ihL : WSpecL tbl F) : WSpecL tbl (F + 1) := by
  intro s root rest k htb hrest hk hat
  rw [exprLoop, wp_bind]
  cases rest with
  | nil =>
    obtain ⟨_, T, hT, hTop⟩ := hk
    obtain ⟨lx, s1, hrun, htok, hst, hsame⟩ := scanIW_starts s k T (Or.inl (by simpa [printOps] using hat)) hT
    rw [wp_of_run_ok hrun]
    have hnop : (!lx.tok.isOperator) = true := by rw [htok, hTop]; rfl
    rw [wp_ite, if_pos hnop, wp_bind, unscan_wp, wp_pure]
    exact ⟨rfl, hst, hsame.trans (unsc_same s1)⟩
  | cons p rest' =>
    obtain ⟨hop, hnb, hok⟩ := hrest p (by simp)
    have hat' : AtW s (p.1.str ++ ' ' :: (p.2.print ++ (printOps rest' ++ k))) := by
      apply At.atW
      simpa [printOps] using hat
    obtain ⟨lx, s1, r1, hrun, htok, hlit, hj, hq, hsame⟩ := scanIW_first s _ hat'
      ((headOK_of_B (binOps_head p.1 (isOperator_mem hop))).append _) p.1 []
      (fun r => r.chars = ' ' :: (p.2.print ++ (printOps rest' ++ k)))
      (fun r hr => scan_op p.1 hop r _ hr)
      (by have := isOperator_mem hop; revert this; generalize p.1 = t; intro ht
          simp only [binOps, List.mem_cons, List.not_mem_nil, or_false] at ht
          rcases ht with h | h | h | h | h | h | h | h | h | h | h | h | h | h | h | h | h | h <;> subst h <;>
            exact ⟨by decide, by decide, by decide⟩)
    rw [wp_of_run_ok hrun]
    have hnop : ¬ (!lx.tok.isOperator) = true := by rw [htok, hop]; simp
    rw [wp_ite, if_neg hnop]
    dsimp only
    have hrest' : ∀ q ∈ rest', WOp tbl q := fun q hq => hrest q (by simp [hq])
    by_cases hre : p.1.isRegexOp = true
    · rw [if_pos hre] at hok
      obtain ⟨src, hp2, hsrc⟩ := regexLitB_elim hok
      rw [hp2, print_regex] at hq
      obtain ⟨lx2, s2, hrun2, hj2, hch2, hsame2⟩ := parseRegex_text s1 src (printOps rest' ++ k) hj.1 hsrc
        (Or.inr (by rw [hj.2.2]; simpa using hq))
      rw [wp_ite, if_pos (by rw [htok]; exact hre), wp_bind, wp_of_run_ok hrun2]
      dsimp only
      rw [wp_bind, wp_pure]
      refine wp_mono (ihL s2 _ rest' k (tblOf htb (hsame.trans hsame2)) hrest' hk (hj2.at (Or.inl hch2))) ?_ (fun _ h => h)
      intro e' s3 ⟨he', hat3, hsame3⟩
      exact ⟨by rw [he', htok, List.foldl_cons, hp2], hat3, (hsame.trans hsame2).trans hsame3⟩
    · rw [if_neg hre] at hok
      have hnre' : ¬ lx.tok.isRegexOp = true := by rw [htok]; exact hre
      rw [wp_ite, if_neg hnre', wp_bind]
      refine wp_mono (ihU s1 p.2 (printOps rest' ++ k) (tblOf htb hsame) hok hnb
        (sepU_printOpsW _ k hrest' hk.1) ⟨r1, Or.inl ⟨hj.1, hj.2.2⟩, Or.inr hq⟩) ?_ (fun _ h => h)
      intro a s2 ⟨ha, hat2, hsame2⟩
      subst ha
      refine wp_mono (ihL s2 _ rest' k (tblOf htb (hsame.trans hsame2)) hrest' hk hat2) ?_ (fun _ h => h)
      intro e' s3 ⟨he', hat3, hsame3⟩
      exact ⟨by rw [he', htok]; rfl, hat3, (hsame.trans hsame2).trans hsame3⟩

theorem unary_ident_castW (F : Nat) (s s1 : PState) (lx : Lexeme) (r1 : Cursor)
    (h1 : scanIW.run s = .ok (lx, s1)) (hj : Just s1 lx r1) (htok : lx.tok = .IDENT) (dt : DataType)
    (hdt : castB dt = true) (k : List Char) (hk : SepU k)
    (hlow : castTok dt = .IDENT → lowerStr s1.lowerTbl dt.str = dt.str)
    (hch : r1.chars = ':' :: ':' :: (dt.str ++ k)) :
    ∃ lx' s', (parseUnaryExpr (F + 1)).run s = .ok (.varRef lx.lit dt, s') ∧ Just s' lx' s'.r ∧ Rem s'.r k ∧
      Same s1 s' := by
  have hsig : lx.tok ≠ .BOUNDPARAM ∧ lx.tok ≠ .WS ∧ lx.tok ≠ .COMMENT := by rw [htok]; decide
  have hnp : ¬ lx.tok = .LPAREN := by rw [htok]; decide
  obtain ⟨hn0, hb0, hr0⟩ := hj
  subst hr0
  obtain ⟨hdc, hch2⟩ := scan_dcolon s1.r _ hch
  have hps := pscan_fresh s1 hn0 (by rw [hdc]; decide)
  obtain ⟨c1, c2, c3⟩ := scan_castword dt hdt k hk (scan s1.r).2 hch2
  have hvr := parseVarRef_castW
    (unsc (unsc { s1 with r := (scan s1.r).2, buf := ((scan s1.r).1 :: s1.buf).take 3 })) lx (scan s1.r).1
    (by simp [unsc, hn0]) (by simp [unsc, hb0]) (by simp [unsc]) htok hdc dt hdt hlow c1 c2
  refine ⟨(scan (scan s1.r).2).1, ?st, ?run, ?j, ?rem, ?sm⟩
  case run =>
    rw [parseUnaryExpr, P.run_bind _ _ _ _ _ h1, P.run_ite, if_neg hnp, P.run_bind _ _ _ _ _ (unscan_run' s1),
      P.run_bind _ _ _ _ _ (InfluxQL.RT.scanIW_redeliver s1 lx s1.r ⟨hn0, hb0, rfl⟩ hsig.1 hsig.2.1 hsig.2.2)]
    obtain ⟨tok, pos, lit⟩ := lx
    simp only at htok
    subst htok
    show (pscan >>= _).run s1 = _
    rw [P.run_bind _ _ _ _ _ hps, P.run_ite, if_neg (by rw [hdc]; decide), P.run_bind _ _ _ _ _ (unscan_run' _),
      P.run_bind _ _ _ _ _ (unscan_run' _)]
    exact hvr
  case j => exact ⟨rfl, by simp [unsc], rfl⟩
  case rem => exact c3
  case sm => exact ⟨rfl, rfl⟩

theorem wspecU_step (F : Nat) (ihE : WSpecE tbl F) (ihC : WSpecC tbl F) : WSpecU tbl (F + 1) := by
  intro s a k htb ha hnb hk hat
  have hold : OldLeaf a → wp (parseUnaryExpr (F + 1)) s (fun e' s' => e' = a ∧ At s' k ∧ Same s s') IsFuel :=
    fun ho => specU_all (F + 1) s a k (oldLeaf_rtOK ho ha) hnb hk hat
  cases a with
  | binary op l r => exact absurd rfl (hnb op l r)
  | string v => exact hold (Or.inl ⟨_, rfl⟩)
  | integer n => exact hold (Or.inr (Or.inl ⟨_, rfl⟩))
  | unsigned n => exact hold (Or.inr (Or.inr (Or.inl ⟨_, rfl⟩)))
  | boolean b => exact hold (Or.inr (Or.inr (Or.inr (Or.inl ⟨_, rfl⟩))))
  | duration d =>
    rw [wOK] at ha
    simp only [Bool.and_eq_true, decide_eq_true_eq] at ha
    rw [print_duration] at hat
    by_cases h0 : 0 ≤ d
    · exact leaf_duration (F + 1) s d k h0 ha.2 hk hat
    · exact leaf_duration_neg (F + 1) s d k (by omega) ha.1 hk hat
  | number d =>
    rw [wOK] at ha
    simp only [Bool.and_eq_true] at ha
    rw [print_number] at hat
    by_cases hneg : d.neg = true
    · exact leaf_number_neg (F + 1) s d k hneg ha.1 ha.2 hk hat
    · exact leaf_number (F + 1) s d k (by simpa using hneg) ha.1 ha.2 hk hat
  | wildcard t => exact leaf_wildcard (F + 1) s t k (by rw [wOK] at ha; exact ha) hk hat
  | distinct v => exact leaf_distinct (F + 1) s v k (exprB_expressible (by rw [wOK] at ha; exact ha)) hk hat
  | paren e =>
    have he : wOK tbl e = true := by rw [wOK] at ha; exact ha
    have hat' : AtW s ('(' :: (e.print ++ ')' :: k)) := by simpa [print_paren] using hat
    obtain ⟨lx, s1, r1, hrun, htok, _, hj, hq, hsame⟩ := scanIW_first s _ hat'
      ⟨'(', _, rfl, by decide, by decide⟩ .LPAREN [] (fun r => r.chars = e.print ++ ')' :: k)
      (fun r hr => by
        obtain ⟨h1, h2⟩ := scan_lparen r _ hr
        have hl : (scan r).1.lit = [] := by
          obtain ⟨c1, _, _⟩ := Cursor.chars_cons hr
          unfold scan; rw [c1]; rfl
        exact ⟨h1, hl, h2⟩)
      ⟨by decide, by decide, by decide⟩
    have hsc : SepC (')' :: k) := Or.inr ⟨k, Or.inl rfl⟩
    rw [parseUnaryExpr, wp_bind, wp_of_run_ok hrun, wp_ite, if_pos htok, wp_bind]
    refine wp_mono (ihE s1 e (')' :: k) (tblOf htb hsame) he (ExprEnd.of_sepC hsc)
      ⟨r1, Or.inl ⟨hj.1, hj.2.2⟩, Or.inl hq⟩) ?_ (fun _ h => h)
    intro e' s2 ⟨he', hst2, hsame2⟩
    subst he'
    obtain ⟨lx2, s3, r3, hrun3, hsame3, hj3, _, htok3⟩ := scanIW_close s2 (')' :: k) (hst2.at_of_sepC hsc) hsc
    rw [wp_bind, wp_of_run_ok hrun3]
    rcases htok3 with ⟨h, _⟩ | ⟨t, ht, htk, hch⟩ | ⟨t, ht, _, _⟩
    · cases h
    · simp only [List.cons.injEq, true_and] at ht
      subst ht
      dsimp only
      rw [wp_ite, if_neg (by rw [htk]; simp), wp_pure]
      exact ⟨rfl, hj3.at (Or.inl hch), (hsame.trans hsame2).trans hsame3⟩
    · cases ht
  | varRef v t =>
    by_cases htu : t = .Unknown
    · subst htu
      exact hold (Or.inr (Or.inr (Or.inr (Or.inr ⟨_, rfl⟩))))
    · rw [wOK] at ha
      simp only [Bool.and_eq_true, Bool.or_eq_true, beq_iff_eq] at ha
      obtain ⟨hv, ht⟩ := ha
      have hv' : Expressible v := exprB_expressible hv
      have hcw : castW tbl t = true := by
        rcases ht with h | h
        · exact absurd h htu
        · exact h
      unfold castW at hcw
      simp only [Bool.and_eq_true, Bool.or_eq_true, bne_iff_ne, ne_eq, beq_iff_eq] at hcw
      obtain ⟨hcb, hlw⟩ := hcw
      have hat' : AtW s (quoteIdent [v] ++ (':' :: ':' :: (t.str ++ k))) := by
        simpa [print_varRef, htu] using hat
      obtain ⟨lx, s1, r1, hrun, htok, hlit, hj, hq, hsame⟩ := scanIW_first s _ hat'
        ((headOK_quoteIdent v).append _) .IDENT v (fun r => r.chars = ':' :: ':' :: (t.str ++ k))
        (fun r hr => by
          have := scan_ident_text r v _ hv' (Or.inr ⟨':', _, rfl, by decide, by decide, by decide⟩) hr
          exact ⟨this.1, this.2.1, this.2.2.chars_of_cons (by decide)⟩)
        ⟨by decide, by decide, by decide⟩
      obtain ⟨lx', s', hrun', hj', hrem', hsame'⟩ := unary_ident_castW F s s1 lx r1 hrun hj htok t hcb k hk
        (fun hi => by
          rw [tblOf htb hsame]
          rcases hlw with h | h
          · exact absurd hi h
          · exact h) hq
      rw [wp_of_run_ok hrun']
      exact ⟨by rw [hlit], hj'.at hrem', hsame.trans hsame'⟩
  | call name args =>
    rw [wOK] at ha
    simp only [Bool.and_eq_true] at ha
    obtain ⟨hname, hargs⟩ := ha
    obtain ⟨c, tl, hnm, hc, htl, _⟩ := callName_word hname
    have hat' : AtW s (name ++ '(' :: (joinWith [',', ' '] (printArgs args) ++ ')' :: k)) := by
      simpa [print_call] using hat
    have hword : ∀ r : Cursor, r.chars = name ++ '(' :: (joinWith [',', ' '] (printArgs args) ++ ')' :: k) →
        (scan r).1.tok = lookup name ∧ (scan r).1.lit = (if lookup name = .IDENT then name else []) ∧
          (scan r).2.chars = '(' :: (joinWith [',', ' '] (printArgs args) ++ ')' :: k) := fun r hr => by
      have := InfluxQL.RT.scan_word r c tl ('(' :: (joinWith [',', ' '] (printArgs args) ++ ')' :: k)) hc htl
        (Or.inr ⟨'(', _, rfl, by decide, by decide, by decide⟩) (by rw [hr, hnm])
      rw [← hnm] at this
      exact ⟨this.1, this.2.1, this.2.2.chars_of_cons (by decide)⟩
    have hhead : HeadOK (name ++ '(' :: (joinWith [',', ' '] (printArgs args) ++ ')' :: k)) := by
      rw [hnm]; exact ⟨c, _, rfl, (isIdentFirstChar_facts hc).1, (isIdentFirstChar_facts hc).2.2.2.2⟩
    rcases (callNameW_facts hname).2 with ⟨hlk, _⟩ | hdist
    · obtain ⟨lx, s1, r1, hrun, htok, hlit, hj, hq, hsame⟩ := scanIW_first s _ hat' hhead
        .IDENT name (fun r => r.chars = '(' :: (joinWith [',', ' '] (printArgs args) ++ ')' :: k))
        (fun r hr => by
          have := hword r hr
          rw [hlk] at this
          exact ⟨this.1, by simpa using this.2.1, this.2.2⟩)
        ⟨by decide, by decide, by decide⟩
      have hsig : lx.tok ≠ .BOUNDPARAM ∧ lx.tok ≠ .WS ∧ lx.tok ≠ .COMMENT := by rw [htok]; decide
      have hnp : ¬ lx.tok = .LPAREN := by rw [htok]; decide
      rw [parseUnaryExpr, wp_bind, wp_of_run_ok hrun, wp_ite, if_neg hnp, wp_bind, unscan_wp, wp_bind,
        wp_of_run_ok (InfluxQL.RT.scanIW_redeliver s1 lx r1 hj hsig.1 hsig.2.1 hsig.2.2)]
      obtain ⟨hlp, hchp⟩ := scan_lparen r1 _ hq
      obtain ⟨s2, hrun2, hj2, hsame2⟩ := pscan_look s1 r1 (Or.inl ⟨hj.1, hj.2.2⟩) (by rw [hlp]; decide)
      obtain ⟨tok, pos, lit⟩ := lx
      simp only at htok hlit
      subst htok hlit
      dsimp only
      rw [wp_bind, wp_of_run_ok hrun2, wp_ite, if_pos hlp]
      refine wp_mono (ihC s2 lit args k (tblOf htb (hsame.trans hsame2)) hname hargs hk hj2.1
        (by rw [hj2.2.2]; exact hchp)) ?_ (fun _ h => h)
      intro e' s3 ⟨he', hat3, hsame3⟩
      exact ⟨he', hat3, (hsame.trans hsame2).trans hsame3⟩
    · have hlk : lookup name = .DISTINCT := by rw [hdist]; decide
      obtain ⟨lx, s1, r1, hrun, htok, _, hj, hq, hsame⟩ := scanIW_first s _ hat' hhead
        .DISTINCT [] (fun r => r.chars = '(' :: (joinWith [',', ' '] (printArgs args) ++ ')' :: k))
        (fun r hr => by
          have := hword r hr
          rw [hlk] at this
          exact ⟨this.1, by simpa using this.2.1, this.2.2⟩)
        ⟨by decide, by decide, by decide⟩
      have hsig : lx.tok ≠ .BOUNDPARAM ∧ lx.tok ≠ .WS ∧ lx.tok ≠ .COMMENT := by rw [htok]; decide
      have hnp : ¬ lx.tok = .LPAREN := by rw [htok]; decide
      rw [parseUnaryExpr, wp_bind, wp_of_run_ok hrun, wp_ite, if_neg hnp, wp_bind, unscan_wp, wp_bind,
        wp_of_run_ok (InfluxQL.RT.scanIW_redeliver s1 lx r1 hj hsig.1 hsig.2.1 hsig.2.2)]
      obtain ⟨hlp, hchp⟩ := scan_lparen r1 _ hq
      obtain ⟨s2, hrun2, hj2, hsame2⟩ := pscan_look s1 r1 (Or.inl ⟨hj.1, hj.2.2⟩) (by rw [hlp]; decide)
      obtain ⟨tok, pos, lit⟩ := lx
      simp only at htok
      subst htok
      dsimp only
      rw [wp_bind, wp_of_run_ok hrun2, wp_ite, if_pos hlp]
      have hnm' : "distinct".toList = name := by rw [hdist]; rfl
      rw [hnm']
      refine wp_mono (ihC s2 name args k (tblOf htb (hsame.trans hsame2)) hname hargs hk hj2.1
        (by rw [hj2.2.2]; exact hchp)) ?_ (fun _ h => h)
      intro e' s3 ⟨he', hat3, hsame3⟩
      exact ⟨he', hat3, (hsame.trans hsame2).trans hsame3⟩
  | _ => simp [wOK] at ha

/-- The specifications hold for every amount of fuel. -/
theorem w_specs (tbl : List (Char × Char)) (F : Nat) :
    WSpecE tbl F ∧ WSpecL tbl F ∧ WSpecU tbl F ∧ WSpecC tbl F ∧ WSpecA tbl F := by
  induction F with
  | zero =>
    refine ⟨?_, ?_, ?_, ?_, ?_⟩
    · intro s e k _ _ _ _; rw [parseExpr, wp_throw]; rfl
    · intro s root rest k _ _ _ _; rw [exprLoop, wp_throw]; rfl
    · intro s a k _ _ _ _ _; rw [parseUnaryExpr, wp_throw]; rfl
    · intro s name args k _ _ _ _ _ _; rw [parseCall, wp_throw]; rfl
    · intro s name done rest k _ _ _ _; rw [callArgs, wp_throw]; rfl
  | succ F ih =>
    obtain ⟨ihE, ihL, ihU, ihC, ihA⟩ := ih
    exact ⟨wspecE_step F ihU ihL, wspecL_step F ihU ihL, wspecU_step F ihE ihC, wspecC_step F ihE ihA,
      wspecA_step F ihE ihA⟩

/-- `;` after a printed expression of the wide class (relative to the lower-casing table of the state):
the expression comes back and the parser stands before the `;`. -/
theorem parseExprW_semi (F : Nat) (s : PState) (e : Expr) (t : List Char) (he : wOK s.lowerTbl e = true)
    (hat : AtW s (e.print ++ ';' :: t)) :
    wp (parseExpr F) s (fun e' s' => e' = e ∧ Stand s' (';' :: t) ∧ Same s s') IsFuel :=
  (w_specs s.lowerTbl F).1 s e (';' :: t) rfl he (ExprEnd.semi t) hat

end InfluxQL.C02.Semi.RT

import InfluxQL.Lemmas.Scanner
/- Position facts about the scanner model. -/
namespace InfluxQL
open Gen

/-- The token kinds whose position the code takes from `curr()` after an `unread()`. -/
def Gen.Token.isStringFamily (t : Token) : Bool := t == .STRING || t == .BADSTRING || t == .BADESCAPE

theorem scanWhitespace_pos (c : Char) (pos : Pos) (r : Cursor) : (scanWhitespace c pos r).1.pos = pos := rfl

theorem scanNumber_pos (r : Cursor) (pos : Pos) : (scanNumber r pos).1.pos = pos := by
  unfold scanNumber
  dsimp only
  split
  · split <;> rfl
  · rfl

theorem scanString_family (r : Cursor) : (scanString r).1.tok.isStringFamily = true := by
  unfold scanString
  dsimp only
  split <;> rfl

theorem scanIdentLoop_pos (pos : Pos) (fuel : Nat) (r : Cursor) (buf : List Char) :
    ∀ lx, (scanIdentLoop pos fuel r buf).1.1 = some lx → lx.pos = pos ∨ lx.tok.isStringFamily = true := by
  induction fuel generalizing r buf with
  | zero => intro lx h; simp [scanIdentLoop] at h
  | succ fuel ih =>
    intro lx h
    simp only [scanIdentLoop] at h
    split at h
    · simp at h
    · split at h
      · split at h
        · rename_i hb
          simp at h; subst h
          right
          rcases hb with hb | hb <;> simp [Gen.Token.isStringFamily, hb]
        · simp at h; subst h; left; rfl
      · split at h
        · exact ih _ _ lx h
        · simp at h

theorem scanIdent_pos (lk : Bool) (r : Cursor) :
    (scanIdent lk r).1.pos = r.read.1.2 ∨ (scanIdent lk r).1.tok.isStringFamily = true := by
  unfold scanIdent
  dsimp only
  split
  · rename_i lx _ r' heq
    have := scanIdentLoop_pos (r.read.1).2 (r.rest.length + 2) r [] lx (by rw [heq])
    exact this
  · split <;> (left; rfl)

theorem scanFrom4_pos (ch0 : Char) (pos : Pos) (r1 : Cursor) : (scanFrom4 ch0 pos r1).1.pos = pos := by
  unfold scanFrom4; repeat' split
  all_goals rfl

theorem scanFrom3_pos (ch0 : Char) (pos : Pos) (r1 : Cursor) : (scanFrom3 ch0 pos r1).1.pos = pos := by
  unfold scanFrom3; repeat' split
  all_goals first
    | rfl
    | exact scanFrom4_pos _ _ _

theorem scanFrom2_pos (ch0 : Char) (pos : Pos) (r1 : Cursor) : (scanFrom2 ch0 pos r1).1.pos = pos := by
  unfold scanFrom2; repeat' split
  all_goals first
    | rfl
    | exact scanFrom3_pos _ _ _

theorem scanFrom_pos (ch0 : Char) (pos : Pos) (r r1 : Cursor) (hpos : pos = r.read.1.2) :
    (scanFrom ch0 pos r r1).1.pos = pos ∨ (scanFrom ch0 pos r r1).1.tok.isStringFamily = true := by
  unfold scanFrom
  repeat' split
  all_goals first
    | (left; rfl)
    | (left; exact scanNumber_pos _ _)
    | (left; exact scanFrom2_pos _ _ _)
    | (right; exact scanString_family _)
    | (rw [hpos]; exact scanIdent_pos _ _)

/-- `Scan` reports the stamp of the first rune it reads, except for the string family. -/
theorem scan_pos (r : Cursor) :
    (scan r).1.pos = r.read.1.2 ∨ (scan r).1.tok.isStringFamily = true :=
  scanFrom_pos _ _ r _ rfl

end InfluxQL
